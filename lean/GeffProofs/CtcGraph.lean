import GeffProofs.CtcSpec
/-! Consequences of the *specification* of the edge set (consecutive appearances + one
parent-last → child-first edge per row with a parent): graph validity and the tracklet
definition.  Generic in the node predicate `N a t l`. -/
namespace Geff.Ctc

/-- the edge list is: each pair of consecutive appearances once, then one edge per row with a
parent, from the last node of the parent label to the first node of the child label -/
def EdgeSpec (N : Nat → Nat → Int → Prop) (rows : List Row) (es : List (Nat × Nat)) : Prop :=
  ∃ (ce : List (Nat × Nat)) (f : Row → Nat × Nat), es = ce ++ rows.map f ∧ ce.Nodup ∧
    (∀ a b, (a, b) ∈ ce ↔ Consec N a b) ∧
    ∀ r ∈ rows, IsLast N r.P (f r).1 ∧ IsFirst N r.L (f r).2

section Generic
variable {N : Nat → Nat → Int → Prop} {rows : List Row} {es : List (Nat × Nat)}
variable (hU : ∀ a t t' l l', N a t l → N a t' l' → t = t' ∧ l = l')
variable (hI : ∀ a b t l, N a t l → N b t l → a = b)
variable (hord : ∀ r ∈ rows, ∀ a b tp tc, N a tp r.P → N b tc r.L → tp < tc)
variable (hone : (rows.map (·.L)).Nodup)
include hU

theorem consec_ne {a b : Nat} (h : Consec N a b) : a ≠ b := by
  obtain ⟨ta, tb, l, ha, hb, hlt, _⟩ := h
  rintro rfl
  have := (hU _ _ _ _ _ ha hb).1; omega

include hI in
theorem consec_succ_unique {a b w : Nat} (h1 : Consec N a b) (h2 : Consec N a w) : b = w := by
  obtain ⟨ta, tb, l, ha, hb, hlt, hno⟩ := h1
  obtain ⟨ta', tw, l', ha', hw, hlt', hno'⟩ := h2
  obtain ⟨rfl, rfl⟩ := hU _ _ _ _ _ ha ha'
  rcases Nat.lt_trichotomy tb tw with h | h | h
  · exact absurd ⟨hlt, h⟩ (hno' b tb hb)
  · subst h; exact hI _ _ _ _ hb hw
  · exact absurd ⟨hlt', h⟩ (hno w tw hw)

include hI in
theorem consec_pred_unique {a b w : Nat} (h1 : Consec N a b) (h2 : Consec N w b) : a = w := by
  obtain ⟨ta, tb, l, ha, hb, hlt, hno⟩ := h1
  obtain ⟨tw, tb', l', hw, hb', hlt', hno'⟩ := h2
  obtain ⟨rfl, rfl⟩ := hU _ _ _ _ _ hb hb'
  rcases Nat.lt_trichotomy ta tw with h | h | h
  · exact absurd ⟨h, hlt'⟩ (hno w tw hw)
  · subst h; exact hI _ _ _ _ ha hw
  · exact absurd ⟨h, hlt⟩ (hno' a ta ha)

/-- a node with a consecutive successor is not the last node of any label -/
theorem consec_not_last {a b : Nat} {l : Int} (h : Consec N a b) (hl : IsLast N l a) : False := by
  obtain ⟨ta, tb, l', ha, hb, hlt, _⟩ := h
  obtain ⟨t, ha', hmax⟩ := hl
  obtain ⟨rfl, rfl⟩ := hU _ _ _ _ _ ha ha'
  have := hmax b tb hb; omega

theorem consec_not_first {a b : Nat} {l : Int} (h : Consec N a b) (hl : IsFirst N l b) : False := by
  obtain ⟨ta, tb, l', ha, hb, hlt, _⟩ := h
  obtain ⟨t, hb', hmin⟩ := hl
  obtain ⟨rfl, rfl⟩ := hU _ _ _ _ _ hb hb'
  have := hmin a ta ha; omega

omit hU in
include hI in
theorem last_unique {l : Int} {a b : Nat} (h1 : IsLast N l a) (h2 : IsLast N l b) : a = b := by
  obtain ⟨ta, ha, hmaxa⟩ := h1
  obtain ⟨tb, hb, hmaxb⟩ := h2
  have h1 := hmaxa b tb hb
  have h2 := hmaxb a ta ha
  have : ta = tb := by omega
  subst this; exact hI _ _ _ _ ha hb

omit hU in
include hI in
theorem first_unique {l : Int} {a b : Nat} (h1 : IsFirst N l a) (h2 : IsFirst N l b) : a = b := by
  obtain ⟨ta, ha, hmina⟩ := h1
  obtain ⟨tb, hb, hminb⟩ := h2
  have h1 := hmina b tb hb
  have h2 := hminb a ta ha
  have : ta = tb := by omega
  subst this; exact hI _ _ _ _ ha hb

omit hU in
include hord in
/-- parent and child label of a row differ -/
theorem row_labels_ne {r : Row} (hr : r ∈ rows) {p c : Nat} (hp : IsLast N r.P p) (hc : IsFirst N r.L c) :
    r.P ≠ r.L := by
  obtain ⟨tp, hpN, hmax⟩ := hp
  obtain ⟨tc, hcN, _⟩ := hc
  intro heq
  have h1 := hord r hr p c tp tc hpN hcN
  have h2 := hmax c tc (by rw [heq]; exact hcN)
  omega

/-! ### graph validity -/

include hord hone in
theorem edges_valid (hspec : EdgeSpec N rows es) :
    (∀ a b, (a, b) ∈ es → (∃ t l, N a t l) ∧ (∃ t l, N b t l)) ∧
    (∀ a b, (a, b) ∈ es → a ≠ b) ∧ es.Nodup := by
  obtain ⟨ce, f, rfl, hcn, hce, hf⟩ := hspec
  refine ⟨?_, ?_, ?_⟩
  · intro a b hab
    rcases List.mem_append.1 hab with h | h
    · obtain ⟨ta, tb, l, ha, hb, _⟩ := (hce a b).1 h
      exact ⟨⟨ta, l, ha⟩, ⟨tb, l, hb⟩⟩
    · obtain ⟨r, hr, hfr⟩ := List.mem_map.1 h
      obtain ⟨⟨tp, hp, _⟩, ⟨tc, hc, _⟩⟩ := hf r hr
      rw [hfr] at hp hc
      exact ⟨⟨tp, _, hp⟩, ⟨tc, _, hc⟩⟩
  · intro a b hab
    rcases List.mem_append.1 hab with h | h
    · exact consec_ne hU ((hce a b).1 h)
    · obtain ⟨r, hr, hfr⟩ := List.mem_map.1 h
      obtain ⟨⟨tp, hp, _⟩, ⟨tc, hc, _⟩⟩ := hf r hr
      rw [hfr] at hp hc
      simp only at hp hc
      rintro rfl
      have h1 := hord r hr a a tp tc hp hc
      have h2 := (hU _ _ _ _ _ hp hc).1
      omega
  · rw [List.nodup_append]
    refine ⟨hcn, ?_, ?_⟩
    · refine List.Nodup.map_on ?_ (List.Nodup.of_map _ hone)
      intro r hr r' hr' heq
      obtain ⟨_, ⟨tc, hc, _⟩⟩ := hf r hr
      obtain ⟨_, ⟨tc', hc', _⟩⟩ := hf r' hr'
      rw [heq] at hc
      exact List.inj_on_of_nodup_map hone hr hr' (hU _ _ _ _ _ hc hc').2
    · intro x hx y hy heq
      subst heq
      obtain ⟨a, b⟩ := x
      obtain ⟨r, hr, hfr⟩ := List.mem_map.1 hy
      have hcons := (hce a b).1 hx
      have hl := (hf r hr).1
      rw [hfr] at hl
      exact consec_not_last hU hcons hl

/-! ### the tracklet definition -/

include hI in
/-- an edge between consecutive appearances is a tracklet edge -/
theorem consec_TE (hspec : EdgeSpec N rows es) {a b : Nat} (h : Consec N a b) : TE es a b := by
  obtain ⟨ce, f, rfl, hcn, hce, hf⟩ := hspec
  refine ⟨List.mem_append_left _ ((hce a b).2 h), ?_, ?_⟩
  · intro w hw
    rcases List.mem_append.1 hw with hw | hw
    · exact (consec_succ_unique hU hI h ((hce a w).1 hw)).symm
    · obtain ⟨r, hr, hfr⟩ := List.mem_map.1 hw
      have hl := (hf r hr).1
      rw [hfr] at hl
      exact (consec_not_last hU h hl).elim
  · intro w hw
    rcases List.mem_append.1 hw with hw | hw
    · exact (consec_pred_unique hU hI h ((hce w b).1 hw)).symm
    · obtain ⟨r, hr, hfr⟩ := List.mem_map.1 hw
      have hl := (hf r hr).2
      rw [hfr] at hl
      exact (consec_not_first hU h hl).elim

include hI hone in
/-- the parent → child edge of row `r` is a tracklet edge iff `r` is the only row of its parent -/
theorem parent_TE_iff {ce : List (Nat × Nat)} {f : Row → Nat × Nat}
    (hce : ∀ a b, (a, b) ∈ ce ↔ Consec N a b)
    (hf : ∀ r ∈ rows, IsLast N r.P (f r).1 ∧ IsFirst N r.L (f r).2) {r : Row} (hr : r ∈ rows) :
    TE (ce ++ rows.map f) (f r).1 (f r).2 ↔ ∀ r' ∈ rows, r'.P = r.P → r' = r := by
  constructor
  · rintro ⟨_, hout, _⟩ r' hr' hP
    have hl' := (hf r' hr').1
    rw [hP] at hl'
    have hp : (f r').1 = (f r).1 := last_unique hI hl' (hf r hr).1
    have hmem : ((f r).1, (f r').2) ∈ ce ++ rows.map f :=
      List.mem_append_right _ (List.mem_map.2 ⟨r', hr', by rw [← hp]⟩)
    have hc := hout _ hmem
    obtain ⟨t1, h1, _⟩ := (hf r' hr').2
    obtain ⟨t2, h2, _⟩ := (hf r hr).2
    rw [hc] at h1
    exact List.inj_on_of_nodup_map hone hr' hr (hU _ _ _ _ _ h1 h2).2
  · intro honly
    refine ⟨List.mem_append_right _ (List.mem_map.2 ⟨r, hr, rfl⟩), ?_, ?_⟩
    · intro w hw
      rcases List.mem_append.1 hw with hw | hw
      · exact (consec_not_last hU ((hce _ _).1 hw) (hf r hr).1).elim
      · obtain ⟨r', hr', hfr⟩ := List.mem_map.1 hw
        have h1 := (hf r' hr').1
        have hfst : (f r').1 = (f r).1 := by rw [hfr]
        rw [hfst] at h1
        obtain ⟨t1, hN1, _⟩ := h1
        obtain ⟨t2, hN2, _⟩ := (hf r hr).1
        have := honly r' hr' (hU _ _ _ _ _ hN1 hN2).2
        subst this; rw [hfr]
    · intro w hw
      rcases List.mem_append.1 hw with hw | hw
      · exact (consec_not_first hU ((hce _ _).1 hw) (hf r hr).2).elim
      · obtain ⟨r', hr', hfr⟩ := List.mem_map.1 hw
        have h1 := (hf r' hr').2
        have hsnd : (f r').2 = (f r).2 := by rw [hfr]
        rw [hsnd] at h1
        obtain ⟨t1, hN1, _⟩ := h1
        obtain ⟨t2, hN2, _⟩ := (hf r hr).2
        have := List.inj_on_of_nodup_map hone hr' hr (hU _ _ _ _ _ hN1 hN2).2
        subst this; rw [hfr]

include hI hord hone in
/-- **the tracklet definition holds iff every row with a parent has a sibling** (no parent has
exactly one child) -/
theorem tracklet_iff (hspec : EdgeSpec N rows es) (lab : Nat → Option Int)
    (hlab : ∀ a t l, N a t l → lab a = some l)
    (hchain : ∀ a b ta tb l, N a ta l → N b tb l →
      Relation.ReflTransGen (fun x y => Consec N x y ∨ Consec N y x) a b) :
    TrackletValid es (fun a => ∃ t l, N a t l) lab ↔
      ∀ r ∈ rows, ∃ r' ∈ rows, r'.P = r.P ∧ r'.L ≠ r.L := by
  have hspec' := hspec
  obtain ⟨ce, f, rfl, hcn, hce, hf⟩ := hspec
  constructor
  · intro hv r hr
    apply Classical.byContradiction
    intro hno
    have honly : ∀ r' ∈ rows, r'.P = r.P → r' = r := by
      intro r' hr' hP
      apply List.inj_on_of_nodup_map hone hr' hr
      apply Classical.byContradiction
      intro hne
      exact hno ⟨r', hr', hP, hne⟩
    have hTE := (parent_TE_iff hU hI hone hce hf hr).2 honly
    obtain ⟨tp, hp, _⟩ := (hf r hr).1
    obtain ⟨tc, hc, _⟩ := (hf r hr).2
    have := (hv.edge_iff _ _ ⟨tp, _, hp⟩ ⟨tc, _, hc⟩ hTE.1).2 hTE
    rw [hlab _ _ _ hp, hlab _ _ _ hc] at this
    exact row_labels_ne hord hr (hf r hr).1 (hf r hr).2 (Option.some.inj this)
  · intro hsib
    refine ⟨?_, ?_⟩
    · intro u v _ _ huv
      rcases List.mem_append.1 huv with h | h
      · have hcons := (hce u v).1 h
        have hte := consec_TE hU hI hspec' hcons
        obtain ⟨ta, tb, l, ha, hb, _⟩ := hcons
        rw [hlab _ _ _ ha, hlab _ _ _ hb]
        exact ⟨fun _ => hte, fun _ => rfl⟩
      · obtain ⟨r, hr, hfr⟩ := List.mem_map.1 h
        have hne := row_labels_ne hord hr (hf r hr).1 (hf r hr).2
        obtain ⟨tp, hp, _⟩ := (hf r hr).1
        obtain ⟨tc, hc, _⟩ := (hf r hr).2
        have hu : u = (f r).1 := by rw [hfr]
        have hv : v = (f r).2 := by rw [hfr]
        subst hu; subst hv
        rw [hlab _ _ _ hp, hlab _ _ _ hc]
        constructor
        · intro heq; exact absurd (Option.some.inj heq) hne
        · intro hte
          obtain ⟨r', hr', hP, hL⟩ := hsib r hr
          have := (parent_TE_iff hU hI hone hce hf hr).1 hte r' hr' hP
          subst this; exact absurd rfl hL
    · rintro a b ⟨ta, la, ha⟩ ⟨tb, lb, hb⟩ hl
      rw [hlab _ _ _ ha, hlab _ _ _ hb] at hl
      have hl' := Option.some.inj hl
      subst hl'
      refine Relation.ReflTransGen.mono ?_ a b (hchain a b ta tb la ha hb)
      intro x y hxy
      rcases hxy with h | h
      · exact Or.inl (consec_TE hU hI hspec' h)
      · exact Or.inr (consec_TE hU hI hspec' h)

end Generic

end Geff.Ctc
