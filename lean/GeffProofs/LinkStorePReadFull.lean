import GeffProofs.LinkStorePReadProps
/-! Integration layer, link C09 ← C01 (part 3): on a store in the image of C01's writer (`Written`),
C09's full read (`Geff.PRead.readToMemory`, i.e. `build` with all properties and no masks) of the
translated store contents `absStore s'` returns the translation `memOf r` of what C01's `readCore`
returns, and `absStore s'` satisfies C09's `Store.WF` (`pread_full_eq_readCore`). -/
namespace Geff.Link
open Geff.Np Geff.Store
open Geff.WR (PropArr PVals Props ReadResult lookupKey Writable RowsOK upcast vlenCodec encodeProp dtypeOfProp isVarlen
  Written attrOf readCore)
open Gen.Paths (NODES EDGES IDS PROPS VALUES MISSING DATA)

theorem forall₂_imp_mem {α β} {Q R : α → β → Prop} {l : List α} {l' : List β} (h : List.Forall₂ Q l l')
    (himp : ∀ a ∈ l, ∀ b, Q a b → R a b) : List.Forall₂ R l l' := by
  induction h with
  | nil => exact List.Forall₂.nil
  | cons hq _ ih =>
    exact List.Forall₂.cons (himp _ (List.mem_cons_self ..) _ hq)
      (ih (fun a ha b hb => himp a (List.mem_cons_of_mem _ ha) b hb))

theorem forall₂_mem_right {α β} {Q : α → β → Prop} {l : List α} {l' : List β} (h : List.Forall₂ Q l l') :
    ∀ b ∈ l', ∃ a ∈ l, Q a b := by
  induction h with
  | nil => intro b hb; cases hb
  | cons hq _ ih =>
    intro b hb
    rcases List.mem_cons.1 hb with rfl | hb
    · exact ⟨_, List.mem_cons_self .., hq⟩
    · obtain ⟨a, ha, h⟩ := ih b hb
      exact ⟨a, List.mem_cons_of_mem _ ha, h⟩

theorem forall₂_keys {β γ} {Q : String × β → String × γ → Prop} {l : List (String × β)} {l' : List (String × γ)}
    (h : List.Forall₂ Q l l') (hk : ∀ a b, Q a b → b.1 = a.1) : l'.map (·.1) = l.map (·.1) := by
  induction h with
  | nil => rfl
  | cons hq _ ih => simp only [List.map_cons, hk _ _ hq, ih]

/-- `readCore` step by step -/
theorem readCore_unfold (c : Geff.WR.VlenCodec) (s : St) (r : ReadResult) (h : readCore c s = .ok r) :
    ∃ md nodes edges nn en nz ez np ep, Geff.WR.readMeta s = .ok md ∧
      Geff.WR.expectArray s [NODES, IDS] = .ok nodes ∧ Geff.WR.expectArray s [EDGES, IDS] = .ok edges ∧
      Geff.WR.propNames s NODES = .ok nn ∧ Geff.WR.propNames s EDGES = .ok en ∧
      Geff.WR.readProps s [NODES, PROPS] nn = .ok nz ∧ Geff.WR.readProps s [EDGES, PROPS] en = .ok ez ∧
      Geff.WR.loadProps c md.nodeProps nz = .ok np ∧ Geff.WR.loadProps c md.edgeProps ez = .ok ep ∧
      r = ⟨nodes, edges, np, ep, md⟩ := by
  unfold readCore at h
  obtain ⟨_, _, h⟩ := Geff.WR.bind_ok _ _ _ h
  obtain ⟨md, hmd, h⟩ := Geff.WR.bind_ok _ _ _ h
  obtain ⟨nodes, hn, h⟩ := Geff.WR.bind_ok _ _ _ h
  obtain ⟨edges, he, h⟩ := Geff.WR.bind_ok _ _ _ h
  obtain ⟨nnames, h1, h⟩ := Geff.WR.bind_ok _ _ _ h
  obtain ⟨enames, h2, h⟩ := Geff.WR.bind_ok _ _ _ h
  obtain ⟨nz, h3, h⟩ := Geff.WR.bind_ok _ _ _ h
  obtain ⟨ez, h4, h⟩ := Geff.WR.bind_ok _ _ _ h
  obtain ⟨np, h5, h⟩ := Geff.WR.bind_ok _ _ _ h
  obtain ⟨ep, h6, h⟩ := Geff.WR.bind_ok _ _ _ h
  cases h
  exact ⟨md, nodes, edges, nnames, enames, nz, ez, np, ep, hmd, hn, he, h1, h2, h3, h4, h5, h6, rfl⟩

/-- one of the groups `nodes` / `edges` of a written store: C09's loop over the translated property
arrays returns the translation of what C01's reader loaded -/
theorem pread_group (s : St) (grp : String) (ps : Props) (mds : List (String × Geff.Store.PropMeta)) (n : Nat)
    (hpg : get s [grp, PROPS] = some (.group []))
    (hnames : ∀ k, (get s [grp, PROPS, k]).isSome ↔ k ∈ ps.map (·.1))
    (hat : ∀ kp ∈ ps, Geff.WR.PropAt vlenCodec s [grp, PROPS, kp.1] (upcast kp.2))
    (hw : ∀ kp ∈ ps, Writable kp.1 kp.2) (hr : ∀ kp ∈ ps, RowsOK n kp.2)
    (hmd : ∀ kp ∈ ps, ∃ pm, lookupKey kp.1 mds = some pm ∧ pm.dtype = (dtypeOfProp kp.2).name ∧
      pm.varlength = some (isVarlen kp.2))
    (M : List (String × Geff.PRead.PropMeta)) (hM : optMapSnd pmOf mds = some M)
    (names : List String) (zs : List (String × Geff.WR.ZarrProp)) (res : Props)
    (hn : Geff.WR.propNames s grp = .ok names) (hz : Geff.WR.readProps s [grp, PROPS] names = .ok zs)
    (hl : Geff.WR.loadProps vlenCodec mds zs = .ok res) :
    ∃ Z P, optMapSnd zpOf zs = some Z ∧ optMapSnd memPropOf res = some P ∧
      Geff.PRead.loadProps castId M none Z = .ok P ∧ (∀ q ∈ Z, q.2.lenOk n) ∧
      Geff.PRead.keys Z = names ∧ Geff.PRead.keys P = names ∧ names = groupKeys s [grp, PROPS] := by
  have hnames_eq : names = groupKeys s [grp, PROPS] := by
    unfold Geff.WR.propNames at hn
    obtain ⟨_, _, hn⟩ := Geff.WR.bind_ok _ _ _ hn
    rw [hpg] at hn
    cases hn; rfl
  have hmemn : ∀ k ∈ names, k ∈ ps.map (·.1) := by
    intro k hk
    rw [hnames_eq, mem_groupKeys] at hk
    apply (hnames k).1
    unfold isGroup at hk
    have : [grp, PROPS] ++ [k] = [grp, PROPS, k] := rfl
    rw [this] at hk
    cases hgk : get s [grp, PROPS, k] with
    | none => rw [hgk] at hk; cases hk
    | some e => rfl
  have hf1 := mapM_forall₂ _ _ _ hz
  have hf2 := mapM_forall₂ _ _ _ hl
  -- every entry that was read stems from a written property
  have horigin : ∀ kz ∈ zs, ∃ p v d pm, (kz.1, p) ∈ ps ∧ encodeProp vlenCodec (upcast p) = .ok (v, d) ∧
      kz.2 = ⟨v, (upcast p).missing, d⟩ ∧ lookupKey kz.1 mds = some pm ∧ pm.dtype = (dtypeOfProp p).name ∧
      pm.varlength = some (isVarlen p) := by
    intro kz hkz
    obtain ⟨k, hk, hq⟩ := forall₂_mem_right hf1 kz hkz
    obtain ⟨z, hrp, hq⟩ := Geff.WR.bind_ok _ _ _ hq
    cases hq
    obtain ⟨kp, hkp, rfl⟩ := List.mem_map.1 (hmemn k hk)
    obtain ⟨v, d, he, hr'⟩ := Geff.WR.readProp_of_propAt vlenCodec s [grp, PROPS] kp.1 (upcast kp.2) (hat kp hkp)
    rw [hr'] at hrp
    cases hrp
    obtain ⟨pm, h1, h2, h3⟩ := hmd kp hkp
    exact ⟨kp.2, v, d, pm, hkp, he, rfl, h1, h2, h3⟩
  have hR := forall₂_imp_mem hf2 (R := fun kz kp => kp.1 = kz.1 ∧ ∃ zp pm' mp, zpOf kz.2 = some zp ∧
      Geff.PRead.lookup kz.1 M = some pm' ∧ memPropOf kp.2 = some mp ∧
      Geff.PRead.loadPropToMemory castId zp none pm' = .ok mp ∧ zp.lenOk n) (by
    intro kz hkz kp hq
    obtain ⟨p, v, d, pm, hmem, he, hz2, hpm, hdt, hvl⟩ := horigin kz hkz
    have hload := Geff.WR.loadPropToMemory_written vlenCodec Geff.WR.vlenCodec_lawful kz.1 p (hw _ hmem) v d he pm hdt hvl
    simp only [hpm, hz2, hload, bind, Except.bind, pure, Except.pure, Except.ok.injEq] at hq
    subst hq
    obtain ⟨zp, pm', mp, h1, h2, h3, h4, h5⟩ := pread_loadProp kz.1 p n (hw _ hmem) (hr _ hmem) v d he pm hdt hvl
    obtain ⟨w, hw1, hw2⟩ := optMapSnd_lookup pmOf mds M hM kz.1 pm hpm
    rw [h2] at hw1
    cases hw1
    exact ⟨rfl, zp, pm', mp, by rw [hz2]; exact h1, hw2, h3, h4, h5⟩)
  obtain ⟨Z, P, hZ, hP, hload, hlen⟩ := pread_loadProps M n zs res hR
  have hkz : zs.map (·.1) = names := by
    have h := Geff.WR.mapM_fst (fun k => do pure (k, ← Geff.WR.readProp s [grp, PROPS] k)) (fun k => k) (·.1)
      (by
        intro a b hab
        obtain ⟨z, _, hab⟩ := Geff.WR.bind_ok _ _ _ hab
        cases hab; rfl) names zs hz
    simpa using h
  have hkp : res.map (·.1) = zs.map (·.1) := forall₂_keys hR (fun a b h => h.1)
  refine ⟨Z, P, hZ, hP, hload, hlen, ?_, ?_, hnames_eq⟩
  · unfold Geff.PRead.keys; rw [optMapSnd_keys zpOf zs Z hZ, hkz]
  · unfold Geff.PRead.keys; rw [optMapSnd_keys memPropOf res P hP, hkp, hkz]

theorem hasKey_congr {β γ} (a : List (String × β)) (b : List (String × γ)) (h : Geff.PRead.keys a = Geff.PRead.keys b)
    (k : String) : Geff.PRead.hasKey k a = Geff.PRead.hasKey k b := by
  rw [Geff.PRead.hasKey_eq_contains, Geff.PRead.hasKey_eq_contains, h]

theorem propsWF_of (n : Nat) (Z : List (String × Geff.PRead.ZarrProp)) (hnd : (Geff.PRead.keys Z).Nodup)
    (hlen : ∀ q ∈ Z, q.2.lenOk n) : Geff.PRead.propsWF n Z = true := by
  unfold Geff.PRead.propsWF
  rw [Bool.and_eq_true]
  refine ⟨(Geff.PRead.nodupB_iff _).2 hnd, ?_⟩
  rw [List.all_eq_true]
  intro q hq
  obtain ⟨h1, h2⟩ := hlen q hq
  rw [Bool.and_eq_true]
  refine ⟨by simpa using h1, ?_⟩
  cases hm : q.2.missing with
  | none => rfl
  | some m => simpa using h2 m hm

/-- **link C09 ← C01 (stores)**: on a store in the image of C01's writer, C09's full read of the translated
store contents succeeds and returns the translation of what C01's reader returns; the translated store is
structurally well formed in C09's sense (`Store.WF`). -/
theorem pread_full_eq_readCore (s0 s' : St) (nid eid : NdArr) (nps eps : Props) (md : Geff.WR.CallerMeta) (n e : Nat)
    (hW : Written vlenCodec s0 s' nid eid nps eps (attrOf md nps eps))
    (hnd_n : (nps.map (·.1)).Nodup) (hw_n : ∀ kp ∈ nps, Writable kp.1 kp.2) (hr_n : ∀ kp ∈ nps, RowsOK n kp.2)
    (hnd_e : (eps.map (·.1)).Nodup) (hw_e : ∀ kp ∈ eps, Writable kp.1 kp.2) (hr_e : ∀ kp ∈ eps, RowsOK e kp.2)
    (hmdN : ∀ kv ∈ md.nodeProps, kv.1 ∈ nps.map (·.1)) (hmdE : ∀ kv ∈ md.edgeProps, kv.1 ∈ eps.map (·.1))
    (ids : List Int) (hids : intsOf nid.flat = some ids) (hidn : ids.length = n)
    (es : List (Int × Int)) (hes : (intsOf eid.flat).bind pairsOf = some es) (hesn : es.length = e)
    (hkn : (groupKeys s' [NODES, PROPS]).Nodup) (hke : (groupKeys s' [EDGES, PROPS]).Nodup)
    (r : ReadResult) (hread : readCore vlenCodec s' = .ok r) :
    ∃ S full, absStore s' = some S ∧ memOf r = some full ∧ S.WF = true ∧ S.ids = ids ∧ S.edges = es ∧
      Geff.PRead.readToMemory castId S = .ok full := by
  obtain ⟨mdr, nodes, edges, nn, en, nz, ez, np, ep, e1, e2, e3, e4, e5, e6, e7, e8, e9, rfl⟩ :=
    readCore_unfold vlenCodec s' r hread
  -- what the written store determines
  obtain ⟨a, hroot, hgeff⟩ := hW.root
  have hm : Geff.WR.readMeta s' = .ok (attrOf md nps eps) := by
    unfold Geff.WR.readMeta; rw [hroot]; simp only [hgeff]; rfl
  rw [hm] at e1; cases e1
  have h1 : Geff.WR.expectArray s' [NODES, IDS] = .ok nid := by unfold Geff.WR.expectArray; rw [hW.nodeIds]; rfl
  have h2 : Geff.WR.expectArray s' [EDGES, IDS] = .ok eid := by unfold Geff.WR.expectArray; rw [hW.edgeIds]; rfl
  rw [h1] at e2; cases e2
  rw [h2] at e3; cases e3
  -- the metadata parses
  obtain ⟨Mn, hMn⟩ := optMapSnd_all pmOf (attrOf md nps eps).nodeProps (by
    intro kv hkv
    obtain ⟨p, _, hd, hv⟩ := Geff.Bridge.stored_entries md.nodeProps nps hmdN kv hkv
    exact ⟨_, by unfold pmOf; rw [hd, Dtype.ofName_name]; rfl⟩)
  obtain ⟨Me, hMe⟩ := optMapSnd_all pmOf (attrOf md nps eps).edgeProps (by
    intro kv hkv
    obtain ⟨p, _, hd, hv⟩ := Geff.Bridge.stored_entries md.edgeProps eps hmdE kv hkv
    exact ⟨_, by unfold pmOf; rw [hd, Dtype.ofName_name]; rfl⟩)
  obtain ⟨Zn, Pn, hZn, hPn, hloadn, hlenn, hkZn, hkPn, hnn⟩ := pread_group s' NODES nps (attrOf md nps eps).nodeProps n
    hW.nodePropsGrp hW.nodeNames hW.nodeProps hw_n hr_n (Geff.WR.stored_meta md.nodeProps nps hnd_n) Mn hMn nn nz np e4 e6 e8
  obtain ⟨Ze, Pe, hZe, hPe, hloade, hlene, hkZe, hkPe, hen⟩ := pread_group s' EDGES eps (attrOf md nps eps).edgeProps e
    hW.edgePropsGrp hW.edgeNames hW.edgeProps hw_e hr_e (Geff.WR.stored_meta md.edgeProps eps hnd_e) Me hMe en ez ep e5 e7 e9
  have hndZn : (Geff.PRead.keys Zn).Nodup := by rw [hkZn, hnn]; exact hkn
  have hndZe : (Geff.PRead.keys Ze).Nodup := by rw [hkZe, hen]; exact hke
  let S : Geff.PRead.Store := ⟨ids, es, Zn, Ze, Mn, Me, metaRestOf (attrOf md nps eps)⟩
  refine ⟨S, ⟨ids, es, Pn, Pe, Mn.filter (fun p => Geff.PRead.hasKey p.1 Pn), Me.filter (fun p => Geff.PRead.hasKey p.1 Pe),
    metaRestOf (attrOf md nps eps)⟩, ?_, ?_, ?_, rfl, rfl, ?_⟩
  · unfold absStore
    simp only [hm, h1, h2, e4, e5, e6, e7, hids, hes, hZn, hZe, hMn, hMe]
    rfl
  · unfold memOf
    simp only [hids, hes, hPn, hPe, hMn, hMe]
  · show (Geff.PRead.propsWF ids.length Zn && Geff.PRead.propsWF es.length Ze) = true
    rw [hidn, hesn, propsWF_of n Zn hndZn hlenn, propsWF_of e Ze hndZe hlene]; rfl
  · unfold Geff.PRead.readToMemory Geff.PRead.build
    have r1 : (Geff.PRead.readAll S).nodeProps = Zn := Geff.PRead.readAll_nodeProps S hndZn
    have r2 : (Geff.PRead.readAll S).edgeProps = Ze := Geff.PRead.readAll_edgeProps S hndZe
    have r3 : (Geff.PRead.readAll S).store = S := rfl
    simp only [r1, r2, r3, Geff.PRead.maskToIndices, Geff.PRead.loadZarrSubset, Geff.PRead.combineEdgeMask,
      bind, Except.bind, pure, Except.pure]
    have hS1 : S.nodeMeta = Mn := rfl
    have hS2 : S.edgeMeta = Me := rfl
    simp only [hS1, hS2, hloadn, hloade, Geff.PRead.pruneMeta]
    have f1 : (fun p : String × Geff.PRead.PropMeta => Geff.PRead.hasKey p.1 Zn) = fun p => Geff.PRead.hasKey p.1 Pn := by
      funext p; exact hasKey_congr Zn Pn (by rw [hkZn, hkPn]) p.1
    have f2 : (fun p : String × Geff.PRead.PropMeta => Geff.PRead.hasKey p.1 Ze) = fun p => Geff.PRead.hasKey p.1 Pe := by
      funext p; exact hasKey_congr Ze Pe (by rw [hkZe, hkPe]) p.1
    rw [f1, f2]

/-- the property groups of a freshly written store are pairwise distinct (from `LE1`) -/
theorem written_groupKeys_nodup (c : Geff.WR.VlenCodec) (s0 s' : St) (g : Geff.WR.InMem) (md : Geff.WR.CallerMeta)
    (u : Geff.WR.Unsquish) (hfresh : Geff.WR.Fresh s0) (hwrite : Geff.WR.writeCore c s0 g md u = .ok s') :
    (groupKeys s' [NODES, PROPS]).Nodup ∧ (groupKeys s' [EDGES, PROPS]).Nodup := by
  have hle := Geff.WR.le1_writeCore c s0 s' g md u hwrite
  constructor
  · apply Geff.WR.groupKeys_nodup
    intro k
    have := hle ([NODES, PROPS] ++ [k])
    have h0 : Geff.WR.cnt s0 ([NODES, PROPS] ++ [k]) = 0 := Geff.WR.cnt_eq_zero_of_get_none s0 _ (hfresh.nodes [PROPS, k])
    omega
  · apply Geff.WR.groupKeys_nodup
    intro k
    have := hle ([EDGES, PROPS] ++ [k])
    have h0 : Geff.WR.cnt s0 ([EDGES, PROPS] ++ [k]) = 0 := Geff.WR.cnt_eq_zero_of_get_none s0 _ (hfresh.edges [PROPS, k])
    omega

theorem writeCore_of_writeArrays (c : Geff.WR.VlenCodec) (validate : St → Outcome Unit) (s0 s' : St) (g : Geff.WR.InMem)
    (md : Geff.WR.CallerMeta) (h : Geff.WR.writeArrays c validate s0 g md = .ok s') :
    Geff.WR.writeCore c s0 g md = .ok s' := by
  unfold Geff.WR.writeArrays at h
  obtain ⟨s, hs, h⟩ := Geff.WR.bind_ok _ _ _ h
  obtain ⟨_, _, h⟩ := Geff.WR.bind_ok _ _ _ h
  cases h
  exact hs

theorem intsOf_length : ∀ (fl : List Val) (l : List Int), intsOf fl = some l → l.length = fl.length := by
  intro fl
  induction fl with
  | nil => intro l h; simp only [intsOf, Option.some.injEq] at h; subst h; rfl
  | cons v t ih =>
    intro l h
    cases v with
    | i x =>
      simp only [intsOf, Option.map_eq_some_iff] at h
      obtain ⟨l', hl', rfl⟩ := h
      simp [ih l' hl']
    | b x => simp [intsOf] at h
    | f x => simp [intsOf] at h
    | s x => simp [intsOf] at h

theorem pairsOf_length : ∀ (n : Nat) (l : List Int) (ps : List (Int × Int)), l.length ≤ n → pairsOf l = some ps →
    l.length = 2 * ps.length := by
  intro n
  induction n with
  | zero =>
    intro l ps hl h
    have : l = [] := List.eq_nil_of_length_eq_zero (by omega)
    subst this
    simp only [pairsOf, Option.some.injEq] at h; subst h; rfl
  | succ n ih =>
    intro l ps hl h
    match l, h with
    | [], h => simp only [pairsOf, Option.some.injEq] at h; subst h; rfl
    | [_], h => simp [pairsOf] at h
    | a :: b :: t, h =>
      simp only [pairsOf, Option.map_eq_some_iff] at h
      obtain ⟨ps', hps', rfl⟩ := h
      have := ih t ps' (by simp at hl; omega) hps'
      simp [this]; omega

end Geff.Link
