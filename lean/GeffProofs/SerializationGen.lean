import Gen.Serialization
/-! Helper lemmas: the source-translated codec `Gen.Serialization.*` (translator T12) equals the
hand-written model `Geff.Vlen.*`.  The loop of `serialize_vlen_property_data` is characterised by a
one-step specification (`stepSpec`) and an induction over the element list (`forIn_spec`); the proof
of the step consumes the generated loop body by unification, so the statement does not repeat the
generated text. -/
namespace GeffProofs.SerializationGen
open Geff.Np Geff.Vlen Geff.PyDo Gen.Serialization

/-- the loop state of the generated code: `(encoded_values, data, offset, dtype, ndim)` -/
abbrev St := List (Nat × List Nat) × List NdArr × Nat × Option Dtype × Option Nat

def mkSt (ev : List (Nat × List Nat)) (data : List NdArr) (off : Nat) (first : Option (Nat × Dtype)) : St :=
  (ev, data, off, first.map (·.2), first.map (·.1))

/-- what one iteration of the loop does, written by hand -/
def stepSpec (element : PyElem) (ev : List (Nat × List Nat)) (data : List NdArr) (off : Nat)
    (first : Option (Nat × Dtype)) : Outcome (ForInStep St) :=
  match element with
  | .notArray => .valueError
  | .arr a =>
    match first with
    | none => .ok (.yield (mkSt (ev ++ [(off, a.shape)]) (data ++ [ravelArr a]) (off + prod a.shape) (some (a.ndim, a.dtype))))
    | some (nd, dt) =>
      if a.ndim ≠ nd then .valueError else if a.dtype ≠ dt then .valueError
      else .ok (.yield (mkSt (ev ++ [(off, a.shape)]) (data ++ [ravelArr a]) (off + prod a.shape) (some (nd, dt))))

def rowsFrom (off : Nat) (l : List NdArr) := (encodeAux off l).1
def total (l : List NdArr) : Nat := (l.map (fun a => prod a.shape)).sum
def firstAfter (first : Option (Nat × Dtype)) (l : List NdArr) : Option (Nat × Dtype) :=
  match first, l with
  | some f, _ => some f
  | none, [] => none
  | none, a :: _ => some (a.ndim, a.dtype)

theorem forIn_spec (body : PyElem → St → Outcome (ForInStep St))
    (hstep : ∀ element ev data off first, body element (mkSt ev data off first) = stepSpec element ev data off first)
    (values : List PyElem) : ∀ ev data off first,
    forIn values (mkSt ev data off first) body =
      match checkElems first values with
      | .ok l => .ok (mkSt (ev ++ rowsFrom off l) (data ++ l.map ravelArr) (off + total l) (firstAfter first l))
      | .valueError => .valueError
      | .typeError => .typeError
      | .other n => .other n
      | .unmodelled w => .unmodelled w := by
  induction values with
  | nil => intro ev data off first; cases first <;> simp [checkElems, rowsFrom, encodeAux, total, firstAfter, pure]
  | cons e es ih =>
    intro ev data off first
    rw [List.forIn_cons, hstep]
    cases e with
    | notArray => simp [stepSpec, checkElems, bind]
    | arr a =>
      cases first with
      | none =>
        simp only [stepSpec, checkElems, bind]
        rw [ih]
        cases h : checkElems (some (a.ndim, a.dtype)) es <;> simp [rowsFrom, encodeAux, total, firstAfter, List.append_assoc, Nat.add_assoc]
      | some f =>
        obtain ⟨nd, dt⟩ := f
        simp only [stepSpec, checkElems]
        by_cases h1 : a.ndim = nd
        · by_cases h2 : a.dtype = dt
          · simp only [h1, h2, ne_eq, not_true_eq_false, ite_false, bind]
            rw [ih]
            cases h : checkElems (some (nd, dt)) es <;> simp [rowsFrom, encodeAux, total, firstAfter, List.append_assoc, Nat.add_assoc]
          · simp [h1, h2, bind]
        · simp [h1, bind]

theorem forIn_init (body : PyElem → St → Outcome (ForInStep St))
    (hstep : ∀ element ev data off first, body element (mkSt ev data off first) = stepSpec element ev data off first)
    (values : List PyElem) :
    forIn values (([], [], 0, none, none) : St) body =
      match checkElems none values with
      | .ok l => .ok (mkSt (rowsFrom 0 l) (l.map ravelArr) (total l) (firstAfter none l))
      | .valueError => .valueError
      | .typeError => .typeError
      | .other n => .other n
      | .unmodelled w => .unmodelled w := by
  have := forIn_spec body hstep values [] [] 0 none
  simpa [mkSt] using this

theorem encodeAux_snd (off : Nat) (l : List NdArr) : (encodeAux off l).2 = l.flatMap (·.flat) := by
  induction l generalizing off with
  | nil => simp [encodeAux]
  | cons a t ih => simp [encodeAux, ih]

theorem flat_ravel (t : List NdArr) :
    List.flatMap (fun x => x.flat) (List.map ravelArr t) = List.flatMap (fun x => x.flat) t := by
  induction t with
  | nil => rfl
  | cons a t ih => simp [ravelArr, ih]

/-- the result of the model with the `missing` entry passed through -/
def withMissing {μ : Type} (m : μ) : Outcome (NdArr × NdArr) → Outcome (NdArr × μ × NdArr)
  | .ok (v, d) => .ok (v, m, d)
  | .valueError => .valueError
  | .typeError => .typeError
  | .other n => .other n
  | .unmodelled w => .unmodelled w

theorem serialize_eq {μ : Type} (pd : PropDict μ) :
    serializeVlenPropertyData pd = withMissing pd.missing (serializeVlenPy pd.values) := by
  unfold serializeVlenPropertyData
  show (forIn pd.values (([], [], 0, none, none) : St) _ >>= _) = _
  rw [forIn_init]
  · unfold serializeVlenPy
    cases h : checkElems none pd.values with
    | ok l =>
      cases l with
      | nil => simp [withMissing, bind, pure, mkSt, rowsFrom, encodeAux, encode, Encoded.valuesArr, Encoded.dataArr, emptyU64, emptyArr, dataDtype]
      | cons a t =>
        simp [withMissing, bind, pure, mkSt, rowsFrom, encodeAux, encode, Encoded.valuesArr, Encoded.dataArr, asarrayU64, concatenate, dataDtype, encodeAux_snd, flat_ravel]
        simp [ravelArr]
    | _ => simp [withMissing, bind]
  · intro element ev data off first
    cases element with
    | notArray => simp [stepSpec, isNdarray, raiseValueError, bind]
    | arr a =>
      cases first with
      | none => simp [stepSpec, mkSt, isNdarray, Geff.PyDo.ndim, Geff.PyDo.dtype, Geff.PyDo.shape, ravel, shapeProd, bind, pure]
      | some f =>
        obtain ⟨nd, dt⟩ := f
        by_cases h1 : a.ndim = nd <;> by_cases h2 : a.dtype = dt <;>
          simp [stepSpec, mkSt, isNdarray, Geff.PyDo.ndim, Geff.PyDo.dtype, Geff.PyDo.shape, ravel, shapeProd, raiseValueError, bind, pure, h1, h2]

/-! ## the decoder -/

/-- row `i` of a parsed table is what `values[i]` holds -/
theorem parseRows_get (w : Nat) : ∀ (n : Nat) (flat : List Val) (rows : List (Nat × List Nat)),
    parseRows w n flat = some rows → rows.length = n ∧ ∀ i (_ : i < n), ∃ o sh v rest,
      rows[i]? = some (o, sh) ∧ (flat.drop (i * w)).take w = v :: rest ∧ valNat? v = some o ∧ rest.mapM valNat? = some sh := by
  intro n
  induction n with
  | zero => intro flat rows h; simp [parseRows] at h; subst h; simp
  | succ n ih =>
    intro flat rows h
    simp only [parseRows] at h
    cases h1 : (flat.take w).mapM valNat? with
    | none => simp [h1] at h
    | some l =>
      cases l with
      | nil => simp [h1] at h
      | cons o sh =>
        simp only [h1] at h
        cases h2 : parseRows w n (flat.drop w) with
        | none => simp [h2] at h
        | some rs =>
          simp only [h2, Option.some.injEq] at h
          subst h
          obtain ⟨hl, hr⟩ := ih _ _ h2
          refine ⟨by simp [hl], ?_⟩
          intro i hi
          cases i with
          | zero =>
            cases hft : flat.take w with
            | nil => simp [hft] at h1
            | cons v rest =>
              simp only [hft, List.mapM_cons, Option.bind_eq_bind] at h1
              cases hv : valNat? v with
              | none => simp [hv] at h1
              | some o' =>
                cases hr' : rest.mapM valNat? with
                | none => simp [hv, hr'] at h1
                | some sh' =>
                  simp [hv, hr'] at h1
                  exact ⟨o, sh, v, rest, by simp, by simpa using hft, by rw [hv, h1.1], by rw [hr', h1.2]⟩
          | succ j =>
            obtain ⟨o', sh', v, rest, a, b, c, d⟩ := hr j (by omega)
            refine ⟨o', sh', v, rest, by simpa using a, ?_, c, d⟩
            rw [← b, List.drop_drop]
            congr 2
            rw [Nat.succ_mul]; omega

/-- one call of the generated `_deserialize_vlen_value` on a well-formed table -/
theorem value_eq (values data : NdArr) (n w : Nat) (rows : List (Nat × List Nat))
    (hs : values.shape = [n, w]) (hd : data.shape.length = 1)
    (hp : parseRows w n values.flat = some rows) (i : Nat) (hi : i < n) :
    ∃ row, rows[i]? = some row ∧ deserializeVlenValue values data i = decodeRow data.dtype data.flat row := by
  obtain ⟨_, hr⟩ := parseRows_get w n values.flat rows hp
  obtain ⟨o, sh, v, rest, a, b, c, d⟩ := hr i hi
  refine ⟨(o, sh), a, ?_⟩
  have hnot : ¬ (n ≤ i) := by omega
  simp [deserializeVlenValue, shapeAt, getItem, hs, hi, hnot, b, Sub.first, Sub.rest, sliceReshape, hd, c, d, bind]

/-- `[f s, …, f (s+k-1)]`, stopping at the first failure -/
def collect (f : Nat → Outcome NdArr) : Nat → Nat → Outcome (List NdArr)
  | _, 0 => .ok []
  | s, k + 1 =>
    match f s with
    | .ok v =>
      (match collect f (s + 1) k with
       | .ok l => .ok (v :: l)
       | e => e)
    | .valueError => .valueError
    | .typeError => .typeError
    | .other n => .other n
    | .unmodelled w => .unmodelled w

def liftList {μ : Type} (m : μ) : Outcome (List NdArr) → Outcome (List (Option NdArr) × μ)
  | .ok l => .ok (l.map some, m)
  | .valueError => .valueError
  | .typeError => .typeError
  | .other n => .other n
  | .unmodelled w => .unmodelled w

theorem fill_spec (f : Nat → Outcome NdArr)
    (body : Nat → List (Option NdArr) → Outcome (ForInStep (List (Option NdArr))))
    (hstep : ∀ i dv, body i dv = (match f i with
        | .ok v => (match setItem dv i v with
            | .ok t => .ok (.yield t)
            | .valueError => .valueError | .typeError => .typeError | .other n => .other n | .unmodelled w => .unmodelled w)
        | .valueError => .valueError | .typeError => .typeError | .other n => .other n | .unmodelled w => .unmodelled w)) :
    ∀ (k s : Nat) (pre : List NdArr), pre.length = s →
    forIn (List.range' s k) (pre.map some ++ List.replicate k none) body =
      match collect f s k with
      | .ok l => .ok (pre.map some ++ l.map some)
      | .valueError => .valueError
      | .typeError => .typeError
      | .other n => .other n
      | .unmodelled w => .unmodelled w := by
  intro k
  induction k with
  | zero => intro s pre _; simp [collect, pure]
  | succ k ih =>
    intro s pre hpre
    subst hpre
    rw [List.range'_succ, List.forIn_cons, hstep]
    cases hf : f pre.length with
    | ok v =>
      have hset : setItem (pre.map some ++ List.replicate (k + 1) none) pre.length v
          = .ok ((pre ++ [v]).map some ++ List.replicate k none) := by
        simp [setItem, List.replicate_succ]
      simp only [hset, collect, hf, bind]
      rw [ih (pre.length + 1) (pre ++ [v]) (by simp)]
      cases collect f (pre.length + 1) k <;> simp
    | _ => simp [collect, hf, bind]

theorem collect_eq_decodeRows (values data : NdArr) (n w : Nat) (rows : List (Nat × List Nat))
    (hs : values.shape = [n, w]) (hd : data.shape.length = 1)
    (hp : parseRows w n values.flat = some rows) :
    ∀ k s, s + k = n →
      collect (deserializeVlenValue values data) s k = decodeRows data.dtype data.flat (rows.drop s) := by
  have hlen : rows.length = n := (parseRows_get w n values.flat rows hp).1
  intro k
  induction k with
  | zero => intro s h; simp [collect, show rows.drop s = [] by simp [hlen]; omega, decodeRows]
  | succ k ih =>
    intro s h
    obtain ⟨row, hrow, hv⟩ := value_eq values data n w rows hs hd hp s (by omega)
    have hdrop : rows.drop s = row :: rows.drop (s + 1) := by
      have hs' : s < rows.length := by omega
      rw [List.drop_eq_getElem_cons hs']
      congr 1
      rw [List.getElem?_eq_getElem hs'] at hrow
      exact Option.some.inj hrow
    rw [hdrop]
    simp only [collect, hv, decodeRows]
    rw [ih (s + 1) (by omega)]
    cases decodeRow data.dtype data.flat row <;> rfl

theorem fill_init (f : Nat → Outcome NdArr)
    (body : Nat → List (Option NdArr) → Outcome (ForInStep (List (Option NdArr))))
    (hstep : ∀ i dv, body i dv = (match f i with
        | .ok v => (match setItem dv i v with
            | .ok t => .ok (.yield t)
            | .valueError => .valueError | .typeError => .typeError | .other n => .other n | .unmodelled w => .unmodelled w)
        | .valueError => .valueError | .typeError => .typeError | .other n => .other n | .unmodelled w => .unmodelled w))
    (n : Nat) :
    forIn (List.range n) (emptyObj n) body =
      match collect f 0 n with
      | .ok l => .ok (l.map some)
      | .valueError => .valueError
      | .typeError => .typeError
      | .other n => .other n
      | .unmodelled w => .unmodelled w := by
  have := fill_spec f body hstep n 0 [] rfl
  simpa [List.range_eq_range', emptyObj] using this

theorem body_step (values data : NdArr) (i : Nat) (dv : List (Option NdArr)) :
    (do let t3 ← deserializeVlenValue values data i
        let t4 ← setItem dv i t3
        pure (ForInStep.yield t4) : Outcome (ForInStep (List (Option NdArr)))) =
    (match deserializeVlenValue values data i with
        | .ok v => (match setItem dv i v with
            | .ok t => .ok (.yield t)
            | .valueError => .valueError | .typeError => .typeError | .other n => .other n | .unmodelled w => .unmodelled w)
        | .valueError => .valueError | .typeError => .typeError | .other n => .other n | .unmodelled w => .unmodelled w) := by
  cases deserializeVlenValue values data i with
  | ok v => cases h : setItem dv i v <;> simp [bind, pure, h]
  | _ => simp [bind]

theorem deserialize_eq {μ : Type} (values data : NdArr) (m : μ)
    (h1d : ∀ n, values.shape = [n] → values.flat.length = n)
    (hmod : ∀ w, deserializeVlen values data ≠ .unmodelled w) :
    deserializeVlenPropertyData values m data = liftList m (deserializeVlen values data) := by
  by_cases hd : data.shape.length = 1
  case neg => exact absurd (by simp [deserializeVlen, hd]) (hmod "data is not 1-D")
  have main : ∀ n, values.shape.head? = some n →
      deserializeVlenPropertyData values m data =
        (match collect (deserializeVlenValue values data) 0 n with
          | .ok l => .ok (l.map some, m)
          | .valueError => .valueError
          | .typeError => .typeError
          | .other n => .other n
          | .unmodelled w => .unmodelled w) := by
    intro n hn
    unfold deserializeVlenPropertyData
    have h1 : lenArr values = .ok n := by
      unfold lenArr; cases hsh : values.shape <;> simp_all
    have h2 : shapeAt values 0 = .ok n := by
      unfold shapeAt; cases hsh : values.shape <;> simp_all
    rw [h1, h2]
    show ((forIn (List.range n) (emptyObj n) _ : Outcome (List (Option NdArr))) >>= _) = _
    rw [fill_init (deserializeVlenValue values data) _ (fun i dv => body_step values data i dv)]
    cases collect (deserializeVlenValue values data) 0 n <;> rfl
  cases hsh : values.shape with
  | nil => exact absurd (by simp [deserializeVlen, hd, hsh]) (hmod "values table is not 1-D or 2-D")
  | cons n rest =>
    rw [main n (by simp [hsh])]
    cases rest with
    | nil =>
      -- a 1-D table
      cases n with
      | zero => simp [deserializeVlen, hd, hsh, collect, liftList]
      | succ k =>
        have hflat : values.flat.length = k + 1 := h1d _ hsh
        obtain ⟨v, hv⟩ : ∃ v, values.flat[0]? = some v := by
          cases hf : values.flat with
          | nil => simp [hf] at hflat
          | cons v _ => exact ⟨v, by simp⟩
        have : deserializeVlenValue values data 0 = .other "IndexError" := by
          simp [deserializeVlenValue, shapeAt, getItem, hsh, hv, Sub.first, bind]
        simp [deserializeVlen, hd, hsh, collect, this, liftList]
    | cons w rest2 =>
      cases rest2 with
      | cons x r => exact absurd (by simp [deserializeVlen, hd, hsh]) (hmod "values table is not 1-D or 2-D")
      | nil =>
        cases n with
        | zero => simp [deserializeVlen, hd, hsh, collect, liftList]
        | succ k =>
          cases w with
          | zero =>
            have : deserializeVlenValue values data 0 = .other "IndexError" := by
              simp [deserializeVlenValue, shapeAt, getItem, hsh, Sub.first, bind]
            simp [deserializeVlen, hd, hsh, collect, this, liftList]
          | succ w' =>
            cases hp : parseRows (w' + 1) (k + 1) values.flat with
            | none =>
              exact absurd (by simp [deserializeVlen, hd, hsh, hp])
                (hmod "values table is not a well-formed array of non-negative integers")
            | some rows =>
              rw [collect_eq_decodeRows values data (k + 1) (w' + 1) rows hsh hd hp (k + 1) 0 (by omega)]
              simp only [deserializeVlen, hd, hsh, hp, List.drop_zero]
              cases decodeRows data.dtype data.flat rows <;> simp [liftList]
end GeffProofs.SerializationGen
