import Gen.BaseWrite
import GeffProofs.WriteRead
import GeffProofs.SerializationGen
/-! Helper lemmas: the source-translated writer `Gen.BaseWrite.*` (translator T22) equals the
hand-written model `Geff.WR.*` of `GeffModel/WriteRead.lean`.  Every generated `for` loop is
characterised by a hand-written one-step specification plus an induction over the list; the proof of
the step consumes the generated loop body by unification (`rw [loop_spec _ _ ?hstep]`), so no
statement repeats generated text. -/
namespace GeffProofs.BaseWriteGen
open Geff.Np Geff.Store Geff.WR Geff.PyDoWrite Gen.Paths
set_option linter.unusedSimpArgs false

/-! ## `write_id_arrays` -/

theorem writeIdArrays_eq (s : St) (r : StoreRef) (n e : NdArr) (f : Fmt) :
    Gen.BaseWrite.writeIdArrays s r n e f = Geff.WR.writeIdArrays s n e := by
  unfold Gen.BaseWrite.writeIdArrays Geff.WR.writeIdArrays
  by_cases h1 : n.dtype = e.dtype <;> by_cases h2 : n.dtype.isInteger = true <;>
    simp [h1, h2, issubdtypeInteger, setupZarrGroup, groupSetItem, raiseTypeError, bind, Except.bind, pure, Except.pure,
      throw, throwThe, MonadExceptOf.throw]

/-! ## `write_props_arrays`: the property loop -/

theorem setArray_of_some (s : St) (q : Path) (k : String) (a : NdArr) (e : Entry) (h : get s q = some e) :
    setArray s q k a = set s (q ++ [k]) (.array a) := by
  unfold setArray; rw [ensureGroup_of_some s q e h]

theorem get_set_child (s : St) (q : Path) (k : String) (e : Entry) : get (set s (q ++ [k]) e) q = get s q :=
  get_set_other s (q ++ [k]) q e (append_singleton_ne_self q k).symm

/-- the three `prop_group[...] = ...` assignments after `create_group` are `storeProp` -/
theorem sets_eq_storeProp (s : St) (q : Path) (v : NdArr) (m d : Option NdArr) :
    (do
      let s1 ← groupSetItem (set s q (.group [])) q [VALUES] v
      let s2 ← (match m with | some mv => groupSetItem s1 q [MISSING] mv | none => pure s1)
      match d with | some dv => groupSetItem s2 q [DATA] dv | none => pure s2) = (pure (storeProp s q v m d) : Outcome St) := by
  have h0 : get (set s q (.group [])) q = some (.group []) := get_set_same _ _ _
  have h1 : get (set (set s q (.group [])) (q ++ [VALUES]) (.array v)) q = some (.group []) := by
    rw [get_set_child]; exact h0
  cases m with
  | none =>
    cases d with
    | none => simp [groupSetItem, storeProp, setArray_of_some _ _ _ _ _ h0, bind, Except.bind, pure, Except.pure]
    | some dv => simp [groupSetItem, storeProp, setArray_of_some _ _ _ _ _ h0, setArray_of_some _ _ _ _ _ h1, bind, Except.bind, pure, Except.pure]
  | some mv =>
    have h2 : get (set (set (set s q (.group [])) (q ++ [VALUES]) (.array v)) (q ++ [MISSING]) (.array mv)) q = some (.group []) := by
      rw [get_set_child]; exact h1
    cases d with
    | none => simp [groupSetItem, storeProp, setArray_of_some _ _ _ _ _ h0, setArray_of_some _ _ _ _ _ h1, bind, Except.bind, pure, Except.pure]
    | some dv => simp [groupSetItem, storeProp, setArray_of_some _ _ _ _ _ h0, setArray_of_some _ _ _ _ _ h1, setArray_of_some _ _ _ _ _ h2, bind, Except.bind, pure, Except.pure]

theorem mkPropMeta_varlength (name : String) (dt : Dtype) (b : Bool) (pm : PropMeta)
    (h : mkPropMeta name dt b = .ok pm) : pm.varlength = some b := by
  unfold mkPropMeta at h
  by_cases h1 : name = ""
  · simp [h1, throw, throwThe, MonadExceptOf.throw] at h
  · by_cases h2 : dt ∈ validDtypes ∧ dt ≠ .bytes
    · rw [if_neg h1, if_pos h2] at h
      simp only [pure, Except.pure, Except.ok.injEq] at h
      rw [← h]
    · simp [h1, h2, throw, throwThe, MonadExceptOf.throw] at h

theorem createPropsMetadata_varlength (name : String) (p : PropArr) (pm : PropMeta) (p' : PropArr)
    (h : createPropsMetadata name p = .ok (pm, p')) : p' = upcast p ∧ pm.varlength = some (isVarlen p') := by
  unfold createPropsMetadata at h
  cases h1 : metaDtype (upcast p).values with
  | error e => simp [h1, bind, Except.bind] at h
  | ok dt =>
    simp only [h1, bind, Except.bind] at h
    cases h2 : mkPropMeta name dt (isVarlen (upcast p)) with
    | error e => simp [h2] at h
    | ok pm' =>
      simp only [h2, pure, Except.pure, Except.ok.injEq, Prod.mk.injEq] at h
      obtain ⟨rfl, rfl⟩ := h
      exact ⟨rfl, mkPropMeta_varlength _ _ _ _ h2⟩

theorem ensureGroup_of_isSome (s : St) (q : Path) (h : (get s q).isSome = true) : ensureGroup s q = s := by
  obtain ⟨e, he⟩ := Option.isSome_iff_exists.mp h
  exact ensureGroup_of_some s q e he

theorem get_set_child2 (s : St) (pre : Path) (a b : String) (e : Entry) :
    get (set s (pre ++ [a, b]) e) (pre ++ [a]) = get s (pre ++ [a]) := by
  have : pre ++ [a, b] = (pre ++ [a]) ++ [b] := by simp
  rw [this, get_set_child]

abbrev LSt := St × List PropMeta

def stepSpec (pre : Path) (x : String × PropArr) (st : LSt) : Outcome (ForInStep LSt) :=
  match writeProp vlenCodec pre st.1 x.1 x.2 with
  | .ok (s1, pm) => .ok (.yield ⟨s1, st.2 ++ [pm]⟩)
  | .error e => .error e

theorem ofVlen_withMissing (m : Option NdArr) (r : Geff.Vlen.Outcome (NdArr × NdArr)) :
    ofVlen (GeffProofs.SerializationGen.withMissing m r) = (ofVlen r).map (fun vd => (vd.1, m, vd.2)) := by
  cases r <;> rfl


theorem propLoop_spec (pre : Path) (body : String × PropArr → LSt → Outcome (ForInStep LSt))
    (hstep : ∀ x st, body x st = stepSpec pre x st) (ps : Props) : ∀ (s : St) (md : List PropMeta),
    forIn ps (⟨s, md⟩ : LSt) body =
      match writePropsLoop vlenCodec pre s ps with
      | .ok (s', pms) => .ok ⟨s', md ++ pms⟩
      | .error e => .error e := by
  induction ps with
  | nil => intro s md; simp [writePropsLoop, pure, Except.pure]
  | cons x xs ih =>
    intro s md
    obtain ⟨name, p⟩ := x
    rw [List.forIn_cons, hstep]
    unfold stepSpec writePropsLoop
    cases h : writeProp vlenCodec pre s name p with
    | error e => simp [bind, Except.bind]
    | ok r =>
      obtain ⟨s1, pm⟩ := r
      simp only [bind, Except.bind]
      rw [ih]
      cases h2 : writePropsLoop vlenCodec pre s1 xs with
      | error e => simp
      | ok r2 => obtain ⟨s2, pms⟩ := r2; simp [pure, Except.pure]

/-! ## `write_props_arrays`: the unsquish pre-pass -/

def innerSpec (p : PropArr) (a : NdArr) (x : Nat × String) (ps : Props) : Outcome (ForInStep Props) :=
  match column a x.1 with
  | some col => .ok (.yield (dictSet ps x.2 ⟨.dense col, p.missing⟩))
  | none => .error .indexError

theorem inner_spec (p : PropArr) (a : NdArr) (body : Nat × String → Props → Outcome (ForInStep Props))
    (hstep : ∀ x ps, body x ps = innerSpec p a x ps) (rs : List String) : ∀ (i : Nat) (ps : Props),
    forIn (enumFrom i rs) ps body = unsquishOne.go p a ps i rs := by
  induction rs with
  | nil => intro i ps; simp [enumFrom, unsquishOne.go, pure, Except.pure]
  | cons r rs ih =>
    intro i ps
    simp only [enumFrom, List.forIn_cons, hstep, innerSpec, unsquishOne.go]
    cases column a i with
    | none => simp [bind, Except.bind, throw, throwThe, MonadExceptOf.throw]
    | some col => simp only [bind, Except.bind]; rw [ih]

theorem any_dictSet (ps : Props) (k r : String) (v : PropArr) (h : ps.any (fun kv => kv.1 = k) = true) :
    (dictSet ps r v).any (fun kv => kv.1 = k) = true := by
  unfold dictSet
  split
  · simp only [List.any_eq_true, decide_eq_true_eq, List.mem_map] at h ⊢
    obtain ⟨kv, hm, hk⟩ := h
    by_cases hr : kv.1 = r
    · exact ⟨(r, v), ⟨kv, hm, by simp [hr]⟩, by rw [← hk, hr]⟩
    · exact ⟨kv, ⟨kv, hm, by simp [hr]⟩, hk⟩
  · simp only [List.any_append, Bool.or_eq_true]; exact Or.inl h

theorem go_keeps_key (p : PropArr) (a : NdArr) (k : String) (rs : List String) : ∀ (i : Nat) (ps ps' : Props),
    unsquishOne.go p a ps i rs = .ok ps' → ps.any (fun kv => kv.1 = k) = true → ps'.any (fun kv => kv.1 = k) = true := by
  induction rs with
  | nil => intro i ps ps' h hk; simp only [unsquishOne.go, pure, Except.pure, Except.ok.injEq] at h; rw [← h]; exact hk
  | cons r rs ih =>
    intro i ps ps' h hk
    simp only [unsquishOne.go] at h
    cases hc : column a i with
    | none => simp [hc, throw, throwThe, MonadExceptOf.throw] at h
    | some col =>
      simp only [hc] at h
      exact ih _ _ _ h (any_dictSet _ _ _ _ hk)

/-- the model's `unsquishOne` with the test the code makes in addition: a dense array *labelled*
with dtype object (a value numpy cannot produce: object arrays are `PVals.obj`) is refused too -/
def unsquishOneG (ps : Props) (name : String) (newNames : List String) : Outcome Props := do
  let p ← match lookupKey name ps with
    | some p => pure p
    | none => throw .keyError
  let a ← match p.values with
    | .dense a => if a.shape.length = 2 ∧ a.dtype ≠ .obj then pure a else throw .valueError
    | .obj _ => throw .valueError
  let ps ← unsquishOne.go p a ps 0 newNames
  pure (ps.filter (fun kv => kv.1 ≠ name))

def unsquishG (ps : Props) : List (String × List String) → Outcome Props
  | [] => pure ps
  | (name, news) :: rest => do unsquishG (← unsquishOneG ps name news) rest

/-- on every dict of arrays numpy can produce the refinement is the model's function -/
theorem unsquishOneG_eq (ps : Props) (name : String) (news : List String)
    (h : ∀ p a, lookupKey name ps = some p → p.values = .dense a → a.dtype ≠ .obj) :
    unsquishOneG ps name news = unsquishOne ps name news := by
  unfold unsquishOneG unsquishOne
  cases hl : lookupKey name ps with
  | none => rfl
  | some p =>
    obtain ⟨v, m⟩ := p
    cases v with
    | obj es => rfl
    | dense a =>
      have := h _ a hl rfl
      simp [this]

def outerSpec (x : String × List String) (ps : Props) : Outcome (ForInStep Props) :=
  match unsquishOneG ps x.1 x.2 with
  | .ok ps' => .ok (.yield ps')
  | .error e => .error e

theorem outer_spec (body : String × List String → Props → Outcome (ForInStep Props))
    (hstep : ∀ x ps, body x ps = outerSpec x ps) (u : List (String × List String)) : ∀ (ps : Props),
    forIn u ps body = unsquishG ps u := by
  induction u with
  | nil => intro ps; simp [unsquishG, pure, Except.pure]
  | cons x xs ih =>
    intro ps
    obtain ⟨name, news⟩ := x
    simp only [List.forIn_cons, hstep, outerSpec, unsquishG]
    cases unsquishOneG ps name news with
    | error e => simp [bind, Except.bind]
    | ok ps' => simp only [bind, Except.bind]; rw [ih]

theorem lookupKey_any {β} (k : String) (l : List (String × β)) (v : β) (h : lookupKey k l = some v) :
    l.any (fun kv => kv.1 = k) = true := by
  have := lookupKey_mem k l v h
  simp only [List.any_eq_true, decide_eq_true_eq]
  exact ⟨(k, v), this, rfl⟩

theorem ite_isNone (m : Option NdArr) : (if m.isNone = true then none else m) = m := by cases m <;> rfl


/-! ## `write_props_arrays` -/

/-- what the generated function returns, in terms of the model: the props dict after the unsquish
pre-pass (the caller's dict is edited in place), the store and the metadata list of the model -/
def writePropsArraysSpec (s : St) (grp : String) (ps : Props) (uns : Option UnsquishDict) :
    Outcome (St × Props × List PropMeta) := do
  let ps' ← match uns with
    | some u => unsquish ps u
    | none => pure ps
  let r ← Geff.WR.writePropsArrays vlenCodec s grp ps' none
  pure (r.1, ps', r.2)

/-- without `props_unsquish` -/
theorem writePropsArrays_none (s : St) (r : StoreRef) (grp : String) (ps : Props) (f : Fmt)
    (hg : grp = NODES ∨ grp = EDGES) :
    Gen.BaseWrite.writePropsArrays s r grp ps none f = writePropsArraysSpec s grp ps none := by
  have hc : [NODES, EDGES].contains grp = true := by
    rcases hg with rfl | rfl <;> decide
  have hloop :
      (do
        let t5 ← setupZarrGroup s (removeTilde r) f
        let t6 ← requireGroup t5.1 t5.2 [grp, PROPS]
        let r ← Geff.WR.writePropsLoop vlenCodec t6.2 t6.1 ps
        pure (r.1, ps, r.2)) =
      (do let r ← Geff.WR.writePropsArrays vlenCodec s grp ps none; pure (r.1, ps, r.2) : Outcome (St × Props × List PropMeta)) := by
    unfold Geff.WR.writePropsArrays
    simp only [setupZarrGroup, requireGroup, ensurePath, List.nil_append, List.cons_append, bind, Except.bind, pure, Except.pure]
    cases get (ensureGroup (ensureGroup (ensureGroup s []) [grp]) [grp, PROPS]) [grp, PROPS] with
    | none => rfl
    | some e => cases e <;> rfl
  unfold Gen.BaseWrite.writePropsArrays writePropsArraysSpec
  simp only [hc, Bool.not_true, Bool.false_eq_true, if_false, pure_bind]
  rw [← hloop]
  congr 1; funext t5; congr 1; funext t6
  rw [propLoop_spec t6.2 _ ?hstep ps t6.1 []]
  case hstep =>
    intro x st
    generalize t6.2 = pre
    obtain ⟨name, p⟩ := x
    obtain ⟨s, md⟩ := st
    simp only [stepSpec]
    unfold writeProp
    cases hcm : createPropsMetadata name p with
    | error e => simp [bind, Except.bind]
    | ok r =>
      obtain ⟨pm, p'⟩ := r
      obtain ⟨hp', hvl⟩ := createPropsMetadata_varlength _ _ _ _ hcm
      obtain ⟨v, m⟩ := p'
      cases v with
      | dense a =>
        simp only [isVarlen] at hvl
        simp only [hvl, Geff.PyDoWrite.isTrue, encodeProp, bind, Except.bind, pure, Except.pure]
        unfold createGroup
        by_cases hdot : name = "." ∨ name = ".."
        · simp [hdot, bind, Except.bind, throw, throwThe, MonadExceptOf.throw]
        · by_cases hvn : validName name = true
          · cases hg : get s (pre ++ [name]) with
            | some e => cases e <;> simp [hdot, hvn, hg, bind, Except.bind, pure, Except.pure, throw, throwThe, MonadExceptOf.throw]
            | none =>
              cases m <;>
              simp [hdot, hvn, hg, bind, Except.bind, pure, Except.pure, throw, throwThe, MonadExceptOf.throw,
                groupSetItemVals, groupSetItem, setArray, storeProp, ensureGroup_of_isSome, get_set_same, get_set_child, get_set_child2]
          · simp [hdot, hvn, bind, Except.bind, pure, Except.pure, throw, throwThe, MonadExceptOf.throw]
      | obj es =>
        simp only [isVarlen] at hvl
        have hser : Gen.Serialization.serializeVlenPropertyData (⟨es.map .arr, m⟩ : Geff.PyDo.PropDict (Option NdArr)) =
            GeffProofs.SerializationGen.withMissing m (Geff.Vlen.serializeVlenPy (es.map .arr)) :=
          GeffProofs.SerializationGen.serialize_eq _
        simp only [hvl, Geff.PyDoWrite.isTrue, encodeProp, vlenDict, vlenCodec, Geff.Vlen.serializeVlen, hser, ofVlen_withMissing,
          bind, Except.bind, pure, Except.pure]
        cases hs : ofVlen (Geff.Vlen.serializeVlenPy (es.map .arr)) with
        | error e => simp [Except.map]
        | ok vd =>
          obtain ⟨v, d⟩ := vd
          simp only [Except.map]
          unfold createGroup
          by_cases hdot : name = "." ∨ name = ".."
          · simp [hdot, bind, Except.bind, throw, throwThe, MonadExceptOf.throw]
          · by_cases hvn : validName name = true
            · cases hg : get s (pre ++ [name]) with
              | some e => cases e <;> simp [hdot, hvn, hg, bind, Except.bind, pure, Except.pure, throw, throwThe, MonadExceptOf.throw]
              | none =>
                cases m <;>
                simp [hdot, hvn, hg, bind, Except.bind, pure, Except.pure, throw, throwThe, MonadExceptOf.throw,
                  groupSetItemVals, groupSetItem, setArray, storeProp, ensureGroup_of_isSome, get_set_same, get_set_child, get_set_child2]
            · simp [hdot, hvn, bind, Except.bind, pure, Except.pure, throw, throwThe, MonadExceptOf.throw]
  cases writePropsLoop vlenCodec t6.2 t6.1 ps with
  | error e => simp [bind, Except.bind]
  | ok r => simp [bind, Except.bind, pure, Except.pure]

/-- with `props_unsquish`: the pre-pass is the model's `unsquish`, then the same as without -/
theorem writePropsArrays_some (s : St) (r : StoreRef) (grp : String) (ps : Props) (u : UnsquishDict) (f : Fmt)
    (hg : grp = NODES ∨ grp = EDGES) :
    Gen.BaseWrite.writePropsArrays s r grp ps (some u) f =
      (unsquishG ps u >>= fun ps' => Gen.BaseWrite.writePropsArrays s r grp ps' none f) := by
  have hc : [NODES, EDGES].contains grp = true := by
    rcases hg with rfl | rfl <;> decide
  unfold Gen.BaseWrite.writePropsArrays
  simp only [hc, Bool.not_true, Bool.false_eq_true, if_false, pure_bind]
  rw [outer_spec _ ?hstep u ps]
  case hstep =>
    intro x ps0
    obtain ⟨name, news⟩ := x
    simp only [outerSpec, unsquishOneG, dictGetItem]
    cases hl : lookupKey name ps0 with
    | none => simp [bind, Except.bind, throw, throwThe, MonadExceptOf.throw]
    | some p =>
      obtain ⟨v, m⟩ := p
      cases v with
      | obj es => simp [pvShape, pvDtype, issubdtypeObject, raiseValueError, bind, Except.bind, pure, Except.pure, throw, throwThe, MonadExceptOf.throw]
      | dense a =>
        by_cases h2 : a.shape.length = 2
        · simp only [pvShape, pvDtype, issubdtypeObject, h2, bind, Except.bind, pure, Except.pure]
          by_cases ho : a.dtype = Dtype.obj
          · simp [ho, raiseValueError, throw, throwThe, MonadExceptOf.throw]
          · have hb : (a.dtype == Dtype.obj) = false := by simpa using ho
            simp only [hb, ho, ne_eq, not_false_eq_true, and_self, if_true, beq_self_eq_true, Bool.not_true, Bool.or_self,
              Bool.false_eq_true, if_false, enumerate]
            rw [inner_spec ⟨.dense a, m⟩ a _ ?hin news 0 ps0]
            case hin =>
              intro y ps1
              simp only [innerSpec, columnAt, dictUpdate, List.foldl, ite_isNone]
              cases column a y.1 <;> simp [bind, Except.bind, pure, Except.pure, throw, throwThe, MonadExceptOf.throw]
            cases hgo : unsquishOne.go ⟨.dense a, m⟩ a ps0 0 news with
            | error e => rfl
            | ok ps1 =>
              have hk := go_keeps_key _ _ name _ _ _ _ hgo (lookupKey_any _ _ _ hl)
              simp [dictDelItem, hk, pure, Except.pure]
        · simp [pvShape, pvDtype, issubdtypeObject, h2, raiseValueError, bind, Except.bind, pure, Except.pure, throw, throwThe, MonadExceptOf.throw]

/-! ## `write_arrays` -/

theorem hasGeff_ensureGroup (s : St) : hasGeff (ensureGroup s []) = hasGeff s := by
  unfold hasGeff
  cases h : get s [] with
  | none => rw [ensureGroup_of_none s [] h, get_set_same]; rfl
  | some e => rw [ensureGroup_of_some s [] e h, h]

def axSpec (ax : String) (nps : Option Props) : Outcome (ForInStep (Option Props)) :=
  .ok (.yield (nps.map (fun ps => axStep ps ax)))

theorem axLoop_spec (body : String → Option Props → Outcome (ForInStep (Option Props)))
    (hstep : ∀ ax nps, body ax nps = axSpec ax nps) (names : List String) : ∀ nps : Option Props,
    forIn names nps body = .ok (nps.map (fun ps => names.foldl axStep ps)) := by
  induction names with
  | nil => intro nps; cases nps <;> simp [pure, Except.pure]
  | cons a as ih =>
    intro nps
    rw [List.forIn_cons, hstep]
    simp only [axSpec, bind, Except.bind]
    rw [ih]
    cases nps <;> simp

theorem writePropsArrays_NODES (s : St) (r : StoreRef) (ps : Props) (f : Fmt) :
    Gen.BaseWrite.writePropsArrays s r NODES ps none f = writePropsArraysSpec s NODES ps none :=
  writePropsArrays_none s r NODES ps f (Or.inl rfl)
theorem writePropsArrays_EDGES (s : St) (r : StoreRef) (ps : Props) (f : Fmt) :
    Gen.BaseWrite.writePropsArrays s r EDGES ps none f = writePropsArraysSpec s EDGES ps none :=
  writePropsArrays_none s r EDGES ps f (Or.inr rfl)

theorem ensureGroup_idem (s : St) (p : Path) : ensureGroup (ensureGroup s p) p = ensureGroup s p := by
  cases h : get s p with
  | none =>
    rw [ensureGroup_of_none s p h]
    exact ensureGroup_of_some _ _ _ (get_set_same _ _ _)
  | some e => rw [ensureGroup_of_some s p e h, ensureGroup_of_some s p e h]

theorem writeIdArrays_root (s : St) (n e : NdArr) :
    Geff.WR.writeIdArrays (ensureGroup s []) n e = Geff.WR.writeIdArrays s n e := by
  unfold Geff.WR.writeIdArrays; rw [ensureGroup_idem]

/-- closes "generated tail of `write_arrays` on the node properties `nps'` = the model's `writeTail`" -/
local macro "tail_tac" nps:ident eps:ident hax:ident : tactic => `(tactic| (
  (cases $nps:ident <;> cases $eps:ident <;>
    simp only [writePropsArrays_NODES, writePropsArrays_EDGES, writePropsArraysSpec, writePropsOpt, propsAfterUnsquish,
      addOrUpdatePropsMetadata, computeAndAddAxisMinMax, metadataWrite, pure_bind, bind, Except.bind, pure, Except.pure,
      Except.map, checkAxes, if_true, reduceCtorEq, if_false, tryCatch, tryCatchThe, MonadExceptOf.tryCatch, Except.tryCatch,
      raiseValueError, throw, throwThe, MonadExceptOf.throw, StateT.pure])
  all_goals simp only [show ¬ ("edge" = "node") from by decide, if_false, $hax:ident]
  all_goals (repeat' split)
  all_goals (try simp_all)
  all_goals (try subst_vars)
  all_goals (try rfl)
  all_goals (repeat' split)
  all_goals (try simp_all)))

theorem writeArrays_novalidate (validate : St → Outcome Unit) (s0 : St) (r : StoreRef) (g : InMem) (md : CallerMeta) (f : Fmt) (ow : Bool)
    (hg : hasGeff s0 = false) :
  (Gen.BaseWrite.writeArrays validate s0 r g.nodeIds g.nodeProps g.edgeIds g.edgeProps md none none f false ow).map (·.1)
    = writeCore vlenCodec s0 g md := by
  unfold Gen.BaseWrite.writeArrays writeCore
  simp only [checkForGeff, pure_bind, hg, hasGeff_ensureGroup, Bool.false_eq_true, if_false, writeIdArrays_eq, writeIdArrays_root]
  cases hid : Geff.WR.writeIdArrays s0 g.nodeIds g.edgeIds with
  | error e => simp [bind, Except.bind, Except.map]
  | ok s1 =>
    simp only [bind, Except.bind, lenArr]
    cases hlen : g.nodeIds.len? with
    | none => simp [throw, throwThe, MonadExceptOf.throw, Except.map]
    | some n =>
      simp only [pure, Except.pure, Option.isNone_some, Bool.false_eq_true, if_false]
      -- the node properties that get written
      obtain ⟨nps, hnps, hgoal⟩ : ∃ nps, nodePropsToWrite g md = nps ∧ nps = nps := ⟨_, rfl, rfl⟩
      unfold writeTail
      by_cases hn : n = 0
      · subst hn
        cases hax : md.axes with
        | none =>
          have h1 : nodePropsToWrite g md = g.nodeProps := by
            unfold nodePropsToWrite; rw [hlen, hax]; cases g.nodeProps <;> rfl
          simp only [beq_self_eq_true, if_true, h1]
          generalize g.nodeProps = nps'
          generalize g.edgeProps = eps'
          tail_tac nps' eps' hax
        | some names =>
          have h1 : nodePropsToWrite g md = g.nodeProps.map (fun ps => names.foldl axStep ps) := by
            unfold nodePropsToWrite; rw [hlen, hax]; rfl
          simp only [beq_self_eq_true, if_true, h1]
          rw [axLoop_spec _ ?hstep names g.nodeProps]
          case hstep =>
            intro ax nps0
            cases nps0 with
            | none => rfl
            | some ps0 =>
              have hdc : dictContains ps0 ax = ps0.any (fun kv => kv.1 = ax) := rfl
              simp only [axSpec, axStep, hdc, dictSetItem, axisName, npEmptyZero, emptyF64, Option.map_some, dictSet, pure, Except.pure]
              cases hb : (ps0.any fun kv => kv.1 = ax) <;> simp_all
              refine ite_eq_right_iff.mpr (fun hc => ?_)
              exfalso
              rw [List.any_eq_true] at hc
              obtain ⟨kv, hm, hk⟩ := hc
              exact hb kv.1 kv.2 hm (of_decide_eq_true hk)
          simp only []
          generalize g.nodeProps.map (fun ps => names.foldl axStep ps) = nps'
          generalize g.edgeProps = eps'
          tail_tac nps' eps' hax
      · have h1 : nodePropsToWrite g md = g.nodeProps := by
          unfold nodePropsToWrite; rw [hlen]
          cases n with
          | zero => exact absurd rfl hn
          | succ k => rfl
        have hb : (n == 0) = false := by simpa using hn
        simp only [hb, Bool.false_eq_true, if_false, h1]
        generalize hax : md.axes = axs
        generalize g.nodeProps = nps'
        generalize g.edgeProps = eps'
        tail_tac nps' eps' hax


end GeffProofs.BaseWriteGen
