import GeffModel.Tracklet
/-! Facts about numpy's cast of integers to int64 (`Tracklet.toInt64`): identity on the int64
range; on the uint64 range it agrees with an injective function of all integers. -/
namespace Geff.Int64Cast
open Geff.Tracklet (toInt64)

def InInt64 (x : Int) : Prop := -(2 ^ 63) ≤ x ∧ x < 2 ^ 63
instance (x : Int) : Decidable (InInt64 x) := by unfold InInt64; infer_instance

def InUInt64 (x : Int) : Prop := 0 ≤ x ∧ x < 2 ^ 64
instance (x : Int) : Decidable (InUInt64 x) := by unfold InUInt64; infer_instance

theorem toInt64_of_inRange (x : Int) (h : InInt64 x) : toInt64 x = x := by
  unfold toInt64; unfold InInt64 at h; omega

/-- swaps the blocks [2^63, 2^64) and [−2^63, 0) -/
def wrapSwap (x : Int) : Int :=
  if 2 ^ 63 ≤ x ∧ x < 2 ^ 64 then x - 2 ^ 64 else if -(2 ^ 63) ≤ x ∧ x < 0 then x + 2 ^ 64 else x

theorem wrapSwap_injective : Function.Injective wrapSwap := by
  intro a b h
  unfold wrapSwap at h
  split at h <;> split at h <;> (try split at h) <;> (try split at h) <;> omega

theorem toInt64_eq_wrapSwap (x : Int) (h : InUInt64 x) : toInt64 x = wrapSwap x := by
  unfold toInt64 wrapSwap InUInt64 at *
  split <;> (try split) <;> omega

theorem map_toInt64_of_inRange (l : List Int) (h : ∀ x ∈ l, InInt64 x) : l.map toInt64 = l := by
  rw [List.map_congr_left (g := id) (fun x hx => toInt64_of_inRange x (h x hx)), List.map_id]

end Geff.Int64Cast
