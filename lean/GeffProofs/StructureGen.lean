import Gen.Structure
import GeffProofs.Structure
/-! Helper lemmas: the source-translated validator `Gen.Structure.*` (translator T16) equals the
hand-written model `Geff.Structure.*`, function by function and for all inputs.

A generated `for` loop (unit state: the loops of the validator only raise) is characterised by
`forIn_each`: when the generated loop body, whatever it is, equals one step `f a` of the model's
loop followed by `yield`, the loop is the model's `each l f`.  The generated body is consumed by
unification (`rw [forIn_each (f := …)]`), the side goal is discharged by case analysis over the store
tree, so no statement repeats generated text. -/
namespace GeffProofs.StructureGen
open Geff.Np Geff.Structure Geff.PyDoStructure Gen.Paths

/-! ## keys -/

theorem keyPath_NODES : keyPath NODES = [NODES] := by decide
theorem keyPath_EDGES : keyPath EDGES = [EDGES] := by decide
theorem keyPath_IDS : keyPath IDS = [IDS] := by decide
theorem keyPath_PROPS : keyPath PROPS = [PROPS] := by decide
theorem keyPath_VALUES : keyPath VALUES = [VALUES] := by decide
theorem keyPath_MISSING : keyPath MISSING = [MISSING] := by decide
theorem keyPath_DATA : keyPath DATA = [DATA] := by decide
theorem keyPath_NODE_PROPS : keyPath NODE_PROPS = [NODES, PROPS] := by decide
theorem lit_values : "values" = VALUES := by decide
theorem lit_missing : "missing" = MISSING := by decide

/-! ## loops -/

theorem forIn_each {α : Type} (f : α → Out Unit) (body : α → PUnit → Out (ForInStep PUnit))
    (h : ∀ a u, body a u = (f a >>= fun _ => pure (ForInStep.yield PUnit.unit))) (l : List α) :
    forIn l PUnit.unit body = each l f := by
  induction l with
  | nil => rfl
  | cons a t ih =>
    rw [List.forIn_cons, h]
    simp only [each]
    cases hfa : f a with
    | error e => rfl
    | ok u => simpa [bind, Except.bind, pure, Except.pure] using ih

theorem bind_pure_unit (x : Out PUnit) : (x >>= fun _ => pure PUnit.unit) = x := by
  cases x <;> rfl

@[simp] theorem raiseVE_bind {α β : Type} (f : α → Out β) : (raiseValueError >>= f) = raiseValueError := rfl
@[simp] theorem raiseKE_bind {α β : Type} (f : α → Out β) : (raiseKeyError >>= f) = raiseKeyError := rfl
@[simp] theorem raiseAE_bind {α β : Type} (f : α → Out β) : (raiseAttributeError >>= f) = raiseAttributeError := rfl
@[simp] theorem raiseIE_bind {α β : Type} (f : α → Out β) : (raiseIndexError >>= f) = raiseIndexError := rfl
@[simp] theorem raiseTE_bind {α β : Type} (f : α → Out β) : (raiseTypeError >>= f) = raiseTypeError := rfl
@[simp] theorem throw_bind' {α β : Type} (e : Err) (f : α → Out β) : ((throw e : Out α) >>= f) = throw e := rfl
@[simp] theorem pure_bind' {α β : Type} (a : α) (f : α → Out β) : ((pure a : Out α) >>= f) = f a := rfl
@[simp] theorem map_throw' {α β : Type} (e : Err) (f : α → β) : (f <$> (throw e : Out α)) = throw e := rfl
theorem ite_false_swap {α : Type} (b : Bool) (x y : α) :
    (if b = false then x else y) = if b = true then y else x := by cases b <;> rfl
@[simp] theorem ok_bind' {α β : Type} (a : α) (f : α → Out β) : ((Except.ok a : Out α) >>= f) = f a := rfl
@[simp] theorem error_bind' {α β : Type} (e : Err) (f : α → Out β) :
    ((Except.error e : Out α) >>= f) = Except.error e := rfl
@[simp] theorem map_ok' {α β : Type} (a : α) (f : α → β) : (f <$> (Except.ok a : Out α)) = Except.ok (f a) := rfl
@[simp] theorem map_error' {α β : Type} (e : Err) (f : α → β) :
    (f <$> (Except.error e : Out α)) = Except.error e := rfl
/-- `if not c: raise ValueError` -/
theorem guard_not (c : Bool) : (if (!c) = true then (raiseValueError : Out Unit) else pure ()) = require c := by
  cases c <;> rfl
/-- `if a != b: raise ValueError` -/
theorem guard_ne {α : Type} [BEq α] (a b : α) :
    (if (a != b) = true then (raiseValueError : Out Unit) else pure ()) = require (a == b) := by
  unfold bne; exact guard_not _
/-- `if c: raise ValueError` -/
theorem guard_pos (c : Bool) : (if c = true then (raiseValueError : Out Unit) else pure ()) = require (!c) := by
  cases c <;> rfl

theorem each_map {α β : Type} (g : β → α) (f : α → Out Unit) (l : List β) :
    each (l.map g) f = each l (fun b => f (g b)) := by
  induction l with
  | nil => rfl
  | cons b t ih => simp only [List.map_cons, each, ih]

/-! ## primitives -/

theorem shapeIndex_zero (a : Arr) : shapeIndex a 0 = shape0 a := by
  unfold shapeIndex shape0
  cases a.shape <;> simp [raiseIndexError]

theorem getLast?_eq_getElem? (l : List Nat) : l[l.length - 1]? = l.getLast? := by
  cases l with
  | nil => rfl
  | cons a t => simp [List.getLast?_eq_getElem?]

theorem shapeIndex_neg_one (a : Arr) : shapeIndex a (-1) = shapeLast a := by
  unfold shapeIndex shapeLast
  cases hs : a.shape with
  | nil => simp [raiseIndexError]
  | cons x t =>
    have h1 : ¬ ((-1 : Int) + ((x :: t).length : Nat) < 0) := by simp; omega
    have h2 : ((-1 : Int) + ((x :: t).length : Nat)).toNat = (x :: t).length - 1 := by simp; omega
    simp only [show ((-1 : Int) < 0) from by decide, ite_true, h1, ite_false, h2, getLast?_eq_getElem?]
    cases (x :: t).getLast? <;> rfl

theorem strIn_keys {β : Type} (k : String) (d : List (String × β)) : strIn k (keys d) = (lookup d k).isSome := by
  unfold strIn
  rw [Bool.eq_iff_iff, List.contains_iff_mem, lookup_isSome_iff]

theorem strIn_arrayKeys (k : String) (g : Grp) : strIn k (arrayKeys g) = isArrayNode (Geff.Structure.get g k) := by
  unfold strIn arrayKeys
  rw [Bool.eq_iff_iff, List.contains_iff_mem, List.mem_filter]
  constructor
  · exact fun h => h.2
  · intro h
    refine ⟨(lookup_isSome_iff g k).1 ?_, h⟩
    unfold Geff.Structure.get at h
    cases hl : lookup g k with
    | none => rw [hl] at h; cases h
    | some v => rfl

/-! ## `expect_array`, `expect_group`, `_dtype_matches` -/

theorem expectArray_eq (parent : Grp) (key : List String) (pn : String) :
    Gen.Structure.expectArray parent key pn = expectArrayPath parent key := by
  unfold Gen.Structure.expectArray expectArrayPath groupGet
  rcases getPath parent key with _ | (a | ch) <;> rfl

theorem expectGroup_eq (parent : Grp) (key : List String) (pn : String) :
    Gen.Structure.expectGroup parent key pn = expectGroupPath parent key := by
  unfold Gen.Structure.expectGroup expectGroupPath groupGet
  rcases getPath parent key with _ | (a | ch) <;> rfl

theorem expectArray_one (parent : Grp) (k pn : String) :
    Gen.Structure.expectArray parent [k] pn = Geff.Structure.expectArray parent k := by
  rw [expectArray_eq]; rfl

theorem expectGroup_one (parent : Grp) (k pn : String) :
    Gen.Structure.expectGroup parent [k] pn = Geff.Structure.expectGroup parent k := by
  rw [expectGroup_eq]; rfl

theorem dtypeMatches_eq (actual stated : Dtype) :
    Gen.Structure.dtypeMatches actual stated = pure (Geff.Structure.dtypeMatches actual stated) := by
  unfold Gen.Structure.dtypeMatches Geff.Structure.dtypeMatches
  cases actual <;> cases stated <;> rfl

/-! ## `_validate_props_group` -/

/-- one iteration of the second loop of the model's `validatePropsGroup` -/
def propStep (props : Grp) (n : Nat) (md : List (String × PropMeta)) (name : String) : Out Unit := do
  require ((lookup md name).isSome)
  let pm ← getItem md name
  let propNode ← getItem props name
  validateProp propNode n pm

theorem model_validatePropsGroup (props : Grp) (n : Nat) (md : List (String × PropMeta)) :
    Geff.Structure.validatePropsGroup props n md =
      (each (keys md) (fun name => require ((Geff.Structure.get props name).isSome)) >>= fun _ =>
        each (keys props) (propStep props n md)) := rfl

theorem validatePropsGroup_eq (props : Grp) (n : Nat) (pk : String) (md : List (String × PropMeta)) :
    Gen.Structure.validatePropsGroup props n pk md = Geff.Structure.validatePropsGroup props n md := by
  rw [model_validatePropsGroup]
  unfold Gen.Structure.validatePropsGroup
  rw [forIn_each (f := fun name => require ((Geff.Structure.get props name).isSome)),
    forIn_each (f := propStep props n md)]
  · show (_ >>= fun _ => (_ >>= fun _ => pure PUnit.unit)) = _
    rw [bind_pure_unit]; rfl
  · intro name u
    dsimp only [propStep, dictContains, dictGetItem, groupGetItem, memberKeys, pySet]
    simp only [strIn_arrayKeys, strIn_keys, keyPath_VALUES, keyPath_DATA, keyPath_MISSING, expectArray_one,
      dtypeMatches_eq, shapeIndex_zero]
    obtain ⟨o1, h1⟩ : ∃ o, lookup md name = o := ⟨_, rfl⟩
    cases o1 with
    | none => simp [require, raiseValueError, h1]
    | some pm =>
      obtain ⟨o2, h2⟩ : ∃ o, lookup props name = o := ⟨_, rfl⟩
      cases o2 with
      | none => simp [require, getItem, h1, h2]
      | some node =>
        cases node with
        | array a => simp [require, getItem, h1, h2, nodeIsGroup, validateProp, raiseValueError]
        | group pg =>
          simp only [getItem, h1, h2, nodeIsGroup, nodeAsGroup, validateProp, Option.isSome_some,
            Bool.not_true, pure_bind', require, ite_true, Bool.false_eq_true, ite_false]
          obtain ⟨ov, hv⟩ : ∃ o, Geff.Structure.get pg VALUES = o := ⟨_, rfl⟩
          rcases ov with _ | (val | ch)
          · simp [isArrayNode, raiseValueError, hv]
          · simp only [isArrayNode, Bool.not_true, Bool.false_eq_true, ite_false, ite_true, pure_bind',
              Geff.Structure.expectArray, hv]
            obtain ⟨od, hd⟩ : ∃ o, lookup pg DATA = o := ⟨_, rfl⟩
            obtain ⟨om, hm⟩ : ∃ o, lookup pg MISSING = o := ⟨_, rfl⟩
            obtain ⟨sh, hs⟩ : ∃ o, val.shape = o := ⟨_, rfl⟩
            dsimp only [Geff.Structure.get]
            simp only [checkPropDtype, checkMissing, require, Geff.Structure.expectArray, Geff.Structure.get,
              shape0, Arr.ndim, hd, hm, hs, raiseValueError, issubdtype]
            rcases od with _ | (d | _) <;> rcases om with _ | (m | _) <;> cases pm.varlength <;>
              rcases sh with _ | ⟨s0, _ | ⟨s1, _ | ⟨s2, st⟩⟩⟩ <;> simp [ite_false_swap]
            -- what is left (nothing, for the source as it is) differs at most in the ORDER of checks that
            -- raise the same exception: decide every remaining condition, both sides are then the same leaf
            all_goals repeat' (first | rfl | split)
            all_goals simp_all
          · simp [isArrayNode, raiseValueError, hv]
  · intro name u
    dsimp only [Geff.Structure.get]
    simp only [memberKeys, strIn_keys, require, raiseValueError]
    cases (lookup props name).isSome <;> rfl

/-! ## `_validate_optional_props_group`, `_validate_nodes_group`, `_validate_edges_group` -/

theorem validateOptionalPropsGroup_eq (parent : Grp) (pn : String) (n : Nat) (pk : String)
    (md : List (String × PropMeta)) :
    Gen.Structure.validateOptionalPropsGroup parent pn n pk md =
      Geff.Structure.validateOptionalPropsGroup parent n md := by
  unfold Gen.Structure.validateOptionalPropsGroup Geff.Structure.validateOptionalPropsGroup
  simp only [keyPath_PROPS, expectGroup_one, validatePropsGroup_eq, groupGet, getPath, dictLen]
  obtain ⟨o, ho⟩ : ∃ o, Geff.Structure.get parent PROPS = o := ⟨_, rfl⟩
  cases o with
  | none =>
    simp only [ho]
    cases md <;> simp [require, raiseValueError]
  | some v => simp [ho]

theorem validateNodesGroup_eq (nodes : Grp) (m : Meta) :
    Gen.Structure.validateNodesGroup nodes m = Geff.Structure.validateNodesGroup nodes m := by
  unfold Gen.Structure.validateNodesGroup Geff.Structure.validateNodesGroup
  simp only [keyPath_IDS, expectArray_one, validateOptionalPropsGroup_eq, shapeIndex_zero, guard_not, guard_ne]
  simp only [npDtype, issubdtype]

theorem validateEdgesGroup_eq (edges : Grp) (m : Meta) :
    Gen.Structure.validateEdgesGroup edges m = Geff.Structure.validateEdgesGroup edges m := by
  unfold Gen.Structure.validateEdgesGroup Geff.Structure.validateEdgesGroup
  simp only [keyPath_IDS, expectArray_one, validateOptionalPropsGroup_eq, shapeIndex_zero, shapeIndex_neg_one, guard_pos]
  simp only [npDtype, issubdtype]
  obtain ⟨o, ho⟩ : ∃ o, Geff.Structure.expectArray edges IDS = o := ⟨_, rfl⟩
  rw [ho]
  cases o with
  | error e => rfl
  | ok a =>
    obtain ⟨ol, hl⟩ : ∃ o, shapeLast a = o := ⟨_, rfl⟩
    by_cases hnd : a.ndim = 2
    · cases ol with
      | error e => simp [hnd, hl, require]
      | ok last => by_cases h2 : last = 2 <;> simp [hnd, hl, require, h2]
    · simp [hnd, require]

/-! ## `_validate_axes_structure`, `validate_structure` -/

/-- one iteration of the loop of the model's `validateAxesStructure` -/
def axisStep (m : Meta) (nodeProps : Grp) (ax : String) : Out Unit := do
  require ((lookup m.nodeProps ax).isSome)
  require ((getPath nodeProps [ax, VALUES]).isSome)
  require (!(getPath nodeProps [ax, MISSING]).isSome)
  let v ← expectArrayPath nodeProps [ax, VALUES]
  require (v.ndim == 1)

theorem validateAxesStructure_eq (graph : Grp) (m : Meta) :
    Gen.Structure.validateAxesStructure graph m = Geff.Structure.validateAxesStructure graph m := by
  unfold Gen.Structure.validateAxesStructure Geff.Structure.validateAxesStructure
  simp only [keyPath_NODE_PROPS, expectGroup_eq, metaAxes]
  cases hax : m.axes with
  | none => rfl
  | some axes =>
    cases axes with
    | nil => rfl
    | cons a t =>
      simp only [Option.map_some, truthyOptList, iterOptList, pure_bind']
      refine congrArg (fun k => expectGroupPath graph [NODES, PROPS] >>= k) (funext fun np => ?_)
      rw [bind_pure_unit, forIn_each (f := fun ax : Axis => axisStep m np ax.name), each_map]
      · rfl
      · intro ax u
        simp only [guard_not]
        simp only [guard_ne]
        simp only [guard_pos, expectArray_eq, lit_values, lit_missing]
        simp only [axisStep, dictContains, groupContains, Arr.ndim, bind_assoc]

theorem validateStructure_eq (t : Target) :
    Gen.Structure.validateStructure t = Geff.Structure.validateStructure t := by
  unfold Gen.Structure.validateStructure Geff.Structure.validateStructure
  simp only [keyPath_NODES, keyPath_EDGES, keyPath_IDS, expectGroup_one, expectArray_one, validateNodesGroup_eq,
    validateEdgesGroup_eq, validateAxesStructure_eq, guard_ne]
  simp only [Geff.PyDoStructure.openStorelike, geffMetadataRead, newbyteorderNative, npDtype, metaAxes,
    Option.isSome_map]

end GeffProofs.StructureGen
