import GeffProofs.KVCrash
/-! # The commit and what a completed write leaves behind (C05, C06) -/
namespace Geff.KV
open Gen.Paths Prog

/-! ### the commit: after a completed body the geff is there, in the format being written -/

/-- no root document of the other zarr format (only format 3's `zarr.json` can shadow format 2) -/
def FmtClean (f : Fmt) (s : KV) : Prop := f = .v2 → has s ⟨[], .json⟩ = false

/-- the mutation does not create a root `zarr.json` in a format-2 write -/
def fmtOK (f : Fmt) : Op → Bool
  | .set k _ => decide (f = .v3) || decide (k ≠ ⟨[], .json⟩)
  | .setnx k _ => decide (f = .v3) || decide (k ≠ ⟨[], .json⟩)
  | _ => true

theorem fmtClean_step {f : Fmt} {s : KV} {op : Op} (h : FmtClean f s) (ho : fmtOK f op = true) :
    FmtClean f (step s op) := by
  intro hf
  have h' := h hf
  subst hf
  unfold has at h' ⊢
  rw [get_step]
  cases op with
  | set k b =>
    have : (⟨[], .json⟩ : Key) ≠ k := by
      simp [fmtOK] at ho; exact fun hh => ho hh.symm
    simpa [this] using h'
  | setnx k b =>
    have : (⟨[], .json⟩ : Key) ≠ k := by
      simp [fmtOK] at ho; exact fun hh => ho hh.symm
    simpa [this] using h'
  | del k => by_cases hk : (⟨[], .json⟩ : Key) = k <;> simp [hk]; simpa [hk] using h'
  | delPrefix p => by_cases hk : under p ⟨[], .json⟩ <;> simp [hk]; simpa using h'
  | clear => simp

theorem dataOp_fmtOK (f : Fmt) (prot : Option Key) (op : Op) (h : dataOp f prot op = true) :
    fmtOK f op = true := by
  cases f with
  | v3 => cases op <;> simp [fmtOK]
  | v2 =>
    cases op with
    | set k b =>
      simp only [dataOp, Bool.and_eq_true, Bool.or_eq_true] at h
      rcases h.1 with h1 | h1
      · have : k.path ≠ [] := by
          intro hh; have := h1.1; simp [owned, hh] at this
        simp [fmtOK]; intro hh; apply this; rw [hh]
      · have := h1.2
        simp [fmtOK]; intro hh; rw [hh] at this; simp [fmtLeaf] at this
    | setnx k b =>
      simp only [dataOp, Bool.and_eq_true, Bool.or_eq_true] at h
      rcases h.1 with h1 | h1
      · have : k.path ≠ [] := by
          intro hh; have := h1.1; simp [owned, hh] at this
        simp [fmtOK]; intro hh; apply this; rw [hh]
      · have := h1.2
        simp [fmtOK]; intro hh; rw [hh] at this; simp [fmtLeaf] at this
    | del k => rfl
    | delPrefix p => rfl
    | clear => rfl

theorem rootOnly_rootMeta_fmtOK (d : Docs) (f : Fmt) (doc : Blob) :
    ∀ op ∈ rootMetaOps d f doc, fmtOK f op = true := by
  intro op hop
  cases f <;> simp [rootMetaOps] at hop
  · rcases hop with rfl | rfl <;> simp [fmtOK]
  · subst hop; simp [fmtOK]

/-- H1 for the data phase alone -/
theorem writeData_root (d : Docs) (kind : Kind) (f : Fmt) (g : G) :
    Ensures (fun s => has s (groupKey f []) = true) (writeData d kind f g) := by
  have hstep : ∀ s op, has s (groupKey f []) = true → keepsKey (some (groupKey f [])) op = true →
      has (step s op) (groupKey f []) = true := fun s op h ho => has_step_keeps h ho
  have hk : ∀ prot op, dataOp f prot op = true → keepsKey (some (groupKey f [])) op = true := by
    intro prot op h; cases f <;> exact dataOp_keepsRoot _ prot _ op h
  unfold writeData
  refine Ensures.bind_right ?_ (fun _ => All.bind
      ((All.writeOptProps_dataOp d kind f (prot := none) (Or.inl rfl) (Or.inl rfl) _).mono (hk none))
      (fun _ => (All.writeOptProps_dataOp d kind f (prot := none) (Or.inl rfl) (Or.inr rfl) _).mono (hk none))) hstep
  unfold writeIdArrays
  split
  · intro s u hu; simp at hu
  · refine Ensures.bind_right (Ensures.setup d f) (fun _ => All.bind
      ((All.createArray_dataOp d kind f pathOk_nodeIds _).mono (hk none))
      (fun _ => (All.createArray_dataOp d kind f (pathOk_edgeIds (Or.inl rfl)) _).mono (hk none))) hstep

theorem rootGroupFmt_of (f : Fmt) (s : KV) (h1 : has s (groupKey f []) = true) (h2 : FmtClean f s) :
    rootGroupFmt s = some f := by
  cases f with
  | v3 => simp [rootGroupFmt, groupKey] at h1 ⊢; simp [h1]
  | v2 => simp [rootGroupFmt, groupKey] at h1 ⊢; simp [h1, h2 rfl]

/-- **the commit**: a completed body on a store without a foreign-format root leaves the geff
attribute `g.geff` in the root group of format `f` -/
theorem writeBody_commit (d : Docs) (kind : Kind) (f : Fmt) (g : G) (s : KV) (hs : FmtClean f s)
    (u : Unit) (hu : (writeBody d kind f g s).val = .ok u) :
    geffAttrIn f (run s (writeBody d kind f g s).ops) = some g.geff ∧
    rootGroupFmt (run s (writeBody d kind f g s).ops) = some f ∧
    FmtClean f (run s (writeBody d kind f g s).ops) := by
  unfold writeBody at hu ⊢
  simp only [bind_def] at hu ⊢
  cases hv : (writeData d kind f g s).val with
  | error e => rw [val_bind_err hv] at hu; simp at hu
  | ok x =>
    rw [ops_bind_ok hv, run_append]
    have hroot := writeData_root d kind f g s x hv
    have hclean : FmtClean f (run s (writeData d kind f g s).ops) :=
      (Crash.of_inv (I := FmtClean f) (A := fmtOK f) (fun _ _ h ho => fmtClean_step h ho) _ s hs
        (fun op hop => dataOp_fmtOK f none op (All.writeData_dataOp d kind f g s op hop))).final
    have hfmt := rootGroupFmt_of f _ hroot hclean
    have hm : (metadataWrite d g.geff (run s (writeData d kind f g s).ops)).ops =
        rootMetaOps d f (.root (some g.geff) (otherAttrsIn d f (run s (writeData d kind f g s).ops))) := by
      unfold metadataWrite; rw [look_bind]; simp only [hfmt]; rfl
    rw [hm]
    generalize run s (writeData d kind f g s).ops = sW at hroot hclean hfmt ⊢
    cases f with
    | v2 =>
      have hc := hclean rfl
      simp only [rootMetaOps, run_cons, run_nil, step]
      refine ⟨by simp [geffAttrIn, rootDocKey, get_put_same], ?_, ?_⟩
      · apply rootGroupFmt_of
        · simp [groupKey, has, get_put_same, get_put_ne]
        · intro _; simp [has, get_put_ne] at hc ⊢; exact hc
      · intro _; simp [has, get_put_ne] at hc ⊢; exact hc
    | v3 =>
      simp only [rootMetaOps, run_cons, run_nil, step]
      refine ⟨by simp [geffAttrIn, rootDocKey, get_put_same], ?_, ?_⟩
      · simp [rootGroupFmt, has, get_put_same]
      · intro h; cases h

end Geff.KV
