import Mathlib.Data.List.Nodup
import GeffProofs.Reach
import GeffModel.ValidateData
/-! Lemmas about the models of `validate/graph.py`, `validate/shapes.py` and the dispatch (C12). -/
namespace Geff.Validate
open Geff.Graph

/-! ## `dedup`, `np.unique` -/
theorem nodup_dedup {α : Type} [DecidableEq α] (l : List α) : (dedup l).Nodup := by
  induction l with
  | nil => simp [dedup]
  | cons a t ih =>
    simp only [dedup, List.nodup_cons, List.mem_filter, ne_eq, decide_not, Bool.not_eq_eq_eq_not,
      Bool.not_true, decide_eq_false_iff_not, not_true_eq_false, and_false, not_false_eq_true, true_and]
    exact ih.filter _

/-! ## insertion sort -/
theorem mem_insertBy {β : Type} (le : β → β → Bool) (x a : β) (l : List β) :
    a ∈ insertBy le x l ↔ a = x ∨ a ∈ l := by
  induction l with
  | nil => simp [insertBy]
  | cons y ys ih =>
    unfold insertBy
    split
    · simp
    · simp only [List.mem_cons, ih]; tauto

theorem mem_isort {β : Type} (le : β → β → Bool) (a : β) (l : List β) : a ∈ isort le l ↔ a ∈ l := by
  induction l with
  | nil => simp [isort]
  | cons x xs ih => simp [isort, mem_insertBy, ih]

theorem nodup_insertBy {β : Type} (le : β → β → Bool) (x : β) (l : List β)
    (hx : x ∉ l) (hl : l.Nodup) : (insertBy le x l).Nodup := by
  induction l with
  | nil => simp [insertBy]
  | cons y ys ih =>
    unfold insertBy
    simp only [List.mem_cons, not_or] at hx
    have hl' := List.nodup_cons.1 hl
    split
    · exact List.nodup_cons.2 ⟨by simp [hx.1, hx.2], hl⟩
    · refine List.nodup_cons.2 ⟨?_, ih hx.2 hl'.2⟩
      rw [mem_insertBy]
      rintro (h | h)
      · exact hx.1 h.symm
      · exact hl'.1 h

theorem nodup_isort {β : Type} (le : β → β → Bool) (l : List β) (hl : l.Nodup) : (isort le l).Nodup := by
  induction l with
  | nil => simp [isort]
  | cons x xs ih =>
    have hl' := List.nodup_cons.1 hl
    exact nodup_insertBy le x _ (by rw [mem_isort]; exact hl'.1) (ih hl'.2)

theorem pairwise_insertBy {β : Type} (le : β → β → Bool)
    (trans : ∀ a b c, le a b = true → le b c = true → le a c = true)
    (total : ∀ a b, le a b = true ∨ le b a = true) (x : β) (l : List β)
    (hl : l.Pairwise (fun a b => le a b = true)) :
    (insertBy le x l).Pairwise (fun a b => le a b = true) := by
  induction l with
  | nil => simp [insertBy]
  | cons y ys ih =>
    have hl' := List.pairwise_cons.1 hl
    unfold insertBy
    split
    · rename_i hxy
      refine List.pairwise_cons.2 ⟨?_, hl⟩
      intro a ha
      rcases List.mem_cons.1 ha with rfl | ha
      · exact hxy
      · exact trans _ _ _ hxy (hl'.1 a ha)
    · rename_i hxy
      have hyx : le y x = true := by
        rcases total x y with h | h
        · exact absurd h hxy
        · exact h
      refine List.pairwise_cons.2 ⟨?_, ih hl'.2⟩
      intro a ha
      rcases (mem_insertBy le x a ys).1 ha with rfl | ha
      · exact hyx
      · exact hl'.1 a ha

theorem pairwise_isort {β : Type} (le : β → β → Bool)
    (trans : ∀ a b c, le a b = true → le b c = true → le a c = true)
    (total : ∀ a b, le a b = true ∨ le b a = true) (l : List β) :
    (isort le l).Pairwise (fun a b => le a b = true) := by
  induction l with
  | nil => simp [isort]
  | cons x xs ih => exact pairwise_insertBy le trans total x _ ih

theorem mem_npUnique (l : List Int) (x : Int) : x ∈ npUnique l ↔ x ∈ l := by
  unfold npUnique; rw [mem_isort, mem_dedup]

theorem mem_npUniqueRows (l : List (Int × Int)) (x : Int × Int) : x ∈ npUniqueRows l ↔ x ∈ l := by
  unfold npUniqueRows; rw [mem_isort, mem_dedup]

theorem nodup_npUnique (l : List Int) : (npUnique l).Nodup := nodup_isort _ _ (nodup_dedup l)

theorem nodup_npUniqueRows (l : List (Int × Int)) : (npUniqueRows l).Nodup :=
  nodup_isort _ _ (nodup_dedup l)

/-- `np.unique` output is strictly ascending -/
theorem sorted_npUnique (l : List Int) : (npUnique l).Pairwise (· < ·) := by
  have h1 : (npUnique l).Pairwise (fun a b => decide (a ≤ b) = true) :=
    pairwise_isort (fun a b => decide (a ≤ b))
      (by intro a b c h1 h2; simp only [decide_eq_true_eq] at *; omega)
      (by intro a b; simp only [decide_eq_true_eq]; omega) _
  have h2 : (npUnique l).Pairwise (· ≠ ·) := nodup_npUnique l
  refine List.Pairwise.imp₂ ?_ h1 h2
  intro a b hab hne
  simp only [decide_eq_true_eq] at hab
  omega

/-- strict lexicographic order on rows -/
def LexLt (a b : Int × Int) : Prop := a.1 < b.1 ∨ (a.1 = b.1 ∧ a.2 < b.2)

theorem sorted_npUniqueRows (l : List (Int × Int)) : (npUniqueRows l).Pairwise LexLt := by
  have h1 : (npUniqueRows l).Pairwise (fun a b => lexLe a b = true) :=
    pairwise_isort lexLe
      (by intro a b c h1 h2; simp only [lexLe, decide_eq_true_eq] at *; omega)
      (by intro a b; simp only [lexLe, decide_eq_true_eq]; omega) _
  have h2 : (npUniqueRows l).Pairwise (· ≠ ·) := nodup_npUniqueRows l
  refine List.Pairwise.imp₂ ?_ h1 h2
  rintro ⟨a1, a2⟩ ⟨b1, b2⟩ hab hne
  simp only [lexLe, decide_eq_true_eq] at hab
  unfold LexLt
  simp only [ne_eq, Prod.mk.injEq, not_and] at hne ⊢
  omega

theorem nodup_iff_no_count_gt_one {α : Type} [BEq α] [LawfulBEq α] (l : List α) :
    l.Nodup ↔ ∀ x, ¬ 1 < l.count x := by
  rw [List.nodup_iff_count_le_one]
  exact forall_congr' fun x => by omega

theorem mem_of_one_lt_count {α : Type} [BEq α] [LawfulBEq α] (l : List α) (x : α) (h : 1 < l.count x) :
    x ∈ l := List.count_pos_iff.1 (by omega)

/-! ## the four graph validators -/
theorem mem_uniqueOffenders (ids : List Int) (x : Int) :
    x ∈ (validateUniqueNodeIds ids).2 ↔ 1 < ids.count x := by
  unfold validateUniqueNodeIds
  simp only [List.mem_filter, mem_npUnique, decide_eq_true_eq]
  exact ⟨fun h => h.2, fun h => ⟨mem_of_one_lt_count ids x h, h⟩⟩

theorem uniqueValid_iff (ids : List Int) : (validateUniqueNodeIds ids).1 = true ↔ ids.Nodup := by
  rw [nodup_iff_no_count_gt_one]
  have : (validateUniqueNodeIds ids).1 = (validateUniqueNodeIds ids).2.isEmpty := rfl
  rw [this, List.isEmpty_iff, List.eq_nil_iff_forall_not_mem]
  exact forall_congr' fun x => not_congr (mem_uniqueOffenders ids x)

theorem nodesForEdgesValid_iff (ids : List Int) (edges : List (Int × Int)) :
    (validateNodesForEdges ids edges).1 = true ↔ ∀ e ∈ edges, e.1 ∈ ids ∧ e.2 ∈ ids := by
  unfold validateNodesForEdges
  simp only [List.isEmpty_iff, List.filter_eq_nil_iff, Bool.not_eq_true', Bool.not_eq_false,
    Bool.and_eq_true, decide_eq_true_eq]

theorem mem_selfOffenders (edges : List (Int × Int)) (x : Int) :
    x ∈ (validateNoSelfEdges edges).2 ↔ (x, x) ∈ edges := by
  unfold validateNoSelfEdges
  simp only [mem_npUnique, List.mem_map, List.mem_filter, decide_eq_true_eq]
  constructor
  · rintro ⟨⟨a, b⟩, ⟨hm, hab⟩, rfl⟩
    simp only at hab; subst hab; exact hm
  · intro h; exact ⟨(x, x), ⟨h, rfl⟩, rfl⟩

theorem selfValid_iff (edges : List (Int × Int)) :
    (validateNoSelfEdges edges).1 = true ↔ ∀ e ∈ edges, e.1 ≠ e.2 := by
  have : (validateNoSelfEdges edges).1 = (validateNoSelfEdges edges).2.isEmpty := rfl
  rw [this, List.isEmpty_iff, List.eq_nil_iff_forall_not_mem]
  constructor
  · rintro h ⟨a, b⟩ he hab
    simp only at hab; subst hab
    exact h a ((mem_selfOffenders edges a).2 he)
  · intro h x hx
    exact h (x, x) ((mem_selfOffenders edges x).1 hx) rfl

theorem mem_repeatedOffenders (edges : List (Int × Int)) (e : Int × Int) :
    e ∈ (validateNoRepeatedEdges edges).2 ↔ 1 < edges.count e := by
  unfold validateNoRepeatedEdges
  simp only [List.mem_filter, mem_npUniqueRows, decide_eq_true_eq]
  exact ⟨fun h => h.2, fun h => ⟨mem_of_one_lt_count edges e h, h⟩⟩

theorem repeatedValid_iff (edges : List (Int × Int)) :
    (validateNoRepeatedEdges edges).1 = true ↔ edges.Nodup := by
  rw [nodup_iff_no_count_gt_one]
  have : (validateNoRepeatedEdges edges).1 = (validateNoRepeatedEdges edges).2.isEmpty := rfl
  rw [this, List.isEmpty_iff, List.eq_nil_iff_forall_not_mem]
  exact forall_congr' fun x => not_congr (mem_repeatedOffenders edges x)

/-! ## unordered pairs -/
theorem sortPair_eq_iff (e f : Int × Int) :
    sortPair e = sortPair f ↔ e = f ∨ e = f.swap := by
  obtain ⟨a, b⟩ := e
  obtain ⟨c, d⟩ := f
  unfold sortPair
  simp only [Prod.swap_prod_mk]
  split <;> split <;> simp only [Prod.mk.injEq] <;> omega

theorem nodup_map_sortPair (edges : List (Int × Int)) :
    (edges.map sortPair).Nodup ↔ edges.Pairwise (fun e f => ¬ (e = f ∨ e = f.swap)) := by
  unfold List.Nodup
  rw [List.pairwise_map]
  constructor <;> intro h <;> refine h.imp ?_ <;> intro a b hab
  · rw [← sortPair_eq_iff]; exact hab
  · rw [Ne, sortPair_eq_iff]; exact hab

end Geff.Validate

namespace Geff.Validate
open Geff.Graph

/-! ## masks, sphere, ellipsoid shape -/
theorem mem_applyMask {β : Type} (xs : List β) (m : List Bool) (r : List β)
    (h : applyMask xs (some m) = some r) (x : β) : x ∈ r ↔ (x, false) ∈ xs.zip m := by
  unfold applyMask at h
  simp only at h
  split at h
  · cases h
    simp only [List.mem_filterMap]
    constructor
    · rintro ⟨⟨q, b⟩, hm, hq⟩
      cases b
      · simp only [Bool.false_eq_true, if_false, Option.some.injEq] at hq
        subst hq; exact hm
      · simp at hq
    · intro hm
      exact ⟨(x, false), hm, by simp⟩
  · cases h

/-- the entries of `flat` that are not flagged missing -/
def Unmasked {β : Type} (flat : List β) (missing : Option (List Bool)) (x : β) : Prop :=
  match missing with
  | none => x ∈ flat
  | some m => (x, false) ∈ flat.zip m

theorem applyMask_isSome {β : Type} (xs : List β) (missing : Option (List Bool))
    (hlen : ∀ m, missing = some m → m.length = xs.length) : ∃ r, applyMask xs missing = some r := by
  cases missing with
  | none => exact ⟨xs, rfl⟩
  | some m =>
    unfold applyMask
    simp only [hlen m rfl, true_or, if_true]
    exact ⟨_, rfl⟩

theorem mem_applyMask_iff {β : Type} (xs : List β) (missing : Option (List Bool)) (r : List β)
    (h : applyMask xs missing = some r) (x : β) : x ∈ r ↔ Unmasked xs missing x := by
  cases missing with
  | none => unfold applyMask at h; cases h; rfl
  | some m => exact mem_applyMask xs m r h x

/-! ## dispatch -/
theorem firstError_ok_iff (l : List Outcome) : firstError l = .ok ↔ ∀ o ∈ l, o = .ok := by
  induction l with
  | nil => simp [firstError]
  | cons a t ih =>
    cases a with
    | ok => simp [firstError, ih]
    | valueError m => simp [firstError]
    | other n => simp [firstError]

theorem firstError_map_congr {β : Type} (l : List β) (r r' : β → Outcome)
    (h : ∀ x ∈ l, r x = r' x) : firstError (l.map r) = firstError (l.map r') := by
  induction l with
  | nil => rfl
  | cons a t ih =>
    have ha := h a (by simp)
    have ht := ih (fun x hx => h x (List.mem_cons_of_mem _ hx))
    simp only [List.map_cons]
    rw [← ha]
    cases hra : r a with
    | ok => simp only [firstError]; exact ht
    | valueError m => simp [firstError]
    | other n => simp [firstError]

/-- the error, if any, is the outcome of one of the evaluated calls -/
theorem firstError_mem (l : List Outcome) (h : firstError l ≠ .ok) : firstError l ∈ l := by
  induction l with
  | nil => simp [firstError] at h
  | cons a t ih =>
    cases a with
    | ok =>
      simp only [firstError] at h ⊢
      exact List.mem_cons_of_mem _ (ih h)
    | valueError m => simp [firstError]
    | other n => simp [firstError]

theorem mem_called (c : Config) (d : Decl) (call : Call) :
    call ∈ called c d ↔ ∃ gs, (call, gs) ∈ dispatchTable ∧ gs.all (Guard.holds c d) = true := by
  unfold called
  simp only [List.mem_map, List.mem_filter]
  constructor
  · rintro ⟨⟨c', gs⟩, ⟨hm, hg⟩, rfl⟩; exact ⟨gs, hm, hg⟩
  · rintro ⟨gs, hm, hg⟩; exact ⟨(call, gs), ⟨hm, hg⟩, rfl⟩

end Geff.Validate
