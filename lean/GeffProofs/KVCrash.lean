import GeffProofs.KVWrite
/-! # Every crash point of a write is harmless (C05): assembly of the phase lemmas

`writeArrays_crash` / `apiWrite_crash`: for the op list the model derives for `write_arrays`
(resp. `geff.write` and the converters) on any admissible store, the store left by a crash at any
mutation is not recognised as a geff, or is exactly the store of the committed write, or is exactly
the store before the call. -/
namespace Geff.KV
open Gen.Paths Prog

/-- a crash point is harmless: the store is not recognised as a geff, or it is exactly the store
`new` of the committed write, or it is exactly the store `old` the write started from -/
def CrashSafe (f : Fmt) (old new : KV) (committed : Prop) (t : KV) : Prop :=
  recognised f t = false ∨ (committed ∧ t = new) ∨ t = old

theorem validateAndCleanup_ops (d : Docs) (kind : Kind) (f : Fmt) (g : G) (va : Bool) (s : KV) :
    (validateAndCleanup d kind f g va s).ops =
      if va && !g.valid then (deleteGeff d kind f s).ops else [] := by
  unfold validateAndCleanup
  split
  · simp [bind_def, ops_bind]
  · rfl

/-- body, validation and clean-up, started on a store without geff attribute and with nothing
below `nodes/` -/
theorem bodyCleanup_crash (d : Docs) (kind : Kind) (f : Fmt) (g : G) (va : Bool) (s : KV)
    (h1 : geffAttrIn f s = none) (h2 : NoneUnder [NODES] s) :
    Crash s ((writeBody d kind f g >>= fun _ => validateAndCleanup d kind f g va) s).ops
      (fun t => recognised f t = false ∨
        ((writeBody d kind f g s).val = .ok () ∧ t = run s (writeBody d kind f g s).ops)) := by
  simp only [bind_def, ops_bind]
  have hB := writeBody_crash d kind f g s h1
  refine Crash.append (hB.mono ?_) ?_
  · intro t ht
    rcases ht with ht | ht
    · exact Or.inl (not_recognised_of_noGeff ht)
    · exact Or.inr ht
  · cases hv : (writeBody d kind f g s).val with
    | error e => exact Crash.nil (hB.final.elim (fun h => Or.inl (not_recognised_of_noGeff h)) (fun h => Or.inr (by rw [hv] at h; simp at h)))
    | ok u =>
      simp only
      rw [validateAndCleanup_ops]
      split
      · have hroot := writeBody_root d kind f g s u hv
        have hsafe := writeBody_deleteSafe d kind f g s h2 u hv
        refine (deleteGeff_crash d kind f _ hroot (fun _ => hsafe)).mono ?_
        intro t ht
        rcases ht with ht | ht
        · exact Or.inr ⟨trivial, ht⟩
        · exact Or.inl (not_recognised_of_broken ht)
      · exact Crash.nil (Or.inr ⟨trivial, rfl⟩)



/-- what the theorems assume about the store a write starts from: if `check_for_geff` sees no geff
there is no geff attribute (in the format being written) and nothing below `nodes/`; if it sees one
the root group exists in the format being written and, on MemoryStore-like kinds, the store is
`DeleteSafe` (as every store left by a completed write is, `writeBody_deleteSafe`) -/
structure PreOK (kind : Kind) (f : Fmt) (ow : Bool) (kv : KV) : Prop where
  fresh : checkForGeff kind kv = false → geffAttrIn f kv = none ∧ NoneUnder [NODES] kv
  held : checkForGeff kind kv = true → ow = true →
    has kv (groupKey f []) = true ∧ (kind = .mem → DeleteSafe f kv)

/-- the write up to and including its commit (the metadata write) -/
def writeCommitted (d : Docs) (kind : Kind) (f : Fmt) (g : G) (ow : Bool) : Prog Unit :=
  guard d kind f ow >>= fun _ => writeBody d kind f g

theorem guard_eq (d : Docs) (kind : Kind) (f : Fmt) (ow : Bool) (s : KV) :
    guard d kind f ow s =
      if checkForGeff kind s then (if ow then deleteGeff d kind f s else ⟨[], .error .fileExists⟩)
      else ⟨[], .ok ()⟩ := by
  unfold guard; rw [look_bind]
  by_cases hc : checkForGeff kind s = true
  · cases ow <;> simp [hc] <;> rfl
  · simp [hc]; rfl

theorem ops_bind_ok {α β} {p : Prog α} {f : α → Prog β} {kv : KV} {a : α} (h : (p kv).val = .ok a) :
    (Prog.bind p f kv).ops = (p kv).ops ++ (f a (run kv (p kv).ops)).ops := by
  rw [ops_bind, h]
theorem ops_bind_err {α β} {p : Prog α} {f : α → Prog β} {kv : KV} {e : Outcome}
    (h : (p kv).val = .error e) : (Prog.bind p f kv).ops = (p kv).ops := by
  rw [ops_bind, h]; simp
theorem val_bind_ok {α β} {p : Prog α} {f : α → Prog β} {kv : KV} {a : α} (h : (p kv).val = .ok a) :
    (Prog.bind p f kv).val = (f a (run kv (p kv).ops)).val := by
  rw [val_bind, h]
theorem val_bind_err {α β} {p : Prog α} {f : α → Prog β} {kv : KV} {e : Outcome}
    (h : (p kv).val = .error e) : (Prog.bind p f kv).val = .error e := by
  rw [val_bind, h]

/-- **every crash point of `write_arrays`** -/
theorem writeArrays_crash (d : Docs) (kind : Kind) (f : Fmt) (g : G) (ow va : Bool) (kv₀ : KV)
    (hpre : PreOK kind f ow kv₀) :
    Crash kv₀ (writeArrays d kind f g ow va kv₀).ops
      (CrashSafe f kv₀ (run kv₀ (writeCommitted d kind f g ow kv₀).ops)
        ((writeCommitted d kind f g ow kv₀).val = .ok ())) := by
  -- the part after the guard, from a store without geff attribute and nothing below nodes/
  have tail : ∀ (G : List Op), geffAttrIn f (run kv₀ G) = none → NoneUnder [NODES] (run kv₀ G) →
      Crash (run kv₀ G)
        ((Prog.bind (writeBody d kind f g) fun _ => validateAndCleanup d kind f g va) (run kv₀ G)).ops
        (CrashSafe f kv₀ (run kv₀ (G ++ (writeBody d kind f g (run kv₀ G)).ops))
          ((writeBody d kind f g (run kv₀ G)).val = .ok ())) := by
    intro G h1 h2
    refine (bodyCleanup_crash d kind f g va _ h1 h2).mono ?_
    intro t ht
    rcases ht with ht | ⟨ht1, ht2⟩
    · exact Or.inl ht
    · exact Or.inr (Or.inl ⟨ht1, by rw [ht2, run_append]⟩)
  have hg := guard_eq d kind f ow kv₀
  unfold writeArrays writeCommitted
  simp only [bind_def]
  by_cases hc : checkForGeff kind kv₀ = true
  · cases ow with
    | false =>
      simp only [hc, if_true, Bool.false_eq_true, if_false] at hg
      have hv : (guard d kind f false kv₀).val = .error .fileExists := by rw [hg]
      have ho : (guard d kind f false kv₀).ops = [] := by rw [hg]
      rw [ops_bind_err hv, ho]
      exact Crash.nil (Or.inr (Or.inr rfl))
    | true =>
      simp only [hc, if_true] at hg
      obtain ⟨hroot, hsafe⟩ := hpre.held hc rfl
      have hD := deleteGeff_crash d kind f kv₀ hroot hsafe
      have hD' : Crash kv₀ (deleteGeff d kind f kv₀).ops (CrashSafe f kv₀
          (run kv₀ (Prog.bind (guard d kind f true) (fun _ => writeBody d kind f g) kv₀).ops)
          ((Prog.bind (guard d kind f true) (fun _ => writeBody d kind f g) kv₀).val = .ok ())) := by
        refine hD.mono ?_
        intro t ht
        rcases ht with ht | ht
        · exact Or.inr (Or.inr ht)
        · exact Or.inl (not_recognised_of_broken ht)
      cases hv : (deleteGeff d kind f kv₀).val with
      | error e =>
        have hv' : (guard d kind f true kv₀).val = .error e := by rw [hg]; exact hv
        rw [ops_bind_err hv', hg]
        exact hD'
      | ok u =>
        have hv' : (guard d kind f true kv₀).val = .ok u := by rw [hg]; exact hv
        rw [ops_bind_ok hv', hg]
        refine Crash.append hD' ?_
        have := tail _ (deleteGeff_noGeff d kind f kv₀ u hv) (deleteGeff_noneUnder d kind f kv₀ hroot)
        rw [ops_bind_ok hv', val_bind_ok hv', hg]
        exact this
  · have hc' : checkForGeff kind kv₀ = false := by simpa using hc
    simp only [hc', Bool.false_eq_true, if_false] at hg
    have hv : (guard d kind f ow kv₀).val = .ok () := by rw [hg]
    have ho : (guard d kind f ow kv₀).ops = [] := by rw [hg]
    obtain ⟨h1, h2⟩ := hpre.fresh hc'
    have := tail [] (by simpa [run_nil] using h1) (by simpa [run_nil] using h2)
    rw [ops_bind_ok hv, ops_bind_ok hv, val_bind_ok hv, ho]
    simpa [run_nil] using this



/-- `geff.write` / the converters up to and including the commit -/
def apiCommitted (d : Docs) (kind : Kind) (f : Fmt) (g : G) (ow : Bool) : Prog Unit :=
  guard d kind f ow >>= fun _ => writeCommitted d kind f g false

/-- **every crash point of `geff.write`, `from_ctc_to_geff`, `from_trackmate_xml_to_geff`**
(own guard and deletion, then a nested `write_arrays` that guards again without `overwrite`) -/
theorem apiWrite_crash (d : Docs) (kind : Kind) (f : Fmt) (g : G) (ow va : Bool) (kv₀ : KV)
    (hpre : PreOK kind f ow kv₀) :
    Crash kv₀ (apiWrite d kind f g ow va kv₀).ops
      (CrashSafe f kv₀ (run kv₀ (apiCommitted d kind f g ow kv₀).ops)
        ((apiCommitted d kind f g ow kv₀).val = .ok ())) := by
  -- the nested write_arrays, from a store without geff attribute and nothing below nodes/
  have inner : ∀ (G : List Op), geffAttrIn f (run kv₀ G) = none → NoneUnder [NODES] (run kv₀ G) →
      (run kv₀ G = kv₀ ∨ nodesBroken f (run kv₀ G)) →
      Crash (run kv₀ G) (writeArrays d kind f g false va (run kv₀ G)).ops
        (CrashSafe f kv₀ (run kv₀ (G ++ (writeCommitted d kind f g false (run kv₀ G)).ops))
          ((writeCommitted d kind f g false (run kv₀ G)).val = .ok ())) := by
    intro G h1 h2 h3
    have hp : PreOK kind f false (run kv₀ G) := ⟨fun _ => ⟨h1, h2⟩, fun _ h => by simp at h⟩
    refine (writeArrays_crash d kind f g false va _ hp).mono ?_
    intro t ht
    rcases ht with ht | ⟨ht1, ht2⟩ | ht
    · exact Or.inl ht
    · exact Or.inr (Or.inl ⟨ht1, by rw [ht2, run_append]⟩)
    · rcases h3 with h3 | h3
      · exact Or.inr (Or.inr (by rw [ht, h3]))
      · exact Or.inl (by rw [ht]; exact not_recognised_of_broken h3)
  have hg := guard_eq d kind f ow kv₀
  unfold apiWrite apiCommitted
  simp only [bind_def]
  by_cases hc : checkForGeff kind kv₀ = true
  · cases ow with
    | false =>
      simp only [hc, if_true, Bool.false_eq_true, if_false] at hg
      have hv : (guard d kind f false kv₀).val = .error .fileExists := by rw [hg]
      have ho : (guard d kind f false kv₀).ops = [] := by rw [hg]
      rw [ops_bind_err hv, ho]
      exact Crash.nil (Or.inr (Or.inr rfl))
    | true =>
      simp only [hc, if_true] at hg
      obtain ⟨hroot, hsafe⟩ := hpre.held hc rfl
      have hD := deleteGeff_crash d kind f kv₀ hroot hsafe
      have hD' : Crash kv₀ (deleteGeff d kind f kv₀).ops (CrashSafe f kv₀
          (run kv₀ (Prog.bind (guard d kind f true) (fun _ => writeCommitted d kind f g false) kv₀).ops)
          ((Prog.bind (guard d kind f true) (fun _ => writeCommitted d kind f g false) kv₀).val = .ok ())) := by
        refine hD.mono ?_
        intro t ht
        rcases ht with ht | ht
        · exact Or.inr (Or.inr ht)
        · exact Or.inl (not_recognised_of_broken ht)
      cases hv : (deleteGeff d kind f kv₀).val with
      | error e =>
        have hv' : (guard d kind f true kv₀).val = .error e := by rw [hg]; exact hv
        rw [ops_bind_err hv', hg]
        exact hD'
      | ok u =>
        have hv' : (guard d kind f true kv₀).val = .ok u := by rw [hg]; exact hv
        rw [ops_bind_ok hv', hg]
        refine Crash.append hD' ?_
        have := inner _ (deleteGeff_noGeff d kind f kv₀ u hv) (deleteGeff_noneUnder d kind f kv₀ hroot)
          hD.final
        rw [ops_bind_ok hv', val_bind_ok hv', hg]
        exact this
  · have hc' : checkForGeff kind kv₀ = false := by simpa using hc
    simp only [hc', Bool.false_eq_true, if_false] at hg
    have hv : (guard d kind f ow kv₀).val = .ok () := by rw [hg]
    have ho : (guard d kind f ow kv₀).ops = [] := by rw [hg]
    obtain ⟨h1, h2⟩ := hpre.fresh hc'
    have := inner [] (by simpa [run_nil] using h1) (by simpa [run_nil] using h2) (Or.inl rfl)
    rw [ops_bind_ok hv, ops_bind_ok hv, val_bind_ok hv, ho]
    simpa [run_nil] using this

theorem preOK_empty (kind : Kind) (f : Fmt) (ow : Bool) : PreOK kind f ow [] := by
  constructor
  · intro _; exact ⟨rfl, rfl⟩
  · intro h; cases kind <;> simp [checkForGeff, rootGroupFmt, has] at h

/-- a store `check_for_geff` finds no geff in, without stray geff keys -/
theorem preOK_fresh {kind : Kind} {f : Fmt} {ow : Bool} {kv : KV} (hc : checkForGeff kind kv = false)
    (h1 : geffAttrIn f kv = none) (h2 : NoneUnder [NODES] kv) : PreOK kind f ow kv :=
  ⟨fun _ => ⟨h1, h2⟩, fun h => by rw [hc] at h; simp at h⟩

end Geff.KV
