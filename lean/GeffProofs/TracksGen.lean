import Gen.Tracks
import GeffProofs.Lineage
/-! Helper lemmas: the source-translated `validate_lineages` (`Gen.Tracks.validateLineages`,
translator T21) equals the hand-written model `Geff.Lineage.validateLineagesArrays`.

* the grouping loop `d.setdefault(l, []).append(n)` over `zip(nodes, labels)` builds
  `groups nl = (dedup labels).map (fun l => (l, nodesWith nl l))` (`foldl_groups`);
* `frozenset(l_nodes) in {frozenset(c) for c in nx.weakly_connected_components(G)}` is the model's
  `labelOk` (`frozensetIn_wcc_iff`, `labelOk_iff'`: for a non-empty class both say `LabelGood`,
  whatever vertex list — networkx' insertion order, with the unlabelled surplus nodes of a longer
  node array — the components are computed on);
* the generated loops are consumed by unification: `forIn_fold` turns a loop whose body, on the
  elements it is run on, equals `pure (yield (f s x))` into `List.foldl f`. -/
namespace GeffProofs.TracksGen
open Geff.Graph Geff.Lineage Geff.Tracklet Geff.PyDoTracks Relation

/-! ## loops -/

theorem forIn_fold {α σ : Type} (f : σ → α → σ) (body : α → σ → Outcome (ForInStep σ)) :
    ∀ (l : List α) (init : σ), (∀ x ∈ l, ∀ s, body x s = pure (ForInStep.yield (f s x))) →
      forIn l init body = pure (l.foldl f init) := by
  intro l
  induction l with
  | nil => intro init _; rfl
  | cons a t ih =>
    intro init h
    rw [List.forIn_cons, h a (List.mem_cons_self ..) init]
    simp only [pure_bind, List.foldl_cons]
    exact ih _ (fun x hx s => h x (List.mem_cons_of_mem _ hx) s)

theorem foldl_report {β : Type} (bad : β → Bool) (msg : β → String) (l : List β) (init : List String) :
    l.foldl (fun errs x => if bad x then errs ++ [msg x] else errs) init
      = init ++ (l.filter bad).map msg := by
  induction l generalizing init with
  | nil => simp
  | cons a t ih =>
    simp only [List.foldl_cons, List.filter_cons]
    cases h : bad a <;> simp [ih]

/-! ## `dedup` -/

theorem nodup_dedup {α : Type} [DecidableEq α] (l : List α) : (dedup l).Nodup := by
  induction l with
  | nil => simp [dedup]
  | cons a t ih =>
    simp only [dedup, List.nodup_cons, List.mem_filter, ne_eq, decide_not, Bool.not_eq_eq_eq_not,
      Bool.not_true, decide_eq_false_iff_not, not_true_eq_false, and_false, not_false_eq_true, true_and]
    exact ih.filter _

theorem dedup_snoc {α : Type} [DecidableEq α] (xs : List α) (y : α) :
    dedup (xs ++ [y]) = if y ∈ xs then dedup xs else dedup xs ++ [y] := by
  induction xs with
  | nil => simp [dedup]
  | cons x t ih =>
    simp only [List.cons_append, dedup, ih, List.mem_cons]
    by_cases hyx : y = x
    · subst hyx
      by_cases hyt : y ∈ t <;> simp [hyt, List.filter_append]
    · by_cases hyt : y ∈ t <;> simp [hyt, hyx, List.filter_append]

/-! ## the grouping dict -/

/-- what the grouping loop has built after the pairs `nl`: first-occurrence order of the labels,
each with its nodes in order -/
def groups (nl : List (Int × Int)) : PyDict :=
  (dedup (nl.map (·.2))).map (fun l => (l, nodesWith nl l))

theorem setdefault_map (f : Int → List Int) (k v : Int) : ∀ (ks : List Int), ks.Nodup →
    dictSetdefaultAppend (ks.map fun l => (l, f l)) k v =
      if k ∈ ks then ks.map (fun l => (l, if l = k then f l ++ [v] else f l))
      else ks.map (fun l => (l, f l)) ++ [(k, [v])] := by
  intro ks
  induction ks with
  | nil => intro _; simp [dictSetdefaultAppend]
  | cons a t ih =>
    intro hnd
    rw [List.nodup_cons] at hnd
    simp only [List.map_cons, dictSetdefaultAppend]
    by_cases hak : a = k
    · subst hak
      simp only [if_true, List.mem_cons, true_or]
      congr 1
      apply List.map_congr_left
      intro l hl
      have : l ≠ a := fun h => hnd.1 (h ▸ hl)
      simp [this]
    · have hka : ¬ k = a := fun h => hak h.symm
      simp only [hak, if_false, List.mem_cons, hka, false_or, ih hnd.2]
      by_cases hkt : k ∈ t <;> simp [hkt]

theorem nodesWith_snoc (p : List (Int × Int)) (n l l' : Int) :
    nodesWith (p ++ [(n, l)]) l' = if l' = l then nodesWith p l' ++ [n] else nodesWith p l' := by
  unfold nodesWith
  by_cases h : l = l'
  · subst h; simp [List.filter_append]
  · have h' : ¬ l' = l := fun e => h e.symm
    simp [List.filter_append, h, h']

theorem nodesWith_eq_nil (p : List (Int × Int)) (l : Int) (h : l ∉ p.map (·.2)) : nodesWith p l = [] := by
  unfold nodesWith
  simp only [List.map_eq_nil_iff, List.filter_eq_nil_iff, decide_eq_true_eq]
  intro a ha hal
  exact h (List.mem_map.2 ⟨a, ha, hal⟩)

theorem step_groups (p : List (Int × Int)) (n l : Int) :
    dictSetdefaultAppend (groups p) l n = groups (p ++ [(n, l)]) := by
  unfold groups
  rw [setdefault_map _ _ _ _ (nodup_dedup _), List.map_append, List.map_cons, List.map_nil, dedup_snoc]
  simp only [mem_dedup]
  by_cases hl : l ∈ p.map (·.2)
  · simp only [hl, if_true]
    apply List.map_congr_left
    intro l' _
    rw [nodesWith_snoc]
  · simp only [hl, if_false, List.map_append, List.map_cons, List.map_nil]
    congr 1
    · apply List.map_congr_left
      intro l' hl'
      have : ¬ l' = l := fun e => hl (e ▸ (mem_dedup _ _).1 hl')
      rw [nodesWith_snoc, if_neg this]
    · rw [nodesWith_snoc, if_pos rfl, nodesWith_eq_nil p l hl]; rfl

theorem foldl_groups (q : List (Int × Int)) : ∀ p : List (Int × Int),
    q.foldl (fun d x => dictSetdefaultAppend d x.2 x.1) (groups p) = groups (p ++ q) := by
  induction q with
  | nil => intro p; simp
  | cons a t ih =>
    intro p
    obtain ⟨n, l⟩ := a
    rw [List.foldl_cons, step_groups, ih]
    simp

theorem groups_nil : groups [] = [] := rfl

/-- every class of the grouping dict is non-empty (the guard `if not l_nodes: continue` never fires) -/
theorem groups_nonempty (nl : List (Int × Int)) (x : Int × List Int) (hx : x ∈ groups nl) :
    x.1 ∈ dedup (nl.map (·.2)) ∧ x.2 = nodesWith nl x.1 ∧ ∃ u, (u, x.1) ∈ nl := by
  unfold groups at hx
  obtain ⟨l, hl, rfl⟩ := List.mem_map.1 hx
  refine ⟨hl, rfl, ?_⟩
  obtain ⟨⟨u, l'⟩, hm, rfl⟩ := List.mem_map.1 ((mem_dedup _ _).1 hl)
  exact ⟨u, hm⟩

/-! ## components -/

theorem wccGo_sub (es : List (Int × Int)) (V : List Int) : ∀ (todo : List Int) (acc : List (List Int)),
    ∀ c ∈ wccGo es V todo acc, c ∈ acc ∨ ∃ r ∈ todo, c = component es V r := by
  intro todo
  induction todo with
  | nil => intro acc c hc; exact Or.inl hc
  | cons r t ih =>
    intro acc c hc
    unfold wccGo at hc
    split at hc
    · rcases ih acc c hc with h | ⟨r', hr', e⟩
      · exact Or.inl h
      · exact Or.inr ⟨r', List.mem_cons_of_mem _ hr', e⟩
    · rcases ih _ c hc with h | ⟨r', hr', e⟩
      · rcases List.mem_append.1 h with h | h
        · exact Or.inl h
        · exact Or.inr ⟨r, List.mem_cons_self .., by simpa using h⟩
      · exact Or.inr ⟨r', List.mem_cons_of_mem _ hr', e⟩

theorem wccGo_acc (es : List (Int × Int)) (V : List Int) : ∀ (todo : List Int) (acc : List (List Int)),
    ∀ c ∈ acc, c ∈ wccGo es V todo acc := by
  intro todo
  induction todo with
  | nil => intro acc c hc; exact hc
  | cons r t ih =>
    intro acc c hc
    unfold wccGo
    split
    · exact ih acc c hc
    · exact ih _ c (List.mem_append_left _ hc)

theorem wccGo_covers (es : List (Int × Int)) (V : List Int) : ∀ (todo : List Int) (acc : List (List Int)),
    ∀ r ∈ todo, ∃ c ∈ wccGo es V todo acc, r ∈ c := by
  intro todo
  induction todo with
  | nil => intro acc r hr; cases hr
  | cons a t ih =>
    intro acc r hr
    unfold wccGo
    rcases List.mem_cons.1 hr with rfl | hr
    · split
      · rename_i h
        obtain ⟨c, hc, hrc⟩ := List.any_eq_true.1 h
        exact ⟨c, wccGo_acc es V t acc c hc, by simpa using hrc⟩
      · refine ⟨component es V r, wccGo_acc es V t _ _ (List.mem_append_right _ (by simp)), ?_⟩
        unfold component
        exact grow_superset es _ _ _ r (by simp)
    · split
      · exact ih acc r hr
      · exact ih _ r hr

/-- membership of a node set in the set of yielded components = being the component of some vertex -/
theorem frozensetIn_wcc_iff (es : List (Int × Int)) (V : List Int)
    (hV : ∀ e ∈ es, e.1 ∈ V ∧ e.2 ∈ V) (X : List Int) :
    frozensetIn X (wccGo es V V []) = true ↔ ∃ r ∈ V, sameSet X (component es V r) = true := by
  unfold frozensetIn
  rw [List.any_eq_true]
  constructor
  · rintro ⟨c, hc, hs⟩
    rcases wccGo_sub es V V [] c hc with h | ⟨r, hr, rfl⟩
    · cases h
    · exact ⟨r, hr, hs⟩
  · rintro ⟨r, hr, hs⟩
    obtain ⟨c, hc, hrc⟩ := wccGo_covers es V V [] r hr
    refine ⟨c, hc, ?_⟩
    rcases wccGo_sub es V V [] c hc with h | ⟨r', _, rfl⟩
    · cases h
    · have hr'r : Conn es r' r := (mem_component_iff es V r' hV r).1 hrc
      rw [sameSet_iff] at hs ⊢
      intro x
      rw [hs x, mem_component_iff es V r hV x, mem_component_iff es V r' hV x]
      exact ⟨fun h => hr'r.trans h, fun h => (conn_symm es hr'r).trans h⟩

/-- `labelOk_iff` for an arbitrary vertex list that contains the edge end points and the class -/
theorem labelOk_iff' (nl : List (Int × Int)) (es : List (Int × Int)) (V : List Int) (l : Int)
    (hV : ∀ e ∈ es, e.1 ∈ V ∧ e.2 ∈ V) (hn : ∀ u, (u, l) ∈ nl → u ∈ V) (hl : ∃ u, (u, l) ∈ nl) :
    (∃ r ∈ V, sameSet (nodesWith nl l) (component es V r) = true) ↔ LabelGood nl es l := by
  unfold LabelGood
  simp only [sameSet_iff, mem_nodesWith]
  constructor
  · rintro ⟨r, _, hr⟩
    exact ⟨r, fun x => by rw [hr x, mem_component_iff es _ r hV x]⟩
  · rintro ⟨r, hr⟩
    obtain ⟨u, hu⟩ := hl
    refine ⟨u, hn u hu, ?_⟩
    intro x
    rw [mem_component_iff es _ u hV x, hr x]
    have hru : Conn es r u := (hr u).1 hu
    exact ⟨fun h => (conn_symm es hru).trans h, fun h => hru.trans h⟩

/-- vertex list of `nx.DiGraph(edges)` + `add_nodes_from(nodes)` -/
def gNodes (nodes : List Int) (es : List (Int × Int)) : List Int :=
  dedup (dedup (es.flatMap fun e => [e.1, e.2]) ++ nodes)

theorem mem_gNodes (nodes : List Int) (es : List (Int × Int)) (x : Int) :
    x ∈ gNodes nodes es ↔ (∃ e ∈ es, x = e.1 ∨ x = e.2) ∨ x ∈ nodes := by
  unfold gNodes
  simp [mem_dedup, List.mem_flatMap]

/-- the membership test of the generated code = the model's `labelOk`, for a class of the dict -/
theorem member_eq_labelOk (nodes labels : List Int) (es : List (Int × Int)) (l : Int)
    (hl : ∃ u, (u, l) ∈ nodes.zip labels) :
    frozensetIn (nodesWith (nodes.zip labels) l) (wccGo es (gNodes nodes es) (gNodes nodes es) [])
      = labelOk (nodes.zip labels) es l := by
  have hV : ∀ e ∈ es, e.1 ∈ gNodes nodes es ∧ e.2 ∈ gNodes nodes es := by
    intro e he
    exact ⟨(mem_gNodes ..).2 (Or.inl ⟨e, he, Or.inl rfl⟩), (mem_gNodes ..).2 (Or.inl ⟨e, he, Or.inr rfl⟩)⟩
  have hn : ∀ u, (u, l) ∈ nodes.zip labels → u ∈ gNodes nodes es := fun u hu =>
    (mem_gNodes ..).2 (Or.inr (List.of_mem_zip hu).1)
  have a := (frozensetIn_wcc_iff es _ hV (nodesWith (nodes.zip labels) l)).trans
    (labelOk_iff' (nodes.zip labels) es _ l hV hn hl)
  have b := labelOk_iff (nodes.zip labels) es l hl
  cases h1 : frozensetIn (nodesWith (nodes.zip labels) l) (wccGo es (gNodes nodes es) (gNodes nodes es) []) <;>
    cases h2 : labelOk (nodes.zip labels) es l <;> simp_all

/-! ## `validate_lineages` as written = the model -/

theorem validateLineages_eq (nodeIds : List Int) (edgeIds : List (Int × Int)) (lineageIds : List Int) :
    Gen.Tracks.validateLineages nodeIds edgeIds lineageIds
      = pure (validateLineagesArrays nodeIds lineageIds edgeIds) := by
  unfold Gen.Tracks.validateLineages
  simp only []
  -- the grouping loop
  rw [forIn_fold (fun d (x : Int × Int) => dictSetdefaultAppend d x.2 x.1)]
  case a => intro x _ s; obtain ⟨n, l⟩ := x; rfl
  rw [pure_bind, ← groups_nil, foldl_groups, List.nil_append]
  -- the reporting loop
  rw [forIn_fold (fun errs (x : Int × List Int) =>
    if !(labelOk (pyZip (npAsarrayInt64 nodeIds) (npAsarrayInt64 lineageIds)) (npAsarrayInt64Pairs edgeIds) x.1)
    then errs ++ [Geff.Lineage.message x.1] else errs)]
  case a =>
    intro x hx s
    obtain ⟨hk, hv, hne⟩ := groups_nonempty _ x hx
    obtain ⟨l, ns⟩ := x
    simp only at hk hv hne
    subst hv
    have hnonempty : (nodesWith (pyZip (npAsarrayInt64 nodeIds) (npAsarrayInt64 lineageIds)) l).isEmpty = false := by
      obtain ⟨u, hu⟩ := hne
      have : u ∈ nodesWith (pyZip (npAsarrayInt64 nodeIds) (npAsarrayInt64 lineageIds)) l := (mem_nodesWith _ _ _).2 hu
      cases h : nodesWith (pyZip (npAsarrayInt64 nodeIds) (npAsarrayInt64 lineageIds)) l with
      | nil => rw [h] at this; cases this
      | cons _ _ => rfl
    have hmem := member_eq_labelOk (npAsarrayInt64 nodeIds) (npAsarrayInt64 lineageIds) (npAsarrayInt64Pairs edgeIds) l hne
    simp only [pyZip] at hmem hnonempty ⊢
    simp only [hnonempty, frozenset, List.map_id', nxWeaklyConnectedComponents, DiGraph.addNodesFrom, nxDiGraph,
      Bool.false_eq_true, if_false]
    simp only [gNodes] at hmem
    rw [hmem]
    split <;> rename_i hb <;> simp [hb, Geff.Lineage.message, pyStr]
  rw [pure_bind, foldl_report (fun (x : Int × List Int) =>
    !(labelOk (pyZip (npAsarrayInt64 nodeIds) (npAsarrayInt64 lineageIds)) (npAsarrayInt64Pairs edgeIds) x.1))
    (fun x => Geff.Lineage.message x.1)]
  simp only [dictItems, groups, List.nil_append, List.filter_map, List.map_map, validateLineagesArrays,
    lineageErrorsInt64, lineageErrors, castEdges, pyZip, npAsarrayInt64, npAsarrayInt64Pairs, List.isEmpty_map]
  rfl

end GeffProofs.TracksGen
