import GeffModel.MetaWrite
/-! Helper lemmas for C10 (metadata written with the data): dict algebra, `add_or_update_props_metadata`,
the write loop, axis min/max, pass-through. -/
namespace Geff.MetaW
open Geff.Np

@[simp] theorem pure_eq {α} (a : α) : (pure a : Res α) = .ok a := rfl
@[simp] theorem ok_bind {α β} (a : α) (f : α → Res β) : ((Except.ok a : Res α) >>= f) = f a := rfl
@[simp] theorem error_bind {α β} (e : Err) (f : α → Res β) : ((Except.error e : Res α) >>= f) = .error e := rfl
@[simp] theorem map_ok {α β} (f : α → β) (a : α) : f <$> (Except.ok a : Res α) = .ok (f a) := rfl
@[simp] theorem map_error {α β} (f : α → β) (e : Err) : f <$> (Except.error e : Res α) = .error e := rfl

/-! ### dicts -/
section dict
variable {β : Type}

theorem hasKey_iff (k : String) (d : List (String × β)) : hasKey k d = true ↔ k ∈ keys d := by
  simp [hasKey]

theorem lookup_none_iff (k : String) (d : List (String × β)) : lookup k d = none ↔ k ∉ keys d := by
  induction d with
  | nil => simp [lookup, keys]
  | cons p t ih =>
    obtain ⟨k', v⟩ := p
    simp only [lookup, keys, List.map_cons, List.mem_cons, not_or]
    by_cases h : k' = k
    · simp [h]
    · simp only [h, if_false]
      rw [ih]
      constructor
      · intro h2; exact ⟨fun e => h e.symm, h2⟩
      · intro h2; exact h2.2

theorem lookup_isSome_iff (k : String) (d : List (String × β)) : (lookup k d).isSome ↔ k ∈ keys d := by
  have := lookup_none_iff k d
  cases h : lookup k d with
  | none => simp [h] at this; simp [this]
  | some v =>
    simp only [h, reduceCtorEq, false_iff, Classical.not_not] at this
    simp [this]

theorem lookup_append (k : String) (a b : List (String × β)) :
    lookup k (a ++ b) = (lookup k a).or (lookup k b) := by
  induction a with
  | nil => simp [lookup]
  | cons p t ih =>
    obtain ⟨k', v'⟩ := p
    simp only [List.cons_append, lookup]
    by_cases hk : k' = k <;> simp [hk, ih]

theorem lookup_map_replace (k k' : String) (v : β) (d : List (String × β)) :
    lookup k (d.map (fun p => if p.1 = k' then (k', v) else p)) =
      if k' = k then (if hasKey k' d then some v else none) else lookup k d := by
  induction d with
  | nil => by_cases h : k' = k <;> simp [lookup, hasKey, keys, h]
  | cons p t ih =>
    obtain ⟨a, b⟩ := p
    simp only [List.map_cons]
    by_cases ha : a = k'
    · subst ha
      by_cases h : a = k
      · simp [lookup, h, hasKey, keys]
      · simp only [if_true, lookup, h, if_false]
        rw [ih]; simp [h]
    · simp only [ha, if_false, lookup]
      by_cases h : k' = k
      · subst h
        simp only [ha, if_false, if_true]
        rw [ih]
        have h1 : (k' == a) = false := by simpa using Ne.symm ha
        simp only [hasKey, keys, List.map_cons, List.contains_cons, h1, Bool.false_or, if_true]
        rfl
      · simp only [h, if_false] at ih ⊢
        rw [ih]

theorem lookup_insert (d : List (String × β)) (k k' : String) (v : β) :
    lookup k (insert d k' v) = if k' = k then some v else lookup k d := by
  unfold insert
  by_cases hk : hasKey k' d = true
  · simp only [hk, if_true]
    rw [lookup_map_replace]
    simp [hk]
  · have hk' : hasKey k' d = false := by simpa using hk
    simp only [hk', Bool.false_eq_true, if_false]
    rw [lookup_append]
    by_cases h : k' = k
    · subst h
      have : lookup k' d = none := (lookup_none_iff k' d).2 (fun hm => hk ((hasKey_iff k' d).2 hm))
      simp [this, lookup]
    · simp [lookup, h]

theorem keys_insert (d : List (String × β)) (k : String) (v : β) :
    keys (insert d k v) = if hasKey k d then keys d else keys d ++ [k] := by
  unfold insert
  by_cases hk : hasKey k d = true
  · simp only [hk, if_true, keys, List.map_map]
    apply List.map_congr_left
    intro p _
    by_cases h : p.1 = k <;> simp [h]
  · simp [hk, keys]

theorem nodup_insert (d : List (String × β)) (k : String) (v : β) (h : (keys d).Nodup) :
    (keys (insert d k v)).Nodup := by
  rw [keys_insert]
  by_cases hk : hasKey k d = true
  · simpa [hk] using h
  · have hk' : hasKey k d = false := by simpa using hk
    simp only [hk', Bool.false_eq_true, if_false]
    rw [List.nodup_append]
    refine ⟨h, by simp, ?_⟩
    intro a ha b hb
    simp only [List.mem_singleton] at hb
    subst hb
    intro e; subst e
    exact hk ((hasKey_iff _ _).2 ha)

end dict
/-! ### `add_or_update_props_metadata` -/

theorem addOrUpdateOne_has {E N : List (String × PropMeta)} {p : PropMeta} (h : hasKey p.identifier E = true) :
    addOrUpdateOne E N p = (E.map (fun q => if q.1 = p.identifier then (q.1, upd p q.2) else q), N) := by
  simp [addOrUpdateOne, h]

theorem addOrUpdateOne_not {E N : List (String × PropMeta)} {p : PropMeta} (h : hasKey p.identifier E = false) :
    addOrUpdateOne E N p = (E, insert N p.identifier p) := by
  simp [addOrUpdateOne, h]

theorem lookup_map_upd (k id : String) (f : PropMeta → PropMeta) (d : List (String × PropMeta)) :
    lookup k (d.map (fun q => if q.1 = id then (q.1, f q.2) else q)) =
      if id = k then (lookup k d).map f else lookup k d := by
  induction d with
  | nil => by_cases h : id = k <;> simp [lookup, h]
  | cons q t ih =>
    obtain ⟨a, b⟩ := q
    simp only [List.map_cons]
    by_cases ha : a = id
    · subst ha
      by_cases h : a = k
      · simp [lookup, h]
      · simp only [if_true, lookup, h, if_false] at ih ⊢
        exact ih
    · simp only [ha, if_false, lookup]
      by_cases h : a = k
      · subst h
        simp [Ne.symm ha]
      · simp only [h, if_false]
        exact ih

theorem keys_map_upd (id : String) (f : PropMeta → PropMeta) (d : List (String × PropMeta)) :
    keys (d.map (fun q => if q.1 = id then (q.1, f q.2) else q)) = keys d := by
  simp only [keys, List.map_map]
  apply List.map_congr_left
  intro p _
  by_cases h : p.1 = id <;> simp [h]

theorem addOrUpdateOne_fst_keys (E N : List (String × PropMeta)) (p : PropMeta) :
    keys (addOrUpdateOne E N p).1 = keys E := by
  unfold addOrUpdateOne
  split
  · exact keys_map_upd _ _ _
  · rfl

theorem loop_fst_keys (E N : List (String × PropMeta)) (pms : List PropMeta) :
    keys (addOrUpdateLoop E N pms).1 = keys E := by
  induction pms generalizing E N with
  | nil => rfl
  | cons p t ih => simp only [addOrUpdateLoop]; rw [ih, addOrUpdateOne_fst_keys]

theorem hasKey_congr {β γ} {a : List (String × β)} {b : List (String × γ)} (h : keys a = keys b) (k : String) :
    hasKey k a = hasKey k b := by simp [hasKey, h]

/-- an identifier that does not occur in `props_md` is left alone -/
theorem loop_frame (E N : List (String × PropMeta)) (pms : List PropMeta) (k : String)
    (hk : k ∉ pms.map (·.identifier)) :
    lookup k (addOrUpdateLoop E N pms).1 = lookup k E ∧ lookup k (addOrUpdateLoop E N pms).2 = lookup k N := by
  induction pms generalizing E N with
  | nil => exact ⟨rfl, rfl⟩
  | cons p t ih =>
    simp only [List.map_cons, List.mem_cons, not_or] at hk
    simp only [addOrUpdateLoop]
    obtain ⟨h1, h2⟩ := ih (addOrUpdateOne E N p).1 (addOrUpdateOne E N p).2 hk.2
    rw [h1, h2]
    unfold addOrUpdateOne
    split
    · refine ⟨?_, rfl⟩
      rw [lookup_map_upd]; simp [Ne.symm hk.1]
    · refine ⟨rfl, ?_⟩
      rw [lookup_insert]; simp [Ne.symm hk.1]

/-- the entry of a property that was written: updated in place when the caller had one, new otherwise -/
theorem loop_hit (E N : List (String × PropMeta)) (pms : List PropMeta)
    (hnd : (pms.map (·.identifier)).Nodup) (p : PropMeta) (hp : p ∈ pms) :
    (hasKey p.identifier E = true →
      lookup p.identifier (addOrUpdateLoop E N pms).1 = (lookup p.identifier E).map (upd p)) ∧
    (hasKey p.identifier E = false → lookup p.identifier (addOrUpdateLoop E N pms).2 = some p) := by
  induction pms generalizing E N with
  | nil => simp at hp
  | cons a t ih =>
    simp only [List.map_cons, List.nodup_cons] at hnd
    simp only [addOrUpdateLoop]
    rcases List.mem_cons.1 hp with rfl | hpt
    · -- this step handles `p`; the rest of the loop leaves it alone
      obtain ⟨f1, f2⟩ := loop_frame (addOrUpdateOne E N p).1 (addOrUpdateOne E N p).2 t p.identifier hnd.1
      rw [f1, f2]
      unfold addOrUpdateOne
      constructor
      · intro hk
        simp only [hk, if_true]
        rw [lookup_map_upd]; simp
      · intro hk
        simp only [hk, Bool.false_eq_true, if_false]
        rw [lookup_insert]; simp
    · have hne : a.identifier ≠ p.identifier := by
        intro e
        exact hnd.1 (List.mem_map.2 ⟨p, hpt, e.symm⟩)
      obtain ⟨i1, i2⟩ := ih (addOrUpdateOne E N a).1 (addOrUpdateOne E N a).2 hnd.2 hpt
      have hkeys : hasKey p.identifier (addOrUpdateOne E N a).1 = hasKey p.identifier E :=
        hasKey_congr (addOrUpdateOne_fst_keys E N a) _
      have hE : lookup p.identifier (addOrUpdateOne E N a).1 = lookup p.identifier E := by
        unfold addOrUpdateOne
        split
        · rw [lookup_map_upd]; simp [hne]
        · rfl
      constructor
      · intro hk
        rw [i1 (hkeys.trans hk), hE]
      · intro hk
        exact i2 (hkeys.trans hk)

theorem loop_snd_keys (E N : List (String × PropMeta)) (pms : List PropMeta) (k : String) :
    k ∈ keys (addOrUpdateLoop E N pms).2 ↔
      k ∈ keys N ∨ (k ∈ pms.map (·.identifier) ∧ k ∉ keys E) := by
  induction pms generalizing E N with
  | nil => simp [addOrUpdateLoop]
  | cons a t ih =>
    simp only [addOrUpdateLoop]
    rw [ih, addOrUpdateOne_fst_keys]
    unfold addOrUpdateOne
    by_cases hk : hasKey a.identifier E = true
    · simp only [hk, if_true, List.map_cons, List.mem_cons]
      have ha : a.identifier ∈ keys E := (hasKey_iff _ _).1 hk
      constructor
      · rintro (h | ⟨h1, h2⟩)
        · exact Or.inl h
        · exact Or.inr ⟨Or.inr h1, h2⟩
      · rintro (h | ⟨h1 | h1, h2⟩)
        · exact Or.inl h
        · subst h1; exact absurd ha h2
        · exact Or.inr ⟨h1, h2⟩
    · have hk' : hasKey a.identifier E = false := by simpa using hk
      have ha : a.identifier ∉ keys E := fun hm => hk ((hasKey_iff _ _).2 hm)
      simp only [hk', Bool.false_eq_true, if_false, List.map_cons, List.mem_cons, keys_insert]
      by_cases hn : hasKey a.identifier N = true
      · simp only [hn, if_true]
        have hn' : a.identifier ∈ keys N := (hasKey_iff _ _).1 hn
        constructor
        · rintro (h | ⟨h1, h2⟩)
          · exact Or.inl h
          · exact Or.inr ⟨Or.inr h1, h2⟩
        · rintro (h | ⟨h1 | h1, h2⟩)
          · exact Or.inl h
          · subst h1; exact Or.inl hn'
          · exact Or.inr ⟨h1, h2⟩
      · have hn' : hasKey a.identifier N = false := by simpa using hn
        simp only [hn', Bool.false_eq_true, if_false, List.mem_append, List.mem_singleton]
        constructor
        · rintro ((h | h) | ⟨h1, h2⟩)
          · exact Or.inl h
          · subst h; exact Or.inr ⟨Or.inl rfl, ha⟩
          · exact Or.inr ⟨Or.inr h1, h2⟩
        · rintro (h | ⟨h1 | h1, h2⟩)
          · exact Or.inl (Or.inl h)
          · exact Or.inl (Or.inr h1)
          · exact Or.inr ⟨h1, h2⟩

theorem loop_snd_nodup (E N : List (String × PropMeta)) (pms : List PropMeta) (h : (keys N).Nodup) :
    (keys (addOrUpdateLoop E N pms).2).Nodup := by
  induction pms generalizing E N with
  | nil => exact h
  | cons a t ih =>
    simp only [addOrUpdateLoop]
    apply ih
    unfold addOrUpdateOne
    split
    · exact h
    · exact nodup_insert _ _ _ h

/-! ### `dict.update` -/

theorem updateDict_lookup (d new : List (String × PropMeta)) (hnd : (keys new).Nodup) (k : String) :
    lookup k (updateDict d new) = (lookup k new).or (lookup k d) := by
  induction new generalizing d with
  | nil => simp [updateDict, lookup]
  | cons q t ih =>
    obtain ⟨a, b⟩ := q
    simp only [keys, List.map_cons, List.nodup_cons] at hnd
    simp only [updateDict]
    rw [ih _ hnd.2, lookup_insert]
    simp only [lookup]
    by_cases h : a = k
    · subst h
      have : lookup a t = none := (lookup_none_iff a t).2 hnd.1
      simp [this]
    · simp [h]

theorem keys_cons {β} (q : String × β) (t : List (String × β)) : keys (q :: t) = q.1 :: keys t := rfl

theorem updateDict_keys (d new : List (String × PropMeta)) (k : String) :
    k ∈ keys (updateDict d new) ↔ k ∈ keys d ∨ k ∈ keys new := by
  induction new generalizing d with
  | nil => simp [updateDict, keys]
  | cons q t ih =>
    simp only [updateDict]
    rw [ih, keys_insert, keys_cons, List.mem_cons]
    by_cases h : hasKey q.1 d = true
    · have := (hasKey_iff _ _).1 h
      simp only [h, if_true]
      constructor
      · rintro (h1 | h1)
        · exact Or.inl h1
        · exact Or.inr (Or.inr h1)
      · rintro (h1 | h1 | h1)
        · exact Or.inl h1
        · subst h1; exact Or.inl this
        · exact Or.inr h1
    · have h' : hasKey q.1 d = false := by simpa using h
      simp only [h', Bool.false_eq_true, if_false, List.mem_append, List.mem_singleton]
      constructor
      · rintro ((h1 | h1) | h1)
        · exact Or.inl h1
        · exact Or.inr (Or.inl h1)
        · exact Or.inr (Or.inr h1)
      · rintro (h1 | h1 | h1)
        · exact Or.inl (Or.inl h1)
        · exact Or.inl (Or.inr h1)
        · exact Or.inr h1

theorem updateDict_nodup (d new : List (String × PropMeta)) (h : (keys d).Nodup) :
    (keys (updateDict d new)).Nodup := by
  induction new generalizing d with
  | nil => exact h
  | cons q t ih => exact ih _ (nodup_insert _ _ _ h)

/-! ### `add_or_update_props_metadata` on one dict -/

theorem addOrUpdateDict_keys (E : List (String × PropMeta)) (pms : List PropMeta) (k : String) :
    k ∈ keys (addOrUpdateDict E pms) ↔ k ∈ keys E ∨ k ∈ pms.map (·.identifier) := by
  unfold addOrUpdateDict
  rw [updateDict_keys, loop_fst_keys, loop_snd_keys]
  simp only [keys, List.map_nil, List.not_mem_nil, false_or]
  constructor
  · rintro (h | ⟨h, _⟩)
    · exact Or.inl h
    · exact Or.inr h
  · rintro (h | h)
    · exact Or.inl h
    · by_cases hk : k ∈ List.map (fun x => x.fst) E
      · exact Or.inl hk
      · exact Or.inr ⟨h, hk⟩

theorem addOrUpdateDict_nodup (E : List (String × PropMeta)) (pms : List PropMeta) (h : (keys E).Nodup) :
    (keys (addOrUpdateDict E pms)).Nodup := by
  unfold addOrUpdateDict
  apply updateDict_nodup
  rw [loop_fst_keys]; exact h

/-- every written property has an entry: the caller's entry with dtype/varlength replaced when
there was one, the freshly created entry otherwise -/
theorem addOrUpdateDict_hit (E : List (String × PropMeta)) (pms : List PropMeta)
    (hnd : (pms.map (·.identifier)).Nodup) (p : PropMeta) (hp : p ∈ pms) :
    lookup p.identifier (addOrUpdateDict E pms) =
      some (match lookup p.identifier E with
        | some q => upd p q
        | none => p) := by
  unfold addOrUpdateDict
  rw [updateDict_lookup _ _ (loop_snd_nodup E [] pms (by simp [keys]))]
  obtain ⟨h1, h2⟩ := loop_hit E [] pms hnd p hp
  by_cases hk : hasKey p.identifier E = true
  · have hnone : lookup p.identifier (addOrUpdateLoop E [] pms).2 = none := by
      rw [lookup_none_iff, loop_snd_keys]
      simp only [keys, List.map_nil, List.not_mem_nil, false_or, not_and, Classical.not_not]
      intro _; exact (hasKey_iff _ _).1 hk
    rw [hnone, h1 hk]
    have := (lookup_isSome_iff p.identifier E).2 ((hasKey_iff _ _).1 hk)
    cases hl : lookup p.identifier E with
    | none => simp [hl] at this
    | some q => simp
  · have hk' : hasKey p.identifier E = false := by simpa using hk
    rw [h2 hk']
    have : lookup p.identifier E = none :=
      (lookup_none_iff _ _).2 (fun hm => hk ((hasKey_iff _ _).2 hm))
    simp [this]

/-- entries of other properties are untouched (stale entries stay — validation refuses them) -/
theorem addOrUpdateDict_frame (E : List (String × PropMeta)) (pms : List PropMeta) (k : String)
    (hk : k ∉ pms.map (·.identifier)) : lookup k (addOrUpdateDict E pms) = lookup k E := by
  unfold addOrUpdateDict
  rw [updateDict_lookup _ _ (loop_snd_nodup E [] pms (by simp [keys]))]
  obtain ⟨h1, h2⟩ := loop_frame E [] pms k hk
  rw [h1, h2]; simp [lookup]

/-! ### `create_props_metadata` and the loop of `write_props_arrays` -/
section
variable {κ : Type}

theorem mkPropMeta_spec {id : String} {dt : Dtype} {vl : Bool} {pm : PropMeta}
    (h : mkPropMeta id dt vl = .ok pm) :
    pm = { identifier := id, dtype := dt.name, varlength := vl, unit := none, name := none,
           description := none } := by
  unfold mkPropMeta at h
  split at h
  · cases h
  · split at h
    · cases h; rfl
    · cases h

/-- `create_props_metadata` leaves the property as it is, except for the float16 → float32 upcast -/
def upcast (p : PropData κ) : PropData κ :=
  match p.values with
  | .dense dt tr rows => { p with values := .dense (if dt = .f16 then .f32 else dt) tr rows }
  | .object _ => p

/-- the metadata entry `create_props_metadata` makes, read off the group that gets stored -/
def entryOf (name : String) (p : PropData κ) : PropMeta :=
  { identifier := name, dtype := (storedOf name p).dtype.name, varlength := (storedOf name p).hasData,
    unit := none, name := none, description := none }

theorem createPropsMetadata_spec {name : String} {p p' : PropData κ} {pm : PropMeta}
    (h : createPropsMetadata name p = .ok (pm, p')) : p' = upcast p ∧ pm = entryOf name p' := by
  unfold createPropsMetadata at h
  cases hv : p.values with
  | dense dt tr rows =>
    simp only [hv] at h
    generalize hdt : (if dt = Dtype.f16 then Dtype.f32 else dt) = dt' at h
    by_cases ho : dt' = Dtype.obj
    · simp [ho] at h
    · simp only [ho, if_false] at h
      cases hm : mkPropMeta name dt' false with
      | error e => simp [hm] at h
      | ok pm0 =>
        simp only [hm, ok_bind, pure_eq, Except.ok.injEq, Prod.mk.injEq] at h
        obtain ⟨rfl, rfl⟩ := h
        have := mkPropMeta_spec hm
        refine ⟨by simp [upcast, hv, hdt], ?_⟩
        rw [this]; simp [entryOf, storedOf]
  | object es =>
    simp only [hv] at h
    split at h
    · cases h
    · cases hm : mkPropMeta name ((es.head?.map (·.1)).getD Dtype.i64) true with
      | error e => simp [hm] at h
      | ok pm0 =>
        simp only [hm, ok_bind, pure_eq, Except.ok.injEq, Prod.mk.injEq] at h
        obtain ⟨rfl, rfl⟩ := h
        have := mkPropMeta_spec hm
        refine ⟨by simp [upcast, hv], ?_⟩
        rw [this]; simp [entryOf, storedOf, hv]

/-- the loop of `write_props_arrays`: the dict that is left, the stored groups and the metadata
entries are images of the same list -/
theorem writeLoop_spec {ps ps' : List (String × PropData κ)} {pms : List PropMeta} {sts : List (Stored κ)}
    (h : writeLoop ps = .ok (pms, sts, ps')) :
    ps' = ps.map (fun q => (q.1, upcast q.2)) ∧ sts = ps'.map (fun q => storedOf q.1 q.2) ∧
    pms = ps'.map (fun q => entryOf q.1 q.2) := by
  induction ps generalizing ps' pms sts with
  | nil =>
    simp only [writeLoop, Except.ok.injEq, Prod.mk.injEq] at h
    obtain ⟨rfl, rfl, rfl⟩ := h
    simp
  | cons q t ih =>
    obtain ⟨name, p⟩ := q
    simp only [writeLoop] at h
    cases hc : createPropsMetadata name p with
    | error e => simp [hc] at h
    | ok r =>
      obtain ⟨pm, p1⟩ := r
      simp only [hc, ok_bind] at h
      by_cases hs : serializable p1 = true
      · simp only [hs, Bool.not_true, Bool.false_eq_true, if_false] at h
        cases ht : writeLoop t with
        | error e => simp [ht] at h
        | ok r2 =>
          obtain ⟨pms2, sts2, ps2⟩ := r2
          simp only [ht, ok_bind, pure_eq, Except.ok.injEq, Prod.mk.injEq] at h
          obtain ⟨rfl, rfl, rfl⟩ := h
          obtain ⟨i1, i2, i3⟩ := ih ht
          obtain ⟨e1, e2⟩ := createPropsMetadata_spec hc
          subst e1 e2
          refine ⟨by simp [i1], by simp [i2], by simp [i3]⟩
      · simp [hs] at h

theorem keys_map_snd {β γ} (f : String × β → γ) (d : List (String × β)) :
    keys (d.map (fun q => (q.1, f q))) = keys d := by
  simp [keys, List.map_map, Function.comp_def]

theorem lookup_map_snd {β γ} (f : β → γ) (d : List (String × β)) (k : String) :
    lookup k (d.map (fun q => (q.1, f q.2))) = (lookup k d).map f := by
  induction d with
  | nil => rfl
  | cons q t ih =>
    obtain ⟨a, b⟩ := q
    simp only [List.map_cons, lookup]
    by_cases h : a = k <;> simp [h, ih]

theorem find_map_storedOf (ps : List (String × PropData κ)) (k : String) :
    (ps.map (fun q => storedOf q.1 q.2)).find? (fun st => st.name = k) =
      (lookup k ps).map (storedOf k) := by
  induction ps with
  | nil => rfl
  | cons q t ih =>
    obtain ⟨a, b⟩ := q
    have hn : (storedOf a b).name = a := by unfold storedOf; cases b.values <;> rfl
    simp only [List.map_cons, List.find?_cons, lookup, hn]
    by_cases h : a = k
    · subst h; simp
    · simp [h, ih]

end

section
variable {κ : Type}

theorem bind_eq_ok {α β} {x : Res α} {f : α → Res β} {b : β} (h : (x >>= f) = .ok b) :
    ∃ a, x = .ok a ∧ f a = .ok b := by
  cases x with
  | error e => simp at h
  | ok a => exact ⟨a, rfl, h⟩

/-! ### dict keys stay unique through un-squishing and the empty-axis arrays -/

theorem nodup_erase {β} (d : List (String × β)) (k : String) (h : (keys d).Nodup) : (keys (erase d k)).Nodup := by
  unfold erase keys
  exact List.Nodup.sublist (List.Sublist.map _ List.filter_sublist) h

theorem foldlM_insert_nodup {ι : Type} (c : ι → Bool) (g : ι → String) (v : ι → PropData κ) (l : List ι)
    (acc res : List (String × PropData κ))
    (h : l.foldlM (fun (acc : List (String × PropData κ)) ir =>
      if c ir then (Except.ok (insert acc (g ir) (v ir)) : Res _) else .error (.other "IndexError")) acc = .ok res)
    (hnd : (keys acc).Nodup) : (keys res).Nodup := by
  induction l generalizing acc with
  | nil => simp only [List.foldlM_nil, pure_eq, Except.ok.injEq] at h; subst h; exact hnd
  | cons a t ih =>
    simp only [List.foldlM_cons] at h
    by_cases hc : c a = true
    · simp only [hc, if_true, ok_bind] at h
      exact ih _ h (nodup_insert _ _ _ hnd)
    · simp [hc] at h

theorem unsquishOne_nodup {props props' : List (String × PropData κ)} {name : String} {rns : List String}
    (h : unsquishOne props name rns = .ok props') (hnd : (keys props).Nodup) : (keys props').Nodup := by
  unfold unsquishOne at h
  cases hl : lookup name props with
  | none => simp [hl] at h
  | some p =>
    simp only [hl] at h
    cases hv : p.values with
    | object es => simp [hv] at h
    | dense dt tr rows =>
      simp only [hv] at h
      by_cases htr : tr.length ≠ 1
      · simp [htr] at h
      · simp only [htr, if_false] at h
        obtain ⟨props1, hf, h2⟩ := bind_eq_ok h
        simp only [pure_eq, Except.ok.injEq] at h2
        subst h2
        apply nodup_erase
        exact foldlM_insert_nodup (fun ir : Nat × String => decide (ir.1 < tr.headD 0)) (·.2)
          (fun ir => ⟨.dense dt [] (rows.map (fun r => (r[ir.1]?).toList)), p.missing⟩)
          _ props props1 (by simpa using hf) hnd

theorem unsquishAll_nodup (u : List (String × List String)) (props props' : List (String × PropData κ))
    (h : u.foldlM (fun acc nr => unsquishOne acc nr.1 nr.2) props = .ok props') (hnd : (keys props).Nodup) :
    (keys props').Nodup := by
  induction u generalizing props with
  | nil => simp only [List.foldlM_nil, pure_eq, Except.ok.injEq] at h; subst h; exact hnd
  | cons a t ih =>
    simp only [List.foldlM_cons] at h
    cases h1 : unsquishOne props a.1 a.2 with
    | error e => simp [h1] at h
    | ok p1 =>
      simp only [h1, ok_bind] at h
      exact ih _ h (unsquishOne_nodup h1 hnd)

theorem addEmptyAxisProps_nodup (md : Meta κ) (n : Nat) (ps ps' : List (String × PropData κ))
    (h : addEmptyAxisProps md n (some ps) = some ps') (hnd : (keys ps).Nodup) : (keys ps').Nodup := by
  unfold addEmptyAxisProps at h
  cases ha : md.axes with
  | none => simp [ha] at h; subst h; exact hnd
  | some axes =>
    simp only [ha] at h
    by_cases hn : n = 0
    · simp only [hn, if_true, Option.some.injEq] at h
      subst h
      clear ha
      induction axes generalizing ps with
      | nil => exact hnd
      | cons a t ih =>
        simp only [List.foldl_cons]
        apply ih
        split
        · exact hnd
        · exact nodup_insert _ _ _ hnd
    · simp only [hn, if_false, Option.some.injEq] at h
      subst h; exact hnd

/-- `write_props_arrays` as a whole: the names written are unique when the dict's are -/
theorem writePropsArrays_spec {props ps' : List (String × PropData κ)} {u : Option (List (String × List String))}
    {pms : List PropMeta} {sts : List (Stored κ)}
    (h : writePropsArrays props u = .ok (pms, sts, ps')) (hnd : (keys props).Nodup) :
    (keys ps').Nodup ∧ sts = ps'.map (fun q => storedOf q.1 q.2) ∧ pms = ps'.map (fun q => entryOf q.1 q.2) := by
  unfold writePropsArrays at h
  obtain ⟨props1, hu, hw⟩ := bind_eq_ok h
  obtain ⟨e1, e2, e3⟩ := writeLoop_spec hw
  refine ⟨?_, e2, e3⟩
  rw [e1]
  have : keys (props1.map (fun q => (q.1, upcast q.2))) = keys props1 := by
    simp [keys, List.map_map, Function.comp_def]
  rw [this]
  unfold unsquishAll at hu
  cases u with
  | none => simp only [Except.ok.injEq] at hu; subst hu; exact hnd
  | some ul => exact unsquishAll_nodup ul props props1 hu hnd

theorem writePropsArrays_stored {props ps' : List (String × PropData κ)} {u : Option (List (String × List String))}
    {pms : List PropMeta} {sts : List (Stored κ)}
    (h : writePropsArrays props u = .ok (pms, sts, ps')) : sts = ps'.map (fun q => storedOf q.1 q.2) := by
  unfold writePropsArrays at h
  obtain ⟨props1, -, hw⟩ := bind_eq_ok h
  exact (writeLoop_spec hw).2.1

end

section
variable {κ : Type}

/-! ### `compute_and_add_axis_min_max` -/

/-- an axis without its data-dependent fields -/
def strip (a : Axis κ) : Axis κ := { a with min := none, max := none }

theorem mapM_mem {α β} {f : α → Res β} {l : List α} {l' : List β} (h : l.mapM f = .ok l') :
    ∀ b ∈ l', ∃ a ∈ l, f a = .ok b := by
  induction l generalizing l' with
  | nil => simp only [List.mapM_nil, pure_eq, Except.ok.injEq] at h; subst h; simp
  | cons x t ih =>
    simp only [List.mapM_cons] at h
    obtain ⟨y, hy, h2⟩ := bind_eq_ok h
    obtain ⟨ys, hys, h3⟩ := bind_eq_ok h2
    simp only [pure_eq, Except.ok.injEq] at h3
    subst h3
    intro b hb
    rcases List.mem_cons.1 hb with rfl | hb
    · exact ⟨x, by simp, hy⟩
    · obtain ⟨a, ha, hfa⟩ := ih hys b hb
      exact ⟨a, List.mem_cons_of_mem _ ha, hfa⟩

theorem mapM_map_congr {α β γ} {f : α → Res β} (g : β → γ) (g' : α → γ) {l : List α} {l' : List β}
    (h : l.mapM f = .ok l') (hg : ∀ a b, f a = .ok b → g b = g' a) : l'.map g = l.map g' := by
  induction l generalizing l' with
  | nil => simp only [List.mapM_nil, pure_eq, Except.ok.injEq] at h; subst h; simp
  | cons x t ih =>
    simp only [List.mapM_cons] at h
    obtain ⟨y, hy, h2⟩ := bind_eq_ok h
    obtain ⟨ys, hys, h3⟩ := bind_eq_ok h2
    simp only [pure_eq, Except.ok.injEq] at h3
    subst h3
    simp [hg x y hy, ih hys]

/-- what `compute_and_add_axis_min_max` does to one axis -/
theorem axisMinMax_spec [Min κ] [Max κ] {nodeProps : List (String × PropData κ)} {a a' : Axis κ}
    (h : axisMinMax nodeProps a = .ok a') :
    strip a' = strip a ∧ ∃ p, lookup a.name nodeProps = some p ∧
      (p.values.len = 0 → a' = a) ∧
      (p.values.len ≠ 0 → ∃ dt tr rows vals lo hi, p.values = .dense dt tr rows ∧
        keptValues rows p.missing = .ok vals ∧ vals.min? = some lo ∧ vals.max? = some hi ∧
        a'.min = some lo ∧ a'.max = some hi) := by
  unfold axisMinMax at h
  cases hl : lookup a.name nodeProps with
  | none => simp [hl] at h
  | some p =>
    simp only [hl] at h
    by_cases h0 : p.values.len = 0
    · simp only [h0, if_true, Except.ok.injEq] at h
      subst h
      exact ⟨rfl, p, rfl, fun _ => rfl, fun hne => absurd h0 hne⟩
    · simp only [h0, if_false] at h
      cases hv : p.values with
      | object es => simp [hv] at h
      | dense dt tr rows =>
        simp only [hv] at h
        obtain ⟨vals, hk, h2⟩ := bind_eq_ok h
        cases hlo : vals.min? with
        | none => simp [hlo] at h2
        | some lo =>
          cases hhi : vals.max? with
          | none => simp [hlo, hhi] at h2
          | some hi =>
            simp only [hlo, hhi, pure_eq, Except.ok.injEq] at h2
            subst h2
            exact ⟨rfl, p, rfl, fun h00 => absurd h00 h0,
              fun _ => ⟨dt, tr, rows, vals, lo, hi, hv, hk, hlo, hhi, rfl, rfl⟩⟩

theorem assignAxes_spec {md md' : Meta κ} {axes : Option (List (Axis κ))} (h : assignAxes md axes = .ok md') :
    md' = { md with axes := axes } := by
  unfold assignAxes at h
  split at h
  · cases h; rfl
  · cases h

/-- `compute_and_add_axis_min_max` touches nothing but the axes, and there only min/max -/
theorem computeMinMax_spec [Min κ] [Max κ] {md md' : Meta κ} {nodeProps : List (String × PropData κ)}
    (h : computeAndAddAxisMinMax md nodeProps = .ok md') :
    (md.axes = none ∧ md' = md) ∨
    ∃ axes axes', md.axes = some axes ∧ axes.mapM (axisMinMax nodeProps) = .ok axes' ∧
      md' = { md with axes := some axes' } := by
  unfold computeAndAddAxisMinMax at h
  cases ha : md.axes with
  | none => simp only [ha, Except.ok.injEq] at h; exact Or.inl ⟨rfl, h.symm⟩
  | some axes =>
    simp only [ha] at h
    obtain ⟨axes', hm, h2⟩ := bind_eq_ok h
    exact Or.inr ⟨axes, axes', rfl, hm, assignAxes_spec h2⟩

/-! ### `write_arrays`, decomposed -/

theorem writeOpt_spec {props : Option (List (String × PropData κ))} {u : Option (List (String × List String))}
    {r : Option (PropsResult κ)} (h : writeOpt props u = .ok r) :
    (props = none ∧ r = none) ∨ ∃ ps b, props = some ps ∧ writePropsArrays ps u = .ok b ∧ r = some b := by
  unfold writeOpt at h
  cases props with
  | none => simp only [Except.ok.injEq] at h; exact Or.inl ⟨rfl, h.symm⟩
  | some ps =>
    simp only at h
    cases hf : writePropsArrays ps u with
    | error e => simp [hf, Except.map] at h
    | ok b =>
      simp only [hf, Except.map, Except.ok.injEq] at h
      exact Or.inr ⟨ps, b, rfl, hf, h.symm⟩

/-- the metadata `write_arrays` stores: the caller's, with both props-metadata dicts run through
`add_or_update_props_metadata` and (when node properties were given) the axis ranges recomputed
from the dict that `write_props_arrays` left behind -/
theorem writeArrays_spec [Min κ] [Max κ] {md : Meta κ} {n : Nat} {np ep : Option (List (String × PropData κ))}
    {nu eu : Option (List (String × List String))} {w : Written κ}
    (h : writeArrays md n np ep nu eu = .ok w) :
    ∃ nodeRes edgeRes : Option (PropsResult κ),
      writeOpt (addEmptyAxisProps md n np) nu = .ok nodeRes ∧ writeOpt ep eu = .ok edgeRes ∧
      finishMeta (addOrUpdatePropsMetadata (addOrUpdatePropsMetadata md (pmsOf nodeRes) true)
        (pmsOf edgeRes) false) nodeRes = .ok w.md ∧
      w.nodes = nodeRes.map (·.2.1) ∧ w.edges = edgeRes.map (·.2.1) := by
  unfold writeArrays at h
  obtain ⟨nodeRes, h1, h⟩ := bind_eq_ok h
  obtain ⟨edgeRes, h2, h⟩ := bind_eq_ok h
  obtain ⟨md3, h3, h⟩ := bind_eq_ok h
  simp only [Except.ok.injEq] at h
  subst h
  exact ⟨nodeRes, edgeRes, h1, h2, h3, rfl, rfl⟩

end

section
variable {κ : Type} [LT κ] [DecidableLT κ]

/-! ### `create_or_update_metadata`, `update_metadata_axes`, `axes_from_lists` -/

def callerNodeProps (md : Option (Meta κ)) : List (String × PropMeta) := (md.map (·.nodeProps)).getD []
def callerEdgeProps (md : Option (Meta κ)) : List (String × PropMeta) := (md.map (·.edgeProps)).getD []
def callerRest (md : Option (Meta κ)) : String := (md.map (·.rest)).getD ""
def callerHints (md : Option (Meta κ)) : List String := (md.map (·.hintNames)).getD []

theorem createOrUpdate_spec {version : String} {md : Option (Meta κ)} {d : Bool}
    {axes : Option (List (Axis κ))} {m : Meta κ} (h : createOrUpdateMetadata version md d axes = .ok m) :
    m.geffVersion = version ∧ m.directed = d ∧ m.nodeProps = callerNodeProps md ∧
    m.edgeProps = callerEdgeProps md ∧ m.rest = callerRest md ∧ m.hintNames = callerHints md ∧
    m.axes = axes.or (md.bind (·.axes)) := by
  unfold createOrUpdateMetadata at h
  cases md with
  | some m0 =>
    simp only at h
    cases axes with
    | some a =>
      simp only at h
      rw [assignAxes_spec h]
      exact ⟨rfl, rfl, rfl, rfl, rfl, rfl, rfl⟩
    | none =>
      simp only [Except.ok.injEq] at h
      subst h
      exact ⟨rfl, rfl, rfl, rfl, rfl, rfl, rfl⟩
  | none =>
    simp only at h
    rw [assignAxes_spec h]
    cases axes <;> exact ⟨rfl, rfl, rfl, rfl, rfl, rfl, rfl⟩

theorem updateMetadataAxes_spec {m m' : Meta κ} {ls : AxisLists} (h : updateMetadataAxes m ls = .ok m') :
    ∃ axes : List (Axis κ), axesFromLists ls none none = .ok axes ∧ m' = { m with axes := some axes } := by
  unfold updateMetadataAxes at h
  obtain ⟨axes, h1, h2⟩ := bind_eq_ok h
  exact ⟨axes, h1, assignAxes_spec h2⟩

/-- the caller's entry `i` of every list, as `axes_from_lists` reads it -/
def FromLists (ls : AxisLists) (roiMin roiMax : Option (List (Option κ))) (i : Nat) (n : String) (a : Axis κ) : Prop :=
  a.name = n ∧ pick ls.types i = .ok a.type ∧ pick ls.units i = .ok a.unit ∧ pick ls.scales i = .ok a.scale ∧
  pick ls.scaledUnits i = .ok a.scaledUnit ∧ pick ls.offset i = .ok a.offset ∧
  pick roiMin i = .ok a.min ∧ pick roiMax i = .ok a.max

theorem mkAxis_spec {ls : AxisLists} {roiMin roiMax : Option (List (Option κ))} {i : Nat} {n : String}
    {a : Axis κ} (h : mkAxis ls roiMin roiMax i n = .ok a) : FromLists ls roiMin roiMax i n a := by
  unfold mkAxis at h
  obtain ⟨ty, h1, h⟩ := bind_eq_ok h
  obtain ⟨un, h2, h⟩ := bind_eq_ok h
  obtain ⟨sc, h3, h⟩ := bind_eq_ok h
  obtain ⟨su, h4, h⟩ := bind_eq_ok h
  obtain ⟨off, h5, h⟩ := bind_eq_ok h
  obtain ⟨lo, h6, h⟩ := bind_eq_ok h
  obtain ⟨hi, h7, h⟩ := bind_eq_ok h
  split at h
  · simp only [Except.ok.injEq] at h
    subst h
    exact ⟨rfl, h1, h2, h3, h4, h5, h6, h7⟩
  · cases h

theorem axesLoop_spec {ls : AxisLists} {roiMin roiMax : Option (List (Option κ))} (i0 : Nat) (l : List String)
    (axes : List (Axis κ)) (h : axesLoop ls roiMin roiMax i0 l = .ok axes) :
    axes.length = l.length ∧ ∀ j n a, l[j]? = some n → axes[j]? = some a →
      FromLists ls roiMin roiMax (i0 + j) n a := by
  induction l generalizing i0 axes with
  | nil =>
    simp only [axesLoop, Except.ok.injEq] at h
    subst h; simp
  | cons n t ih =>
    simp only [axesLoop] at h
    obtain ⟨a, h1, h⟩ := bind_eq_ok h
    obtain ⟨rest, h2, h⟩ := bind_eq_ok h
    simp only [Except.ok.injEq] at h
    subst h
    obtain ⟨il, ij⟩ := ih (i0 + 1) rest h2
    refine ⟨by simp [il], ?_⟩
    intro j n' a' hn ha
    cases j with
    | zero =>
      simp only [List.getElem?_cons_zero, Option.some.injEq] at hn ha
      subst hn; subst ha
      simpa using mkAxis_spec h1
    | succ j =>
      simp only [List.getElem?_cons_succ] at hn ha
      have := ij j n' a' hn ha
      rwa [Nat.add_assoc, Nat.add_comm 1 j] at this

/-- **`axes_from_lists`** — one axis per name, in order, each field the caller's list entry (or
`None` when the list is `None`); every given list has as many entries as there are names
(the repaired `axis_offset` check included) -/
theorem axesFromLists_spec {ls : AxisLists} {roiMin roiMax : Option (List (Option κ))} {names : List String}
    {axes : List (Axis κ)} (hn : ls.names = some names) (h : axesFromLists ls roiMin roiMax = .ok axes) :
    axes.length = names.length ∧
    (∀ j n a, names[j]? = some n → axes[j]? = some a → FromLists ls roiMin roiMax j n a) ∧
    lenOk ls.units names.length = true ∧ lenOk ls.types names.length = true ∧
    lenOk ls.scales names.length = true ∧ lenOk ls.scaledUnits names.length = true ∧
    lenOk ls.offset names.length = true := by
  unfold axesFromLists at h
  simp only [hn] at h
  by_cases h1 : lenOk ls.units names.length = true
  · by_cases h2 : lenOk ls.types names.length = true
    · by_cases h3 : lenOk ls.scales names.length = true
      · by_cases h4 : lenOk ls.scaledUnits names.length = true
        · by_cases h5 : lenOk ls.offset names.length = true
          · simp only [h1, h2, h3, h4, h5, Bool.not_true, Bool.false_eq_true, if_false] at h
            obtain ⟨a, b⟩ := axesLoop_spec 0 names axes h
            exact ⟨a, by simpa using b, h1, h2, h3, h4, h5⟩
          · simp [h1, h2, h3, h4, h5] at h
        · simp [h1, h2, h3, h4] at h
      · simp [h1, h2, h3] at h
    · simp [h1, h2] at h
  · simp [h1] at h

end

section
variable {κ : Type}

/-! ### auxiliary facts for the property theorems -/

theorem storedOf_name (name : String) (p : PropData κ) : (storedOf name p).name = name := by
  unfold storedOf; cases p.values <;> rfl

theorem lookup_mem' {β} {k : String} {d : List (String × β)} {v : β} (h : lookup k d = some v) : (k, v) ∈ d := by
  induction d with
  | nil => simp [lookup] at h
  | cons p t ih =>
    obtain ⟨k', v'⟩ := p
    simp only [lookup] at h
    by_cases hk : k' = k
    · simp only [hk, if_true, Option.some.injEq] at h
      subst h; subst hk; simp
    · simp only [hk, if_false] at h
      exact List.mem_cons_of_mem _ (ih h)

theorem addOrUpdateDict_nil (E : List (String × PropMeta)) : addOrUpdateDict E [] = E := rfl


theorem finishMeta_props [LT κ] [DecidableLT κ] [Min κ] [Max κ] {md md' : Meta κ} {r : Option (PropsResult κ)} (h : finishMeta md r = .ok md') :
    md'.nodeProps = md.nodeProps ∧ md'.edgeProps = md.edgeProps ∧ md'.rest = md.rest ∧
    md'.hintNames = md.hintNames ∧ md'.directed = md.directed ∧ md'.geffVersion = md.geffVersion ∧
    md'.axes.map (·.map strip) = md.axes.map (·.map strip) := by
  unfold finishMeta at h
  cases r with
  | none => simp only [Except.ok.injEq] at h; subst h; simp
  | some r =>
    simp only at h
    rcases computeMinMax_spec h with ⟨_, rfl⟩ | ⟨axes, axes', ha, hm, rfl⟩
    · simp
    · refine ⟨rfl, rfl, rfl, rfl, rfl, rfl, ?_⟩
      simp only [ha, Option.map_some, Option.some.injEq]
      exact mapM_map_congr strip strip hm (fun a b hab => (axisMinMax_spec hab).1)


theorem validated_ok [LT κ] [DecidableLT κ] [Min κ] [Max κ] {md : Meta κ} {n e : Nat} {np ep : Option (List (String × PropData κ))}
    {nu eu : Option (List (String × List String))} {w : Written κ}
    (h : writeArraysValidated md n e np ep nu eu = .ok w) : writeArrays md n np ep nu eu = .ok w := by
  unfold writeArraysValidated at h
  obtain ⟨w', hw, h2⟩ := bind_eq_ok h
  split at h2
  · simp only [pure_eq, Except.ok.injEq] at h2; subst h2; exact hw
  · cases h2

end

end Geff.MetaW
