import GeffProofs.LinkStorePReadFull
import GeffProofs.VlenNorm
import GeffProps.C17
/-! Integration layer, link C17 ← C09 / C01: C09's in-memory geff as the input of C17's model of
`geff_to_dataframes` (`dfOf`, cell values `Tok`), and the proof that what C01's reader returns for a
written graph meets C17's hypothesis `WF` (`df_wf_of_written`). -/
namespace Geff.Link
open Geff.Np Geff.Store
open Geff.WR (PropArr PVals Props ReadResult lookupKey Writable RowsOK upcast)

/-! ### C09's in-memory geff as the input of C17's table export

C17's model is parametric in the type of a cell value (it only moves values).  Here a cell is a scalar of a
regular property / an id, or — for a variable-length property, whose `values` is a 1-D object array — the
array of one element. -/

inductive Tok where
  | sc (v : Val)
  | arr (a : NdArr)
deriving DecidableEq, Repr

/-- one loaded property as `geff_to_dataframes` sees it: name, trailing shape, `values[r].ravel()` per
element, the mask; an object array has no trailing axis and one cell per element -/
def propDf (kp : String × Geff.PRead.MemProp) : Geff.Dataframe.PropArr Tok :=
  match kp.2.values with
  | .dense _ tr rows => ⟨kp.1, tr, rows.map (·.map Tok.sc), kp.2.missing⟩
  | .object es => ⟨kp.1, [], es.map (fun a => [Tok.arr a]), kp.2.missing⟩

def idTok (i : Int) : Tok := .sc (.i i)

/-- the in-memory geff handed to `geff_to_dataframes` -/
def dfOf (m : Geff.PRead.InMem) : Geff.Dataframe.InMemGeff Tok :=
  ⟨m.nodeIds.map idTok, m.edgeIds.map (fun e => (idTok e.1, idTok e.2)), m.nodeProps.map propDf, m.edgeProps.map propDf⟩

theorem prodNat_eq_prod (tr : List Nat) : Geff.Dataframe.prodNat tr = prod tr := by
  induction tr with
  | nil => rfl
  | cons d ds ih => rw [Geff.Vlen.prod_cons, Geff.Dataframe.prodNat, ih]

theorem chunks_row_len (k : Nat) : ∀ (n : Nat) (fl : List Val), fl.length = n * k → ∀ r ∈ chunks k n fl, r.length = k := by
  intro n
  induction n with
  | zero => intro fl _ r hr; cases hr
  | succ n ih =>
    intro fl hl r hr
    simp only [chunks, List.mem_cons] at hr
    rcases hr with rfl | hr
    · rw [List.length_take, hl, Nat.succ_mul]; omega
    · exact ih (fl.drop k) (by rw [List.length_drop, hl, Nat.succ_mul]; omega) r hr

theorem rowsOK_upcast (n : Nat) (p : PropArr) (h : RowsOK n p) : RowsOK n (upcast p) := by
  refine ⟨by rw [Geff.WR.upcast_missing]; exact h.1, ?_⟩
  cases hv : p.values with
  | obj es => rw [Geff.WR.upcast_obj p es hv, hv]; have := h.2; rw [hv] at this; exact this
  | dense a =>
    have h2 := h.2
    rw [hv] at h2
    simp only at h2
    rw [Geff.WR.upcast_dense p a hv]
    by_cases hf : a.dtype = Dtype.f16
    · rw [if_pos hf]
      show (Geff.WR.f16to32 a).shape.head? = some n ∧ (Geff.WR.f16to32 a).WF
      exact ⟨h2.1, by simpa [NdArr.WF, Geff.WR.f16to32] using h2.2⟩
    · rw [if_neg hf, hv]; exact h2

/-- a property read back from a written one is well formed for the table export -/
theorem propDf_wf (n : Nat) (k : String) (p : PropArr) (hr : RowsOK n p) (mp : Geff.PRead.MemProp)
    (h : memPropOf (upcast p) = some mp) : (propDf (k, mp)).WF n := by
  have hr' := rowsOK_upcast n p hr
  obtain ⟨ms, hms, hmslen⟩ := maskBack_rowsOK n p hr
  unfold memPropOf at h
  rw [hms] at h
  simp only at h
  cases hv : (upcast p).values with
  | dense a =>
    have h2 := hr'.2
    rw [hv] at h h2
    simp only at h h2
    obtain ⟨hhead, hwf⟩ := h2
    obtain ⟨tr, hshape⟩ : ∃ tr, a.shape = n :: tr := by
      cases hs : a.shape with
      | nil => rw [hs] at hhead; cases hhead
      | cons x t => rw [hs] at hhead; simp only [List.head?_cons, Option.some.injEq] at hhead; exact ⟨t, by rw [hhead]⟩
    have hA : arrOfNd a = some ⟨tr, chunks (prod tr) n a.flat⟩ := by unfold arrOfNd; rw [hshape]
    rw [hA] at h
    simp only [Option.map_some, Option.some.injEq] at h
    subst h
    have hfl : a.flat.length = n * prod tr := by rw [hwf, hshape, Geff.Vlen.prod_cons]
    refine ⟨by simp [propDf, length_chunks], ?_, by simpa [propDf] using hmslen⟩
    intro r hr
    simp only [propDf, List.mem_map] at hr
    obtain ⟨row, hrow, rfl⟩ := hr
    rw [List.length_map, chunks_row_len (prod tr) n a.flat hfl row hrow]
    exact (prodNat_eq_prod tr).symm
  | obj es =>
    have h2 := hr'.2
    rw [hv] at h h2
    simp only [Option.some.injEq] at h h2
    subst h
    refine ⟨by simp [propDf, h2], ?_, by simpa [propDf] using hmslen⟩
    intro r hr
    simp only [propDf, List.mem_map] at hr
    obtain ⟨a, _, rfl⟩ := hr
    rfl

theorem optMapSnd_mem {β γ : Type} (f : β → Option γ) : ∀ (l : List (String × β)) (l' : List (String × γ)),
    optMapSnd f l = some l' → ∀ kw ∈ l', ∃ v, (kw.1, v) ∈ l ∧ f v = some kw.2 := by
  intro l
  induction l with
  | nil => intro l' h kw hkw; simp only [optMapSnd, Option.some.injEq] at h; subst h; cases hkw
  | cons a t ih =>
    intro l' h kw hkw
    obtain ⟨k, v⟩ := a
    simp only [optMapSnd] at h
    cases hf : f v with
    | none => simp [hf] at h
    | some w =>
      cases ht : optMapSnd f t with
      | none => simp [hf, ht] at h
      | some r =>
        simp only [hf, ht, Option.some.injEq] at h
        subst h
        rcases List.mem_cons.1 hkw with rfl | hkw
        · exact ⟨v, List.mem_cons_self .., hf⟩
        · obtain ⟨v', hv', hfv'⟩ := ih r ht kw hkw
          exact ⟨v', List.mem_cons_of_mem _ hv', hfv'⟩

/-- **what C01's `read_to_memory` returns for a written graph meets C17's hypothesis `WF`** ("every
property array has the leading length of its axis, every row `prod trail` entries, a mask one flag per
element") -/
theorem df_wf_of_written (n e : Nat) (Wn We : Props) (r : ReadResult) (full : Geff.PRead.InMem)
    (hfull : memOf r = some full)
    (hpn : r.nodeProps.Perm (Wn.map (fun kp => (kp.1, upcast kp.2))))
    (hpe : r.edgeProps.Perm (We.map (fun kp => (kp.1, upcast kp.2))))
    (hrn : ∀ kp ∈ Wn, RowsOK n kp.2) (hre : ∀ kp ∈ We, RowsOK e kp.2)
    (hidn : full.nodeIds.length = n) (hesn : full.edgeIds.length = e) : GeffProps.C17.WF (dfOf full) := by
  unfold memOf at hfull
  cases hi : intsOf r.nodeIds.flat with
  | none => simp [hi] at hfull
  | some ids' =>
    cases he : (intsOf r.edgeIds.flat).bind pairsOf with
    | none => simp [hi, he] at hfull
    | some es' =>
      cases hPn : optMapSnd memPropOf r.nodeProps with
      | none => simp [hi, he, hPn] at hfull
      | some Pn =>
        cases hPe : optMapSnd memPropOf r.edgeProps with
        | none => simp [hi, he, hPn, hPe] at hfull
        | some Pe =>
          cases hMn : optMapSnd pmOf r.md.nodeProps with
          | none => simp [hi, he, hPn, hPe, hMn] at hfull
          | some Mn =>
            cases hMe : optMapSnd pmOf r.md.edgeProps with
            | none => simp [hi, he, hPn, hPe, hMn, hMe] at hfull
            | some Me =>
              simp only [hi, he, hPn, hPe, hMn, hMe, Option.some.injEq] at hfull
              subst hfull
              simp only at hidn hesn
              have key : ∀ (m : Nat) (W : Props) (R : Props) (P : List (String × Geff.PRead.MemProp)),
                  R.Perm (W.map (fun kp => (kp.1, upcast kp.2))) → (∀ kp ∈ W, RowsOK m kp.2) →
                  optMapSnd memPropOf R = some P → ∀ q ∈ P.map propDf, q.WF m := by
                intro m W R P hperm hrows hP q hq
                obtain ⟨kw, hkw, rfl⟩ := List.mem_map.1 hq
                obtain ⟨v, hv, hfv⟩ := optMapSnd_mem memPropOf R P hP kw hkw
                obtain ⟨kp, hkp, hkpe⟩ := List.mem_map.1 (hperm.mem_iff.1 hv)
                simp only [Prod.mk.injEq] at hkpe
                obtain ⟨_, rfl⟩ := hkpe
                exact propDf_wf m kw.1 kp.2 (hrows kp hkp) kw.2 hfv
              constructor
              · intro q hq
                simp only [dfOf, List.length_map] at hq ⊢
                rw [hidn]
                exact key n Wn r.nodeProps Pn hpn hrn hPn q hq
              · intro q hq
                simp only [dfOf, List.length_map] at hq ⊢
                rw [hesn]
                exact key e We r.edgeProps Pe hpe hre hPe q hq

end Geff.Link
