import GeffProofs.Tracklet
import GeffProofs.LineageRename
import Mathlib.Data.List.Nodup
/-! The tracklet definition, acyclicity and the validator model's verdict are invariant under
injective renamings `f` of the node ids and `g` of the tracklet ids (C13, "labellings up to
renaming"; justifies that the int64 wrap of uint64 ids cannot change the verdict). -/
namespace Geff.Tracklet
open Geff.Graph Geff.Lineage Relation
variable {α L β M : Type} [DecidableEq α] [DecidableEq L] [DecidableEq β] [DecidableEq M]

/-- the labelled node list under a renaming `f` of the node ids and `g` of the tracklet ids -/
def renameNl (f : α → β) (g : L → M) (nl : List (α × L)) : List (β × M) := nl.map (Prod.map f g)

theorem mem_renameNl (f : α → β) (g : L → M) (nl : List (α × L)) (x : β) (m : M) :
    (x, m) ∈ renameNl f g nl ↔ ∃ u l, (u, l) ∈ nl ∧ x = f u ∧ m = g l := by
  unfold renameNl
  constructor
  · intro h
    obtain ⟨⟨u, l⟩, hm, he⟩ := List.mem_map.1 h
    simp only [Prod.map, Prod.mk.injEq] at he
    exact ⟨u, l, hm, he.1.symm, he.2.symm⟩
  · rintro ⟨u, l, hm, rfl, rfl⟩
    exact List.mem_map.2 ⟨(u, l), hm, rfl⟩

theorem mem_renameNl_image (f : α → β) (g : L → M) (hf : Function.Injective f)
    (hg : Function.Injective g) (nl : List (α × L)) (a : α) (t : L) :
    (f a, g t) ∈ renameNl f g nl ↔ (a, t) ∈ nl := by
  rw [mem_renameNl]
  constructor
  · rintro ⟨u, l, hm, h1, h2⟩
    rw [hf h1, hg h2]; exact hm
  · intro h; exact ⟨a, t, h, rfl, rfl⟩

/-! ## edges -/
theorem E_map (f : α → β) (es : List (α × α)) {a b : α} (h : E es a b) :
    E (mapEdges f es) (f a) (f b) := List.mem_map.2 ⟨(a, b), h, rfl⟩

theorem E_of_map (f : α → β) (es : List (α × α)) {x y : β} (h : E (mapEdges f es) x y) :
    ∃ a b, x = f a ∧ y = f b ∧ E es a b := by
  obtain ⟨⟨p, q⟩, hm, he⟩ := List.mem_map.1 h
  simp only [Prod.map, Prod.mk.injEq] at he
  exact ⟨p, q, he.1.symm, he.2.symm, hm⟩

theorem E_map_iff (f : α → β) (hf : Function.Injective f) (es : List (α × α)) (a b : α) :
    E (mapEdges f es) (f a) (f b) ↔ E es a b := by
  constructor
  · intro h
    obtain ⟨p, q, h1, h2, hm⟩ := E_of_map f es h
    rw [hf h1, hf h2]; exact hm
  · exact E_map f es

theorem T_map_iff (f : α → β) (hf : Function.Injective f) (es : List (α × α)) (a b : α) :
    T (mapEdges f es) (f a) (f b) ↔ T es a b := by
  constructor
  · rintro ⟨h1, h2, h3⟩
    refine ⟨(E_map_iff f hf es a b).1 h1, fun w hw => hf (h2 (f w) (E_map f es hw)),
      fun w hw => hf (h3 (f w) (E_map f es hw))⟩
  · rintro ⟨h1, h2, h3⟩
    refine ⟨E_map f es h1, ?_, ?_⟩
    · intro y hy
      obtain ⟨p, q, hp, rfl, hm⟩ := E_of_map f es hy
      have : p = a := (hf hp).symm
      subst this; rw [h2 q hm]
    · intro y hy
      obtain ⟨p, q, rfl, hq, hm⟩ := E_of_map f es hy
      have : q = b := (hf hq).symm
      subst this; rw [h3 p hm]

theorem T_of_map (f : α → β) (hf : Function.Injective f) (es : List (α × α)) {x y : β}
    (h : T (mapEdges f es) x y) : ∃ a b, x = f a ∧ y = f b ∧ T es a b := by
  obtain ⟨a, b, rfl, rfl, _⟩ := E_of_map f es h.1
  exact ⟨a, b, rfl, rfl, (T_map_iff f hf es a b).1 h⟩

/-! ## paths through tracklet edges -/
theorem rtg_symT_map (f : α → β) (hf : Function.Injective f) (es : List (α × α)) {u v : α}
    (h : ReflTransGen (symT es) u v) : ReflTransGen (symT (mapEdges f es)) (f u) (f v) := by
  induction h with
  | refl => exact ReflTransGen.refl
  | tail _ hbc ih =>
    refine ih.tail ?_
    rcases hbc with h | h
    · exact Or.inl ((T_map_iff f hf es _ _).2 h)
    · exact Or.inr ((T_map_iff f hf es _ _).2 h)

theorem rtg_symT_of_map (f : α → β) (hf : Function.Injective f) (es : List (α × α)) {u : α} {y : β}
    (h : ReflTransGen (symT (mapEdges f es)) (f u) y) :
    ∃ v, y = f v ∧ ReflTransGen (symT es) u v := by
  induction h with
  | refl => exact ⟨u, rfl, ReflTransGen.refl⟩
  | tail _ hbc ih =>
    obtain ⟨b', rfl, hb'⟩ := ih
    rcases hbc with h | h
    · obtain ⟨a, b, ha, rfl, hT⟩ := T_of_map f hf es h
      have : a = b' := (hf ha).symm
      subst this
      exact ⟨b, rfl, hb'.tail (Or.inl hT)⟩
    · obtain ⟨a, b, rfl, hb, hT⟩ := T_of_map f hf es h
      have : b = b' := (hf hb).symm
      subst this
      exact ⟨a, rfl, hb'.tail (Or.inr hT)⟩

/-! ## the definition -/
theorem spec_renaming (f : α → β) (g : L → M) (hf : Function.Injective f)
    (hg : Function.Injective g) (nl : List (α × L)) (es : List (α × α)) :
    TrackletSpec (renameNl f g nl) (mapEdges f es) ↔ TrackletSpec nl es := by
  constructor
  · rintro ⟨h1, h2⟩
    refine ⟨?_, ?_⟩
    · intro u v l l' hu hv huv
      have := h1 (f u) (f v) (g l) (g l') ((mem_renameNl_image f g hf hg nl u l).2 hu)
        ((mem_renameNl_image f g hf hg nl v l').2 hv) (E_map f es huv)
      rw [T_map_iff f hf es u v] at this
      exact ⟨fun h => this.1 (by rw [h]), fun h => hg (this.2 h)⟩
    · intro a b l ha hb
      have := h2 (f a) (f b) (g l) ((mem_renameNl_image f g hf hg nl a l).2 ha)
        ((mem_renameNl_image f g hf hg nl b l).2 hb)
      obtain ⟨v, hv, hp⟩ := rtg_symT_of_map f hf es this
      rw [hf hv]; exact hp
  · rintro ⟨h1, h2⟩
    refine ⟨?_, ?_⟩
    · intro x y m m' hx hy hxy
      obtain ⟨u, l, hu, rfl, rfl⟩ := (mem_renameNl f g nl x m).1 hx
      obtain ⟨v, l', hv, rfl, rfl⟩ := (mem_renameNl f g nl y m').1 hy
      rw [T_map_iff f hf es u v]
      have := h1 u v l l' hu hv ((E_map_iff f hf es u v).1 hxy)
      exact ⟨fun h => this.1 (hg h), fun h => by rw [this.2 h]⟩
    · intro x y m hx hy
      obtain ⟨u, l, hu, rfl, rfl⟩ := (mem_renameNl f g nl x m).1 hx
      obtain ⟨v, l', hv, rfl, hl⟩ := (mem_renameNl f g nl y (g l)).1 hy
      have : l = l' := hg hl
      subst this
      exact rtg_symT_map f hf es (h2 u v l hu hv)

theorem specMasked_renaming (f : α → β) (g : L → M) (hf : Function.Injective f)
    (hg : Function.Injective g) (nl : List (α × L)) (es : List (α × α)) :
    TrackletSpecMasked (renameNl f g nl) (mapEdges f es) ↔ TrackletSpecMasked nl es := by
  have hlab : ∀ a, (∃ m, (f a, m) ∈ renameNl f g nl) ↔ ∃ l, (a, l) ∈ nl := by
    intro a
    constructor
    · rintro ⟨m, hm⟩
      obtain ⟨u, l, hu, h1, _⟩ := (mem_renameNl f g nl (f a) m).1 hm
      rw [hf h1]; exact ⟨l, hu⟩
    · rintro ⟨l, hl⟩; exact ⟨g l, (mem_renameNl f g nl _ _).2 ⟨a, l, hl, rfl, rfl⟩⟩
  constructor
  · rintro ⟨hs, hc⟩
    refine ⟨(spec_renaming f g hf hg nl es).1 hs, ?_⟩
    intro a b hT
    have := hc (f a) (f b) ((T_map_iff f hf es a b).2 hT)
    rw [hlab a, hlab b] at this; exact this
  · rintro ⟨hs, hc⟩
    refine ⟨(spec_renaming f g hf hg nl es).2 hs, ?_⟩
    intro x y hT
    obtain ⟨a, b, rfl, rfl, hT'⟩ := T_of_map f hf es hT
    rw [hlab a, hlab b]; exact hc a b hT'

/-! ## acyclicity -/
theorem ranked_renaming (f : α → β) (hf : Function.Injective f) (es : List (α × α)) :
    Ranked (mapEdges f es) ↔ Ranked es := by
  constructor
  · rintro ⟨rank, hr⟩
    refine ⟨fun a => rank (f a), ?_⟩
    intro e he
    exact hr (f e.1, f e.2) (List.mem_map.2 ⟨e, he, rfl⟩)
  · rintro ⟨rank, hr⟩
    classical
    refine ⟨fun y => if h : ∃ a, f a = y then rank h.choose else 0, ?_⟩
    intro e he
    obtain ⟨⟨a, b⟩, hm, rfl⟩ := List.mem_map.1 he
    have ha : ∃ a', f a' = f a := ⟨a, rfl⟩
    have hb : ∃ b', f b' = f b := ⟨b, rfl⟩
    simp only [Prod.map, dif_pos ha, dif_pos hb]
    rw [hf ha.choose_spec, hf hb.choose_spec]
    exact hr (a, b) hm

theorem nodup_renameNl (f : α → β) (g : L → M) (hf : Function.Injective f) (nl : List (α × L))
    (h : (nl.map (·.1)).Nodup) : ((renameNl f g nl).map (·.1)).Nodup := by
  have : (renameNl f g nl).map (·.1) = (nl.map (·.1)).map f := by
    unfold renameNl; simp [List.map_map, Function.comp_def]
  rw [this]; exact List.Nodup.map hf h

/-! ## one tracklet -/
theorem ES_map_iff (f : α → β) (g : L → M) (hf : Function.Injective f) (hg : Function.Injective g)
    (nl : List (α × L)) (es : List (α × α)) (t : L) (a b : α) :
    ES (renameNl f g nl) (mapEdges f es) (g t) (f a) (f b) ↔ ES nl es t a b := by
  unfold ES
  rw [E_map_iff f hf es a b, mem_renameNl_image f g hf hg nl a t, mem_renameNl_image f g hf hg nl b t]

theorem ES_of_map (f : α → β) (g : L → M) (hf : Function.Injective f) (hg : Function.Injective g)
    (nl : List (α × L)) (es : List (α × α)) (t : L) {x y : β}
    (h : ES (renameNl f g nl) (mapEdges f es) (g t) x y) :
    ∃ a b, x = f a ∧ y = f b ∧ ES nl es t a b := by
  obtain ⟨a, b, rfl, rfl, _⟩ := E_of_map f es h.1
  exact ⟨a, b, rfl, rfl, (ES_map_iff f g hf hg nl es t a b).1 h⟩

theorem rtg_AdjS_map (f : α → β) (g : L → M) (hf : Function.Injective f) (hg : Function.Injective g)
    (nl : List (α × L)) (es : List (α × α)) (t : L) {u v : α}
    (h : ReflTransGen (AdjS nl es t) u v) :
    ReflTransGen (AdjS (renameNl f g nl) (mapEdges f es) (g t)) (f u) (f v) := by
  induction h with
  | refl => exact ReflTransGen.refl
  | tail _ hbc ih =>
    refine ih.tail ?_
    rcases hbc with h | h
    · exact Or.inl ((ES_map_iff f g hf hg nl es t _ _).2 h)
    · exact Or.inr ((ES_map_iff f g hf hg nl es t _ _).2 h)

theorem rtg_AdjS_of_map (f : α → β) (g : L → M) (hf : Function.Injective f)
    (hg : Function.Injective g) (nl : List (α × L)) (es : List (α × α)) (t : L) {u : α} {y : β}
    (h : ReflTransGen (AdjS (renameNl f g nl) (mapEdges f es) (g t)) (f u) y) :
    ∃ v, y = f v ∧ ReflTransGen (AdjS nl es t) u v := by
  induction h with
  | refl => exact ⟨u, rfl, ReflTransGen.refl⟩
  | tail _ hbc ih =>
    obtain ⟨b', rfl, hb'⟩ := ih
    rcases hbc with h | h
    · obtain ⟨a, b, ha, rfl, hES⟩ := ES_of_map f g hf hg nl es t h
      have : a = b' := (hf ha).symm
      subst this
      exact ⟨b, rfl, hb'.tail (Or.inl hES)⟩
    · obtain ⟨a, b, rfl, hb, hES⟩ := ES_of_map f g hf hg nl es t h
      have : b = b' := (hf hb).symm
      subst this
      exact ⟨a, rfl, hb'.tail (Or.inr hES)⟩

/-- the class of `g t` after renaming is a maximal unbranched path iff the class of `t` was -/
theorem good_renaming (f : α → β) (g : L → M) (hf : Function.Injective f)
    (hg : Function.Injective g) (nl : List (α × L)) (es : List (α × α)) (t : L) :
    GoodTracklet (renameNl f g nl) (mapEdges f es) (g t) ↔ GoodTracklet nl es t := by
  constructor
  · rintro ⟨h1, h2, h3⟩
    refine ⟨?_, ?_, ?_⟩
    · intro a b hab
      exact (T_map_iff f hf es a b).1 (h1 (f a) (f b) ((ES_map_iff f g hf hg nl es t a b).2 hab))
    · intro a b ha hb
      obtain ⟨v, hv, hp⟩ := rtg_AdjS_of_map f g hf hg nl es t
        (h2 (f a) (f b) ((mem_renameNl_image f g hf hg nl a t).2 ha)
          ((mem_renameNl_image f g hf hg nl b t).2 hb))
      rw [hf hv]; exact hp
    · intro a b hT
      have := h3 (f a) (f b) ((T_map_iff f hf es a b).2 hT)
      rw [mem_renameNl_image f g hf hg nl a t, mem_renameNl_image f g hf hg nl b t] at this
      exact this
  · rintro ⟨h1, h2, h3⟩
    refine ⟨?_, ?_, ?_⟩
    · intro x y hxy
      obtain ⟨a, b, rfl, rfl, hES⟩ := ES_of_map f g hf hg nl es t hxy
      exact (T_map_iff f hf es a b).2 (h1 a b hES)
    · intro x y hx hy
      obtain ⟨u, l, hu, rfl, hl⟩ := (mem_renameNl f g nl x (g t)).1 hx
      obtain ⟨v, l', hv, rfl, hl'⟩ := (mem_renameNl f g nl y (g t)).1 hy
      have e1 : t = l := hg hl
      have e2 : t = l' := hg hl'
      subst e1; subst e2
      exact rtg_AdjS_map f g hf hg nl es t (h2 u v hu hv)
    · intro x y hT
      obtain ⟨a, b, rfl, rfl, hT'⟩ := T_of_map f hf es hT
      rw [mem_renameNl_image f g hf hg nl a t, mem_renameNl_image f g hf hg nl b t]
      exact h3 a b hT'

/-! ## the list of reported tracklet ids -/
theorem dedup_map_injective (g : L → M) (hg : Function.Injective g) (l : List L) :
    dedup (l.map g) = (dedup l).map g := by
  induction l with
  | nil => rfl
  | cons x xs ih =>
    simp only [List.map_cons, dedup, ih, List.filter_map, List.cons.injEq, true_and]
    congr 1
    apply List.filter_congr
    intro y _
    have : (g y = g x) ↔ (y = x) := ⟨fun h => hg h, fun h => by rw [h]⟩
    simp [Function.comp, this]

/-- the ids named in the error messages, in reporting order -/
theorem errorIds_eq_filter (nl : List (α × L)) (es : List (α × α)) :
    (trackletErrors nl es).map (·.1) =
      (dedup (nl.map (·.2))).filter (fun t => decide (checkTracklet nl es t ≠ .ok)) := by
  unfold trackletErrors
  generalize dedup (nl.map (·.2)) = l
  induction l with
  | nil => rfl
  | cons t ts ih =>
    simp only [List.filterMap_cons, List.filter_cons]
    cases h : checkTracklet nl es t <;> simp [ih]

end Geff.Tracklet
