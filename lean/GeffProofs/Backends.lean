import GeffProofs.Dicts
/-! Lemmas about the backend models (`GeffModel/Backends.lean`) used by the C03 theorems. -/
namespace Geff.Backends
open Geff.Np Geff.Dicts

/-! ### entries of a column, per-element dicts -/

theorem colEntries_wf (c : Col) (n : Nat) (h : c.WF n) :
    colEntries c n = .ok ((List.range n).map c.entry) := by
  unfold colEntries
  apply mapE_ok_map
  intro i hi
  have hi' : i < n := List.mem_range.1 hi
  have hr : i < c.rows.length := by rw [h.1]; exact hi'
  simp only [Col.entry, List.getElem?_eq_getElem hr]
  cases hm : c.missing with
  | none => rfl
  | some ms =>
    have hl : i < ms.length := by rw [h.2 ms hm]; exact hi'
    simp only [List.getElem?_eq_getElem hl]
    cases ms[i] <;> simp

theorem length_setColumn (name : String) (ds : List Attrs) (es : List (Option PyVal)) :
    (setColumn name ds es).length = ds.length := by
  induction ds generalizing es with
  | nil => cases es with
    | nil => rfl
    | cons e t => cases e <;> rfl
  | cons d t ih =>
    cases es with
    | nil => rfl
    | cons e t' => cases e <;> simp [setColumn, ih]

/-- attribute `name` of the `k`-th dict -/
def look (ds : List Attrs) (k : Nat) (name : String) : Option PyVal :=
  match ds[k]? with
  | none => none
  | some d => d.lookup name

theorem look_setColumn (name : String) (ds : List Attrs) (es : List (Option PyVal)) (k : Nat)
    (name' : String) (hk : k < ds.length) (hlen : es.length = ds.length) :
    look (setColumn name ds es) k name' =
      if name' = name then (match es[k]? with
        | some (some v) => some v
        | _ => look ds k name') else look ds k name' := by
  induction ds generalizing es k with
  | nil => simp at hk
  | cons d t ih =>
    cases es with
    | nil => simp at hlen
    | cons e t' =>
      have hlen' : t'.length = t.length := by simpa using hlen
      cases k with
      | zero =>
        cases e with
        | none => simp [setColumn, look]
        | some v => simp [setColumn, look, lookup_set]
      | succ k =>
        have hk' : k < t.length := by simpa using hk
        have := ih t' k hk' hlen'
        cases e <;> simpa [setColumn, look] using this

theorem fillDicts_aux (n : Nat) (props : List (String × Col)) (ds0 : List Attrs) (hlen : ds0.length = n)
    (hnd : (props.map (·.1)).Nodup) (hwf : ∀ p ∈ props, p.2.WF n) :
    ∃ ds, props.foldlM (fillStep n) ds0 = .ok ds ∧ ds.length = n ∧
      ∀ k, k < n → ∀ name, look ds k name =
        match props.lookup name with
        | some c => (match c.entry k with
          | some v => some v
          | none => look ds0 k name)
        | none => look ds0 k name := by
  induction props generalizing ds0 with
  | nil => exact ⟨ds0, rfl, hlen, fun k _ name => rfl⟩
  | cons p ps ih =>
    obtain ⟨pn, pc⟩ := p
    have hwfp : pc.WF n := hwf (pn, pc) (by simp)
    have hnd' : (ps.map (·.1)).Nodup := (List.nodup_cons.1 (by simpa using hnd)).2
    have hnotin : pn ∉ ps.map (·.1) := (List.nodup_cons.1 (by simpa using hnd)).1
    have hlen1 : (setColumn pn ds0 ((List.range n).map pc.entry)).length = n := by
      rw [length_setColumn, hlen]
    obtain ⟨ds, hds, hl, hlook⟩ := ih (setColumn pn ds0 ((List.range n).map pc.entry)) hlen1 hnd'
      (fun q hq => hwf q (by simp [hq]))
    refine ⟨ds, ?_, hl, ?_⟩
    · simp only [List.foldlM_cons, fillStep, colEntries_wf pc n hwfp, bind, Except.bind]
      exact hds
    · intro k hk name
      rw [hlook k hk name]
      have hes : ((List.range n).map pc.entry)[k]? = some (pc.entry k) := by
        simp [hk]
      have h1 := look_setColumn pn ds0 ((List.range n).map pc.entry) k name (by rw [hlen]; exact hk)
        (by simp [hlen])
      rw [hes] at h1
      by_cases hname : name = pn
      · subst hname
        have hps : ps.lookup name = none := by
          rw [List.lookup_eq_none_iff]
          intro q hq
          simp only [bne_iff_ne, ne_eq]
          intro heq
          exact hnotin (List.mem_map.2 ⟨q, hq, heq.symm⟩)
        rw [hps, lookup_cons_ite]
        simp only [if_true] at h1 ⊢
        rw [h1]
        cases pc.entry k <;> rfl
      · rw [lookup_cons_ite]
        simp only [hname, if_false] at h1 ⊢
        rw [h1]


/-! ### addressing by key = addressing by position -/

variable {κ : Type}

theorem setAt_keys (same : κ → κ → Bool) (l : List (κ × Attrs)) (k : κ) (n : String) (v : PyVal) :
    (setAt same l k n v).map (·.1) = l.map (·.1) := by
  induction l with
  | nil => rfl
  | cons p t ih =>
    obtain ⟨k', a⟩ := p
    simp only [setAt]
    split <;> simp [ih]

theorem setAt_append (same : κ → κ → Bool) (pre l : List (κ × Attrs)) (k : κ) (n : String) (v : PyVal)
    (h : ∀ a ∈ pre, same a.1 k = false) :
    setAt same (pre ++ l) k n v = pre ++ setAt same l k n v := by
  induction pre with
  | nil => rfl
  | cons p t ih =>
    obtain ⟨k', a⟩ := p
    have h1 : same k' k = false := h (k', a) (by simp)
    simp only [List.cons_append, setAt, h1, Bool.false_eq_true, if_false]
    rw [ih (fun b hb => h b (by simp [hb]))]

/-- the loop `for key, entry in zip(keys, entries): if entry present: l[key][name] = entry` -/
def setMany (same : κ → κ → Bool) (name : String) (l : List (κ × Attrs)) (kes : List (κ × Option PyVal)) :
    List (κ × Attrs) :=
  kes.foldl (fun l ke => match ke.2 with
    | none => l
    | some v => setAt same l ke.1 name v) l

theorem setMany_keys (same : κ → κ → Bool) (name : String) (l : List (κ × Attrs)) (kes : List (κ × Option PyVal)) :
    (setMany same name l kes).map (·.1) = l.map (·.1) := by
  induction kes generalizing l with
  | nil => rfl
  | cons ke t ih =>
    simp only [setMany, List.foldl_cons]
    cases h : ke.2 with
    | none => simpa [setMany] using ih l
    | some v =>
      have := ih (setAt same l ke.1 name v)
      simp only [setMany] at this
      rw [this, setAt_keys]

/-- with keys that are pairwise not `same` (an earlier one never matches a later one), addressing
by key is addressing by position -/
theorem setMany_zip (same : κ → κ → Bool) (hrefl : ∀ a, same a a = true) (name : String)
    (keys : List κ) (ds : List Attrs) (es : List (Option PyVal)) (pre : List (κ × Attrs))
    (hpw : keys.Pairwise (fun a b => same a b = false))
    (hpre : ∀ a ∈ pre, ∀ b ∈ keys, same a.1 b = false)
    (hd : ds.length = keys.length) (he : es.length = keys.length) :
    setMany same name (pre ++ keys.zip ds) (keys.zip es) = pre ++ keys.zip (setColumn name ds es) := by
  induction keys generalizing ds es pre with
  | nil => simp [setMany]
  | cons k ks ih =>
    cases ds with
    | nil => simp at hd
    | cons d dt =>
      cases es with
      | nil => simp at he
      | cons e et =>
        have hd' : dt.length = ks.length := by simpa using hd
        have he' : et.length = ks.length := by simpa using he
        have hpw' := (List.pairwise_cons.1 hpw)
        have key : ∀ d' : Attrs, setMany same name (pre ++ (k, d') :: ks.zip dt) (ks.zip et) =
            pre ++ (k, d') :: ks.zip (setColumn name dt et) := by
          intro d'
          have := ih dt et (pre ++ [(k, d')]) hpw'.2 (by
            intro a ha b hb
            rcases List.mem_append.1 ha with ha | ha
            · exact hpre a ha b (by simp [hb])
            · have : a = (k, d') := by simpa using ha
              subst this
              exact hpw'.1 b hb) hd' he'
          simpa using this
        cases e with
        | none =>
          simp only [List.zip_cons_cons, setMany, List.foldl_cons, setColumn]
          exact key d
        | some v =>
          simp only [List.zip_cons_cons, setMany, List.foldl_cons, setColumn]
          rw [setAt_append same pre _ k name v (fun a ha => hpre a ha k (by simp))]
          simp only [setAt, hrefl k, if_true]
          exact key (d.set name v)

theorem find?_zip (p : κ → Bool) (keys : List κ) (ds : List Attrs) (hlen : ds.length = keys.length) :
    (keys.zip ds).find? (fun x => p x.1) =
      match keys.findIdx? p with
      | none => none
      | some k => (keys.zip ds)[k]? := by
  induction keys generalizing ds with
  | nil => simp
  | cons a t ih =>
    cases ds with
    | nil => simp at hlen
    | cons d dt =>
      have hlen' : dt.length = t.length := by simpa using hlen
      simp only [List.zip_cons_cons, List.find?_cons, List.findIdx?_cons]
      cases hp : p a with
      | true => simp
      | false =>
        simp only [Bool.false_eq_true, if_false]
        rw [ih dt hlen']
        cases t.findIdx? p <;> simp



theorem fillDicts_spec (n : Nat) (props : List (String × Col))
    (hnd : (props.map (·.1)).Nodup) (hwf : ∀ p ∈ props, p.2.WF n) :
    ∃ ds, fillDicts n props = .ok ds ∧ ds.length = n ∧
      ∀ k, k < n → ∀ name, look ds k name = memAttr props k name := by
  obtain ⟨ds, h1, h2, h3⟩ := fillDicts_aux n props (List.replicate n []) (by simp) hnd hwf
  refine ⟨ds, h1, h2, ?_⟩
  intro k hk name
  rw [h3 k hk name]
  have : look (List.replicate n ([] : Attrs)) k name = none := by
    simp [look, hk]
  rw [this]
  unfold memAttr
  cases props.lookup name with
  | none => rfl
  | some c => simp only []; cases c.entry k <;> rfl

/-! ### networkx -/

theorem hasNode_iff (g : NxGraph) (i : Int) : g.hasNode i = true ↔ i ∈ g.nodes.map (·.1) := by
  simp only [NxGraph.hasNode, List.any_eq_true, decide_eq_true_eq, List.mem_map]

theorem foldl_addNode (d : Bool) (ns : List (Int × Attrs)) (es : List ((Int × Int) × Attrs)) (ids : List Int)
    (hnd : ids.Nodup) (hdisj : ∀ i ∈ ids, i ∉ ns.map (·.1)) :
    ids.foldl NxGraph.addNode ⟨d, ns, es⟩ = ⟨d, ns ++ ids.map (fun i => (i, [])), es⟩ := by
  induction ids generalizing ns with
  | nil => simp
  | cons i t ih =>
    have hnd' := List.nodup_cons.1 hnd
    have hno : (⟨d, ns, es⟩ : NxGraph).hasNode i = false := by
      cases h : (⟨d, ns, es⟩ : NxGraph).hasNode i with
      | false => rfl
      | true => exact absurd ((hasNode_iff _ i).1 h) (hdisj i (by simp))
    simp only [List.foldl_cons, NxGraph.addNode, hno, Bool.false_eq_true, if_false]
    rw [ih (ns ++ [(i, [])]) hnd'.2 (by
      intro j hj
      simp only [List.map_append, List.map_cons, List.map_nil, List.mem_append, List.mem_singleton, not_or]
      exact ⟨hdisj j (by simp [hj]), fun h => hnd'.1 (h ▸ hj)⟩)]
    simp

theorem foldlM_setNode (name : String) (kes : List (Int × Option PyVal)) (g : NxGraph)
    (hk : ∀ ke ∈ kes, ke.1 ∈ g.nodes.map (·.1)) :
    kes.foldlM (setNodeStep name) g
      = Except.ok { g with nodes := setMany (fun a b => a = b) name g.nodes kes } := by
  induction kes generalizing g with
  | nil => rfl
  | cons ke t ih =>
    obtain ⟨k, e⟩ := ke
    have hk0 := hk (k, e) (by simp)
    cases e with
    | none =>
      simp only [List.foldlM_cons, setNodeStep, bind, Except.bind]
      rw [ih g (fun q hq => hk q (by simp [hq]))]
      simp [setMany]
    | some v =>
      have hh : g.hasNode k = true := (hasNode_iff g k).2 hk0
      simp only [List.foldlM_cons, setNodeStep, NxGraph.setNodeAttr, hh, if_true, bind, Except.bind]
      rw [ih _ (by
        intro q hq
        simp only [setAt_keys]
        exact hk q (by simp [hq]))]
      simp [setMany]

theorem setNodePropertyValues_zip (g : NxGraph) (ids : List Int) (ds : List Attrs) (name : String) (c : Col)
    (hg : g.nodes = ids.zip ds) (hnd : ids.Nodup) (hlen : ds.length = ids.length) (hwf : c.WF ids.length) :
    setNodePropertyValues g ids name c =
      .ok { g with nodes := ids.zip (setColumn name ds ((List.range ids.length).map c.entry)) } := by
  unfold setNodePropertyValues
  simp only [colEntries_wf c _ hwf]
  rw [foldlM_setNode]
  · have hpw : ids.Pairwise (fun a b => (decide (a = b)) = false) := by
      have := List.nodup_iff_pairwise_ne.1 hnd
      exact this.imp (by intro a b h; simpa using h)
    have := setMany_zip (fun a b => decide (a = b)) (by simp) name ids ds
      ((List.range ids.length).map c.entry) [] hpw (by simp) hlen (by simp)
    simp only [List.nil_append] at this
    rw [hg, this]
  · intro ke hke
    rw [hg]
    have := (List.of_mem_zip hke).1
    simp only [List.map_fst_zip (by omega : ids.length ≤ ds.length)]
    exact this



theorem nodeProps_fold (ids : List Int) (props : List (String × Col)) (g : NxGraph) (ds0 : List Attrs)
    (hg : g.nodes = ids.zip ds0) (hnd : ids.Nodup) (hlen : ds0.length = ids.length)
    (hwf : ∀ p ∈ props, p.2.WF ids.length) :
    ∃ ds, props.foldlM (fillStep ids.length) ds0 = .ok ds ∧ ds.length = ids.length ∧
      props.foldlM (fun g (p : String × Col) => setNodePropertyValues g ids p.1 p.2) g =
        .ok { g with nodes := ids.zip ds } := by
  induction props generalizing g ds0 with
  | nil => exact ⟨ds0, rfl, hlen, by simp [← hg, pure, Except.pure]⟩
  | cons p ps ih =>
    have hwfp := hwf p (by simp)
    have h1 := setNodePropertyValues_zip g ids ds0 p.1 p.2 hg hnd hlen hwfp
    obtain ⟨ds, hds, hl, hfold⟩ := ih { g with nodes := ids.zip (setColumn p.1 ds0 ((List.range ids.length).map p.2.entry)) }
      (setColumn p.1 ds0 ((List.range ids.length).map p.2.entry)) rfl
      (by rw [length_setColumn, hlen]) (fun q hq => hwf q (by simp [hq]))
    refine ⟨ds, ?_, hl, ?_⟩
    · simp only [List.foldlM_cons, fillStep, colEntries_wf p.2 _ hwfp, bind, Except.bind]
      exact hds
    · simp only [List.foldlM_cons, h1, bind, Except.bind]
      exact hfold

/-! edges -/

theorem sameEdge_refl (d : Bool) (a : Int × Int) : sameEdge d a a = true := by simp [sameEdge]

theorem hasEdge_of_mem (g : NxGraph) (e : Int × Int) (h : e ∈ g.edges.map (·.1)) : g.hasEdge e = true := by
  obtain ⟨x, hx, rfl⟩ := List.mem_map.1 h
  simp only [NxGraph.hasEdge, List.any_eq_true]
  exact ⟨x, hx, sameEdge_refl _ _⟩

theorem foldl_addEdge (d : Bool) (ns : List (Int × Attrs)) (pre : List ((Int × Int) × Attrs)) (es : List (Int × Int))
    (hend : ∀ e ∈ es, e.1 ∈ ns.map (·.1) ∧ e.2 ∈ ns.map (·.1))
    (hpw : (pre.map (·.1) ++ es).Pairwise (fun a b => sameEdge d a b = false)) :
    es.foldl NxGraph.addEdge ⟨d, ns, pre⟩ = ⟨d, ns, pre ++ es.map (fun e => (e, []))⟩ := by
  induction es generalizing pre with
  | nil => simp
  | cons e t ih =>
    have he := hend e (by simp)
    have hn1 : (⟨d, ns, pre⟩ : NxGraph).hasNode e.1 = true := (hasNode_iff _ _).2 he.1
    have hn2 : (⟨d, ns, pre⟩ : NxGraph).hasNode e.2 = true := (hasNode_iff _ _).2 he.2
    have hno : (⟨d, ns, pre⟩ : NxGraph).hasEdge e = false := by
      simp only [NxGraph.hasEdge, List.any_eq_false]
      intro x hx
      have := List.pairwise_append.1 hpw
      have h3 := this.2.2 x.1 (List.mem_map.2 ⟨x, hx, rfl⟩) e (by simp)
      simp [h3]
    simp only [List.foldl_cons, NxGraph.addEdge, NxGraph.addNode, hn1, hn2, if_true, hno, Bool.false_eq_true, if_false]
    rw [ih (pre ++ [(e, [])]) (fun x hx => hend x (by simp [hx])) (by simpa using hpw)]
    simp

theorem foldlM_setEdge (name : String) (kes : List ((Int × Int) × Option PyVal)) (g : NxGraph)
    (hk : ∀ ke ∈ kes, ke.1 ∈ g.edges.map (·.1)) :
    kes.foldlM (setEdgeStep name) g
      = Except.ok { g with edges := setMany (sameEdge g.directed) name g.edges kes } := by
  induction kes generalizing g with
  | nil => rfl
  | cons ke t ih =>
    obtain ⟨k, e⟩ := ke
    have hk0 := hk (k, e) (by simp)
    cases e with
    | none =>
      simp only [List.foldlM_cons, setEdgeStep, bind, Except.bind]
      rw [ih g (fun q hq => hk q (by simp [hq]))]
      simp [setMany]
    | some v =>
      have hh : g.hasEdge k = true := hasEdge_of_mem g k hk0
      simp only [List.foldlM_cons, setEdgeStep, NxGraph.setEdgeAttr, hh, if_true, bind, Except.bind]
      rw [ih _ (by
        intro q hq
        simp only [setAt_keys]
        exact hk q (by simp [hq]))]
      simp [setMany]

theorem setEdgePropertyValues_zip (g : NxGraph) (ids : List (Int × Int)) (ds : List Attrs) (name : String) (c : Col)
    (hg : g.edges = ids.zip ds) (hpw : ids.Pairwise (fun a b => sameEdge g.directed a b = false))
    (hlen : ds.length = ids.length) (hwf : c.WF ids.length) :
    setEdgePropertyValues g ids name c =
      .ok { g with edges := ids.zip (setColumn name ds ((List.range ids.length).map c.entry)) } := by
  unfold setEdgePropertyValues
  simp only [colEntries_wf c _ hwf]
  rw [foldlM_setEdge]
  · have := setMany_zip (sameEdge g.directed) (sameEdge_refl _) name ids ds
      ((List.range ids.length).map c.entry) [] hpw (by simp) hlen (by simp)
    simp only [List.nil_append] at this
    rw [hg, this]
  · intro ke hke
    rw [hg]
    have := (List.of_mem_zip hke).1
    simp only [List.map_fst_zip (by omega : ids.length ≤ ds.length)]
    exact this

theorem edgeProps_fold (ids : List (Int × Int)) (props : List (String × Col)) (g : NxGraph) (ds0 : List Attrs)
    (hg : g.edges = ids.zip ds0) (hpw : ids.Pairwise (fun a b => sameEdge g.directed a b = false))
    (hlen : ds0.length = ids.length) (hwf : ∀ p ∈ props, p.2.WF ids.length) :
    ∃ ds, props.foldlM (fillStep ids.length) ds0 = .ok ds ∧ ds.length = ids.length ∧
      props.foldlM (fun g (p : String × Col) => setEdgePropertyValues g ids p.1 p.2) g =
        .ok { g with edges := ids.zip ds } := by
  induction props generalizing g ds0 with
  | nil => exact ⟨ds0, rfl, hlen, by simp [← hg, pure, Except.pure]⟩
  | cons p ps ih =>
    have hwfp := hwf p (by simp)
    have h1 := setEdgePropertyValues_zip g ids ds0 p.1 p.2 hg hpw hlen hwfp
    obtain ⟨ds, hds, hl, hfold⟩ := ih { g with edges := ids.zip (setColumn p.1 ds0 ((List.range ids.length).map p.2.entry)) }
      (setColumn p.1 ds0 ((List.range ids.length).map p.2.entry)) rfl hpw
      (by rw [length_setColumn, hlen]) (fun q hq => hwf q (by simp [hq]))
    refine ⟨ds, ?_, hl, ?_⟩
    · simp only [List.foldlM_cons, fillStep, colEntries_wf p.2 _ hwfp, bind, Except.bind]
      exact hds
    · simp only [List.foldlM_cons, h1, bind, Except.bind]
      exact hfold


end Geff.Backends
