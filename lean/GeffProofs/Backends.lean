import GeffProofs.Dicts
/-! Lemmas about the backend models (`GeffModel/Backends.lean`) used by the C03 theorems. -/
namespace Geff.Backends
open Geff.Np Geff.Dicts Geff.Graph

/-! ### entries of a column, per-element dicts -/

theorem colEntries_wf (c : Col) (n : Nat) (h : c.WF n) :
    colEntries c n = .ok ((List.range n).map c.entry) := by
  unfold colEntries
  apply mapE_ok_map
  intro i hi
  have hi' : i < n := List.mem_range.1 hi
  have hr : i < c.rows.length := by rw [h.1]; exact hi'
  simp only [Col.entry, List.getElem?_eq_getElem hr]
  cases hm : c.missing with
  | none => rfl
  | some ms =>
    have hl : i < ms.length := by rw [h.2 ms hm]; exact hi'
    simp only [List.getElem?_eq_getElem hl]
    cases ms[i] <;> simp

theorem length_setColumn (name : String) (ds : List Attrs) (es : List (Option PyVal)) :
    (setColumn name ds es).length = ds.length := by
  induction ds generalizing es with
  | nil => cases es with
    | nil => rfl
    | cons e t => cases e <;> rfl
  | cons d t ih =>
    cases es with
    | nil => rfl
    | cons e t' => cases e <;> simp [setColumn, ih]

/-- attribute `name` of the `k`-th dict -/
def look (ds : List Attrs) (k : Nat) (name : String) : Option PyVal :=
  match ds[k]? with
  | none => none
  | some d => d.lookup name

theorem look_setColumn (name : String) (ds : List Attrs) (es : List (Option PyVal)) (k : Nat)
    (name' : String) (hk : k < ds.length) (hlen : es.length = ds.length) :
    look (setColumn name ds es) k name' =
      if name' = name then (match es[k]? with
        | some (some v) => some v
        | _ => look ds k name') else look ds k name' := by
  induction ds generalizing es k with
  | nil => simp at hk
  | cons d t ih =>
    cases es with
    | nil => simp at hlen
    | cons e t' =>
      have hlen' : t'.length = t.length := by simpa using hlen
      cases k with
      | zero =>
        cases e with
        | none => simp [setColumn, look]
        | some v => simp [setColumn, look, lookup_set]
      | succ k =>
        have hk' : k < t.length := by simpa using hk
        have := ih t' k hk' hlen'
        cases e <;> simpa [setColumn, look] using this

theorem fillDicts_aux (n : Nat) (props : List (String × Col)) (ds0 : List Attrs) (hlen : ds0.length = n)
    (hnd : (props.map (·.1)).Nodup) (hwf : ∀ p ∈ props, p.2.WF n) :
    ∃ ds, props.foldlM (fillStep n) ds0 = .ok ds ∧ ds.length = n ∧
      ∀ k, k < n → ∀ name, look ds k name =
        match props.lookup name with
        | some c => (match c.entry k with
          | some v => some v
          | none => look ds0 k name)
        | none => look ds0 k name := by
  induction props generalizing ds0 with
  | nil => exact ⟨ds0, rfl, hlen, fun k _ name => rfl⟩
  | cons p ps ih =>
    obtain ⟨pn, pc⟩ := p
    have hwfp : pc.WF n := hwf (pn, pc) (by simp)
    have hnd' : (ps.map (·.1)).Nodup := (List.nodup_cons.1 (by simpa using hnd)).2
    have hnotin : pn ∉ ps.map (·.1) := (List.nodup_cons.1 (by simpa using hnd)).1
    have hlen1 : (setColumn pn ds0 ((List.range n).map pc.entry)).length = n := by
      rw [length_setColumn, hlen]
    obtain ⟨ds, hds, hl, hlook⟩ := ih (setColumn pn ds0 ((List.range n).map pc.entry)) hlen1 hnd'
      (fun q hq => hwf q (by simp [hq]))
    refine ⟨ds, ?_, hl, ?_⟩
    · simp only [List.foldlM_cons, fillStep, colEntries_wf pc n hwfp, bind, Except.bind]
      exact hds
    · intro k hk name
      rw [hlook k hk name]
      have hes : ((List.range n).map pc.entry)[k]? = some (pc.entry k) := by
        simp [hk]
      have h1 := look_setColumn pn ds0 ((List.range n).map pc.entry) k name (by rw [hlen]; exact hk)
        (by simp [hlen])
      rw [hes] at h1
      by_cases hname : name = pn
      · subst hname
        have hps : ps.lookup name = none := by
          rw [List.lookup_eq_none_iff]
          intro q hq
          simp only [bne_iff_ne, ne_eq]
          intro heq
          exact hnotin (List.mem_map.2 ⟨q, hq, heq.symm⟩)
        rw [hps, lookup_cons_ite]
        simp only [if_true] at h1 ⊢
        rw [h1]
        cases pc.entry k <;> rfl
      · rw [lookup_cons_ite]
        simp only [hname, if_false] at h1 ⊢
        rw [h1]


/-! ### addressing by key = addressing by position -/

variable {κ : Type}

theorem setAt_keys (same : κ → κ → Bool) (l : List (κ × Attrs)) (k : κ) (n : String) (v : PyVal) :
    (setAt same l k n v).map (·.1) = l.map (·.1) := by
  induction l with
  | nil => rfl
  | cons p t ih =>
    obtain ⟨k', a⟩ := p
    simp only [setAt]
    split <;> simp [ih]

theorem setAt_append (same : κ → κ → Bool) (pre l : List (κ × Attrs)) (k : κ) (n : String) (v : PyVal)
    (h : ∀ a ∈ pre, same a.1 k = false) :
    setAt same (pre ++ l) k n v = pre ++ setAt same l k n v := by
  induction pre with
  | nil => rfl
  | cons p t ih =>
    obtain ⟨k', a⟩ := p
    have h1 : same k' k = false := h (k', a) (by simp)
    simp only [List.cons_append, setAt, h1, Bool.false_eq_true, if_false]
    rw [ih (fun b hb => h b (by simp [hb]))]

/-- the loop `for key, entry in zip(keys, entries): if entry present: l[key][name] = entry` -/
def setMany (same : κ → κ → Bool) (name : String) (l : List (κ × Attrs)) (kes : List (κ × Option PyVal)) :
    List (κ × Attrs) :=
  kes.foldl (fun l ke => match ke.2 with
    | none => l
    | some v => setAt same l ke.1 name v) l

theorem setMany_keys (same : κ → κ → Bool) (name : String) (l : List (κ × Attrs)) (kes : List (κ × Option PyVal)) :
    (setMany same name l kes).map (·.1) = l.map (·.1) := by
  induction kes generalizing l with
  | nil => rfl
  | cons ke t ih =>
    simp only [setMany, List.foldl_cons]
    cases h : ke.2 with
    | none => simpa [setMany] using ih l
    | some v =>
      have := ih (setAt same l ke.1 name v)
      simp only [setMany] at this
      rw [this, setAt_keys]

/-- with keys that are pairwise not `same` (an earlier one never matches a later one), addressing
by key is addressing by position -/
theorem setMany_zip (same : κ → κ → Bool) (hrefl : ∀ a, same a a = true) (name : String)
    (keys : List κ) (ds : List Attrs) (es : List (Option PyVal)) (pre : List (κ × Attrs))
    (hpw : keys.Pairwise (fun a b => same a b = false))
    (hpre : ∀ a ∈ pre, ∀ b ∈ keys, same a.1 b = false)
    (hd : ds.length = keys.length) (he : es.length = keys.length) :
    setMany same name (pre ++ keys.zip ds) (keys.zip es) = pre ++ keys.zip (setColumn name ds es) := by
  induction keys generalizing ds es pre with
  | nil => simp [setMany]
  | cons k ks ih =>
    cases ds with
    | nil => simp at hd
    | cons d dt =>
      cases es with
      | nil => simp at he
      | cons e et =>
        have hd' : dt.length = ks.length := by simpa using hd
        have he' : et.length = ks.length := by simpa using he
        have hpw' := (List.pairwise_cons.1 hpw)
        have key : ∀ d' : Attrs, setMany same name (pre ++ (k, d') :: ks.zip dt) (ks.zip et) =
            pre ++ (k, d') :: ks.zip (setColumn name dt et) := by
          intro d'
          have := ih dt et (pre ++ [(k, d')]) hpw'.2 (by
            intro a ha b hb
            rcases List.mem_append.1 ha with ha | ha
            · exact hpre a ha b (by simp [hb])
            · have : a = (k, d') := by simpa using ha
              subst this
              exact hpw'.1 b hb) hd' he'
          simpa using this
        cases e with
        | none =>
          simp only [List.zip_cons_cons, setMany, List.foldl_cons, setColumn]
          exact key d
        | some v =>
          simp only [List.zip_cons_cons, setMany, List.foldl_cons, setColumn]
          rw [setAt_append same pre _ k name v (fun a ha => hpre a ha k (by simp))]
          simp only [setAt, hrefl k, if_true]
          exact key (d.set name v)

theorem find?_zip (p : κ → Bool) (keys : List κ) (ds : List Attrs) (hlen : ds.length = keys.length) :
    (keys.zip ds).find? (fun x => p x.1) =
      match keys.findIdx? p with
      | none => none
      | some k => (keys.zip ds)[k]? := by
  induction keys generalizing ds with
  | nil => simp
  | cons a t ih =>
    cases ds with
    | nil => simp at hlen
    | cons d dt =>
      have hlen' : dt.length = t.length := by simpa using hlen
      simp only [List.zip_cons_cons, List.find?_cons, List.findIdx?_cons]
      cases hp : p a with
      | true => simp
      | false =>
        simp only [Bool.false_eq_true, if_false]
        rw [ih dt hlen']
        cases t.findIdx? p <;> simp



theorem fillDicts_spec (n : Nat) (props : List (String × Col))
    (hnd : (props.map (·.1)).Nodup) (hwf : ∀ p ∈ props, p.2.WF n) :
    ∃ ds, fillDicts n props = .ok ds ∧ ds.length = n ∧
      ∀ k, k < n → ∀ name, look ds k name = memAttr props k name := by
  obtain ⟨ds, h1, h2, h3⟩ := fillDicts_aux n props (List.replicate n []) (by simp) hnd hwf
  refine ⟨ds, h1, h2, ?_⟩
  intro k hk name
  rw [h3 k hk name]
  have : look (List.replicate n ([] : Attrs)) k name = none := by
    simp [look, hk]
  rw [this]
  unfold memAttr
  cases props.lookup name with
  | none => rfl
  | some c => simp only []; cases c.entry k <;> rfl

/-! ### networkx -/

theorem hasNode_iff (g : NxGraph) (i : Int) : g.hasNode i = true ↔ i ∈ g.nodes.map (·.1) := by
  simp only [NxGraph.hasNode, List.any_eq_true, decide_eq_true_eq, List.mem_map]

theorem foldl_addNode (d : Bool) (ns : List (Int × Attrs)) (es : List ((Int × Int) × Attrs)) (ids : List Int)
    (hnd : ids.Nodup) (hdisj : ∀ i ∈ ids, i ∉ ns.map (·.1)) :
    ids.foldl NxGraph.addNode ⟨d, ns, es⟩ = ⟨d, ns ++ ids.map (fun i => (i, [])), es⟩ := by
  induction ids generalizing ns with
  | nil => simp
  | cons i t ih =>
    have hnd' := List.nodup_cons.1 hnd
    have hno : (⟨d, ns, es⟩ : NxGraph).hasNode i = false := by
      cases h : (⟨d, ns, es⟩ : NxGraph).hasNode i with
      | false => rfl
      | true => exact absurd ((hasNode_iff _ i).1 h) (hdisj i (by simp))
    simp only [List.foldl_cons, NxGraph.addNode, hno, Bool.false_eq_true, if_false]
    rw [ih (ns ++ [(i, [])]) hnd'.2 (by
      intro j hj
      simp only [List.map_append, List.map_cons, List.map_nil, List.mem_append, List.mem_singleton, not_or]
      exact ⟨hdisj j (by simp [hj]), fun h => hnd'.1 (h ▸ hj)⟩)]
    simp

theorem foldlM_setNode (name : String) (kes : List (Int × Option PyVal)) (g : NxGraph)
    (hk : ∀ ke ∈ kes, ke.1 ∈ g.nodes.map (·.1)) :
    kes.foldlM (setNodeStep name) g
      = Except.ok { g with nodes := setMany (fun a b => a = b) name g.nodes kes } := by
  induction kes generalizing g with
  | nil => rfl
  | cons ke t ih =>
    obtain ⟨k, e⟩ := ke
    have hk0 := hk (k, e) (by simp)
    cases e with
    | none =>
      simp only [List.foldlM_cons, setNodeStep, bind, Except.bind]
      rw [ih g (fun q hq => hk q (by simp [hq]))]
      simp [setMany]
    | some v =>
      have hh : g.hasNode k = true := (hasNode_iff g k).2 hk0
      simp only [List.foldlM_cons, setNodeStep, NxGraph.setNodeAttr, hh, if_true, bind, Except.bind]
      rw [ih _ (by
        intro q hq
        simp only [setAt_keys]
        exact hk q (by simp [hq]))]
      simp [setMany]

theorem setNodePropertyValues_zip (g : NxGraph) (ids : List Int) (ds : List Attrs) (name : String) (c : Col)
    (hg : g.nodes = ids.zip ds) (hnd : ids.Nodup) (hlen : ds.length = ids.length) (hwf : c.WF ids.length) :
    setNodePropertyValues g ids name c =
      .ok { g with nodes := ids.zip (setColumn name ds ((List.range ids.length).map c.entry)) } := by
  unfold setNodePropertyValues
  simp only [colEntries_wf c _ hwf]
  rw [foldlM_setNode]
  · have hpw : ids.Pairwise (fun a b => (decide (a = b)) = false) := by
      have := List.nodup_iff_pairwise_ne.1 hnd
      exact this.imp (by intro a b h; simpa using h)
    have := setMany_zip (fun a b => decide (a = b)) (by simp) name ids ds
      ((List.range ids.length).map c.entry) [] hpw (by simp) hlen (by simp)
    simp only [List.nil_append] at this
    rw [hg, this]
  · intro ke hke
    rw [hg]
    have := (List.of_mem_zip hke).1
    simp only [List.map_fst_zip (by omega : ids.length ≤ ds.length)]
    exact this



theorem nodeProps_fold (ids : List Int) (props : List (String × Col)) (g : NxGraph) (ds0 : List Attrs)
    (hg : g.nodes = ids.zip ds0) (hnd : ids.Nodup) (hlen : ds0.length = ids.length)
    (hwf : ∀ p ∈ props, p.2.WF ids.length) :
    ∃ ds, props.foldlM (fillStep ids.length) ds0 = .ok ds ∧ ds.length = ids.length ∧
      props.foldlM (fun g (p : String × Col) => setNodePropertyValues g ids p.1 p.2) g =
        .ok { g with nodes := ids.zip ds } := by
  induction props generalizing g ds0 with
  | nil => exact ⟨ds0, rfl, hlen, by simp [← hg, pure, Except.pure]⟩
  | cons p ps ih =>
    have hwfp := hwf p (by simp)
    have h1 := setNodePropertyValues_zip g ids ds0 p.1 p.2 hg hnd hlen hwfp
    obtain ⟨ds, hds, hl, hfold⟩ := ih { g with nodes := ids.zip (setColumn p.1 ds0 ((List.range ids.length).map p.2.entry)) }
      (setColumn p.1 ds0 ((List.range ids.length).map p.2.entry)) rfl
      (by rw [length_setColumn, hlen]) (fun q hq => hwf q (by simp [hq]))
    refine ⟨ds, ?_, hl, ?_⟩
    · simp only [List.foldlM_cons, fillStep, colEntries_wf p.2 _ hwfp, bind, Except.bind]
      exact hds
    · simp only [List.foldlM_cons, h1, bind, Except.bind]
      exact hfold

/-! edges -/

theorem sameEdge_refl (d : Bool) (a : Int × Int) : sameEdge d a a = true := by simp [sameEdge]

theorem hasEdge_of_mem (g : NxGraph) (e : Int × Int) (h : e ∈ g.edges.map (·.1)) : g.hasEdge e = true := by
  obtain ⟨x, hx, rfl⟩ := List.mem_map.1 h
  simp only [NxGraph.hasEdge, List.any_eq_true]
  exact ⟨x, hx, sameEdge_refl _ _⟩

theorem foldl_addEdge (d : Bool) (ns : List (Int × Attrs)) (pre : List ((Int × Int) × Attrs)) (es : List (Int × Int))
    (hend : ∀ e ∈ es, e.1 ∈ ns.map (·.1) ∧ e.2 ∈ ns.map (·.1))
    (hpw : (pre.map (·.1) ++ es).Pairwise (fun a b => sameEdge d a b = false)) :
    es.foldl NxGraph.addEdge ⟨d, ns, pre⟩ = ⟨d, ns, pre ++ es.map (fun e => (e, []))⟩ := by
  induction es generalizing pre with
  | nil => simp
  | cons e t ih =>
    have he := hend e (by simp)
    have hn1 : (⟨d, ns, pre⟩ : NxGraph).hasNode e.1 = true := (hasNode_iff _ _).2 he.1
    have hn2 : (⟨d, ns, pre⟩ : NxGraph).hasNode e.2 = true := (hasNode_iff _ _).2 he.2
    have hno : (⟨d, ns, pre⟩ : NxGraph).hasEdge e = false := by
      simp only [NxGraph.hasEdge, List.any_eq_false]
      intro x hx
      have := List.pairwise_append.1 hpw
      have h3 := this.2.2 x.1 (List.mem_map.2 ⟨x, hx, rfl⟩) e (by simp)
      simp [h3]
    simp only [List.foldl_cons, NxGraph.addEdge, NxGraph.addNode, hn1, hn2, if_true, hno, Bool.false_eq_true, if_false]
    rw [ih (pre ++ [(e, [])]) (fun x hx => hend x (by simp [hx])) (by simpa using hpw)]
    simp

theorem foldlM_setEdge (name : String) (kes : List ((Int × Int) × Option PyVal)) (g : NxGraph)
    (hk : ∀ ke ∈ kes, ke.1 ∈ g.edges.map (·.1)) :
    kes.foldlM (setEdgeStep name) g
      = Except.ok { g with edges := setMany (sameEdge g.directed) name g.edges kes } := by
  induction kes generalizing g with
  | nil => rfl
  | cons ke t ih =>
    obtain ⟨k, e⟩ := ke
    have hk0 := hk (k, e) (by simp)
    cases e with
    | none =>
      simp only [List.foldlM_cons, setEdgeStep, bind, Except.bind]
      rw [ih g (fun q hq => hk q (by simp [hq]))]
      simp [setMany]
    | some v =>
      have hh : g.hasEdge k = true := hasEdge_of_mem g k hk0
      simp only [List.foldlM_cons, setEdgeStep, NxGraph.setEdgeAttr, hh, if_true, bind, Except.bind]
      rw [ih _ (by
        intro q hq
        simp only [setAt_keys]
        exact hk q (by simp [hq]))]
      simp [setMany]

theorem setEdgePropertyValues_zip (g : NxGraph) (ids : List (Int × Int)) (ds : List Attrs) (name : String) (c : Col)
    (hg : g.edges = ids.zip ds) (hpw : ids.Pairwise (fun a b => sameEdge g.directed a b = false))
    (hlen : ds.length = ids.length) (hwf : c.WF ids.length) :
    setEdgePropertyValues g ids name c =
      .ok { g with edges := ids.zip (setColumn name ds ((List.range ids.length).map c.entry)) } := by
  unfold setEdgePropertyValues
  simp only [colEntries_wf c _ hwf]
  rw [foldlM_setEdge]
  · have := setMany_zip (sameEdge g.directed) (sameEdge_refl _) name ids ds
      ((List.range ids.length).map c.entry) [] hpw (by simp) hlen (by simp)
    simp only [List.nil_append] at this
    rw [hg, this]
  · intro ke hke
    rw [hg]
    have := (List.of_mem_zip hke).1
    simp only [List.map_fst_zip (by omega : ids.length ≤ ds.length)]
    exact this

theorem edgeProps_fold (ids : List (Int × Int)) (props : List (String × Col)) (g : NxGraph) (ds0 : List Attrs)
    (hg : g.edges = ids.zip ds0) (hpw : ids.Pairwise (fun a b => sameEdge g.directed a b = false))
    (hlen : ds0.length = ids.length) (hwf : ∀ p ∈ props, p.2.WF ids.length) :
    ∃ ds, props.foldlM (fillStep ids.length) ds0 = .ok ds ∧ ds.length = ids.length ∧
      props.foldlM (fun g (p : String × Col) => setEdgePropertyValues g ids p.1 p.2) g =
        .ok { g with edges := ids.zip ds } := by
  induction props generalizing g ds0 with
  | nil => exact ⟨ds0, rfl, hlen, by simp [← hg, pure, Except.pure]⟩
  | cons p ps ih =>
    have hwfp := hwf p (by simp)
    have h1 := setEdgePropertyValues_zip g ids ds0 p.1 p.2 hg hpw hlen hwfp
    obtain ⟨ds, hds, hl, hfold⟩ := ih { g with edges := ids.zip (setColumn p.1 ds0 ((List.range ids.length).map p.2.entry)) }
      (setColumn p.1 ds0 ((List.range ids.length).map p.2.entry)) rfl hpw
      (by rw [length_setColumn, hlen]) (fun q hq => hwf q (by simp [hq]))
    refine ⟨ds, ?_, hl, ?_⟩
    · simp only [List.foldlM_cons, fillStep, colEntries_wf p.2 _ hwfp, bind, Except.bind]
      exact hds
    · simp only [List.foldlM_cons, h1, bind, Except.bind]
      exact hfold



/-- a valid in-memory geff: unique node ids, edges between existing nodes, no edge twice (in either
orientation when undirected), property names unique, every column as long as its element list -/
structure MemValid (m : MemGeff) : Prop where
  nodup : m.nodeIds.Nodup
  endpoints : ∀ e ∈ m.edgeIds, e.1 ∈ m.nodeIds ∧ e.2 ∈ m.nodeIds
  simple : m.edgeIds.Pairwise (fun a b => sameEdge m.directed a b = false)
  nodeNames : (m.nodeProps.map (·.1)).Nodup
  edgeNames : (m.edgeProps.map (·.1)).Nodup
  nodeCols : ∀ p ∈ m.nodeProps, p.2.WF m.nodeIds.length
  edgeCols : ∀ p ∈ m.edgeProps, p.2.WF m.edgeIds.length

/-- SPECIFICATION: the attribute `name` node `i` has in the graph an in-memory geff denotes -/
def specNodeAttr (m : MemGeff) (i : Int) (name : String) : Option PyVal :=
  match m.nodeIds.findIdx? (fun x => x = i) with
  | none => none
  | some k => memAttr m.nodeProps k name

/-- SPECIFICATION: the attribute `name` of edge `e` (either orientation when undirected) -/
def specEdgeAttr (m : MemGeff) (e : Int × Int) (name : String) : Option PyVal :=
  match m.edgeIds.findIdx? (fun x => sameEdge m.directed x e) with
  | none => none
  | some k => memAttr m.edgeProps k name

theorem findIdx?_lt {α : Type} (p : α → Bool) (l : List α) (k : Nat) (h : l.findIdx? p = some k) : k < l.length := by
  induction l generalizing k with
  | nil => simp at h
  | cons a t ih =>
    simp only [List.findIdx?_cons] at h
    cases hp : p a with
    | true => simp [hp] at h; subst h; simp
    | false =>
      simp only [hp, Bool.false_eq_true, if_false, Option.map_eq_some_iff] at h
      obtain ⟨k', hk', rfl⟩ := h
      have := ih k' hk'
      simp; omega

theorem map_pair_eq_zip {α : Type} (l : List α) : l.map (fun i => (i, ([] : Attrs))) = l.zip (List.replicate l.length []) := by
  induction l with
  | nil => rfl
  | cons a t ih => simp [List.replicate_succ, ih]

theorem attr_of_zip {κ : Type} (p : κ → Bool) (keys : List κ) (ds : List Attrs) (hlen : ds.length = keys.length)
    (name : String) :
    attrOf? ((keys.zip ds).find? (fun x => p x.1)) name =
    match keys.findIdx? p with
    | none => none
    | some k => look ds k name := by
  rw [find?_zip p keys ds hlen]
  cases h : keys.findIdx? p with
  | none => rfl
  | some k =>
    have hk := findIdx?_lt p keys k h
    have hk' : k < ds.length := by omega
    have hz : (keys.zip ds)[k]? = some (keys[k], ds[k]) := by
      rw [List.getElem?_eq_getElem (by simp; omega)]
      simp
    simp [attrOf?, look, hz, List.getElem?_eq_getElem hk']

theorem nxConstruct_spec (m : MemGeff) (h : MemValid m) :
    ∃ g, nxConstruct m = .ok g ∧ g.directed = m.directed ∧ g.nodes.map (·.1) = m.nodeIds ∧
      g.edges.map (·.1) = m.edgeIds ∧
      (∀ i name, g.nodeAttr i name = specNodeAttr m i name) ∧
      (∀ e name, g.edgeAttr e name = specEdgeAttr m e name) := by
  -- nodes
  have h1 : m.nodeIds.foldl NxGraph.addNode ⟨m.directed, [], []⟩ =
      ⟨m.directed, m.nodeIds.zip (List.replicate m.nodeIds.length []), []⟩ := by
    rw [foldl_addNode m.directed [] [] m.nodeIds h.nodup (by simp)]
    simp [map_pair_eq_zip]
  obtain ⟨ds, hds, hdl, hfold⟩ := nodeProps_fold m.nodeIds m.nodeProps
    ⟨m.directed, m.nodeIds.zip (List.replicate m.nodeIds.length []), []⟩ (List.replicate m.nodeIds.length [])
    rfl h.nodup (by simp) h.nodeCols
  obtain ⟨ds', hds', _, hlook⟩ := fillDicts_spec m.nodeIds.length m.nodeProps h.nodeNames h.nodeCols
  have hdd : ds' = ds := by
    have : (Except.ok ds' : Except Err _) = Except.ok ds := by rw [← hds', ← hds]; rfl
    exact Except.ok.inj this
  subst hdd
  -- edges
  have hkeys : (m.nodeIds.zip ds').map (·.1) = m.nodeIds := List.map_fst_zip (by omega)
  have h3 : m.edgeIds.foldl NxGraph.addEdge ⟨m.directed, m.nodeIds.zip ds', []⟩ =
      ⟨m.directed, m.nodeIds.zip ds', m.edgeIds.zip (List.replicate m.edgeIds.length [])⟩ := by
    rw [foldl_addEdge m.directed _ [] m.edgeIds (by rw [hkeys]; exact h.endpoints) (by simpa using h.simple)]
    simp [map_pair_eq_zip]
  obtain ⟨es, hes, hel, hefold⟩ := edgeProps_fold m.edgeIds m.edgeProps
    ⟨m.directed, m.nodeIds.zip ds', m.edgeIds.zip (List.replicate m.edgeIds.length [])⟩
    (List.replicate m.edgeIds.length []) rfl h.simple (by simp) h.edgeCols
  obtain ⟨es', hes', _, helook⟩ := fillDicts_spec m.edgeIds.length m.edgeProps h.edgeNames h.edgeCols
  have hee : es' = es := by
    have : (Except.ok es' : Except Err _) = Except.ok es := by rw [← hes', ← hes]; rfl
    exact Except.ok.inj this
  subst hee
  refine ⟨⟨m.directed, m.nodeIds.zip ds', m.edgeIds.zip es'⟩, ?_, rfl, hkeys, List.map_fst_zip (by omega), ?_, ?_⟩
  · unfold nxConstruct
    simp only [h1, hfold, h3, hefold]
  · intro i name
    have := attr_of_zip (fun x => decide (x = i)) m.nodeIds ds' hdl name
    simp only [NxGraph.nodeAttr, specNodeAttr]
    rw [this]
    cases hk : m.nodeIds.findIdx? (fun x => decide (x = i)) with
    | none => rfl
    | some k => exact hlook k (findIdx?_lt _ _ k hk) name
  · intro e name
    have := attr_of_zip (fun x => sameEdge m.directed x e) m.edgeIds es' hel name
    simp only [NxGraph.edgeAttr, specEdgeAttr]
    rw [this]
    cases hk : m.edgeIds.findIdx? (fun x => sameEdge m.directed x e) with
    | none => rfl
    | some k => exact helook k (findIdx?_lt _ _ k hk) name



/-! ### rustworkx -/

theorem findIdx?_getElem {α : Type} (p : α → Bool) (l : List α) (k : Nat) (h : l.findIdx? p = some k) :
    ∃ hk : k < l.length, p l[k] = true := by
  induction l generalizing k with
  | nil => simp at h
  | cons a t ih =>
    simp only [List.findIdx?_cons] at h
    cases hp : p a with
    | true => simp [hp] at h; subst h; exact ⟨by simp, by simpa using hp⟩
    | false =>
      simp only [hp, Bool.false_eq_true, if_false, Option.map_eq_some_iff] at h
      obtain ⟨k', hk', rfl⟩ := h
      obtain ⟨hk2, hp2⟩ := ih k' hk'
      exact ⟨by simp; omega, by simpa using hp2⟩

theorem findIdx?_none_iff {α : Type} (p : α → Bool) (l : List α) : l.findIdx? p = none ↔ ∀ x ∈ l, p x = false := by
  induction l with
  | nil => simp
  | cons a t ih =>
    simp only [List.findIdx?_cons]
    cases hp : p a with
    | true => simp [hp]
    | false => simp [hp, ih]

theorem findIdx?_congr {α : Type} (p q : α → Bool) (l : List α) (h : ∀ x ∈ l, p x = q x) :
    l.findIdx? p = l.findIdx? q := by
  induction l with
  | nil => rfl
  | cons a t ih =>
    simp only [List.findIdx?_cons, h a (by simp), ih (fun x hx => h x (by simp [hx]))]

theorem findIdx?_map' {α β : Type} (f : α → β) (q : β → Bool) (l : List α) :
    (l.map f).findIdx? q = l.findIdx? (fun x => q (f x)) := by
  induction l with
  | nil => rfl
  | cons a t ih => simp only [List.map_cons, List.findIdx?_cons, ih]

theorem findIdx?_of_mem (ids : List Int) (i : Int) (h : i ∈ ids) : ∃ k, ids.findIdx? (fun x => x = i) = some k := by
  cases hk : ids.findIdx? (fun x => decide (x = i)) with
  | some k => exact ⟨k, rfl⟩
  | none =>
    have := (findIdx?_none_iff _ _).1 hk i h
    simp at this

theorem lookup_dictOfZip_notin {υ : Type} (ks : List Int) (vs : List υ) (i : Int) (h : i ∉ ks) :
    (dictOfZip ks vs).lookup i = none := by
  induction ks generalizing vs with
  | nil => cases vs <;> rfl
  | cons k t ih =>
    cases vs with
    | nil => rfl
    | cons v vt =>
      have hik : i ≠ k := fun e => h (by simp [e])
      have hit : i ∉ t := fun e => h (by simp [e])
      have hb : (i == k) = false := by simpa using hik
      simp only [dictOfZip]
      cases hl : (dictOfZip t vt).lookup k with
      | none => simp [List.lookup_cons, hb, ih vt hit]
      | some v' =>
        simp only [List.lookup_cons, hb]
        rw [List.lookup_eq_none_iff]
        intro q hq
        have hq' := (List.mem_filter.1 hq).1
        have : (dictOfZip t vt).lookup i = none := ih vt hit
        rw [List.lookup_eq_none_iff] at this
        exact this q hq'

theorem lookup_dictOfZip (ks : List Int) (vs : List Nat) (i : Int) (hnd : ks.Nodup) (hlen : vs.length = ks.length) :
    (dictOfZip ks vs).lookup i =
      match ks.findIdx? (fun x => x = i) with
      | none => none
      | some k => vs[k]? := by
  induction ks generalizing vs with
  | nil => cases vs <;> rfl
  | cons k t ih =>
    cases vs with
    | nil => simp at hlen
    | cons v vt =>
      have hnd' := List.nodup_cons.1 hnd
      have hrest : (dictOfZip t vt).lookup k = none := lookup_dictOfZip_notin t vt k hnd'.1
      simp only [dictOfZip, hrest, List.findIdx?_cons]
      by_cases hik : k = i
      · subst hik; simp
      · have hb : (i == k) = false := by simpa using fun e : i = k => hik e.symm
        simp only [List.lookup_cons, hb, hik, decide_false, Bool.false_eq_true, if_false]
        rw [ih vt hnd'.2 (by simpa using hlen)]
        cases t.findIdx? (fun x => decide (x = i)) <;> simp



/-- position of node id `i` in the id list (0 when absent; only used on members) -/
def posOf (ids : List Int) (i : Int) : Nat := (ids.findIdx? (fun x => x = i)).getD 0

theorem posOf_spec (ids : List Int) (i : Int) (h : i ∈ ids) :
    ids.findIdx? (fun x => x = i) = some (posOf ids i) ∧ ∃ hk : posOf ids i < ids.length, ids[posOf ids i] = i := by
  obtain ⟨k, hk⟩ := findIdx?_of_mem ids i h
  have : posOf ids i = k := by simp [posOf, hk]
  rw [this]
  obtain ⟨hlt, hp⟩ := findIdx?_getElem _ ids k hk
  exact ⟨hk, hlt, by simpa using hp⟩

theorem posOf_inj (ids : List Int) (i j : Int) (hi : i ∈ ids) (hj : j ∈ ids) (h : posOf ids i = posOf ids j) : i = j := by
  obtain ⟨_, hk1, h1⟩ := posOf_spec ids i hi
  obtain ⟨_, hk2, h2⟩ := posOf_spec ids j hj
  rw [← h1, ← h2]
  simp [h]

theorem toRx_lookup (ids : List Int) (hnd : ids.Nodup) (i : Int) :
    (dictOfZip ids (List.range ids.length)).lookup i = ids.findIdx? (fun x => x = i) := by
  rw [lookup_dictOfZip ids (List.range ids.length) i hnd (by simp)]
  cases h : ids.findIdx? (fun x => decide (x = i)) with
  | none => rfl
  | some k =>
    have := findIdx?_lt _ _ k h
    simp [this]

/-! `any` versions (membership of an edge) -/
theorem any_zip_fst {κ : Type} (p : κ → Bool) (keys : List κ) (ds : List Attrs) (hlen : ds.length = keys.length) :
    (keys.zip ds).any (fun x => p x.1) = keys.any p := by
  induction keys generalizing ds with
  | nil => simp
  | cons a t ih =>
    cases ds with
    | nil => simp at hlen
    | cons d dt => simp [ih dt (by simpa using hlen)]



theorem any_eq_isSome_findIdx? {α : Type} (p : α → Bool) (l : List α) : l.any p = (l.findIdx? p).isSome := by
  induction l with
  | nil => rfl
  | cons a t ih =>
    simp only [List.any_cons, List.findIdx?_cons]
    cases hp : p a with
    | true => simp
    | false =>
      rw [ih]
      cases t.findIdx? p <;> simp

/-- in index space, "is the pair `(a, b)` (or `(b, a)` when undirected)" is `sameEdge` in id space -/
theorem rx_edge_pred (m : MemGeff) (h : MemValid m) (e : Int × Int) (a b : Nat)
    (hk1 : m.nodeIds.findIdx? (fun x => decide (x = e.1)) = some a)
    (hk2 : m.nodeIds.findIdx? (fun x => decide (x = e.2)) = some b) :
    (m.edgeIds.map (fun e => (posOf m.nodeIds e.1, posOf m.nodeIds e.2))).findIdx?
        (fun x => decide (x = (a, b)) || (!m.directed && decide (x = (b, a)))) =
      m.edgeIds.findIdx? (fun x => sameEdge m.directed x e) := by
  obtain ⟨hlta, hpa⟩ := findIdx?_getElem _ _ a hk1
  obtain ⟨hltb, hpb⟩ := findIdx?_getElem _ _ b hk2
  have hin1 : e.1 ∈ m.nodeIds := by
    have : m.nodeIds[a] = e.1 := by simpa using hpa
    rw [← this]; exact List.getElem_mem hlta
  have hin2 : e.2 ∈ m.nodeIds := by
    have : m.nodeIds[b] = e.2 := by simpa using hpb
    rw [← this]; exact List.getElem_mem hltb
  have ha : posOf m.nodeIds e.1 = a := by simp [posOf, hk1]
  have hb : posOf m.nodeIds e.2 = b := by simp [posOf, hk2]
  simp only [findIdx?_map']
  apply findIdx?_congr
  intro x hx
  have hend := h.endpoints x hx
  have e1 : (posOf m.nodeIds x.1 = a ↔ x.1 = e.1) := by
    rw [← ha]; exact ⟨posOf_inj _ _ _ hend.1 hin1, fun h => by rw [h]⟩
  have e2 : (posOf m.nodeIds x.2 = b ↔ x.2 = e.2) := by
    rw [← hb]; exact ⟨posOf_inj _ _ _ hend.2 hin2, fun h => by rw [h]⟩
  have e3 : (posOf m.nodeIds x.1 = b ↔ x.1 = e.2) := by
    rw [← hb]; exact ⟨posOf_inj _ _ _ hend.1 hin2, fun h => by rw [h]⟩
  have e4 : (posOf m.nodeIds x.2 = a ↔ x.2 = e.1) := by
    rw [← ha]; exact ⟨posOf_inj _ _ _ hend.2 hin1, fun h => by rw [h]⟩
  obtain ⟨x1, x2⟩ := x
  obtain ⟨e1', e2'⟩ := e
  simp only [sameEdge, Prod.mk.injEq] at *
  simp only [e1, e2, e3, e4]

/-- an edge with an endpoint outside the node list is no edge of a valid geff -/
theorem no_edge_outside (m : MemGeff) (h : MemValid m) (e : Int × Int)
    (hout : e.1 ∉ m.nodeIds ∨ e.2 ∉ m.nodeIds) :
    m.edgeIds.findIdx? (fun x => sameEdge m.directed x e) = none := by
  rw [findIdx?_none_iff]
  intro x hx
  have hend := h.endpoints x hx
  cases hs : sameEdge m.directed x e with
  | false => rfl
  | true =>
    exfalso
    simp only [sameEdge, Bool.or_eq_true, decide_eq_true_eq, Bool.and_eq_true, Bool.not_eq_true'] at hs
    rcases hs with hs | ⟨_, hs⟩
    · subst hs; rcases hout with ho | ho
      · exact ho hend.1
      · exact ho hend.2
    · rw [hs] at hend; rcases hout with ho | ho
      · exact ho hend.2
      · exact ho hend.1

theorem rxConstruct_spec (m : MemGeff) (h : MemValid m) :
    ∃ g, rxConstruct m = .ok g ∧ g.directed = m.directed ∧
      (∀ i, g.hasNode i = decide (i ∈ m.nodeIds)) ∧
      (∀ e, g.hasEdge e = m.edgeIds.any (fun x => sameEdge m.directed x e)) ∧
      (∀ i name, g.nodeAttr i name = specNodeAttr m i name) ∧
      (∀ e name, g.edgeAttr e name = specEdgeAttr m e name) := by
  obtain ⟨ds, hds, hdl, hlook⟩ := fillDicts_spec m.nodeIds.length m.nodeProps h.nodeNames h.nodeCols
  obtain ⟨es, hes, hel, helook⟩ := fillDicts_spec m.edgeIds.length m.edgeProps h.edgeNames h.edgeCols
  obtain ⟨toRx, htoRx⟩ : ∃ t, t = dictOfZip m.nodeIds (List.range m.nodeIds.length) := ⟨_, rfl⟩
  have hlk : ∀ i, toRx.lookup i = m.nodeIds.findIdx? (fun x => x = i) := by
    rw [htoRx]; exact toRx_lookup m.nodeIds h.nodup
  -- the index pairs of the edges
  obtain ⟨idx, hidxdef⟩ : ∃ t, t = m.edgeIds.map (fun e => (posOf m.nodeIds e.1, posOf m.nodeIds e.2)) := ⟨_, rfl⟩
  have hidx : mapE (rxEdgeIdx toRx) m.edgeIds = .ok idx := by
    rw [hidxdef]
    apply mapE_ok_map
    intro e he
    have hend := h.endpoints e he
    simp only [rxEdgeIdx, hlk, (posOf_spec _ _ hend.1).1, (posOf_spec _ _ hend.2).1]
  have hedges : rxEdges toRx m.edgeIds m.edgeProps = .ok (if m.edgeIds.isEmpty then [] else idx.zip es) := by
    unfold rxEdges
    by_cases hemp : m.edgeIds.isEmpty = true
    · simp [hemp]
    · simp only [hemp, Bool.false_eq_true, if_false, hidx, hes]
  have hnotin : ∀ i, m.nodeIds.findIdx? (fun x => decide (x = i)) = none → i ∉ m.nodeIds := by
    intro i hk hin
    have := (findIdx?_none_iff _ _).1 hk i hin
    simp at this
  refine ⟨{ directed := m.directed, slots := ds.map some,
            edges := if m.edgeIds.isEmpty then [] else idx.zip es, idMap := some toRx },
          by unfold rxConstruct; simp only [hds]; rw [← htoRx, hedges], rfl, ?_, ?_, ?_, ?_⟩
  · intro i
    simp only [RxGraph.hasNode, RxGraph.rxId, hlk]
    cases hk : m.nodeIds.findIdx? (fun x => decide (x = i)) with
    | none => simp [hnotin i hk]
    | some k =>
      obtain ⟨hlt, hp⟩ := findIdx?_getElem _ _ k hk
      have hin : i ∈ m.nodeIds := by
        have : m.nodeIds[k] = i := by simpa using hp
        rw [← this]; exact List.getElem_mem hlt
      have : k < ds.length := by omega
      simp [hin, this]
  · intro e
    simp only [RxGraph.hasEdge, RxGraph.rxId, hlk]
    rw [any_eq_isSome_findIdx? (fun x => sameEdge m.directed x e)]
    cases hk1 : m.nodeIds.findIdx? (fun x => decide (x = e.1)) with
    | none => rw [no_edge_outside m h e (Or.inl (hnotin _ hk1))]; rfl
    | some a =>
      cases hk2 : m.nodeIds.findIdx? (fun x => decide (x = e.2)) with
      | none => rw [no_edge_outside m h e (Or.inr (hnotin _ hk2))]; rfl
      | some b =>
        simp only []
        by_cases hemp : m.edgeIds.isEmpty = true
        · have : m.edgeIds = [] := by simpa using hemp
          simp [this]
        · simp only [hemp, Bool.false_eq_true, if_false]
          rw [any_zip_fst (fun x => decide (x = (a, b)) || (!m.directed && decide (x = (b, a)))) idx es
            (by simp [hidxdef, hel]), any_eq_isSome_findIdx?, hidxdef, rx_edge_pred m h e a b hk1 hk2]
  · intro i name
    simp only [RxGraph.nodeAttr, RxGraph.rxId, hlk, specNodeAttr]
    cases hk : m.nodeIds.findIdx? (fun x => decide (x = i)) with
    | none => rfl
    | some k =>
      have hlt := findIdx?_lt _ _ k hk
      have hk' : k < ds.length := by omega
      have := hlook k hlt name
      simp only [look, List.getElem?_eq_getElem hk'] at this
      simp [hk', this]
  · intro e name
    simp only [RxGraph.edgeAttr, RxGraph.rxId, hlk, specEdgeAttr]
    cases hk1 : m.nodeIds.findIdx? (fun x => decide (x = e.1)) with
    | none => rw [no_edge_outside m h e (Or.inl (hnotin _ hk1))]
    | some a =>
      cases hk2 : m.nodeIds.findIdx? (fun x => decide (x = e.2)) with
      | none => rw [no_edge_outside m h e (Or.inr (hnotin _ hk2))]
      | some b =>
        simp only []
        by_cases hemp : m.edgeIds.isEmpty = true
        · have : m.edgeIds = [] := by simpa using hemp
          simp [this, attrOf?]
        · simp only [hemp, Bool.false_eq_true, if_false]
          have hz := attr_of_zip (fun x => decide (x = (a, b)) || (!m.directed && decide (x = (b, a)))) idx es
            (by simp [hidxdef, hel]) name
          rw [hz, hidxdef, rx_edge_pred m h e a b hk1 hk2]
          cases hk : m.edgeIds.findIdx? (fun x => sameEdge m.directed x e) with
          | none => rfl
          | some k => exact helook k (findIdx?_lt _ _ k hk) name

theorem mem_dedup' {α : Type} [DecidableEq α] (l : List α) (x : α) : x ∈ dedup l ↔ x ∈ l := by
  induction l with
  | nil => simp [dedup]
  | cons a t ih =>
    simp only [dedup, List.mem_cons, List.mem_filter, ih, ne_eq, decide_not, Bool.not_eq_eq_eq_not,
      Bool.not_true, decide_eq_false_iff_not]
    constructor
    · rintro (h | ⟨h, _⟩)
      · exact Or.inl h
      · exact Or.inr h
    · intro h
      by_cases hx : x = a
      · exact Or.inl hx
      · rcases h with h | h
        · exact absurd h hx
        · exact Or.inr ⟨h, hx⟩

theorem nodup_dedup {α : Type} [DecidableEq α] (l : List α) : (dedup l).Nodup := by
  induction l with
  | nil => simp [dedup]
  | cons a t ih =>
    simp only [dedup, List.nodup_cons, List.mem_filter, ne_eq, decide_not, Bool.not_eq_eq_eq_not, Bool.not_true,
      decide_eq_false_iff_not, not_and]
    exact ⟨fun _ h => h trivial, ih.filter _⟩

theorem attrOf_find {κ : Type} (p : κ → Bool) (l : List (κ × Attrs)) (name : String) :
    attrOf? (l.find? (fun x => p x.1)) name =
      match (l.map (·.1)).findIdx? p with
      | none => none
      | some k => match l[k]? with
        | none => none
        | some q => q.2.lookup name := by
  induction l with
  | nil => rfl
  | cons a t ih =>
    simp only [List.find?_cons, List.map_cons, List.findIdx?_cons]
    cases hp : p a.1 with
    | true => simp [attrOf?]
    | false =>
      simp only [Bool.false_eq_true, if_false]
      rw [ih]
      cases (t.map (·.1)).findIdx? p <;> simp

theorem nodeIdArr_ok (ids : List Int) (h : ∀ i ∈ ids, 0 ≤ i ∧ i < two64) : nodeIdArr ids = .ok ids := by
  unfold nodeIdArr
  have h1 : ids.any (· < 0) = false := by
    simp only [List.any_eq_false, decide_eq_true_eq]
    intro i hi; have := (h i hi).1; omega
  have h2 : ids.all (· < two64) = true := by
    simp only [List.all_eq_true, decide_eq_true_eq]
    intro i hi; exact (h i hi).2
  simp [h1, h2]

theorem edgeIdArr_ok (es : List (Int × Int)) (h : ∀ e ∈ es, (0 ≤ e.1 ∧ e.1 < two64) ∧ (0 ≤ e.2 ∧ e.2 < two64)) :
    edgeIdArr es = .ok es := by
  unfold edgeIdArr
  have : es.all (fun e => 0 ≤ e.1 ∧ e.1 < two64 ∧ 0 ≤ e.2 ∧ e.2 < two64) = true := by
    simp only [List.all_eq_true, decide_eq_true_eq]
    intro e he; have := h e he; exact ⟨this.1.1, this.1.2, this.2.1, this.2.2⟩
  rw [if_pos this]

theorem propNames_cover {κ : Type} (data : List (κ × Attrs)) :
    ∀ d ∈ data, ∀ n v, d.2.lookup n = some v → n ∈ propNames data := by
  intro d hd n v hl
  unfold propNames
  rw [mem_dedup']
  apply List.mem_flatMap.2
  exact ⟨d, hd, List.mem_map.2 ⟨(n, v), lookup_mem d.2 n v hl, rfl⟩⟩

/-- documented domain of an attribute graph held by networkx: ids are integers in `[0, 2^64)`,
no edge twice (a networkx graph is simple; in either orientation when undirected), and every
property is in `PropDomain` on the elements that have it: *regular* (all scalars, or all lists of
one shape, leaves of one class bool | integers fitting int64 | integers fitting uint64 | float | str)
or *ragged* (lists of one rank and one class) -/
structure NxDomain (G : NxGraph) : Prop where
  nodup : (G.nodes.map (·.1)).Nodup
  idRange : ∀ i ∈ G.nodes.map (·.1), 0 ≤ i ∧ i < two64
  endpoints : ∀ e ∈ G.edges.map (·.1), e.1 ∈ G.nodes.map (·.1) ∧ e.2 ∈ G.nodes.map (·.1)
  simple : (G.edges.map (·.1)).Pairwise (fun a b => sameEdge G.directed a b = false)
  nodeProps : ∀ name, PropDomain (present G.nodes name)
  edgeProps : ∀ name, PropDomain (present G.edges name)

/-- `NxBackend.write` on the documented domain: it succeeds, the in-memory geff is valid and denotes `G` -/
theorem nxWrite_spec (G : NxGraph) (h : NxDomain G) :
    ∃ m, nxWrite G = .ok m ∧ MemValid m ∧ m.directed = G.directed ∧
      (∀ i name, specNodeAttr m i name = G.nodeAttr i name) ∧
      (∀ e name, specEdgeAttr m e name = G.edgeAttr e name) ∧
      m.nodeIds = G.nodes.map (·.1) ∧ m.edgeIds = G.edges.map (·.1) := by
  obtain ⟨np, hnp, hnn, hnwf, hnattr⟩ := dictPropsToArr_spec G.nodes (propNames G.nodes)
    (fun n _ => h.nodeProps n) (propNames_cover G.nodes)
  obtain ⟨ep, hep, hen, hewf, heattr⟩ := dictPropsToArr_spec G.edges (propNames G.edges)
    (fun n _ => h.edgeProps n) (propNames_cover G.edges)
  have hids := nodeIdArr_ok (G.nodes.map (·.1)) h.idRange
  have heds := edgeIdArr_ok (G.edges.map (·.1)) (fun e he =>
    ⟨h.idRange _ (h.endpoints e he).1, h.idRange _ (h.endpoints e he).2⟩)
  refine ⟨{ directed := G.directed, nodeIds := G.nodes.map (·.1), edgeIds := G.edges.map (·.1),
            nodeProps := np, edgeProps := ep }, ?_, ?_, rfl, ?_, ?_, rfl, rfl⟩
  · simp only [nxWrite, writeDicts, hids, heds, hnp, hep, bind, Except.bind, pure, Except.pure]
  · exact { nodup := h.nodup, endpoints := h.endpoints, simple := h.simple,
            nodeNames := by rw [hnn]; exact nodup_dedup _,
            edgeNames := by rw [hen]; exact nodup_dedup _,
            nodeCols := by simpa using hnwf, edgeCols := by simpa using hewf }
  · intro i name
    simp only [specNodeAttr, NxGraph.nodeAttr]
    rw [attrOf_find (fun x => decide (x = i)) G.nodes name]
    cases hk : (G.nodes.map (·.1)).findIdx? (fun x => decide (x = i)) with
    | none => rfl
    | some k =>
      have hlt : k < G.nodes.length := by simpa using findIdx?_lt _ _ k hk
      simp only [List.getElem?_eq_getElem hlt]
      exact hnattr k hlt name
  · intro e name
    simp only [specEdgeAttr, NxGraph.edgeAttr]
    rw [attrOf_find (fun x => sameEdge G.directed x e) G.edges name]
    cases hk : (G.edges.map (·.1)).findIdx? (fun x => sameEdge G.directed x e) with
    | none => rfl
    | some k =>
      have hlt : k < G.edges.length := by simpa using findIdx?_lt _ _ k hk
      simp only [List.getElem?_eq_getElem hlt]
      exact heattr k hlt name


end Geff.Backends
