import GeffModel.TrackMateXml
/-! # C16 — lemmas about the XML layer: the cursor functions on `events t` compute tree-level values -/
namespace Geff.TrackMate.Xml
open Geff.TrackMate

/-- the elements of the start (resp. end) events of a stream, in order -/
def starts (evs : List Ev) : List Tree := (evs.filter (fun e => !e.isEnd)).map (·.el)
def ends (evs : List Ev) : List Tree := (evs.filter (fun e => e.isEnd)).map (·.el)

theorem starts_append (a b : List Ev) : starts (a ++ b) = starts a ++ starts b := by simp [starts]
theorem ends_append (a b : List Ev) : ends (a ++ b) = ends a ++ ends b := by simp [ends]
theorem starts_cons_start (p : List Nat) (t : Tree) (l : List Ev) : starts (⟨false, p, t⟩ :: l) = t :: starts l := by simp [starts]
theorem starts_cons_end (p : List Nat) (t : Tree) (l : List Ev) : starts (⟨true, p, t⟩ :: l) = starts l := by simp [starts]
theorem ends_cons_start (p : List Nat) (t : Tree) (l : List Ev) : ends (⟨false, p, t⟩ :: l) = ends l := by simp [ends]
theorem ends_cons_end (p : List Nat) (t : Tree) (l : List Ev) : ends (⟨true, p, t⟩ :: l) = t :: ends l := by simp [ends]

mutual
theorem starts_eventsAt (p : List Nat) : (t : Tree) → starts (eventsAt p t) = pre t
  | .node tag a tx kids => by
    rw [eventsAt, pre, starts_cons_start, starts_append, starts_eventsKids p 0 kids]; simp [starts]
theorem starts_eventsKids (p : List Nat) (i : Nat) : (ts : List Tree) → starts (eventsKids p i ts) = preKids ts
  | [] => by simp [eventsKids, preKids, starts]
  | t :: ts => by simp [eventsKids, preKids, starts_append, starts_eventsAt (p ++ [i]) t, starts_eventsKids p (i + 1) ts]
end

mutual
theorem ends_eventsAt (p : List Nat) : (t : Tree) → ends (eventsAt p t) = post t
  | .node tag a tx kids => by
    rw [eventsAt, post, ends_cons_start, ends_append, ends_eventsKids p 0 kids]; simp [ends]
theorem ends_eventsKids (p : List Nat) (i : Nat) : (ts : List Tree) → ends (eventsKids p i ts) = postKids ts
  | [] => by simp [eventsKids, postKids, ends]
  | t :: ts => by simp [eventsKids, postKids, ends_append, ends_eventsAt (p ++ [i]) t, ends_eventsKids p (i + 1) ts]
end

mutual
theorem path_eventsAt (p : List Nat) : (t : Tree) → ∀ e ∈ eventsAt p t, ∃ r, e.path = p ++ r
  | .node tag a tx kids => by
    intro e he
    simp only [eventsAt, List.mem_cons, List.mem_append, List.mem_singleton] at he
    rcases he with h | h | h
    · exact ⟨[], by simp [h]⟩
    · obtain ⟨j, r, hr⟩ := path_eventsKids p 0 kids e h
      exact ⟨j :: r, hr⟩
    · rcases h with h | h
      · exact ⟨[], by simp [h]⟩
      · cases h
theorem path_eventsKids (p : List Nat) (i : Nat) : (ts : List Tree) → ∀ e ∈ eventsKids p i ts, ∃ j r, e.path = p ++ j :: r
  | [] => by intro e he; simp [eventsKids] at he
  | t :: ts => by
    intro e he
    simp only [eventsKids, List.mem_append] at he
    rcases he with h | h
    · obtain ⟨r, hr⟩ := path_eventsAt (p ++ [i]) t e h
      exact ⟨i, r, by simp [hr]⟩
    · exact path_eventsKids p (i + 1) ts e h
end

/-- no event strictly inside an element is the end of that element -/
theorem isEndOf_kids (p : List Nat) (i : Nat) (ts : List Tree) : ∀ e ∈ eventsKids p i ts, isEndOf p e = false := by
  intro e he
  obtain ⟨j, r, hr⟩ := path_eventsKids p i ts e he
  simp [isEndOf, hr]

/-- the events of a non-empty list of children begin with the start of the first child -/
theorem eventsKids_cons (p : List Nat) (i : Nat) (c : Tree) (cs : List Tree) :
    ∃ tl, eventsKids p i (c :: cs) = ⟨false, p ++ [i], c⟩ :: tl := by
  cases c with
  | node tag a tx kids => exact ⟨_, by simp [eventsKids, eventsAt]; rfl⟩

theorem scanUntil_section {σ : Type} (anc : List Nat) (step : σ → Ev → Outcome σ) (inner : List Ev) (endE : Ev)
    (rest : List Ev) (hin : ∀ e ∈ inner, isEndOf anc e = false) (hend : isEndOf anc endE = true) (s : σ) :
    scanUntil anc step s (inner ++ endE :: rest) =
      match foldO step s inner with
      | .exc x => .exc x
      | .ok s' => .ok (s', rest) := by
  induction inner generalizing s with
  | nil => simp [scanUntil, hend, foldO]
  | cons e es ih =>
    have he := hin e (by simp)
    simp only [List.cons_append, scanUntil, he, foldO]
    cases hs : step s e with
    | exc x => simp
    | ok s' => simpa using ih (fun e' h => hin e' (by simp [h])) s'

theorem scanThrough_section {σ : Type} (anc : List Nat) (step : σ → Ev → Outcome σ) (inner : List Ev) (endE : Ev)
    (rest : List Ev) (hin : ∀ e ∈ inner, isEndOf anc e = false) (hend : isEndOf anc endE = true) (s : σ) :
    scanThrough anc step s (inner ++ endE :: rest) =
      match foldO step s (inner ++ [endE]) with
      | .exc x => .exc x
      | .ok s' => .ok (s', rest) := by
  induction inner generalizing s with
  | nil =>
    simp only [List.nil_append, scanThrough, foldO]
    cases hs : step s endE with
    | exc x => simp
    | ok s' => simp [hend]
  | cons e es ih =>
    have he := hin e (by simp)
    simp only [List.cons_append, scanThrough, foldO]
    cases hs : step s e with
    | exc x => simp
    | ok s' => simpa [he] using ih (fun e' h => hin e' (by simp [h])) s'

theorem foldO_starts {σ : Type} (step : σ → Ev → Outcome σ) (f : σ → Tree → Outcome σ)
    (h : ∀ s e, step s e = if e.isEnd then .ok s else f s e.el) (evs : List Ev) (s : σ) :
    foldO step s evs = foldO f s (starts evs) := by
  induction evs generalizing s with
  | nil => simp [foldO, starts]
  | cons e es ih =>
    obtain ⟨b, p, t⟩ := e
    cases b with
    | true => simp [foldO, h, starts_cons_end, ih]
    | false =>
      simp only [foldO, h, starts_cons_start]
      cases f s t with
      | exc x => simp
      | ok s' => simpa using ih s'

theorem foldO_ends {σ : Type} (step : σ → Ev → Outcome σ) (f : σ → Tree → Outcome σ)
    (h : ∀ s e, step s e = if e.isEnd then f s e.el else .ok s) (evs : List Ev) (s : σ) :
    foldO step s evs = foldO f s (ends evs) := by
  induction evs generalizing s with
  | nil => simp [foldO, ends]
  | cons e es ih =>
    obtain ⟨b, p, t⟩ := e
    cases b with
    | false => simp [foldO, h, ends_cons_start, ih]
    | true =>
      simp only [foldO, h, ends_cons_end]
      cases f s t with
      | exc x => simp
      | ok s' => simpa using ih s'

theorem isEndOf_end (p : List Nat) (t : Tree) : isEndOf p ⟨true, p, t⟩ = true := by simp [isEndOf]

/-! ### the four cursor functions on the events of a section -/

theorem getAttributesMetadata_section (p : List Nat) (t : Tree) (rest : List Ev) :
    getAttributesMetadata p (eventsKids p 0 t.kids ++ ⟨true, p, t⟩ :: rest) =
      match featuresOfKids t.kids with
      | .exc x => .exc x
      | .ok fs => .ok (fs, rest) := by
  cases hk : t.kids with
  | nil => simp [eventsKids, getAttributesMetadata, isEndOf_end, featuresOfKids, preKids, foldO]
  | cons c cs =>
    obtain ⟨tl, htl⟩ := eventsKids_cons p 0 c cs
    have hin : ∀ e ∈ tl, isEndOf p e = false := fun e he => isEndOf_kids p 0 (c :: cs) e (by rw [htl]; simp [he])
    have hs : starts tl = (preKids (c :: cs)).drop 1 := by
      rw [← starts_eventsKids p 0 (c :: cs), htl, starts_cons_start]; rfl
    rw [htl]
    simp only [List.cons_append, getAttributesMetadata, isEndOf, Bool.false_and, Bool.false_eq_true, ↓reduceIte]
    rw [scanUntil_section p featStep tl _ rest hin (isEndOf_end p t),
      foldO_starts featStep featStepT (fun _ _ => rfl), hs]
    simp only [featuresOfKids]
    cases foldO featStepT [] (List.drop 1 (preKids (c :: cs))) <;> rfl

theorem addAllNodes_section (lex : String → Txt) (md : List Feat) (p : List Nat) (t : Tree) (g : Graph) (rest : List Ev) :
    addAllNodes lex md p g (eventsKids p 0 t.kids ++ ⟨true, p, t⟩ :: rest) =
      match spotsOfSection lex md g t with
      | .exc x => .exc x
      | .ok r => .ok (r, rest) := by
  cases t with
  | node tag a tx kids =>
    cases kids with
    | nil => simp [Tree.kids, eventsKids, addAllNodes, isEndOf_end, spotsOfSection]
    | cons c cs =>
      obtain ⟨tl, htl⟩ := eventsKids_cons p 0 c cs
      have hin : ∀ e ∈ tl, isEndOf p e = false := fun e he => isEndOf_kids p 0 (c :: cs) e (by rw [htl]; simp [he])
      have hs : ends (tl ++ [⟨true, p, .node tag a tx (c :: cs)⟩]) = post (.node tag a tx (c :: cs)) := by
        rw [post, ← ends_eventsKids p 0 (c :: cs), htl, ends_cons_start, ends_append]; simp [ends]
      simp only [Tree.kids]
      rw [htl]
      simp only [List.cons_append, addAllNodes, isEndOf, Bool.false_and, Bool.false_eq_true, ↓reduceIte]
      rw [scanThrough_section p (spotStep lex md) tl _ rest hin (isEndOf_end p _),
        foldO_ends (spotStep lex md) (spotStepT lex md) (fun _ _ => rfl), hs]
      simp only [spotsOfSection, Tree.kids]
      cases foldO (spotStepT lex md) (g, false) (post (Tree.node tag a tx (c :: cs))) <;> rfl

theorem buildTracksEv_section (lex : String → Txt) (md : List Feat) (p : List Nat) (t : Tree) (g : Graph) (rest : List Ev) :
    buildTracksEv lex md p g (eventsKids p 0 t.kids ++ ⟨true, p, t⟩ :: rest) =
      match tracksOfKids lex md g t.kids with
      | .exc x => .exc x
      | .ok g' => .ok (g', rest) := by
  unfold buildTracksEv tracksOfKids
  rw [scanUntil_section p (trackStep lex md) _ _ rest (isEndOf_kids p 0 t.kids) (isEndOf_end p t),
    foldO_starts (trackStep lex md) (trackStepT lex md) (fun _ _ => rfl), starts_eventsKids]
  cases foldO (trackStepT lex md) (none, g) (preKids t.kids) <;> rfl

theorem getFilteredTracksID_section (lex : String → Txt) (p : List Nat) (t : Tree) (rest : List Ev) :
    getFilteredTracksID lex p (eventsKids p 0 t.kids ++ ⟨true, p, t⟩ :: rest) =
      match filteredOfSection lex t with
      | .exc x => .exc x
      | .ok l => .ok (l, rest) := by
  cases hk : t.kids with
  | nil =>
    simp only [eventsKids, List.nil_append, getFilteredTracksID, filteredOfSection, hk, preKids, Ev.attrs]
    cases ftAppend lex [] t.attrs <;> simp [isEndOf_end]
  | cons c cs =>
    obtain ⟨tl, htl⟩ := eventsKids_cons p 0 c cs
    have hin : ∀ e ∈ tl, isEndOf p e = false := fun e he => isEndOf_kids p 0 (c :: cs) e (by rw [htl]; simp [he])
    have hpre : preKids (c :: cs) = c :: starts tl := by
      rw [← starts_eventsKids p 0 (c :: cs), htl, starts_cons_start]
    have hs : starts (tl ++ [⟨true, p, t⟩]) = starts tl := by simp [starts_append, starts]
    rw [htl]
    simp only [List.cons_append, getFilteredTracksID, filteredOfSection, hk, hpre, Ev.attrs]
    cases ftAppend lex [] c.attrs with
    | exc x => rfl
    | ok acc =>
      simp only [isEndOf, Bool.false_and, Bool.false_eq_true, ↓reduceIte]
      rw [scanThrough_section p (ftStep lex) tl _ rest hin (isEndOf_end p t),
        foldO_starts (ftStep lex) (ftStepT lex) (fun _ _ => rfl), hs]
      cases foldO (ftStepT lex) acc (starts tl) <;> rfl

/-! ### the dispatching loop of `_build_data` is the walk over the tree -/

/-- what the loop does after the events of a subtree: go on with `rest` unless it has broken -/
def cont (lex : String → Txt) (ds dt : Bool) (r : Outcome (BD × Bool)) (rest : List Ev) : Outcome BD :=
  match r with
  | .exc x => .exc x
  | .ok (st, true) => .ok st
  | .ok (st, false) => bdLoop lex ds dt rest st

theorem len_le (inner : List Ev) (e : Ev) (rest : List Ev) : rest.length ≤ (inner ++ e :: rest).length := by
  simp; omega

theorem bdLoop_exc (lex : String → Txt) (ds dt : Bool) (e : Ev) (rest : List Ev) (st : BD) (x : String)
    (h : bdStep lex ds dt e rest st = .exc x) : bdLoop lex ds dt (e :: rest) st = .exc x := by
  rw [bdLoop, h]

theorem bdLoop_brk (lex : String → Txt) (ds dt : Bool) (e : Ev) (rest : List Ev) (st st' : BD) (rest' : List Ev)
    (h : bdStep lex ds dt e rest st = .ok (st', rest', true)) : bdLoop lex ds dt (e :: rest) st = .ok st' := by
  rw [bdLoop, h]; simp

theorem bdLoop_go (lex : String → Txt) (ds dt : Bool) (e : Ev) (rest : List Ev) (st st' : BD) (rest' : List Ev)
    (h : bdStep lex ds dt e rest st = .ok (st', rest', false)) (hle : rest'.length ≤ rest.length) :
    bdLoop lex ds dt (e :: rest) st = bdLoop lex ds dt rest' st' := by
  rw [bdLoop, h]; simp [hle]

theorem bdLoop_nil (lex : String → Txt) (ds dt : Bool) (st : BD) : bdLoop lex ds dt [] st = .ok st := by
  rw [bdLoop]

theorem kindOf_tag (tag : String) (a : List (String × String)) (tx : Option String) (kids : List Tree) (b : Bool) (p : List Nat) :
    kindOf (Ev.tag ⟨b, p, .node tag a tx kids⟩) = kindOf tag := rfl

mutual
theorem bdLoop_walk (lex : String → Txt) (ds dt : Bool) (p : List Nat) :
    (t : Tree) → ∀ (rest : List Ev) (st : BD),
      bdLoop lex ds dt (eventsAt p t ++ rest) st = cont lex ds dt (walk lex ds dt t st) rest
  | .node tag a tx kids => by
    intro rest st
    have hev : eventsAt p (.node tag a tx kids) ++ rest =
        ⟨false, p, .node tag a tx kids⟩ :: (eventsKids p 0 kids ++ ⟨true, p, .node tag a tx kids⟩ :: rest) := by
      simp [eventsAt]
    rw [hev]
    cases hk : kindOf tag with
    | featureDecls =>
      have h := getAttributesMetadata_section p (.node tag a tx kids) rest
      simp only [Tree.kids] at h
      cases hf : featuresOfKids kids with
      | exc x =>
        rw [bdLoop_exc _ _ _ _ _ _ x (by simp [bdStep, kindOf_tag, hk, h, hf])]
        simp [walk, hk, hf, cont]
      | ok md =>
        rw [bdLoop_go _ _ _ _ _ _ { st with md := md } rest (by simp [bdStep, kindOf_tag, hk, h, hf]) (len_le _ _ _)]
        simp [walk, hk, hf, cont]
    | allSpots =>
      have h := addAllNodes_section lex st.md p (.node tag a tx kids) st.g rest
      simp only [Tree.kids] at h
      cases hf : spotsOfSection lex st.md st.g (.node tag a tx kids) with
      | exc x =>
        rw [bdLoop_exc _ _ _ _ _ _ x (by simp [bdStep, kindOf_tag, hk, h, hf])]
        simp [walk, hk, hf, cont]
      | ok r =>
        obtain ⟨g, seg⟩ := r
        rw [bdLoop_go _ _ _ _ _ _ { st with g := g, seg := seg } rest (by simp [bdStep, kindOf_tag, hk, h, hf]) (len_le _ _ _)]
        simp [walk, hk, hf, cont]
    | allTracks =>
      have h := buildTracksEv_section lex st.md p (.node tag a tx kids) st.g rest
      simp only [Tree.kids] at h
      cases hf : tracksOfKids lex st.md st.g kids with
      | exc x =>
        rw [bdLoop_exc _ _ _ _ _ _ x (by simp [bdStep, kindOf_tag, hk, h, hf])]
        simp [walk, hk, hf, cont]
      | ok g =>
        rw [bdLoop_go _ _ _ _ _ _ { st with g := dropLone ds g } rest (by simp [bdStep, kindOf_tag, hk, h, hf]) (len_le _ _ _)]
        simp [walk, hk, hf, cont]
    | filteredTracks =>
      have h := getFilteredTracksID_section lex p (.node tag a tx kids) rest
      simp only [Tree.kids] at h
      cases hf : filteredOfSection lex (.node tag a tx kids) with
      | exc x =>
        rw [bdLoop_exc _ _ _ _ _ _ x (by simp [bdStep, kindOf_tag, hk, h, hf])]
        simp [walk, hk, hf, cont]
      | ok keep =>
        rw [bdLoop_go _ _ _ _ _ _ { st with g := dropUnlisted dt keep st.g } rest (by simp [bdStep, kindOf_tag, hk, h, hf]) (len_le _ _ _)]
        simp [walk, hk, hf, cont]
    | model =>
      rw [bdLoop_go _ _ _ _ _ _ { st with units := getUnits a } _ (by simp [bdStep, kindOf_tag, hk, Ev.attrs, Tree.attrs]) (Nat.le_refl _),
        bdLoop_walkKids lex ds dt p 0 kids]
      cases hw : walkKids lex ds dt kids { st with units := getUnits a } with
      | exc x => simp [walk, hk, hw, cont]
      | ok r =>
        obtain ⟨st2, b⟩ := r
        cases b with
        | true => simp [walk, hk, hw, cont]
        | false =>
          simp only [cont, walk, hk, hw]
          rw [bdLoop_brk _ _ _ _ _ _ st2 rest (by simp [bdStep, kindOf_tag, hk])]
    | other =>
      rw [bdLoop_go _ _ _ _ _ _ st _ (by simp [bdStep, kindOf_tag, hk]) (Nat.le_refl _),
        bdLoop_walkKids lex ds dt p 0 kids]
      cases hw : walkKids lex ds dt kids st with
      | exc x => simp [walk, hk, hw, cont]
      | ok r =>
        obtain ⟨st2, b⟩ := r
        cases b with
        | true => simp [walk, hk, hw, cont]
        | false =>
          simp only [cont, walk, hk, hw]
          rw [bdLoop_go _ _ _ _ _ _ st2 rest (by simp [bdStep, kindOf_tag, hk]) (Nat.le_refl _)]
theorem bdLoop_walkKids (lex : String → Txt) (ds dt : Bool) (p : List Nat) (i : Nat) :
    (ts : List Tree) → ∀ (rest : List Ev) (st : BD),
      bdLoop lex ds dt (eventsKids p i ts ++ rest) st = cont lex ds dt (walkKids lex ds dt ts st) rest
  | [] => by intro rest st; simp [eventsKids, walkKids, cont]
  | t :: ts => by
    intro rest st
    rw [eventsKids, List.append_assoc, bdLoop_walk lex ds dt (p ++ [i]) t]
    cases hw : walk lex ds dt t st with
    | exc x => simp [walkKids, hw, cont]
    | ok r =>
      obtain ⟨st2, b⟩ := r
      cases b with
      | true => simp [walkKids, hw, cont]
      | false =>
        simp only [cont, walkKids, hw]
        exact bdLoop_walkKids lex ds dt p (i + 1) ts rest st2
end

/-- **`_build_data` on the event stream of a tree is the walk over the tree** -/
theorem buildDataEv_events (lex : String → Txt) (ds dt : Bool) (t : Tree) :
    buildDataEv lex ds dt (events t) = buildDataTree lex ds dt t := by
  cases t with
  | node tag a tx kids =>
    have hev : events (.node tag a tx kids) =
        ⟨false, [], .node tag a tx kids⟩ :: (eventsKids [] 0 kids ++ [⟨true, [], .node tag a tx kids⟩]) := by
      simp [events, eventsAt]
    rw [hev]
    simp only [buildDataEv, buildDataTree, Tree.kids]
    rw [bdLoop_walkKids lex ds dt [] 0 kids]
    cases hw : walkKids lex ds dt kids {} with
    | exc x => simp [cont]
    | ok r =>
      obtain ⟨st2, b⟩ := r
      cases b with
      | true => simp [cont]
      | false =>
        simp only [cont]
        cases hk : kindOf tag with
        | model => rw [bdLoop_brk _ _ _ _ _ _ st2 [] (by simp [bdStep, kindOf_tag, hk])]
        | featureDecls => rw [bdLoop_go _ _ _ _ _ _ st2 [] (by simp [bdStep, kindOf_tag, hk]) (Nat.le_refl _), bdLoop_nil]
        | allSpots => rw [bdLoop_go _ _ _ _ _ _ st2 [] (by simp [bdStep, kindOf_tag, hk]) (Nat.le_refl _), bdLoop_nil]
        | allTracks => rw [bdLoop_go _ _ _ _ _ _ st2 [] (by simp [bdStep, kindOf_tag, hk]) (Nat.le_refl _), bdLoop_nil]
        | filteredTracks => rw [bdLoop_go _ _ _ _ _ _ st2 [] (by simp [bdStep, kindOf_tag, hk]) (Nat.le_refl _), bdLoop_nil]
        | other => rw [bdLoop_go _ _ _ _ _ _ st2 [] (by simp [bdStep, kindOf_tag, hk]) (Nat.le_refl _), bdLoop_nil]

/-! ### frame: subtrees the converter ignores -/

mutual
theorem walk_ignored (lex : String → Txt) (ds dt : Bool) :
    (t : Tree) → (pre t).all (fun x => kindOf x.tag == .other) = true → ∀ st, walk lex ds dt t st = .ok (st, false)
  | .node tag a tx kids => by
    intro h st
    simp only [pre, List.all_cons, Bool.and_eq_true, beq_iff_eq, Tree.tag] at h
    simp [walk, h.1, walkKids_ignored lex ds dt kids h.2 st]
theorem walkKids_ignored (lex : String → Txt) (ds dt : Bool) :
    (ts : List Tree) → (preKids ts).all (fun x => kindOf x.tag == .other) = true → ∀ st, walkKids lex ds dt ts st = .ok (st, false)
  | [] => by intro _ st; simp [walkKids]
  | t :: ts => by
    intro h st
    simp only [preKids, List.all_append, Bool.and_eq_true] at h
    simp [walkKids, walk_ignored lex ds dt t h.1 st, walkKids_ignored lex ds dt ts h.2 st]
end

theorem walkKids_append (lex : String → Txt) (ds dt : Bool) (l1 l2 : List Tree) (st : BD) :
    walkKids lex ds dt (l1 ++ l2) st =
      match walkKids lex ds dt l1 st with
      | .exc x => .exc x
      | .ok (st', true) => .ok (st', true)
      | .ok (st', false) => walkKids lex ds dt l2 st' := by
  induction l1 generalizing st with
  | nil => simp [walkKids]
  | cons t ts ih =>
    simp only [List.cons_append, walkKids]
    cases hw : walk lex ds dt t st with
    | exc x => simp
    | ok r =>
      obtain ⟨st2, b⟩ := r
      cases b with
      | true => simp
      | false => simpa using ih st2

/-- a one-hole context -/
inductive Ctx where
  | hole
  | node (tag : String) (attrs : List (String × String)) (text : Option String) (before : List Tree) (c : Ctx) (after : List Tree)

def Ctx.fill : Ctx → Tree → Tree
  | .hole, u => u
  | .node tag a tx before c after, u => .node tag a tx (before ++ c.fill u :: after)

/-- the hole is not inside one of the four sections read by a cursor function -/
def Ctx.plain : Ctx → Bool
  | .hole => true
  | .node tag _ _ _ c _ => (kindOf tag == .model || kindOf tag == .other) && c.plain

theorem walk_frame (lex : String → Txt) (ds dt : Bool) (c : Ctx) (hc : c.plain = true) (u u' : Tree)
    (hu : ignoredB u = true) (hu' : ignoredB u' = true) :
    ∀ st, walk lex ds dt (c.fill u) st = walk lex ds dt (c.fill u') st := by
  induction c with
  | hole => intro st; simp [Ctx.fill, walk_ignored lex ds dt u hu, walk_ignored lex ds dt u' hu']
  | node tag a tx before c after ih =>
    intro st
    simp only [Ctx.plain, Bool.and_eq_true, Bool.or_eq_true, beq_iff_eq] at hc
    have ih := ih hc.2
    have key : ∀ st, walkKids lex ds dt (before ++ c.fill u :: after) st = walkKids lex ds dt (before ++ c.fill u' :: after) st := by
      intro st; rw [walkKids_append, walkKids_append]; simp [walkKids, ih]
    simp only [Ctx.fill]
    rcases hc.1 with hk | hk <;> simp [walk, hk, key]

theorem walkKids_frame (lex : String → Txt) (ds dt : Bool) (before after : List Tree) (c : Ctx) (hc : c.plain = true) (u u' : Tree)
    (hu : ignoredB u = true) (hu' : ignoredB u' = true) (st : BD) :
    walkKids lex ds dt (before ++ c.fill u :: after) st = walkKids lex ds dt (before ++ c.fill u' :: after) st := by
  rw [walkKids_append, walkKids_append]; simp [walkKids, walk_frame lex ds dt c hc u u' hu hu']

theorem walk_model_breaks (lex : String → Txt) (ds dt : Bool) (m : Tree) (hm : kindOf m.tag = .model) (st : BD) :
    (∃ x, walk lex ds dt m st = .exc x) ∨ (∃ st', walk lex ds dt m st = .ok (st', true)) := by
  cases m with
  | node tag a tx kids =>
    simp only [Tree.tag] at hm
    cases hw : walkKids lex ds dt kids { st with units := getUnits a } with
    | exc x => exact .inl ⟨x, by simp [walk, hm, hw]⟩
    | ok r => exact .inr ⟨r.1, by obtain ⟨s2, b⟩ := r; simp [walk, hm, hw]⟩

theorem walkKids_after_model (lex : String → Txt) (ds dt : Bool) (before : List Tree) (m : Tree) (hm : kindOf m.tag = .model)
    (after after' : List Tree) (st : BD) :
    walkKids lex ds dt (before ++ m :: after) st = walkKids lex ds dt (before ++ m :: after') st := by
  rw [walkKids_append, walkKids_append]
  cases hw : walkKids lex ds dt before st with
  | exc x => rfl
  | ok r =>
    obtain ⟨st2, b⟩ := r
    cases b with
    | true => rfl
    | false =>
      simp only [walkKids]
      rcases walk_model_breaks lex ds dt m hm st2 with ⟨x, hx⟩ | ⟨st', hx⟩ <;> simp [hx]

/-! ### `_get_trackmate_version`, `_get_specific_tags` -/

theorem getTrackmateVersion_eq (evs : List Ev) :
    getTrackmateVersion evs = match (evs.map (·.el)).find? (fun x => x.tag == "TrackMate") with
      | some x => versionOf x.attrs
      | none => "unknown" := by
  induction evs with
  | nil => simp [getTrackmateVersion]
  | cons e es ih =>
    simp only [getTrackmateVersion, List.map_cons, List.find?_cons, Ev.tag, Ev.attrs]
    by_cases h : (e.el.tag == "TrackMate") = true
    · simp [h]
    · simp only [Bool.not_eq_true] at h
      simp [h, ih]

theorem getTrackmateVersion_tree (t : Tree) : getTrackmateVersion (endEvents t) = versionOfTree t := by
  rw [getTrackmateVersion_eq]
  have : (endEvents t).map (·.el) = post t := by
    rw [← ends_eventsAt [] t]; rfl
  rw [this]; rfl

theorem getSpecificTags_starts (evs : List Ev) (names : List String) (acc : List (String × Tree)) :
    getSpecificTags names acc evs = specificTagsOf names acc (starts evs) := by
  induction evs generalizing names acc with
  | nil => simp [getSpecificTags, specificTagsOf, starts]
  | cons e es ih =>
    obtain ⟨b, p, t⟩ := e
    cases b with
    | true => simp [getSpecificTags, starts_cons_end, ih]
    | false =>
      simp only [getSpecificTags, starts_cons_start, specificTagsOf, Ev.tag, Bool.not_false, Bool.true_and]
      by_cases h1 : t.tag ∈ names
      · by_cases h2 : (names.erase t.tag).isEmpty = true
        · simp [h1, h2]
        · simp [h1, h2, ih]
      · simp [h1, ih]

theorem getSpecificTags_tree (t : Tree) (names : List String) :
    getSpecificTags names [] (events t) = specificTagsOf names [] (pre t) := by
  rw [getSpecificTags_starts, events, starts_eventsAt]

end Geff.TrackMate.Xml
