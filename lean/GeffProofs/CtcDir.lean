import GeffModel.CtcDir
import Mathlib.Data.List.Sort
/-! Helper lemmas for the directory layer of the CTC converter (`GeffModel/CtcDir.lean`):
the code-point order, insertion sort, and why zero-padded decimal names sort numerically. -/
namespace Geff.CtcDir

/-! ## `lexLe` is a total preorder, antisymmetric -/

theorem lexLe_refl : ∀ a : Name, lexLe a a = true
  | [] => rfl
  | x :: xs => by simp [lexLe, lexLe_refl xs]

theorem lexLe_total : ∀ a b : Name, lexLe a b = false → lexLe b a = true
  | [], _ => by simp [lexLe]
  | _ :: _, [] => by simp [lexLe]
  | x :: xs, y :: ys => by
    simp only [lexLe]
    intro h
    by_cases h1 : x < y
    · simp [h1] at h
    · by_cases h2 : y < x
      · simp [h2]
      · have : x = y := by omega
        subst this
        simp at h ⊢
        exact lexLe_total xs ys h

theorem lexLe_trans : ∀ a b c : Name, lexLe a b = true → lexLe b c = true → lexLe a c = true
  | [], _, _ => by simp [lexLe]
  | _ :: _, [], _ => by simp [lexLe]
  | _ :: _, _ :: _, [] => by simp [lexLe]
  | x :: xs, y :: ys, z :: zs => by
    simp only [lexLe]
    intro h1 h2
    by_cases hxy : x < y
    · by_cases hyz : y < z
      · have : x < z := by omega
        simp [this]
      · by_cases hzy : z < y
        · simp [hyz, hzy] at h2
        · have : y = z := by omega
          subst this; simp [hxy]
    · by_cases hyx : y < x
      · simp [hxy, hyx] at h1
      · have : x = y := by omega
        subst this
        simp only [hxy, if_false] at h1
        by_cases hyz : x < z
        · simp [hyz]
        · by_cases hzy : z < x
          · simp [hyz, hzy] at h2
          · simp only [hyz, hzy, if_false] at h2 ⊢
            exact lexLe_trans xs ys zs h1 h2

theorem lexLe_antisymm : ∀ a b : Name, lexLe a b = true → lexLe b a = true → a = b
  | [], [] => by simp
  | [], _ :: _ => by simp [lexLe]
  | _ :: _, [] => by simp [lexLe]
  | x :: xs, y :: ys => by
    simp only [lexLe]
    intro h1 h2
    by_cases hxy : x < y
    · have : ¬ y < x := by omega
      simp [hxy, this] at h2
    · by_cases hyx : y < x
      · simp [hxy, hyx] at h1
      · have : x = y := by omega
        subst this
        simp only [hxy, if_false] at h1 h2
        rw [lexLe_antisymm xs ys h1 h2]

theorem lexLe_append_left (p x y : Name) : lexLe (p ++ x) (p ++ y) = lexLe x y := by
  induction p with
  | nil => rfl
  | cons a p ih => simp [lexLe, ih]

theorem lexLe_append_right (s : Name) : ∀ x y : Name, x.length = y.length →
    lexLe (x ++ s) (y ++ s) = lexLe x y
  | [], [], _ => by simp [lexLe, lexLe_refl]
  | [], _ :: _, h => by simp at h
  | _ :: _, [], h => by simp at h
  | a :: x, b :: y, h => by
    simp only [List.cons_append, lexLe]
    rw [lexLe_append_right s x y (by simpa using h)]

/-! ## insertion sort -/

section SortLemmas
variable {α β : Type}

theorem insertBy_perm (le : α → α → Bool) (x : α) (l : List α) : (insertBy le x l).Perm (x :: l) := by
  induction l with
  | nil => exact List.Perm.refl _
  | cons y ys ih =>
    simp only [insertBy]
    split
    · exact List.Perm.refl _
    · exact (List.Perm.cons y ih).trans (List.Perm.swap x y ys)

theorem sortBy_perm (le : α → α → Bool) (l : List α) : (sortBy le l).Perm l := by
  induction l with
  | nil => exact List.Perm.refl _
  | cons x xs ih => exact (insertBy_perm le x _).trans (List.Perm.cons x ih)

theorem insertBy_pairwise (le : α → α → Bool) (htot : ∀ a b, le a b = false → le b a = true)
    (htr : ∀ a b c, le a b = true → le b c = true → le a c = true) (x : α) (l : List α)
    (hl : l.Pairwise (fun a b => le a b = true)) :
    (insertBy le x l).Pairwise (fun a b => le a b = true) := by
  induction l with
  | nil => simp [insertBy]
  | cons y ys ih =>
    rw [List.pairwise_cons] at hl
    simp only [insertBy]
    split
    · rename_i hxy
      refine List.Pairwise.cons ?_ (List.Pairwise.cons hl.1 hl.2)
      intro z hz
      rcases List.mem_cons.1 hz with rfl | hz
      · exact hxy
      · exact htr _ _ _ hxy (hl.1 z hz)
    · rename_i hxy
      have hyx : le y x = true := htot _ _ (by simpa using hxy)
      refine List.Pairwise.cons ?_ (ih hl.2)
      intro z hz
      rcases List.mem_cons.1 ((insertBy_perm le x ys).subset hz) with rfl | hz
      · exact hyx
      · exact hl.1 z hz

theorem sortBy_pairwise (le : α → α → Bool) (htot : ∀ a b, le a b = false → le b a = true)
    (htr : ∀ a b c, le a b = true → le b c = true → le a c = true) (l : List α) :
    (sortBy le l).Pairwise (fun a b => le a b = true) := by
  induction l with
  | nil => simp [sortBy]
  | cons x xs ih => exact insertBy_pairwise le htot htr x _ ih

/-- sorting commutes with a map that preserves the comparison -/
theorem insertBy_map (le : α → α → Bool) (le' : β → β → Bool) (f : α → β) (x : α) (l : List α)
    (h : ∀ a ∈ x :: l, ∀ b ∈ x :: l, le' (f a) (f b) = le a b) :
    insertBy le' (f x) (l.map f) = (insertBy le x l).map f := by
  induction l with
  | nil => rfl
  | cons y ys ih =>
    simp only [List.map_cons, insertBy]
    rw [h x (by simp) y (by simp)]
    split
    · rfl
    · simp only [List.map_cons]
      rw [ih (fun a ha b hb => h a (by
        rcases List.mem_cons.1 ha with rfl | ha <;> simp [*]) b (by
        rcases List.mem_cons.1 hb with rfl | hb <;> simp [*]))]

theorem sortBy_map (le : α → α → Bool) (le' : β → β → Bool) (f : α → β) (l : List α)
    (h : ∀ a ∈ l, ∀ b ∈ l, le' (f a) (f b) = le a b) :
    sortBy le' (l.map f) = (sortBy le l).map f := by
  induction l with
  | nil => rfl
  | cons x xs ih =>
    simp only [List.map_cons, sortBy]
    rw [ih (fun a ha b hb => h a (List.mem_cons_of_mem _ ha) b (List.mem_cons_of_mem _ hb))]
    apply insertBy_map
    intro a ha b hb
    have hsub : ∀ c, c ∈ x :: sortBy le xs → c ∈ x :: xs := by
      intro c hc
      rcases List.mem_cons.1 hc with rfl | hc
      · simp
      · exact List.mem_cons_of_mem _ ((sortBy_perm le xs).subset hc)
    exact h a (hsub a ha) b (hsub b hb)
end SortLemmas

def natLe (a b : Nat) : Bool := decide (a ≤ b)

theorem sortNat_pairwise (l : List Nat) : (sortBy natLe l).Pairwise (· ≤ ·) := by
  have := sortBy_pairwise natLe (by intro a b; simp [natLe]; omega)
    (by intro a b c; simp [natLe]; omega) l
  exact this.imp (by intro a b; simp [natLe])

/-- a sorted permutation of `0 … T-1` is `0 … T-1` -/
theorem sortNat_range (l : List Nat) (T : Nat) (h : l.Perm (List.range T)) :
    sortBy natLe l = List.range T := by
  refine List.Perm.eq_of_pairwise (le := (· ≤ ·)) (fun a b _ _ h1 h2 => Nat.le_antisymm h1 h2)
    (sortNat_pairwise l) ?_ ((sortBy_perm natLe l).trans h)
  exact (List.pairwise_lt_range (n := T)).imp (fun h => Nat.le_of_lt h)

/-! ## zero-padded decimal names sort numerically -/

theorem pad_length : ∀ w n, (pad w n).length = w
  | 0, _ => rfl
  | w + 1, n => by simp [pad, pad_length w]

theorem lexLe_pad : ∀ (w a b : Nat), a < 10 ^ w → b < 10 ^ w →
    lexLe (pad w a) (pad w b) = decide (a ≤ b)
  | 0, a, b, ha, hb => by
    simp at ha hb; subst ha; subst hb; simp [pad, lexLe]
  | w + 1, a, b, ha, hb => by
    have hP : 0 < 10 ^ w := Nat.pow_pos (by decide)
    generalize hPd : 10 ^ w = P at *
    have hpow : 10 ^ (w + 1) = P * 10 := by rw [Nat.pow_succ, hPd]
    rw [hpow] at ha hb
    have ea := Nat.div_add_mod a P
    have eb := Nat.div_add_mod b P
    have ra := Nat.mod_lt a hP
    have rb := Nat.mod_lt b hP
    have qa : a / P < 10 := (Nat.div_lt_iff_lt_mul hP).2 (by rw [Nat.mul_comm]; exact ha)
    have qb : b / P < 10 := (Nat.div_lt_iff_lt_mul hP).2 (by rw [Nat.mul_comm]; exact hb)
    have ih := lexLe_pad w (a % P) (b % P) (by rw [hPd]; exact Nat.mod_lt a hP) (by rw [hPd]; exact Nat.mod_lt b hP)
    simp only [pad, lexLe, hPd, Nat.mod_eq_of_lt qa, Nat.mod_eq_of_lt qb]
    generalize a / P = x at *
    generalize b / P = y at *
    by_cases hxy : x < y
    · have h1 : P * (x + 1) ≤ P * y := Nat.mul_le_mul_left P hxy
      rw [Nat.mul_succ] at h1
      have : a ≤ b := by omega
      simp [hxy, this]
    · by_cases hyx : y < x
      · have h1 : P * (y + 1) ≤ P * x := Nat.mul_le_mul_left P hyx
        rw [Nat.mul_succ] at h1
        have : ¬ a ≤ b := by omega
        have h48 : ¬ (48 + x < 48 + y) := by omega
        have h48' : 48 + y < 48 + x := by omega
        simp [h48, h48', this]
      · have : x = y := by omega
        subst this
        have h48 : ¬ (48 + x < 48 + x) := by omega
        simp only [h48, if_false, ih]
        congr 1
        apply propext
        constructor <;> intro h <;> omega

theorem lexLe_ctcName (pre : Name) (w a b : Nat) (ha : a < 10 ^ w) (hb : b < 10 ^ w) :
    lexLe (ctcName pre w a) (ctcName pre w b) = natLe a b := by
  unfold ctcName natLe
  rw [List.append_assoc, List.append_assoc, lexLe_append_left,
    lexLe_append_right _ _ _ (by rw [pad_length, pad_length]), lexLe_pad w a b ha hb]

/-- a CTC frame name matches `*.tif` -/
theorem globStar_ctcName (pre : Name) (w i : Nat) : globStar tifSuffix (ctcName pre w i) = true := by
  unfold globStar ctcName
  rw [List.isSuffixOf_iff_suffix]
  exact List.suffix_append _ _

theorem enumFrom'_map_fst {α : Type} : ∀ (k : Nat) (l : List α),
    (enumFrom' k l).map (·.1) = (List.range l.length).map (· + k)
  | _, [] => rfl
  | k, x :: xs => by
    simp only [enumFrom', List.map_cons, List.length_cons, List.range_succ_eq_map, List.map_map,
      enumFrom'_map_fst (k + 1) xs]
    simp
    intro a _
    omega

theorem enumFrom'_map_snd {α : Type} : ∀ (k : Nat) (l : List α), (enumFrom' k l).map (·.2) = l
  | _, [] => rfl
  | k, x :: xs => by simp [enumFrom', enumFrom'_map_snd (k + 1) xs]

theorem enumFrom'_getElem? {α : Type} : ∀ (k : Nat) (l : List α) (i : Nat),
    (enumFrom' k l)[i]? = l[i]?.map (fun x => (k + i, x))
  | _, [], _ => by simp [enumFrom']
  | k, x :: xs, 0 => by simp [enumFrom']
  | k, x :: xs, i + 1 => by
    simp only [enumFrom', List.getElem?_cons_succ, enumFrom'_getElem? (k + 1) xs i]
    cases xs[i]? <;> simp
    omega

end Geff.CtcDir
