import GeffProofs.Backends
/-! Observation records, the specification of an in-memory geff and the store equivalence used by
the C03 theorems (`GeffProps/C03.lean`), with the helper lemmas about them. -/
namespace GeffProps.C03
open Geff.Np Geff.Dicts Geff.Backends

/-- what a graph shows through its adapter -/
structure Obs where
  directed : Bool
  hasNode : Int → Bool
  hasEdge : Int × Int → Bool
  nodeAttr : Int → String → Option PyVal
  edgeAttr : Int × Int → String → Option PyVal

def nxObs (g : NxGraph) : Obs := ⟨g.directed, g.hasNode, g.hasEdge, g.nodeAttr, g.edgeAttr⟩
def rxObs (g : RxGraph) : Obs := ⟨g.directed, g.hasNode, g.hasEdge, g.nodeAttr, g.edgeAttr⟩

/-- SPECIFICATION of an in-memory geff (docs: `values` + optional `missing` per property): the
attribute graph it denotes.  Element `k` has property `name` iff the property exists and `k` is
not marked missing; its value is `values[k]`. -/
def memObs (m : MemGeff) : Obs :=
  ⟨m.directed, fun i => decide (i ∈ m.nodeIds), fun e => m.edgeIds.any (fun x => sameEdge m.directed x e),
   specNodeAttr m, specEdgeAttr m⟩

/-- what property C01 establishes about the store: reading back what was written returns the same
in-memory geff, up to the order in which the properties are listed -/
structure MemEquiv (m m' : MemGeff) : Prop where
  directed : m'.directed = m.directed
  nodeIds : m'.nodeIds = m.nodeIds
  edgeIds : m'.edgeIds = m.edgeIds
  nodeProps : m'.nodeProps.Perm m.nodeProps
  edgeProps : m'.edgeProps.Perm m.edgeProps

theorem nx_hasNode_eq (g : NxGraph) (ids : List Int) (h : g.nodes.map (·.1) = ids) (i : Int) :
    g.hasNode i = decide (i ∈ ids) := by
  subst h
  simp only [NxGraph.hasNode]
  rw [Bool.eq_iff_iff]
  simp only [List.any_eq_true, decide_eq_true_eq, List.mem_map]

theorem nx_hasEdge_eq (g : NxGraph) (es : List (Int × Int)) (h : g.edges.map (·.1) = es) (e : Int × Int) :
    g.hasEdge e = es.any (fun x => sameEdge g.directed x e) := by
  subst h
  simp [NxGraph.hasEdge, List.any_map, Function.comp_def]

theorem lookup_of_mem_nodup {β : Type} (l : List (String × β)) (k : String) (v : β)
    (hm : (k, v) ∈ l) (hnd : (l.map (·.1)).Nodup) : l.lookup k = some v := by
  induction l with
  | nil => simp at hm
  | cons p t ih =>
    obtain ⟨k', v'⟩ := p
    rw [lookup_cons_ite]
    have hnd' : k' ∉ t.map (·.1) ∧ (t.map (·.1)).Nodup := List.nodup_cons.1 (by simpa only [List.map_cons] using hnd)
    rcases List.mem_cons.1 hm with heq | hm'
    · cases heq; simp
    · have hne : k ≠ k' := by
        intro e; subst e
        exact hnd'.1 (List.mem_map.2 ⟨(k, v), hm', rfl⟩)
      simp only [hne, if_false]
      exact ih hm' hnd'.2

theorem perm_lookup {β : Type} (l l' : List (String × β)) (hp : l'.Perm l) (hnd : (l.map (·.1)).Nodup)
    (k : String) : l'.lookup k = l.lookup k := by
  have hnd' : (l'.map (·.1)).Nodup := (hp.map (·.1)).nodup_iff.2 hnd
  cases hl : l.lookup k with
  | some v => exact lookup_of_mem_nodup l' k v (hp.mem_iff.2 (lookup_mem l k v hl)) hnd'
  | none =>
    apply lookup_none_of_not_mem
    intro hk
    obtain ⟨v, hv⟩ := lookup_some_of_mem l k ((hp.map (·.1)).mem_iff.1 hk)
    rw [hv] at hl; cases hl

theorem memEquiv_valid (m m' : MemGeff) (he : MemEquiv m m') (h : MemValid m) : MemValid m' :=
  { nodup := by rw [he.nodeIds]; exact h.nodup
    endpoints := by rw [he.nodeIds, he.edgeIds]; exact h.endpoints
    simple := by rw [he.edgeIds, he.directed]; exact h.simple
    nodeNames := ((he.nodeProps.map (·.1)).nodup_iff).2 h.nodeNames
    edgeNames := ((he.edgeProps.map (·.1)).nodup_iff).2 h.edgeNames
    nodeCols := by
      intro p hp; rw [he.nodeIds]; exact h.nodeCols p (he.nodeProps.mem_iff.1 hp)
    edgeCols := by
      intro p hp; rw [he.edgeIds]; exact h.edgeCols p (he.edgeProps.mem_iff.1 hp) }

theorem memEquiv_obs (m m' : MemGeff) (he : MemEquiv m m') (h : MemValid m) : memObs m' = memObs m := by
  simp only [memObs, Obs.mk.injEq]
  refine ⟨he.directed, by rw [he.nodeIds], by rw [he.edgeIds, he.directed], ?_, ?_⟩
  · funext i name
    simp only [specNodeAttr, he.nodeIds, memAttr, perm_lookup _ _ he.nodeProps h.nodeNames]
  · funext e name
    simp only [specEdgeAttr, he.edgeIds, he.directed, memAttr, perm_lookup _ _ he.edgeProps h.edgeNames]

theorem nxWrite_obs (G : NxGraph) (h : NxDomain G) :
    ∃ m, nxWrite G = .ok m ∧ MemValid m ∧ memObs m = nxObs G := by
  obtain ⟨m, hm, hv, hd, hna, hea, hni, hei⟩ := nxWrite_spec G h
  refine ⟨m, hm, hv, ?_⟩
  simp only [memObs, nxObs, Obs.mk.injEq]
  refine ⟨hd, ?_, ?_, ?_, ?_⟩
  · funext i; rw [hni]; exact (nx_hasNode_eq G _ rfl i).symm
  · funext e; rw [hei, hd]; exact (nx_hasEdge_eq G _ rfl e).symm
  · funext i name; exact hna i name
  · funext e name; exact hea e name

theorem regular_nil (K : LeafClass) : RegularVals K none [] := ⟨by simp, by simp⟩



/-! ### spatial-graph -/

def sgObs (axes : List String) (g : SgGraph) : Obs :=
  ⟨g.directed, g.hasNode, g.hasEdge, g.nodeAttr axes, g.edgeAttr⟩

/-- the documented domain of the spatial-graph backend: a valid, non-empty geff with ≥ 1 axis;
every axis is a scalar, non-missing node property and all axes have one numeric dtype (different
dtypes are promoted: known finding `C03:sg-mixed-axis-dtypes`); every other property is numeric,
regular (scalar or 1-d per element) and non-missing -/
structure SgDomain (m : MemGeff) (names : List String) : Prop where
  valid : MemValid m
  nonempty : m.nodeIds ≠ []
  axes : names ≠ []
  axisCols : ∃ pd, sgDtypeOk pd = true ∧ ∀ a ∈ names, ∃ c, m.nodeProps.lookup a = some c ∧ c.dtype = pd ∧
    c.missing = none ∧ c.varlen = false ∧ ∀ r ∈ c.rows, ∃ v, r = (([], [v]) : Row)
  otherNode : ∀ p ∈ m.nodeProps, p.1 ∉ names → sgColOk p.2 = true ∧ p.2.missing = none
  edgeCols : ∀ p ∈ m.edgeProps, sgColOk p.2 = true ∧ p.2.missing = none

def colOf (props : List (String × Col)) (a : String) : Col := (props.lookup a).getD default
def leafAt (i : Nat) (c : Col) : Val :=
  match c.rows[i]? with
  | some ([], [v]) => v
  | _ => default

theorem lookup_filter_notin (props : List (String × Col)) (names : List String) (name : String)
    (h : name ∉ names) :
    (props.filter (fun p => !names.contains p.1)).lookup name = props.lookup name := by
  induction props with
  | nil => rfl
  | cons p t ih =>
    obtain ⟨k, c⟩ := p
    simp only [List.filter_cons]
    by_cases hk : names.contains k = true
    · have hne : name ≠ k := by
        intro e; subst e; exact h (by simpa using hk)
      simp only [hk, Bool.not_true, Bool.false_eq_true, if_false, lookup_cons_ite, hne, ih]
    · simp only [hk, Bool.not_false, if_true, lookup_cons_ite, ih]

theorem entry_nomissing (c : Col) (k : Nat) (hm : c.missing = none) (hv : c.varlen = false) :
    c.entry k = (c.rows[k]?).map (rowToPy false) := by
  simp only [Col.entry, hm, hv]
  cases c.rows[k]? <;> rfl

theorem sgConstruct_spec (m : MemGeff) (names : List String) (h : SgDomain m names) :
    ∃ g, sgConstruct m (some names) = .ok g ∧ sgObs names g = memObs m := by
  obtain ⟨pd, hpd, hax⟩ := h.axisCols
  have hn : axisNamesOf m (some names) = .ok names := by
    cases hnm : names with
    | nil => exact absurd hnm h.axes
    | cons a t => rfl
  have hcols : mapE (axisCol m.nodeProps) names = .ok (names.map (colOf m.nodeProps)) := by
    apply mapE_ok_map
    intro a ha
    obtain ⟨c, hc, _⟩ := hax a ha
    simp [axisCol, colOf, hc]
  have hcolfacts : ∀ a ∈ names, m.nodeProps.lookup a = some (colOf m.nodeProps a) ∧
      (colOf m.nodeProps a).dtype = pd ∧ (colOf m.nodeProps a).missing = none ∧
      (colOf m.nodeProps a).varlen = false ∧
      ∀ r ∈ (colOf m.nodeProps a).rows, ∃ v, r = (([], [v]) : Row) := by
    intro a ha
    obtain ⟨c, hc, h1, h2, h3, h4⟩ := hax a ha
    have : colOf m.nodeProps a = c := by simp [colOf, hc]
    rw [this]; exact ⟨hc, h1, h2, h3, h4⟩
  have hwfcol : ∀ a ∈ names, (colOf m.nodeProps a).WF m.nodeIds.length := by
    intro a ha
    exact h.valid.nodeCols (a, colOf m.nodeProps a) (lookup_mem _ _ _ (hcolfacts a ha).1)
  have hok : (!((m.nodeProps.filter (fun p => !names.contains p.1)).all (fun p => sgColOk p.2) &&
      m.edgeProps.all (fun p => sgColOk p.2))) = false := by
    have h1 : (m.nodeProps.filter (fun p => !names.contains p.1)).all (fun p => sgColOk p.2) = true := by
      simp only [List.all_eq_true, List.mem_filter]
      intro p ⟨hp, hnot⟩
      exact (h.otherNode p hp (by simpa using hnot)).1
    have h2 : m.edgeProps.all (fun p => sgColOk p.2) = true := by
      simp only [List.all_eq_true]
      intro p hp; exact (h.edgeCols p hp).1
    rw [h1, h2]; rfl
  have hne : m.nodeIds.isEmpty = false := by
    cases hm : m.nodeIds with
    | nil => exact absurd hm h.nonempty
    | cons a t => rfl
  have hpdt : posDtypeOf (names.map (colOf m.nodeProps)) = .ok pd := by
    cases hnm : names with
    | nil => exact absurd hnm h.axes
    | cons a t =>
      have ha := (hcolfacts a (by simp [hnm])).2.1
      have hall : (t.map (colOf m.nodeProps)).all (fun c' => c'.dtype = (colOf m.nodeProps a).dtype) = true := by
        simp only [List.all_eq_true, List.mem_map, decide_eq_true_eq]
        rintro c ⟨b, hb, rfl⟩
        rw [(hcolfacts b (by simp [hnm, hb])).2.1, ha]
      simp only [List.map_cons, posDtypeOf]
      rw [if_pos ⟨hall, by rw [ha]; exact hpd⟩, ha]
  have hscalar : ∀ i, i < m.nodeIds.length → ∀ a ∈ names,
      (colOf m.nodeProps a).rows[i]? = some ([], [leafAt i (colOf m.nodeProps a)]) := by
    intro i hi a ha
    have hlen : i < (colOf m.nodeProps a).rows.length := by rw [(hwfcol a ha).1]; exact hi
    obtain ⟨v, hv⟩ := (hcolfacts a ha).2.2.2.2 _ (List.getElem_mem hlen)
    have : (colOf m.nodeProps a).rows[i]? = some ([], [v]) := by
      rw [List.getElem?_eq_getElem hlen, hv]
    simp [leafAt, this]
  have hstack : stackCols m.nodeIds.length (names.map (colOf m.nodeProps)) =
      .ok ((List.range m.nodeIds.length).map (fun i => (names.map (colOf m.nodeProps)).map (leafAt i))) := by
    unfold stackCols
    apply mapE_ok_map
    intro i hi
    apply mapE_ok_map
    intro c hc
    obtain ⟨a, ha, rfl⟩ := List.mem_map.1 hc
    simp [scalarAt, hscalar i (List.mem_range.1 hi) a ha]
  refine ⟨{ directed := m.directed, ndims := names.length, posDtype := pd, nodes := m.nodeIds,
            position := (List.range m.nodeIds.length).map (fun i => (names.map (colOf m.nodeProps)).map (leafAt i)),
            nodeAttrs := m.nodeProps.filter (fun p => !names.contains p.1), edges := m.edgeIds,
            edgeAttrs := m.edgeProps },
          by simp only [sgConstruct, hn, hcols, hok, hne, hpdt, hstack, Bool.false_eq_true, if_false], ?_⟩
  simp only [sgObs, memObs, Obs.mk.injEq]
  refine ⟨trivial, ?_, ?_, ?_, ?_⟩
  · funext i
    simp only [SgGraph.hasNode]
    rw [Bool.eq_iff_iff]
    simp [List.any_eq_true]
  · funext e; rfl
  · funext i name
    simp only [SgGraph.nodeAttr, specNodeAttr]
    cases hk : m.nodeIds.findIdx? (fun x => decide (x = i)) with
    | none => rfl
    | some k =>
      have hklt := findIdx?_lt _ _ k hk
      simp only [memAttr]
      cases ha : names.findIdx? (fun x => decide (x = name)) with
      | some a =>
        obtain ⟨halt, hpa⟩ := findIdx?_getElem _ _ a ha
        have hnm : names[a] = name := by simpa using hpa
        have hmem : name ∈ names := by rw [← hnm]; exact List.getElem_mem halt
        have hf := hcolfacts name hmem
        have hpos : ((List.range m.nodeIds.length).map (fun i => (names.map (colOf m.nodeProps)).map (leafAt i)))[k]? =
            some ((names.map (colOf m.nodeProps)).map (leafAt k)) := by
          simp [hklt]
        have hcell : ((names.map (colOf m.nodeProps)).map (leafAt k))[a]? = some (leafAt k (colOf m.nodeProps name)) := by
          simp [halt, hnm]
        simp only [hpos, hcell, hf.1, Option.map_some]
        rw [entry_nomissing _ _ hf.2.2.1 hf.2.2.2.1, hscalar k hklt name hmem]
        rfl
      | none =>
        have hnot : name ∉ names := by
          intro hin
          have := (findIdx?_none_iff _ _).1 ha name hin
          simp at this
        simp only [lookup_filter_notin m.nodeProps names name hnot]
        cases hl : m.nodeProps.lookup name with
        | none => rfl
        | some c =>
          have hp := lookup_mem _ _ _ hl
          have hc := h.otherNode (name, c) hp hnot
          have hvl : c.varlen = false := by
            have := hc.1
            simp only [sgColOk, Bool.and_eq_true, Bool.not_eq_true'] at this
            exact this.1.2
          simp only []
          rw [entry_nomissing c k hc.2 hvl]
  · funext e name
    simp only [SgGraph.edgeAttr, specEdgeAttr]
    cases hk : m.edgeIds.findIdx? (fun x => sameEdge m.directed x e) with
    | none => rfl
    | some k =>
      simp only [memAttr]
      cases hl : m.edgeProps.lookup name with
      | none => rfl
      | some c =>
        have hp := lookup_mem _ _ _ hl
        have hc := h.edgeCols (name, c) hp
        have hvl : c.varlen = false := by
          have := hc.1
          simp only [sgColOk, Bool.and_eq_true, Bool.not_eq_true'] at this
          exact this.1.2
        simp only []
        rw [entry_nomissing c k hc.2 hvl]



/-! ### spatial-graph write (unsquish) -/

/-- documented domain of a spatial-graph graph written with `axis_names` -/
structure SgGraphDomain (g : SgGraph) (names : List String) : Prop where
  nodup : g.nodes.Nodup
  nonempty : g.nodes ≠ []
  endpoints : ∀ e ∈ g.edges, e.1 ∈ g.nodes ∧ e.2 ∈ g.nodes
  simple : g.edges.Pairwise (fun a b => sameEdge g.directed a b = false)
  ndims : g.ndims = names.length
  axes : names ≠ []
  axesNodup : names.Nodup
  posLen : g.position.length = g.nodes.length
  posRows : ∀ r ∈ g.position, r.length = g.ndims
  posDtype : sgDtypeOk g.posDtype = true
  nodeNames : (g.nodeAttrs.map (·.1)).Nodup
  disjoint : ∀ p ∈ g.nodeAttrs, p.1 ∉ names
  nodeCols : ∀ p ∈ g.nodeAttrs, p.2.WF g.nodes.length ∧ sgColOk p.2 = true ∧ p.2.missing = none
  edgeNames : (g.edgeAttrs.map (·.1)).Nodup
  edgeCols : ∀ p ∈ g.edgeAttrs, p.2.WF g.edges.length ∧ sgColOk p.2 = true ∧ p.2.missing = none

def axisColOf (g : SgGraph) (k : Nat) : Col :=
  { dtype := g.posDtype, varlen := false, rows := g.position.map (fun r => (([], [r.getD k default]) : Row)), missing := none }

theorem axisColumn_ok (g : SgGraph) (name : String) (k : Nat) (hk : ∀ r ∈ g.position, k < r.length) :
    axisColumn g name k = .ok (name, axisColOf g k) := by
  unfold axisColumn
  have : mapE (cellRow k) g.position = .ok (g.position.map (fun r => (([], [r.getD k default]) : Row))) := by
    apply mapE_ok_map
    intro r hr
    have := hk r hr
    simp [cellRow, List.getElem?_eq_getElem this, List.getD_eq_getElem?_getD]
  simp only [this, axisColOf]

theorem filter_disjoint (props : List (String × Col)) (names : List String) (h : ∀ p ∈ props, p.1 ∉ names) :
    props.filter (fun p => !names.contains p.1) = props := by
  apply List.filter_eq_self.2
  intro p hp
  have := h p hp
  simpa using this

theorem lookup_append' {β : Type} (l1 l2 : List (String × β)) (k : String) :
    (l1 ++ l2).lookup k = match l1.lookup k with
      | some v => some v
      | none => l2.lookup k := by
  induction l1 with
  | nil => rfl
  | cons p t ih =>
    obtain ⟨k', v'⟩ := p
    simp only [List.cons_append, lookup_cons_ite]
    by_cases hk : k = k'
    · simp [hk]
    · simp [hk, ih]

/-- lookup in `names.zip (range n)` mapped to columns: the column of the name's index -/
theorem lookup_axisCols (g : SgGraph) (names : List String) (hnd : names.Nodup) (name : String) (off : Nat) :
    ((names.zip (List.range' off names.length)).map (fun p => (p.1, axisColOf g p.2))).lookup name =
      (names.findIdx? (fun x => x = name)).map (fun a => axisColOf g (off + a)) := by
  induction names generalizing off with
  | nil => rfl
  | cons a t ih =>
    have hnd' := List.nodup_cons.1 hnd
    simp only [List.length_cons, List.range'_succ, List.zip_cons_cons, List.map_cons, lookup_cons_ite,
      List.findIdx?_cons]
    by_cases h : a = name
    · subst h; simp
    · have h' : ¬ name = a := fun e => h e.symm
      simp only [h', if_false, h, decide_false, Bool.false_eq_true]
      rw [ih hnd'.2 (off + 1)]
      cases t.findIdx? (fun x => decide (x = name)) with
      | none => rfl
      | some k => simp; congr 1; omega


abbrev sgMemOf (g : SgGraph) (axisCols : List (String × Col)) : MemGeff :=
  { directed := g.directed, nodeIds := g.nodes, edgeIds := g.edges,
    nodeProps := g.nodeAttrs ++ axisCols, edgeProps := g.edgeAttrs }

theorem sgWrite_spec (g : SgGraph) (names : List String) (h : SgGraphDomain g names) :
    ∃ m, sgWrite g names = .ok m ∧ SgDomain m names ∧ memObs m = sgObs names g := by
  have hguard : ¬ (g.ndims ≠ names.length ∧ (!g.nodes.isEmpty) = true) := fun hc => hc.1 h.ndims
  have hrowlen : ∀ k, k < names.length → ∀ r ∈ g.position, k < r.length := by
    intro k hk r hr; rw [h.posRows r hr, h.ndims]; exact hk
  obtain ⟨axisCols, haxdef⟩ : ∃ t, t = (names.zip (List.range' 0 names.length)).map (fun p => (p.1, axisColOf g p.2)) := ⟨_, rfl⟩
  have hmap : mapE (fun (p : String × Nat) => axisColumn g p.1 p.2) (enumNames names) = .ok axisCols := by
    rw [haxdef, enumNames, List.range_eq_range']
    apply mapE_ok_map
    intro p hp
    have hk : p.2 < names.length := by
      have := (List.of_mem_zip hp).2
      simpa using (List.mem_range'_1.1 this).2
    exact axisColumn_ok g p.1 p.2 (hrowlen p.2 hk)
  have hfilter := filter_disjoint g.nodeAttrs names h.disjoint
  have hkeys : axisCols.map (·.1) = names := by
    rw [haxdef, List.map_map]
    have : ((fun p : String × Col => p.1) ∘ fun p : String × Nat => (p.1, axisColOf g p.2)) = (fun p => p.1) := rfl
    rw [this, List.map_fst_zip (by simp)]
  have hlookAx : ∀ name, axisCols.lookup name = (names.findIdx? (fun x => x = name)).map (fun a => axisColOf g a) := by
    intro name
    rw [haxdef, lookup_axisCols g names h.axesNodup name 0]
    simp
  have hattrNone : ∀ name ∈ names, g.nodeAttrs.lookup name = none := by
    intro name hn
    apply lookup_none_of_not_mem
    intro hm
    obtain ⟨p, hp, rfl⟩ := List.mem_map.1 hm
    exact h.disjoint p hp hn
  have hlook : ∀ name, (g.nodeAttrs ++ axisCols).lookup name =
      match names.findIdx? (fun x => x = name) with
      | some a => some (axisColOf g a)
      | none => g.nodeAttrs.lookup name := by
    intro name
    rw [lookup_append', hlookAx]
    cases ha : names.findIdx? (fun x => decide (x = name)) with
    | some a =>
      obtain ⟨halt, hpa⟩ := findIdx?_getElem _ _ a ha
      have hnm : names[a] = name := by simpa using hpa
      have hmem : name ∈ names := by rw [← hnm]; exact List.getElem_mem halt
      rw [hattrNone name hmem]; rfl
    | none => cases g.nodeAttrs.lookup name <;> rfl
  have hvalid : MemValid (sgMemOf g axisCols) :=
    { nodup := h.nodup, endpoints := h.endpoints, simple := h.simple,
      nodeNames := by
        simp only [sgMemOf, List.map_append, hkeys]
        apply List.nodup_append.2
        refine ⟨h.nodeNames, h.axesNodup, ?_⟩
        intro a ha b hb hab
        obtain ⟨p, hp, rfl⟩ := List.mem_map.1 ha
        exact h.disjoint p hp (hab ▸ hb)
      edgeNames := h.edgeNames,
      nodeCols := by
        intro p hp
        rcases List.mem_append.1 hp with hp | hp
        · exact (h.nodeCols p hp).1
        · rw [haxdef] at hp
          obtain ⟨q, _, rfl⟩ := List.mem_map.1 hp
          exact ⟨by simp [axisColOf, h.posLen], by intro ms hms; simp [axisColOf] at hms⟩
      edgeCols := fun p hp => (h.edgeCols p hp).1 }
  refine ⟨sgMemOf g axisCols, by simp only [sgWrite, hguard, if_false, hmap, hfilter, sgMemOf], ?_, ?_⟩
  · exact
      { valid := hvalid, nonempty := h.nonempty, axes := h.axes,
        axisCols := ⟨g.posDtype, h.posDtype, by
          intro a ha
          obtain ⟨k, hk⟩ : ∃ k, names.findIdx? (fun x => decide (x = a)) = some k := by
            cases hk : names.findIdx? (fun x => decide (x = a)) with
            | some k => exact ⟨k, rfl⟩
            | none => have := (findIdx?_none_iff _ _).1 hk a ha; simp at this
          refine ⟨axisColOf g k, by simp only [hlook, hk], rfl, rfl, rfl, ?_⟩
          intro r hr
          simp only [axisColOf, List.mem_map] at hr
          obtain ⟨r', _, rfl⟩ := hr
          exact ⟨_, rfl⟩⟩,
        otherNode := by
          intro p hp hnot
          rcases List.mem_append.1 hp with hp | hp
          · exact (h.nodeCols p hp).2
          · exact absurd (by rw [← hkeys]; exact List.mem_map.2 ⟨p, hp, rfl⟩) hnot
        edgeCols := fun p hp => (h.edgeCols p hp).2 }
  · simp only [sgObs, memObs, Obs.mk.injEq]
    refine ⟨trivial, ?_, ?_, ?_, ?_⟩
    · funext i
      simp only [SgGraph.hasNode]
      rw [Bool.eq_iff_iff]
      simp [List.any_eq_true]
    · funext e; rfl
    · funext i name
      simp only [SgGraph.nodeAttr, specNodeAttr]
      cases hk : g.nodes.findIdx? (fun x => decide (x = i)) with
      | none => rfl
      | some k =>
        have hklt := findIdx?_lt _ _ k hk
        simp only [memAttr, hlook]
        cases ha : names.findIdx? (fun x => decide (x = name)) with
        | some a =>
          have halt := findIdx?_lt _ _ a ha
          simp only []
          rw [entry_nomissing _ _ rfl rfl]
          simp only [axisColOf, List.getElem?_map]
          cases hr : g.position[k]? with
          | none => rfl
          | some r =>
            have hrm : r ∈ g.position := List.mem_of_getElem? hr
            have hal : a < r.length := hrowlen a halt r hrm
            simp [rowToPy, List.getElem?_eq_getElem hal, List.getD_eq_getElem?_getD]
        | none =>
          simp only []
          cases hl : g.nodeAttrs.lookup name with
          | none => rfl
          | some c =>
            have hc := h.nodeCols (name, c) (lookup_mem _ _ _ hl)
            have hvl : c.varlen = false := by
              have := hc.2.1
              simp only [sgColOk, Bool.and_eq_true, Bool.not_eq_true'] at this
              exact this.1.2
            simp only []
            rw [entry_nomissing c k hc.2.2 hvl]
    · funext e name
      simp only [SgGraph.edgeAttr, specEdgeAttr]
      cases hk : g.edges.findIdx? (fun x => sameEdge g.directed x e) with
      | none => rfl
      | some k =>
        simp only [memAttr]
        cases hl : g.edgeAttrs.lookup name with
        | none => rfl
        | some c =>
          have hc := h.edgeCols (name, c) (lookup_mem _ _ _ hl)
          have hvl : c.varlen = false := by
            have := hc.2.1
            simp only [sgColOk, Bool.and_eq_true, Bool.not_eq_true'] at this
            exact this.1.2
          simp only []
          rw [entry_nomissing c k hc.2.2 hvl]



/-- the spatial-graph domain does not depend on the order of the properties -/
theorem sgDomain_of_equiv (m m' : MemGeff) (names : List String) (he : MemEquiv m m') (h : SgDomain m names) :
    SgDomain m' names :=
  { valid := memEquiv_valid m m' he h.valid
    nonempty := by rw [he.nodeIds]; exact h.nonempty
    axes := h.axes
    axisCols := by
      obtain ⟨pd, hpd, hax⟩ := h.axisCols
      refine ⟨pd, hpd, ?_⟩
      intro a ha
      obtain ⟨c, hc, rest⟩ := hax a ha
      exact ⟨c, by rw [perm_lookup _ _ he.nodeProps h.valid.nodeNames]; exact hc, rest⟩
    otherNode := fun p hp hn => h.otherNode p (he.nodeProps.mem_iff.1 hp) hn
    edgeCols := fun p hp => h.edgeCols p (he.edgeProps.mem_iff.1 hp) }

end GeffProps.C03
