import GeffProofs.Backends
/-! Observation records, the specification of an in-memory geff and the store equivalence used by
the C03 theorems (`GeffProps/C03.lean`), with the helper lemmas about them. -/
namespace GeffProps.C03
open Geff.Np Geff.Dicts Geff.Backends

/-- what a graph shows through its adapter -/
structure Obs where
  directed : Bool
  hasNode : Int → Bool
  hasEdge : Int × Int → Bool
  nodeAttr : Int → String → Option PyVal
  edgeAttr : Int × Int → String → Option PyVal

def nxObs (g : NxGraph) : Obs := ⟨g.directed, g.hasNode, g.hasEdge, g.nodeAttr, g.edgeAttr⟩
def rxObs (g : RxGraph) : Obs := ⟨g.directed, g.hasNode, g.hasEdge, g.nodeAttr, g.edgeAttr⟩

/-- SPECIFICATION of an in-memory geff (docs: `values` + optional `missing` per property): the
attribute graph it denotes.  Element `k` has property `name` iff the property exists and `k` is
not marked missing; its value is `values[k]`. -/
def memObs (m : MemGeff) : Obs :=
  ⟨m.directed, fun i => decide (i ∈ m.nodeIds), fun e => m.edgeIds.any (fun x => sameEdge m.directed x e),
   specNodeAttr m, specEdgeAttr m⟩

/-- what property C01 establishes about the store: reading back what was written returns the same
in-memory geff, up to the order in which the properties are listed -/
structure MemEquiv (m m' : MemGeff) : Prop where
  directed : m'.directed = m.directed
  nodeIds : m'.nodeIds = m.nodeIds
  edgeIds : m'.edgeIds = m.edgeIds
  nodeProps : m'.nodeProps.Perm m.nodeProps
  edgeProps : m'.edgeProps.Perm m.edgeProps

theorem nx_hasNode_eq (g : NxGraph) (ids : List Int) (h : g.nodes.map (·.1) = ids) (i : Int) :
    g.hasNode i = decide (i ∈ ids) := by
  subst h
  simp only [NxGraph.hasNode]
  rw [Bool.eq_iff_iff]
  simp only [List.any_eq_true, decide_eq_true_eq, List.mem_map]

theorem nx_hasEdge_eq (g : NxGraph) (es : List (Int × Int)) (h : g.edges.map (·.1) = es) (e : Int × Int) :
    g.hasEdge e = es.any (fun x => sameEdge g.directed x e) := by
  subst h
  simp [NxGraph.hasEdge, List.any_map, Function.comp_def]

theorem lookup_of_mem_nodup {β : Type} (l : List (String × β)) (k : String) (v : β)
    (hm : (k, v) ∈ l) (hnd : (l.map (·.1)).Nodup) : l.lookup k = some v := by
  induction l with
  | nil => simp at hm
  | cons p t ih =>
    obtain ⟨k', v'⟩ := p
    rw [lookup_cons_ite]
    have hnd' : k' ∉ t.map (·.1) ∧ (t.map (·.1)).Nodup := List.nodup_cons.1 (by simpa only [List.map_cons] using hnd)
    rcases List.mem_cons.1 hm with heq | hm'
    · cases heq; simp
    · have hne : k ≠ k' := by
        intro e; subst e
        exact hnd'.1 (List.mem_map.2 ⟨(k, v), hm', rfl⟩)
      simp only [hne, if_false]
      exact ih hm' hnd'.2

theorem perm_lookup {β : Type} (l l' : List (String × β)) (hp : l'.Perm l) (hnd : (l.map (·.1)).Nodup)
    (k : String) : l'.lookup k = l.lookup k := by
  have hnd' : (l'.map (·.1)).Nodup := (hp.map (·.1)).nodup_iff.2 hnd
  cases hl : l.lookup k with
  | some v => exact lookup_of_mem_nodup l' k v (hp.mem_iff.2 (lookup_mem l k v hl)) hnd'
  | none =>
    apply lookup_none_of_not_mem
    intro hk
    obtain ⟨v, hv⟩ := lookup_some_of_mem l k ((hp.map (·.1)).mem_iff.1 hk)
    rw [hv] at hl; cases hl

theorem memEquiv_valid (m m' : MemGeff) (he : MemEquiv m m') (h : MemValid m) : MemValid m' :=
  { nodup := by rw [he.nodeIds]; exact h.nodup
    endpoints := by rw [he.nodeIds, he.edgeIds]; exact h.endpoints
    simple := by rw [he.edgeIds, he.directed]; exact h.simple
    nodeNames := ((he.nodeProps.map (·.1)).nodup_iff).2 h.nodeNames
    edgeNames := ((he.edgeProps.map (·.1)).nodup_iff).2 h.edgeNames
    nodeCols := by
      intro p hp; rw [he.nodeIds]; exact h.nodeCols p (he.nodeProps.mem_iff.1 hp)
    edgeCols := by
      intro p hp; rw [he.edgeIds]; exact h.edgeCols p (he.edgeProps.mem_iff.1 hp) }

theorem memEquiv_obs (m m' : MemGeff) (he : MemEquiv m m') (h : MemValid m) : memObs m' = memObs m := by
  simp only [memObs, Obs.mk.injEq]
  refine ⟨he.directed, by rw [he.nodeIds], by rw [he.edgeIds, he.directed], ?_, ?_⟩
  · funext i name
    simp only [specNodeAttr, he.nodeIds, memAttr, perm_lookup _ _ he.nodeProps h.nodeNames]
  · funext e name
    simp only [specEdgeAttr, he.edgeIds, he.directed, memAttr, perm_lookup _ _ he.edgeProps h.edgeNames]

theorem nxWrite_obs (G : NxGraph) (h : NxDomain G) :
    ∃ m, nxWrite G = .ok m ∧ MemValid m ∧ memObs m = nxObs G := by
  obtain ⟨m, hm, hv, hd, hna, hea, hni, hei⟩ := nxWrite_spec G h
  refine ⟨m, hm, hv, ?_⟩
  simp only [memObs, nxObs, Obs.mk.injEq]
  refine ⟨hd, ?_, ?_, ?_, ?_⟩
  · funext i; rw [hni]; exact (nx_hasNode_eq G _ rfl i).symm
  · funext e; rw [hei, hd]; exact (nx_hasEdge_eq G _ rfl e).symm
  · funext i name; exact hna i name
  · funext e name; exact hea e name

theorem regular_nil (K : LeafClass) : RegularVals K none [] := ⟨by simp, by simp⟩


end GeffProps.C03
