import GeffProofs.Meta
/-! Round-trip lemmas for C08: parsing the dump of a valid metadata value gives the value back. -/
set_option autoImplicit false
namespace Geff.Meta

/-- the valid dtype names are fixed points of numpy's name normalisation (checked by the harness on every run) -/
def NpFix (env : Env) : Prop := ∀ d ∈ Gen.ValidValues.dtypes, env.npName d = some d

theorem mapE_map_id {α β : Type} {f : β → Except Err α} {g : α → β} :
    ∀ (xs : List α), (∀ x ∈ xs, f (g x) = .ok x) → mapE f (xs.map g) = .ok xs := by
  intro xs
  induction xs with
  | nil => intro _; simp [mapE]
  | cons x xs ih =>
    intro h
    simp [mapE, h x (by simp), ih (fun y hy => h y (by simp [hy]))]

theorem getOptStr_dump (s : Option String) : getOptStr (some (optStrJ s)) = .ok s := by
  cases s <;> simp [optStrJ, getOptStr]

theorem getOptNum_dump (f : Option F) : getOptNum (some (optNumJ f)) = .ok f := by
  cases f <;> simp [optNumJ, getOptNum]

theorem dtypes_nonempty : ∀ d ∈ Gen.ValidValues.dtypes, 1 ≤ d.length := by decide

theorem validateModel_of_valid {a : Axis} (h : a.ValidBy ordCode) : a.validateModel = .ok a := by
  obtain ⟨_, h2, h3, h4⟩ := h
  obtain ⟨name, type, unit, min, max, scale, su, offset⟩ := a
  unfold Axis.validateModel
  have : Axis.modelBad { name, type, unit, min, max, scale, scaled_unit := su, offset } = false := by
    cases min <;> cases max <;> cases su <;> cases scale <;> simp_all [Axis.modelBad, truthy, ordCode]
  simp [this]

theorem parseAxis_dump {a : Axis} (h : a.ValidBy ordCode) : parseAxis (dumpAxis a) = .ok a := by
  have ht : axisTypeOk a.type = true := (axisTypeOk_iff _).2 h.1
  have hv := validateModel_of_valid h
  obtain ⟨name, type, unit, min, max, scale, su, offset⟩ := a
  have hg : guardE (axisTypeOk type) = .ok () := by simp only at ht; simp [guardE, ht]
  simp only [dumpAxis, parseAxis, getReqStr, lookup]
  simp only [String.reduceBEq, Bool.false_eq_true, ↓reduceIte, getStr, getOptStr_dump, getOptNum_dump, hg, bind, Except.bind, hv]

theorem convertDtype_fix {env : Env} (hnp : NpFix env) {d : String} (h : d ∈ Gen.ValidValues.dtypes) :
    convertDtype env (.str d) = .ok d := by
  have hlen : d.length ≥ 1 := dtypes_nonempty _ h
  simp only [convertDtype, hnp _ h]
  rw [if_pos ⟨h, hlen⟩]

theorem parseProp_dump {env : Env} (hnp : NpFix env) {p : PropMeta} (h : p.Valid) :
    parseProp env (dumpProp p) = .ok p := by
  obtain ⟨h1, h2⟩ := h
  obtain ⟨ident, dtype, vl, unit, name, desc⟩ := p
  simp only at h1 h2
  have hd := convertDtype_fix hnp h2
  have hg : guardE (decide (ident.length ≥ 1)) = .ok () := by simp [guardE, h1]
  simp only [dumpProp, parseProp, getReqStr, getReqDtype, getBoolOr, lookup]
  simp only [String.reduceBEq, Bool.false_eq_true, ↓reduceIte, getStr, getBool, getOptStr_dump, hd, hg, bind, Except.bind,
    pure, Except.pure]

theorem parseRelated_dump {r : RelatedObject} (h : r.Valid) : parseRelated (dumpRelated r) = .ok r := by
  obtain ⟨type, path, lp⟩ := r
  have hv : RelatedObject.validateModel { type, path, label_prop := lp } = .ok { type, path, label_prop := lp } := by
    unfold RelatedObject.validateModel
    cases lp with
    | none => simp
    | some l => have := h l rfl; simp only at this; simp [this]
  simp only [dumpRelated, parseRelated, getReqStr, lookup]
  simp only [String.reduceBEq, Bool.false_eq_true, ↓reduceIte, getStr, getOptStr_dump, bind, Except.bind, hv]

theorem parseHint_dump (h : DisplayHint) : parseHint (dumpHint h) = .ok h := by
  obtain ⟨a, b, c, d⟩ := h
  simp only [dumpHint, parseHint, getReqStr, lookup, String.reduceBEq, Bool.false_eq_true, ↓reduceIte, getStr, getOptStr_dump, bind,
    Except.bind, pure, Except.pure]

theorem parseHintField_dump (h : DisplayHint) : parseHintField (dumpHint h) = .ok (some h) := by
  have := parseHint_dump h
  unfold dumpHint at this ⊢
  simp only [parseHintField, this, Except.map]

theorem parsePropsDict_dump {env : Env} (hnp : NpFix env) {d : List (String × PropMeta)} (h : PropsValid d) :
    parsePropsDict env (dumpPropsDict d) = .ok d := by
  simp only [dumpPropsDict, parsePropsDict]
  apply mapE_map_id
  intro kv hkv
  simp [parseProp_dump hnp (h kv hkv).2, Except.map]

theorem parseTrackProps_dump {t : List (String × String)} (h : ∀ kv ∈ t, kv.1 ∈ trackKeys) :
    parseTrackProps (.obj (t.map (fun kv => (kv.1, J.str kv.2)))) = .ok (some t) := by
  simp only [parseTrackProps]
  have : mapE (fun (kv : String × J) => if kv.1 ∈ trackKeys then (getStr kv.2).map (fun s => (kv.1, s))
            else .error .validation) (t.map (fun kv => (kv.1, J.str kv.2))) = .ok t := by
    apply mapE_map_id
    intro kv hkv
    simp [h kv hkv, getStr, Except.map]
  simp [this, bind, Except.bind, pure, Except.pure]

/-- what `validateFieldsAux` computes on a dump, field by field -/
theorem setField_dump {env : Env} (hnp : NpFix env) {m : Meta} (hm : ValidCode env m) (acc : Meta) :
    setField env acc "geff_version" (.str m.geff_version) = .ok { acc with geff_version := m.geff_version } ∧
    setField env acc "directed" (.bool m.directed) = .ok { acc with directed := m.directed } ∧
    setField env acc "axes" (dumpAxesOpt m.axes) = .ok { acc with axes := m.axes } ∧
    setField env acc "node_props_metadata" (dumpPropsDict m.node_props_metadata) =
      .ok { acc with node_props_metadata := m.node_props_metadata } ∧
    setField env acc "edge_props_metadata" (dumpPropsDict m.edge_props_metadata) =
      .ok { acc with edge_props_metadata := m.edge_props_metadata } ∧
    setField env acc "sphere" (optStrJ m.sphere) = .ok { acc with sphere := m.sphere } ∧
    setField env acc "ellipsoid" (optStrJ m.ellipsoid) = .ok { acc with ellipsoid := m.ellipsoid } ∧
    setField env acc "track_node_props" (dumpTrackOpt m.track_node_props) =
      .ok { acc with track_node_props := m.track_node_props } ∧
    setField env acc "related_objects" (dumpRelatedOpt m.related_objects) =
      .ok { acc with related_objects := m.related_objects } ∧
    setField env acc "display_hints" (dumpHintOpt m.display_hints) =
      .ok { acc with display_hints := m.display_hints } ∧
    setField env acc "extra" (.obj m.extra) = .ok { acc with extra := m.extra } := by
  obtain ⟨hv, hax, hn, he, ht, hr⟩ := hm
  have f0 : Field.ofName? "geff_version" = some .geff_version := by decide
  have f1 : Field.ofName? "directed" = some .directed := by decide
  have f2 : Field.ofName? "axes" = some .axes := by decide
  have f3 : Field.ofName? "node_props_metadata" = some .node_props_metadata := by decide
  have f4 : Field.ofName? "edge_props_metadata" = some .edge_props_metadata := by decide
  have f5 : Field.ofName? "sphere" = some .sphere := by decide
  have f6 : Field.ofName? "ellipsoid" = some .ellipsoid := by decide
  have f7 : Field.ofName? "track_node_props" = some .track_node_props := by decide
  have f8 : Field.ofName? "related_objects" = some .related_objects := by decide
  have f9 : Field.ofName? "display_hints" = some .display_hints := by decide
  have f10 : Field.ofName? "extra" = some .extra := by decide
  refine ⟨?_, ?_, ?_, ?_, ?_, ?_, ?_, ?_, ?_, ?_, ?_⟩
  · simp [setField, f0, setFieldT, parseVersion, getStr, guardE, hv, bind, Except.bind, pure, Except.pure, Except.map]
  · simp [setField, f1, setFieldT, getBool, Except.map]
  · cases hax' : m.axes with
    | none => simp [setField, f2, setFieldT, parseAxesField, dumpAxesOpt, Except.map]
    | some l =>
      have : mapE parseAxis (l.map dumpAxis) = .ok l :=
        mapE_map_id l (fun a ha => parseAxis_dump ((hax l hax').2.1 a ha))
      simp [setField, f2, setFieldT, parseAxesField, dumpAxesOpt, this, Except.map]
  · simp [setField, f3, setFieldT, parsePropsDict_dump hnp hn, Except.map]
  · simp [setField, f4, setFieldT, parsePropsDict_dump hnp he, Except.map]
  · simp [setField, f5, setFieldT, getOptStr_dump, Except.map]
  · simp [setField, f6, setFieldT, getOptStr_dump, Except.map]
  · cases ht' : m.track_node_props with
    | none => simp [setField, f7, setFieldT, parseTrackProps, dumpTrackOpt, Except.map]
    | some l => simp [setField, f7, setFieldT, dumpTrackOpt, parseTrackProps_dump (ht l ht'), Except.map]
  · cases hr' : m.related_objects with
    | none => simp [setField, f8, setFieldT, parseRelatedField, dumpRelatedOpt, Except.map]
    | some l =>
      have : mapE parseRelated (l.map dumpRelated) = .ok l :=
        mapE_map_id l (fun r hr'' => parseRelated_dump (hr l hr' r hr''))
      simp [setField, f8, setFieldT, parseRelatedField, dumpRelatedOpt, this, Except.map]
  · cases hd' : m.display_hints with
    | none => simp [setField, f9, setFieldT, parseHintField, dumpHintOpt, Except.map]
    | some h => simp [setField, f9, setFieldT, dumpHintOpt, parseHintField_dump, Except.map]
  · simp [setField, f10, setFieldT, parseExtraField, Except.map]

theorem vfa_step {env : Env} {kvs : List (String × J)} {f : String} {fs : List String} {acc acc' : Meta} {v : J}
    (hl : lookup kvs f = some v) (hs : setField env acc f v = .ok acc') :
    validateFieldsAux env kvs (f :: fs) acc = validateFieldsAux env kvs fs acc' := by
  simp [validateFieldsAux, hl, hs, bind, Except.bind]

theorem fieldNames_eq : fieldNames =
    ["geff_version", "directed", "axes", "node_props_metadata", "edge_props_metadata", "sphere", "ellipsoid",
     "track_node_props", "related_objects", "display_hints", "extra"] := by decide

theorem validateFieldsAux_dump {env : Env} (hnp : NpFix env) {m : Meta} (hm : ValidCode env m) :
    validateFieldsAux env (dumpFields m) fieldNames (blank env) = .ok m := by
  rw [fieldNames_eq]
  have s := setField_dump hnp hm
  have l0 : lookup (dumpFields m) "geff_version" = some (.str m.geff_version) := by
    simp only [dumpFields, lookup, String.reduceBEq, ↓reduceIte]
  have l1 : lookup (dumpFields m) "directed" = some (.bool m.directed) := by
    simp only [dumpFields, lookup, String.reduceBEq, Bool.false_eq_true, ↓reduceIte]
  have l2 : lookup (dumpFields m) "axes" = some (dumpAxesOpt m.axes) := by
    simp only [dumpFields, lookup, String.reduceBEq, Bool.false_eq_true, ↓reduceIte]
  have l3 : lookup (dumpFields m) "node_props_metadata" = some (dumpPropsDict m.node_props_metadata) := by
    simp only [dumpFields, lookup, String.reduceBEq, Bool.false_eq_true, ↓reduceIte]
  have l4 : lookup (dumpFields m) "edge_props_metadata" = some (dumpPropsDict m.edge_props_metadata) := by
    simp only [dumpFields, lookup, String.reduceBEq, Bool.false_eq_true, ↓reduceIte]
  have l5 : lookup (dumpFields m) "sphere" = some (optStrJ m.sphere) := by
    simp only [dumpFields, lookup, String.reduceBEq, Bool.false_eq_true, ↓reduceIte]
  have l6 : lookup (dumpFields m) "ellipsoid" = some (optStrJ m.ellipsoid) := by
    simp only [dumpFields, lookup, String.reduceBEq, Bool.false_eq_true, ↓reduceIte]
  have l7 : lookup (dumpFields m) "track_node_props" = some (dumpTrackOpt m.track_node_props) := by
    simp only [dumpFields, lookup, String.reduceBEq, Bool.false_eq_true, ↓reduceIte]
  have l8 : lookup (dumpFields m) "related_objects" = some (dumpRelatedOpt m.related_objects) := by
    simp only [dumpFields, lookup, String.reduceBEq, Bool.false_eq_true, ↓reduceIte]
  have l9 : lookup (dumpFields m) "display_hints" = some (dumpHintOpt m.display_hints) := by
    simp only [dumpFields, lookup, String.reduceBEq, Bool.false_eq_true, ↓reduceIte]
  have l10 : lookup (dumpFields m) "extra" = some (.obj m.extra) := by
    simp only [dumpFields, lookup, String.reduceBEq, Bool.false_eq_true, ↓reduceIte]
  rw [vfa_step l0 (s _).1, vfa_step l1 (s _).2.1, vfa_step l2 (s _).2.2.1, vfa_step l3 (s _).2.2.2.1,
    vfa_step l4 (s _).2.2.2.2.1, vfa_step l5 (s _).2.2.2.2.2.1, vfa_step l6 (s _).2.2.2.2.2.2.1,
    vfa_step l7 (s _).2.2.2.2.2.2.2.1, vfa_step l8 (s _).2.2.2.2.2.2.2.2.1,
    vfa_step l9 (s _).2.2.2.2.2.2.2.2.2.1, vfa_step l10 (s _).2.2.2.2.2.2.2.2.2.2]
  simp only [validateFieldsAux]

theorem providedFields_dump (m : Meta) : providedFields (dumpFields m) = fieldNames := by
  rw [providedFields, fieldNames_eq]
  simp only [dumpFields, lookup, List.filter, String.reduceBEq, Bool.false_eq_true, ↓reduceIte, Option.isSome]

/-- **parse ∘ dump = id** on valid metadata (all fields come back, all fields are "set") -/
theorem parse_dump {env : Env} (hnp : NpFix env) {m : Meta} (hm : ValidCode env m) :
    parse env (dump m) = .ok { val := m, fieldsSet := fieldNames } := by
  have hafter : modelAfterOk m = true := ((validCode_iff env m).1 hm).2
  simp only [dump, parse, validateFieldsAux_dump hnp hm, validateModelAfter, hafter, providedFields_dump,
    bind, Except.bind, pure, Except.pure, if_true]

theorem readAttrs_writeAttrs {env : Env} (hnp : NpFix env) {m : Meta} (hm : ValidCode env m) (a : Attrs) :
    readAttrs env (writeAttrs a m) = .ok { val := m, fieldsSet := fieldNames } := by
  have h := parse_dump hnp hm
  unfold dump at h
  simp only [readAttrs, writeAttrs, lookup_setKey_same, dump, h]

theorem foreign_attrs_kept (a : Attrs) (m : Meta) (k : String) (hk : k ≠ "geff") :
    lookup (writeAttrs a m) k = lookup a k :=
  lookup_setKey_other a "geff" k (dump m) hk

end Geff.Meta

/-! ### the non-validating decoder used by the specification oracle is a left inverse of `dump` -/
namespace Geff.Meta

theorem mapO_map_id {α β : Type} {f : β → Option α} {g : α → β} :
    ∀ (xs : List α), (∀ x ∈ xs, f (g x) = some x) → mapO f (xs.map g) = some xs := by
  intro xs
  induction xs with
  | nil => intro _; simp [mapO]
  | cons x xs ih =>
    intro h
    simp [mapO, h x (by simp), ih (fun y hy => h y (by simp [hy]))]

theorem ofDumpOptStr_dump (s : Option String) : ofDumpOptStr (some (optStrJ s)) = some s := by
  cases s <;> simp [optStrJ, ofDumpOptStr]

theorem ofDumpOptNum_dump (f : Option F) : ofDumpOptNum (some (optNumJ f)) = some f := by
  cases f <;> simp [optNumJ, ofDumpOptNum]

theorem ofDumpAxis_dump (a : Axis) : ofDumpAxis (dumpAxis a) = some a := by
  obtain ⟨name, type, unit, min, max, scale, su, offset⟩ := a
  simp only [dumpAxis, ofDumpAxis, lookup, String.reduceBEq, Bool.false_eq_true, ↓reduceIte, ofDumpStr,
    ofDumpOptStr_dump, ofDumpOptNum_dump, bind, Option.bind, pure]

theorem ofDumpProp_dump (p : PropMeta) : ofDumpProp (dumpProp p) = some p := by
  obtain ⟨ident, dtype, vl, unit, name, desc⟩ := p
  simp only [dumpProp, ofDumpProp, lookup, String.reduceBEq, Bool.false_eq_true, ↓reduceIte, ofDumpStr, ofDumpBool,
    ofDumpOptStr_dump, bind, Option.bind, pure]

theorem ofDumpRelated_dump (r : RelatedObject) : ofDumpRelated (dumpRelated r) = some r := by
  obtain ⟨t, p, l⟩ := r
  simp only [dumpRelated, ofDumpRelated, lookup, String.reduceBEq, Bool.false_eq_true, ↓reduceIte, ofDumpStr,
    ofDumpOptStr_dump, bind, Option.bind, pure]

theorem ofDumpHint_dump (h : DisplayHint) : ofDumpHint (dumpHint h) = some h := by
  obtain ⟨a, b, c, d⟩ := h
  simp only [dumpHint, ofDumpHint, lookup, String.reduceBEq, Bool.false_eq_true, ↓reduceIte, ofDumpStr,
    ofDumpOptStr_dump, bind, Option.bind, pure]

theorem ofDumpPropsDict_dump (d : List (String × PropMeta)) :
    ofDumpPropsDict (some (dumpPropsDict d)) = some d := by
  simp only [dumpPropsDict, ofDumpPropsDict]
  apply mapO_map_id
  intro kv _
  simp [ofDumpProp_dump, Option.map]

theorem ofDumpAxesOpt_dump (a : Option (List Axis)) : ofDumpAxesOpt (some (dumpAxesOpt a)) = some a := by
  cases a with
  | none => simp [dumpAxesOpt, ofDumpAxesOpt]
  | some l =>
    have : mapO ofDumpAxis (l.map dumpAxis) = some l := mapO_map_id l (fun a _ => ofDumpAxis_dump a)
    simp [dumpAxesOpt, ofDumpAxesOpt, this]

theorem ofDumpRelatedOpt_dump (a : Option (List RelatedObject)) :
    ofDumpRelatedOpt (some (dumpRelatedOpt a)) = some a := by
  cases a with
  | none => simp [dumpRelatedOpt, ofDumpRelatedOpt]
  | some l =>
    have : mapO ofDumpRelated (l.map dumpRelated) = some l := mapO_map_id l (fun a _ => ofDumpRelated_dump a)
    simp [dumpRelatedOpt, ofDumpRelatedOpt, this]

theorem ofDumpTrackOpt_dump (t : Option (List (String × String))) :
    ofDumpTrackOpt (some (dumpTrackOpt t)) = some t := by
  cases t with
  | none => simp [dumpTrackOpt, ofDumpTrackOpt]
  | some l =>
    have : mapO (fun (kv : String × J) => (ofDumpStr (some kv.2)).map (fun s => (kv.1, s)))
        (l.map (fun kv => (kv.1, J.str kv.2))) = some l := by
      apply mapO_map_id
      intro kv _
      simp [ofDumpStr]
    simp [dumpTrackOpt, ofDumpTrackOpt, this]

theorem ofDumpHintOpt_dump (h : Option DisplayHint) : ofDumpHintOpt (some (dumpHintOpt h)) = some h := by
  cases h with
  | none => simp [dumpHintOpt, ofDumpHintOpt]
  | some h =>
    have := ofDumpHint_dump h
    unfold dumpHint at this
    simp only [dumpHintOpt, dumpHint, ofDumpHintOpt, this, Option.map]

/-- decoding a dump gives back exactly the value that was dumped — for every value, valid or not -/
theorem ofDump_dump (m : Meta) : ofDump (dump m) = some m := by
  obtain ⟨v, d, ax, n, e, sp, el, t, r, h, ex⟩ := m
  simp only [dump, dumpFields, ofDump, lookup, String.reduceBEq, Bool.false_eq_true, ↓reduceIte, ofDumpStr, ofDumpBool,
    ofDumpAxesOpt_dump, ofDumpPropsDict_dump, ofDumpOptStr_dump, ofDumpTrackOpt_dump, ofDumpRelatedOpt_dump,
    ofDumpHintOpt_dump, ofDumpExtra, bind, Option.bind, pure]

end Geff.Meta
