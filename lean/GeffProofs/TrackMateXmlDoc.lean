import GeffProofs.TrackMateXml
import GeffModel.TrackMateXmlDoc
/-! # C16 — the tree-level walk of a file in standard layout is the abstract converter on `docOfTree` -/
namespace Geff.TrackMate.Xml
open Geff.TrackMate

abbrev tmAddAllNodes := @_root_.Geff.TrackMate.addAllNodes
abbrev tmAddEdge := @_root_.Geff.TrackMate.addEdge
abbrev tmAddEdges := @_root_.Geff.TrackMate.addEdges
abbrev tmBuildTracks := @_root_.Geff.TrackMate.buildTracks

@[simp] theorem tag_node (t : String) (a : List (String × String)) (x : Option String) (k : List Tree) : (Tree.node t a x k).tag = t := rfl
@[simp] theorem attrs_node (t : String) (a : List (String × String)) (x : Option String) (k : List Tree) : (Tree.node t a x k).attrs = a := rfl
@[simp] theorem text_node (t : String) (a : List (String × String)) (x : Option String) (k : List Tree) : (Tree.node t a x k).text = x := rfl
@[simp] theorem kids_node (t : String) (a : List (String × String)) (x : Option String) (k : List Tree) : (Tree.node t a x k).kids = k := rfl

theorem foldO_append {σ α : Type} (f : σ → α → Outcome σ) (a b : List α) (s : σ) :
    foldO f s (a ++ b) = match foldO f s a with
      | .exc x => .exc x
      | .ok s' => foldO f s' b := by
  induction a generalizing s with
  | nil => simp [foldO]
  | cons x xs ih =>
    simp only [List.cons_append, foldO]
    cases f s x with
    | exc e => simp
    | ok s' => simpa using ih s'

theorem leaf_kids (k : Tree) (h : isLeaf k = true) : ∃ tag a tx, k = .node tag a tx [] := by
  cases k with
  | node tag a tx kids =>
    simp only [isLeaf, kids_node, List.isEmpty_iff] at h
    exact ⟨tag, a, tx, by rw [h]⟩

theorem preKids_leaves (ks : List Tree) (h : ∀ k ∈ ks, isLeaf k = true) : preKids ks = ks := by
  induction ks with
  | nil => rfl
  | cons k ks ih =>
    obtain ⟨tag, a, tx, rfl⟩ := leaf_kids k (h k (by simp))
    simp [preKids, pre, ih (fun k' hk' => h k' (by simp [hk']))]

theorem postKids_leaves (ks : List Tree) (h : ∀ k ∈ ks, isLeaf k = true) : postKids ks = ks := by
  induction ks with
  | nil => rfl
  | cons k ks ih =>
    obtain ⟨tag, a, tx, rfl⟩ := leaf_kids k (h k (by simp))
    simp [postKids, post, ih (fun k' hk' => h k' (by simp [hk']))]

/-! ### spots -/

theorem tmAddAllNodes_cons (md : List Feat) (s : Spot) (rest : List Spot) (g : Graph) (seg : Bool) :
    tmAddAllNodes md (s :: rest) g seg = match spotCoreDoc md seg s with
      | .exc e => .exc e
      | .ok (_, seg', none) => tmAddAllNodes md rest g seg'
      | .ok (a, seg', some i) => tmAddAllNodes md rest (g.addNode i a) seg' := by
  simp only [tmAddAllNodes]
  rw [_root_.Geff.TrackMate.addAllNodes]
  unfold spotCoreDoc
  cases convertAttributes md (spotTexts s) with
  | exc e => rfl
  | ok attrs =>
    cases hr : s.roi with
    | some r =>
      cases hc : convertRoi r attrs with
      | exc e => simp [hc]
      | ok a => cases hi : s.id <;> simp [hc, hi]
    | none => cases seg <;> cases hi : s.id <;> simp [hi]

theorem tmAddAllNodes_append (md : List Feat) (l1 l2 : List Spot) (g : Graph) (seg : Bool) :
    tmAddAllNodes md (l1 ++ l2) g seg = match tmAddAllNodes md l1 g seg with
      | .exc e => .exc e
      | .ok (g', seg') => tmAddAllNodes md l2 g' seg' := by
  induction l1 generalizing g seg with
  | nil => simp [tmAddAllNodes, _root_.Geff.TrackMate.addAllNodes]
  | cons s rest ih =>
    rw [List.cons_append, tmAddAllNodes_cons, tmAddAllNodes_cons]
    cases spotCoreDoc md seg s with
    | exc e => simp
    | ok r =>
      obtain ⟨a, seg', oi⟩ := r
      cases oi <;> simp [ih]

theorem fold_spots (lex : String → Txt) (md : List Feat) (els : List Tree)
    (h : ∀ k ∈ els, (k.tag == "Spot" && isLeaf k && spotExactB lex md k) = true) (g : Graph) (seg : Bool) :
    foldO (spotStepT lex md) (g, seg) els = tmAddAllNodes md (els.map (spotOfEl lex)) g seg := by
  induction els generalizing g seg with
  | nil => simp [foldO, tmAddAllNodes, _root_.Geff.TrackMate.addAllNodes]
  | cons k ks ih =>
    have hk := h k (by simp)
    simp only [Bool.and_eq_true, spotExactB, decide_eq_true_eq] at hk
    obtain ⟨⟨htag, _⟩, hf, ht⟩ := hk
    have hex : spotCoreRaw lex md seg k.attrs k.text = spotCoreDoc md seg (spotOfEl lex k) := by
      cases seg
      · exact hf
      · exact ht
    have ih' := fun g seg => ih (fun k' hk' => h k' (by simp [hk'])) g seg
    rw [List.map_cons, tmAddAllNodes_cons]
    simp only [foldO, spotStepT, htag, if_true, hex]
    cases spotCoreDoc md seg (spotOfEl lex k) with
    | exc e => simp
    | ok r =>
      obtain ⟨a, seg', oi⟩ := r
      cases oi <;> simp [ih']

theorem spotStepT_other (lex : String → Txt) (md : List Feat) (st : Graph × Bool) (t : Tree) (h : (t.tag == "Spot") = false) :
    spotStepT lex md st t = .ok st := by
  simp [spotStepT, h]

theorem fold_frames (lex : String → Txt) (md : List Feat) (frames : List Tree)
    (h : ∀ f ∈ frames, frameExactB lex md f = true) (g : Graph) (seg : Bool) :
    foldO (spotStepT lex md) (g, seg) (postKids frames) =
      tmAddAllNodes md (frames.flatMap (fun f => f.kids.map (spotOfEl lex))) g seg := by
  induction frames generalizing g seg with
  | nil => simp [postKids, foldO, tmAddAllNodes, _root_.Geff.TrackMate.addAllNodes]
  | cons f fs ih =>
    have hf := h f (by simp)
    have ih' := fun g seg => ih (fun k' hk' => h k' (by simp [hk'])) g seg
    cases f with
    | node tag a tx kids =>
      simp only [frameExactB, Bool.and_eq_true, Bool.not_eq_true', tag_node, kids_node] at hf
      obtain ⟨htag, hall⟩ := hf
      have hkids : ∀ k ∈ kids, (k.tag == "Spot" && isLeaf k && spotExactB lex md k) = true := List.all_eq_true.mp hall
      have hleaves : ∀ k ∈ kids, isLeaf k = true := fun k hk => by
        have := hkids k hk
        simp only [Bool.and_eq_true] at this
        exact this.1.2
      rw [postKids, post, postKids_leaves kids hleaves, List.flatMap_cons, tmAddAllNodes_append, List.append_assoc, foldO_append,
        fold_spots lex md kids hkids]
      simp only [kids_node]
      cases tmAddAllNodes md (kids.map (spotOfEl lex)) g seg with
      | exc e => rfl
      | ok r =>
        obtain ⟨g', seg'⟩ := r
        simp only [List.singleton_append, foldO, spotStepT_other lex md (g', seg') (.node tag a tx kids) (by simpa using htag)]
        exact ih' g' seg'

theorem tag_ne_of_kind {tag lit : String} {k : TagKind} (hk : kindOf tag = k) (hl : kindOf lit ≠ k) : (tag == lit) = false := by
  cases h : (tag == lit) with
  | false => rfl
  | true =>
    have := eq_of_beq h
    subst this
    exact absurd hk hl

theorem spotsOfSection_doc (lex : String → Txt) (md : List Feat) (sp : Tree) (hk : kindOf sp.tag = .allSpots)
    (h : sp.kids.all (frameExactB lex md) = true) (g : Graph) :
    spotsOfSection lex md g sp = tmAddAllNodes md (sp.kids.flatMap (fun f => f.kids.map (spotOfEl lex))) g false := by
  cases sp with
  | node tag a tx kids =>
    simp only [tag_node, kids_node] at hk h
    have h' := List.all_eq_true.mp h
    cases kids with
    | nil => simp [spotsOfSection, tmAddAllNodes, _root_.Geff.TrackMate.addAllNodes]
    | cons f fs =>
      simp only [spotsOfSection, kids_node]
      rw [post, foldO_append, fold_frames lex md (f :: fs) h']
      cases tmAddAllNodes md ((f :: fs).flatMap (fun f => f.kids.map (spotOfEl lex))) g false with
      | exc e => rfl
      | ok r =>
        simp only [foldO, spotStepT_other lex md r (.node tag a tx (f :: fs))
          (by simpa using tag_ne_of_kind (lit := "Spot") hk (by decide))]

/-! ### tracks -/

theorem tmAddEdge_core (md : List Feat) (e : Edge) (g : Graph) (tid : Val) :
    tmAddEdge md e g tid = match edgeCoreDoc md e with
      | .exc x => .exc x
      | .ok none => .ok g
      | .ok (some (s, t, a)) =>
        match stamp (g.addEdge s t a) s tid with
        | .exc x => .exc x
        | .ok g' => stamp g' t tid := by
  simp only [tmAddEdge, _root_.Geff.TrackMate.addEdge, edgeCoreDoc]
  cases convertAttributes md (edgeTexts e) <;> rfl

theorem addEdgeRaw_doc (lex : String → Txt) (md : List Feat) (el : Tree) (h : edgeExactB lex md el = true) (g : Graph) (tid : Val) :
    addEdgeRaw lex md el.attrs g tid = tmAddEdge md (edgeOfEl lex el) g tid := by
  simp only [edgeExactB, decide_eq_true_eq] at h
  rw [tmAddEdge_core, addEdgeRaw, h]
  cases edgeCoreDoc md (edgeOfEl lex el) with
  | exc x => rfl
  | ok r =>
    cases r with
    | none => rfl
    | some v => obtain ⟨s, t, a⟩ := v; rfl

theorem fold_edges (lex : String → Txt) (md : List Feat) (els : List Tree)
    (h : ∀ k ∈ els, (k.tag == "Edge" && isLeaf k && edgeExactB lex md k) = true) (tid : Val) (g : Graph) :
    foldO (trackStepT lex md) (some tid, g) els = match tmAddEdges md tid (els.map (edgeOfEl lex)) g with
      | .exc x => .exc x
      | .ok g' => .ok (some tid, g') := by
  induction els generalizing g with
  | nil => simp [foldO, tmAddEdges, _root_.Geff.TrackMate.addEdges]
  | cons k ks ih =>
    have hk := h k (by simp)
    simp only [Bool.and_eq_true] at hk
    obtain ⟨⟨htag, _⟩, hex⟩ := hk
    have htag' : k.tag = "Edge" := eq_of_beq htag
    have ih' := fun g => ih (fun k' hk' => h k' (by simp [hk'])) g
    simp only [foldO, List.map_cons, tmAddEdges, _root_.Geff.TrackMate.addEdges, trackStepT, htag']
    have : ("Edge" == "Track") = false := by decide
    simp only [this, Bool.false_eq_true, if_false, beq_self_eq_true, if_true, addEdgeRaw_doc lex md k hex, tmAddEdge]
    cases _root_.Geff.TrackMate.addEdge md (edgeOfEl lex k) g tid with
    | exc x => simp
    | ok g' => simpa [tmAddEdges] using ih' g'

theorem tmBuildTracks_cons (md : List Feat) (t : Track) (rest : List Track) (g : Graph) :
    tmBuildTracks md (t :: rest) g = match trackCoreDoc md t with
      | .exc x => .exc x
      | .ok tid => match tmAddEdges md tid t.edges g with
        | .exc x => .exc x
        | .ok g' => tmBuildTracks md rest g' := by
  simp only [tmBuildTracks, _root_.Geff.TrackMate.buildTracks, trackCoreDoc, tmAddEdges]
  cases convertAttributes md (trackTexts t) with
  | exc x => simp
  | ok a =>
    cases h2 : aget? a "TRACK_ID" with
    | none => simp [h2]
    | some tid =>
      simp [h2]
      cases _root_.Geff.TrackMate.addEdges md tid t.edges g <;> rfl

theorem fold_tracks (lex : String → Txt) (md : List Feat) (els : List Tree)
    (h : ∀ k ∈ els, trackExactB lex md k = true) (cur : Option Val) (g : Graph) :
    (match foldO (trackStepT lex md) (cur, g) (preKids els) with
      | .exc x => .exc x
      | .ok st => .ok st.2) = tmBuildTracks md (els.map (trackOfEl lex)) g := by
  induction els generalizing cur g with
  | nil => simp [preKids, foldO, tmBuildTracks, _root_.Geff.TrackMate.buildTracks]
  | cons k ks ih =>
    have hk := h k (by simp)
    have ih' := fun cur g => ih (fun k' hk' => h k' (by simp [hk'])) cur g
    cases k with
    | node tag a tx kids =>
      simp only [trackExactB, Bool.and_eq_true, decide_eq_true_eq, tag_node, kids_node, attrs_node] at hk
      obtain ⟨⟨htag, hcore⟩, hall⟩ := hk
      have hkids : ∀ k ∈ kids, (k.tag == "Edge" && isLeaf k && edgeExactB lex md k) = true := List.all_eq_true.mp hall
      have htag' : tag = "Track" := eq_of_beq htag
      subst htag'
      have hleaves : ∀ k ∈ kids, isLeaf k = true := fun k hk => by
        have := hkids k hk
        simp only [Bool.and_eq_true] at this
        exact this.1.2
      rw [List.map_cons, tmBuildTracks_cons, preKids, pre, preKids_leaves kids hleaves, List.cons_append]
      simp only [foldO, trackStepT, tag_node, beq_self_eq_true, if_true, attrs_node]
      rw [of_decide_eq_true hcore]
      cases trackCoreDoc md (trackOfEl lex (.node "Track" a tx kids)) with
      | exc x => rfl
      | ok tid =>
        simp only []
        rw [foldO_append, fold_edges lex md kids hkids tid g]
        have hedges : (trackOfEl lex (.node "Track" a tx kids)).edges = kids.map (edgeOfEl lex) := rfl
        rw [hedges]
        cases tmAddEdges md tid (kids.map (edgeOfEl lex)) g with
        | exc x => rfl
        | ok g' => exact ih' (some tid) g'

theorem tracksOfKids_doc (lex : String → Txt) (md : List Feat) (kids : List Tree)
    (h : kids.all (trackExactB lex md) = true) (g : Graph) :
    tracksOfKids lex md g kids = tmBuildTracks md (kids.map (trackOfEl lex)) g := by
  rw [← fold_tracks lex md kids (by simpa [List.all_eq_true] using h) none g]
  rfl

/-! ### feature declarations -/

theorem fold_feats (els : List Tree) (h : ∀ k ∈ els, (k.tag == "Feature" && isLeaf k && isOk (featOf k.attrs)) = true)
    (acc : List Feat) : foldO featStepT acc els = .ok (acc ++ els.map featD) := by
  induction els generalizing acc with
  | nil => simp [foldO]
  | cons k ks ih =>
    have hk := h k (by simp)
    simp only [Bool.and_eq_true] at hk
    obtain ⟨⟨htag, _⟩, hok⟩ := hk
    have ih' := fun acc => ih (fun k' hk' => h k' (by simp [hk'])) acc
    simp only [foldO, featStepT, htag, if_true, List.map_cons, featD]
    cases hf : featOf k.attrs with
    | exc x => simp [hf, isOk] at hok
    | ok f => simp [ih']

theorem featStepT_other (acc : List Feat) (t : Tree) (h : (t.tag == "Feature") = false) : featStepT acc t = .ok acc := by
  simp [featStepT, h]

theorem featSection_split (tag : String) (el : Tree) (h : featSectionB tag el = true) :
    el.tag = tag ∧ (∀ k ∈ el.kids, (k.tag == "Feature" && isLeaf k && isOk (featOf k.attrs)) = true) ∧
      (∀ k ∈ el.kids, isLeaf k = true) := by
  simp only [featSectionB, Bool.and_eq_true] at h
  have h2 := List.all_eq_true.mp h.2
  refine ⟨eq_of_beq h.1, h2, fun k hk => ?_⟩
  have := h2 k hk
  simp only [Bool.and_eq_true] at this
  exact this.1.2

theorem featuresOfKids_doc (s1 s2 s3 : Tree) (h1 : featSectionB "SpotFeatures" s1 = true)
    (h2 : featSectionB "EdgeFeatures" s2 = true) (h3 : featSectionB "TrackFeatures" s3 = true) :
    featuresOfKids [s1, s2, s3] = .ok (sectionFeats s1 ++ sectionFeats s2 ++ sectionFeats s3) := by
  obtain ⟨t1, f1, l1⟩ := featSection_split _ _ h1
  obtain ⟨t2, f2, l2⟩ := featSection_split _ _ h2
  obtain ⟨t3, f3, l3⟩ := featSection_split _ _ h3
  cases s1 with
  | node tag1 a1 x1 k1 =>
  cases s2 with
  | node tag2 a2 x2 k2 =>
  cases s3 with
  | node tag3 a3 x3 k3 =>
    simp only [tag_node, kids_node] at t1 t2 t3 f1 f2 f3 l1 l2 l3
    subst t1 t2 t3
    simp only [featuresOfKids, preKids, pre, preKids_leaves k1 l1, preKids_leaves k2 l2, preKids_leaves k3 l3, List.append_nil,
      List.cons_append, List.drop_one, List.tail_cons]
    rw [foldO_append, fold_feats k1 f1]
    simp only [List.nil_append, foldO, featStepT_other _ (Tree.node "EdgeFeatures" a2 x2 k2) (by rw [tag_node]; decide)]
    rw [foldO_append, fold_feats k2 f2]
    simp only [foldO, featStepT_other _ (Tree.node "TrackFeatures" a3 x3 k3) (by rw [tag_node]; decide)]
    rw [fold_feats k3 f3]
    simp [sectionFeats]

/-! ### layout -/

theorem walkKids_dropWhile (lex : String → Txt) (ds dt : Bool) (ts : List Tree) (st : BD) :
    walkKids lex ds dt ts st = walkKids lex ds dt (ts.dropWhile ignoredB) st := by
  induction ts with
  | nil => rfl
  | cons t ts ih =>
    by_cases h : ignoredB t = true
    · rw [List.dropWhile_cons_of_pos h, ← ih]
      simp [walkKids, walk_ignored lex ds dt t h st]
    · rw [List.dropWhile_cons_of_neg h]

theorem walkKids_filter (lex : String → Txt) (ds dt : Bool) (ts : List Tree) (st : BD) :
    walkKids lex ds dt ts st = walkKids lex ds dt (ts.filter (fun k => !ignoredB k)) st := by
  induction ts generalizing st with
  | nil => rfl
  | cons t ts ih =>
    by_cases h : ignoredB t = true
    · rw [List.filter_cons_of_neg (by simp [h]), ← ih]
      simp [walkKids, walk_ignored lex ds dt t h st]
    · rw [List.filter_cons_of_pos (by simpa using h)]
      simp only [walkKids]
      cases walk lex ds dt t st with
      | exc x => rfl
      | ok r =>
        obtain ⟨st', b⟩ := r
        cases b with
        | true => rfl
        | false => exact ih st'

/-- the sequential reading of a file in standard layout -/
def seqBuild (lex : String → Txt) (ds dt : Bool) (m fd sp tr : Tree) (ft : Option Tree) : Outcome BD :=
  match featuresOfKids fd.kids with
  | .exc x => .exc x
  | .ok md =>
    match spotsOfSection lex md {} sp with
    | .exc x => .exc x
    | .ok (g, seg) =>
      match tracksOfKids lex md g tr.kids with
      | .exc x => .exc x
      | .ok g =>
        match ft with
        | none => .ok { g := dropLone ds g, seg := seg, units := getUnits m.attrs, md := md }
        | some f => match filteredOfSection lex f with
          | .exc x => .exc x
          | .ok keep => .ok { g := dropUnlisted dt keep (dropLone ds g), seg := seg, units := getUnits m.attrs, md := md }

theorem walk_fd (lex : String → Txt) (ds dt : Bool) (fd : Tree) (h : kindOf fd.tag = .featureDecls) (st : BD) :
    walk lex ds dt fd st = match featuresOfKids fd.kids with
      | .exc x => .exc x
      | .ok md => .ok ({ st with md := md }, false) := by
  cases fd with
  | node tag a tx kids =>
    simp only [tag_node] at h
    simp only [walk, h, kids_node]
    cases featuresOfKids kids <;> rfl

theorem walk_sp (lex : String → Txt) (ds dt : Bool) (sp : Tree) (h : kindOf sp.tag = .allSpots) (st : BD) :
    walk lex ds dt sp st = match spotsOfSection lex st.md st.g sp with
      | .exc x => .exc x
      | .ok (g, seg) => .ok ({ st with g := g, seg := seg }, false) := by
  cases sp with
  | node tag a tx kids =>
    simp only [tag_node] at h
    simp only [walk, h]
    cases spotsOfSection lex st.md st.g (Tree.node tag a tx kids) with
    | exc x => rfl
    | ok r => cases r; rfl

theorem walk_tr (lex : String → Txt) (ds dt : Bool) (tr : Tree) (h : kindOf tr.tag = .allTracks) (st : BD) :
    walk lex ds dt tr st = match tracksOfKids lex st.md st.g tr.kids with
      | .exc x => .exc x
      | .ok g => .ok ({ st with g := dropLone ds g }, false) := by
  cases tr with
  | node tag a tx kids =>
    simp only [tag_node] at h
    simp only [walk, h, kids_node]
    cases tracksOfKids lex st.md st.g kids <;> rfl

theorem walk_ft (lex : String → Txt) (ds dt : Bool) (ft : Tree) (h : kindOf ft.tag = .filteredTracks) (st : BD) :
    walk lex ds dt ft st = match filteredOfSection lex ft with
      | .exc x => .exc x
      | .ok keep => .ok ({ st with g := dropUnlisted dt keep st.g }, false) := by
  cases ft with
  | node tag a tx kids =>
    simp only [tag_node] at h
    simp only [walk, h]
    cases filteredOfSection lex (Tree.node tag a tx kids) <;> rfl

theorem build_of_parts (lex : String → Txt) (ds dt : Bool) (t m : Tree) (rest : List Tree)
    (hroot : t.kids.dropWhile ignoredB = m :: rest) (hm : kindOf m.tag = .model) :
    buildDataTree lex ds dt t =
      match walkKids lex ds dt (m.kids.filter (fun k => !ignoredB k)) { units := getUnits m.attrs } with
      | .exc x => .exc x
      | .ok (st, _) => .ok st := by
  unfold buildDataTree
  rw [walkKids_dropWhile, hroot]
  cases m with
  | node tag a tx kids =>
    simp only [tag_node] at hm
    simp only [walkKids, walk, hm, kids_node, attrs_node]
    rw [walkKids_filter]
    cases walkKids lex ds dt (kids.filter (fun k => !ignoredB k)) { units := getUnits a } with
    | exc x => rfl
    | ok r => obtain ⟨st, b⟩ := r; rfl

theorem buildDataTree_layout (lex : String → Txt) (ds dt : Bool) (t : Tree) (L : Layout) (h : layoutOf t = some L) :
    buildDataTree lex ds dt t = seqBuild lex ds dt L.model L.fd L.allSpots L.allTracks L.ft ∧
      kindOf L.allSpots.tag = .allSpots := by
  unfold layoutOf at h
  split at h
  · cases h
  · rename_i m rest hroot
    split at h
    · rename_i hm
      have hm' : kindOf m.tag = .model := by simpa using hm
      have hb := build_of_parts lex ds dt t m rest hroot hm'
      split at h
      · rename_i fd sp tr hkids
        split at h
        · rename_i hk
          simp only [Bool.and_eq_true, beq_iff_eq] at hk
          obtain ⟨⟨h1, h2⟩, h3⟩ := hk
          cases h
          refine ⟨?_, h2⟩
          rw [hb, hkids]
          simp only [walkKids, walk_fd lex ds dt fd h1, seqBuild]
          cases featuresOfKids fd.kids with
          | exc x => rfl
          | ok md =>
            simp only [walk_sp lex ds dt sp h2]
            cases spotsOfSection lex md {} sp with
            | exc x => rfl
            | ok r =>
              obtain ⟨g, seg⟩ := r
              simp only [walk_tr lex ds dt tr h3]
              cases tracksOfKids lex md g tr.kids with
              | exc x => rfl
              | ok g' => rfl
        · cases h
      · rename_i fd sp tr ft hkids
        split at h
        · rename_i hk
          simp only [Bool.and_eq_true, beq_iff_eq] at hk
          obtain ⟨⟨⟨h1, h2⟩, h3⟩, h4⟩ := hk
          cases h
          refine ⟨?_, h2⟩
          rw [hb, hkids]
          simp only [walkKids, walk_fd lex ds dt fd h1, seqBuild]
          cases featuresOfKids fd.kids with
          | exc x => rfl
          | ok md =>
            simp only [walk_sp lex ds dt sp h2]
            cases spotsOfSection lex md {} sp with
            | exc x => rfl
            | ok r =>
              obtain ⟨g, seg⟩ := r
              simp only [walk_tr lex ds dt tr h3]
              cases tracksOfKids lex md g tr.kids with
              | exc x => rfl
              | ok g' =>
                simp only [walk_ft lex ds dt ft h4]
                cases filteredOfSection lex ft with
                | exc x => rfl
                | ok keep => rfl
        · cases h
      · cases h
    · cases h

theorem discard_none (ds dt : Bool) (g : Graph) : discard none ds dt g = dropLone ds g := rfl
theorem discard_some (keep : List Int) (ds dt : Bool) (g : Graph) : discard (some keep) ds dt g = dropUnlisted dt keep (dropLone ds g) := rfl

/-- **the walk of a file in standard layout is the abstract converter on its abstract document** -/
theorem buildDataTree_doc (lex : String → Txt) (ds dt : Bool) (t : Tree) (d : Doc) (h : docOfTree lex t = some d) :
    (match buildDataTree lex ds dt t with
      | .exc x => .exc x
      | .ok st => .ok (st.g, st.seg)) = buildData d ds dt := by
  unfold docOfTree at h
  split at h
  · cases h
  · rename_i L hL
    obtain ⟨hb, hsp⟩ := buildDataTree_layout lex ds dt t L hL
    split at h
    · rename_i s1 s2 s3 hfd
      cases hft : L.ft with
      | none =>
        simp only [hft] at h
        split at h
        · rename_i hc
          simp only [Bool.and_eq_true] at hc
          obtain ⟨⟨⟨⟨c1, c2⟩, c3⟩, c4⟩, c5⟩ := hc
          cases h
          rw [hb, seqBuild, hfd, featuresOfKids_doc s1 s2 s3 c1 c2 c3]
          simp only [hft, buildData, attrsMd]
          rw [spotsOfSection_doc lex _ L.allSpots hsp c4 {}]
          simp only [tmAddAllNodes]
          cases _root_.Geff.TrackMate.addAllNodes (sectionFeats s1 ++ sectionFeats s2 ++ sectionFeats s3)
              (L.allSpots.kids.flatMap (fun f => f.kids.map (spotOfEl lex))) {} false with
          | exc x => rfl
          | ok r =>
            obtain ⟨g, seg⟩ := r
            simp only []
            rw [tracksOfKids_doc lex _ L.allTracks.kids c5 g]
            simp only [tmBuildTracks]
            cases _root_.Geff.TrackMate.buildTracks (sectionFeats s1 ++ sectionFeats s2 ++ sectionFeats s3)
                (L.allTracks.kids.map (trackOfEl lex)) g with
            | exc x => rfl
            | ok g' => simp [discard_none]
        · cases h
      | some ft =>
        simp only [hft] at h
        cases hfl : filteredOfSection lex ft with
        | exc x => simp [hfl] at h
        | ok keep =>
          simp only [hfl] at h
          split at h
          · rename_i hc
            simp only [Bool.and_eq_true] at hc
            obtain ⟨⟨⟨⟨c1, c2⟩, c3⟩, c4⟩, c5⟩ := hc
            cases h
            rw [hb, seqBuild, hfd, featuresOfKids_doc s1 s2 s3 c1 c2 c3]
            simp only [hft, buildData, attrsMd]
            rw [spotsOfSection_doc lex _ L.allSpots hsp c4 {}]
            simp only [tmAddAllNodes]
            cases _root_.Geff.TrackMate.addAllNodes (sectionFeats s1 ++ sectionFeats s2 ++ sectionFeats s3)
                (L.allSpots.kids.flatMap (fun f => f.kids.map (spotOfEl lex))) {} false with
            | exc x => rfl
            | ok r =>
              obtain ⟨g, seg⟩ := r
              simp only []
              rw [tracksOfKids_doc lex _ L.allTracks.kids c5 g]
              simp only [tmBuildTracks]
              cases _root_.Geff.TrackMate.buildTracks (sectionFeats s1 ++ sectionFeats s2 ++ sectionFeats s3)
                  (L.allTracks.kids.map (trackOfEl lex)) g with
              | exc x => rfl
              | ok g' => simp [hfl, discard_some]
          · cases h
    · cases h

theorem lookup_append_single (a : List (String × String)) (k k' v : String) :
    (a ++ [(k', v)]).lookup k = match a.lookup k with
      | some x => some x
      | none => if k == k' then some v else none := by
  induction a with
  | nil => simp [List.lookup]
  | cons p ps ih =>
    obtain ⟨pk, pv⟩ := p
    simp only [List.cons_append, List.lookup]
    cases h : (k == pk) <;> simp [ih]

theorem getUnits_space (a : List (String × String)) :
    (getUnits a).lookup "spatialunits" = some ((a.lookup "spatialunits").getD "pixel") := by
  unfold getUnits
  cases h : a.lookup "spatialunits" with
  | none =>
    simp only [h, Option.isNone_none, if_true, Option.getD_none]
    split
    · rw [lookup_append_single, lookup_append_single, h]; simp
    · rw [lookup_append_single, h]; simp
  | some v =>
    simp only [h, Option.isNone_some, Bool.false_eq_true, if_false, Option.getD_some]
    split
    · rw [lookup_append_single, h]
    · exact h

theorem getUnits_time (a : List (String × String)) :
    (getUnits a).lookup "timeunits" = some ((a.lookup "timeunits").getD "frame") := by
  unfold getUnits
  cases h : a.lookup "spatialunits" with
  | none =>
    simp only [h, Option.isNone_none, if_true]
    have h1 : (a ++ [("spatialunits", "pixel")]).lookup "timeunits" = a.lookup "timeunits" := by
      rw [lookup_append_single]; cases a.lookup "timeunits" <;> simp
    rw [h1]
    cases h2 : a.lookup "timeunits" with
    | none => simp only [Option.isNone_none, if_true, Option.getD_none]; rw [lookup_append_single, h1, h2]; simp
    | some v => simp only [Option.isNone_some, Bool.false_eq_true, if_false, Option.getD_some]; rw [h1, h2]
  | some w =>
    simp only [h, Option.isNone_some, Bool.false_eq_true, if_false]
    cases h2 : a.lookup "timeunits" with
    | none => simp only [h2, Option.isNone_none, if_true, Option.getD_none]; rw [lookup_append_single, h2]; simp
    | some v => simp only [h2, Option.isNone_some, Bool.false_eq_true, if_false, Option.getD_some]

theorem seqBuild_units (lex : String → Txt) (ds dt : Bool) (m fd sp tr : Tree) (ft : Option Tree) (st : BD)
    (h : seqBuild lex ds dt m fd sp tr ft = .ok st) : st.units = getUnits m.attrs := by
  unfold seqBuild at h
  split at h
  · cases h
  · split at h
    · cases h
    · split at h
      · cases h
      · split at h
        · cases h; rfl
        · split at h
          · cases h
          · cases h; rfl

theorem docOfTree_units (lex : String → Txt) (t : Tree) (d : Doc) (h : docOfTree lex t = some d) :
    ∃ L, layoutOf t = some L ∧ d.space = L.model.attrs.lookup "spatialunits" ∧ d.time = L.model.attrs.lookup "timeunits" := by
  unfold docOfTree at h
  split at h
  · cases h
  · rename_i L hL
    refine ⟨L, hL, ?_⟩
    split at h
    · cases hft : L.ft with
      | none =>
        simp only [hft] at h
        split at h
        · cases h; exact ⟨rfl, rfl⟩
        · cases h
      | some ft =>
        simp only [hft] at h
        cases hfl : filteredOfSection lex ft with
        | exc x => simp [hfl] at h
        | ok keep =>
          simp only [hfl] at h
          split at h
          · cases h; exact ⟨rfl, rfl⟩
          · cases h
    · cases h

/-- the units `_build_data` returns for a file in standard layout -/
theorem buildDataTree_units (lex : String → Txt) (ds dt : Bool) (t : Tree) (d : Doc) (h : docOfTree lex t = some d) (st : BD)
    (hst : buildDataTree lex ds dt t = .ok st) :
    st.units.lookup "spatialunits" = some (d.space.getD "pixel") ∧ st.units.lookup "timeunits" = some (d.time.getD "frame") := by
  obtain ⟨L, hL, h1, h2⟩ := docOfTree_units lex t d h
  have hb := (buildDataTree_layout lex ds dt t L hL).1
  rw [hb] at hst
  rw [seqBuild_units lex ds dt _ _ _ _ _ st hst, h1, h2]
  exact ⟨getUnits_space _, getUnits_time _⟩

end Geff.TrackMate.Xml
