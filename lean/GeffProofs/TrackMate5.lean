import GeffProofs.TrackMate4
/-! # Helper lemmas for C16 (5): what `convert` returns on a well-formed document (`convert_out`), the
edges of the returned graph, `graph.edges` order lists every edge once. -/

namespace Geff.TrackMate

/-- what `convert` returns on a well-formed document, in terms of `finalGraph` -/
theorem convert_out (d : Doc) (h : WF d) (ds dt : Bool) (out : Out) (hc : convert d ds dt = .ok out) :
    out.nodes = (finalGraph d ds dt).nodes.map (·.1) ∧
    out.edges = (nxEdges (finalGraph d ds dt)).map (·.1) ∧
    out.nodeProps.map (fun p => (p.name, p.col)) = columns ((finalGraph d ds dt).nodes.map (·.2)) ∧
    out.edgeProps.map (fun p => (p.name, p.col)) = columns ((nxEdges (finalGraph d ds dt)).map (·.2)) ∧
    out.spaceUnit = d.space.getD "pixel" ∧ out.timeUnit = d.time.getD "frame" ∧
    out.lineageDeclared = ((finalGraph d ds dt).nodes.map (·.2)).any (fun a => ahas a "TRACK_ID") := by
  unfold convert at hc
  rw [buildData_final d h] at hc
  simp only at hc
  cases h1 : processFeatures (d.space.getD "pixel") (d.time.getD "frame") d.sf [] with
  | exc e => rw [h1] at hc; cases hc
  | ok nmd =>
    rw [h1] at hc
    simp only at hc
    cases h2 : processFeatures (d.space.getD "pixel") (d.time.getD "frame") d.ef [] with
    | exc e => rw [h2] at hc; cases hc
    | ok emd =>
      rw [h2] at hc
      simp only at hc
      cases h3 : processFeatures (d.space.getD "pixel") (d.time.getD "frame") d.tf [] with
      | exc e => rw [h3] at hc; cases hc
      | ok tmd =>
        rw [h3] at hc
        simp only at hc
        split at hc
        · cases hc
        · cases hc
          simp [List.map_map, Function.comp_def]

theorem mem_nxEdges (g : Graph) (e : (Nat × Nat) × Attrs) : e ∈ nxEdges g ↔ e ∈ g.edges ∧ e.1.1 ∈ keys g := by
  unfold nxEdges keys
  simp only [List.mem_flatMap, List.mem_filter, beq_iff_eq, List.mem_map]
  constructor
  · rintro ⟨p, hp, he, hs⟩; exact ⟨he, p, hp, hs.symm⟩
  · rintro ⟨he, p, hp, hs⟩; exact ⟨p, hp, he, hs.symm⟩

theorem mem_keys_final (d : Doc) (ds dt : Bool) (n : Nat) :
    n ∈ keys (finalGraph d ds dt) ↔ n ∈ d.spots.map spotId ∧ keepSpot d ds dt n = true := by
  unfold keys
  rw [finalGraph_nodes]
  simp [List.mem_filter]

/-- the edges of the returned graph: the document's edges whose two endpoints are kept -/
theorem mem_final_edges (d : Doc) (h : WF d) (ds dt : Bool) (e : (Nat × Nat) × Attrs) :
    e ∈ (finalGraph d ds dt).edges ↔
      ∃ x ∈ tagged (attrsMd d) d.tracks, e = edgeEntry (attrsMd d) x ∧
        keepSpot d ds dt x.1.s = true ∧ keepSpot d ds dt x.1.t = true := by
  have hk := mem_keys_final d ds dt
  unfold keys at hk
  simp only [finalGraph, restrictTo, List.mem_filter, Bool.and_eq_true, decide_eq_true_eq]
  rw [show (List.filter (fun p => keepSpot d ds dt p.1) (fullGraph d).nodes) = (finalGraph d ds dt).nodes from rfl]
  simp only [hk, fullGraph, stamped, List.mem_map]
  constructor
  · rintro ⟨⟨x, hx, rfl⟩, ⟨_, h1⟩, ⟨_, h2⟩⟩
    exact ⟨x, hx, rfl, h1, h2⟩
  · rintro ⟨x, hx, rfl, h1, h2⟩
    have := h.edgesOk.ends x hx
    simp only [baseNodes, List.map_map, Function.comp_def] at this
    exact ⟨⟨x, hx, rfl⟩, ⟨by simpa [edgeEntry, spotId] using this.1, h1⟩, ⟨by simpa [edgeEntry] using this.2, h2⟩⟩

theorem final_closed (d : Doc) (h : WF d) (ds dt : Bool) :
    (keys (finalGraph d ds dt)).Nodup ∧ Closed (finalGraph d ds dt) :=
  restrictTo_props _ _ List.filter_sublist (by rw [fullGraph_keys]; exact h.idsNodup)

theorem final_edges_nodup (d : Doc) (h : WF d) (ds dt : Bool) :
    ((finalGraph d ds dt).edges.map (·.1)).Nodup := by
  have : ((fullGraph d).edges.map (·.1)).Nodup := by
    simpa [fullGraph, stamped, edgeEntry, List.map_map, Function.comp_def] using h.edgesOk.distinct
  exact this.sublist (List.Sublist.map _ List.filter_sublist)

/-- `graph.edges` lists every edge once -/
theorem nxEdges_nodup (g : Graph) (hk : (keys g).Nodup) (he : (g.edges.map (·.1)).Nodup) :
    ((nxEdges g).map (·.1)).Nodup := by
  unfold nxEdges
  rw [List.map_flatMap]
  unfold keys at hk
  rw [List.nodup_flatMap]
  constructor
  · intro p _
    exact he.sublist (List.Sublist.map _ List.filter_sublist)
  · have hpw : g.nodes.Pairwise (fun p q => p.1 ≠ q.1) := by
      rw [List.nodup_iff_pairwise_ne, List.pairwise_map] at hk
      exact hk
    apply hpw.imp
    intro p q hpq k h1 h2
    simp only [List.mem_map, List.mem_filter, beq_iff_eq] at h1 h2
    obtain ⟨e1, ⟨_, hs1⟩, rfl⟩ := h1
    obtain ⟨e2, ⟨_, hs2⟩, hk2⟩ := h2
    apply hpq
    rw [← hs1, ← hs2, hk2]

end Geff.TrackMate
