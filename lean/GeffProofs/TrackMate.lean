import GeffModel.TrackMateSpec
import Mathlib.Data.List.Nodup
import Mathlib.Tactic.ByContra
/-! # Helper lemmas for C16 — closed forms of the mutating loops of the TrackMate converter

* attribute dicts (`aset`/`aget?`), `_convert_attributes` (keys kept, every value converted by
  `convertOne`, typing rule for declared features);
* `addAllNodes_closed`: `_add_all_nodes` on well-formed spots appends one node per spot, in order;
* `addTagged_closed`: processing the (edge, track id) pairs in order — `graph.add_edge`, attribute
  update, `TRACK_ID` stamping with its assertion — succeeds and yields `stamped`: the base nodes, each
  with the id of the first track touching it appended, and one edge per pair in order. -/
namespace Geff.TrackMate


/-! ### attribute dicts -/

theorem ahas_iff (a : Attrs) (k : String) : ahas a k = true ↔ k ∈ a.map (·.1) := by
  unfold ahas
  simp only [List.any_eq_true, beq_iff_eq, List.mem_map]

theorem aset_fresh (a : Attrs) (k : String) (v : Val) (h : k ∉ a.map (·.1)) : aset a k v = a ++ [(k, v)] := by
  unfold aset
  have : ahas a k = false := by
    cases hh : ahas a k
    · rfl
    · exact absurd ((ahas_iff a k).1 hh) h
  simp [this]

theorem aget_none (a : Attrs) (k : String) (h : k ∉ a.map (·.1)) : aget? a k = none := by
  unfold aget?
  rw [List.find?_eq_none.2]
  · rfl
  · intro x hx hk
    exact h (List.mem_map.2 ⟨x, hx, by simpa using hk⟩)

theorem aget_append_right (a b : Attrs) (k : String) (h : k ∉ a.map (·.1)) : aget? (a ++ b) k = aget? b k := by
  unfold aget?
  rw [List.find?_append]
  rw [List.find?_eq_none.2]
  · rfl
  · intro x hx hk
    exact h (List.mem_map.2 ⟨x, hx, by simpa using hk⟩)

theorem aget_append_left (a b : Attrs) (k : String) (h : k ∈ a.map (·.1)) : aget? (a ++ b) k = aget? a k := by
  unfold aget?
  rw [List.find?_append]
  obtain ⟨x, hx, rfl⟩ := List.mem_map.1 h
  cases hf : List.find? (fun kv => kv.1 == x.1) a with
  | none =>
    have := List.find?_eq_none.1 hf x hx
    simp at this
  | some y => rfl

theorem aget_singleton (k : String) (v : Val) : aget? [(k, v)] k = some v := by
  simp [aget?]

theorem aupdate_nil (a : Attrs) : aupdate a [] = a := rfl

/-- with distinct keys, `aget?` returns the value listed under the key -/
theorem aget_of_mem (a : Attrs) (k : String) (v : Val) (hn : (a.map (·.1)).Nodup) (h : (k, v) ∈ a) :
    aget? a k = some v := by
  induction a with
  | nil => cases h
  | cons x rest ih =>
    simp only [List.map_cons, List.nodup_cons] at hn
    rcases List.mem_cons.1 h with rfl | h
    · simp [aget?]
    · have hne : x.1 ≠ k := by
        intro heq
        exact hn.1 (List.mem_map.2 ⟨(k, v), h, heq.symm⟩)
      have : aget? (x :: rest) k = aget? rest k := by
        simp [aget?, hne]
      rw [this]; exact ih hn.2 h

/-! ### `_convert_attributes` -/

theorem convertAttributes_keys {md : List Feat} {texts : List (String × Txt)} {a : Attrs}
    (h : convertAttributes md texts = .ok a) : a.map (·.1) = texts.map (·.1) := by
  induction texts generalizing a with
  | nil => simp only [convertAttributes] at h; cases h; rfl
  | cons kt rest ih =>
    obtain ⟨k, t⟩ := kt
    simp only [convertAttributes] at h
    cases hc : convertOne md k t with
    | exc e => rw [hc] at h; cases h
    | ok v =>
      rw [hc] at h
      cases hr : convertAttributes md rest with
      | exc e => rw [hr] at h; cases h
      | ok a' =>
        rw [hr] at h; cases h
        simp [ih hr]

/-- every attribute of the element is kept under its name with its converted value -/
theorem convertAttributes_mem {md : List Feat} {texts : List (String × Txt)} {a : Attrs}
    (h : convertAttributes md texts = .ok a) {k : String} {t : Txt} (hk : (k, t) ∈ texts) :
    ∃ v, convertOne md k t = .ok v ∧ (k, v) ∈ a := by
  induction texts generalizing a with
  | nil => cases hk
  | cons kt rest ih =>
    obtain ⟨k', t'⟩ := kt
    simp only [convertAttributes] at h
    cases hc : convertOne md k' t' with
    | exc e => rw [hc] at h; cases h
    | ok v =>
      rw [hc] at h
      cases hr : convertAttributes md rest with
      | exc e => rw [hr] at h; cases h
      | ok a' =>
        rw [hr] at h; cases h
        rcases List.mem_cons.1 hk with heq | hk
        · cases heq; exact ⟨v, hc, by simp⟩
        · obtain ⟨v', hv', hm⟩ := ih hr hk
          exact ⟨v', hv', by simp [hm]⟩

/-- … and nothing else is in the dict -/
theorem convertAttributes_mem' {md : List Feat} {texts : List (String × Txt)} {a : Attrs}
    (h : convertAttributes md texts = .ok a) {k : String} {v : Val} (hk : (k, v) ∈ a) :
    ∃ t, (k, t) ∈ texts ∧ convertOne md k t = .ok v := by
  induction texts generalizing a with
  | nil => simp only [convertAttributes] at h; cases h; cases hk
  | cons kt rest ih =>
    obtain ⟨k', t'⟩ := kt
    simp only [convertAttributes] at h
    cases hc : convertOne md k' t' with
    | exc e => rw [hc] at h; cases h
    | ok v' =>
      rw [hc] at h
      cases hr : convertAttributes md rest with
      | exc e => rw [hr] at h; cases h
      | ok a' =>
        rw [hr] at h; cases h
        rcases List.mem_cons.1 hk with heq | hk
        · cases heq; exact ⟨t', by simp, hc⟩
        · obtain ⟨t, ht, hv⟩ := ih hr hk
          exact ⟨t, by simp [ht], hv⟩

/-- the typing rule of `_convert_attributes` for a declared feature: `isint` ⇒ an integer, otherwise a
float (of an integer or float text) — or the text itself when it is not a number -/
theorem convertOne_declared {md : List Feat} {k : String} {t : Txt} {v : Val} {f : Feat}
    (hf : mdLookup md k = some f) (h : convertOne md k t = .ok v) :
    (f.isint = some true ∧ ∃ n txt, t = .int n txt ∧ v = .i n) ∨
    (f.isint = some false ∧
      ((∃ n txt, t = .int n txt ∧ v = .f (.ofInt n)) ∨ (∃ s, t = .flt s ∧ v = .f (.ofText s)) ∨
       (∃ s, t = .str s ∧ v = .s s))) := by
  unfold convertOne at h
  rw [hf] at h
  simp only at h
  cases hi : f.isint with
  | none => rw [hi] at h; cases h
  | some b =>
    rw [hi] at h
    cases b
    · cases t with
      | int n txt => cases h; exact Or.inr ⟨rfl, Or.inl ⟨n, txt, rfl, rfl⟩⟩
      | flt s => cases h; exact Or.inr ⟨rfl, Or.inr (Or.inl ⟨s, rfl, rfl⟩)⟩
      | str s => cases h; exact Or.inr ⟨rfl, Or.inr (Or.inr ⟨s, rfl, rfl⟩)⟩
    · cases t with
      | int n txt => cases h; exact Or.inl ⟨rfl, n, txt, rfl, rfl⟩
      | flt s => cases h
      | str s => cases h



theorem hasNode_iff (g : Graph) (n : Nat) : g.hasNode n = true ↔ n ∈ g.nodes.map (·.1) := by
  unfold Graph.hasNode
  simp only [List.any_eq_true, beq_iff_eq, List.mem_map]

theorem addNode_fresh (g : Graph) (n : Nat) (a : Attrs) (h : n ∉ g.nodes.map (·.1)) :
    g.addNode n a = { g with nodes := g.nodes ++ [(n, a)] } := by
  unfold Graph.addNode
  have : g.hasNode n = false := by
    cases hh : g.hasNode n
    · rfl
    · exact absurd ((hasNode_iff g n).1 hh) h
  simp [this]

theorem addAllNodes_closed (md : List Feat) (spots : List Spot) (g : Graph) (seg : Bool)
    (hok : ∀ s ∈ spots, SpotOk md s) (hid : ∀ s ∈ spots, s.id.isSome = true)
    (hnd : (g.nodes.map (·.1) ++ spots.map spotId).Nodup)
    (huni : (∀ s ∈ spots, s.roi = none) ∨ (∀ s ∈ spots, s.roi.isSome = true))
    (hseg : seg = true → ∀ s ∈ spots, s.roi.isSome = true) :
    addAllNodes md spots g seg =
      .ok ({ g with nodes := g.nodes ++ spots.map (fun s => (spotId s, spotAttrs md s)) },
           seg || spots.any (fun s => s.roi.isSome)) := by
  induction spots generalizing g seg with
  | nil => simp [addAllNodes]
  | cons s rest ih =>
    obtain ⟨a, ha⟩ := (hok s (by simp)).conv
    have hroi := (hok s (by simp)).roi
    obtain ⟨i, hi⟩ : ∃ i, s.id = some i := by
      have := hid s (by simp)
      cases hs : s.id with
      | none => rw [hs] at this; cases this
      | some i => exact ⟨i, rfl⟩
    have hsid : spotId s = i := by simp [spotId, hi]
    have hfresh : i ∉ g.nodes.map (·.1) := by
      intro hm
      rw [List.nodup_append] at hnd
      exact hnd.2.2 _ hm _ (by simp [hsid]) rfl
    have hrest_ok : ∀ s' ∈ rest, SpotOk md s' := fun s' h' => hok s' (by simp [h'])
    have hrest_id : ∀ s' ∈ rest, s'.id.isSome = true := fun s' h' => hid s' (by simp [h'])
    have hnd' : ∀ a', (({ g with nodes := g.nodes ++ [(i, a')] } : Graph).nodes.map (·.1) ++ rest.map spotId).Nodup := by
      intro a'
      simp only [List.map_append, List.map_cons, List.map_nil, List.append_assoc, List.singleton_append]
      simpa [hsid] using hnd
    simp only [addAllNodes, ha]
    cases hr : s.roi with
    | none =>
      have hsegf : seg = false := by
        cases hs : seg
        · rfl
        · have := hseg hs s (by simp); rw [hr] at this; cases this
      subst hsegf
      have huni' : (∀ s' ∈ rest, s'.roi = none) ∨ (∀ s' ∈ rest, s'.roi.isSome = true) := by
        rcases huni with h | h
        · exact Or.inl (fun s' h' => h s' (by simp [h']))
        · have := h s (by simp); rw [hr] at this; cases this
      simp only [Bool.false_eq_true, if_false, hi, Bool.or_false]
      rw [addNode_fresh _ _ _ hfresh, ih _ false hrest_ok hrest_id (hnd' a) huni' (by intro h; cases h)]
      simp [spotAttrs, ha, hr, hsid, List.any_cons] <;> rfl
    | some r =>
      have hall : ∀ s' ∈ rest, s'.roi.isSome = true := by
        rcases huni with h | h
        · have := h s (by simp); rw [hr] at this; cases this
        · exact fun s' h' => h s' (by simp [h'])
      have hconv : convertRoi r a = .ok (match r.pts with
          | some p => aset a "ROI_coords" (.roi p)
          | none => a) := by
        unfold convertRoi
        cases hp : r.pts with
        | none => rfl
        | some pts =>
          have := hroi r hr (by simp [hp])
          simp [this]
      simp only [hconv, hi, Bool.or_true]
      rw [addNode_fresh _ _ _ hfresh, ih _ true hrest_ok hrest_id (hnd' _) (Or.inr hall) (fun _ => hall)]
      simp [spotAttrs, ha, hr, hsid, List.any_cons] <;> rfl

/-! ### `_build_tracks` -/

theorem addNode_existing_nil (g : Graph) (n : Nat) (h : n ∈ g.nodes.map (·.1)) : g.addNode n [] = g := by
  unfold Graph.addNode
  rw [(hasNode_iff g n).2 h]
  simp only [if_true]
  have : g.nodes.map (fun p => if (p.1 == n) = true then (n, aupdate p.2 []) else p) = g.nodes := by
    conv => rhs; rw [← List.map_id g.nodes]
    apply List.map_congr_left
    intro p _
    split
    · rename_i hp
      have : p.1 = n := by simpa using hp
      cases p; simp_all [aupdate]
    · rfl
  rw [this]

theorem nodeAttrs_of_mem (nodes : List (Nat × Attrs)) (edges : List ((Nat × Nat) × Attrs)) (n : Nat) (a : Attrs)
    (hn : (nodes.map (·.1)).Nodup) (h : (n, a) ∈ nodes) :
    ({ nodes := nodes, edges := edges } : Graph).nodeAttrs n = a := by
  unfold Graph.nodeAttrs
  simp only
  induction nodes with
  | nil => cases h
  | cons p rest ih =>
    simp only [List.map_cons, List.nodup_cons] at hn
    rcases List.mem_cons.1 h with rfl | h
    · simp
    · have hne : p.1 ≠ n := by
        intro heq
        exact hn.1 (List.mem_map.2 ⟨(n, a), h, heq.symm⟩)
      have : (p.1 == n) = false := by simpa using hne
      simp only [List.find?_cons, this]
      exact ih hn.2 h

/-- one `TRACK_ID` stamping on a graph of the shape `base + S` -/
theorem stamp_closed (base : List (Nat × Attrs)) (edges : List ((Nat × Nat) × Attrs)) (S : Nat → Attrs)
    (n : Nat) (tid : Val) (a : Attrs)
    (hbn : (base.map (·.1)).Nodup) (hmem : (n, a) ∈ base)
    (hfree : ∀ p ∈ base, "TRACK_ID" ∉ p.2.map (·.1))
    (hS : S n = [] ∨ S n = [("TRACK_ID", tid)]) :
    stamp { nodes := base.map (fun p => (p.1, p.2 ++ S p.1)), edges := edges } n tid =
      .ok { nodes := base.map (fun p => (p.1, p.2 ++ (if p.1 = n then [("TRACK_ID", tid)] else S p.1))),
            edges := edges } := by
  have hkeys : (base.map (fun p => (p.1, p.2 ++ S p.1))).map (·.1) = base.map (·.1) := by
    simp [List.map_map, Function.comp_def]
  have hattrs : ({ nodes := base.map (fun p => (p.1, p.2 ++ S p.1)), edges := edges } : Graph).nodeAttrs n = a ++ S n :=
    nodeAttrs_of_mem _ _ n _ (by rw [hkeys]; exact hbn) (List.mem_map.2 ⟨(n, a), hmem, rfl⟩)
  unfold stamp
  rw [hattrs, aget_append_right _ _ _ (hfree _ hmem)]
  rcases hS with h0 | h1
  · rw [h0]
    simp only [aget?, List.find?_nil, Option.map_none]
    congr 1
    unfold Graph.setNodeAttr
    simp only [List.map_map]
    congr 1
    apply List.map_congr_left
    intro p hp
    simp only [Function.comp]
    by_cases hpn : p.1 = n
    · have hpair : p = (n, a) := List.inj_on_of_nodup_map hbn hp hmem hpn
      subst hpair
      simp only [beq_self_eq_true, if_true, h0, List.append_nil, aset_fresh _ _ _ (hfree _ hmem)]
    · have : (p.1 == n) = false := by simpa using hpn
      simp [this, hpn]
  · rw [h1]
    simp only [aget?, List.find?_cons, beq_self_eq_true, Option.map_some, if_true]
    congr 2
    apply List.map_congr_left
    intro p _
    by_cases hpn : p.1 = n
    · simp [hpn, h1]
    · simp [hpn]

theorem stampOf_cases (L : List (Edge × Val)) (n : Nat) :
    (stampOf L n = [] ∧ ∀ y ∈ L, touches y.1 n = false) ∨
    (∃ y ∈ L, touches y.1 n = true ∧ stampOf L n = [("TRACK_ID", y.2)]) := by
  unfold stampOf
  cases hf : L.find? (fun x => touches x.1 n) with
  | none =>
    refine Or.inl ⟨rfl, fun y hy => ?_⟩
    have := List.find?_eq_none.1 hf y hy
    simpa using this
  | some y =>
    exact Or.inr ⟨y, List.mem_of_find?_eq_some hf, by simpa using List.find?_some hf, rfl⟩

theorem stampOf_append_singleton (done : List (Edge × Val)) (x : Edge × Val) (n : Nat)
    (hc : ∀ y ∈ done, touches y.1 n = true → touches x.1 n = true → y.2 = x.2) :
    stampOf (done ++ [x]) n =
      if n = x.1.t then [("TRACK_ID", x.2)] else if n = x.1.s then [("TRACK_ID", x.2)] else stampOf done n := by
  have htouch : touches x.1 n = true ↔ (n = x.1.s ∨ n = x.1.t) := by
    unfold touches
    simp only [Bool.or_eq_true, beq_iff_eq]
    constructor
    · rintro (h | h)
      · exact Or.inl h.symm
      · exact Or.inr h.symm
    · rintro (h | h)
      · exact Or.inl h.symm
      · exact Or.inr h.symm
  rcases stampOf_cases done n with ⟨h0, hnone⟩ | ⟨y, hy, hty, hst⟩
  · have : stampOf (done ++ [x]) n = if touches x.1 n then [("TRACK_ID", x.2)] else [] := by
      unfold stampOf
      rw [List.find?_append]
      have : done.find? (fun x => touches x.1 n) = none := by
        apply List.find?_eq_none.2
        intro y hy
        simp [hnone y hy]
      rw [this]
      simp only [Option.none_or, List.find?_cons, List.find?_nil]
      cases touches x.1 n <;> rfl
    rw [this, h0]
    by_cases ht : n = x.1.t
    · rw [if_pos ht, if_pos (htouch.2 (Or.inr ht))]
    · by_cases hs : n = x.1.s
      · rw [if_neg ht, if_pos hs, if_pos (htouch.2 (Or.inl hs))]
      · have : touches x.1 n = false := by
          cases h : touches x.1 n
          · rfl
          · rcases htouch.1 h with h | h
            · exact absurd h hs
            · exact absurd h ht
        simp [ht, hs, this]
  · have : stampOf (done ++ [x]) n = stampOf done n := by
      unfold stampOf
      rw [List.find?_append]
      cases hf : done.find? (fun x => touches x.1 n) with
      | none =>
        have := List.find?_eq_none.1 hf y hy
        simp [hty] at this
      | some z => rfl
    rw [this]
    by_cases ht : n = x.1.t
    · rw [if_pos ht, hst, hc y hy hty (htouch.2 (Or.inr ht))]
    · by_cases hs : n = x.1.s
      · rw [if_neg ht, if_pos hs, hst, hc y hy hty (htouch.2 (Or.inl hs))]
      · rw [if_neg ht, if_neg hs]

theorem addTagged_closed (md : List Feat) (base : List (Nat × Attrs))
    (hbn : (base.map (·.1)).Nodup) (hfree : ∀ p ∈ base, "TRACK_ID" ∉ p.2.map (·.1))
    (L done : List (Edge × Val)) (h : TaggedOk md base (done ++ L)) :
    addTagged md L (stamped md base done) = .ok (stamped md base (done ++ L)) := by
  induction L generalizing done with
  | nil => simp [addTagged]
  | cons x rest ih =>
    have hx : x ∈ done ++ x :: rest := by simp
    obtain ⟨a, ha⟩ := h.conv x hx
    obtain ⟨hs, ht⟩ := h.ends x hx
    obtain ⟨as, has⟩ : ∃ as, (x.1.s, as) ∈ base := by
      obtain ⟨p, hp, hps⟩ := List.mem_map.1 hs
      exact ⟨p.2, by rw [← hps]; exact hp⟩
    obtain ⟨at', hat⟩ : ∃ at', (x.1.t, at') ∈ base := by
      obtain ⟨p, hp, hpt⟩ := List.mem_map.1 ht
      exact ⟨p.2, by rw [← hpt]; exact hp⟩
    have hkeys : (stamped md base done).nodes.map (·.1) = base.map (·.1) := by
      simp [stamped, List.map_map, Function.comp_def]
    -- the edge is new
    have hnew : ((stamped md base done).edges.any (fun e => e.1 == (x.1.s, x.1.t))) = false := by
      cases hh : (stamped md base done).edges.any (fun e => e.1 == (x.1.s, x.1.t))
      · rfl
      · simp only [stamped, List.any_eq_true, List.mem_map, beq_iff_eq] at hh
        obtain ⟨e, ⟨y, hy, rfl⟩, he⟩ := hh
        have hd := h.distinct
        rw [List.map_append, List.map_cons, List.nodup_append] at hd
        exact (hd.2.2 _ (List.mem_map.2 ⟨y, hy, rfl⟩) _ (List.mem_cons_self) (by simpa [edgeEntry] using he)).elim
    have hadd : (stamped md base done).addEdge x.1.s x.1.t a =
        { nodes := base.map (fun p => (p.1, p.2 ++ stampOf done p.1)), edges := (done ++ [x]).map (edgeEntry md) } := by
      unfold Graph.addEdge
      have h1 : (stamped md base done).addNode x.1.s [] = stamped md base done :=
        addNode_existing_nil _ _ (by rw [hkeys]; exact hs)
      have h2 : (stamped md base done).addNode x.1.t [] = stamped md base done :=
        addNode_existing_nil _ _ (by rw [hkeys]; exact ht)
      simp only [h1, h2]
      simp only [hnew, Bool.false_eq_true, if_false]
      simp [stamped, edgeEntry, edgeAttrs, ha]
    have hcons : ∀ n, ∀ y ∈ done, touches y.1 n = true → touches x.1 n = true → y.2 = x.2 :=
      fun n y hy h1 h2 => h.consistent y (by simp [hy]) x hx n h1 h2
    have htouch_s : touches x.1 x.1.s = true := by simp [touches]
    have htouch_t : touches x.1 x.1.t = true := by simp [touches]
    have hS1 : stampOf done x.1.s = [] ∨ stampOf done x.1.s = [("TRACK_ID", x.2)] := by
      rcases stampOf_cases done x.1.s with ⟨h0, _⟩ | ⟨y, hy, hty, hst⟩
      · exact Or.inl h0
      · exact Or.inr (by rw [hst, hcons _ y hy hty htouch_s])
    have hS2 : (fun n => if n = x.1.s then [("TRACK_ID", x.2)] else stampOf done n) x.1.t = [] ∨
        (fun n => if n = x.1.s then [("TRACK_ID", x.2)] else stampOf done n) x.1.t = [("TRACK_ID", x.2)] := by
      simp only
      split
      · exact Or.inr rfl
      · rcases stampOf_cases done x.1.t with ⟨h0, _⟩ | ⟨y, hy, hty, hst⟩
        · exact Or.inl h0
        · exact Or.inr (by rw [hst, hcons _ y hy hty htouch_t])
    have hstep : addEdge md x.1 (stamped md base done) x.2 = .ok (stamped md base (done ++ [x])) := by
      unfold addEdge
      simp only [ha, hadd]
      rw [stamp_closed base _ (stampOf done) x.1.s x.2 as hbn has hfree hS1]
      simp only
      rw [stamp_closed base _ (fun n => if n = x.1.s then [("TRACK_ID", x.2)] else stampOf done n) x.1.t x.2 at' hbn hat hfree hS2]
      congr 1
      unfold stamped
      congr 1
      apply List.map_congr_left
      intro p _
      rw [stampOf_append_singleton done x p.1 (hcons p.1)]
    simp only [addTagged, hstep]
    have := ih (done ++ [x]) (by simpa using h)
    simpa using this


end Geff.TrackMate
