import GeffModel.Adapters
import GeffProofs.C03Aux
/-! Helper lemmas about the adapter layer (`GeffModel/Adapters.lean`) for `GeffProps/C03Adapters.lean`. -/
namespace Geff.Adapters
open Geff.Np Geff.Dicts Geff.Backends GeffProps.C03

theorem mapA_ok_map {α β : Type} (f : α → Out β) (g : α → β) (l : List α)
    (h : ∀ a ∈ l, f a = .ok (g a)) : mapA f l = .ok (l.map g) := by
  induction l with
  | nil => rfl
  | cons a t ih =>
    simp only [mapA, h a (by simp), ih (fun b hb => h b (by simp [hb])), List.map_cons]

/-! ### networkx: the adjacency order of `list(G.edges)` -/

theorem mem_nxNbrs (d : Bool) (edges : List (Int × Int)) (u v : Int) :
    v ∈ nxNbrs d edges u ↔ (u, v) ∈ edges ∨ (d = false ∧ (v, u) ∈ edges) := by
  simp only [nxNbrs, List.mem_filterMap]
  constructor
  · rintro ⟨e, he, hv⟩
    obtain ⟨a, b⟩ := e
    by_cases h1 : a = u
    · simp only [h1, if_true, Option.some.injEq] at hv
      subst hv; subst h1; exact Or.inl he
    · simp only [h1, if_false] at hv
      by_cases h2 : (!d && decide (b = u)) = true
      · simp only [h2, if_true, Option.some.injEq] at hv
        simp only [Bool.and_eq_true, Bool.not_eq_true', decide_eq_true_eq] at h2
        subst hv; obtain ⟨hd, rfl⟩ := h2
        exact Or.inr ⟨hd, he⟩
      · simp [h2] at hv
  · rintro (h | ⟨hd, h⟩)
    · exact ⟨(u, v), h, by simp⟩
    · by_cases h1 : v = u
      · subst h1; exact ⟨(v, v), h, by simp⟩
      · exact ⟨(v, u), h, by simp [h1, hd]⟩

theorem mem_nxEdgesFrom (d : Bool) (edges : List (Int × Int)) (seen nodes : List Int) (u v : Int) :
    (u, v) ∈ nxEdgesFrom d edges seen nodes ↔
      ∃ pre post, nodes = pre ++ u :: post ∧ v ∈ nxNbrs d edges u ∧ (d = true ∨ (v ∉ seen ∧ v ∉ pre)) := by
  induction nodes generalizing seen with
  | nil => simp [nxEdgesFrom]
  | cons w t ih =>
    simp only [nxEdgesFrom, List.mem_append, List.mem_map, List.mem_filter, ih]
    constructor
    · rintro (⟨x, ⟨hx, hf⟩, hxe⟩ | ⟨pre, post, hsplit, hn, hc⟩)
      · simp only [Prod.mk.injEq] at hxe
        obtain ⟨rfl, rfl⟩ := hxe
        refine ⟨[], t, rfl, hx, ?_⟩
        cases d with
        | true => exact Or.inl rfl
        | false =>
          right
          simp only [Bool.false_or, Bool.not_eq_true', List.contains_eq_mem, decide_eq_false_iff_not] at hf
          exact ⟨hf, by simp⟩
      · refine ⟨w :: pre, post, by rw [hsplit]; rfl, hn, ?_⟩
        rcases hc with hc | ⟨h1, h2⟩
        · exact Or.inl hc
        · right
          simp only [List.mem_cons, not_or] at h1 ⊢
          exact ⟨h1.2, h1.1, h2⟩
    · rintro ⟨pre, post, hsplit, hn, hc⟩
      cases pre with
      | nil =>
        simp only [List.nil_append, List.cons.injEq] at hsplit
        obtain ⟨rfl, rfl⟩ := hsplit
        left
        refine ⟨v, ⟨hn, ?_⟩, rfl⟩
        rcases hc with hc | ⟨h1, _⟩
        · simp [hc]
        · simp [h1]
      | cons p pre' =>
        simp only [List.cons_append, List.cons.injEq] at hsplit
        obtain ⟨rfl, hsplit⟩ := hsplit
        right
        refine ⟨pre', post, hsplit, hn, ?_⟩
        rcases hc with hc | ⟨h1, h2⟩
        · exact Or.inl hc
        · right
          simp only [List.mem_cons, not_or] at h2 ⊢
          exact ⟨⟨h2.1, h1⟩, h2.2⟩

/-- every pair `list(G.edges)` reports is an edge (in the stored or, when undirected, the
opposite orientation) -/
theorem nxEdgeOrder_sound (d : Bool) (nodes : List Int) (edges : List (Int × Int)) (e : Int × Int)
    (h : e ∈ nxEdgeOrder d nodes edges) : edges.any (fun x => sameEdge d x e) = true := by
  obtain ⟨u, v⟩ := e
  obtain ⟨_, _, _, hn, _⟩ := (mem_nxEdgesFrom d edges [] nodes u v).1 h
  rw [List.any_eq_true]
  rcases (mem_nxNbrs d edges u v).1 hn with h1 | ⟨hd, h1⟩
  · exact ⟨(u, v), h1, by simp [sameEdge]⟩
  · exact ⟨(v, u), h1, by simp [sameEdge, hd]⟩

/-- the first of `u`, `v` in a list that contains `u` -/
theorem first_of_two (nodes : List Int) (u v : Int) (hu : u ∈ nodes) :
    ∃ pre w post, nodes = pre ++ w :: post ∧ (w = u ∨ w = v) ∧ u ∉ pre ∧ v ∉ pre := by
  induction nodes with
  | nil => simp at hu
  | cons a t ih =>
    by_cases ha : a = u ∨ a = v
    · exact ⟨[], a, t, rfl, ha, by simp, by simp⟩
    · simp only [not_or] at ha
      have hut : u ∈ t := by
        rcases List.mem_cons.1 hu with h | h
        · exact absurd h.symm ha.1
        · exact h
      obtain ⟨pre, w, post, hs, hw, h1, h2⟩ := ih hut
      refine ⟨a :: pre, w, post, by rw [hs]; rfl, hw, ?_, ?_⟩
      · simp only [List.mem_cons, not_or]; exact ⟨fun e => ha.1 e.symm, h1⟩
      · simp only [List.mem_cons, not_or]; exact ⟨fun e => ha.2 e.symm, h2⟩

/-- every edge whose end points are nodes is reported by `list(G.edges)` — as stored when directed,
in one of the two orientations when undirected -/
theorem nxEdgeOrder_complete (d : Bool) (nodes : List Int) (edges : List (Int × Int)) (e : Int × Int)
    (he : e ∈ edges) (h1 : e.1 ∈ nodes) (h2 : e.2 ∈ nodes) :
    (d = true → e ∈ nxEdgeOrder d nodes edges) ∧
    (e ∈ nxEdgeOrder d nodes edges ∨ (d = false ∧ (e.2, e.1) ∈ nxEdgeOrder d nodes edges)) := by
  obtain ⟨u, v⟩ := e
  have hdir : d = true → (u, v) ∈ nxEdgeOrder d nodes edges := by
    intro hd
    obtain ⟨pre, post, hs⟩ := List.append_of_mem h1
    exact (mem_nxEdgesFrom d edges [] nodes u v).2
      ⟨pre, post, hs, (mem_nxNbrs d edges u v).2 (Or.inl he), Or.inl hd⟩
  refine ⟨hdir, ?_⟩
  cases hd : d with
  | true => exact Or.inl (hd ▸ hdir hd)
  | false =>
    obtain ⟨pre, w, post, hs, hw, hp1, hp2⟩ := first_of_two nodes u v h1
    rcases hw with rfl | rfl
    · left
      exact (mem_nxEdgesFrom false edges [] nodes w v).2
        ⟨pre, post, hs, (mem_nxNbrs false edges w v).2 (Or.inl he), Or.inr ⟨by simp, hp2⟩⟩
    · right
      refine ⟨rfl, ?_⟩
      exact (mem_nxEdgesFrom false edges [] nodes w u).2
        ⟨pre, post, hs, (mem_nxNbrs false edges w u).2 (Or.inr ⟨rfl, he⟩), Or.inr ⟨by simp, hp1⟩⟩

/-! ### rustworkx: the inverse of `to_rx_id_map` -/

theorem dictOfZip_eq_zip {υ : Type} (ks : List Int) (vs : List υ) (hnd : ks.Nodup) :
    dictOfZip ks vs = ks.zip vs := by
  induction ks generalizing vs with
  | nil => cases vs <;> rfl
  | cons k t ih =>
    cases vs with
    | nil => rfl
    | cons v vt =>
      have hnd' := List.nodup_cons.1 hnd
      have hl := lookup_dictOfZip_notin t vt k hnd'.1
      rw [ih vt hnd'.2] at hl
      simp only [dictOfZip, List.zip_cons_cons, ih vt hnd'.2, hl]

theorem invLookup_zip_range' (ids : List Int) (off k : Nat) :
    invLookup k (ids.zip (List.range' off ids.length)) =
      if off ≤ k ∧ k < off + ids.length then ids[k - off]? else none := by
  induction ids generalizing off with
  | nil => simp [invLookup]
  | cons a t ih =>
    simp only [List.length_cons, List.range'_succ, List.zip_cons_cons, invLookup, ih (off + 1)]
    by_cases h1 : off + 1 ≤ k ∧ k < off + 1 + t.length
    · have h2 : off ≤ k ∧ k < off + (t.length + 1) := by omega
      rw [if_pos h1, if_pos h2]
      have hk : k - off = (k - (off + 1)) + 1 := by omega
      have hlt : k - (off + 1) < t.length := by omega
      rw [hk, List.getElem?_cons_succ, List.getElem?_eq_getElem hlt]
    · rw [if_neg h1]
      by_cases h3 : off = k
      · subst h3
        simp
      · have h2 : ¬ (off ≤ k ∧ k < off + (t.length + 1)) := by omega
        simp [h3, h2]

theorem invLookup_toRx (ids : List Int) (hnd : ids.Nodup) (k : Nat) (hk : k < ids.length) :
    invLookup k (dictOfZip ids (List.range ids.length)) = some ids[k] := by
  rw [dictOfZip_eq_zip ids _ hnd, List.range_eq_range', invLookup_zip_range' ids 0 k]
  simp [hk]

/-- `node_indices()` of a graph without holes -/
theorem nodeList_all_some (d : Bool) (ds : List Attrs) (es : List ((Nat × Nat) × Attrs)) (mp : Option (List (Int × Nat))) :
    (RxGraph.nodeList ⟨d, ds.map some, es, mp⟩).map (·.1) = List.range ds.length := by
  simp only [RxGraph.nodeList, List.length_map]
  have : ∀ (off : Nat) (l : List Attrs),
      (((List.range' off l.length).zip (l.map some)).filterMap fun p => p.2.map fun a => (p.1, a)).map (·.1) =
        List.range' off l.length := by
    intro off l
    induction l generalizing off with
    | nil => simp
    | cons a t ih => simp [List.range'_succ, ih (off + 1)]
  rw [List.range_eq_range']
  exact this 0 ds

/-- the graph `RxBackend.construct` builds from a valid geff, explicitly -/
theorem rxConstruct_shape (m : MemGeff) (h : MemValid m) :
    ∃ (ds es : List Attrs), ds.length = m.nodeIds.length ∧ es.length = m.edgeIds.length ∧
      rxConstruct m = .ok ⟨m.directed, ds.map some,
        (m.edgeIds.map (fun e => (posOf m.nodeIds e.1, posOf m.nodeIds e.2))).zip es,
        some (dictOfZip m.nodeIds (List.range m.nodeIds.length))⟩ := by
  obtain ⟨ds, hds, hdl, -⟩ := fillDicts_spec m.nodeIds.length m.nodeProps h.nodeNames h.nodeCols
  obtain ⟨es, hes, hel, -⟩ := fillDicts_spec m.edgeIds.length m.edgeProps h.edgeNames h.edgeCols
  have hlk : ∀ i, (dictOfZip m.nodeIds (List.range m.nodeIds.length)).lookup i = m.nodeIds.findIdx? (fun x => x = i) :=
    toRx_lookup m.nodeIds h.nodup
  have hidx : mapE (rxEdgeIdx (dictOfZip m.nodeIds (List.range m.nodeIds.length))) m.edgeIds =
      .ok (m.edgeIds.map (fun e => (posOf m.nodeIds e.1, posOf m.nodeIds e.2))) := by
    apply mapE_ok_map
    intro e he
    have hend := h.endpoints e he
    simp only [rxEdgeIdx, hlk, (posOf_spec _ _ hend.1).1, (posOf_spec _ _ hend.2).1]
  refine ⟨ds, es, hdl, hel, ?_⟩
  unfold rxConstruct
  simp only [hds]
  unfold rxEdges
  by_cases hemp : m.edgeIds.isEmpty = true
  · have : m.edgeIds = [] := by simpa using hemp
    simp [this]
  · simp only [hemp, Bool.false_eq_true, if_false, hidx, hes]

theorem getD_map_range (ids : List Int) : (List.range ids.length).map (fun k => ids.getD k 0) = ids := by
  apply List.ext_getElem
  · simp
  · intro i h1 h2
    simp at h1
    simp [h1]

end Geff.Adapters
