import GeffModel.Structure
/-! Helper lemmas for C04: when the primitives of `Geff.Structure` return `ok`, and the invariant
`OnlyVE` ("raises nothing but `ValueError`") through `bind`, `each` and every function of the
validator below `validate_structure`. -/
namespace Geff.Structure
open Geff.Np Gen.Paths

/-! ## `= ok` characterisations of the primitives -/

@[simp] theorem bind_eq_ok {α β : Type} (x : Out α) (f : α → Out β) (b : β) :
    (x >>= f) = Except.ok b ↔ ∃ a, x = Except.ok a ∧ f a = Except.ok b := by
  cases x with
  | error e => simp [bind, Except.bind]
  | ok a => simp [bind, Except.bind]

@[simp] theorem pure_eq_ok {α : Type} (a b : α) : (pure a : Out α) = Except.ok b ↔ a = b := by
  simp [pure, Except.pure]

@[simp] theorem throw_ne_ok {α : Type} (e : Err) (b : α) : (throw e : Out α) = Except.ok b ↔ False := by
  simp [throw, throwThe, MonadExceptOf.throw]

@[simp] theorem require_eq_ok (c : Bool) (u : Unit) : require c = Except.ok u ↔ c = true := by
  unfold require; cases c <;> simp

theorem each_eq_ok {α : Type} (l : List α) (f : α → Out Unit) (u : Unit) :
    each l f = Except.ok u ↔ ∀ a ∈ l, f a = Except.ok () := by
  induction l with
  | nil => simp [each]
  | cons a t ih =>
    simp only [each, bind_eq_ok, ih, List.mem_cons, forall_eq_or_imp]
    constructor
    · rintro ⟨⟨⟩, h1, h2⟩; exact ⟨h1, h2⟩
    · rintro ⟨h1, h2⟩; exact ⟨(), h1, h2⟩

@[simp] theorem shape0_eq_ok (a : Arr) (n : Nat) : shape0 a = Except.ok n ↔ a.shape.head? = some n := by
  unfold shape0; cases a.shape <;> simp

@[simp] theorem shapeLast_eq_ok (a : Arr) (n : Nat) :
    shapeLast a = Except.ok n ↔ a.shape.getLast? = some n := by
  unfold shapeLast; cases a.shape.getLast? <;> simp

@[simp] theorem getItem_eq_ok {β : Type} (d : List (String × β)) (k : String) (v : β) :
    getItem d k = Except.ok v ↔ lookup d k = some v := by
  unfold getItem; cases lookup d k <;> simp

@[simp] theorem expectArray_eq_ok (g : Grp) (k : String) (a : Arr) :
    expectArray g k = Except.ok a ↔ get g k = some (.array a) := by
  unfold expectArray
  rcases get g k with _ | (_ | _) <;> simp

@[simp] theorem expectGroup_eq_ok (g : Grp) (k : String) (ch : Grp) :
    expectGroup g k = Except.ok ch ↔ get g k = some (.group ch) := by
  unfold expectGroup
  rcases get g k with _ | (_ | _) <;> simp

@[simp] theorem expectGroupPath_eq_ok (g : Grp) (p : List String) (ch : Grp) :
    expectGroupPath g p = Except.ok ch ↔ getPath g p = some (.group ch) := by
  unfold expectGroupPath
  rcases getPath g p with _ | (_ | _) <;> simp

@[simp] theorem expectArrayPath_eq_ok (g : Grp) (p : List String) (a : Arr) :
    expectArrayPath g p = Except.ok a ↔ getPath g p = some (.array a) := by
  unfold expectArrayPath
  rcases getPath g p with _ | (_ | _) <;> simp

theorem lookup_isSome_iff {β : Type} (d : List (String × β)) (k : String) :
    (lookup d k).isSome = true ↔ k ∈ keys d := by
  induction d with
  | nil => simp [lookup, keys]
  | cons p t ih =>
    obtain ⟨k', v⟩ := p
    by_cases h : k' = k
    · simp [lookup, keys, h]
    · have h' : ¬ k = k' := fun e => h e.symm
      simpa [lookup, keys, h, h'] using ih

theorem lookup_eq_none_iff {β : Type} (d : List (String × β)) (k : String) :
    lookup d k = none ↔ k ∉ keys d := by
  rw [← lookup_isSome_iff]; cases lookup d k <;> simp

theorem getPath_two (g : Grp) (a b : String) :
    getPath g [a, b] = (match get g a with
      | some (.group ch) => get ch b
      | _ => none) := by
  simp only [getPath]
  rcases get g a with _ | (_ | _) <;> rfl

/-! ## nothing but `ValueError` -/

/-- the computation raises nothing but `ValueError` -/
def OnlyVE {α : Type} (x : Out α) : Prop := ∀ e, x = Except.error e → e = Err.valueError

theorem OnlyVE.pure {α : Type} (a : α) : OnlyVE (pure a : Out α) := by
  intro e h; simp [Pure.pure, Except.pure] at h

theorem OnlyVE.throwVE {α : Type} : OnlyVE (throw Err.valueError : Out α) := by
  intro e h; simp [throw, throwThe, MonadExceptOf.throw] at h; exact h.symm

theorem OnlyVE.bind {α β : Type} {x : Out α} {f : α → Out β}
    (hx : OnlyVE x) (hf : ∀ a, x = Except.ok a → OnlyVE (f a)) : OnlyVE (x >>= f) := by
  cases x with
  | error e' =>
    intro e h
    simp only [Bind.bind, Except.bind] at h
    exact hx e (by cases h; rfl)
  | ok a => simpa [Bind.bind, Except.bind] using hf a rfl

theorem OnlyVE.require (c : Bool) : OnlyVE (require c) := by
  unfold Structure.require; cases c
  · exact OnlyVE.throwVE
  · exact OnlyVE.pure ()

theorem OnlyVE.each {α : Type} (l : List α) (f : α → Out Unit) (h : ∀ a ∈ l, OnlyVE (f a)) :
    OnlyVE (each l f) := by
  induction l with
  | nil => exact OnlyVE.pure ()
  | cons a t ih =>
    unfold Structure.each
    exact OnlyVE.bind (h a (by simp)) fun _ _ => ih fun b hb => h b (by simp [hb])

theorem OnlyVE.expectArray (g : Grp) (k : String) : OnlyVE (expectArray g k) := by
  unfold Structure.expectArray
  rcases get g k with _ | (_ | _)
  · exact OnlyVE.throwVE
  · exact OnlyVE.pure _
  · exact OnlyVE.throwVE

theorem OnlyVE.expectGroup (g : Grp) (k : String) : OnlyVE (expectGroup g k) := by
  unfold Structure.expectGroup
  rcases get g k with _ | (_ | _)
  · exact OnlyVE.throwVE
  · exact OnlyVE.throwVE
  · exact OnlyVE.pure _

theorem OnlyVE.expectGroupPath (g : Grp) (p : List String) : OnlyVE (expectGroupPath g p) := by
  unfold Structure.expectGroupPath
  rcases getPath g p with _ | (_ | _)
  · exact OnlyVE.throwVE
  · exact OnlyVE.throwVE
  · exact OnlyVE.pure _

theorem OnlyVE.expectArrayPath (g : Grp) (p : List String) : OnlyVE (expectArrayPath g p) := by
  unfold Structure.expectArrayPath
  rcases getPath g p with _ | (_ | _)
  · exact OnlyVE.throwVE
  · exact OnlyVE.pure _
  · exact OnlyVE.throwVE

/-- `a.shape[0]` cannot raise once the rank is known to be positive -/
theorem OnlyVE.shape0 (a : Arr) (h : 1 ≤ a.ndim) : OnlyVE (shape0 a) := by
  unfold Structure.shape0 Arr.ndim at *
  cases hs : a.shape with
  | nil => simp [hs] at h
  | cons n t => exact OnlyVE.pure _

theorem OnlyVE.shapeLast (a : Arr) (h : 1 ≤ a.ndim) : OnlyVE (shapeLast a) := by
  unfold Structure.shapeLast Arr.ndim at *
  cases hs : a.shape with
  | nil => simp [hs] at h
  | cons n t => simp only [List.getLast?_cons]; exact OnlyVE.pure _

/-- `d[k]` cannot raise once `k in d` is known -/
theorem OnlyVE.getItem {β : Type} (d : List (String × β)) (k : String)
    (h : (lookup d k).isSome = true) : OnlyVE (getItem d k) := by
  unfold Structure.getItem
  cases hl : lookup d k with
  | none => simp [hl] at h
  | some v => exact OnlyVE.pure _

/-! ## the validator raises nothing but `ValueError` below `open_storelike` -/

theorem OnlyVE.checkMissing (pg : Grp) (n : Nat) : OnlyVE (checkMissing pg n) := by
  unfold Structure.checkMissing
  split
  · refine .bind (.expectArray _ _) fun miss _ => .bind (.require _) fun _ h =>
      .bind (.shape0 miss ?_) fun _ _ => .bind (.require _) fun _ _ => .require _
    have := (require_eq_ok _ _).1 h
    simp only [beq_iff_eq] at this
    omega
  · exact .pure ()

theorem OnlyVE.checkPropDtype (pg : Grp) (v : Arr) (pm : PropMeta) :
    OnlyVE (checkPropDtype pg v pm) := by
  unfold Structure.checkPropDtype
  split
  · exact .bind (.expectArray _ _) fun _ _ => .bind (.require _) fun _ _ =>
      .bind (.require _) fun _ _ => .bind (.require _) fun _ _ => .require _
  · exact .bind (.require _) fun _ _ => .require _

theorem OnlyVE.validateProp (propNode : Node) (n : Nat) (pm : PropMeta) :
    OnlyVE (validateProp propNode n pm) := by
  unfold Structure.validateProp
  refine .bind ?_ fun pg _ => .bind (.require _) fun _ _ => .bind (.expectArray _ _) fun val _ =>
    .bind (.require _) fun _ h => .bind (.checkPropDtype _ _ _) fun _ _ =>
    .bind (.shape0 val ?_) fun _ _ => .bind (.require _) fun _ _ => .checkMissing _ _
  · cases propNode
    · exact .throwVE
    · exact .pure _
  · simpa using (require_eq_ok _ _).1 h

theorem OnlyVE.validatePropsGroup (props : Grp) (n : Nat) (md : List (String × PropMeta)) :
    OnlyVE (validatePropsGroup props n md) := by
  unfold Structure.validatePropsGroup
  refine .bind (.each _ _ fun _ _ => .require _) fun _ _ => .each _ _ fun name hname => ?_
  refine .bind (.require _) fun _ h => .bind (.getItem _ _ ((require_eq_ok _ _).1 h)) fun _ _ =>
    .bind (.getItem _ _ ?_) fun _ _ => .validateProp _ _ _
  exact (lookup_isSome_iff props name).2 hname

theorem OnlyVE.validateOptionalPropsGroup (parent : Grp) (n : Nat) (md : List (String × PropMeta)) :
    OnlyVE (validateOptionalPropsGroup parent n md) := by
  unfold Structure.validateOptionalPropsGroup
  split
  · exact .require _
  · exact .bind (.expectGroup _ _) fun _ _ => .validatePropsGroup _ _ _

theorem OnlyVE.validateNodesGroup (nodes : Grp) (m : Meta) : OnlyVE (validateNodesGroup nodes m) := by
  unfold Structure.validateNodesGroup
  refine .bind (.expectArray _ _) fun ids _ => .bind (.require _) fun _ _ =>
    .bind (.require _) fun _ h => .bind (.shape0 ids ?_) fun _ _ =>
    .validateOptionalPropsGroup _ _ _
  have := (require_eq_ok _ _).1 h
  simp only [beq_iff_eq] at this
  omega

theorem OnlyVE.validateEdgesGroup (edges : Grp) (m : Meta) : OnlyVE (validateEdgesGroup edges m) := by
  unfold Structure.validateEdgesGroup
  refine .bind (.expectArray _ _) fun ids _ => .bind (.require _) fun _ h =>
    .bind (.shapeLast ids ?_) fun _ _ => .bind (.require _) fun _ _ =>
    .bind (.require _) fun _ _ => .bind (.shape0 ids ?_) fun _ _ =>
    .validateOptionalPropsGroup _ _ _
  all_goals
    have := (require_eq_ok _ _).1 h
    simp only [beq_iff_eq] at this
    omega

theorem OnlyVE.validateAxesStructure (graph : Grp) (m : Meta) :
    OnlyVE (validateAxesStructure graph m) := by
  unfold Structure.validateAxesStructure
  split
  · exact .pure ()
  · exact .pure ()
  · exact .bind (.expectGroupPath _ _) fun _ _ => .each _ _ fun _ _ =>
      .bind (.require _) fun _ _ => .bind (.require _) fun _ _ => .bind (.require _) fun _ _ =>
      .bind (.expectArrayPath _ _) fun _ _ => .require _

/-- `validate_structure`: `FileNotFoundError` exactly for a missing path, otherwise nothing but
`ValueError` -/
theorem validateStructure_outcome (t : Target) :
    (t = .missingPath ∧ validateStructure t = Except.error Err.fileNotFound) ∨
    (t ≠ .missingPath ∧ OnlyVE (validateStructure t)) := by
  cases t with
  | missingPath => left; exact ⟨rfl, rfl⟩
  | store root attrs =>
    right
    refine ⟨by simp, ?_⟩
    unfold Structure.validateStructure
    rcases root with _ | (a | graph)
    · exact .bind .throwVE fun _ h => by simp [openStorelike] at h
    · exact .bind .throwVE fun _ h => by simp [openStorelike] at h
    · refine .bind (.pure _) fun _ _ => .bind ?_ fun _ _ => .bind (.expectGroup _ _) fun _ _ =>
        .bind (.validateNodesGroup _ _) fun _ _ => .bind (.expectGroup _ _) fun _ _ =>
        .bind (.validateEdgesGroup _ _) fun _ _ => .bind (.expectArray _ _) fun _ _ =>
        .bind (.expectArray _ _) fun _ _ => .bind (.require _) fun _ _ => ?_
      · cases attrs
        · exact .throwVE
        · exact .throwVE
        · exact .throwVE
        · exact .pure _
      · split
        · exact .validateAxesStructure _ _
        · exact .pure ()

end Geff.Structure
