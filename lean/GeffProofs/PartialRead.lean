import GeffModel.PartialRead
/-! Helper lemmas for C09 (partial reads): mask/index commutation, the reader invariant, the
normal form of `build`. -/
namespace Geff.PRead
open Geff.Np

@[simp] theorem pure_eq {α} (a : α) : (pure a : Res α) = .ok a := rfl
@[simp] theorem ok_bind {α β} (a : α) (f : α → Res β) : ((Except.ok a : Res α) >>= f) = f a := rfl
@[simp] theorem error_bind {α β} (e : Err) (f : α → Res β) : ((Except.error e : Res α) >>= f) = .error e := rfl
@[simp] theorem map_ok {α β} (f : α → β) (a : α) : f <$> (Except.ok a : Res α) = .ok (f a) := rfl
@[simp] theorem map_error {α β} (f : α → β) (e : Err) : f <$> (Except.error e : Res α) = .error e := rfl

theorem filterByMask_nil_left {α} (m : List Bool) : filterByMask ([] : List α) m = [] := by
  cases m <;> rfl

theorem filterByMask_nil_right {α} (xs : List α) : filterByMask xs [] = [] := by
  cases xs <;> rfl

theorem filterByMask_map {α β} (f : α → β) (xs : List α) (m : List Bool) :
    filterByMask (xs.map f) m = (filterByMask xs m).map f := by
  induction xs generalizing m with
  | nil => simp [filterByMask_nil_left]
  | cons x xs ih =>
    cases m with
    | nil => simp [filterByMask_nil_right]
    | cons b bs => cases b <;> simp [filterByMask, ih]

theorem filterByMask_replicate_true {α} (xs : List α) :
    filterByMask xs (List.replicate xs.length true) = xs := by
  induction xs with
  | nil => rfl
  | cons x xs ih => simp [List.replicate_succ, filterByMask, ih]

theorem mem_filterByMask {α} {xs : List α} {m : List Bool} {x : α} (h : x ∈ filterByMask xs m) : x ∈ xs := by
  induction xs generalizing m with
  | nil => simp [filterByMask_nil_left] at h
  | cons y ys ih =>
    cases m with
    | nil => simp [filterByMask_nil_right] at h
    | cons b bs =>
      cases b
      · simp only [filterByMask] at h; exact List.mem_cons_of_mem _ (ih h)
      · simp only [filterByMask, if_true, List.mem_cons] at h
        rcases h with h | h
        · simp [h]
        · exact List.mem_cons_of_mem _ (ih h)

/-- `oindex[np.where(mask)[0]]` is `a[mask]` -/
theorem mapM_whereFrom {α} (pre xs : List α) (m : List Bool) (h : m.length ≤ xs.length) :
    (whereFrom pre.length m).mapM (fun i => match (pre ++ xs)[i]? with
      | some r => (Except.ok r : Res α)
      | none => .error (.other "IndexError")) = .ok (filterByMask xs m) := by
  induction m generalizing pre xs with
  | nil => simp [whereFrom, filterByMask_nil_right]
  | cons b bs ih =>
    cases xs with
    | nil => simp at h
    | cons x xs =>
      have h' : bs.length ≤ xs.length := by simpa using h
      have := ih (pre ++ [x]) xs h'
      simp only [List.length_append, List.length_cons, List.length_nil, List.append_assoc,
        List.cons_append, List.nil_append] at this
      cases b
      · simp only [whereFrom, filterByMask]
        simpa using this
      · simp only [whereFrom, filterByMask, if_true, List.mapM_cons]
        simp [this]

theorem loadZarrSubset_where {α} (xs : List α) (m : List Bool) (h : m.length ≤ xs.length) :
    loadZarrSubset xs (some (whereIdx m)) = .ok (filterByMask xs m) := by
  have := mapM_whereFrom [] xs m h
  simp only [List.length_nil, List.nil_append] at this
  unfold loadZarrSubset whereIdx
  exact this

/-- `_mask_to_indices` followed by `_load_zarr_subset` is `a[selMask mask]` for a mask of the
right length (`None` = everything) -/
theorem load_eq {α} (xs : List α) (mask : Option (List Bool)) (n : Nat) (hx : xs.length = n)
    (hlen : ∀ m, mask = some m → m.length = n) :
    (maskToIndices mask n >>= fun i => loadZarrSubset xs i) = .ok (filterByMask xs (selMask mask n)) := by
  cases mask with
  | none =>
    subst hx
    simp [maskToIndices, loadZarrSubset, selMask, filterByMask_replicate_true]
  | some m =>
    have hm := hlen m rfl
    simp only [maskToIndices, hm, if_true, ok_bind, selMask]
    exact loadZarrSubset_where xs m (by omega)

/-- `_load_prop_to_memory` with a total mask -/
def loadSel (cast : Dtype → Val → Val) (zp : ZarrProp) (pm : PropMeta) (m : List Bool) : Res MemProp :=
  assemble cast zp pm (filterByMask zp.values.rows m) (zp.missing.map (filterByMask · m))

def ZarrProp.lenOk (zp : ZarrProp) (n : Nat) : Prop :=
  zp.values.rows.length = n ∧ ∀ ms, zp.missing = some ms → ms.length = n

theorem loadPropToMemory_eq (cast : Dtype → Val → Val) (zp : ZarrProp) (mask : Option (List Bool))
    (pm : PropMeta) (n : Nat) (hz : zp.lenOk n) (hlen : ∀ m, mask = some m → m.length = n) :
    loadPropToMemory cast zp mask pm = loadSel cast zp pm (selMask mask n) := by
  obtain ⟨hv, hmiss⟩ := hz
  have h1 : maskToIndices mask zp.values.rows.length = maskToIndices mask n := by rw [hv]
  unfold loadPropToMemory loadSel
  cases mask with
  | none =>
    subst hv
    cases hzm : zp.missing with
    | none => simp [maskToIndices, loadZarrSubset, selMask, filterByMask_replicate_true]
    | some ms =>
      have := hmiss ms hzm
      have e : filterByMask ms (List.replicate zp.values.rows.length true) = ms := by
        rw [← this]; exact filterByMask_replicate_true ms
      simp [maskToIndices, loadZarrSubset, selMask, filterByMask_replicate_true, e, Except.map]
  | some m =>
    have hm := hlen m rfl
    have e1 := loadZarrSubset_where zp.values.rows m (by omega)
    cases hzm : zp.missing with
    | none =>
      simp only [maskToIndices, hv, hm, if_true, ok_bind, selMask, e1, Option.map_none, pure_eq]
    | some ms =>
      have e2 := loadZarrSubset_where ms m (by have := hmiss ms hzm; omega)
      simp only [maskToIndices, hv, hm, if_true, ok_bind, selMask, e1, e2, Option.map_some, Except.map]

theorem mapM_filterByMask {α β} (f : α → Res β) (xs : List α) (ys : List β) (m : List Bool)
    (h : xs.mapM f = .ok ys) : (filterByMask xs m).mapM f = .ok (filterByMask ys m) := by
  induction xs generalizing ys m with
  | nil =>
    simp only [List.mapM_nil, pure_eq, Except.ok.injEq] at h
    subst h; simp [filterByMask_nil_left]
  | cons x xs ih =>
    simp only [List.mapM_cons] at h
    cases hx : f x with
    | error e => simp [hx] at h
    | ok y =>
      cases hxs : xs.mapM f with
      | error e => simp [hx, hxs] at h
      | ok ys' =>
        simp only [hx, hxs, ok_bind, pure_eq, Except.ok.injEq] at h
        subst h
        cases m with
        | nil => simp [filterByMask_nil_right]
        | cons b bs =>
          cases b
          · simpa [filterByMask] using ih ys' bs hxs
          · simp [filterByMask, hx, ih ys' bs hxs]

theorem deserialize_filter (dt : Dtype) (trail : List Nat) (rows : List (List Val)) (d : List Val)
    (es : List NdArr) (m : List Bool) (h : deserialize dt trail rows d = .ok es) :
    deserialize dt trail (filterByMask rows m) d = .ok (filterByMask es m) := by
  unfold deserialize at h ⊢
  cases hr : rows.isEmpty with
  | true =>
    simp only [hr, if_true, Except.ok.injEq] at h
    subst h
    have : rows = [] := by simpa using hr
    subst this
    simp [filterByMask_nil_left]
  | false =>
    simp only [hr, Bool.false_eq_true, if_false] at h
    -- the table has a row, so it must be 2-D with a non-zero width and every row decodes
    match trail, h with
    | [w], h =>
      by_cases hw : w = 0
      · simp [hw] at h
      · simp only [hw, if_false] at h
        have hf := mapM_filterByMask _ rows es m h
        cases hfe : (filterByMask rows m).isEmpty with
        | true =>
          have e : filterByMask rows m = [] := by simpa using hfe
          rw [e] at hf
          simp only [List.mapM_nil, pure_eq, Except.ok.injEq] at hf
          simp [← hf]
        | false => simp [hw, hf]

theorem filterByMask_replicate_true' {α} (xs : List α) (n : Nat) (h : xs.length = n) :
    filterByMask xs (List.replicate n true) = xs := by
  subst h; exact filterByMask_replicate_true xs

/-- decoding the selected rows (against the full data) = selecting among the decoded rows -/
theorem assemble_filter (cast : Dtype → Val → Val) (zp : ZarrProp) (pm : PropMeta)
    (rows : List (List Val)) (miss : Option (List Bool)) (p : MemProp) (m : List Bool)
    (h : assemble cast zp pm rows miss = .ok p) :
    assemble cast zp pm (filterByMask rows m) (miss.map (filterByMask · m)) = .ok (restrictProp m p) := by
  unfold assemble at h ⊢
  cases hv : pm.varlength with
  | false =>
    simp only [hv, Bool.false_eq_true, if_false, pure_eq, Except.ok.injEq] at h ⊢
    subst h
    simp [restrictProp, restrictValues, filterByMask_map]
  | true =>
    simp only [hv, if_true] at h ⊢
    cases hd : zp.data with
    | none => simp [hd] at h
    | some d =>
      simp only [hd, Option.map_some] at h ⊢
      cases hdes : deserialize pm.dtype zp.values.trail
          (List.map (fun x => List.map (cast Dtype.u64) x) rows) (List.map (cast pm.dtype) d) with
      | error e => simp [hdes] at h
      | ok es =>
        simp only [hdes, ok_bind, pure_eq, Except.ok.injEq] at h
        subst h
        have := deserialize_filter _ _ _ _ es m hdes
        rw [filterByMask_map] at this
        simp [this, restrictProp, restrictValues]

theorem loadSel_restrict (cast : Dtype → Val → Val) (zp : ZarrProp) (pm : PropMeta) (n : Nat)
    (hz : zp.lenOk n) (p : MemProp) (m : List Bool)
    (h : loadSel cast zp pm (List.replicate n true) = .ok p) :
    loadSel cast zp pm m = .ok (restrictProp m p) := by
  unfold loadSel at h ⊢
  obtain ⟨hv, hmiss⟩ := hz
  rw [filterByMask_replicate_true' _ n hv] at h
  have hm : zp.missing.map (filterByMask · (List.replicate n true)) = zp.missing := by
    cases hzm : zp.missing with
    | none => rfl
    | some ms => simp [filterByMask_replicate_true' ms n (hmiss ms hzm)]
  rw [hm] at h
  exact assemble_filter cast zp pm _ _ p m h

/-! ### dict lemmas -/

theorem lookup_mem {β} {k : String} {d : List (String × β)} {v : β} (h : lookup k d = some v) :
    (k, v) ∈ d := by
  induction d with
  | nil => simp [lookup] at h
  | cons p t ih =>
    obtain ⟨k', v'⟩ := p
    simp only [lookup] at h
    by_cases hk : k' = k
    · simp only [hk, if_true, Option.some.injEq] at h
      subst h; subst hk; simp
    · simp only [hk, if_false] at h
      exact List.mem_cons_of_mem _ (ih h)

theorem lookup_none_of_not_mem {β} {k : String} {d : List (String × β)} (h : k ∉ keys d) :
    lookup k d = none := by
  induction d with
  | nil => rfl
  | cons p t ih =>
    obtain ⟨k', v'⟩ := p
    simp only [keys, List.map_cons, List.mem_cons, not_or] at h
    simp only [lookup]
    rw [if_neg (fun e => h.1 e.symm)]
    exact ih h.2

theorem lookup_append {β} (k : String) (a b : List (String × β)) :
    lookup k (a ++ b) = (lookup k a).or (lookup k b) := by
  induction a with
  | nil => simp [lookup]
  | cons p t ih =>
    obtain ⟨k', v'⟩ := p
    simp only [List.cons_append, lookup]
    by_cases hk : k' = k <;> simp [hk, ih]

theorem hasKey_iff {β} (k : String) (d : List (String × β)) : hasKey k d = true ↔ k ∈ keys d := by
  simp only [hasKey, keys, List.any_eq_true, decide_eq_true_eq, List.mem_map]

theorem hasKey_eq_contains {β} (k : String) (d : List (String × β)) : hasKey k d = (keys d).contains k := by
  rw [Bool.eq_iff_iff, hasKey_iff]; simp

theorem mem_insert {β} {d : List (String × β)} {k : String} {v : β} {q : String × β}
    (h : q ∈ insert d k v) : q ∈ d ∨ q = (k, v) := by
  unfold insert at h
  split at h
  · simp only [List.mem_map] at h
    obtain ⟨p, hp, rfl⟩ := h
    by_cases hk : p.1 = k
    · simp [hk]
    · simp [hk, hp]
  · simp only [List.mem_append, List.mem_singleton] at h
    exact h

theorem nodupB_iff (l : List String) : nodupB l = true ↔ l.Nodup := by
  induction l with
  | nil => simp [nodupB]
  | cons a t ih => simp [nodupB, ih, List.nodup_cons]

/-! ### the reader invariant: what is loaded is what the store holds under that name -/

def Reader.Inv (r : Reader) : Prop :=
  (∀ q ∈ r.nodeProps, lookup q.1 r.store.nodeProps = some q.2) ∧
  (∀ q ∈ r.edgeProps, lookup q.1 r.store.edgeProps = some q.2)

theorem readLoop_inv (avail cur : List (String × ZarrProp)) (names : List String)
    (h : ∀ q ∈ cur, lookup q.1 avail = some q.2) :
    ∀ q ∈ (readLoop avail cur names).1, lookup q.1 avail = some q.2 := by
  induction names generalizing cur with
  | nil => simpa [readLoop] using h
  | cons n ns ih =>
    simp only [readLoop]
    cases hl : lookup n avail with
    | none => simpa using h
    | some zp =>
      apply ih
      intro q hq
      rcases mem_insert hq with hq | rfl
      · exact h q hq
      · exact hl

theorem readNodeProps_store (r : Reader) (ns) : (readNodeProps r ns).1.store = r.store := rfl
theorem readEdgeProps_store (r : Reader) (ns) : (readEdgeProps r ns).1.store = r.store := rfl

theorem readNodeProps_inv (r : Reader) (ns) (h : r.Inv) : (readNodeProps r ns).1.Inv :=
  ⟨readLoop_inv _ _ _ h.1, h.2⟩

theorem readEdgeProps_inv (r : Reader) (ns) (h : r.Inv) : (readEdgeProps r ns).1.Inv :=
  ⟨h.1, readLoop_inv _ _ _ h.2⟩

theorem runCalls_store (r : Reader) (calls : List Call) : (runCalls r calls).store = r.store := by
  induction calls generalizing r with
  | nil => rfl
  | cons c t ih => cases c <;> simp [runCalls, ih, readNodeProps_store, readEdgeProps_store]

theorem runCalls_inv (r : Reader) (calls : List Call) (h : r.Inv) : (runCalls r calls).Inv := by
  induction calls generalizing r with
  | nil => exact h
  | cons c t ih =>
    cases c with
    | nodes ns => exact ih _ (readNodeProps_inv r ns h)
    | edges ns => exact ih _ (readEdgeProps_inv r ns h)

theorem init_inv (s : Store) : (Reader.init s).Inv := ⟨by simp [Reader.init], by simp [Reader.init]⟩

/-- reading every name of a group whose names are unique loads exactly the group -/
theorem readLoop_all (avail cur rest : List (String × ZarrProp)) (h : avail = cur ++ rest)
    (hnd : (keys avail).Nodup) : (readLoop avail cur (keys rest)).1 = avail := by
  induction rest generalizing cur with
  | nil => simp [keys, readLoop, h]
  | cons p t ih =>
    obtain ⟨n, zp⟩ := p
    have hk : keys avail = keys cur ++ n :: keys t := by simp [h, keys]
    rw [hk] at hnd
    have hncur : n ∉ keys cur := by
      intro hmem
      have := (List.nodup_append.1 hnd).2.2 n hmem n (by simp)
      exact this rfl
    have hl : lookup n avail = some zp := by
      rw [h, lookup_append, lookup_none_of_not_mem hncur]
      simp [lookup]
    have hins : insert cur n zp = cur ++ [(n, zp)] := by
      unfold insert
      have : hasKey n cur = false := by
        rw [Bool.eq_false_iff]; intro hh; exact hncur ((hasKey_iff n cur).1 hh)
      simp [this]
    simp only [keys, List.map_cons, readLoop, hl]
    rw [hins]
    have := ih (cur ++ [(n, zp)]) (by simp [h])
    simpa [keys] using this

theorem readAll_nodeProps (s : Store) (h : (keys s.nodeProps).Nodup) : (readAll s).nodeProps = s.nodeProps := by
  simp only [readAll, readEdgeProps, readNodeProps, Reader.init, Option.getD_none]
  exact readLoop_all s.nodeProps [] s.nodeProps rfl h

theorem readAll_edgeProps (s : Store) (h : (keys s.edgeProps).Nodup) : (readAll s).edgeProps = s.edgeProps := by
  simp only [readAll, readEdgeProps, readNodeProps, Reader.init, Option.getD_none]
  exact readLoop_all s.edgeProps [] s.edgeProps rfl h

theorem readAll_store (s : Store) : (readAll s).store = s := rfl

/-! ### the property loop -/

def metaOf (md : List (String × PropMeta)) (name : String) : Res PropMeta :=
  match lookup name md with
  | some pm => pure pm
  | none => .error (.other "KeyError")

/-- `loadProps` with a total mask -/
def loadPropsSel (cast : Dtype → Val → Val) (md : List (String × PropMeta)) (m : List Bool) :
    List (String × ZarrProp) → Res (List (String × MemProp))
  | [] => .ok []
  | (name, zp) :: t =>
    metaOf md name >>= fun pm => loadSel cast zp pm m >>= fun p =>
      loadPropsSel cast md m t >>= fun rest => pure ((name, p) :: rest)

theorem loadProps_eq (cast : Dtype → Val → Val) (md : List (String × PropMeta))
    (mask : Option (List Bool)) (n : Nat) (ps : List (String × ZarrProp))
    (hps : ∀ q ∈ ps, q.2.lenOk n) (hlen : ∀ m, mask = some m → m.length = n) :
    loadProps cast md mask ps = loadPropsSel cast md (selMask mask n) ps := by
  induction ps with
  | nil => rfl
  | cons q t ih =>
    obtain ⟨name, zp⟩ := q
    have hz : zp.lenOk n := hps (name, zp) (by simp)
    have iht := ih (fun q hq => hps q (List.mem_cons_of_mem _ hq))
    simp only [loadProps, loadPropsSel, metaOf, loadPropToMemory_eq cast zp mask _ n hz hlen, iht]
    cases lookup name md <;> rfl

theorem loadPropsSel_lookup (cast : Dtype → Val → Val) (md : List (String × PropMeta)) (m : List Bool)
    (ps : List (String × ZarrProp)) (out : List (String × MemProp))
    (h : loadPropsSel cast md m ps = .ok out) (name : String) (zp : ZarrProp)
    (hl : lookup name ps = some zp) :
    ∃ pm p, lookup name md = some pm ∧ loadSel cast zp pm m = .ok p ∧ lookup name out = some p := by
  induction ps generalizing out with
  | nil => simp [lookup] at hl
  | cons q t ih =>
    obtain ⟨k, z⟩ := q
    simp only [loadPropsSel, metaOf] at h
    cases hmd : lookup k md with
    | none => simp [hmd] at h
    | some pm =>
      simp only [hmd, pure_eq, ok_bind] at h
      cases hp : loadSel cast z pm m with
      | error e => simp [hp] at h
      | ok p =>
        simp only [hp, ok_bind] at h
        cases hr : loadPropsSel cast md m t with
        | error e => simp [hr] at h
        | ok rest =>
          simp only [hr, ok_bind, Except.ok.injEq] at h
          subst h
          simp only [lookup] at hl ⊢
          by_cases hk : k = name
          · simp only [hk, if_true, Option.some.injEq] at hl ⊢
            subst hl; subst hk
            exact ⟨pm, p, hmd, hp, rfl⟩
          · simp only [hk, if_false] at hl ⊢
            exact ih rest hr hl

/-- the selected properties, loaded under the mask `m`, are the restriction of the full load -/
theorem loadPropsSel_restrict (cast : Dtype → Val → Val) (md : List (String × PropMeta)) (n : Nat)
    (all sel : List (String × ZarrProp)) (fullProps : List (String × MemProp)) (m : List Bool)
    (hall : ∀ q ∈ all, q.2.lenOk n)
    (hfull : loadPropsSel cast md (List.replicate n true) all = .ok fullProps)
    (hsel : ∀ q ∈ sel, lookup q.1 all = some q.2) :
    loadPropsSel cast md m sel = .ok (restrictProps (keys sel) m fullProps) := by
  induction sel with
  | nil => rfl
  | cons q t ih =>
    obtain ⟨name, zp⟩ := q
    have hl : lookup name all = some zp := hsel (name, zp) (by simp)
    obtain ⟨pm, p, hmd, hp, hout⟩ := loadPropsSel_lookup cast md _ all fullProps hfull name zp hl
    have hz : zp.lenOk n := hall (name, zp) (lookup_mem hl)
    have hp' := loadSel_restrict cast zp pm n hz p m hp
    have iht := ih (fun q hq => hsel q (List.mem_cons_of_mem _ hq))
    simp only [loadPropsSel, metaOf, hmd, pure_eq, ok_bind, hp', iht, keys, List.map_cons,
      restrictProps, List.filterMap_cons, hout, Option.map_some]

/-! ### the effective edge mask -/

/-- the edge mask `build` ends up applying, as a total mask -/
def effMask (nm em : Option (List Bool)) (kept : List Int) (edges : List (Int × Int)) : List Bool :=
  selMask (combineEdgeMask nm em kept edges) edges.length

theorem zipWith_replicate_true {α} (f : α → Bool) (l : List α) :
    List.zipWith (fun b e => b && f e) (List.replicate l.length true) l = l.map f := by
  induction l with
  | nil => rfl
  | cons a t ih => simp [List.replicate_succ, ih]

theorem zipWith_and_true {α} (f : α → Bool) (bs : List Bool) (l : List α) (hlen : bs.length = l.length)
    (h : ∀ e ∈ l, f e = true) : List.zipWith (fun b e => b && f e) bs l = bs := by
  induction l generalizing bs with
  | nil => cases bs <;> simp_all
  | cons a t ih =>
    cases bs with
    | nil => simp at hlen
    | cons b bs =>
      simp only [List.zipWith_cons_cons, List.cons.injEq]
      exact ⟨by simp [h a (by simp)], ih bs (by simpa using hlen) (fun e he => h e (List.mem_cons_of_mem _ he))⟩

theorem selMask_length (mask : Option (List Bool)) (n : Nat) (h : ∀ m, mask = some m → m.length = n) :
    (selMask mask n).length = n := by
  cases mask with
  | none => simp [selMask]
  | some m => simpa [selMask] using h m rfl

theorem combine_length (nm em : Option (List Bool)) (kept : List Int) (edges : List (Int × Int))
    (hem : ∀ m, em = some m → m.length = edges.length) :
    ∀ m, combineEdgeMask nm em kept edges = some m → m.length = edges.length := by
  intro m hm
  cases nm with
  | none => exact hem m hm
  | some x =>
    cases em with
    | none =>
      simp only [combineEdgeMask, Option.some.injEq] at hm
      subst hm; simp [endpointsIn]
    | some y =>
      simp only [combineEdgeMask, Option.some.injEq] at hm
      subst hm
      simp [endpointsIn, hem y rfl]

/-- with a node mask — or on a store whose edges join stored nodes — the mask `build` applies to
the edges is the specification's `edgeKeep` -/
theorem effMask_eq_edgeKeep (nm em : Option (List Bool)) (kept : List Int) (edges : List (Int × Int))
    (hem : ∀ m, em = some m → m.length = edges.length)
    (h : nm ≠ none ∨ ∀ e ∈ edges, (kept.contains e.1 && kept.contains e.2) = true) :
    effMask nm em kept edges = edgeKeep kept em edges := by
  unfold effMask edgeKeep
  cases nm with
  | some x =>
    cases em with
    | none => simp [combineEdgeMask, selMask, endpointsIn, zipWith_replicate_true]
    | some y => simp [combineEdgeMask, selMask, endpointsIn, List.zipWith_map_right]
  | none =>
    have hc : ∀ e ∈ edges, (kept.contains e.1 && kept.contains e.2) = true := by
      rcases h with h | h
      · exact absurd rfl h
      · exact h
    simp only [combineEdgeMask]
    exact (zipWith_and_true _ _ edges (selMask_length em _ hem) hc).symm

theorem filter_selMask {α} (xs : List α) (mask : Option (List Bool)) :
    (match mask with
      | some m => filterByMask xs m
      | none => xs) = filterByMask xs (selMask mask xs.length) := by
  cases mask with
  | none => simp [selMask, filterByMask_replicate_true]
  | some m => rfl

/-! ### normal form of `build` -/

theorem build_nf (cast : Dtype → Val → Val) (r : Reader) (nm em : Option (List Bool))
    (hnm : ∀ m, nm = some m → m.length = r.store.ids.length)
    (hem : ∀ m, em = some m → m.length = r.store.edges.length)
    (hn : ∀ q ∈ r.nodeProps, q.2.lenOk r.store.ids.length)
    (he : ∀ q ∈ r.edgeProps, q.2.lenOk r.store.edges.length) :
    build cast r nm em =
      (loadPropsSel cast r.store.nodeMeta (selMask nm r.store.ids.length) r.nodeProps >>= fun np =>
       loadPropsSel cast r.store.edgeMeta
          (effMask nm em (filterByMask r.store.ids (selMask nm r.store.ids.length)) r.store.edges)
          r.edgeProps >>= fun ep =>
       pure { nodeIds := filterByMask r.store.ids (selMask nm r.store.ids.length),
              edgeIds := filterByMask r.store.edges
                (effMask nm em (filterByMask r.store.ids (selMask nm r.store.ids.length)) r.store.edges),
              nodeProps := np, edgeProps := ep,
              nodeMeta := pruneMeta r.store.nodeMeta r.nodeProps,
              edgeMeta := pruneMeta r.store.edgeMeta r.edgeProps,
              metaRest := r.store.metaRest }) := by
  have hload : (maskToIndices nm r.store.ids.length >>= fun i => loadZarrSubset r.store.ids i)
      = .ok (filterByMask r.store.ids (selMask nm r.store.ids.length)) := load_eq _ nm _ rfl hnm
  have hemOk : ∃ i, maskToIndices em r.store.edges.length = .ok i := by
    cases em with
    | none => exact ⟨none, rfl⟩
    | some m => exact ⟨some (whereIdx m), by simp [maskToIndices, hem m rfl]⟩
  obtain ⟨ei, hei⟩ := hemOk
  cases hmi : maskToIndices nm r.store.ids.length with
  | error e => simp [hmi] at hload
  | ok ni =>
    simp only [hmi, ok_bind] at hload
    simp only [build, hmi, ok_bind, hload, hei]
    rw [loadProps_eq cast _ nm _ _ hn hnm]
    rw [loadProps_eq cast _ _ r.store.edges.length _ he (combine_length nm em _ _ hem)]
    unfold effMask
    generalize combineEdgeMask nm em _ r.store.edges = cm
    cases cm with
    | none => simp [selMask, filterByMask_replicate_true]
    | some m => rfl

/-! ### the full read and the main equality -/

theorem propsWF_lenOk {n : Nat} {ps : List (String × ZarrProp)} (h : propsWF n ps = true) :
    ∀ q ∈ ps, q.2.lenOk n := by
  intro q hq
  simp only [propsWF, Bool.and_eq_true, List.all_eq_true, decide_eq_true_eq] at h
  have := h.2 q hq
  refine ⟨this.1, fun ms hms => ?_⟩
  have h2 := this.2
  simp only [hms, decide_eq_true_eq] at h2
  exact h2

theorem propsWF_nodup {n : Nat} {ps : List (String × ZarrProp)} (h : propsWF n ps = true) :
    (keys ps).Nodup := by
  simp only [propsWF, Bool.and_eq_true] at h
  exact (nodupB_iff _).1 h.1

theorem inv_lenOk {n : Nat} {all sel : List (String × ZarrProp)} (hall : ∀ q ∈ all, q.2.lenOk n)
    (hsel : ∀ q ∈ sel, lookup q.1 all = some q.2) : ∀ q ∈ sel, q.2.lenOk n :=
  fun q hq => hall (q.1, q.2) (lookup_mem (hsel q hq))

theorem effMask_none_none (kept : List Int) (edges : List (Int × Int)) :
    effMask none none kept edges = List.replicate edges.length true := rfl

/-- what a successful full read returns -/
theorem full_read_spec (cast : Dtype → Val → Val) (s : Store) (full : InMem) (hwf : s.WF = true)
    (hfull : readToMemory cast s = .ok full) :
    ∃ fp fe, loadPropsSel cast s.nodeMeta (List.replicate s.ids.length true) s.nodeProps = .ok fp ∧
      loadPropsSel cast s.edgeMeta (List.replicate s.edges.length true) s.edgeProps = .ok fe ∧
      full = { nodeIds := s.ids, edgeIds := s.edges, nodeProps := fp, edgeProps := fe,
               nodeMeta := pruneMeta s.nodeMeta s.nodeProps, edgeMeta := pruneMeta s.edgeMeta s.edgeProps,
               metaRest := s.metaRest } := by
  simp only [Store.WF, Bool.and_eq_true] at hwf
  have hn := propsWF_lenOk hwf.1
  have he := propsWF_lenOk hwf.2
  unfold readToMemory at hfull
  rw [build_nf cast (readAll s) none none (by simp) (by simp)
    (by rw [readAll_nodeProps s (propsWF_nodup hwf.1)]; exact hn)
    (by rw [readAll_edgeProps s (propsWF_nodup hwf.2)]; exact he)] at hfull
  simp only [readAll_store, readAll_nodeProps s (propsWF_nodup hwf.1),
    readAll_edgeProps s (propsWF_nodup hwf.2), effMask_none_none, selMask,
    filterByMask_replicate_true] at hfull
  cases hfp : loadPropsSel cast s.nodeMeta (List.replicate s.ids.length true) s.nodeProps with
  | error e => simp [hfp] at hfull
  | ok fp =>
    cases hfe : loadPropsSel cast s.edgeMeta (List.replicate s.edges.length true) s.edgeProps with
    | error e => simp [hfp, hfe] at hfull
    | ok fe =>
      simp only [hfp, hfe, ok_bind, pure_eq, Except.ok.injEq] at hfull
      exact ⟨fp, fe, rfl, rfl, hfull.symm⟩

theorem prune_prune (md : List (String × PropMeta)) (all sel : List (String × ZarrProp))
    (h : ∀ k, k ∈ keys sel → k ∈ keys all) :
    (pruneMeta md all).filter (fun p => (keys sel).contains p.1) = pruneMeta md sel := by
  unfold pruneMeta
  rw [List.filter_filter]
  apply List.filter_congr
  intro p _
  rw [hasKey_eq_contains, hasKey_eq_contains]
  by_cases hk : p.1 ∈ keys sel
  · have := h _ hk
    simp [hk, this]
  · simp [hk]

theorem keys_sub {all sel : List (String × ZarrProp)} (hsel : ∀ q ∈ sel, lookup q.1 all = some q.2) :
    ∀ k, k ∈ keys sel → k ∈ keys all := by
  intro k hk
  simp only [keys, List.mem_map] at hk ⊢
  obtain ⟨q, hq, rfl⟩ := hk
  exact ⟨(q.1, q.2), lookup_mem (hsel q hq), rfl⟩

/-- **build = restrict ∘ full read**, for a reader satisfying the invariant -/
theorem build_eq_restrict_of_inv (cast : Dtype → Val → Val) (r : Reader) (hinv : r.Inv)
    (nm em : Option (List Bool)) (full : InMem) (hwf : r.store.WF = true)
    (hnm : ∀ m, nm = some m → m.length = r.store.ids.length)
    (hem : ∀ m, em = some m → m.length = r.store.edges.length)
    (hclosed : nm = none → r.store.edgesClosed = true)
    (hfull : readToMemory cast r.store = .ok full) :
    build cast r nm em = .ok (restrict (keys r.nodeProps) (keys r.edgeProps) nm em full) := by
  obtain ⟨fp, fe, hfp, hfe, rfl⟩ := full_read_spec cast r.store full hwf hfull
  simp only [Store.WF, Bool.and_eq_true] at hwf
  have hn := propsWF_lenOk hwf.1
  have he := propsWF_lenOk hwf.2
  rw [build_nf cast r nm em hnm hem (inv_lenOk hn hinv.1) (inv_lenOk he hinv.2)]
  have hk : effMask nm em (filterByMask r.store.ids (selMask nm r.store.ids.length)) r.store.edges
      = edgeKeep (filterByMask r.store.ids (selMask nm r.store.ids.length)) em r.store.edges := by
    apply effMask_eq_edgeKeep _ _ _ _ hem
    cases nm with
    | some m => exact Or.inl (by simp)
    | none =>
      right
      have hc := hclosed rfl
      simp only [Store.edgesClosed, List.all_eq_true] at hc
      simpa [selMask, filterByMask_replicate_true] using hc
  rw [hk]
  rw [loadPropsSel_restrict cast _ _ r.store.nodeProps r.nodeProps fp _ hn hfp hinv.1]
  rw [loadPropsSel_restrict cast _ _ r.store.edgeProps r.edgeProps fe _ he hfe hinv.2]
  simp only [ok_bind, pure_eq, restrict, prune_prune _ _ _ (keys_sub hinv.1),
    prune_prune _ _ _ (keys_sub hinv.2)]

/-! ### corollary material -/

theorem mem_filter_zipWith {α} (f : α → Bool) (bs : List Bool) (l : List α) (e : α)
    (h : e ∈ filterByMask l (List.zipWith (fun b x => b && f x) bs l)) : f e = true := by
  induction l generalizing bs with
  | nil => simp [filterByMask_nil_left] at h
  | cons a t ih =>
    cases bs with
    | nil => simp [filterByMask_nil_right] at h
    | cons b bs =>
      simp only [List.zipWith_cons_cons, filterByMask] at h
      by_cases hb : (b && f a) = true
      · simp only [hb, if_true, List.mem_cons] at h
        rcases h with rfl | h
        · simp only [Bool.and_eq_true] at hb; exact hb.2
        · exact ih bs h
      · simp only [hb] at h
        exact ih bs h

theorem loadPropsSel_keys (cast : Dtype → Val → Val) (md : List (String × PropMeta)) (m : List Bool)
    (ps : List (String × ZarrProp)) (out : List (String × MemProp))
    (h : loadPropsSel cast md m ps = .ok out) :
    keys out = keys ps ∧ ∀ k ∈ keys ps, k ∈ keys md := by
  induction ps generalizing out with
  | nil =>
    simp only [loadPropsSel, Except.ok.injEq] at h
    subst h; simp [keys]
  | cons q t ih =>
    obtain ⟨k, z⟩ := q
    simp only [loadPropsSel, metaOf] at h
    cases hmd : lookup k md with
    | none => simp [hmd] at h
    | some pm =>
      simp only [hmd, pure_eq, ok_bind] at h
      cases hp : loadSel cast z pm m with
      | error e => simp [hp] at h
      | ok p =>
        simp only [hp, ok_bind] at h
        cases hr : loadPropsSel cast md m t with
        | error e => simp [hr] at h
        | ok rest =>
          simp only [hr, ok_bind, Except.ok.injEq] at h
          subst h
          obtain ⟨h1, h2⟩ := ih rest hr
          refine ⟨by simp [keys] at h1 ⊢; exact h1, ?_⟩
          intro k' hk'
          simp only [keys, List.map_cons, List.mem_cons] at hk'
          rcases hk' with rfl | hk'
          · have := lookup_mem hmd
            simp only [keys, List.mem_map]
            exact ⟨(k', pm), this, rfl⟩
          · exact h2 k' hk'

/-- row `j` of a masked array is row `np.where(mask)[0][j]` of the full array -/
theorem whereFrom_get {α} (pre xs : List α) (m : List Bool) (h : m.length ≤ xs.length) :
    (whereFrom pre.length m).map (fun i => (pre ++ xs)[i]?) = (filterByMask xs m).map some := by
  induction m generalizing pre xs with
  | nil => simp [whereFrom, filterByMask_nil_right]
  | cons b bs ih =>
    cases xs with
    | nil => simp at h
    | cons x xs =>
      have h' : bs.length ≤ xs.length := by simpa using h
      have := ih (pre ++ [x]) xs h'
      simp only [List.length_append, List.length_cons, List.length_nil, List.append_assoc,
        List.cons_append, List.nil_append] at this
      cases b
      · simp only [whereFrom, filterByMask]
        simpa using this
      · simp only [whereFrom, filterByMask, if_true, List.map_cons]
        simp [this]

theorem mem_filterByMask_iff {α} (xs : List α) (m : List Bool) (u : α) :
    u ∈ filterByMask xs m ↔ ∃ i : Nat, xs[i]? = some u ∧ m[i]? = some true := by
  induction xs generalizing m with
  | nil => simp [filterByMask_nil_left]
  | cons x xs ih =>
    cases m with
    | nil => simp [filterByMask_nil_right]
    | cons b bs =>
      constructor
      · intro h
        cases b
        · simp only [filterByMask] at h
          obtain ⟨i, h1, h2⟩ := (ih bs).1 h
          exact ⟨i + 1, by simpa using h1, by simpa using h2⟩
        · simp only [filterByMask, if_true, List.mem_cons] at h
          rcases h with rfl | h
          · exact ⟨0, by simp, by simp⟩
          · obtain ⟨i, h1, h2⟩ := (ih bs).1 h
            exact ⟨i + 1, by simpa using h1, by simpa using h2⟩
      · rintro ⟨i, h1, h2⟩
        cases i with
        | zero =>
          simp only [List.getElem?_cons_zero, Option.some.injEq] at h1 h2
          subst h1; subst h2
          simp [filterByMask]
        | succ i =>
          simp only [List.getElem?_cons_succ] at h1 h2
          have := (ih bs).2 ⟨i, h1, h2⟩
          cases b <;> simp [filterByMask, this]

end Geff.PRead
