import GeffModel.StoreTree
import GeffProofs.Store
import GeffProofs.Structure
import GeffProofs.WriteRead
import GeffProps.C04
/-! Lemmas about the tree view of the flat store (`GeffModel/StoreTree.lean`). -/
namespace Geff.Bridge
open Geff.Np Geff.Store

theorem lookup_children {β : Type} (l : List String) (N : String → Option β) (k : String) :
    Geff.Structure.lookup (l.filterMap (fun k => (N k).map (fun n => (k, n)))) k = if k ∈ l then N k else none := by
  induction l with
  | nil => rfl
  | cons a t ih =>
    rw [List.filterMap_cons]
    cases hN : N a with
    | none =>
      simp only [Option.map_none]
      rw [ih]
      by_cases hk : k = a
      · subst hk
        simp only [List.mem_cons, true_or, if_true, hN]
        split <;> simp [hN]
      · simp [hk]
    | some n =>
      simp only [Option.map_some, Geff.Structure.lookup]
      by_cases hk : a = k
      · subst hk; simp [hN]
      · have hk' : ¬ k = a := fun h => hk h.symm
        simp only [hk, if_false, List.mem_cons, hk', false_or]
        exact ih

theorem nodeAt_none (fuel : Nat) (s : St) (p : Path) (h : get s p = none) : nodeAt fuel s p = none := by
  cases fuel with
  | zero => rfl
  | succ f => simp only [nodeAt, h]

theorem nodeAt_array (fuel : Nat) (s : St) (p : Path) (a : NdArr) (h : get s p = some (.array a)) :
    nodeAt (fuel + 1) s p = some (.array (arrOf a)) := by
  simp only [nodeAt, h]

/-- the members of group `p` as the tree shows them -/
def members (fuel : Nat) (s : St) (p : Path) : Geff.Structure.Grp :=
  (childNames s p).filterMap (fun k => (nodeAt fuel s (p ++ [k])).map (fun n => (k, n)))

theorem nodeAt_group (fuel : Nat) (s : St) (p : Path) (a : Attrs) (h : get s p = some (.group a)) :
    nodeAt (fuel + 1) s p = some (.group (members fuel s p)) := by
  simp only [nodeAt, h, members]

/-- looking a member up in the tree = looking the longer path up in the flat store -/
theorem get_members (fuel : Nat) (s : St) (p : Path) (k : String) :
    Geff.Structure.get (members fuel s p) k = nodeAt fuel s (p ++ [k]) := by
  unfold Geff.Structure.get members
  rw [lookup_children]
  by_cases hk : k ∈ childNames s p
  · rw [if_pos hk]
  · rw [if_neg hk]
    have : get s (p ++ [k]) = none := by
      cases hg : get s (p ++ [k]) with
      | none => rfl
      | some e => exact absurd ((mem_childNames s p k).2 (by rw [hg]; rfl)) hk
    exact (nodeAt_none fuel s _ this).symm

theorem mem_keys_members (fuel : Nat) (s : St) (p : Path) (k : String) :
    k ∈ Geff.Structure.keys (members (fuel + 1) s p) ↔ (get s (p ++ [k])).isSome = true := by
  rw [← Geff.Structure.lookup_isSome_iff]
  have := get_members (fuel + 1) s p k
  unfold Geff.Structure.get at this
  rw [this]
  cases hg : get s (p ++ [k]) with
  | none => simp [nodeAt_none _ _ _ hg]
  | some e =>
    cases e with
    | array a => simp [nodeAt_array _ _ _ a hg]
    | group a => simp [nodeAt_group _ _ _ a hg]

/-! ### what the writer stores, as the validator sees it -/
open Geff.WR
open Gen.Paths (NODES EDGES IDS PROPS VALUES MISSING DATA)

theorem lookup_eq_lookupKey {β : Type} (l : List (String × β)) (k : String) :
    Geff.Structure.lookup l k = lookupKey k l := by
  induction l with
  | nil => rfl
  | cons a t ih =>
    obtain ⟨k', v⟩ := a
    unfold lookupKey at ih ⊢
    simp only [Geff.Structure.lookup, List.find?_cons]
    by_cases h : k' = k
    · simp [h]
    · simp only [h, if_false, decide_false]; exact ih

theorem valuesArr_shape (es : List NdArr) (hh : Geff.Vlen.Homogeneous es) :
    (Geff.Vlen.encode es).valuesArr.dtype = .u64 ∧ (Geff.Vlen.encode es).valuesArr.shape.head? = some es.length ∧
    (Geff.Vlen.encode es).valuesArr.shape.length = 2 := by
  cases es with
  | nil => exact ⟨rfl, rfl, rfl⟩
  | cons a l =>
    have hrows : (Geff.Vlen.encode (a :: l)).rows = (0, a.shape) :: (Geff.Vlen.encodeAux (0 + prod a.shape) l).1 := by
      simp [Geff.Vlen.encode, Geff.Vlen.encodeAux]
    have hlen : (Geff.Vlen.encode (a :: l)).rows.length = (a :: l).length := Geff.Vlen.encodeAux_rows_length 0 (a :: l)
    unfold Geff.Vlen.Encoded.valuesArr
    rw [hrows]
    simp only []
    rw [← hrows, hlen]
    exact ⟨trivial, rfl, rfl⟩

/-- dtype and shape of what is stored for a writable property whose rows line up with `n` elements -/
theorem stored_shapes (name : String) (p : PropArr) (n : Nat) (hw : Writable name p) (hr : RowsOK n p)
    (v : NdArr) (d : Option NdArr) (he : encodeProp vlenCodec (upcast p) = .ok (v, d)) :
    v.shape.head? = some n ∧
    (if isVarlen p = true then
       v.dtype = .u64 ∧ v.shape.length = 2 ∧ ∃ dd, d = some dd ∧ dd.dtype = dtypeOfProp p ∧ dd.shape.length = 1
     else v.dtype = dtypeOfProp p ∧ d = none) := by
  cases hval : p.values with
  | dense a =>
    have hnv : isVarlen p = false := by unfold isVarlen; rw [hval]
    obtain ⟨a', ha', hsh'⟩ : ∃ a', (upcast p).values = .dense a' ∧ a'.shape = a.shape := by
      rw [upcast_dense p a hval]; split
      · exact ⟨_, rfl, rfl⟩
      · exact ⟨a, hval, rfl⟩
    have hvd : v = a' ∧ d = none := by
      unfold encodeProp at he; rw [ha'] at he
      simp only [pure, Except.pure, Except.ok.injEq, Prod.mk.injEq] at he
      exact ⟨he.1.symm, he.2.symm⟩
    have hra := hr.2
    rw [hval] at hra
    simp only at hra
    rw [hnv, hvd.1, hvd.2, hsh']
    refine ⟨hra.1, ?_⟩
    simp only [Bool.false_eq_true, if_false]
    exact ⟨by unfold dtypeOfProp; rw [ha'], trivial⟩
  | obj es =>
    have hv' : isVarlen p = true := by unfold isVarlen; rw [hval]
    have hwv := hw.2.2
    rw [hval] at hwv
    obtain ⟨_, hh, _⟩ := hwv
    have hup := upcast_obj p es hval
    have hlen := hr.2
    rw [hval] at hlen
    simp only at hlen
    have hvd : v = (Geff.Vlen.encode es).valuesArr ∧ d = some (Geff.Vlen.encode es).dataArr := by
      unfold encodeProp at he; rw [hup, hval] at he
      have henc : vlenCodec.encode es = .ok ((Geff.Vlen.encode es).valuesArr, (Geff.Vlen.encode es).dataArr) := by
        show ofVlen (Geff.Vlen.serializeVlen es) = _
        rw [Geff.Vlen.serializeVlen_eq es hh]; rfl
      simp only [henc, bind, Except.bind, pure, Except.pure, Except.ok.injEq, Prod.mk.injEq] at he
      exact ⟨he.1.symm, he.2.symm⟩
    obtain ⟨h1, h2, h3⟩ := valuesArr_shape es hh
    rw [hv', hvd.1, hvd.2]
    refine ⟨by rw [h2, hlen], ?_⟩
    simp only [if_true]
    refine ⟨h1, h3, _, rfl, ?_, rfl⟩
    unfold dtypeOfProp; rw [hup, hval]; rfl

/-- one written property is a conformant property group for the validator -/
theorem conformantProp_written (fuel : Nat) (s : St) (q : Path) (name : String) (p : PropArr) (n : Nat)
    (hat : PropAt vlenCodec s q (upcast p)) (hw : Writable name p) (hr : RowsOK n p) :
    GeffProps.C04.ConformantProp n ⟨dtypeOfProp p, isVarlen p⟩ (.group (members (fuel + 1) s q)) := by
  obtain ⟨hg, v, d, he, hv, hm, hd⟩ := hat
  obtain ⟨hhead, hcase⟩ := stored_shapes name p n hw hr v d he
  refine ⟨_, arrOf v, rfl, ?_, hhead, ?_, ?_⟩
  · rw [get_members, nodeAt_array _ _ _ v hv]
  · by_cases hvl : isVarlen p = true
    · rw [if_pos hvl] at hcase
      obtain ⟨h1, h2, dd, hdd, h3, h4⟩ := hcase
      simp only [hvl, if_true]
      refine ⟨h1, h2, arrOf dd, ?_, h3, h4⟩
      rw [get_members, nodeAt_array _ _ _ dd (by rw [hd, hdd]; rfl)]
    · rw [if_neg hvl] at hcase
      simp only [hvl, if_false]
      refine ⟨hcase.1, ?_⟩
      rw [get_members]
      exact nodeAt_none _ _ _ (by rw [hd, hcase.2]; rfl)
  · rw [get_members]
    rw [upcast_missing] at hm
    cases hmm : p.missing with
    | none => left; exact nodeAt_none _ _ _ (by rw [hm, hmm]; rfl)
    | some m =>
      right
      rw [nodeAt_array _ _ _ m (by rw [hm, hmm]; rfl)]
      have h1 := hw.2.1 m hmm
      have h2 := (hr.1 m hmm).1
      unfold arrOf; rw [h1, h2]

/-- the `props` group of a written graph part is conformant against the metadata the writer stored -/
theorem conformantProps_written (fuel : Nat) (s : St) (grp : String) (n : Nat) (ps : Props)
    (L : List (String × Geff.Structure.PropMeta))
    (hpg : get s [grp, PROPS] = some (.group []))
    (hnames : ∀ k, (get s [grp, PROPS, k]).isSome ↔ k ∈ ps.map (·.1))
    (hat : ∀ kp ∈ ps, PropAt vlenCodec s [grp, PROPS, kp.1] (upcast kp.2))
    (hw : ∀ kp ∈ ps, Writable kp.1 kp.2 ∧ RowsOK n kp.2)
    (hkeys : ∀ k, k ∈ Geff.Structure.keys L ↔ k ∈ ps.map (·.1))
    (hL : ∀ k pm, Geff.Structure.lookup L k = some pm → ∃ p, (k, p) ∈ ps ∧ pm = ⟨dtypeOfProp p, isVarlen p⟩) :
    GeffProps.C04.ConformantProps n L (Geff.Structure.get (members (fuel + 3) s [grp]) PROPS) := by
  have e0 : [grp] ++ [PROPS] = [grp, PROPS] := rfl
  rw [get_members, e0, nodeAt_group (fuel + 2) _ _ [] hpg]
  show (∀ name, name ∈ Geff.Structure.keys L ↔ name ∈ Geff.Structure.keys (members (fuel + 1 + 1) s [grp, PROPS])) ∧ _
  refine ⟨?_, ?_⟩
  · intro name
    rw [hkeys, mem_keys_members]
    exact (hnames name).symm
  · intro name pm propNode hl hget
    obtain ⟨p, hm, rfl⟩ := hL name pm hl
    have hq : [grp, PROPS] ++ [name] = [grp, PROPS, name] := rfl
    rw [get_members, hq, nodeAt_group _ _ _ [] (hat (name, p) hm).grp] at hget
    simp only [Option.some.injEq] at hget
    rw [← hget]
    exact conformantProp_written fuel s _ name p n (hat (name, p) hm) (hw (name, p) hm).1 (hw (name, p) hm).2

/-! ### the metadata the writer stored, as the validator parses it -/

theorem lookup_map_snd {β γ : Type} (f : β → γ) (A : List (String × β)) (k : String) :
    Geff.Structure.lookup (A.map (fun kv => (kv.1, f kv.2))) k = (Geff.Structure.lookup A k).map f := by
  induction A with
  | nil => rfl
  | cons a t ih =>
    obtain ⟨k', v⟩ := a
    simp only [List.map_cons, Geff.Structure.lookup]
    by_cases h : k' = k
    · simp [h]
    · simp only [h, if_false]; exact ih

theorem metasOf_eq_some : ∀ (A : List (String × PropMeta)), (∀ kv ∈ A, ∃ m, propMetaOf kv.2 = some m) →
    metasOf A = some (A.map (fun kv => (kv.1, (propMetaOf kv.2).getD default))) := by
  intro A
  induction A with
  | nil => intro _; rfl
  | cons a t ih =>
    intro h
    obtain ⟨k, pm⟩ := a
    obtain ⟨m, hm⟩ := h (k, pm) (List.mem_cons_self ..)
    simp only [metasOf, hm, ih (fun kv hkv => h kv (List.mem_cons_of_mem _ hkv)), List.map_cons, Option.getD_some]

theorem propMetaOf_stored (pm : PropMeta) (p : PropArr) (h1 : pm.dtype = (dtypeOfProp p).name)
    (h2 : pm.varlength = some (isVarlen p)) : propMetaOf pm = some ⟨dtypeOfProp p, isVarlen p⟩ := by
  unfold propMetaOf
  rw [h1, Dtype.ofName_name, h2]; rfl

/-- every entry of the stored property metadata describes a written property, when the caller's
metadata names only properties that are written -/
theorem stored_entries (ex : List (String × PropMeta)) (ps : Props)
    (hex : ∀ kv ∈ ex, kv.1 ∈ ps.map (·.1)) :
    ∀ kv ∈ addOrUpdate ex (ps.map (fun kp => metaOf kp.1 kp.2)),
      ∃ p, (kv.1, p) ∈ ps ∧ kv.2.dtype = (dtypeOfProp p).name ∧ kv.2.varlength = some (isVarlen p) := by
  intro kv hkv
  unfold addOrUpdate at hkv
  rcases List.mem_append.1 hkv with h | h
  · obtain ⟨kv0, hm0, rfl⟩ := List.mem_map.1 h
    obtain ⟨kp, hkp, hk⟩ := List.mem_map.1 (hex kv0 hm0)
    unfold updEntry
    cases hf : (ps.map (fun kp => metaOf kp.1 kp.2)).find? (fun pm => pm.identifier = kv0.1) with
    | none =>
      have := List.find?_eq_none.1 hf (metaOf kp.1 kp.2) (List.mem_map.2 ⟨kp, hkp, rfl⟩)
      simp only [decide_eq_true_eq] at this
      exact absurd hk this
    | some pm0 =>
      have hpred := List.find?_some hf
      simp only [decide_eq_true_eq] at hpred
      obtain ⟨kp0, hkp0, rfl⟩ := List.mem_map.1 (List.mem_of_find?_eq_some hf)
      simp only []
      refine ⟨kp0.2, ?_, rfl, rfl⟩
      have : kp0.1 = kv0.1 := hpred
      rw [← this]; exact hkp0
  · obtain ⟨pm, hpm, rfl⟩ := List.mem_map.1 h
    obtain ⟨kp, hkp, rfl⟩ := List.mem_map.1 (List.mem_filter.1 hpm).1
    exact ⟨kp.2, hkp, rfl, rfl⟩

theorem metasOf_stored (ex : List (String × PropMeta)) (ps : Props) (hnd : (ps.map (·.1)).Nodup)
    (hex : ∀ kv ∈ ex, kv.1 ∈ ps.map (·.1)) :
    ∃ L, metasOf (addOrUpdate ex (ps.map (fun kp => metaOf kp.1 kp.2))) = some L ∧
      (∀ k, k ∈ Geff.Structure.keys L ↔ k ∈ ps.map (·.1)) ∧
      (∀ k pm, Geff.Structure.lookup L k = some pm → ∃ p, (k, p) ∈ ps ∧ pm = ⟨dtypeOfProp p, isVarlen p⟩) := by
  have hent := stored_entries ex ps hex
  let A := addOrUpdate ex (ps.map (fun kp => metaOf kp.1 kp.2))
  have hparse : ∀ kv ∈ A, ∃ m, propMetaOf kv.2 = some m := by
    intro kv hkv
    obtain ⟨p, _, h1, h2⟩ := hent kv hkv
    exact ⟨_, propMetaOf_stored kv.2 p h1 h2⟩
  refine ⟨_, metasOf_eq_some A hparse, ?_, ?_⟩
  · intro k
    constructor
    · intro hk
      unfold Geff.Structure.keys at hk
      rw [List.map_map] at hk
      obtain ⟨kv, hkv, rfl⟩ := List.mem_map.1 hk
      obtain ⟨p, hp, _⟩ := hent kv hkv
      exact List.mem_map.2 ⟨(kv.1, p), hp, rfl⟩
    · intro hk
      obtain ⟨kp, hkp, rfl⟩ := List.mem_map.1 hk
      obtain ⟨pm, hpm, _⟩ := stored_meta ex ps hnd kp hkp
      have hmem := lookupKey_mem _ _ _ hpm
      unfold Geff.Structure.keys
      rw [List.map_map]
      exact List.mem_map.2 ⟨(kp.1, pm), hmem, rfl⟩
  · intro k pm hl
    rw [lookup_map_snd (fun pm => (propMetaOf pm).getD default) A k] at hl
    cases hA : Geff.Structure.lookup A k with
    | none => rw [hA] at hl; cases hl
    | some pm' =>
      rw [hA] at hl
      simp only [Option.map_some, Option.some.injEq] at hl
      rw [lookup_eq_lookupKey] at hA
      obtain ⟨p, hp, h1, h2⟩ := hent (k, pm') (lookupKey_mem _ _ _ hA)
      refine ⟨p, hp, ?_⟩
      rw [← hl, propMetaOf_stored pm' p h1 h2]; rfl

/-! ### the written store is conformant for the structural validator -/

theorem metaReadOf_written (s : St) (a : Attrs) (attr : GeffAttr) (Ln Le : List (String × Geff.Structure.PropMeta))
    (hroot : get s [] = some (.group a)) (hgeff : lookupKey "geff" a = some (.geff attr))
    (hn : metasOf attr.nodeProps = some Ln) (he : metasOf attr.edgeProps = some Le) :
    metaReadOf s = .ok ⟨Ln, Le, attr.axes⟩ := by
  unfold metaReadOf
  rw [hroot]
  have : (a.find? (fun kv => kv.1 = "geff")).map (·.2) = some (.geff attr) := hgeff
  simp only [this, hn, he]

theorem conformant_written (s0 s' : St) (nid eid : NdArr) (n e : Nat) (W eps : Props) (md : CallerMeta)
    (hW : Written vlenCodec s0 s' nid eid W eps (attrOf md W eps))
    (hns : nid.shape = [n]) (hes : eid.shape = [e, 2]) (hint : nid.dtype.isInteger = true) (hsame : eid.dtype = nid.dtype)
    (hndW : (W.map (·.1)).Nodup) (hwW : ∀ kp ∈ W, Writable kp.1 kp.2 ∧ RowsOK n kp.2)
    (hndE : (eps.map (·.1)).Nodup) (hwE : ∀ kp ∈ eps, Writable kp.1 kp.2 ∧ RowsOK e kp.2)
    (hmdN : ∀ kv ∈ md.nodeProps, kv.1 ∈ W.map (·.1)) (hmdE : ∀ kv ∈ md.edgeProps, kv.1 ∈ eps.map (·.1))
    (haxes : ∀ axes, md.axes = some axes → ∀ ax ∈ axes, ∃ a, (ax, (⟨.dense a, none⟩ : PropArr)) ∈ W ∧ a.shape.length = 1) :
    GeffProps.C04.Conformant (toTarget s') := by
  obtain ⟨a, hroot, hgeff⟩ := hW.root
  obtain ⟨Ln, hLn, hkn, hln⟩ := metasOf_stored md.nodeProps W hndW hmdN
  obtain ⟨Le, hLe, hke, hle⟩ := metasOf_stored md.edgeProps eps hndE hmdE
  have hmeta : metaReadOf s' = .ok ⟨Ln, Le, md.axes⟩ :=
    metaReadOf_written s' a (attrOf md W eps) Ln Le hroot hgeff hLn hLe
  have hrootT : nodeAt depth s' [] = some (.group (members 7 s' [])) := nodeAt_group 7 s' [] a hroot
  unfold toTarget
  rw [hrootT, hmeta]
  have eN : ([] : Path) ++ [NODES] = [NODES] := rfl
  have eE : ([] : Path) ++ [EDGES] = [EDGES] := rfl
  have eNI : [NODES] ++ [IDS] = [NODES, IDS] := rfl
  have eEI : [EDGES] ++ [IDS] = [EDGES, IDS] := rfl
  refine ⟨members 7 s' [], ⟨Ln, Le, md.axes⟩, members 6 s' [NODES], members 6 s' [EDGES], arrOf nid, arrOf eid, n, e,
    rfl, rfl, ?_, ?_, ?_, hint, hns, ?_, hes, hsame, ?_, ?_, ?_⟩
  · rw [get_members, eN, nodeAt_group 6 _ _ [] hW.nodesGrp]
  · rw [get_members, eE, nodeAt_group 6 _ _ [] hW.edgesGrp]
  · rw [get_members, eNI, nodeAt_array 5 _ _ nid hW.nodeIds]
  · rw [get_members, eEI, nodeAt_array 5 _ _ eid hW.edgeIds]
  · exact conformantProps_written 3 s' NODES n W Ln hW.nodePropsGrp hW.nodeNames hW.nodeProps hwW hkn hln
  · exact conformantProps_written 3 s' EDGES e eps Le hW.edgePropsGrp hW.edgeNames hW.edgeProps hwE hke hle
  · intro axes hax ax hmem
    simp only at hax
    obtain ⟨arr, hin, hlen⟩ := haxes axes hax ax hmem
    have hat := hW.nodeProps _ hin
    obtain ⟨hg, v, d, hev, hv, hm, _⟩ := hat
    simp only at hg hv hm hev
    obtain ⟨a', ha', hsh'⟩ : ∃ a', (upcast (⟨.dense arr, none⟩ : PropArr)).values = .dense a' ∧ a'.shape = arr.shape := by
      rw [upcast_dense _ arr rfl]; split
      · exact ⟨_, rfl, rfl⟩
      · exact ⟨arr, rfl, rfl⟩
    have hvd : v = a' := by
      unfold encodeProp at hev; rw [ha'] at hev
      simp only [pure, Except.pure, Except.ok.injEq, Prod.mk.injEq] at hev
      exact hev.1.symm
    have hmiss : (upcast (⟨.dense arr, none⟩ : PropArr)).missing = none := by rw [upcast_missing]
    have ePr : [NODES] ++ [PROPS] = [NODES, PROPS] := rfl
    have eAx : [NODES, PROPS] ++ [ax] = [NODES, PROPS, ax] := rfl
    refine ⟨(hkn ax).2 (List.mem_map.2 ⟨_, hin, rfl⟩), members 5 s' [NODES, PROPS], members 4 s' [NODES, PROPS, ax],
      arrOf v, ?_, ?_, ?_, ?_, ?_⟩
    · rw [get_members, ePr, nodeAt_group 5 _ _ [] hW.nodePropsGrp]
    · rw [get_members, eAx, nodeAt_group 4 _ _ [] hg]
    · rw [get_members, nodeAt_array 3 _ _ v hv]
    · show v.shape.length = 1
      rw [hvd, hsh', hlen]
    · rw [get_members]
      exact nodeAt_none _ _ _ (by rw [hm, hmiss]; rfl)

/-! ### the validator accepts what the writer wrote -/

/-- the caller's axes, as docs/specification.md wants them: every axis names a 1-D node property
without a missing mask (not a string one); on an empty graph the property may be absent (the writer
adds an empty one) -/
def AxesStrict (md : CallerMeta) (n : Nat) (nps : Props) : Prop :=
  ∀ axes, md.axes = some axes → ∀ ax ∈ axes, validName ax = true ∧
    ((n = 0 ∧ lookupKey ax nps = none) ∨
      ∃ a, lookupKey ax nps = some ⟨.dense a, none⟩ ∧ a.shape = [n] ∧ a.WF ∧ a.dtype ≠ .str)

theorem AxesStrict.ok {md : CallerMeta} {n : Nat} {nps : Props} (h : AxesStrict md n nps) : AxesOK md n nps := by
  intro axes hax ax hmem
  obtain ⟨hv, hc⟩ := h axes hax ax hmem
  refine ⟨hv, ?_⟩
  rcases hc with ⟨h0, _⟩ | h1
  · exact Or.inl h0
  · exact Or.inr h1

theorem axes_in_expected (md : CallerMeta) (n : Nat) (nps : Props) (hnd : (nps.map (·.1)).Nodup)
    (h : AxesStrict md n nps) :
    ∀ axes, md.axes = some axes → ∀ ax ∈ axes,
      ∃ a, (ax, (⟨.dense a, none⟩ : PropArr)) ∈ expectedNodeProps md n nps ∧ a.shape.length = 1 := by
  intro axes hax ax hmem
  obtain ⟨_, hc⟩ := h axes hax ax hmem
  obtain ⟨_, h2, h3, h4⟩ := foldl_axStep_spec axes nps hnd
  unfold expectedNodeProps
  rcases hc with ⟨h0, hnone⟩ | ⟨a, hl, hsh, _, _⟩
  · rw [if_pos h0, hax, addEmptyAxes_some]
    obtain ⟨kp, hkp, hk⟩ := List.mem_map.1 (h4 ax hmem)
    rcases h2 kp hkp with hin | ⟨_, hemp⟩
    · have : (lookupKey ax nps).isSome = true := (lookupKey_isSome_iff ax nps).2 (List.mem_map.2 ⟨kp, hin, hk⟩)
      rw [hnone] at this; cases this
    · refine ⟨⟨.f64, [0], []⟩, ?_, rfl⟩
      have : kp = (ax, emptyF64) := by
        obtain ⟨k, p⟩ := kp
        simp only at hk hemp
        rw [hk, hemp]
      show (ax, emptyF64) ∈ _
      rw [← this]; exact hkp
  · have hin := lookupKey_mem ax nps _ hl
    refine ⟨a, ?_, by rw [hsh]; rfl⟩
    by_cases h0 : n = 0
    · rw [if_pos h0, hax, addEmptyAxes_some]; exact h3 _ hin
    · rw [if_neg h0]; exact hin

/-- **the structural validator (C04's model, on the tree view of the store) accepts the store the writer
leaves** for a well-formed graph, when the caller's metadata names only properties that are written and
its axes are as the specification wants them -/
theorem validate_written (s0 s' : St) (g : InMem) (md : CallerMeta) (n e : Nat) (nps eps : Props)
    (hwf : WFGeff g n e nps eps) (hax : AxesStrict md n nps)
    (hmdN : ∀ kv ∈ md.nodeProps, kv.1 ∈ (expectedNodeProps md n nps).map (·.1))
    (hmdE : ∀ kv ∈ md.edgeProps, kv.1 ∈ eps.map (·.1))
    (hW : Written vlenCodec s0 s' g.nodeIds g.edgeIds (expectedNodeProps md n nps) eps
      (attrOf md (expectedNodeProps md n nps) eps)) :
    validate s' = .ok () := by
  obtain ⟨hnd, hw, _⟩ := expected_spec md n nps hwf.nodeNames hwf.nodeOK hax.ok
  have hrows := expected_rows md n nps hwf.nodeNames hwf.nodeOK
  have hconf := conformant_written s0 s' g.nodeIds g.edgeIds n e (expectedNodeProps md n nps) eps md hW
    hwf.nodeShape hwf.edgeShape hwf.idInt hwf.idSame hnd (fun kp hm => ⟨hw kp hm, hrows kp hm⟩) hwf.edgeNames hwf.edgeOK
    hmdN hmdE (axes_in_expected md n nps hwf.nodeNames hax)
  have := (GeffProps.C04.C04_sound_complete (toTarget s')).2 hconf
  unfold validate
  rw [this]; rfl

end Geff.Bridge
