import GeffProofs.StoreGuardGen
/-! # The generated read-side entry functions of `core_io/_utils.py` (translator T19)

`Gen.StoreGuard.detectZarrSpecVersion` (`_detect_zarr_spec_version`) and `Gen.StoreGuard.openStorelike`
(`open_storelike`, the entry of every read-side function) are characterised on every store state and
every store argument: what they return, which exception they raise, and that they perform **no store
mutation** (`…_read_only`, stated without any hypothesis so that the read-only property C18 can import
it).  Proofs: case analysis over the store argument and the few observations of the store state the
functions make, then evaluation of the generated `do`-blocks with the definitions of the primitives. -/
set_option linter.unusedSimpArgs false
namespace Geff.StoreGuardGen
open Geff.KV Geff.KV.Prog Geff.PyDoStore Gen.Paths

/-- specification of `_detect_zarr_spec_version`: for a `str`/`Path` the root documents on disk
decide — `zarr.json` wins (3), otherwise `.zgroup` or `.zarray` (2), otherwise `None`; for a store
object the format of the root GROUP zarr finds read-only (format 3 preferred), `None` when there is
no root group (the `GroupNotFoundError` is swallowed) -/
def detectSpec (s : StoreRef) (kv : KV) : Option Nat :=
  if isStrOrPath s then
    if has kv ⟨[], .json⟩ then some 3
    else if has kv ⟨[], .zgroup⟩ || has kv ⟨[], .zarray⟩ then some 2
    else none
  else (rootGroupFmt kv).map fmtNum

/-- the arguments on which the store state describes what the function looks at -/
def Readable (s : StoreRef) : Prop := s.unexpanded = false ∧ storeLike s = true

theorem detect_eq (d : Docs) (s : StoreRef) (kv : KV) (hs : Readable s) :
    Gen.StoreGuard.detectZarrSpecVersion d s kv = ⟨[], .ok (detectSpec s kv)⟩ := by
  obtain ⟨hu, hl⟩ := hs
  unfold Gen.StoreGuard.detectZarrSpecVersion detectSpec
  rcases s with t | t | _ | _ | ⟨_ | _, o⟩ | o <;> try rcases t with _ | _ | _
  all_goals first | (simp [StoreRef.unexpanded, storeLike] at hu hl; done) | skip
  all_goals
    cases hj : has kv ⟨[], .json⟩ <;> cases hg : has kv ⟨[], .zgroup⟩ <;> cases ha : has kv ⟨[], .zarray⟩ <;>
    simp [hj, hg, ha, bind_def, pure_def, bind_apply, isStrOrPath, isStr, isPath, pyAnd, pyOr, toPath, rootFileExists,
      Prog.look, Prog.pure, Prog.raise, run_nil, tryExcept, PyDoStore.tryCatch, openGroup, StoreRef.unexpanded, findRoot,
      rootGroupFmt, groupKey, StoreRef.kind, exc, pyIsInstance, mro, zarrFormatNum, fmtNum]

/-- read-only on EVERY argument and store state (also where the outcome is `Unmodelled`) -/
theorem detect_ops (d : Docs) (s : StoreRef) (kv : KV) : (Gen.StoreGuard.detectZarrSpecVersion d s kv).ops = [] := by
  unfold Gen.StoreGuard.detectZarrSpecVersion
  rcases s with t | t | _ | _ | ⟨_ | _, o⟩ | o <;> try rcases t with _ | _ | _
  all_goals
    cases hj : has kv ⟨[], .json⟩ <;> cases hg : has kv ⟨[], .zgroup⟩ <;> cases ha : has kv ⟨[], .zarray⟩ <;>
    simp [hj, hg, ha, bind_def, pure_def, bind_apply, isStrOrPath, isStr, isPath, pyAnd, pyOr, toPath, rootFileExists,
      Prog.look, Prog.pure, Prog.raise, run_nil, tryExcept, PyDoStore.tryCatch, openGroup, StoreRef.unexpanded, findRoot,
      rootGroupFmt, groupKey, StoreRef.kind, exc, pyIsInstance, mro, zarrFormatNum, fmtNum, unmodelled]


/-! ## `open_storelike` -/

/-- specification of `open_storelike`: `FileNotFoundError` for a `str`/`Path` location that does not
exist; otherwise the root group zarr finds read-only (format detected, 3 preferred); `ValueError`
when there is none (every exception of `open_group` is re-raised as `ValueError`) -/
def openSpec (s : StoreRef) (kv : KV) : Except Outcome Group :=
  if isStrOrPath s && kv.isEmpty then .error (exc "FileNotFoundError")
  else match rootGroupFmt kv with
    | some f => .ok ⟨s, f⟩
    | none => .error .valueError

theorem openStorelike_eq (d : Docs) (s : StoreRef) (kv : KV) (hs : Readable s) :
    Gen.StoreGuard.openStorelike d s kv = ⟨[], openSpec s kv⟩ := by
  obtain ⟨hu, hl⟩ := hs
  have h2 : ("2" == "3") = false := by decide
  unfold Gen.StoreGuard.openStorelike openSpec
  rcases s with t | t | _ | _ | ⟨_ | _, o⟩ | o <;> try rcases t with _ | _ | _
  all_goals first | (simp [StoreRef.unexpanded, storeLike] at hu hl; done) | skip
  all_goals
    cases kv with
    | nil => simp [h2, bind_def, pure_def, bind_apply, isStrOrPath, isStr, isPath, pyAnd, pyOr, toPath, osPathExists, isRemoteUrl,
        strOf, zarrVersionStartsWith, Prog.look, Prog.pure, Prog.raise, run_nil, tryExcept, PyDoStore.tryCatch, openGroup,
        StoreRef.unexpanded, findRoot, rootGroupFmt, has, KV.get, StoreRef.kind, exc, pyIsInstance, mro]
    | cons hd tl =>
      cases hr : rootGroupFmt (hd :: tl) <;>
      simp [hr, h2, bind_def, pure_def, bind_apply, isStrOrPath, isStr, isPath, pyAnd, pyOr, toPath, osPathExists, isRemoteUrl,
        strOf, zarrVersionStartsWith, Prog.look, Prog.pure, Prog.raise, run_nil, tryExcept, PyDoStore.tryCatch, openGroup,
        StoreRef.unexpanded, findRoot, StoreRef.kind, exc, pyIsInstance, mro]

/-- `open_storelike` performs no store mutation, on EVERY argument and store state -/
theorem openStorelike_ops (d : Docs) (s : StoreRef) (kv : KV) : (Gen.StoreGuard.openStorelike d s kv).ops = [] := by
  have h2 : ("2" == "3") = false := by decide
  unfold Gen.StoreGuard.openStorelike
  rcases s with t | t | _ | _ | ⟨_ | _, o⟩ | o <;> try rcases t with _ | _ | _
  all_goals
    cases kv with
    | nil => simp [h2, bind_def, pure_def, bind_apply, isStrOrPath, isStr, isPath, pyAnd, pyOr, toPath, osPathExists, isRemoteUrl,
        strOf, zarrVersionStartsWith, Prog.look, Prog.pure, Prog.raise, run_nil, tryExcept, PyDoStore.tryCatch, openGroup,
        StoreRef.unexpanded, findRoot, rootGroupFmt, has, KV.get, StoreRef.kind, exc, pyIsInstance, mro, unmodelled]
    | cons hd tl =>
      cases hr : rootGroupFmt (hd :: tl) <;>
      simp [hr, h2, bind_def, pure_def, bind_apply, isStrOrPath, isStr, isPath, pyAnd, pyOr, toPath, osPathExists, isRemoteUrl,
        strOf, zarrVersionStartsWith, Prog.look, Prog.pure, Prog.raise, run_nil, tryExcept, PyDoStore.tryCatch, openGroup,
        StoreRef.unexpanded, findRoot, StoreRef.kind, exc, pyIsInstance, mro, unmodelled]

end Geff.StoreGuardGen
