import Gen.Segmentation
import GeffProofs.Segmentation
/-! Helper lemmas: the source-translated segmentation checks `Gen.Segmentation.*` (translator T13)
equal the hand-written model `Geff.Seg.*`.  Every generated `for` loop is characterised by a
hand-written one-step specification (`boundsStep`, `coordsStep`, `timeStep`, `tidxStep`, the inner
label loop) and an induction over the list; the proof of the step consumes the generated loop body
by unification (`rw [bounds_forIn …]`, `refine … (coords_forIn … _ _ ?_ ?_ …)`), so the statements do
not repeat generated text.  Early `return` inside a loop shows up as `ForInStep.done` with the
result in the first component of the loop state. -/
namespace GeffProofs.SegmentationGen
open Geff.Np Geff.Seg Geff.PyDoSeg
set_option linter.unusedSimpArgs false

@[simp] theorem pure_ok {α : Type} (a : α) : (pure a : Outcome α) = Outcome.ok a := rfl
@[simp] theorem ok_bind {α β : Type} (a : α) (f : α → Outcome β) : (Outcome.ok a >>= f) = f a := rfl
@[simp] theorem other_bind {α β : Type} (e : String) (f : α → Outcome β) :
    (Outcome.other e >>= f) = Outcome.other e := rfl

/-! ## has_valid_seg_id, axes_match_seg_dims -/

theorem hasValidSegId_eq (g : MemoryGeff) (key : String) :
    Gen.Segmentation.hasValidSegId g key = Geff.Seg.hasValidSegId g.nodeProps key := by
  unfold Gen.Segmentation.hasValidSegId Geff.Seg.hasValidSegId
  cases hl : g.nodeProps.lookup key with
  | none => simp [dictContains, hl, pure, bind]
  | some info =>
    cases hi : info.dtype.isInteger with
    | false => simp [dictContains, dictGet, hl, hi, pure, bind, PropInfo.values, issubdtypeInteger]
    | true =>
      cases hm : info.missing with
      | none => simp [dictContains, dictGet, hl, hi, hm, pure, bind, PropInfo.values, issubdtypeInteger]
      | some m =>
        cases ha : m.any id <;>
          simp [dictContains, dictGet, hl, hi, hm, ha, pure, bind, PropInfo.values, issubdtypeInteger, pyAny]

theorem axesMatchSegDims_eq (g : MemoryGeff) (v : Vol) :
    Gen.Segmentation.axesMatchSegDims g v = Geff.Seg.axesMatchSegDims g.metadata.axes v.ndim := by
  unfold Gen.Segmentation.axesMatchSegDims Geff.Seg.axesMatchSegDims
  cases h : g.metadata.axes with
  | none => simp [truthy, truthyAxes, pure, bind]
  | some l =>
    cases l with
    | nil => simp [truthy, truthyAxes, pure, bind]
    | cons a t =>
      simp [truthy, truthyAxes, pure, bind, pyLen, asanyarray]
      rw [Bool.eq_iff_iff]; simp

/-! ## graph_is_in_seg_bounds -/


abbrev BSt := Option Result × List Msg

/-- one iteration of the loop of `graph_is_in_seg_bounds`, written by hand -/
def boundsStep (shape : List Nat) (scale : List Dy) (i : Nat) (ax : Axis) : Outcome (ForInStep BSt) :=
  match ax.max with
  | some mx =>
    match shape[i]?, scale[i]? with
    | some n, some s =>
      if (Dy.mul (Dy.ofInt n) s).le mx then
        .ok (.done (some ⟨false, [.axisOutOfBounds i]⟩, [.axisOutOfBounds i]))
      else .ok (.yield (none, []))
    | _, _ => .other "IndexError"
  | none => .ok (.done (some ⟨false, [.noAxisMax]⟩, [.noAxisMax]))

theorem bounds_forIn (shape : List Nat) (scale : List Dy)
    (body : Nat × Axis → BSt → Outcome (ForInStep BSt))
    (hstep : ∀ i ax, body (i, ax) (none, []) = boundsStep shape scale i ax) :
    ∀ (ax : List Axis) (i : Nat),
    forIn (enumFrom i ax) ((none, []) : BSt) body =
      match boundsLoop shape scale i ax with
      | .ok r => if r.ok then .ok (none, []) else .ok (some r, r.errors)
      | .other e => .other e := by
  intro ax
  induction ax with
  | nil => intro i; simp [enumFrom, boundsLoop, pure]
  | cons a rest ih =>
    intro i
    rw [enumFrom, List.forIn_cons, hstep]
    simp only [boundsStep, boundsLoop]
    cases hm : a.max with
    | none => simp [bind, pure]
    | some mx =>
      cases hn : shape[i]? with
      | none => simp [bind]
      | some n =>
        cases hs : scale[i]? with
        | none => simp [bind]
        | some s =>
          cases hle : (Dy.mul (Dy.ofInt n) s).le mx with
          | true => simp [bind, pure, hle]
          | false => simp [bind, ih, hle]

theorem boundsLoop_true (shape : List Nat) (scale : List Dy) :
    ∀ (ax : List Axis) (i : Nat) (r : Result), boundsLoop shape scale i ax = .ok r → r.ok = true → r = ⟨true, []⟩ := by
  intro ax
  induction ax with
  | nil => intro i r h _; simp [boundsLoop] at h; exact h.symm
  | cons a rest ih =>
    intro i r h hr
    simp only [boundsLoop] at h
    split at h
    · split at h
      · split at h
        · cases h; simp at hr
        · exact ih _ _ h hr
      · cases h
    · cases h; simp at hr

theorem graphIsInSegBounds_eq (g : MemoryGeff) (v : Vol) (scale : Option (List Dy)) :
    Gen.Segmentation.graphIsInSegBounds g v scale =
      Geff.Seg.graphIsInSegBounds g.metadata.axes v.shape scale := by
  unfold Gen.Segmentation.graphIsInSegBounds Geff.Seg.graphIsInSegBounds
  have hsc : scale.getD (List.replicate v.shape.length (Dy.ofInt 1)) = defaultScale scale v.shape.length := by
    cases scale <;> simp [defaultScale]
  simp only [asanyarray, Vol.ndim, hsc]
  by_cases hl : (defaultScale scale v.shape.length).length = v.shape.length
  · simp only [hl, bne_self_eq_false, Bool.false_eq_true, ↓reduceIte, ne_eq, not_true_eq_false]
    cases h : g.metadata.axes with
    | none => simp [truthy, truthyAxes, pure]
    | some l =>
      cases l with
      | nil => simp [truthy, truthyAxes, pure]
      | cons a t =>
        simp only [truthy, truthyAxes, ↓reduceIte, pyLen, pyIter, bind, pyEnumerate, List.length_cons]
        by_cases hax : t.length + 1 = v.shape.length
        · simp only [hax, bne_self_eq_false, Bool.false_eq_true, ↓reduceIte, ne_eq, not_true_eq_false]
          rw [bounds_forIn v.shape (defaultScale scale v.shape.length)]
          · cases hb : boundsLoop v.shape (defaultScale scale v.shape.length) 0 (a :: t) with
            | other e => simp
            | ok r =>
              cases hr : r.ok with
              | true => rw [boundsLoop_true _ _ _ _ _ hb hr]; simp
              | false => simp [hr]
          · intro i ax
            simp only [boundsStep, listGet]
            cases ax.max with
            | none => simp
            | some mx =>
              cases v.shape[i]? with
              | none => simp
              | some n =>
                cases (defaultScale scale v.shape.length)[i]? with
                | none => simp
                | some s => cases hle : (Dy.mul (Dy.ofInt n) s).le mx <;> simp [hle]
        · simp [hax, pure]
  · simp [hl, pure]

/-! ## has_seg_ids_at_coords -/


abbrev CSt := Option Result × List Msg × List Int

theorem mapZipStrict_mul : ∀ (coord scale : List Dy),
    mapZipStrict (fun (c : Dy) (s : Dy) => Dy.mul c s) coord scale = scaleCoord coord scale
  | [], [] => rfl
  | c :: cs, s :: ss => by simp only [mapZipStrict, scaleCoord, mapZipStrict_mul cs ss]; cases scaleCoord cs ss <;> rfl
  | [], _ :: _ => rfl
  | _ :: _, [] => rfl

theorem scaleCoord_length : ∀ (coord scale sc : List Dy), scaleCoord coord scale = .ok sc → sc.length = coord.length
  | [], [], sc, h => by simp [scaleCoord] at h; simp [← h]
  | c :: cs, s :: ss, sc, h => by
    simp only [scaleCoord] at h
    cases hr : scaleCoord cs ss with
    | other e => simp [hr] at h
    | ok r => simp [hr] at h; simp [← h, scaleCoord_length cs ss r hr]
  | [], _ :: _, sc, h => by simp [scaleCoord] at h
  | _ :: _, [], sc, h => by simp [scaleCoord] at h

theorem allZipStrict_eq : ∀ (sc : List Dy) (shape : List Nat), sc.length = shape.length →
    allZipStrict (fun (c : Dy) (dim : Nat) => (Dy.le (Dy.ofInt 0) c && Dy.lt c (Dy.ofInt dim))) sc shape =
      .ok (allInRange sc shape)
  | [], [], _ => rfl
  | c :: cs, n :: ns, h => by
    simp only [allZipStrict, allInRange, allZipStrict_eq cs ns (by simpa using h)]
    cases ((Dy.ofInt 0).le c && c.lt (Dy.ofInt ↑n)) <;> simp
  | [], _ :: _, h => by simp at h
  | _ :: _, [], h => by simp at h

theorem pyInt_eq_floor (c : Dy) (h : (Dy.ofInt 0).le c = true) : pyInt c = c.floor := by
  simp only [Dy.le, Dy.ofInt, Int.zero_mul, Int.pow_zero, Int.mul_one, decide_eq_true_eq] at h
  simp only [pyInt, Dy.floor]
  exact Int.tdiv_eq_ediv_of_nonneg h

theorem map_pyInt_eq : ∀ (sc : List Dy) (shape : List Nat), allInRange sc shape = true →
    sc.map (fun (c : Dy) => pyInt c) = sc.map Dy.floor
  | [], [], _ => rfl
  | c :: cs, n :: ns, h => by
    simp only [allInRange, Bool.and_eq_true] at h
    simp [pyInt_eq_floor c h.1.1, map_pyInt_eq cs ns h.2]
  | [], _ :: _, h => by simp [allInRange] at h
  | _ :: _, [], h => by simp [allInRange] at h

theorem dictSetKey_pos (m : List Int) (k : Int) : (dictSetKey m k).length > 0 := by
  unfold dictSetKey
  split
  · rename_i h; cases m with
    | nil => simp at h
    | cons _ _ => simp
  · simp

/-- one iteration of the loop of `has_seg_ids_at_coords`, written by hand in terms of the model -/
def coordsStep (v : Vol) (scale : List Dy) (k : Nat) (coord : List Dy) (id : Int) (missing : List Int) :
    Outcome (ForInStep CSt) :=
  if coord.length ≠ v.ndim then .ok (.done (some ⟨false, [.coordLength k]⟩, [.coordLength k], missing))
  else match scaleCoord coord scale with
    | .other e => .other e
    | .ok sc =>
      if !allInRange sc v.shape then
        .ok (.done (some ⟨false, [.coordOutOfBounds k]⟩, [.coordOutOfBounds k], missing))
      else match npIndex v (sc.map Dy.floor) with
        | .other e => .other e
        | .ok value => .ok (.yield (none, [], if value != id then dictSetKey missing id else missing))

def coordsFin (s : CSt) : Outcome Result :=
  match s.1 with
  | some r => .ok r
  | none => .ok ⟨!decide (s.2.2.length > 0), s.2.1⟩

theorem coords_forIn (v : Vol) (scale : List Dy)
    (body : Nat × List Dy × Int → CSt → Outcome (ForInStep CSt)) (fin : CSt → Outcome Result)
    (hstep : ∀ k coord id missing, body (k, coord, id) (none, [], missing) = coordsStep v scale k coord id missing)
    (hfin : ∀ s, fin s = coordsFin s) :
    ∀ (pairs : List (List Dy × Int)) (k : Nat) (missing : List Int),
    (forIn (enumFrom k pairs) ((none, [], missing) : CSt) body >>= fin) =
      coordLoop v scale k pairs (decide (missing.length > 0)) := by
  intro pairs
  induction pairs with
  | nil => intro k missing; simp [enumFrom, coordLoop, hfin, coordsFin]
  | cons p rest ih =>
    intro k missing
    obtain ⟨coord, id⟩ := p
    rw [enumFrom, List.forIn_cons, hstep]
    simp only [coordsStep, coordLoop]
    by_cases hlen : coord.length = v.ndim
    · simp only [hlen, ne_eq, not_true_eq_false, ↓reduceIte]
      cases hsc : scaleCoord coord scale with
      | other e => simp
      | ok sc =>
        cases hr : allInRange sc v.shape with
        | false => simp [hfin, coordsFin, hr]
        | true =>
          cases hix : npIndex v (sc.map Dy.floor) with
          | other e => simp [hr, hix]
          | ok value =>
            simp only [hr, hix, Bool.not_true, Bool.false_eq_true, ↓reduceIte, ok_bind]
            rw [ih]
            congr 1
            by_cases hv : value = id
            · simp [hv]
            · have := dictSetKey_pos missing id
              simp [hv, this]
    · simp [hlen, hfin, coordsFin]

theorem hasSegIdsAtCoords_eq (v : Vol) (coords : List (List Dy)) (ids : List Int) (scale : Option (List Dy)) :
    Gen.Segmentation.hasSegIdsAtCoords v coords ids scale = Geff.Seg.hasSegIdsAtCoords v coords ids scale := by
  unfold Gen.Segmentation.hasSegIdsAtCoords Geff.Seg.hasSegIdsAtCoords
  have hsc : scale.getD (List.replicate v.ndim (Dy.ofInt 1)) = defaultScale scale v.ndim := by
    cases scale <;> simp [defaultScale]
  simp only [asanyarray, hsc]
  by_cases hl : coords.length = ids.length
  · simp only [hl, beq_self_eq_true, Bool.not_true, Bool.false_eq_true, ↓reduceIte, ne_eq, not_true_eq_false]
    by_cases hs : (defaultScale scale v.ndim).length = v.ndim
    · simp only [hs, bne_self_eq_false, Bool.false_eq_true, ↓reduceIte, ne_eq, not_true_eq_false, pyEnumerate, pyZip]
      refine Eq.trans (coords_forIn v (defaultScale scale v.ndim) _ _ ?_ ?_ (coords.zip ids) 0 []) (by simp)
      · intro k coord id missing
        simp only [coordsStep, mapZipStrict_mul]
        by_cases hlen : coord.length = v.ndim
        · simp only [hlen, bne_self_eq_false, Bool.false_eq_true, ↓reduceIte, ne_eq, not_true_eq_false]
          cases hsc' : scaleCoord coord (defaultScale scale v.ndim) with
          | other e => simp
          | ok sc =>
            have hlen' : sc.length = v.shape.length := by
              rw [scaleCoord_length _ _ _ hsc', hlen]; rfl
            simp only [ok_bind, allZipStrict_eq sc v.shape hlen']
            cases hr : allInRange sc v.shape with
            | false => simp
            | true =>
              simp only [Bool.not_true, Bool.false_eq_true, ↓reduceIte, map_pyInt_eq sc v.shape hr]
              cases npIndex v (sc.map Dy.floor) with
              | other e => simp
              | ok value => by_cases hv : value = id <;> simp [hv]
        · simp [hlen]
      · intro s
        obtain ⟨r, errs, missing⟩ := s
        cases r with
        | some r => simp [coordsFin]
        | none => by_cases hm : missing.length > 0 <;> simp [coordsFin, hm]
    · simp [hs]
  · simp [hl]

/-! ## has_seg_ids_at_time_points -/


/-! ## defaultdict grouping -/

theorem ddGet_ddAppend (d : List (Int × List Int)) (k v t : Int) :
    ddGet (ddAppend d k v) t = if k = t then ddGet d t ++ [v] else ddGet d t := by
  induction d with
  | nil =>
    by_cases h : k = t
    · simp [ddAppend, ddGet, List.lookup, h]
    · have : (t == k) = false := by simpa using fun h' => h h'.symm
      simp [ddAppend, ddGet, List.lookup, h, this]
  | cons p rest ih =>
    obtain ⟨k', l⟩ := p
    simp only [ddAppend]
    by_cases hk : k' = k
    · subst hk
      by_cases h : k' = t
      · subst h; simp [ddGet, List.lookup]
      · have : (t == k') = false := by simpa using fun h' => h h'.symm
        simp [ddGet, List.lookup, h, this]
    · have hk' : (k' == k) = false := by simpa using hk
      simp only [hk', Bool.false_eq_true, ↓reduceIte]
      by_cases ht : t = k'
      · subst ht
        have : ¬ k = t := fun h => hk h.symm
        simp [ddGet, List.lookup, this]
      · have : (t == k') = false := by simpa using ht
        simp only [ddGet, List.lookup, this] at ih ⊢
        exact ih

def groupFold (d : List (Int × List Int)) (pairs : List (Int × Int)) : List (Int × List Int) :=
  pairs.foldl (fun d p => ddAppend d p.1 p.2) d

theorem group_forIn (body : Int × Int → List (Int × List Int) → Outcome (ForInStep (List (Int × List Int))))
    (hstep : ∀ t id d, body (t, id) d = .ok (.yield (ddAppend d t id))) :
    ∀ (pairs : List (Int × Int)) (d : List (Int × List Int)),
    forIn pairs d body = .ok (groupFold d pairs) := by
  intro pairs
  induction pairs with
  | nil => intro d; simp [groupFold]
  | cons p rest ih =>
    intro d
    obtain ⟨t0, id0⟩ := p
    rw [List.forIn_cons, hstep]
    simpa [groupFold] using ih (ddAppend d t0 id0)

theorem ddGet_groupFold : ∀ (pairs : List (Int × Int)) (d : List (Int × List Int)) (t : Int),
    ddGet (groupFold d pairs) t = ddGet d t ++ groupAt pairs t := by
  intro pairs
  induction pairs with
  | nil => intro d t; simp [groupFold, groupAt]
  | cons p rest ih =>
    intro d t
    obtain ⟨t0, id0⟩ := p
    have : groupFold d ((t0, id0) :: rest) = groupFold (ddAppend d t0 id0) rest := by simp [groupFold]
    rw [this, ih, ddGet_ddAppend]
    by_cases h : t0 = t
    · simp [h, groupAt, List.filter_cons]
    · have : (t0 == t) = false := by simpa using h
      simp [h, groupAt, List.filter_cons, this]

theorem ddAppend_pos (m : List (Int × List Int)) (k v : Int) : (ddAppend m k v).length > 0 := by
  cases m with
  | nil => simp [ddAppend]
  | cons p rest => obtain ⟨k', l⟩ := p; simp only [ddAppend]; split <;> simp

theorem foldl_ddAppend_pos (t : Int) : ∀ (miss : List Int) (m : List (Int × List Int)),
    decide ((miss.foldl (fun m id => ddAppend m t id) m).length > 0) = (decide (m.length > 0) || !miss.isEmpty) := by
  intro miss
  induction miss with
  | nil => intro m; simp
  | cons a rest ih =>
    intro m
    rw [List.foldl_cons, ih]
    have := ddAppend_pos m t a
    simp [this]

/-! ## the inner loop of `has_seg_ids_at_time_points` -/

abbrev ISt := List Msg × List (Int × List Int)

theorem inner_forIn (labels : List Int) (t : Int) (body : Int → ISt → Outcome (ForInStep ISt))
    (hstep : ∀ id errs missing, body id (errs, missing) =
      .ok (.yield (if !labels.contains id then (errs ++ [Msg.missingLabel id t], ddAppend missing t id)
                   else (errs, missing)))) :
    ∀ (group : List Int) (errs : List Msg) (missing : List (Int × List Int)),
    forIn group ((errs, missing) : ISt) body =
      .ok (errs ++ (group.filter (fun id => !labels.contains id)).map (fun id => Msg.missingLabel id t),
           (group.filter (fun id => !labels.contains id)).foldl (fun m id => ddAppend m t id) missing) := by
  intro group
  induction group with
  | nil => intro errs missing; simp
  | cons a rest ih =>
    intro errs missing
    rw [List.forIn_cons, hstep]
    by_cases h : labels.contains a
    · simp only [h, Bool.not_true, Bool.false_eq_true, ↓reduceIte, ok_bind, ih, List.filter_cons]
    · have h' : labels.contains a = false := by simpa using h
      simp only [h', Bool.not_false, ↓reduceIte, ok_bind, ih, List.filter_cons, List.map_cons,
        List.foldl_cons, List.append_assoc, List.singleton_append]

/-! ## the outer loop -/

abbrev TSt := Option Result × List Msg × List (Int × List Int)

/-- one iteration of the loop over `time_points`, written by hand in terms of the model -/
def timeStep (v : Vol) (ti : Nat) (group : Int → List Int) (t : Int) (errs : List Msg)
    (missing : List (Int × List Int)) : Outcome (ForInStep TSt) :=
  match v.shape[ti]? with
  | none => .ok (.done (some ⟨false, errs ++ [.timeOutOfBounds t]⟩, errs ++ [.timeOutOfBounds t], missing))
  | some n =>
    if ¬ (0 ≤ t ∧ t < n) then
      .ok (.done (some ⟨false, errs ++ [.timeOutOfBounds t]⟩, errs ++ [.timeOutOfBounds t], missing))
    else match npTakeLabels v ti t with
      | .other e => .other e
      | .ok labels =>
        .ok (.yield (none,
          errs ++ ((group t).filter (fun id => !labels.contains id)).map (fun id => Msg.missingLabel id t),
          ((group t).filter (fun id => !labels.contains id)).foldl (fun m id => ddAppend m t id) missing))

def timeFin (s : TSt) : Outcome Result :=
  match s.1 with
  | some r => .ok r
  | none => .ok ⟨!decide (s.2.2.length > 0), s.2.1⟩

theorem time_forIn (v : Vol) (ti : Nat) (pairs : List (Int × Int))
    (body : Int → TSt → Outcome (ForInStep TSt)) (fin : TSt → Outcome Result)
    (hstep : ∀ t errs missing, body t (none, errs, missing) = timeStep v ti (groupAt pairs) t errs missing)
    (hfin : ∀ s, fin s = timeFin s) :
    ∀ (rest : List Int) (errs : List Msg) (missing : List (Int × List Int)),
    (forIn rest ((none, errs, missing) : TSt) body >>= fin) =
      timeLoop v ti pairs rest errs (decide (missing.length > 0)) := by
  intro rest
  induction rest with
  | nil => intro errs missing; simp [timeLoop, hfin, timeFin]
  | cons t rest ih =>
    intro errs missing
    rw [List.forIn_cons, hstep]
    simp only [timeStep, timeLoop]
    cases hn : v.shape[ti]? with
    | none => simp [hfin, timeFin]
    | some n =>
      by_cases hin : 0 ≤ t ∧ t < (n : Int)
      · simp only [hin, and_self, not_true_eq_false, ↓reduceIte]
        cases hl : npTakeLabels v ti t with
        | other e => simp
        | ok labels =>
          simp only [ok_bind]
          rw [ih, foldl_ddAppend_pos]
      · simp [hin, hfin, timeFin]

/-! ## the time axis -/

theorem dyEq_refl (a : Dy) : dyEq a a = true := by simp [dyEq]

theorem axisEq_refl (a : Axis) : axisEq a a = true := by
  unfold axisEq
  cases a.max <;> simp [dyEq_refl]

theorem axisEq_type {a b : Axis} (h : axisEq a b = true) : a.type = b.type := by
  unfold axisEq at h
  simp only [Bool.and_eq_true, beq_iff_eq] at h
  exact h.1

theorem indexFrom_mem (a : Axis) : ∀ (L : List Axis) (k : Nat), a ∈ L →
    ∃ j, ∃ h : j < L.length, indexFrom a k L = .ok (k + j) ∧ axisEq L[j] a = true := by
  intro L
  induction L with
  | nil => intro k h; simp at h
  | cons x xs ih =>
    intro k h
    by_cases hx : axisEq x a = true
    · exact ⟨0, by simp, by simp [indexFrom, hx], by simpa using hx⟩
    · have hmem : a ∈ xs := by
        rcases List.mem_cons.1 h with rfl | h'
        · exact absurd (axisEq_refl a) hx
        · exact h'
      obtain ⟨j, hj, h1, h2⟩ := ih (k + 1) hmem
      refine ⟨j + 1, by simpa using hj, ?_, by simpa using h2⟩
      simp only [indexFrom, hx, Bool.false_eq_true, ↓reduceIte, h1]
      congr 1; omega

theorem mem_timeIndices : ∀ (L : List Axis) (k j : Nat) (h : j < L.length),
    L[j].type = some "time" → k + j ∈ timeIndices k L := by
  intro L
  induction L with
  | nil => intro k j h; simp at h
  | cons x xs ih =>
    intro k j h ht
    cases j with
    | zero =>
      have : x.type = some "time" := by simpa using ht
      simp [timeIndices, this]
    | succ j =>
      have := ih (k + 1) j (by simpa using h) (by simpa using ht)
      have e : k + 1 + j = k + (j + 1) := by omega
      rw [e] at this
      simp only [timeIndices]
      split
      · exact List.mem_cons_of_mem _ this
      · exact this

theorem timeIndices_length : ∀ (L : List Axis) (k : Nat),
    (timeIndices k L).length = (L.filter (fun a => a.type == some "time")).length := by
  intro L
  induction L with
  | nil => intro k; simp [timeIndices]
  | cons x xs ih =>
    intro k
    simp only [timeIndices, List.filter_cons]
    split <;> simp [ih]

def tidxStep (L : List Axis) (ax : Axis) (s : List Nat) : Outcome (ForInStep (List Nat)) :=
  if ax.type == some "time" then
    match pyIndexOf (some L) ax with
    | .ok t2 => .ok (.yield (s ++ [t2]))
    | .other e => .other e
  else .ok (.yield s)

/-- the list the comprehension `[axes.index(ax) for ax in axes if ax.type == "time"]` builds -/
def tidxList (L l : List Axis) : List Nat :=
  (l.filter (fun a => a.type == some "time")).map
    (fun ax => match indexFrom ax 0 L with | .ok j => j | .other _ => 0)

theorem tidx_forIn (L : List Axis) (body : Axis → List Nat → Outcome (ForInStep (List Nat)))
    (hstep : ∀ ax s, body ax s = tidxStep L ax s) :
    ∀ (l : List Axis) (s : List Nat), (∀ a ∈ l, a ∈ L) →
    forIn l s body = .ok (s ++ tidxList L l) := by
  intro l
  induction l with
  | nil => intro s _; simp [tidxList]
  | cons a rest ih =>
    intro s hmem
    rw [List.forIn_cons, hstep]
    have hrest : ∀ a ∈ rest, a ∈ L := fun b hb => hmem b (List.mem_cons_of_mem _ hb)
    by_cases ht : a.type = some "time"
    · obtain ⟨j, hj, h1, h2⟩ := indexFrom_mem a L 0 (hmem a (by simp))
      simp only [tidxStep, ht, beq_self_eq_true, ↓reduceIte, pyIndexOf, h1, Nat.zero_add, ok_bind,
        ih (s ++ [j]) hrest]
      simp [tidxList, List.filter_cons, ht, h1]
    · have ht' : (a.type == some "time") = false := by simpa using ht
      simp [tidxStep, ht', ih s hrest, tidxList, List.filter_cons]

theorem tidxList_length (L l : List Axis) :
    (tidxList L l).length = (l.filter (fun a => a.type == some "time")).length := by
  simp [tidxList]

theorem tidxList_mem (L l : List Axis) (hmem : ∀ a ∈ l, a ∈ L) :
    ∀ j ∈ tidxList L l, ∃ h : j < L.length, L[j].type = some "time" := by
  intro j hj
  simp only [tidxList, List.mem_map, List.mem_filter, beq_iff_eq] at hj
  obtain ⟨ax, ⟨hax, ht⟩, rfl⟩ := hj
  obtain ⟨j, hj, h1, h2⟩ := indexFrom_mem ax L 0 (hmem ax hax)
  simp only [h1, Nat.zero_add]
  exact ⟨hj, by rw [axisEq_type h2]; exact ht⟩

/-- what the generated code computes for `time_index` from a non-empty axes list -/
theorem tidx_result (a : Axis) (rest : List Axis) (r : List Nat)
    (hlen : r.length = ((a :: rest).filter (fun a => a.type == some "time")).length)
    (hmem : ∀ j ∈ r, ∃ h : j < (a :: rest).length, (a :: rest)[j].type = some "time") :
    Geff.Seg.timeIndex (some (a :: rest)) =
      (if r.length == 1 then (match r with | j :: _ => j | [] => 0) else 0) := by
  simp only [Geff.Seg.timeIndex, truthyAxes]
  generalize a :: rest = L at *
  rw [← timeIndices_length L 0] at hlen
  match r, hlen, hmem with
  | [], hlen, _ =>
    have : timeIndices 0 L = [] := List.eq_nil_of_length_eq_zero (by simpa using hlen.symm)
    simp [this]
  | [j], hlen, hmem =>
    obtain ⟨hj, ht⟩ := hmem j (by simp)
    have hin := mem_timeIndices L 0 j hj ht
    match hti : timeIndices 0 L, hlen with
    | [i], _ =>
      rw [hti] at hin
      simp at hin
      simp [hin]
    | [], h => simp at h
    | _ :: _ :: _, h => simp at h
  | _ :: _ :: r', hlen, _ =>
    match hti : timeIndices 0 L, hlen with
    | [], h => simp at h
    | [i], h => simp at h
    | _ :: _ :: _, _ => simp

theorem hasSegIdsAtTimePoints_eq (v : Vol) (tps ids : List Int) (md : Option Metadata) :
    Gen.Segmentation.hasSegIdsAtTimePoints v tps ids md =
      Geff.Seg.hasSegIdsAtTimePoints v tps ids (md.bind (·.axes)) := by
  unfold Gen.Segmentation.hasSegIdsAtTimePoints Geff.Seg.hasSegIdsAtTimePoints
  -- the straight-line prefix is independent of the order of the `let`s: every local definition but
  -- the join point (the last one) is unfolded wherever it is used
  extract_lets
  rename (Unit → Nat → Outcome Result) => jp
  have hjp : ∀ u ti, jp u ti = timeLoop v ti (tps.zip ids) tps [] false := by
    intro u ti
    simp only [jp, pyZip]
    rw [group_forIn _ (fun t id d => rfl)]
    simp only [ok_bind]
    refine Eq.trans (time_forIn v ti (tps.zip ids) _ _ ?_ ?_ tps _ _) (by simp +zetaDelta)
    · intro t errs missing
      have hg : ddGet (groupFold [] (tps.zip ids)) t = groupAt (tps.zip ids) t := by
        rw [ddGet_groupFold]; simp [ddGet]
      simp +zetaDelta only [timeStep, npShape, hg, listGet, npUniqueTake, pySet, tolist]
      cases hn : v.shape[ti]? with
      | none =>
        have : v.shape.length ≤ ti := by
          rcases Nat.lt_or_ge ti v.shape.length with h | h
          · rw [List.getElem?_eq_getElem h] at hn; cases hn
          · exact h
        simp [this]
      | some n =>
        have hlt : ti < v.shape.length := by
          rcases Nat.lt_or_ge ti v.shape.length with h | h
          · exact h
          · rw [List.getElem?_eq_none h] at hn; cases hn
        have hnot : ¬ v.shape.length ≤ ti := by omega
        by_cases h0 : 0 ≤ t
        · by_cases h1 : t < (n : Int)
          · simp only [ge_iff_le, hnot, decide_false, Bool.not_false, ↓reduceIte, h0, decide_true, ok_bind, h1,
              Bool.not_true, Bool.false_eq_true, and_self, not_true_eq_false]
            cases hl : npTakeLabels v ti t with
            | other e => simp
            | ok labels =>
              simp only [ok_bind]
              rw [inner_forIn labels t _ (fun id errs missing => by
                by_cases hc : id ∈ labels <;> simp [hc])]
              simp
          · have h1' : (n : Int) ≤ t := by omega
            simp [hnot, h0, h1, h1']
        · simp [hnot, h0]
    · intro s
      obtain ⟨r, errs, missing⟩ := s
      cases r with
      | some r => simp [timeFin]
      | none => by_cases hm : missing.length > 0 <;> simp [timeFin, hm]
  clear_value jp
  cases md with
  | none => simp +zetaDelta [hjp, Geff.Seg.timeIndex, truthyAxes]
  | some m =>
    simp only [Option.bind_some]
    cases hax : m.axes with
    | none => simp +zetaDelta [hjp, truthy, Geff.Seg.timeIndex, truthyAxes]
    | some L =>
      cases L with
      | nil => simp +zetaDelta [hjp, truthy, Geff.Seg.timeIndex, truthyAxes]
      | cons a rest =>
        simp only [truthy, ↓reduceIte, pyIter, ok_bind]
        rw [tidx_forIn (a :: rest) _ ?_ (a :: rest) [] (fun _ h => h)]
        · have hres := tidx_result a rest (tidxList (a :: rest) (a :: rest))
            (tidxList_length _ _) (tidxList_mem _ _ (fun _ h => h))
          rw [hres]
          simp only [List.nil_append, ok_bind]
          generalize tidxList (a :: rest) (a :: rest) = r
          match r with
          | [] => simp +zetaDelta [hjp]
          | [j] => simp [hjp, listGet]
          | _ :: _ :: _ => simp +zetaDelta [hjp]
        · intro ax s
          simp only [tidxStep]
          split
          · cases pyIndexOf (some (a :: rest)) ax <;> rfl
          · rfl

end GeffProofs.SegmentationGen
