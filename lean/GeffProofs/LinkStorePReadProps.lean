import GeffProofs.LinkStorePRead
import Mathlib.Data.List.Forall2
/-! Integration layer, link C09 ← C01 (part 2): property by property, C09's model of
`_load_prop_to_memory` (no mask) on the translated arrays returns the translation of what C01's reader
returns (`pread_loadProp`, `pread_loadProps`); dict-level lemmas about `optMapSnd`. -/
namespace Geff.Link
open Geff.Np Geff.Store
open Geff.WR (PropArr PVals Props ReadResult lookupKey Writable RowsOK upcast vlenCodec encodeProp dtypeOfProp isVarlen)
open Gen.Paths (NODES EDGES IDS PROPS VALUES MISSING DATA)

theorem boolsOf_of_all (fl : List Val) (h : ∀ v ∈ fl, ∃ x, v = Val.b x) :
    ∃ bs, boolsOf fl = some bs ∧ bs.length = fl.length := by
  induction fl with
  | nil => exact ⟨[], rfl, rfl⟩
  | cons v t ih =>
    obtain ⟨x, rfl⟩ := h v (List.mem_cons_self ..)
    obtain ⟨bs, hbs, hl⟩ := ih (fun w hw => h w (List.mem_cons_of_mem _ hw))
    exact ⟨x :: bs, by simp [boolsOf, hbs], by simp [hl]⟩

theorem maskBack_rowsOK (n : Nat) (p : PropArr) (hr : RowsOK n p) :
    ∃ ms, maskBack (upcast p).missing = some ms ∧ ∀ l, ms = some l → l.length = n := by
  rw [Geff.WR.upcast_missing]
  cases hm : p.missing with
  | none => exact ⟨none, rfl, fun l h => by cases h⟩
  | some m =>
    obtain ⟨hsh, hwf, hb⟩ := hr.1 m hm
    obtain ⟨bs, hbs, hl⟩ := boolsOf_of_all m.flat hb
    refine ⟨some bs, by simp [maskBack, hbs], ?_⟩
    intro l hl'
    cases hl'
    rw [hl, hwf, hsh]; simp [prod]

/-- **one property**: what C09's `_load_prop_to_memory` model makes of the arrays C01's writer stored is
what C01's reader makes of them -/
theorem pread_loadProp (name : String) (p : PropArr) (n : Nat) (hw : Writable name p) (hr : RowsOK n p)
    (v : NdArr) (d : Option NdArr) (he : encodeProp vlenCodec (upcast p) = .ok (v, d))
    (pm : Geff.Store.PropMeta) (hdt : pm.dtype = (dtypeOfProp p).name) (hvl : pm.varlength = some (isVarlen p)) :
    ∃ zp pm' mp, zpOf ⟨v, (upcast p).missing, d⟩ = some zp ∧ pmOf pm = some pm' ∧
      memPropOf (upcast p) = some mp ∧
      Geff.PRead.loadPropToMemory castId zp none pm' = .ok mp ∧ zp.lenOk n := by
  obtain ⟨ms, hms, hmslen⟩ := maskBack_rowsOK n p hr
  obtain ⟨hhead, hkind⟩ := Geff.Bridge.stored_shapes name p n hw hr v d he
  have hpm : pmOf pm = some ⟨dtypeOfProp p, isVarlen p, pm.identifier⟩ := by
    unfold pmOf; rw [hdt, Dtype.ofName_name, hvl]; rfl
  -- the values array has a leading axis of extent n
  obtain ⟨tr, hshape⟩ : ∃ tr, v.shape = n :: tr := by
    cases hs : v.shape with
    | nil => rw [hs] at hhead; cases hhead
    | cons a t => rw [hs] at hhead; simp only [List.head?_cons, Option.some.injEq] at hhead; exact ⟨t, by rw [hhead]⟩
  have hA : arrOfNd v = some ⟨tr, chunks (prod tr) n v.flat⟩ := by unfold arrOfNd; rw [hshape]
  cases hval : p.values with
  | dense a =>
    have hnv : isVarlen p = false := by unfold isVarlen; rw [hval]
    rw [hnv] at hkind
    simp only [Bool.false_eq_true, if_false] at hkind
    obtain ⟨hvdt, hd⟩ := hkind
    subst hd
    obtain ⟨a', ha'⟩ : ∃ a', (upcast p).values = .dense a' := by
      rw [Geff.WR.upcast_dense p a hval]; split
      · exact ⟨_, rfl⟩
      · exact ⟨a, hval⟩
    have hva : v = a' := by
      unfold encodeProp at he; rw [ha'] at he
      simp only [pure, Except.pure, Except.ok.injEq, Prod.mk.injEq] at he
      exact he.1.symm
    subst hva
    refine ⟨⟨⟨tr, chunks (prod tr) n v.flat⟩, ms, none⟩, _, ⟨.dense v.dtype tr (chunks (prod tr) n v.flat), ms⟩,
      ?_, hpm, ?_, ?_, ⟨length_chunks _ _ _, hmslen⟩⟩
    · unfold zpOf; simp only [hA, hms]; rfl
    · unfold memPropOf; rw [hms]; simp only [ha', hA, Option.map_some]
    · unfold Geff.PRead.loadPropToMemory Geff.PRead.assemble
      simp only [Geff.PRead.maskToIndices, Geff.PRead.loadZarrSubset, hnv, hvdt, Bool.false_eq_true, if_false,
        map_map_castId, bind, Except.bind, pure, Except.pure, Option.map_none]
      cases ms <;> simp [Except.map]
  | obj es =>
    have hv' : isVarlen p = true := by unfold isVarlen; rw [hval]
    rw [hv'] at hkind
    simp only [if_true] at hkind
    obtain ⟨_, _, dd, hd, hddt, _⟩ := hkind
    subst hd
    have hup := Geff.WR.upcast_obj p es hval
    have hwv := hw.2.2
    rw [hval] at hwv
    obtain ⟨hwf, hh, _⟩ := hwv
    obtain ⟨v', d', henc, hdec, _, _⟩ := Geff.WR.vlenCodec_lawful.roundtrip es hwf hh
    have hvd : v = v' ∧ dd = d' := by
      unfold encodeProp at he; rw [hup, hval] at he
      simp only [henc, bind, Except.bind, pure, Except.pure, Except.ok.injEq, Prod.mk.injEq, Option.some.injEq] at he
      exact ⟨he.1.symm, he.2.symm⟩
    obtain ⟨rfl, rfl⟩ := hvd
    have hdes : Geff.Vlen.deserializeVlen v dd = .ok es := by
      have : Geff.WR.ofVlen (Geff.Vlen.deserializeVlen v dd) = .ok es := hdec
      cases hx : Geff.Vlen.deserializeVlen v dd with
      | ok l => rw [hx] at this; simp only [Geff.WR.ofVlen, pure, Except.pure, Except.ok.injEq] at this; rw [this]
      | valueError => rw [hx] at this; cases this
      | typeError => rw [hx] at this; cases this
      | other x => rw [hx] at this; cases this
      | unmodelled x => rw [hx] at this; cases this
    have hagree := deserialize_agree v dd es _ hdes hA
    have hdte : dtypeOfProp p = dd.dtype := hddt.symm
    refine ⟨⟨⟨tr, chunks (prod tr) n v.flat⟩, ms, some dd.flat⟩, _, ⟨.object es, ms⟩,
      ?_, hpm, ?_, ?_, ⟨length_chunks _ _ _, hmslen⟩⟩
    · unfold zpOf; simp only [hA, hms]; rfl
    · unfold memPropOf; rw [hms, hup]; simp only [hval]
    · unfold Geff.PRead.loadPropToMemory Geff.PRead.assemble
      have hdata : ∀ dt, dd.flat.map (castId dt) = dd.flat := by
        intro dt
        show dd.flat.map id = dd.flat
        exact List.map_id _
      simp only at hagree
      simp only [Geff.PRead.maskToIndices, Geff.PRead.loadZarrSubset, hv', if_true,
        map_map_castId, bind, Except.bind, pure, Except.pure, Option.map_some, hdte, hdata, hagree]
      cases ms <;> simp [Except.map]

/-! ### dict-level lemmas -/

theorem optMapSnd_keys {β γ : Type} (f : β → Option γ) : ∀ (l : List (String × β)) (l' : List (String × γ)),
    optMapSnd f l = some l' → l'.map (·.1) = l.map (·.1) := by
  intro l
  induction l with
  | nil => intro l' h; simp only [optMapSnd, Option.some.injEq] at h; subst h; rfl
  | cons a t ih =>
    intro l' h
    obtain ⟨k, v⟩ := a
    simp only [optMapSnd] at h
    cases hf : f v with
    | none => simp [hf] at h
    | some a =>
      cases ht : optMapSnd f t with
      | none => simp [hf, ht] at h
      | some r =>
        simp only [hf, ht, Option.some.injEq] at h
        subst h
        simp [ih r ht]

theorem optMapSnd_lookup {β γ : Type} (f : β → Option γ) : ∀ (l : List (String × β)) (l' : List (String × γ)),
    optMapSnd f l = some l' → ∀ k v, lookupKey k l = some v → ∃ w, f v = some w ∧ Geff.PRead.lookup k l' = some w := by
  intro l
  induction l with
  | nil => intro l' _ k v hl; cases hl
  | cons a t ih =>
    intro l' h k v hl
    obtain ⟨k0, v0⟩ := a
    simp only [optMapSnd] at h
    cases hf : f v0 with
    | none => simp [hf] at h
    | some a =>
      cases ht : optMapSnd f t with
      | none => simp [hf, ht] at h
      | some r =>
        simp only [hf, ht, Option.some.injEq] at h
        subst h
        unfold lookupKey at hl
        by_cases hk : k0 = k
        · subst hk
          simp only [List.find?_cons, decide_true, Option.map_some, Option.some.injEq] at hl
          subst hl
          exact ⟨a, hf, by simp [Geff.PRead.lookup]⟩
        · rw [List.find?_cons_of_neg (by simpa using hk)] at hl
          obtain ⟨w, hw1, hw2⟩ := ih r ht k v hl
          exact ⟨w, hw1, by simp [Geff.PRead.lookup, hk, hw2]⟩

theorem optMapSnd_all {β γ : Type} (f : β → Option γ) (l : List (String × β)) (h : ∀ kv ∈ l, ∃ w, f kv.2 = some w) :
    ∃ l', optMapSnd f l = some l' := by
  induction l with
  | nil => exact ⟨[], rfl⟩
  | cons a t ih =>
    obtain ⟨k, v⟩ := a
    obtain ⟨w, hw⟩ := h (k, v) (List.mem_cons_self ..)
    obtain ⟨r, hr⟩ := ih (fun kv hkv => h kv (List.mem_cons_of_mem _ hkv))
    exact ⟨(k, w) :: r, by simp [optMapSnd, hw, hr]⟩

theorem mapM_forall₂ {α β} (f : α → Outcome β) : ∀ (l : List α) (l' : List β), l.mapM f = .ok l' →
    List.Forall₂ (fun a b => f a = .ok b) l l' := by
  intro l
  induction l with
  | nil => intro l' h; simp [List.mapM_nil, pure, Except.pure] at h; subst h; exact List.Forall₂.nil
  | cons a t ih =>
    intro l' h
    rw [List.mapM_cons] at h
    obtain ⟨b, hb, h⟩ := Geff.WR.bind_ok _ _ _ h
    obtain ⟨bs, hbs, h⟩ := Geff.WR.bind_ok _ _ _ h
    cases h
    exact List.Forall₂.cons hb (ih bs hbs)

/-- the loop of `build` over the loaded properties, on the translated dicts -/
theorem pread_loadProps (M : List (String × Geff.PRead.PropMeta)) (n : Nat) :
    ∀ (nz : List (String × Geff.WR.ZarrProp)) (np : Props),
    List.Forall₂ (fun kz kp => kp.1 = kz.1 ∧ ∃ zp pm' mp, zpOf kz.2 = some zp ∧ Geff.PRead.lookup kz.1 M = some pm' ∧
        memPropOf kp.2 = some mp ∧ Geff.PRead.loadPropToMemory castId zp none pm' = .ok mp ∧ zp.lenOk n) nz np →
    ∃ Z P, optMapSnd zpOf nz = some Z ∧ optMapSnd memPropOf np = some P ∧
      Geff.PRead.loadProps castId M none Z = .ok P ∧ (∀ q ∈ Z, q.2.lenOk n) := by
  intro nz np h
  induction h with
  | nil => exact ⟨[], [], rfl, rfl, rfl, fun _ h => by cases h⟩
  | @cons kz kp tz tp hhead _ ih =>
    obtain ⟨k, z⟩ := kz
    obtain ⟨k', p⟩ := kp
    obtain ⟨hk, zp, pm', mp, h1, h2, h3, h4, h5⟩ := hhead
    simp only at hk h1 h2 h3
    subst hk
    obtain ⟨Z, P, hZ, hP, hload, hlen⟩ := ih
    refine ⟨(k', zp) :: Z, (k', mp) :: P, by simp [optMapSnd, h1, hZ], by simp [optMapSnd, h3, hP], ?_, ?_⟩
    · simp only [Geff.PRead.loadProps, h2, h4, hload, bind, Except.bind, pure, Except.pure]
    · intro q hq
      rcases List.mem_cons.1 hq with rfl | hq
      · exact h5
      · exact hlen q hq

end Geff.Link
