import GeffProofs.TracksGen
import GeffProofs.Tracklet
/-! Helper lemmas: the source-translated `validate_tracklets` (`Gen.Tracks.validateTracklets`,
translator T21) equals the hand-written model (`Geff.Tracklet.trackletErrorsInt64` with the rendered
messages of `GeffModel/TrackletData.lean`).

* the grouping loop is the one of `validate_lineages` (`TracksGen.foldl_groups`);
* one iteration of the loop over the tracklets is `stepOf t (checkTracklet nl es t)`: the same
  decision list (junction in `S`, junction at an inner edge in `G`, cycle, not connected, extendable
  backward / forward) with the same f-strings, and the two library exceptions exactly where the model
  has its explicit exception verdicts (`NetworkXPointlessConcept` for an empty class,
  `StopIteration` for a class without source / sink) — the generated loop body is consumed by
  unification (`forIn_fold`), the proof script works on the goal and never repeats generated text;
* `checkTracklet_ne_exc` (a class of the grouping dict is never empty; a connected class without
  junction and cycle has a source and a sink) then shows that no iteration raises. -/
namespace GeffProofs.TrackletsGen
open Geff.Graph Geff.Lineage Geff.Tracklet Geff.PyDoTracks GeffProofs.TracksGen

/-- the exception of the generated code for an explicit exception verdict of the model -/
def excOf : String → PyExc
  | "StopIteration" => .stopIteration
  | "NetworkXPointlessConcept" => .pointlessConcept
  | n => .other n

/-- what one iteration of the loop over the tracklets does, given the verdict of the model -/
def stepOf (t : Int) (v : Verdict Int) (errs : List String) : Outcome (ForInStep (List String)) :=
  match v with
  | .exc n => throw (excOf n)
  | v => pure (.yield (errs ++ (Geff.Tracklet.message t v).toList))

theorem foldl_max_gt (l : List Nat) (k init : Nat) :
    l.foldl max init > k ↔ init > k ∨ ∃ d ∈ l, d > k := by
  induction l generalizing init with
  | nil => simp
  | cons a t ih =>
    simp only [List.foldl_cons, ih, List.mem_cons, exists_eq_or_imp]
    constructor
    · rintro (h | h)
      · rcases Nat.le_total init a with h' | h'
        · rw [Nat.max_eq_right h'] at h; exact Or.inr (Or.inl h)
        · rw [Nat.max_eq_left h'] at h; exact Or.inl h
      · exact Or.inr (Or.inr h)
    · rintro (h | h | h)
      · exact Or.inl (Nat.lt_of_lt_of_le h (Nat.le_max_left ..))
      · exact Or.inl (Nat.lt_of_lt_of_le h (Nat.le_max_right ..))
      · exact Or.inr h

theorem pyMax_gt_one (l : List Nat) : decide (pyMaxDefault0 l > 1) = l.any (fun d => decide (1 < d)) := by
  rw [Bool.eq_iff_iff]
  simp [pyMaxDefault0, foldl_max_gt]

theorem pyNext_zero {f : Int → Nat} (C : List Int) :
    pyNext (((C.map fun v => (v, f v)).filter (fun x => x.snd == 0)).map (fun x => x.fst)) =
    match C.find? (fun v => f v = 0) with
    | some s => pure s
    | none => throw .stopIteration := by
  induction C with
  | nil => rfl
  | cons a t ih =>
    simp only [List.map_cons, List.filter_cons, List.find?_cons]
    by_cases h : f a = 0
    · simp [h, pyNext]
    · simp [h, ih]


/-- the maximality tests at the two ends, for arbitrary predecessor / successor lists -/
theorem ends_eq (es : List (Int × Int)) (t : Int) (errs : List String) (s e : Int) (P Q : List Int)
    (hP : preds es s = P) (hQ : succs es e = Q) :
    (if (P.length == 1) = true then do
      let t4 ← pyGetItem0 P
      if ((succs es t4).length == 1) = true then
          pure
            (ForInStep.yield
              (errs ++
                ["Tracklet " ++ pyStr t ++ ": Not maximal. Path can extend backward to node " ++ pyStr t4 ++ "."]))
        else
          if (Q.length == 1) = true then do
            let t5 ← pyGetItem0 Q
            if ((preds es t5).length == 1) = true then
                pure
                  (ForInStep.yield
                    (errs ++
                      ["Tracklet " ++ pyStr t ++ ": Not maximal. Path can extend forward to node " ++ pyStr t5 ++ "."]))
              else pure (ForInStep.yield errs)
          else pure (ForInStep.yield errs)
    else
      if (Q.length == 1) = true then do
        let t5 ← pyGetItem0 Q
        if ((preds es t5).length == 1) = true then
            pure
              (ForInStep.yield
                (errs ++
                  ["Tracklet " ++ pyStr t ++ ": Not maximal. Path can extend forward to node " ++ pyStr t5 ++ "."]))
          else pure (ForInStep.yield errs)
      else pure (ForInStep.yield errs) : Outcome (ForInStep (List String))) =
    stepOf t (checkEnds es s e) errs := by
  unfold checkEnds
  rw [hP, hQ]
  clear hP hQ
  rcases P with _ | ⟨p, _ | ⟨q, rest⟩⟩ <;> rcases Q with _ | ⟨n, _ | ⟨m, rest'⟩⟩ <;>
    simp [pyGetItem0, stepOf, Geff.Tracklet.message, pyStr] <;> (repeat' split) <;>
    simp_all [stepOf, Geff.Tracklet.message, pyStr]


theorem foldl_append_toList {β : Type} (g : β → Option String) (l : List β) (init : List String) :
    l.foldl (fun errs x => errs ++ (g x).toList) init = init ++ l.flatMap (fun x => (g x).toList) := by
  induction l generalizing init with
  | nil => simp
  | cons a t ih => simp [ih]

/-- the messages collected by the loop = the rendered error list of the model -/
theorem report_eq (nl es : List (Int × Int)) : ∀ ks : List Int,
    (ks.map (fun l => (l, nodesWith nl l))).flatMap
        (fun x => (Geff.Tracklet.message x.1 (checkTracklet nl es x.1)).toList)
      = (ks.filterMap fun t => match checkTracklet nl es t with
          | .ok => none
          | v => some (t, v)).filterMap (fun p => Geff.Tracklet.message p.1 p.2) := by
  intro ks
  induction ks with
  | nil => rfl
  | cons a t ih =>
    simp only [List.map_cons, List.flatMap_cons, List.filterMap_cons, ih]
    cases h : checkTracklet nl es a <;> simp [Geff.Tracklet.message]

/-- without exception verdicts every collected error renders a message -/
theorem isEmpty_eq (nl es : List (Int × Int)) : ∀ ks : List Int,
    (∀ t ∈ ks, ∀ n, checkTracklet nl es t ≠ .exc n) →
    (ks.filterMap fun t => match checkTracklet nl es t with
          | .ok => none
          | v => some (t, v)).isEmpty
      = ((ks.filterMap fun t => match checkTracklet nl es t with
          | .ok => none
          | v => some (t, v)).filterMap (fun p => Geff.Tracklet.message p.1 p.2)).isEmpty := by
  intro ks
  induction ks with
  | nil => intro _; rfl
  | cons a t ih =>
    intro h
    have ha := h a (List.mem_cons_self ..)
    have ih' := ih (fun t' ht' => h t' (List.mem_cons_of_mem _ ht'))
    simp only [List.filterMap_cons]
    cases hc : checkTracklet nl es a <;> simp_all [Geff.Tracklet.message]

theorem trackletErrorsInt64_eq (nodeIds trackletIds : List Int) (edgeIds : List (Int × Int)) :
    trackletErrorsInt64 nodeIds trackletIds edgeIds =
      (dedup ((pyZip (npAsarrayInt64 nodeIds) (npAsarrayInt64 trackletIds)).map (·.2))).filterMap fun t =>
        match checkTracklet (pyZip (npAsarrayInt64 nodeIds) (npAsarrayInt64 trackletIds)) (npAsarrayInt64Pairs edgeIds) t with
        | .ok => none
        | v => some (t, v) := by
  unfold trackletErrorsInt64 trackletErrors pyZip npAsarrayInt64 npAsarrayInt64Pairs
  congr 1
  funext t
  split <;> rename_i h <;> simp [h]

/-- no exception verdict in the model's error list, hence: verdict flag = "no message" -/
theorem isEmpty_model (nodeIds trackletIds : List Int) (edgeIds : List (Int × Int)) :
    (trackletErrorsInt64 nodeIds trackletIds edgeIds).isEmpty =
      ((trackletErrorsInt64 nodeIds trackletIds edgeIds).filterMap fun p => Geff.Tracklet.message p.1 p.2).isEmpty := by
  rw [trackletErrorsInt64_eq]
  apply isEmpty_eq
  intro t ht n
  obtain ⟨⟨u, l⟩, hm, rfl⟩ := List.mem_map.1 ((mem_dedup _ _).1 ht)
  exact checkTracklet_ne_exc _ _ _ ⟨u, hm⟩ n

/-- **`validate_tracklets` as written = the model**, for all integer lists -/
theorem validateTracklets_eq (nodeIds : List Int) (edgeIds : List (Int × Int)) (trackletIds : List Int) :
    Gen.Tracks.validateTracklets nodeIds edgeIds trackletIds
      = pure ((trackletErrorsInt64 nodeIds trackletIds edgeIds).isEmpty,
              (trackletErrorsInt64 nodeIds trackletIds edgeIds).filterMap fun p => Geff.Tracklet.message p.1 p.2) := by
  unfold Gen.Tracks.validateTracklets
  simp only []
  -- the grouping loop
  rw [forIn_fold (fun d (x : Int × Int) => dictSetdefaultAppend d x.2 x.1)]
  case a => intro x _ s; obtain ⟨n, l⟩ := x; rfl
  rw [pure_bind, ← groups_nil, foldl_groups, List.nil_append]
  -- the loop over the tracklets
  rw [forIn_fold (fun errs (x : Int × List Int) => errs ++ (Geff.Tracklet.message x.1
    (checkTracklet (pyZip (npAsarrayInt64 nodeIds) (npAsarrayInt64 trackletIds)) (npAsarrayInt64Pairs edgeIds) x.1)).toList)]
  case a =>
    intro x hx errs
    obtain ⟨_, hv, hne⟩ := groups_nonempty _ x hx
    obtain ⟨t, tNodes⟩ := x
    simp only at hv hne
    subst hv
    generalize hnl : pyZip (npAsarrayInt64 nodeIds) (npAsarrayInt64 trackletIds) = nl at hne ⊢
    generalize npAsarrayInt64Pairs edgeIds = es
    have hex := checkTracklet_ne_exc nl es t hne
    have hstep : (pure (ForInStep.yield (errs ++ (Geff.Tracklet.message t (checkTracklet nl es t)).toList))
        : Outcome (ForInStep (List String))) = stepOf t (checkTracklet nl es t) errs := by
      unfold stepOf
      cases h : checkTracklet nl es t <;> first | rfl | exact absurd h (hex _)
    rw [hstep]
    have hC : ∀ x ∈ nodesWith nl t, x ∈ dedup (dedup (es.flatMap fun e => [e.1, e.2]) ++ npAsarrayInt64 nodeIds) := by
      intro x hx
      rw [mem_dedup]
      apply List.mem_append_right
      have := (mem_nodesWith nl t x).1 hx
      rw [← hnl] at this
      exact (List.of_mem_zip this).1
    generalize npAsarrayInt64 nodeIds = nodes at hC
    clear hnl hex hstep hne hx
    have hfilter : (nodesWith nl t).filter
        (fun x => decide (x ∈ dedup (dedup (es.flatMap fun e => [e.1, e.2]) ++ nodes))) = nodesWith nl t :=
      List.filter_eq_self.2 (fun x hx => by simpa using hC x hx)
    simp only [nxDiGraph, DiGraph.addNodesFrom]
    simp only [DiGraph.subgraph, hfilter, DiGraph.inDegreeView, DiGraph.outDegreeView, DiGraph.inDegree,
      DiGraph.outDegree, DiGraph.edgesView, List.map_map, Function.comp_def, pyMax_gt_one,
      nxIsDirectedAcyclicGraph, DiGraph.predecessors, DiGraph.successors]
    unfold checkTracklet
    simp only []
    generalize hCdef : nodesWith nl t = C
    clear hfilter hC hCdef
    generalize hSdef : inner es C = S
    clear hSdef
    have c1 : ((List.map (fun x => (preds S x).length) C).any (fun d => decide (1 < d)) ||
         (List.map (fun x => (succs S x).length) C).any (fun d => decide (1 < d)))
         = C.any (fun v => decide (1 < (preds S v).length ∨ 1 < (succs S v).length)) := by
      rw [Bool.eq_iff_iff]
      simp only [Bool.or_eq_true, List.any_map, List.any_eq_true, Function.comp, decide_eq_true_eq]
      constructor
      · rintro (⟨v, hv, h⟩ | ⟨v, hv, h⟩)
        · exact ⟨v, hv, Or.inl h⟩
        · exact ⟨v, hv, Or.inr h⟩
      · rintro ⟨v, hv, h | h⟩
        · exact Or.inl ⟨v, hv, h⟩
        · exact Or.inr ⟨v, hv, h⟩
    have c2 : (List.map (fun x => (succs es x.fst).length != 1 || (preds es x.snd).length != 1) S).any id
        = S.any (fun e => decide ((succs es e.fst).length ≠ 1 ∨ (preds es e.snd).length ≠ 1)) := by
      rw [List.any_map]
      congr 1
      funext e
      rw [Bool.eq_iff_iff]
      simp [bne_iff_ne]
    -- the two operands of `max_in_degree > 1 or max_out_degree > 1` in either order (a harmless rewrite)
    have c1' : ((List.map (fun x => (succs S x).length) C).any (fun d => decide (1 < d)) ||
         (List.map (fun x => (preds S x).length) C).any (fun d => decide (1 < d)))
         = C.any (fun v => decide (1 < (preds S v).length ∨ 1 < (succs S v).length)) := by
      rw [Bool.or_comm]; exact c1
    first | rw [c1, c2] | rw [c1', c2]
    split
    · simp [stepOf, Geff.Tracklet.message, pyStr]
    split
    · simp [stepOf, Geff.Tracklet.message, pyStr]
    split
    · simp [stepOf, Geff.Tracklet.message, pyStr]
    cases C with
    | nil => simp [nxIsWeaklyConnected, stepOf, excOf, bind, Except.bind, throw, throwThe, MonadExceptOf.throw]
    | cons r tail =>
      simp only [nxIsWeaklyConnected, pure_bind]
      split
      · simp [stepOf, Geff.Tracklet.message, pyStr]
      rw [pyNext_zero (f := fun v => (preds S v).length), pyNext_zero (f := fun v => (succs S v).length)]
      cases List.find? (fun v => decide ((preds S v).length = 0)) (r :: tail) with
      | none => simp [stepOf, excOf, bind, Except.bind, throw, throwThe, MonadExceptOf.throw]
      | some s =>
        cases List.find? (fun v => decide ((succs S v).length = 0)) (r :: tail) with
        | none => simp [stepOf, excOf, bind, Except.bind, throw, throwThe, MonadExceptOf.throw, pure, Except.pure]
        | some e =>
          simp only [pure_bind]
          exact ends_eq es t errs s e _ _ rfl rfl

  rw [pure_bind, foldl_append_toList]
  simp only [dictItems, groups, List.nil_append, pure, Except.pure, Except.ok.injEq, Prod.mk.injEq]
  rw [report_eq, ← trackletErrorsInt64_eq, ← isEmpty_model]
  exact ⟨rfl, rfl⟩

end GeffProofs.TrackletsGen
