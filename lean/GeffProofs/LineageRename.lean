import GeffProofs.Lineage
/-! Connectivity is preserved and reflected by an injective renaming of the vertices. -/
namespace Geff.Graph
open Relation
variable {α β : Type} [DecidableEq α] [DecidableEq β]

def mapEdges (f : α → β) (es : List (α × α)) : List (β × β) := es.map (Prod.map f f)

theorem adj_map (f : α → β) (es : List (α × α)) {a b : α} (h : Adj es a b) :
    Adj (mapEdges f es) (f a) (f b) := by
  rcases h with h | h
  · exact Or.inl (List.mem_map.2 ⟨(a, b), h, rfl⟩)
  · exact Or.inr (List.mem_map.2 ⟨(b, a), h, rfl⟩)

theorem conn_map (f : α → β) (es : List (α × α)) {u v : α} (h : Conn es u v) :
    Conn (mapEdges f es) (f u) (f v) := by
  induction h with
  | refl => exact ReflTransGen.refl
  | tail _ hbc ih => exact ih.tail (adj_map f es hbc)

theorem adj_of_map (f : α → β) (hf : Function.Injective f) (es : List (α × α)) {b : α} {c : β}
    (h : Adj (mapEdges f es) (f b) c) : ∃ c', c = f c' ∧ Adj es b c' := by
  rcases h with h | h
  · obtain ⟨⟨p, q⟩, hm, he⟩ := List.mem_map.1 h
    simp only [Prod.map, Prod.mk.injEq] at he
    have : p = b := hf he.1
    subst this
    exact ⟨q, he.2.symm, Or.inl hm⟩
  · obtain ⟨⟨p, q⟩, hm, he⟩ := List.mem_map.1 h
    simp only [Prod.map, Prod.mk.injEq] at he
    have : q = b := hf he.2
    subst this
    exact ⟨p, he.1.symm, Or.inr hm⟩

theorem conn_of_map (f : α → β) (hf : Function.Injective f) (es : List (α × α)) {u : α} {y : β}
    (h : Conn (mapEdges f es) (f u) y) : ∃ v, y = f v ∧ Conn es u v := by
  induction h with
  | refl => exact ⟨u, rfl, ReflTransGen.refl⟩
  | tail _ hbc ih =>
    obtain ⟨b', rfl, hb'⟩ := ih
    obtain ⟨c', rfl, hadj⟩ := adj_of_map f hf es hbc
    exact ⟨c', rfl, hb'.tail hadj⟩

theorem conn_map_iff (f : α → β) (hf : Function.Injective f) (es : List (α × α)) (u v : α) :
    Conn (mapEdges f es) (f u) (f v) ↔ Conn es u v := by
  constructor
  · intro h
    obtain ⟨v', hv, hc⟩ := conn_of_map f hf es h
    have : v = v' := hf hv
    subst this; exact hc
  · exact conn_map f es

end Geff.Graph
