import GeffProps.C13
import GeffProps.C14
/-! Link (10), C13 ↔ C14: the two partitions documented in docs/tracking.md are nested — every
tracklet of a valid tracklet labelling (`Geff.Tracklet.TrackletSpec`, the specification `C13_iff`
decides) lies inside one weakly connected component (`Geff.Graph.Conn`, `GeffProofs/Reach.lean`),
hence inside one lineage of any valid lineage labelling (`GeffProps.C14.Spec`).  Sanity lemmas: no
model and no specification is introduced here. -/
namespace Geff.Link
open Geff.Graph Geff.Tracklet Relation
variable {α L L' : Type}

/-- a tracklet edge (either direction) is an adjacency of the underlying undirected graph -/
theorem adj_of_symT (es : List (α × α)) {a b : α} (h : symT es a b) : Adj es a b := by
  rcases h with h | h
  · exact Or.inl h.1
  · exact Or.inr h.1

/-- connected through tracklet edges ⇒ weakly connected -/
theorem conn_of_symT_path (es : List (α × α)) {a b : α} (h : ReflTransGen (symT es) a b) : Conn es a b :=
  ReflTransGen.mono (fun _ _ hxy => adj_of_symT es hxy) a b h

/-- **every tracklet lies inside one weakly connected component**: two nodes carrying the same
tracklet id in a valid tracklet labelling are weakly connected (any digraph, any labelling). -/
theorem tracklet_within_component (nl : List (α × L)) (es : List (α × α)) (h : TrackletSpec nl es)
    (a b : α) (t : L) (ha : (a, t) ∈ nl) (hb : (b, t) ∈ nl) : Conn es a b :=
  conn_of_symT_path es (h.connected a b t ha hb)

/-- **tracklets refine lineages**: with a valid tracklet labelling `nt` (C13's specification) and a
valid lineage labelling `nlin` (C14's specification) of the same graph, nodes that share a tracklet
id share their lineage id. -/
theorem tracklets_refine_lineages (nt : List (α × L)) (nlin : List (α × L')) (es : List (α × α))
    (ht : TrackletSpec nt es) (hl : GeffProps.C14.Spec nlin es)
    (a b : α) (t : L) (la lb : L') (ha : (a, t) ∈ nt) (hb : (b, t) ∈ nt)
    (hla : (a, la) ∈ nlin) (hlb : (b, lb) ∈ nlin) : la = lb :=
  (hl.1 a la b lb hla hlb).2 (tracklet_within_component nt es ht a b t ha hb)

/-- the same from the validators' verdicts: whenever C13's model of `validate_tracklets` and C14's
model of `validate_lineages` both accept (unique node ids; no acyclicity needed — soundness of the
tracklet validator holds on every digraph), the tracklet partition refines the lineage partition. -/
theorem accepted_tracklets_refine_accepted_lineages [DecidableEq α] [DecidableEq L] [DecidableEq L']
    (nt : List (α × L)) (nlin : List (α × L')) (es : List (α × α))
    (hnt : (nt.map (·.1)).Nodup) (hnl : (nlin.map (·.1)).Nodup)
    (ht : validateTracklets nt es = true) (hl : Geff.Lineage.validateLineages nlin es = true)
    (a b : α) (t : L) (la lb : L') (ha : (a, t) ∈ nt) (hb : (b, t) ∈ nt)
    (hla : (a, la) ∈ nlin) (hlb : (b, lb) ∈ nlin) : la = lb :=
  tracklets_refine_lineages nt nlin es (GeffProps.C13.C13_sound_any_graph nt es hnt ht).toTrackletSpec
    ((GeffProps.C14.C14_iff nlin es (GeffProps.C14.uniq_of_nodup nlin hnl)).1 hl) a b t la lb ha hb hla hlb

end Geff.Link
