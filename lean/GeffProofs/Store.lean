import GeffModel.Store
/-! Laws of the flat store (`GeffModel/Store.lean`): `get`/`set`, children, `ensureGroup`, attributes. -/
namespace Geff.Store

theorem get_set_same (s : St) (p : Path) (e : Entry) : get (set s p e) p = some e := by
  simp [get, set]

theorem get_set_other (s : St) (p q : Path) (e : Entry) (h : q ≠ p) :
    get (set s p e) q = get s q := by
  unfold get set
  rw [List.find?_cons_of_neg (by simpa using fun hh => h hh.symm)]
  congr 1
  rw [List.find?_filter]
  congr 1
  funext kv
  by_cases hq : kv.1 = q
  · have : kv.1 ≠ p := by rw [hq]; exact h
    simp [hq, h]
  · simp [hq]

theorem get_set (s : St) (p q : Path) (e : Entry) :
    get (set s p e) q = if q = p then some e else get s q := by
  by_cases h : q = p
  · subst h; simp [get_set_same]
  · simp [h, get_set_other _ _ _ _ h]

theorem childKey_eq_some (p q : Path) (k : String) : childKey p q = some k ↔ q = p ++ [k] := by
  unfold childKey
  constructor
  · intro h
    cases hr : q.reverse with
    | nil => simp [hr] at h
    | cons a r =>
      simp only [hr] at h
      split at h
      · rename_i hp
        have hk : a = k := by simpa using h
        have : q = (a :: r).reverse := by rw [← hr, List.reverse_reverse]
        rw [this, List.reverse_cons, hp, hk]
      · cases h
  · rintro rfl
    simp

theorem get_isSome_iff (s : St) (q : Path) : (get s q).isSome ↔ ∃ e, (q, e) ∈ s := by
  unfold get
  rw [Option.isSome_map, List.find?_isSome]
  constructor
  · rintro ⟨⟨q', e⟩, hm, hq⟩
    simp only [decide_eq_true_eq] at hq
    subst hq
    exact ⟨e, hm⟩
  · rintro ⟨e, hm⟩
    exact ⟨(q, e), hm, by simp⟩

/-- the listed children are exactly the names under which something is stored -/
theorem mem_childNames (s : St) (p : Path) (k : String) :
    k ∈ childNames s p ↔ (get s (p ++ [k])).isSome := by
  rw [get_isSome_iff]
  unfold childNames
  simp only [List.mem_filterMap]
  constructor
  · rintro ⟨⟨q, e⟩, hm, hk⟩
    have := (childKey_eq_some p q k).1 hk
    subst this
    exact ⟨e, hm⟩
  · rintro ⟨e, hm⟩
    exact ⟨(p ++ [k], e), hm, (childKey_eq_some p _ k).2 rfl⟩

theorem mem_groupKeys (s : St) (p : Path) (k : String) :
    k ∈ groupKeys s p ↔ isGroup s (p ++ [k]) = true := by
  unfold groupKeys
  rw [List.mem_filter, mem_childNames]
  constructor
  · exact fun h => h.2
  · intro h
    refine ⟨?_, h⟩
    unfold isGroup at h
    cases hg : get s (p ++ [k]) with
    | none => simp [hg] at h
    | some e => simp

theorem get_ensureGroup_other (s : St) (p q : Path) (h : q ≠ p) : get (ensureGroup s p) q = get s q := by
  unfold ensureGroup
  cases hg : get s p with
  | none => simp only []; exact get_set_other _ _ _ _ h
  | some e => rfl

theorem get_ensureGroup_same (s : St) (p : Path) :
    get (ensureGroup s p) p = some ((get s p).getD (.group [])) := by
  unfold ensureGroup
  cases hg : get s p with
  | none => simp [get_set_same]
  | some e => simp [hg]

theorem ensureGroup_of_some (s : St) (p : Path) (e : Entry) (h : get s p = some e) : ensureGroup s p = s := by
  unfold ensureGroup; rw [h]

theorem ensureGroup_of_none (s : St) (p : Path) (h : get s p = none) : ensureGroup s p = set s p (.group []) := by
  unfold ensureGroup; rw [h]

theorem lookup_setAttr_same (a : Attrs) (k : String) (v : AttrVal) :
    ((setAttr a k v).find? (fun kv => kv.1 = k)).map (·.2) = some v := by
  simp [setAttr]

theorem path_ne_of_name_ne (pre : Path) (a b : String) (ta tb : List String) (h : a ≠ b) :
    pre ++ a :: ta ≠ pre ++ b :: tb := by
  intro hh
  have := List.append_cancel_left hh
  simp at this; exact h this.1

end Geff.Store
