import GeffProofs.LinkStoreArr
import GeffProofs.C03Aux
import GeffProofs.VlenNorm
/-! Integration layer, link C03 ← C01: the bridge between C03's in-memory geff (`Geff.Dicts.MemGeff`,
columns of rows) and C01's (`Geff.WR.InMem`, numpy arrays): `toInMem` / `ofRead`, the composite
`storeVia = ofRead ∘ read_to_memory ∘ write_arrays` of C01's model, the domain `Storable` on which
the store can hold an in-memory geff, and `storeVia_roundtrip`: on that domain the composite
satisfies C03's named hypothesis `StoreRoundTrip`.  No new model of geff: translation functions
and lemmas only.  Float leaves are opaque tokens in both models and are carried over unchanged
(for float64 — the only float dtype the dict layer produces — both models use the 8-byte pattern). -/
namespace Geff.Link
open Geff.Np
open Geff.Dicts (Col Row MemGeff)
open Geff.WR (PropArr PVals Props InMem ReadResult CallerMeta)

/-! ### C03's in-memory geff (columns of rows) as C01's in-memory geff (numpy arrays) -/

/-- the per-element shape of a regular column (`[]` when it has no rows) -/
def rowShape : List Row → List Nat
  | [] => []
  | r :: _ => r.1

/-- a column as the property dict `{"values": ndarray, "missing": ndarray | None}`: a regular column is one
array with the rows stacked along axis 0, a variable-length one an object array of the rows -/
def colToProp (c : Col) : PropArr :=
  ⟨if c.varlen then .obj (c.rows.map fun r => ⟨c.dtype, r.1, r.2⟩)
   else .dense ⟨c.dtype, c.rows.length :: rowShape c.rows, c.rows.flatMap (·.2)⟩,
   c.missing.map maskArr⟩

def propsOf (ps : List (String × Col)) : Props := ps.map fun p => (p.1, colToProp p.2)

/-- the arguments of `write_arrays` for an in-memory geff (ids of dtype `d`) -/
def toInMem (d : Dtype) (m : MemGeff) : InMem :=
  ⟨idArr d m.nodeIds, edgeArr d m.edgeIds, some (propsOf m.nodeProps), some (propsOf m.edgeProps)⟩

/-- the metadata the backends' `write` passes: directedness and (optionally) axis names; no property
metadata of its own -/
def callerMeta (m : MemGeff) (axes : Option (List String)) : CallerMeta := ⟨m.directed, axes, [], []⟩

/-! ### and back: what `read_to_memory` returns, as columns -/

/-- a property dict as a column; `none` when it is not one (a rank-0 values array, a non-boolean mask) -/
def propToCol (p : PropArr) : Option Col :=
  match maskBack p.missing with
  | none => none
  | some ms =>
    match p.values with
    | .dense a =>
      match a.shape with
      | [] => none
      | n :: sh => some ⟨a.dtype, false, (chunks (prod sh) n a.flat).map fun fl => (sh, fl), ms⟩
    | .obj es => some ⟨Geff.Vlen.dataDtype es, true, es.map fun e => (e.shape, e.flat), ms⟩

def propsBack : Props → Option (List (String × Col))
  | [] => some []
  | (k, p) :: t =>
    match propToCol p, propsBack t with
    | some c, some cs => some ((k, c) :: cs)
    | _, _ => none

/-- the result of `read_to_memory` as C03's in-memory geff -/
def ofRead (r : ReadResult) : Except Geff.Dicts.Err MemGeff :=
  match intsOf r.nodeIds.flat, (intsOf r.edgeIds.flat).bind pairsOf, propsBack r.nodeProps, propsBack r.edgeProps with
  | some n, some e, some np, some ep => .ok ⟨r.md.directed, n, e, np, ep⟩
  | _, _, _, _ => .error (.unmodelled "read result is not a column representation")

def errOf : Geff.Store.Err → Geff.Dicts.Err
  | .valueError => .valueError
  | .typeError => .typeError
  | .indexError => .indexError
  | .keyError => .keyError
  | .fileExists => .unmodelled "FileExistsError"
  | .other n => .unmodelled n

/-- **the zarr store between `write` and `read`, as C01 models it**: `write_arrays` (C01's model, C04's
validator model in the loop, C11's codec; ids of dtype `d`, metadata with axis names `axes`) into the target
`s0`, then `read_to_memory` on the result -/
def storeVia (d : Dtype) (axes : Option (List String)) (s0 : Geff.Store.St) (m : MemGeff) :
    Except Geff.Dicts.Err MemGeff :=
  match Geff.WR.writeArrays Geff.WR.vlenCodec Geff.Bridge.validate s0 (toInMem d m) (callerMeta m axes) with
  | .error e => .error (errOf e)
  | .ok s' =>
    match Geff.WR.readToMemory Geff.WR.vlenCodec Geff.Bridge.validate s' with
    | .error e => .error (errOf e)
    | .ok r => ofRead r

/-! ### the domain on which the store can hold an in-memory geff -/

/-- a column the store can hold and return unchanged: a dtype geff supports (float16 is upcast on the
way, so it does not come back unchanged), rows that are arrays (`leaves = prod shape`), one shape for all
rows of a regular column, one rank for all rows of a variable-length one (whose dtype, when it has no
rows, is the `int64` the reader reports for an empty object array) -/
structure ColOK (c : Col) : Prop where
  dense : c.varlen = false → c.dtype ∈ Geff.WR.denseDtypes ∧ c.dtype ≠ .f16
  vlen : c.varlen = true → c.dtype ∈ Geff.WR.vlenDtypes ∧ (c.rows = [] → c.dtype = .i64)
  rowsWF : ∀ r ∈ c.rows, r.2.length = prod r.1
  uniform : c.varlen = false → ∀ r ∈ c.rows, r.1 = rowShape c.rows
  rank : c.varlen = true → ∀ r ∈ c.rows, ∀ r' ∈ c.rows, r.1.length = r'.1.length

/-- an in-memory geff the store can hold: property names zarr accepts as one path segment, columns as above -/
structure Storable (m : MemGeff) : Prop where
  node : ∀ p ∈ m.nodeProps, Geff.WR.validName p.1 = true ∧ ColOK p.2
  edge : ∀ p ∈ m.edgeProps, Geff.WR.validName p.1 = true ∧ ColOK p.2

/-! ### lemmas -/

theorem chunks_flatMap (k : Nat) (rows : List (List Val)) (h : ∀ r ∈ rows, r.length = k) :
    chunks k rows.length (rows.flatMap id) = rows := by
  induction rows with
  | nil => rfl
  | cons r t ih =>
    have hr := h r (List.mem_cons_self ..)
    simp only [List.length_cons, chunks, List.flatMap_cons, id]
    rw [List.take_left' hr, List.drop_left' hr, ih (fun x hx => h x (List.mem_cons_of_mem _ hx))]

theorem length_flatMap_const (k : Nat) (rows : List (List Val)) (h : ∀ r ∈ rows, r.length = k) :
    (rows.flatMap id).length = rows.length * k := by
  induction rows with
  | nil => simp
  | cons r t ih =>
    simp only [List.flatMap_cons, id, List.length_append, List.length_cons]
    rw [ih (fun x hx => h x (List.mem_cons_of_mem _ hx)), h r (List.mem_cons_self ..), Nat.succ_mul]
    omega

theorem flatMap_snd (rows : List Row) : rows.flatMap (·.2) = (rows.map (·.2)).flatMap id := by
  induction rows with
  | nil => rfl
  | cons r t ih => simp [ih]

theorem upcast_colToProp (c : Col) (h : ColOK c) : Geff.WR.upcast (colToProp c) = colToProp c := by
  unfold Geff.WR.upcast colToProp
  cases hv : c.varlen with
  | true => simp
  | false =>
    simp only [Bool.false_eq_true, if_false]
    rw [if_neg (h.dense hv).2]

/-- the column comes back from its property dict -/
theorem propToCol_colToProp (c : Col) (h : ColOK c) : propToCol (colToProp c) = some c := by
  have hm : maskBack (c.missing.map maskArr) = some c.missing := by
    cases c.missing with
    | none => rfl
    | some ms => simp [maskBack, maskArr, boolsOf_map]
  unfold propToCol colToProp
  simp only [hm]
  cases hv : c.varlen with
  | true =>
    simp only [if_true]
    have hd : Geff.Vlen.dataDtype (c.rows.map fun r => (⟨c.dtype, r.1, r.2⟩ : NdArr)) = c.dtype := by
      cases hr : c.rows with
      | nil => exact ((h.vlen hv).2 hr).symm
      | cons r t => rfl
    rw [hd, List.map_map]
    have : c.rows.map ((fun e : NdArr => (e.shape, e.flat)) ∘ fun r => (⟨c.dtype, r.1, r.2⟩ : NdArr)) = c.rows := by
      rw [List.map_congr_left (g := id) (by intro a _; rfl), List.map_id]
    rw [this]
    cases c; simp only at hv; subst hv; rfl
  | false =>
    simp only [Bool.false_eq_true, if_false]
    have hlen : ∀ r ∈ c.rows.map (·.2), r.length = prod (rowShape c.rows) := by
      intro r hr
      obtain ⟨x, hx, rfl⟩ := List.mem_map.1 hr
      rw [h.rowsWF x hx, h.uniform hv x hx]
    have hch : chunks (prod (rowShape c.rows)) c.rows.length (c.rows.flatMap (·.2)) = c.rows.map (·.2) := by
      rw [flatMap_snd]
      have := chunks_flatMap _ (c.rows.map (·.2)) hlen
      rwa [List.length_map] at this
    rw [hch, List.map_map]
    have : c.rows.map ((fun fl => (rowShape c.rows, fl)) ∘ fun r : Row => r.2) = c.rows := by
      rw [List.map_congr_left (g := id) (by
        intro a ha
        show (rowShape c.rows, a.2) = a
        rw [← h.uniform hv a ha]), List.map_id]
    rw [this]
    cases c; simp only at hv; subst hv; rfl

theorem propsBack_propsOf (ps : List (String × Col)) (h : ∀ p ∈ ps, ColOK p.2) :
    propsBack (propsOf ps) = some ps := by
  induction ps with
  | nil => rfl
  | cons p t ih =>
    obtain ⟨k, c⟩ := p
    simp only [propsOf, List.map_cons, propsBack]
    have h1 := propToCol_colToProp c (h (k, c) (List.mem_cons_self ..))
    have h2 := ih (fun x hx => h x (List.mem_cons_of_mem _ hx))
    unfold propsOf at h2
    rw [h1, h2]

/-- `propsBack` does not depend on the order of the dict -/
theorem propsBack_perm (a b : Props) (hp : a.Perm b) (cs : List (String × Col)) (h : propsBack b = some cs) :
    ∃ cs', propsBack a = some cs' ∧ cs'.Perm cs := by
  induction hp generalizing cs with
  | nil => exact ⟨cs, h, List.Perm.refl _⟩
  | @cons x l1 l2 hxy ih =>
    obtain ⟨k, p⟩ := x
    simp only [propsBack] at h ⊢
    cases hc : propToCol p with
    | none => simp [hc] at h
    | some c =>
      rw [hc] at h
      cases ht : propsBack l2 with
      | none => simp [ht] at h
      | some cs2 =>
        rw [ht] at h
        simp only [Option.some.injEq] at h
        obtain ⟨cs1, h1, hp1⟩ := ih cs2 ht
        rw [h1]
        exact ⟨(k, c) :: cs1, rfl, h ▸ hp1.cons _⟩
  | swap x y l =>
    obtain ⟨kx, px⟩ := x
    obtain ⟨ky, py⟩ := y
    simp only [propsBack] at h ⊢
    cases hcx : propToCol px with
    | none => simp [hcx] at h
    | some cx =>
      cases hcy : propToCol py with
      | none => simp [hcx, hcy] at h
      | some cy =>
        cases ht : propsBack l with
        | none => simp [hcx, hcy, ht] at h
        | some cs0 =>
          simp only [hcx, hcy, ht, Option.some.injEq] at h
          exact ⟨_, rfl, h ▸ List.Perm.swap _ _ _⟩
  | trans _ _ ih1 ih2 =>
    obtain ⟨c2, h2, p2⟩ := ih2 cs h
    obtain ⟨c1, h1, p1⟩ := ih1 c2 h2
    exact ⟨c1, h1, p1.trans p2⟩


theorem col_writable_rows (name : String) (c : Col) (n : Nat) (hname : Geff.WR.validName name = true)
    (hc : ColOK c) (hwf : c.WF n) :
    Geff.WR.Writable name (colToProp c) ∧ Geff.WR.RowsOK n (colToProp c) := by
  have hmask1 : ∀ m, (colToProp c).missing = some m → m.dtype = .bool := by
    intro m hm
    simp only [colToProp, Option.map_eq_some_iff] at hm
    obtain ⟨ms, _, rfl⟩ := hm
    rfl
  have hmask2 : ∀ m, (colToProp c).missing = some m → m.shape = [n] ∧ m.WF ∧ ∀ v ∈ m.flat, ∃ x, v = Val.b x := by
    intro m hm
    simp only [colToProp, Option.map_eq_some_iff] at hm
    obtain ⟨ms, hms, rfl⟩ := hm
    refine ⟨by simp [maskArr, hwf.2 ms hms], by simp [maskArr, NdArr.WF, prod], ?_⟩
    intro v hv
    obtain ⟨x, _, rfl⟩ := List.mem_map.1 hv
    exact ⟨x, rfl⟩
  cases hv : c.varlen with
  | true =>
    have hvals : (colToProp c).values = .obj (c.rows.map fun r => ⟨c.dtype, r.1, r.2⟩) := by
      simp [colToProp, hv]
    refine ⟨⟨hname, hmask1, ?_⟩, ⟨hmask2, ?_⟩⟩
    · rw [hvals]
      refine ⟨?_, ?_, ?_⟩
      · intro e he
        obtain ⟨r, hr, rfl⟩ := List.mem_map.1 he
        exact hc.rowsWF r hr
      · intro a ha b hb
        obtain ⟨r, hr, rfl⟩ := List.mem_map.1 ha
        obtain ⟨r', hr', rfl⟩ := List.mem_map.1 hb
        exact ⟨rfl, hc.rank hv r hr r' hr'⟩
      · show Geff.Vlen.dataDtype _ ∈ _
        cases hr : c.rows with
        | nil => exact (by decide : Dtype.i64 ∈ Geff.WR.vlenDtypes)
        | cons r t => exact (hc.vlen hv).1
    · rw [hvals]; simp [hwf.1]
  | false =>
    have hvals : (colToProp c).values = .dense ⟨c.dtype, c.rows.length :: rowShape c.rows, c.rows.flatMap (·.2)⟩ := by
      simp [colToProp, hv]
    refine ⟨⟨hname, hmask1, ?_⟩, ⟨hmask2, ?_⟩⟩
    · rw [hvals]; exact (hc.dense hv).1
    · rw [hvals]
      refine ⟨by simp [hwf.1], ?_⟩
      show (c.rows.flatMap (·.2)).length = prod (c.rows.length :: rowShape c.rows)
      rw [Geff.Vlen.prod_cons, flatMap_snd, length_flatMap_const (prod (rowShape c.rows))]
      · simp
      · intro r hr
        obtain ⟨x, hx, rfl⟩ := List.mem_map.1 hr
        rw [hc.rowsWF x hx, hc.uniform hv x hx]

theorem map_fst_propsOf (ps : List (String × Col)) : (propsOf ps).map (·.1) = ps.map (·.1) := by
  unfold propsOf; rw [List.map_map]; rfl

/-- a valid, storable in-memory geff is a well-formed graph in the sense of C01 -/
theorem wf_toInMem (d : Dtype) (hd : d.isInteger = true) (m : MemGeff) (hv : Geff.Backends.MemValid m)
    (hs : Storable m) :
    Geff.WR.WFGeff (toInMem d m) m.nodeIds.length m.edgeIds.length (propsOf m.nodeProps) (propsOf m.edgeProps) where
  nodeShape := rfl
  edgeShape := rfl
  idInt := hd
  idSame := rfl
  nodeIdsWF := by simp [toInMem, idArr, NdArr.WF, prod]
  edgeIdsWF := by
    show (m.edgeIds.flatMap fun e => [Val.i e.1, Val.i e.2]).length = prod [m.edgeIds.length, 2]
    rw [length_edgeFlat]; simp [prod]
  nodeProps := rfl
  edgeProps := rfl
  nodeNames := by rw [map_fst_propsOf]; exact hv.nodeNames
  edgeNames := by rw [map_fst_propsOf]; exact hv.edgeNames
  nodeOK := by
    intro kp hkp
    obtain ⟨p, hp, rfl⟩ := List.mem_map.1 hkp
    exact col_writable_rows p.1 p.2 _ (hs.node p hp).1 (hs.node p hp).2 (hv.nodeCols p hp)
  edgeOK := by
    intro kp hkp
    obtain ⟨p, hp, rfl⟩ := List.mem_map.1 hkp
    exact col_writable_rows p.1 p.2 _ (hs.edge p hp).1 (hs.edge p hp).2 (hv.edgeCols p hp)

theorem map_upcast_propsOf (ps : List (String × Col)) (h : ∀ p ∈ ps, ColOK p.2) :
    (propsOf ps).map (fun kp => (kp.1, Geff.WR.upcast kp.2)) = propsOf ps := by
  unfold propsOf
  rw [List.map_map]
  apply List.map_congr_left
  intro p hp
  show (p.1, Geff.WR.upcast (colToProp p.2)) = _
  rw [upcast_colToProp p.2 (h p hp)]

/-- **link C03 ← C01**: C01's model of the store (`write_arrays` into any fresh target, C04's validator
accepting, then `read_to_memory`) returns every valid, storable in-memory geff up to the order of the
property dicts — `GeffProps.C03.StoreRoundTrip` restricted to `Storable`.  `axes`: the axis names in the
metadata, as the specification wants them (`AxesStrict`); with axes the graph must be non-empty (for an
empty one `write_arrays` adds an empty property per axis, so what is read is not what was handed in). -/
theorem storeVia_roundtrip (d : Dtype) (hd : d.isInteger = true) (axes : Option (List String))
    (s0 : Geff.Store.St) (hfresh : Geff.WR.Fresh s0)
    (m : MemGeff) (hv : Geff.Backends.MemValid m) (hs : Storable m)
    (hax : Geff.Bridge.AxesStrict (callerMeta m axes) m.nodeIds.length (propsOf m.nodeProps))
    (hne : axes = none ∨ m.nodeIds ≠ []) :
    ∃ m', storeVia d axes s0 m = .ok m' ∧ GeffProps.C03.MemEquiv m m' := by
  have hwf := wf_toInMem d hd m hv hs
  have hexp : Geff.WR.expectedNodeProps (callerMeta m axes) m.nodeIds.length (propsOf m.nodeProps) = propsOf m.nodeProps := by
    unfold Geff.WR.expectedNodeProps callerMeta
    rcases hne with rfl | hne
    · simp [Geff.WR.addEmptyAxes]
    · rw [if_neg (by simpa using hne)]
  obtain ⟨s', r, hw, hr, _, _, _, h1, h2, h3, _, h4, h5⟩ := Geff.WR.roundtrip_exact s0 (toInMem d m) (callerMeta m axes)
    m.nodeIds.length m.edgeIds.length (propsOf m.nodeProps) (propsOf m.edgeProps) hfresh hwf
    hax (by intro kv hkv; cases hkv) (by intro kv hkv; cases hkv)
  rw [hexp, map_upcast_propsOf _ (fun p hp => (hs.node p hp).2)] at h4
  rw [map_upcast_propsOf _ (fun p hp => (hs.edge p hp).2)] at h5
  obtain ⟨cn, hcn, hpn⟩ := propsBack_perm _ _ h4 _ (propsBack_propsOf m.nodeProps (fun p hp => (hs.node p hp).2))
  obtain ⟨ce, hce, hpe⟩ := propsBack_perm _ _ h5 _ (propsBack_propsOf m.edgeProps (fun p hp => (hs.edge p hp).2))
  refine ⟨⟨m.directed, m.nodeIds, m.edgeIds, cn, ce⟩, ?_, ⟨rfl, rfl, rfl, hpn, hpe⟩⟩
  unfold storeVia
  simp only [hw, hr]
  unfold ofRead
  rw [h1, h2]
  simp only [toInMem, idArr, edgeArr, intsOf_map, intsOf_edges, hcn, hce, h3]
  rfl

/-- without axes in the metadata the axis condition is void -/
theorem axesStrict_none (m : MemGeff) (n : Nat) (nps : Props) : Geff.Bridge.AxesStrict (callerMeta m none) n nps := by
  intro axes hax; cases hax

end Geff.Link
