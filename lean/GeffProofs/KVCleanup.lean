import GeffProofs.KVHistory
/-! # Clean-up after a failed validation; failure states of `geff.write` and the converters (C05) -/
namespace Geff.KV
open Gen.Paths Prog

/-! ### clean-up after a failed validation -/

/-- classified mutations never touch a foreign key -/
theorem get_foreign_step (s : KV) (op : Op) (k : Key) (h : classified op = true)
    (hk : (!owned k && !isRootKey k) = true) : get (step s op) k = get s k := by
  have hko : owned k = false := by simp at hk; exact hk.1
  have hkr : k.path ≠ [] := by simp [isRootKey] at hk; exact hk.2
  rw [get_step]
  cases op with
  | set k' b =>
    have : k ≠ k' := by
      intro hh; subst hh
      simp [classified, hko] at h; exact hkr h
    simp [this]
  | setnx k' b =>
    have : k ≠ k' := by
      intro hh; subst hh
      simp [classified, hko] at h; exact hkr h
    simp [this]
  | del k' =>
    have : k ≠ k' := by
      intro hh; subst hh
      simp [classified, hko] at h
    simp [this]
  | delPrefix p =>
    have hp : geffTop p = true := h
    have : under p k = false := by
      cases hu : under p k with
      | false => rfl
      | true => rw [owned_of_under hp hu] at hko; cases hko
    simp [this]
  | clear => simp [classified] at h

theorem get_foreign_run (T : List Op) (s : KV) (k : Key) (h : ∀ op ∈ T, classified op = true)
    (hk : (!owned k && !isRootKey k) = true) : get (run s T) k = get s k := by
  induction T generalizing s with
  | nil => rfl
  | cons o os ih =>
    rw [run_cons, ih _ (fun op hop => h op (by simp [hop])), get_foreign_step s o k (h o (by simp)) hk]

/-- visibility of the foreign members is preserved by anything that leaves them alone -/
theorem foreignVisible_of_same (f : Fmt) (s t : KV) (hv : ForeignVisible f s)
    (hf : foreignPart t = foreignPart s)
    (hg : ∀ k, (!owned k && !isRootKey k) = true → get t k = get s k) : ForeignVisible f t := by
  intro e he
  rw [hf] at he
  obtain ⟨n, hn, hm⟩ := hv e he
  refine ⟨n, hn, ?_⟩
  have hef : (!owned e.1 && !isRootKey e.1) = true := (List.mem_filter.1 he).2
  have heo : owned e.1 = false := by simp at hef; exact hef.1
  have hnn : n ≠ NODES ∧ n ≠ EDGES := by
    constructor <;> intro hh <;> simp [owned, hn, hh] at heo
  have hfk : ∀ l, (!owned (⟨[n], l⟩ : Key) && !isRootKey ⟨[n], l⟩) = true := by
    intro l; simp [owned, isRootKey, hnn.1, hnn.2]
  unfold memberIn has at hm ⊢
  cases f <;> simp only [groupKey, arrayKey] at hm ⊢ <;> simp only [hg _ (hfk _)] <;> exact hm

theorem writeBody_visible (d : Docs) (kind : Kind) (f : Fmt) (g : G) (s : KV) (hv : ForeignVisible f s) :
    ForeignVisible f (run s (writeBody d kind f g s).ops) :=
  foreignVisible_of_same f s _ hv (foreignPart_run _ _ (writeBody_classified d kind f g s))
    (fun k hk => get_foreign_run _ _ k (writeBody_classified d kind f g s) hk)

theorem foreignVisible_nil (f : Fmt) : ForeignVisible f [] := by intro e he; simp [foreignPart] at he

/-- after a successful `delete_geff` the foreign members are still visible -/
theorem deleteGeff_visible (d : Docs) (kind : Kind) (f : Fmt) (s : KV) (h : HoldsGeff f s)
    (hv : ForeignVisible f s) : ForeignVisible f (run s (deleteGeff d kind f s).ops) := by
  obtain ⟨hops, _⟩ := deleteGeff_eq d kind f s h.root
  obtain ⟨m, o, hattr⟩ := h.attr
  have hrk : under [NODES] (rootDocKey f) = false ∧ under [EDGES] (rootDocKey f) = false := by
    cases f <;> exact ⟨rootKey_not_under _ (by simp) _, rootKey_not_under _ (by simp) _⟩
  have hattr' : get (afterDirs kind s) (rootDocKey f) = some (.root (some m) o) := by
    rw [get_afterDirs kind s _ hrk.1 hrk.2, hattr]
  have hmid : ForeignVisible f (afterDirs kind s) := by
    refine foreignVisible_of_same f s _ hv (foreignPart_after_deleteDirs kind s) ?_
    intro k hk
    obtain ⟨h1, h2⟩ := foreign_not_under hk
    exact get_afterDirs kind s k h1 h2
  have hrun : run s (deleteGeff d kind f s).ops =
      run (afterDirs kind s) (deleteRoot d kind f (afterDirs kind s)).ops := by
    rw [hops, run_append, run_append]; rfl
  rw [hrun, deleteRoot_eq]
  by_cases hc : (members f (afterDirs kind s)).isEmpty = true ∧ kind = Kind.path
  · rw [if_pos hc]; simp only [run_cons, run_nil, step]; exact foreignVisible_nil f
  · rw [if_neg hc, delGeffAttr_some d f _ m o hattr']
    have hrs := rootMetaOps_rootSet d f (.root none o)
    exact foreignVisible_of_same f _ _ hmid (foreignPart_run_rootSets _ _ hrs)
      (fun k hk => get_foreign_run _ _ k (fun op hop => rootSet_classified op (hrs op hop)) hk)

/-- **C05, clean-up** — structure validation rejects the committed store (`g.valid = false`,
validation on): afterwards no geff-controlled key is left (nodes and edges removed), the geff
attribute is gone, every foreign member is there byte for byte, and the call ends with `ValueError`.
Holds from every store the write may start on: without geff (`CleanS`), or holding one that is
overwritten (`HoldsGeff`). -/
theorem cleanup_spec (d : Docs) (kind : Kind) (f : Fmt) (g : G) (ow : Bool) (kv₀ : KV)
    (hstart : CleanS f kv₀ ∨ (ow = true ∧ HoldsGeff f kv₀))
    (hvis : kind = .path → ForeignVisible f kv₀)
    (hcommit : (writeCommitted d kind f g ow kv₀).val = .ok ()) (hinv : g.valid = false) :
    let r := writeArrays d kind f g ow true kv₀
    r.val = .error .valueError ∧
    ownedPart (run kv₀ r.ops) = [] ∧ geffAttrIn f (run kv₀ r.ops) = none ∧
    foreignPart (run kv₀ r.ops) = foreignPart kv₀ := by
  intro r
  -- the store after the guard: no geff-owned key, clean format, foreign part and visibility kept
  have hguard : (guard d kind f ow kv₀).val = .ok () ∧
      FmtClean f (run kv₀ (guard d kind f ow kv₀).ops) ∧
      foreignPart (run kv₀ (guard d kind f ow kv₀).ops) = foreignPart kv₀ ∧
      (kind = .path → ForeignVisible f (run kv₀ (guard d kind f ow kv₀).ops)) := by
    have hg := guard_eq d kind f ow kv₀
    rcases hstart with hc | ⟨how, hh⟩
    · have hchk := check_of_clean kind f kv₀ hc.owned hc.attr hc.fmt hc.root
      simp only [hchk, Bool.false_eq_true, if_false] at hg
      rw [hg]; exact ⟨rfl, by simpa [run_nil] using hc.fmt, rfl, hvis⟩
    · subst how
      simp only [check_of_holds kind f kv₀ hh, if_true] at hg
      obtain ⟨hdv, _, _, hdf, hdc, _⟩ := deleteGeff_spec d kind f kv₀ hh hvis
      rw [hg]
      exact ⟨hdv, hdc, hdf, fun hk => deleteGeff_visible d kind f kv₀ hh (hvis hk)⟩
  obtain ⟨hgv, hgc, hgf, hgvis⟩ := hguard
  -- the committed store
  have hbv : (writeBody d kind f g (run kv₀ (guard d kind f ow kv₀).ops)).val = .ok () := by
    have : (writeCommitted d kind f g ow kv₀).val =
        (writeBody d kind f g (run kv₀ (guard d kind f ow kv₀).ops)).val := by
      unfold writeCommitted; simp only [bind_def]; rw [val_bind_ok hgv]
    rw [← this]; exact hcommit
  obtain ⟨hh2, _⟩ := holds_after_body d kind f g _ hgc hbv
  have hf2 := foreignPart_run (writeBody d kind f g (run kv₀ (guard d kind f ow kv₀).ops)).ops
    (run kv₀ (guard d kind f ow kv₀).ops) (writeBody_classified d kind f g _)
  have hvis2 : kind = .path → ForeignVisible f
      (run (run kv₀ (guard d kind f ow kv₀).ops) (writeBody d kind f g (run kv₀ (guard d kind f ow kv₀).ops)).ops) :=
    fun hk => writeBody_visible d kind f g _ (hgvis hk)
  obtain ⟨hdv, hdo, hda, hdf, _, _⟩ := deleteGeff_spec d kind f _ hh2 hvis2
  -- assemble the trace
  have hX : ∀ t, (validateAndCleanup d kind f g true t).ops = (deleteGeff d kind f t).ops := by
    intro t; rw [validateAndCleanup_ops]; simp [hinv]
  have hXv : ∀ t, (validateAndCleanup d kind f g true t).val = .error .valueError := by
    intro t; unfold validateAndCleanup; simp [hinv, bind_def, val_bind]
  have hops : r.ops = (guard d kind f ow kv₀).ops ++
      ((writeBody d kind f g (run kv₀ (guard d kind f ow kv₀).ops)).ops ++
        (deleteGeff d kind f (run (run kv₀ (guard d kind f ow kv₀).ops)
          (writeBody d kind f g (run kv₀ (guard d kind f ow kv₀).ops)).ops)).ops) := by
    show (writeArrays d kind f g ow true kv₀).ops = _
    unfold writeArrays; simp only [bind_def]
    rw [ops_bind_ok hgv, ops_bind_ok hbv, hX]
  have hval : r.val = .error .valueError := by
    show (writeArrays d kind f g ow true kv₀).val = _
    unfold writeArrays; simp only [bind_def]
    rw [val_bind_ok hgv, val_bind_ok hbv, hXv]
  refine ⟨hval, ?_, ?_, ?_⟩
  · rw [hops, run_append, run_append]; exact hdo
  · rw [hops, run_append, run_append]; exact hda
  · rw [hops, run_append, run_append, hdf, hf2, hgf]



theorem phases_D (d : Docs) (kind : Kind) (f : Fmt) (g : G) (ow va : Bool) (s : KV) :
    (phases d kind f g ow va s).D = (guard d kind f ow s).ops := by
  rcases phases_cases d kind f g ow va s with ⟨_, h⟩ | ⟨_, _, h⟩ | ⟨_, _, h⟩ <;> rw [h]

theorem guard_false_ops (d : Docs) (kind : Kind) (f : Fmt) (s : KV) : (guard d kind f false s).ops = [] := by
  rw [guard_eq]; split <;> rfl

/-- **every store a single storage failure can leave behind** for `geff.write` and the converters,
including failures inside zarr's concurrent batches -/
theorem apiWrite_crashSeq (d : Docs) (kind : Kind) (f : Fmt) (g : G) (ow va : Bool) (kv₀ : KV)
    (hpre : PreOK kind f ow kv₀) {T : List Op} (hT : CrashSeq (apiPhases d kind f g ow va kv₀) T) :
    recognised f (run kv₀ T) = false ∨
      ((apiPhases d kind f g ow va kv₀).committed = true ∧
        geffView f (run kv₀ T) = geffView f (run kv₀ ((apiPhases d kind f g ow va kv₀).D ++
          (apiPhases d kind f g ow va kv₀).W ++ (apiPhases d kind f g ow va kv₀).C))) ∨
      run kv₀ T = kv₀ := by
  have hg := guard_eq d kind f ow kv₀
  have hD : ∀ T', DelState (guard d kind f ow kv₀).ops T' →
      run kv₀ T' = kv₀ ∨ nodesBroken f (run kv₀ T') := by
    intro T' hT'
    by_cases hc : checkForGeff kind kv₀ = true
    · cases ow with
      | false =>
        simp only [hc, if_true, Bool.false_eq_true, if_false] at hg
        rw [hg] at hT'; left; rw [delState_nil hT']; rfl
      | true =>
        simp only [hc, if_true] at hg
        obtain ⟨hroot, hsafe⟩ := hpre.held hc rfl
        rw [hg] at hT'
        exact deleteGeff_states d kind f kv₀ hroot hsafe hT'
    · have hc' : checkForGeff kind kv₀ = false := by simpa using hc
      simp only [hc', Bool.false_eq_true, if_false] at hg
      rw [hg] at hT'; left; rw [delState_nil hT']; rfl
  have hfull := hD _ (delState_full _)
  cases hDok : isOk (guard d kind f ow kv₀).val with
  | false =>
    have hP : apiPhases d kind f g ow va kv₀ = ⟨(guard d kind f ow kv₀).ops, [], [], [], false⟩ := by
      unfold apiPhases; simp [hDok]
    rw [hP] at hT ⊢
    have conv : ∀ {t : KV}, (t = kv₀ ∨ nodesBroken f t) → recognised f t = false ∨
        (false = true ∧ geffView f t = geffView f (run kv₀ ((guard d kind f ow kv₀).ops ++ [] ++ []))) ∨
        t = kv₀ := by
      intro t ht
      rcases ht with ht | ht
      · exact Or.inr (Or.inr ht)
      · exact Or.inl (not_recognised_of_broken ht)
    cases hT with
    | inD h => exact conv (hD _ h)
    | inW h => simp only at h; rw [sublist_nil h]; simpa using conv hfull
    | inC h => simp only at h; rw [sublist_nil h]; simpa using conv hfull
    | inX h => simp only at h; rw [delState_nil h]; simpa using conv hfull
  | true =>
    obtain ⟨u, hu⟩ := isOk_ok hDok
    have hs1 : geffAttrIn f (run kv₀ (guard d kind f ow kv₀).ops) = none ∧
        NoneUnder [NODES] (run kv₀ (guard d kind f ow kv₀).ops) := by
      by_cases hc : checkForGeff kind kv₀ = true
      · cases ow with
        | false => simp only [hc, if_true, Bool.false_eq_true, if_false] at hg; rw [hg] at hu; cases hu
        | true =>
          simp only [hc, if_true] at hg
          obtain ⟨hroot, _⟩ := hpre.held hc rfl
          rw [hg] at hu ⊢
          exact ⟨deleteGeff_noGeff d kind f kv₀ u hu, deleteGeff_noneUnder d kind f kv₀ hroot⟩
      · have hc' : checkForGeff kind kv₀ = false := by simpa using hc
        simp only [hc', Bool.false_eq_true, if_false] at hg
        rw [hg]; simpa [run_nil] using hpre.fresh hc'
    have hp1 : PreOK kind f false (run kv₀ (guard d kind f ow kv₀).ops) :=
      ⟨fun _ => hs1, fun _ h => by simp at h⟩
    have hP : apiPhases d kind f g ow va kv₀ =
        ⟨(guard d kind f ow kv₀).ops ++ (phases d kind f g false va (run kv₀ (guard d kind f ow kv₀).ops)).D,
         (phases d kind f g false va (run kv₀ (guard d kind f ow kv₀).ops)).W,
         (phases d kind f g false va (run kv₀ (guard d kind f ow kv₀).ops)).C,
         (phases d kind f g false va (run kv₀ (guard d kind f ow kv₀).ops)).X,
         (phases d kind f g false va (run kv₀ (guard d kind f ow kv₀).ops)).committed⟩ := by
      unfold apiPhases; simp [hDok]
    have hD' : (phases d kind f g false va (run kv₀ (guard d kind f ow kv₀).ops)).D = [] := by
      rw [phases_D, guard_false_ops]
    rw [hP] at hT ⊢
    simp only [hD', List.append_nil] at hT ⊢
    -- translate a result of the nested write_arrays (relative to the store after the guard)
    have lift : ∀ T' : List Op,
        CrashSeq (phases d kind f g false va (run kv₀ (guard d kind f ow kv₀).ops)) T' →
        recognised f (run kv₀ ((guard d kind f ow kv₀).ops ++ T')) = false ∨
        ((phases d kind f g false va (run kv₀ (guard d kind f ow kv₀).ops)).committed = true ∧
          geffView f (run kv₀ ((guard d kind f ow kv₀).ops ++ T')) =
            geffView f (run kv₀ ((guard d kind f ow kv₀).ops ++
              (phases d kind f g false va (run kv₀ (guard d kind f ow kv₀).ops)).W ++
              (phases d kind f g false va (run kv₀ (guard d kind f ow kv₀).ops)).C))) ∨
        run kv₀ ((guard d kind f ow kv₀).ops ++ T') = kv₀ := by
      intro T' hT'
      rcases writeArrays_crashSeq d kind f g false va _ hp1 hT' with h | ⟨h1, h2⟩ | h
      · left; rw [run_append]; exact h
      · right; left
        refine ⟨h1, ?_⟩
        rw [run_append, h2, hD']
        simp only [List.nil_append, run_append]
      · rw [run_append, h]
        rcases hfull with h' | h'
        · exact Or.inr (Or.inr h')
        · exact Or.inl (not_recognised_of_broken h')
    cases hT with
    | inD h =>
      rcases hD _ h with h' | h'
      · exact Or.inr (Or.inr h')
      · exact Or.inl (not_recognised_of_broken h')
    | inW h =>
      have := lift _ (CrashSeq.inW h)
      simpa only [hD', List.nil_append] using this
    | inC h =>
      have := lift _ (CrashSeq.inC h)
      simpa only [hD', List.nil_append, List.append_assoc] using this
    | inX h =>
      have := lift _ (CrashSeq.inX h)
      simpa only [hD', List.nil_append, List.append_assoc] using this

end Geff.KV
