import Gen.MetaUtils
import GeffProofs.MetaWrite
/-! Helper lemmas: the source-translated metadata helpers `Gen.MetaUtils.*` (translator T14) equal the
hand-written C10 model `Geff.MetaW.*`.  A `for` loop that appends one element per iteration is
characterised once (`forIn_append`: it is `mapM` of a hand-written one-step function); the proof of the
step consumes the generated loop body by unification (`rw [forIn_append f]` leaves the obligation
`body x acc = f x >>= …`), so no statement repeats generated text.  The loop of
`add_or_update_props_metadata` runs through a VIEW of the metadata (`PropsRef`): `forIn_props` relates
it to the model's loop on the viewed dict by the lens laws `get_set` / `set_set` / `set_get`. -/
namespace GeffProofs.MetaUtilsGen
open Geff.Np Geff.MetaW Geff.PyDoMeta



/-- a `for` loop that appends one computed element per iteration (possibly through `continue`) is `mapM` -/
theorem forIn_append {α β : Type} (f : α → Res β) (body : α → List β → Res (ForInStep (List β)))
    (hstep : ∀ x acc, body x acc = (f x >>= fun b => pure (ForInStep.yield (acc ++ [b]))))
    (xs : List α) : ∀ acc : List β,
    forIn xs acc body = (xs.mapM f >>= fun l => pure (acc ++ l)) := by
  induction xs with
  | nil => intro acc; simp
  | cons x xs ih =>
    intro acc
    rw [List.forIn_cons, hstep, List.mapM_cons]
    cases hx : f x with
    | error e => simp [bind, Except.bind]
    | ok b =>
      simp only [bind, Except.bind, pure, Except.pure] at ih ⊢
      rw [ih]
      cases hm : List.mapM f xs with
      | error e => simp
      | ok l => simp
variable {κ : Type} [LT κ] [DecidableLT κ]

/-- what one iteration of the loop of `axes_from_lists` computes, by hand -/
def axisAt (ls : AxisLists) (roiMin roiMax : Option (List (Option κ))) (names : List String) (i : Nat) : Res (Axis κ) :=
  match names[i]? with
  | some n => mkAxis ls roiMin roiMax i n
  | none => .error (.other "IndexError")

theorem optItem_eq_pick {β : Type} (l : Option (List (Option β))) (i : Nat) :
    (if l.isSome = true then getItemOpt l i else (pure none : Res (Option β))) = pick l i := by
  cases l with
  | none => rfl
  | some x => simp [getItemOpt, pick]; cases x[i]? <;> rfl

theorem mapM_axisAt (ls : AxisLists) (roiMin roiMax : Option (List (Option κ))) (names : List String) :
    ∀ k s, s + k = names.length →
      (List.range' s k).mapM (axisAt ls roiMin roiMax names) = axesLoop ls roiMin roiMax s (names.drop s) := by
  intro k
  induction k with
  | zero => intro s h; simp [show names.drop s = [] by simp; omega, axesLoop, pure, Except.pure]
  | succ k ih =>
    intro s h
    have hs : s < names.length := by omega
    rw [List.range'_succ, List.mapM_cons, List.drop_eq_getElem_cons hs, axesLoop, ih (s + 1) (by omega)]
    simp [axisAt, List.getElem?_eq_getElem hs]

theorem lenCheck_eq {β : Type} (l : Option (List β)) (names : List String) :
    (if l.isSome = true then (lenOpt l >>= fun t1 => pure (t1 != names.length)) else pure false)
      = (Except.ok (!(lenOk l names.length)) : Res Bool) := by
  cases l with
  | none => rfl
  | some x => simp [lenOpt, lenOk, bind, Except.bind, pure, Except.pure, bne]; rfl

theorem ok_bind {α β : Type} (a : α) (f : α → Res β) : ((Except.ok a : Res α) >>= f) = f a := rfl

theorem lenOpt_some {β : Type} (l : List β) : lenOpt (some l) = .ok l.length := rfl

theorem raise_bind {α β : Type} (f : α → Res β) : (raiseValueError >>= f) = .error .valueError := rfl

theorem axesFromLists_eq (ls : AxisLists) (roiMin roiMax : Option (List (Option κ))) :
    Gen.MetaUtils.axesFromLists ls.names ls.units ls.types ls.scales ls.scaledUnits ls.offset roiMin roiMax
      = Geff.MetaW.axesFromLists ls roiMin roiMax := by
  unfold Gen.MetaUtils.axesFromLists Geff.MetaW.axesFromLists
  cases hn : ls.names with
  | none => rfl
  | some names =>
    simp only [Option.isNone_some, Bool.false_eq_true, ↓reduceIte, lenCheck_eq, raise_bind, ok_bind, lenOpt_some]
    split; · rfl
    split; · rfl
    split; · rfl
    split; · rfl
    split; · rfl
    rw [forIn_append (axisAt ls roiMin roiMax names)]
    · rw [List.range_eq_range', mapM_axisAt ls roiMin roiMax names names.length 0 (by omega)]
      simp only [List.drop_zero, List.nil_append]
      cases axesLoop ls roiMin roiMax 0 names <;> rfl
    · intro i acc
      simp only [optItem_eq_pick]
      simp only [axisAt, getItemOpt]
      cases names[i]? with
      | none => rfl
      | some n =>
        simp only [ok_bind, mkAxis, newAxis]
        cases pick ls.types i <;> try rfl
        cases pick ls.units i <;> try rfl
        cases pick ls.scales i <;> try rfl
        cases pick ls.scaledUnits i <;> try rfl
        cases pick ls.offset i <;> try rfl
        cases pick roiMin i <;> try rfl
        cases pick roiMax i <;> try rfl

/-! ## `update_metadata_axes`, `create_or_update_metadata` -/

theorem updateMetadataAxes_eq (m : Meta κ) (names : List String) (ls : AxisLists) (hn : ls.names = some names) :
    Gen.MetaUtils.updateMetadataAxes m names ls.units ls.types ls.scales ls.scaledUnits ls.offset
      = Geff.MetaW.updateMetadataAxes m ls := by
  unfold Gen.MetaUtils.updateMetadataAxes Geff.MetaW.updateMetadataAxes
  rw [← hn, axesFromLists_eq]
  cases Geff.MetaW.axesFromLists ls (none : Option (List (Option κ))) none with
  | error e => rfl
  | ok axes =>
    simp only [ok_bind, modelCopy, Meta.setAxes]
    cases assignAxes m (some axes) <;> rfl

theorem createOrUpdateMetadata_eq (version : String) (md : Option (Meta κ)) (d : Bool) (axes : Option (List (Axis κ))) :
    Gen.MetaUtils.createOrUpdateMetadata version md d axes
      = (Geff.MetaW.createOrUpdateMetadata version md d axes).map some := by
  unfold Gen.MetaUtils.createOrUpdateMetadata Geff.MetaW.createOrUpdateMetadata
  cases md with
  | none =>
    simp only [Option.isSome_none, Bool.false_eq_true, ↓reduceIte, newGeffMetadata, keysMatch, List.all_nil,
      Bool.and_true, assignAxes]
    split <;> rfl
  | some m =>
    cases axes with
    | none => rfl
    | some a =>
      simp only [Option.isSome_some, ↓reduceIte, deepcopy, onObj, Meta.setGeffVersion, Meta.setDirected, Meta.setAxes,
        Except.map, ok_bind]
      cases assignAxes { m with geffVersion := version, directed := d } (some a) <;> rfl


/-! ## `add_or_update_props_metadata` -/

omit [LT κ] [DecidableLT κ] in
theorem PropsRef.get_set (r : PropsRef) (m : Meta κ) (d : List (String × PropMeta)) : r.get (r.set m d) = d := by
  cases r <;> rfl
omit [LT κ] [DecidableLT κ] in
theorem PropsRef.set_set (r : PropsRef) (m : Meta κ) (d d' : List (String × PropMeta)) :
    r.set (r.set m d) d' = r.set m d' := by
  cases r <;> rfl
omit [LT κ] [DecidableLT κ] in
theorem PropsRef.set_get (r : PropsRef) (m : Meta κ) : r.set m (r.get m) = m := by
  cases r <;> cases m <;> rfl

theorem hasKey_map_snd {β : Type} (k k' : String) (f : β → β) (d : List (String × β)) :
    hasKey k (d.map (fun q => if q.1 = k' then (q.1, f q.2) else q)) = hasKey k d := by
  have : keys (d.map (fun q => if q.1 = k' then (q.1, f q.2) else q)) = keys d := by
    simp only [keys, List.map_map]
    apply List.map_congr_left
    intro q _
    simp only [Function.comp]
    split <;> rfl
  simp [hasKey, this]

omit [LT κ] [DecidableLT κ] in
/-- the loop of `add_or_update_props_metadata`, run through a view `r` of the metadata `m`, is the
model's loop on the viewed dict -/
theorem forIn_props (r : PropsRef) (m : Meta κ)
    (body : PropMeta → Meta κ × List (String × PropMeta) → Res (ForInStep (Meta κ × List (String × PropMeta))))
    (hstep : ∀ p E N, body p (r.set m E, N)
      = .ok (.yield (r.set m (addOrUpdateOne E N p).1, (addOrUpdateOne E N p).2)))
    (ps : List PropMeta) : ∀ E N m0, m0 = r.set m E →
    forIn ps (m0, N) body = .ok (r.set m (addOrUpdateLoop E N ps).1, (addOrUpdateLoop E N ps).2) := by
  induction ps with
  | nil => intro E N m0 h; subst h; rfl
  | cons p ps ih =>
    intro E N m0 h
    subst h
    rw [List.forIn_cons, hstep]
    simp only [ok_bind, addOrUpdateLoop]
    exact ih _ _ _ rfl

omit [LT κ] [DecidableLT κ] in
theorem dictModify_twice (E : List (String × PropMeta)) (p : PropMeta) (h : hasKey p.identifier E = true) :
    (dictModify E p.identifier (fun o => { o with dtype := p.dtype }) >>= fun t3 =>
      dictModify t3 p.identifier (fun o => { o with varlength := p.varlength }))
      = .ok (E.map (fun q => if q.1 = p.identifier then (q.1, upd p q.2) else q)) := by
  unfold dictModify
  rw [if_pos h]
  simp only [ok_bind]
  rw [if_pos ((hasKey_map_snd _ _ (fun o : PropMeta => { o with dtype := p.dtype }) E).trans h), List.map_map]
  congr 1
  apply List.map_congr_left
  intro q _
  simp only [Function.comp]
  by_cases hq : q.1 = p.identifier <;> simp [hq, upd]

omit [LT κ] [DecidableLT κ] in
theorem props_step (r : PropsRef) (m : Meta κ) (p : PropMeta) (E N : List (String × PropMeta)) :
    (do let t1 ← bound (some r)
        if dictContains (t1.get (r.set m E)) p.identifier = true then do
          let t2 ← bound (some r)
          let t3 ← dictModify (t2.get (r.set m E)) p.identifier (fun o => { o with dtype := p.dtype })
          let t4 ← bound (some r)
          let t5 ← dictModify (t4.get (t2.set (r.set m E) t3)) p.identifier (fun o => { o with varlength := p.varlength })
          pure (ForInStep.yield (t4.set (t2.set (r.set m E) t3) t5, N))
        else pure (ForInStep.yield (r.set m E, dictSetItem N p.identifier p)) : Res _)
      = .ok (.yield (r.set m (addOrUpdateOne E N p).1, (addOrUpdateOne E N p).2)) := by
  simp only [bound, ok_bind, PropsRef.get_set, PropsRef.set_set, dictContains, addOrUpdateOne]
  by_cases h : hasKey p.identifier E = true
  · simp only [h, ↓reduceIte]
    have := dictModify_twice E p h
    cases h3 : dictModify E p.identifier (fun o => { o with dtype := p.dtype }) with
    | error e => simp [h3, bind, Except.bind] at this
    | ok t3 =>
      simp only [h3, ok_bind] at this
      simp only [ok_bind, this]
      rfl
  · simp only [h, Bool.false_eq_true, ↓reduceIte]
    rfl

omit [LT κ] [DecidableLT κ] in
/-- `c_type="node"` -/
theorem addOrUpdatePropsMetadata_node (m : Meta κ) (ps : List PropMeta) :
    Gen.MetaUtils.addOrUpdatePropsMetadata m ps "node" = .ok (Geff.MetaW.addOrUpdatePropsMetadata m ps true) := by
  unfold Gen.MetaUtils.addOrUpdatePropsMetadata
  simp only [deepcopy]
  rw [if_neg (by decide)]
  rw [forIn_props .node m _ (fun p E N => props_step .node m p E N) ps m.nodeProps [] m (PropsRef.set_get .node m).symm]
  simp only [ok_bind, bound, PropsRef.get_set, PropsRef.set_set]
  rfl

omit [LT κ] [DecidableLT κ] in
/-- `c_type="edge"` -/
theorem addOrUpdatePropsMetadata_edge (m : Meta κ) (ps : List PropMeta) :
    Gen.MetaUtils.addOrUpdatePropsMetadata m ps "edge" = .ok (Geff.MetaW.addOrUpdatePropsMetadata m ps false) := by
  unfold Gen.MetaUtils.addOrUpdatePropsMetadata
  simp only [deepcopy]
  rw [if_neg (by decide)]
  rw [forIn_props .edge m _ (fun p E N => props_step .edge m p E N) ps m.edgeProps [] m (PropsRef.set_get .edge m).symm]
  simp only [ok_bind, bound, PropsRef.get_set, PropsRef.set_set]
  rfl

omit [LT κ] [DecidableLT κ] in
/-- any other `c_type` is refused by `@validate_call` (ValidationError) before the body runs -/
theorem addOrUpdatePropsMetadata_other (m : Meta κ) (ps : List PropMeta) (c : String) (h1 : c ≠ "node") (h2 : c ≠ "edge") :
    Gen.MetaUtils.addOrUpdatePropsMetadata m ps c = .error .valueError := by
  unfold Gen.MetaUtils.addOrUpdatePropsMetadata
  simp only [deepcopy]
  rw [if_pos (by simp [h1, h2])]
  rfl


/-! ## `create_props_metadata` -/

/-- the dtype check over the elements of an object array -/
theorem forIn_dtypes (dt : Dtype) (body : Dtype × Nat → PUnit → Res (ForInStep PUnit))
    (hstep : ∀ a s, body a s = if a.1 = dt then .ok (.yield PUnit.unit) else .error .valueError) (es : List (Dtype × Nat)) :
    forIn es PUnit.unit body
      = if es.any (·.1 ≠ dt) then .error .valueError else .ok PUnit.unit := by
  induction es with
  | nil => rfl
  | cons e es ih =>
    rw [List.forIn_cons, hstep]
    by_cases h : e.1 = dt
    · simp only [h, ↓reduceIte, List.any_cons, ne_eq, not_true_eq_false, decide_false, Bool.false_or]
      exact ih
    · simp [h, bind, Except.bind]

theorem newProp_eq (id : String) (dt : Dtype) (vl : Bool) :
    newPropMetadata id dt vl none none none = mkPropMeta id dt vl := rfl

omit [LT κ] [DecidableLT κ] in
theorem model_object_cons (id : String) (e : Dtype × Nat) (t : List (Dtype × Nat)) (missing : Option (List Bool)) :
    Geff.MetaW.createPropsMetadata (κ := κ) id ⟨.object (e :: t), missing⟩
      = if (e :: t).any (·.1 ≠ e.1) then .error .valueError
        else (mkPropMeta id e.1 true >>= fun pm => pure (pm, ⟨.object (e :: t), missing⟩)) := rfl

omit [LT κ] [DecidableLT κ] in
/-- `create_props_metadata(identifier, prop_data)` (unit, name, description at their default `None`, as
`write_props_arrays` calls it) -/
theorem createPropsMetadata_eq (id : String) (p : PropData κ) :
    Gen.MetaUtils.createPropsMetadata id p none none none = Geff.MetaW.createPropsMetadata id p := by
  obtain ⟨values, missing⟩ := p
  unfold Gen.MetaUtils.createPropsMetadata Geff.MetaW.createPropsMetadata
  cases values with
  | object es =>
    cases es with
    | nil =>
      simp [isDict, Values.dtype, issubdtype, Values.iter, Values.len, newProp_eq]
    | cons e t =>
      have hm := model_object_cons (κ := κ) id e t missing
      unfold Geff.MetaW.createPropsMetadata at hm
      rw [hm]
      simp only [isDict, Values.dtype, issubdtype, Values.iter, Values.len, Values.getItem, newProp_eq, ok_bind,
        Bool.not_true, Bool.false_eq_true, ↓reduceIte, List.length_cons, List.getElem?_cons_zero, gt_iff_lt,
        Nat.zero_lt_succ, elemDtype, beq_self_eq_true,
        show (Dtype.obj == Dtype.f16) = false from rfl, pure, Except.pure]
      rw [forIn_dtypes e.1 _ (by
        intro a s
        by_cases h : a.1 = e.1 <;> simp [h, raise_bind])]
      generalize ((e :: t).any (·.1 ≠ e.1)) = b
      cases b <;> rfl
  | dense dt tr rows =>
    by_cases h16 : dt = .f16
    · subst h16
      simp [isDict, Values.dtype, issubdtype, Values.astype, newProp_eq]
    · by_cases hobj : dt = .obj
      · subst hobj
        cases rows <;>
          simp [isDict, Values.dtype, issubdtype, Values.iter, Values.len, Values.getItem, bind, Except.bind]
      · simp [isDict, Values.dtype, issubdtype, h16, hobj, newProp_eq]


/-! ## `compute_and_add_axis_min_max` -/

section minmax
variable [Min κ] [Max κ]

/-- what one iteration of the loop of `compute_and_add_axis_min_max` computes, by hand -/
def axisStep (np : List (String × PropData κ)) (a : Axis κ) : Res (Axis κ) :=
  if !(dictContains np a.name) then .error .valueError else
  dictGetItem np a.name >>= fun p =>
  if p.values.len == 0 then .ok a else
  (if p.missing.isSome then logicalNot p.missing >>= fun t3 => Values.maskIndex p.values t3 else .ok p.values) >>= fun v =>
  npMinItem v >>= fun lo => npMaxItem v >>= fun hi => .ok { a with min := some lo, max := some hi }

omit [LT κ] [DecidableLT κ] [Min κ] [Max κ] in
theorem filter_not (rows : List (List κ)) : ∀ mk : List Bool,
    ((rows.zip (mk.map (fun b => !b))).filter (fun p => p.2)).map (·.1)
      = ((rows.zip mk).filter (fun p => !p.2)).map (·.1) := by
  induction rows with
  | nil => intro mk; simp
  | cons r rows ih =>
    intro mk
    cases mk with
    | nil => simp
    | cons b mk =>
      simp only [List.map_cons, List.zip_cons_cons, List.filter_cons]
      cases b <;> simp [ih mk]

/-- the model's outcome that stands for "outside the model" in this function -/
def unm : Err := .unmodelled "min of an object array"

omit [LT κ] [DecidableLT κ] in
/-- one iteration as written = the model's `axisMinMax`, wherever the model speaks -/
theorem axisStep_eq (np : List (String × PropData κ)) (a : Axis κ) :
    axisStep np a = axisMinMax np a ∨ axisMinMax np a = .error unm := by
  unfold axisStep axisMinMax dictContains dictGetItem
  cases hl : lookup a.name np with
  | none =>
    have : hasKey a.name np = false := by
      cases h : hasKey a.name np with
      | false => rfl
      | true => exact absurd ((hasKey_iff _ _).1 h) ((lookup_none_iff _ _).1 hl)
    left; simp [this]
  | some p =>
    have : hasKey a.name np = true := (hasKey_iff _ _).2 ((lookup_isSome_iff _ _).1 (by simp [hl]))
    simp only [this, Bool.not_true, Bool.false_eq_true, ↓reduceIte, ok_bind]
    by_cases hlen : p.values.len = 0
    · left; simp [hlen]
    · have hb : (p.values.len == 0) = false := by simp [hlen]
      simp only [hb, Bool.false_eq_true, ↓reduceIte, hlen]
      cases hv : p.values with
      | object es => right; rfl
      | dense dt tr rows =>
        left
        cases hm : p.missing with
        | none =>
          simp only [Option.isSome_none, Bool.false_eq_true, ↓reduceIte, ok_bind, npMinItem, npMaxItem, keptValues]
          cases rows.flatten.min? <;> cases rows.flatten.max? <;> rfl
        | some mk =>
          simp only [Option.isSome_some, ↓reduceIte, logicalNot, ok_bind, Values.maskIndex, keptValues,
            List.length_map]
          by_cases hlm : mk.length = rows.length
          · simp only [hlm, ↓reduceIte, ok_bind, npMinItem, npMaxItem, filter_not]
            cases (List.map (fun x => x.1) (List.filter (fun p => !p.2) (rows.zip mk))).flatten.min? <;>
              cases (List.map (fun x => x.1) (List.filter (fun p => !p.2) (rows.zip mk))).flatten.max? <;> rfl
          · simp only [hlm, ↓reduceIte]; rfl

omit [LT κ] [DecidableLT κ] in
theorem mapM_axisStep (np : List (String × PropData κ)) (l : List (Axis κ)) :
    l.mapM (axisStep np) = l.mapM (axisMinMax np) ∨ l.mapM (axisMinMax np) = .error unm := by
  induction l with
  | nil => left; rfl
  | cons a l ih =>
    rw [List.mapM_cons, List.mapM_cons]
    rcases axisStep_eq np a with h | h
    · rw [h]
      cases axisMinMax np a with
      | error e => left; rfl
      | ok b =>
        simp only [ok_bind]
        rcases ih with h2 | h2
        · left; rw [h2]
        · right; rw [h2]; rfl
    · right; rw [h]; rfl

/-- `compute_and_add_axis_min_max` as written = the model, wherever the model speaks (an axis whose
column is a non-empty OBJECT array is outside the model: `unmodelled`) -/
theorem computeAndAddAxisMinMax_eq (m : Meta κ) (np : List (String × PropData κ))
    (hmod : Geff.MetaW.computeAndAddAxisMinMax m np ≠ .error unm) :
    Gen.MetaUtils.computeAndAddAxisMinMax m np = Geff.MetaW.computeAndAddAxisMinMax m np := by
  unfold Gen.MetaUtils.computeAndAddAxisMinMax
  unfold Geff.MetaW.computeAndAddAxisMinMax at hmod ⊢
  cases hax : m.axes with
  | none => simp only [modelCopy, hax, Option.isNone_none, ↓reduceIte]; rfl
  | some axes =>
    simp only [hax] at hmod
    simp only [modelCopy, hax, iterOpt, Option.isNone_some, Bool.false_eq_true, ↓reduceIte, ok_bind]
    rw [forIn_append (axisStep np)]
    · rcases mapM_axisStep np axes with h | h
      · rw [h]
        cases List.mapM (axisMinMax np) axes with
        | error e => rfl
        | ok l =>
          simp only [ok_bind, List.nil_append, Meta.setAxes]
          show (assignAxes m (some l) >>= pure) = _
          cases assignAxes m (some l) <;> rfl
      · rw [h] at hmod; exact absurd rfl hmod
    · intro a acc
      unfold axisStep
      by_cases hc : dictContains np a.name = true
      · simp only [hc, Bool.not_true, Bool.false_eq_true, ↓reduceIte]
        cases dictGetItem np a.name with
        | error e => rfl
        | ok p =>
          simp only [ok_bind]
          by_cases hl : (p.values.len == 0) = true
          · simp only [hl, ↓reduceIte]; rfl
          · simp only [hl, Bool.false_eq_true, ↓reduceIte]
            cases hm : p.missing.isSome
            · simp only [Bool.false_eq_true, ↓reduceIte, ok_bind]
              cases npMinItem p.values <;> try rfl
              cases npMaxItem p.values <;> rfl
            · simp only [↓reduceIte]
              cases logicalNot p.missing <;> try rfl
              simp only [ok_bind]
              rename_i t3
              cases Values.maskIndex p.values t3 <;> try rfl
              simp only [ok_bind]
              rename_i t4
              cases npMinItem t4 <;> try rfl
              cases npMaxItem t4 <;> rfl
      · simp only [hc, Bool.not_false, ↓reduceIte, raise_bind]
        rfl
end minmax

end GeffProofs.MetaUtilsGen
