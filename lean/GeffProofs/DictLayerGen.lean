import Gen.DictLayer
/-! Helper lemmas: the source-translated dict layer `Gen.DictLayer.*` (translator T23) equals the
hand-written C03 model `Geff.Dicts.*`.  Every generated loop is characterised by a hand-written
one-step specification and an induction over the list; the proof of the step consumes the generated
loop body by unification (`show (forIn … _ _ >>= _) = _; rw [… _forIn …]`), so the statements do not
repeat the generated text. -/
namespace GeffProofs.DictLayerGen
open Geff.Np Geff.Dicts Geff.PyDoDicts Gen.DictLayer

def ddvStep {ι : Type} (name : String) (d : ι × Attrs) : Except Err (ForInStep (Option PyVal × Unit)) :=
  match d.2.lookup name with
  | none => .ok (.yield (none, ()))
  | some v => .ok (.done (some (defaultFor v), ()))

theorem ddv_forIn {ι : Type} (name : String)
    (body : ι × Attrs → Option PyVal × Unit → Except Err (ForInStep (Option PyVal × Unit)))
    (hstep : ∀ d, body d (none, ()) = ddvStep name d) (data : List (ι × Attrs)) :
    forIn data (none, ()) body = .ok ((data.findSome? (fun d => d.2.lookup name)).map defaultFor, ()) := by
  induction data with
  | nil => rfl
  | cons d t ih =>
    rw [List.forIn_cons, hstep]
    unfold ddvStep
    cases h : d.2.lookup name with
    | none => simp only [List.findSome?_cons, h]; exact ih
    | some v => simp [h, bind, Except.bind, pure, Except.pure]

theorem instOf_cases (v : PyVal) :
  (if pyIsInstance v [PyClass.int, PyClass.float] = true then typeCallZero v
   else if pyIsInstance v [PyClass.str] = true then .ok (PyVal.sc (.s "")) else .ok v) = .ok (defaultFor v) := by
  cases v with
  | sc x => cases x <;> simp [pyIsInstance, instOf, typeCallZero, defaultFor]
  | arr s f => simp [pyIsInstance, instOf, defaultFor]
  | none => simp [pyIsInstance, instOf, defaultFor]

theorem ddv_eq {ι : Type} (data : List (ι × Attrs)) (name : String) :
    Gen.DictLayer.determineDefaultValue data name = .ok (Geff.Dicts.determineDefaultValue data name) := by
  unfold Gen.DictLayer.determineDefaultValue Geff.Dicts.determineDefaultValue
  show (forIn data _ _ >>= _) = _
  rw [ddv_forIn name]
  · cases data.findSome? (fun d => d.2.lookup name) <;> rfl
  · intro d
    unfold ddvStep
    cases h : d.2.lookup name with
    | none => simp [dictContains, h]; rfl
    | some v =>
      simp only [dictContains, dictGetItem, h, Option.isSome_some, if_true, bind, Except.bind]
      have := instOf_cases v
      cases v with
      | sc x => cases x <;> simp [pyIsInstance, instOf, typeCallZero, defaultFor, pure, Except.pure]
      | arr s f => simp [pyIsInstance, instOf, defaultFor, pure, Except.pure]
      | none => simp [pyIsInstance, instOf, defaultFor, pure, Except.pure]

/-! ## dict_props_to_arr -/

theorem mapE_congr' {α β : Type} (f g : α → Except Err β) (l : List α) (h : ∀ x ∈ l, f x = g x) :
    mapE f l = mapE g l := by
  induction l with
  | nil => rfl
  | cons a t ih =>
    simp only [mapE, h a (by simp)]
    rw [ih (fun x hx => h x (by simp [hx]))]

theorem varLenWithNone_noNone (vals : List PyVal) (h : vals.any PyVal.isNone = false) :
    varLenWithNone vals = (match constructVarLenProps vals with
      | .error e => .error e
      | .ok (d, rows) => .ok (d, rows, none)) := by
  have hall : ∀ x ∈ vals, x.isNone = false := by simpa using h
  have hf : vals.filter (fun x => !x.isNone) = vals := by
    apply List.filter_eq_self.2
    intro x hx; simp [hall x hx]
  unfold varLenWithNone constructVarLenProps
  rw [hf]
  cases commonTypeDims vals with
  | error e => rfl
  | ok r =>
    obtain ⟨d, w, nd⟩ := r
    simp only
    split
    · rfl
    · rw [mapE_congr' _ (varLenRow d nd) vals (fun x hx => by simp [hall x hx])]
      cases mapE (varLenRow d nd) vals <;> simp [h]

/-- what `dict_props_to_arr` does with one property after its loop over the elements -/
def afterLoop (values : List PyVal) (missing : List Bool) (missingAny : Bool) : Except Err Col :=
  if values.any PyVal.isNone then
    if values.any PyVal.isArr then
      match varLenWithNone values with
      | .error e => .error e
      | .ok (d, rows, _) =>
        .ok { dtype := d, varlen := true, rows := rows, missing := some (orMasks missing (values.map PyVal.isNone)) }
    else .error (.unmodelled "object array holding None")
  else
    match valuesToArr values with
    | .error e => .error e
    | .ok (d, vl, rows) =>
      .ok { dtype := d, varlen := vl, rows := rows, missing := if missingAny then some missing else none }

theorem tail_eq (values : List PyVal) (missing : List Bool) (missingAny : Bool)
    (hlen : missing.length = values.length) :
    (tryExceptValueError
        (do
          let valuesArr ← npAsarray values
          let t3 ← exactIntArray values valuesArr
          pure (t3, missing, missingAny))
        (do
          let varLenProps ← constructVarLenPropsModel values
          if varLenProps.missing.isSome = true then do
              let t4 ← zipStrictOr missing varLenProps.missing
              pure (varLenProps.values, t4, true)
            else pure (varLenProps.values, missing, missingAny)) >>= fun r1 =>
      mkPropDict (if r1.2.2 = true then some (asarrayBool r1.2.1) else none) r1.1)
    = afterLoop values missing missingAny := by
  unfold afterLoop
  by_cases hn : values.any PyVal.isNone = true
  · by_cases ha : values.any PyVal.isArr = true
    · simp only [npAsarray, hn, ha, if_true, bind, Except.bind, tryExceptValueError, constructVarLenPropsModel]
      cases hv : varLenWithNone values with
      | error e => rfl
      | ok r =>
        obtain ⟨d, rows, m⟩ := r
        have hm : m = some (values.map PyVal.isNone) := by
          unfold varLenWithNone at hv
          split at hv
          · cases hv
          · split at hv
            · cases hv
            · split at hv
              · cases hv
              · simp only [hn, if_true, Except.ok.injEq, Prod.mk.injEq] at hv
                exact hv.2.2.symm
        subst hm
        simp [zipStrictOr, hlen, mkPropDict, asarrayBool, pure, Except.pure]
    · simp only [npAsarray, hn, ha, if_true, bind, Except.bind, tryExceptValueError]
      simp
  · have hn' : values.any PyVal.isNone = false := by simpa using hn
    simp only [hn, if_false]
    cases values with
    | nil =>
      simp [npAsarray, exactIntArray, valuesToArr, tryExceptValueError, mkPropDict, asarrayBool, bind, Except.bind, pure, Except.pure]
    | cons x t =>
      by_cases hs : (x :: t).all (fun y => pyShape y = pyShape x) = true
      · simp only [npAsarray, hn', hs, if_true, valuesToArr, regularArr, exactIntDtype, exactIntArray, asarrayAs, bind, Except.bind]
        generalize hj : joinAll (List.map discover (List.flatMap pyLeaves (x :: t))) = j
        generalize (x :: t) = vals
        simp only [Bool.false_eq_true, if_false]
        by_cases hc : (j = Dtype.f64 ∨ j = Dtype.u64) ∧ List.flatMap pyLeaves vals ≠ [] ∧ (List.flatMap pyLeaves vals).all isInt = true
        · simp only [if_pos hc]
          by_cases hu : (List.flatMap pyLeaves vals).all inU64 = true
          · simp only [hu, if_true, tryExceptValueError, pure, Except.pure, mkPropDict, asarrayBool]
            cases mapE (fun y => castRow Dtype.u64 (pyRow y)) vals <;> rfl
          · simp only [hu, if_false, tryExceptValueError]
            rfl
        · simp only [if_neg hc, tryExceptValueError, pure, Except.pure, mkPropDict, asarrayBool]
          cases mapE (fun y => castRow j (pyRow y)) vals <;> rfl
      · have hs' : (x :: t).all (fun y => pyShape y = pyShape x) = false := by simpa using hs
        simp only [npAsarray, hn', hs', valuesToArr, tryExceptValueError, constructVarLenPropsModel, bind, Except.bind]
        simp only [Bool.false_eq_true, if_false]
        rw [varLenWithNone_noNone _ hn']
        cases constructVarLenProps (x :: t) with
        | error e => rfl
        | ok r =>
          obtain ⟨d, rows⟩ := r
          simp [mkPropDict, asarrayBool, pure, Except.pure]

abbrev InnerSt := List PyVal × List Bool × Bool × PyVal

def innerStep {ι : Type} (data : List (ι × Attrs)) (name : String) (d : ι × Attrs) (s : InnerSt) :
    Except Err (ForInStep InnerSt) :=
  match d.2.lookup name with
  | some v => .ok (.yield (s.1 ++ [v], s.2.1 ++ [false], s.2.2.1, s.2.2.2))
  | none =>
    .ok (.yield (s.1 ++ [if s.2.2.2.isNone then Geff.Dicts.determineDefaultValue data name else s.2.2.2],
      s.2.1 ++ [true], true, if s.2.2.2.isNone then Geff.Dicts.determineDefaultValue data name else s.2.2.2))

theorem inner_forIn {ι : Type} (data : List (ι × Attrs)) (name : String)
    (body : ι × Attrs → InnerSt → Except Err (ForInStep InnerSt))
    (hstep : ∀ d s, body d s = innerStep data name d s) (l : List (ι × Attrs)) :
    ∀ vs ms any dv, (dv = .none ∨ dv = Geff.Dicts.determineDefaultValue data name) →
      ∃ dv', forIn l (vs, ms, any, dv) body =
        .ok (vs ++ l.map (fun d => (d.2.lookup name).getD (Geff.Dicts.determineDefaultValue data name)),
             ms ++ l.map (fun d => (d.2.lookup name).isNone),
             any || l.any (fun d => (d.2.lookup name).isNone), dv') := by
  induction l with
  | nil => intro vs ms any dv _; exact ⟨dv, by simp [pure, Except.pure]⟩
  | cons d t ih =>
    intro vs ms any dv hdv
    rw [List.forIn_cons, hstep]
    unfold innerStep
    cases h : d.2.lookup name with
    | some v =>
      obtain ⟨dv', h'⟩ := ih (vs ++ [v]) (ms ++ [false]) any dv hdv
      refine ⟨dv', ?_⟩
      simp only [bind, Except.bind, h']
      simp [h]
    | none =>
      have hd : (if dv.isNone = true then Geff.Dicts.determineDefaultValue data name else dv)
          = Geff.Dicts.determineDefaultValue data name := by
        rcases hdv with rfl | rfl
        · rfl
        · split <;> rfl
      simp only [hd]
      obtain ⟨dv', h'⟩ := ih (vs ++ [Geff.Dicts.determineDefaultValue data name]) (ms ++ [true]) true _ (Or.inr rfl)
      refine ⟨dv', ?_⟩
      simp only [bind, Except.bind, h']
      simp [h]

theorem inner_forIn_bind {ι β : Type} (data : List (ι × Attrs)) (name : String)
    (body : ι × Attrs → InnerSt → Except Err (ForInStep InnerSt))
    (hstep : ∀ d s, body d s = innerStep data name d s)
    (k : InnerSt → Except Err β) (hk : ∀ a b c dv dv', k (a, b, c, dv) = k (a, b, c, dv')) :
    (forIn data (([], [], false, PyVal.none) : InnerSt) body >>= k) =
      k (filledValues data name, missingMask data name, (missingMask data name).any id, PyVal.none) := by
  obtain ⟨dv', h⟩ := inner_forIn data name body hstep data [] [] false .none (Or.inl rfl)
  rw [h]
  simp only [bind, Except.bind, List.nil_append, Bool.false_or]
  rw [hk _ _ _ dv' PyVal.none]
  simp [filledValues, missingMask, List.any_map, Function.comp_def]

theorem outer_forIn {ι : Type} (data : List (ι × Attrs))
    (body : String → List (String × Col) → Except Err (ForInStep (List (String × Col))))
    (hstep : ∀ name acc, body name acc = (match dictPropToArr data name with
        | .ok c => .ok (.yield (dictSetItem acc name c))
        | .error e => .error e)) (names : List String) :
    ∀ acc, forIn names acc body = (match mapE (namedCol data) names with
        | .ok l => .ok (l.foldl (fun d kv => dictSetItem d kv.1 kv.2) acc)
        | .error e => .error e) := by
  induction names with
  | nil => intro acc; rfl
  | cons n t ih =>
    intro acc
    rw [List.forIn_cons, hstep]
    simp only [mapE, namedCol]
    cases dictPropToArr data n with
    | error e => rfl
    | ok c =>
      simp only [bind, Except.bind]
      rw [ih]
      cases mapE (namedCol data) t <;> rfl

theorem afterLoop_eq {ι : Type} (data : List (ι × Attrs)) (name : String) :
    afterLoop (filledValues data name) (missingMask data name) ((missingMask data name).any id) = dictPropToArr data name := by
  unfold afterLoop dictPropToArr
  rfl

theorem bind_yield {α : Type} (x : Except Err α) (f : α → Except Err Col) (acc : List (String × Col)) (name : String) :
    (x >>= fun r => f r >>= fun t => pure (ForInStep.yield (dictSetItem acc name t))) =
      (match x >>= f with
        | .ok c => .ok (.yield (dictSetItem acc name c))
        | .error e => .error e) := by
  cases x with
  | error e => rfl
  | ok r => simp only [bind, Except.bind]; cases f r <;> rfl

theorem dpa_eq {ι : Type} (data : List (ι × Attrs)) (names : List String) :
    Gen.DictLayer.dictPropsToArr data names =
      (match Geff.Dicts.dictPropsToArr data names with
        | .ok l => .ok (l.foldl (fun d kv => dictSetItem d kv.1 kv.2) [])
        | .error e => .error e) := by
  unfold Gen.DictLayer.dictPropsToArr Geff.Dicts.dictPropsToArr
  show (forIn names _ _ >>= _) = _
  rw [outer_forIn data]
  · cases mapE (namedCol data) names <;> rfl
  · intro name acc
    show (forIn data _ _ >>= _) = _
    rw [inner_forIn_bind data name]
    · rw [← afterLoop_eq, ← tail_eq _ _ _ (by simp [filledValues, missingMask])]
      exact bind_yield _ _ _ _
    · intro d s
      unfold innerStep
      cases h : d.2.lookup name with
      | some v => simp [dictContains, dictGetItem, h, bind, Except.bind, pure, Except.pure]
      | none =>
        by_cases hd : s.2.2.2.isNone = true
        · simp [dictContains, h, hd, ddv_eq, bind, Except.bind, pure, Except.pure]
        · simp [dictContains, h, hd, bind, Except.bind, pure, Except.pure]
    · intros; rfl

/-! ## packaging: the Python dict of columns vs. the model's list of columns -/

theorem dictSetItem_fresh {α : Type} (acc : List (String × α)) (k : String) (v : α)
    (h : k ∉ acc.map (·.1)) : dictSetItem acc k v = acc ++ [(k, v)] := by
  induction acc with
  | nil => rfl
  | cons p t ih =>
    obtain ⟨k', v'⟩ := p
    have h1 : k' ≠ k := fun e => h (by simp [e])
    have h2 : k ∉ t.map (·.1) := fun e => h (by simp [e])
    simp [dictSetItem, h1, ih h2]

theorem foldl_set_nodup {α : Type} (l : List (String × α)) : ∀ (acc : List (String × α)),
    ((acc ++ l).map (·.1)).Nodup → l.foldl (fun d kv => dictSetItem d kv.1 kv.2) acc = acc ++ l := by
  induction l with
  | nil => intro acc _; simp
  | cons p t ih =>
    intro acc h
    have hfresh : p.1 ∉ acc.map (·.1) := by
      intro hm
      rw [List.map_append, List.nodup_append] at h
      exact h.2.2 _ hm _ (by simp) rfl
    simp only [List.foldl_cons]
    rw [dictSetItem_fresh acc p.1 p.2 hfresh, ih]
    · simp
    · simpa using h

theorem mapE_namedCol_keys {ι : Type} (data : List (ι × Attrs)) (names : List String) :
    ∀ l, mapE (namedCol data) names = .ok l → l.map (·.1) = names := by
  induction names with
  | nil => intro l h; simp [mapE] at h; subst h; rfl
  | cons n t ih =>
    intro l h
    simp only [mapE, namedCol] at h
    cases hc : dictPropToArr data n with
    | error e => simp [hc] at h
    | ok c =>
      simp only [hc] at h
      cases ht : mapE (namedCol data) t with
      | error e => simp [ht, namedCol] at h
      | ok r =>
        simp only [ht, namedCol] at h
        have := ih r ht
        cases h
        simp [this]

theorem dpa_eq_nodup {ι : Type} (data : List (ι × Attrs)) (names : List String) (hn : names.Nodup) :
    Gen.DictLayer.dictPropsToArr data names = Geff.Dicts.dictPropsToArr data names := by
  rw [dpa_eq]
  cases h : Geff.Dicts.dictPropsToArr data names with
  | error e => rfl
  | ok l =>
    have hk := mapE_namedCol_keys data names l h
    simp only
    rw [foldl_set_nodup l [] (by simpa [hk] using hn)]
    rfl

/-! ## write_dicts -/

def inS (d : Dtype) : Prop := d = .i64 ∨ d = .u64 ∨ d = .f64 ∨ d = .obj

theorem discover_inS (v : Int) : inS (discover (.i v)) := by
  by_cases h1 : -two63 ≤ v ∧ v < two63 <;> by_cases h2 : two63 ≤ v ∧ v < two64 <;> simp [inS, discover, h1, h2]

theorem promote_inS (a b : Dtype) (ha : inS a) (hb : inS b) : inS (promote a b) := by
  rcases ha with rfl | rfl | rfl | rfl <;> rcases hb with rfl | rfl | rfl | rfl <;> simp [inS, promote, rank]

theorem promote_i64 (a b : Dtype) (ha : inS a) (hb : inS b) (h : promote a b = .i64) : a = .i64 ∧ b = .i64 := by
  rcases ha with rfl | rfl | rfl | rfl <;> rcases hb with rfl | rfl | rfl | rfl <;> simp [promote, rank] at h ⊢

theorem foldl_inS (ds : List Dtype) : ∀ d, inS d → (∀ x ∈ ds, inS x) → inS (ds.foldl promote d) := by
  induction ds with
  | nil => intro d hd _; exact hd
  | cons x t ih => intro d hd h; exact ih _ (promote_inS d x hd (h x (by simp))) (fun y hy => h y (by simp [hy]))

theorem foldl_i64 (ds : List Dtype) : ∀ d, inS d → (∀ x ∈ ds, inS x) → ds.foldl promote d = .i64 →
    d = .i64 ∧ ∀ x ∈ ds, x = .i64 := by
  induction ds with
  | nil => intro d _ _ h; exact ⟨h, by simp⟩
  | cons x t ih =>
    intro d hd h hf
    have hx := h x (by simp)
    obtain ⟨h1, h2⟩ := ih _ (promote_inS d x hd hx) (fun y hy => h y (by simp [hy])) hf
    obtain ⟨h3, h4⟩ := promote_i64 d x hd hx h1
    exact ⟨h3, by intro y hy; rcases List.mem_cons.1 hy with rfl | hy; exact h4; exact h2 y hy⟩

theorem nodes_block (ids : List Int) :
    (if decide (ids.length > 0) then
      (do
        let mut nodesArr : IdArr := npAsarrayInts ids
        if anyLtZero nodesArr then
          raiseValueError
        let t2 : IdArr ← exactIntArrayIds ids nodesArr
        nodesArr := t2
        if !(isIntegerDtype nodesArr.dtype) then
          pure ()
        let t3 : IdArr ← astypeUint nodesArr
        nodesArr := t3
        pure nodesArr)
      else (do
        let mut nodesArr : IdArr := emptyIds
        pure nodesArr)) =
    (match nodeIdArr ids with
      | .ok l => .ok { dtype := .u64, src := l }
      | .error e => .error e) := by
  cases ids with
  | nil => simp [nodeIdArr, emptyIds, pure, Except.pure]
  | cons a t =>
    generalize hids : a :: t = ids
    have hne : ids ≠ [] := by rw [← hids]; simp
    have hlen : decide (ids.length > 0) = true := by
      rw [← hids]; simp
    simp only [hlen, if_true]
    unfold nodeIdArr
    by_cases hneg : ids.any (· < 0) = true
    · simp [anyLtZero, npAsarrayInts, hneg, raiseValueError, bind, Except.bind]
    · have hnn : ∀ v ∈ ids, 0 ≤ v := by
        intro v hv
        have : ¬ (v < 0) := fun h => hneg (List.any_eq_true.2 ⟨v, hv, by simpa using h⟩)
        omega
      have hneg' : ids.any (· < 0) = false := by simpa using hneg
      have hrange : (ids.all fun v => decide (0 ≤ v ∧ v < two64)) = ids.all (fun v => decide (v < two64)) := by
        rw [Bool.eq_iff_iff]
        simp only [List.all_eq_true, decide_eq_true_eq]
        exact ⟨fun h v hv => (h v hv).2, fun h v hv => ⟨hnn v hv, h v hv⟩⟩
      have hS : inS (joinAll (ids.map (fun v => discover (.i v)))) := by
        rw [← hids]
        simp only [List.map_cons, joinAll]
        exact foldl_inS _ _ (discover_inS a) (by intro x hx; obtain ⟨v, _, rfl⟩ := List.mem_map.1 hx; exact discover_inS v)
      simp only [anyLtZero, npAsarrayInts, hneg', Bool.false_eq_true, if_false, exactIntArrayIds, hne, ne_eq,
        not_false_eq_true, and_true, hrange, bind, Except.bind, pure, Except.pure]
      rcases hS with hj | hj | hj | hj
      · -- int64: every id is below 2^63
        have hall : ids.all (fun v => decide (v < two64)) = true := by
          rw [← hids] at hj ⊢
          simp only [List.map_cons, joinAll] at hj
          obtain ⟨h1, h2⟩ := foldl_i64 _ _ (discover_inS a) (by intro x hx; obtain ⟨v, _, rfl⟩ := List.mem_map.1 hx; exact discover_inS v) hj
          have key : ∀ v : Int, discover (.i v) = .i64 → v < two64 := by
            intro v hv
            by_cases h1 : -two63 ≤ v ∧ v < two63
            · have := h1.2; simp only [two63, two64] at *; omega
            · by_cases h2 : two63 ≤ v ∧ v < two64 <;> simp [discover, h1, h2] at hv
          simp only [List.all_cons, Bool.and_eq_true, decide_eq_true_eq, List.all_eq_true]
          exact ⟨key a h1, fun v hv => key v (h2 _ (List.mem_map.2 ⟨v, hv, rfl⟩))⟩
        have hmap : ids.map (fun v => if v < 0 then v + two64 else v) = ids := by
          conv => rhs; rw [← List.map_id ids]
          apply List.map_congr_left
          intro v hv
          have := hnn v hv
          simp [show ¬ v < 0 by omega]
        simp [hj, astypeUint, isIntegerDtype, hall, hmap]
      · by_cases hall : ids.all (fun v => decide (v < two64)) = true
        · simp [hj, astypeUint, hall]
        · simp [hj, hall]
      · by_cases hall : ids.all (fun v => decide (v < two64)) = true
        · simp [hj, astypeUint, hall]
        · simp [hj, hall]
      · by_cases hall : ids.all (fun v => decide (v < two64)) = true
        · have hq : ∀ x ∈ ids, 0 ≤ x ∧ x < two64 := by
            intro x hx
            exact ⟨hnn x hx, by simpa using List.all_eq_true.1 hall x hx⟩
          simp [hj, astypeUint, isIntegerDtype, hall]
          rw [if_pos hq]
        · have hw : ∃ x, x ∈ ids ∧ ¬ x < two64 := by
            apply Classical.byContradiction
            intro hc
            apply hall
            rw [List.all_eq_true]
            intro x hx
            exact decide_eq_true (Classical.byContradiction fun h => hc ⟨x, hx, h⟩)
          obtain ⟨x, hx, hlt⟩ := hw
          have hq : ¬ ∀ x ∈ ids, 0 ≤ x ∧ x < two64 := fun h => hlt (h x hx).2
          simp [hj, astypeUint, isIntegerDtype, hall]
          rw [if_neg hq]

theorem edges_block (es : List (Int × Int)) :
    (if decide (es.length > 0) then
      (do
        let t5 : EdgeArr ← asarrayPairs es .u64
        let mut edgesArr : EdgeArr := t5
        pure edgesArr)
      else (do
        let mut edgesArr : EdgeArr := emptyPairs .u64
        pure edgesArr)) =
    (match edgeIdArr es with
      | .ok l => .ok { dtype := .u64, pairs := l }
      | .error e => .error e) := by
  cases es with
  | nil => simp [edgeIdArr, emptyPairs, pure, Except.pure]
  | cons a t =>
    simp only [List.length_cons, gt_iff_lt, Nat.zero_lt_succ, decide_true, if_true, asarrayPairs, edgeIdArr, bind, Except.bind]
    by_cases h : ((a :: t).all fun e => decide (0 ≤ e.fst ∧ e.fst < two64 ∧ 0 ≤ e.snd ∧ e.snd < two64)) = true
    · simp only [h, if_true]; rfl
    · simp only [h, if_false]; rfl

/-- `write_dicts` with the model's pieces -/
def writeDictsSpec {σ μ φ ρ : Type} (removeTilde : σ → σ) (writeArrays : WriteArraysArgs σ μ φ → Except Err ρ)
    (geffStore : σ) (nodeData : List (Int × Attrs)) (edgeData : List ((Int × Int) × Attrs))
    (nodePropNames edgePropNames : List String) (metadata : μ) (zarrFormat : φ) (structureValidation : Bool) :
    Except Err ρ :=
  match nodeIdArr (idsOf nodeData) with
  | .error e => .error e
  | .ok nodes =>
    match edgeIdArr (idsOf edgeData) with
    | .error e => .error e
    | .ok edges =>
      match Gen.DictLayer.dictPropsToArr nodeData nodePropNames with
      | .error e => .error e
      | .ok np =>
        match Gen.DictLayer.dictPropsToArr edgeData edgePropNames with
        | .error e => .error e
        | .ok ep =>
          writeArrays { geffStore := removeTilde geffStore, nodeIds := ⟨.u64, nodes⟩, nodeProps := np,
                        edgeIds := ⟨.u64, edges⟩, edgeProps := ep, metadata := metadata,
                        zarrFormat := zarrFormat, structureValidation := structureValidation }

theorem wd_eq {σ μ φ ρ : Type} (removeTilde : σ → σ) (writeArrays : WriteArraysArgs σ μ φ → Except Err ρ)
    (geffStore : σ) (nodeData : List (Int × Attrs)) (edgeData : List ((Int × Int) × Attrs))
    (nodePropNames edgePropNames : List String) (metadata : μ) (zarrFormat : φ) (structureValidation : Bool) :
    Gen.DictLayer.writeDicts removeTilde writeArrays geffStore nodeData edgeData nodePropNames edgePropNames
        metadata zarrFormat structureValidation =
      writeDictsSpec removeTilde writeArrays geffStore nodeData edgeData nodePropNames edgePropNames
        metadata zarrFormat structureValidation := by
  unfold Gen.DictLayer.writeDicts writeDictsSpec
  simp only [pyList]
  refine Eq.trans (congrArg (· >>= _) (nodes_block (idsOf nodeData))) ?_
  cases hn : nodeIdArr (idsOf nodeData) with
  | error e => rfl
  | ok nodes =>
    show ((if _ then _ else _ : Except Err EdgeArr) >>= _) = _
    refine Eq.trans (congrArg (· >>= _) (edges_block (idsOf edgeData))) ?_
    cases he : edgeIdArr (idsOf edgeData) with
    | error e => rfl
    | ok edges =>
      show ((Gen.DictLayer.dictPropsToArr nodeData nodePropNames) >>= _) = _
      cases Gen.DictLayer.dictPropsToArr nodeData nodePropNames with
      | error e => rfl
      | ok np =>
        show ((Gen.DictLayer.dictPropsToArr edgeData edgePropNames) >>= _) = _
        cases Gen.DictLayer.dictPropsToArr edgeData edgePropNames with
        | error e => rfl
        | ok ep =>
          rfl

/-- for distinct property names the generated `write_dicts` hands `write_arrays` the model's in-memory geff -/
theorem wd_eq_model {σ μ φ ρ : Type} (removeTilde : σ → σ) (writeArrays : WriteArraysArgs σ μ φ → Except Err ρ)
    (geffStore : σ) (nodeData : List (Int × Attrs)) (edgeData : List ((Int × Int) × Attrs))
    (nodePropNames edgePropNames : List String) (metadata : μ) (zarrFormat : φ) (structureValidation : Bool)
    (directed : Bool) (hn : nodePropNames.Nodup) (he : edgePropNames.Nodup) :
    Gen.DictLayer.writeDicts removeTilde writeArrays geffStore nodeData edgeData nodePropNames edgePropNames
        metadata zarrFormat structureValidation =
      (match Geff.Dicts.writeDicts directed nodeData edgeData nodePropNames edgePropNames with
        | .error e => .error e
        | .ok m => writeArrays { geffStore := removeTilde geffStore, nodeIds := ⟨.u64, m.nodeIds⟩, nodeProps := m.nodeProps,
                                 edgeIds := ⟨.u64, m.edgeIds⟩, edgeProps := m.edgeProps, metadata := metadata,
                                 zarrFormat := zarrFormat, structureValidation := structureValidation }) := by
  rw [wd_eq]
  unfold writeDictsSpec Geff.Dicts.writeDicts
  rw [dpa_eq_nodup nodeData nodePropNames hn, dpa_eq_nodup edgeData edgePropNames he]
  simp only [idsOf]
  cases nodeIdArr (nodeData.map (·.1)) with
  | error e => rfl
  | ok nodes =>
    cases edgeIdArr (edgeData.map (·.1)) with
    | error e => rfl
    | ok edges =>
      cases Geff.Dicts.dictPropsToArr nodeData nodePropNames with
      | error e => rfl
      | ok np =>
        cases Geff.Dicts.dictPropsToArr edgeData edgePropNames with
        | error e => rfl
        | ok ep => rfl

end GeffProofs.DictLayerGen
