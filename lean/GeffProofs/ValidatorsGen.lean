import Gen.Validators
import GeffProofs.Meta
/-! The source-translated validator bodies (`Gen/Validators.lean`, translator T17) are the hand-written
checks of `GeffModel/Meta.lean`.

Each generated validator is characterised as an explicit function of its input — accepted value or
`ValueError`, nothing else: the `TypeError` / `AttributeError` outcomes of the primitives (`None > x`,
`None.attr`, iterating `None`) are shown unreachable, which is what Python's short-circuit guards in the
source are there for.  Generated loops are consumed by unification against a one-step specification
(`forIn_guard`), so no proof repeats generated text. -/
set_option autoImplicit false
set_option linter.unusedSimpArgs false
namespace Geff.ValidatorsGen
open Geff.Meta Geff.PyDoVal Gen.Validators

/-! ## `_valid_values.py` -/

theorem validateAxisType_eq (t : Option String) :
    validateAxisType t = .ok (optIn t Gen.ValidValues.axisTypes) := rfl
theorem validateSpaceUnit_eq (t : Option String) :
    validateSpaceUnit t = .ok (optIn t Gen.ValidValues.spaceUnits) := rfl
theorem validateTimeUnit_eq (t : Option String) :
    validateTimeUnit t = .ok (optIn t Gen.ValidValues.timeUnits) := rfl

/-! ## `Axis` -/

/-- `_check_units` only warns: it never raises and returns `None` -/
theorem axisCheckUnits_eq (a : Axis) (u : Option String) (f : String) : axisCheckUnits a u f = .ok () := by
  unfold axisCheckUnits
  simp only [validateSpaceUnit_eq, validateTimeUnit_eq]
  by_cases h1 : (a.type == some "space") = true <;> by_cases h2 : (a.type == some "time") = true <;>
    simp [h1, h2, bind, Except.bind, pure, Except.pure] <;> split <;> rfl

/-- **`Axis._validate_model` is `Axis.modelBad`**: accepted unchanged, or `ValueError` -/
theorem axisValidateModel_eq (a : Axis) :
    axisValidateModel a = if a.modelBad then .error .valueError else .ok a := by
  unfold axisValidateModel
  simp only [axisCheckUnits_eq]
  obtain ⟨name, type, unit, min, max, scale, su, off⟩ := a
  cases min <;> cases max <;> cases scale <;>
    simp [Axis.modelBad, pyGt, raiseValueError, truthyStr, bind, Except.bind, pure, Except.pure]
  all_goals (repeat' split) <;> first | rfl | simp_all | (simp only [ite_self]) | grind

/-! ## `PropMetadata` -/

/-- **`PropMetadata._convert_dtype`**: `None` → `ValueError`; a string numpy cannot parse → `ValueError`
(the `TypeError` is caught); otherwise numpy's name with every unicode width collapsed to `"str"`, which
must be one of `VALID_DTYPES` -/
theorem propMetadataConvertDtype_eq (np : NpEnv) (v : Option String) :
    propMetadataConvertDtype np v =
      match v with
      | none => .error .valueError
      | some s =>
        match np.npName s with
        | none => .error .valueError
        | some n => if n ∈ Gen.ValidValues.dtypes then .ok n else .error .valueError := by
  unfold propMetadataConvertDtype
  cases v with
  | none => simp [raiseValueError, bind, Except.bind]
  | some s =>
    simp only [NpEnv.npName, npDtype]
    cases hd : np.dtype s with
    | none => simp [raiseValueError, bind, Except.bind, pure, Except.pure, tryCatch, tryCatchThe, MonadExcept.tryCatch, MonadExceptOf.tryCatch, Except.tryCatch]
    | some d =>
      by_cases hs : d.isStr = true <;>
      simp [raiseValueError, bind, Except.bind, pure, Except.pure, tryCatch, tryCatchThe, MonadExcept.tryCatch, MonadExceptOf.tryCatch, Except.tryCatch, npIssubdtype, hs, strIn]
      all_goals simp [StateT.pure, pure, Except.pure]

/-! ## `RelatedObject` -/

theorem relatedObjectValidateModel_eq (r : RelatedObject) :
    relatedObjectValidateModel r =
      if r.type ≠ "labels" && r.label_prop.isSome then .error .valueError else .ok r := by
  obtain ⟨t, p, lp⟩ := r
  cases lp <;> by_cases h : t = "labels" <;>
    simp [relatedObjectValidateModel, h, raiseValueError, bind, Except.bind, pure, Except.pure]

/-! ## `_validate_key_identifier_equality` -/

/-- one-step specification of a generated `for` loop that only checks: the body raises `ValueError` on
a bad element and otherwise continues -/
theorem forIn_guard {α : Type} (bad : α → Bool) (body : α → PUnit → VRes (ForInStep PUnit))
    (hbody : ∀ x u, body x u = if bad x then .error .valueError else .ok (.yield ⟨⟩)) (l : List α) :
    forIn l PUnit.unit body = if l.any bad then .error .valueError else .ok ⟨⟩ := by
  induction l with
  | nil => simp [pure, Except.pure]
  | cons x xs ih =>
    simp only [List.forIn_cons, hbody, List.any_cons]
    by_cases hx : bad x = true
    · simp [hx, bind, Except.bind]
    · simp [hx, bind, Except.bind, ih]

theorem validateKeyIdentifierEquality_eq (d : List (String × PropMeta)) (c : String)
    (hc : c ∈ ["node", "edge", "tracklet", "lineage"]) :
    validateKeyIdentifierEquality d c = if keysMatch d then .ok () else .error .valueError := by
  unfold validateKeyIdentifierEquality
  have hc' : strIn c ["node", "edge", "tracklet", "lineage"] = true := by simpa [strIn] using hc
  simp only [hc']
  simp only [Bool.not_true, Bool.false_eq_true, if_false]
  show (forIn d PUnit.unit _ >>= _) = _
  rw [forIn_guard (fun kv => kv.1 != kv.2.identifier)]
  · by_cases hk : keysMatch d = true
    · have : (d.any fun kv => kv.1 != kv.2.identifier) = false := by
        simpa [keysMatch, List.all_eq_true, List.any_eq_false] using hk
      simp [hk, this, bind, Except.bind, pure, Except.pure]
    · have : (d.any fun kv => kv.1 != kv.2.identifier) = true := by
        simpa [keysMatch, List.any_eq_true] using hk
      simp [hk, this, bind, Except.bind]
  · intro x u
    by_cases hx : (x.1 != x.2.identifier) = true <;>
      simp [hx, raiseValueError, bind, Except.bind, pure, Except.pure]

/-! ## `GeffMetadata._validate_model_after` -/

theorem mem_pySet (l : List String) : ∀ x, x ∈ pySet l ↔ x ∈ l := by
  induction l with
  | nil => intro x; simp [pySet]
  | cons y ys ih =>
    intro x
    unfold pySet
    by_cases hy : (pySet ys).contains y = true
    · have hy' : y ∈ ys := (ih y).1 (by simpa using hy)
      rw [if_pos hy]; simp only [ih x, List.mem_cons]
      constructor
      · exact Or.inr
      · rintro (rfl | h)
        · exact hy'
        · exact h
    · rw [if_neg hy]; simp [ih x]

theorem pySet_length_le (l : List String) : (pySet l).length ≤ l.length := by
  induction l with
  | nil => simp [pySet]
  | cons y ys ih =>
    unfold pySet
    split
    · exact Nat.le_succ_of_le ih
    · simpa using ih

/-- `len(names) != len(set(names))` is "some name occurs twice" -/
theorem pySet_length_ne (l : List String) : (l.length != (pySet l).length) = !nodupB l := by
  induction l with
  | nil => simp [pySet, nodupB]
  | cons y ys ih =>
    unfold pySet nodupB
    have hc : (pySet ys).contains y = ys.contains y := by
      rw [Bool.eq_iff_iff]; simpa using mem_pySet ys y
    rw [hc]
    by_cases hy : ys.contains y = true
    · have := pySet_length_le ys
      simp only [hy, if_true, List.length_cons, Bool.not_true, Bool.false_and, Bool.not_false]
      simp only [bne_iff_ne, ne_eq]; omega
    · simp only [hy, if_false, List.length_cons, Bool.not_false, Bool.true_and]
      rw [← ih]
      simp only [bne, Nat.succ_eq_add_one, Nat.add_right_cancel_iff]
      congr 1
      rw [Bool.eq_iff_iff]; simp

theorem pySet_length_eq_iff (l : List Axis) :
    l.length = (pySet (axisNames l)).length ↔ nodupB (axisNames l) = true := by
  have h := pySet_length_ne (axisNames l)
  have hl : (axisNames l).length = l.length := by simp [axisNames]
  rw [hl] at h
  cases hn : nodupB (axisNames l) <;> simp [hn] at h ⊢ <;> exact h

theorem geffMetadataValidateModelAfter_eq (m : Meta) :
    geffMetadataValidateModelAfter m = if modelAfterOk m then .ok m else .error .valueError := by
  unfold geffMetadataValidateModelAfter
  rw [validateKeyIdentifierEquality_eq _ _ (by decide), validateKeyIdentifierEquality_eq _ _ (by decide)]
  obtain ⟨ver, dir, axes, np, ep, sph, ell, tr, rel, dh, ex⟩ := m
  cases hkn : keysMatch np <;> cases hke : keysMatch ep <;> cases axes with
  | none =>
    cases dh <;>
      simp [modelAfterOk, hkn, hke, iterOpt, deref, raiseValueError, bind, Except.bind, pure, Except.pure]
  | some l =>
    have hlen := pySet_length_eq_iff l
    unfold axisNames at hlen
    -- both orientations, so that `len(names) != len(set(names))` may be written either way round
    have hlen2 : (pySet (List.map (fun x => x.name) l)).length = l.length ↔
        nodupB (List.map (fun x => x.name) l) = true := by rw [eq_comm]; exact hlen
    cases hnd : nodupB (axisNames l) <;> unfold axisNames at hnd <;> rw [hnd] at hlen hlen2 <;> cases dh with
    | none =>
      simp [modelAfterOk, axisNames, hkn, hke, hnd, hlen, hlen2, iterOpt, deref, raiseValueError, bind, Except.bind, pure, Except.pure]
    | some h =>
      obtain ⟨hh, hv, hd, ht⟩ := h
      cases hd <;> cases ht <;>
        simp [modelAfterOk, hintOk, strIn, optIn, axisNames, hkn, hke, hnd, hlen, hlen2, iterOpt, deref, raiseValueError, bind, Except.bind, pure, Except.pure]
      all_goals (repeat' split) <;> first | grind | simp_all

/-! ## `GeffMetadata.__setattr__` -/

/-- **the roll-back**: run on an object `o`, the translated `__setattr__` — pydantic's validated assignment
(which stores the value before the `mode="after"` validator runs) inside `try`, restoring `__dict__` and
the fields-set in the handler — is exactly the hand-written `assign`: same outcome, same object afterwards -/
theorem geffMetadataSetattr_eq (env : Env) (f : String) (v : J) (o : MetaObj) :
    geffMetadataSetattr env f v o =
      ((match (assign env o f v).1 with
        | none => .ok ()
        | some _ => .error .validationError), (assign env o f v).2) := by
  unfold geffMetadataSetattr assign
  simp only [bind, pure, tryCatch, tryCatchThe, MonadExcept.tryCatch, throw, throwThe, MonadExcept.throw,
    dictCopy, fieldsSetCopy, objectSetDict, objectSetFieldsSet, superSetattr, geffMetadataValidateModelAfter_eq]
  cases hs : setField env o.val f v with
  | error e => simp
  | ok m' => by_cases hm : modelAfterOk m' = true <;> simp [hm]

/-! ## from outcomes of validator bodies to what pydantic reports, and acceptance of a whole object -/

/-- what pydantic makes of a validator's outcome: a `ValueError` raised inside a validator is reported
as `ValidationError`.  (Any other exception would propagate unchanged; `*_only_valueError` below show that
the validators as written raise nothing else, so mapping every error to `.validation` loses nothing.) -/
def liftV {α : Type} : VRes α → Except Err α
  | .ok a => .ok a
  | .error _ => .error .validation

/-- every generated validator, run on the parts of an already built object, accepts it unchanged -/
def AcceptsGen (m : Meta) : Prop :=
  (∀ l ∈ m.axes, ∀ a ∈ l, axisValidateModel a = .ok a) ∧
  (∀ l ∈ m.related_objects, ∀ r ∈ l, relatedObjectValidateModel r = .ok r) ∧
  geffMetadataValidateModelAfter m = .ok m

instance (m : Meta) : Decidable (AcceptsGen m) := by unfold AcceptsGen; infer_instance

/-- the constraints pydantic enforces from the field ANNOTATIONS, not from validator bodies
(`pattern=VERSION_PATTERN`, `AxisType` Literal, `MinLen(1)`, the `Literal` keys of `track_node_props`),
plus the range of `_convert_dtype` (`propMetadataConvertDtype_sound`) -/
def DeclaredOk (env : Env) (m : Meta) : Prop :=
  env.versionOk m.geff_version = true ∧
  (∀ l ∈ m.axes, ∀ a ∈ l, ∀ t ∈ a.type, t ∈ Gen.ValidValues.axisTypes) ∧
  (∀ kv ∈ m.node_props_metadata, kv.2.Valid) ∧ (∀ kv ∈ m.edge_props_metadata, kv.2.Valid) ∧
  (∀ t ∈ m.track_node_props, ∀ kv ∈ t, kv.1 ∈ trackKeys)

theorem axis_accept_iff (a : Axis) : axisValidateModel a = .ok a ↔ a.modelBad = false := by
  rw [axisValidateModel_eq]; cases a.modelBad <;> simp

theorem axis_modelBad_iff (a : Axis) :
    a.modelBad = false ↔ (a.min.isSome = a.max.isSome) ∧ (∀ lo ∈ a.min, ∀ hi ∈ a.max, ordCode lo hi = true) ∧
      (∀ u ∈ a.scaled_unit, u ≠ "" → a.scale.isSome = true) := by
  obtain ⟨name, type, unit, min, max, scale, su, off⟩ := a
  cases min <;> cases max <;> cases scale <;> cases su <;> simp [Axis.modelBad, ordCode, truthy]

theorem related_accept_iff (r : RelatedObject) : relatedObjectValidateModel r = .ok r ↔ r.Valid := by
  rw [relatedObjectValidateModel_eq]
  obtain ⟨t, p, lp⟩ := r
  cases lp <;> by_cases h : t = "labels" <;> simp [RelatedObject.Valid, h]

theorem modelAfter_accept_iff (m : Meta) : geffMetadataValidateModelAfter m = .ok m ↔ modelAfterOk m = true := by
  rw [geffMetadataValidateModelAfter_eq]; cases modelAfterOk m <;> simp

/-- **the generated validators accept an object iff the enforced invariant holds** (given the declarative
field constraints) -/
theorem validCode_iff_acceptsGen (env : Env) (m : Meta) :
    ValidCode env m ↔ DeclaredOk env m ∧ AcceptsGen m := by
  rw [validCode_iff]
  unfold AcceptsGen DeclaredOk
  simp only [axis_accept_iff, axis_modelBad_iff, related_accept_iff, modelAfter_accept_iff]
  constructor
  · rintro ⟨⟨hv, hax, hn, he, ht, hr⟩, hm⟩
    exact ⟨⟨hv, fun l hl a ha => (hax l hl a ha).1, hn, he, ht⟩,
      fun l hl a ha => (hax l hl a ha).2, hr, hm⟩
  · rintro ⟨⟨hv, hty, hn, he, ht⟩, hax, hr, hm⟩
    exact ⟨⟨hv, fun l hl a ha => ⟨hty l hl a ha, hax l hl a ha⟩, hn, he, ht, hr⟩, hm⟩

end Geff.ValidatorsGen
