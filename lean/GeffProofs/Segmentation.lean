import GeffModel.Segmentation
/-! Lemmas about the segmentation-check model (`GeffModel/Segmentation.lean`): the dyadic order,
the loop invariants of the three looping functions, numpy indexing inside the guards. -/
namespace Geff.Seg
open Geff.Np


theorem Dy.lt_iff (a b : Dy) : a.lt b = true ↔ a.Lt b := by simp [Dy.lt, Dy.Lt]
theorem Dy.le_iff (a b : Dy) : a.le b = true ↔ a.Le b := by simp [Dy.le, Dy.Le]
theorem Dy.not_le_iff (a b : Dy) : a.le b = false ↔ b.Lt a := by
  simp [Dy.le, Dy.Lt]

/-- `floor a = k` iff `k ≤ a < k + 1` -/
theorem Dy.floor_spec (a : Dy) (k : Int) :
    a.floor = k ↔ (Dy.ofInt k).Le a ∧ a.Lt (Dy.ofInt (k + 1)) := by
  have hp : (0 : Int) < 2 ^ a.e := Int.pow_pos (by decide)
  simp only [Dy.floor, Dy.Le, Dy.Lt, Dy.ofInt, Int.pow_zero, Int.mul_one]
  constructor
  · rintro rfl
    constructor
    · exact Int.ediv_mul_le _ (Int.ne_of_gt hp)
    · have := Int.lt_ediv_add_one_mul_self a.m hp
      simpa [Int.add_mul] using this
  · rintro ⟨h1, h2⟩
    apply Int.le_antisymm
    · have : a.m / 2 ^ a.e < k + 1 := Int.ediv_lt_of_lt_mul hp h2
      omega
    · exact Int.le_ediv_of_mul_le hp h1

theorem truthyAxes_some {axes : Option (List Axis)} {ax : List Axis} :
    truthyAxes axes = some ax ↔ axes = some ax ∧ ax ≠ [] := by
  cases axes with
  | none => simp [truthyAxes]
  | some l =>
    cases l with
    | nil => simp [truthyAxes]
    | cons a t => simp only [truthyAxes, Option.some.injEq]; constructor
                  · rintro rfl; exact ⟨rfl, by simp⟩
                  · rintro ⟨h, -⟩; exact h

theorem truthyAxes_none {axes : Option (List Axis)} :
    truthyAxes axes = none ↔ ¬ ∃ ax, axes = some ax ∧ ax ≠ [] := by
  cases axes with
  | none => simp [truthyAxes]
  | some l => cases l <;> simp [truthyAxes]




/-- axis `j` of the list handled from position `i` on is in bounds -/
def AxisIn (shape : List Nat) (scale : List Dy) (i : Nat) (a : Axis) : Prop :=
  ∃ mx n s, a.max = some mx ∧ shape[i]? = some n ∧ scale[i]? = some s ∧ mx.Lt (Dy.mul (Dy.ofInt n) s)

theorem boundsLoop_spec (shape : List Nat) (scale : List Dy) (ax : List Axis) (i : Nat)
    (h1 : i + ax.length ≤ shape.length) (h2 : i + ax.length ≤ scale.length) :
    ∃ r, boundsLoop shape scale i ax = .ok r ∧
      (r.ok = true ↔ ∀ j (h : j < ax.length), AxisIn shape scale (i + j) ax[j]) ∧
      (r.ok = false → r.errors ≠ []) := by
  induction ax generalizing i with
  | nil => exact ⟨⟨true, []⟩, rfl, by simp, by simp⟩
  | cons a rest ih =>
    simp only [List.length_cons] at h1 h2
    have hi1 : i < shape.length := by omega
    have hi2 : i < scale.length := by omega
    simp only [boundsLoop]
    cases hm : a.max with
    | none =>
      refine ⟨⟨false, [.noAxisMax]⟩, rfl, ?_, by simp⟩
      simp only [Bool.false_eq_true, false_iff]
      intro h
      obtain ⟨mx, _, _, hmx, _⟩ := h 0 (by simp)
      simp [hm] at hmx
    | some mx =>
      simp only [List.getElem?_eq_getElem hi1, List.getElem?_eq_getElem hi2]
      cases hle : (Dy.mul (Dy.ofInt shape[i]) scale[i]).le mx with
      | true =>
        refine ⟨⟨false, [.axisOutOfBounds i]⟩, by simp, ?_, by simp⟩
        simp only [Bool.false_eq_true, false_iff]
        intro h
        obtain ⟨mx', n, s, hmx, hn, hs, hlt⟩ := h 0 (by simp)
        simp only [List.getElem_cons_zero, Nat.add_zero, hm, Option.some.injEq,
          List.getElem?_eq_getElem hi1, List.getElem?_eq_getElem hi2] at hmx hn hs
        subst hmx hn hs
        have := (Dy.not_le_iff _ _).2 hlt
        rw [hle] at this; cases this
      | false =>
        obtain ⟨r, hr, hiff, herr⟩ := ih (i + 1) (by omega) (by omega)
        refine ⟨r, by simpa using hr, ?_, herr⟩
        rw [hiff]
        constructor
        · intro h j hj
          cases j with
          | zero =>
            exact ⟨mx, shape[i], scale[i], by simpa using hm, by simp [hi1], by simp [hi2],
              (Dy.not_le_iff _ _).1 hle⟩
          | succ j =>
            have := h j (by simpa using hj)
            simpa [Nat.add_assoc, Nat.add_comm 1 j] using this
        · intro h j hj
          have := h (j + 1) (by simpa using hj)
          simpa [Nat.add_assoc, Nat.add_comm 1 j] using this



theorem wrapIndex_inrange {n : Nat} {t : Int} (h0 : 0 ≤ t) (h1 : t < n) : wrapIndex n t = some t.toNat := by
  simp [wrapIndex, h0, h1]

/-- time point `t` is inside the time axis `ti` of the volume -/
def TimeIn (v : Vol) (ti : Nat) (t : Int) : Prop := ∃ n : Nat, v.shape[ti]? = some n ∧ 0 ≤ t ∧ t < n

/-- label `id` occurs in the volume at time point `t` -/
def LabelAt (v : Vol) (ti : Nat) (t id : Int) : Prop :=
  ∃ idx, (idx, id) ∈ v.cells ∧ idx[ti]? = some t.toNat

instance (v : Vol) (ti : Nat) (t : Int) : Decidable (TimeIn v ti t) := by
  unfold TimeIn
  cases h : v.shape[ti]? with
  | none => exact isFalse (by simp)
  | some n =>
    by_cases h' : 0 ≤ t ∧ t < n
    · exact isTrue ⟨n, rfl, h'.1, h'.2⟩
    · exact isFalse (by rintro ⟨m, hm, h0, h1⟩; cases hm; exact h' ⟨h0, h1⟩)

theorem npTakeLabels_inrange {v : Vol} {ti : Nat} {t : Int} {n : Nat} (hn : v.shape[ti]? = some n)
    (h0 : 0 ≤ t) (h1 : t < n) :
    ∃ labels, npTakeLabels v ti t = .ok labels ∧ ∀ id, id ∈ labels ↔ LabelAt v ti t id := by
  refine ⟨(v.cells.filter (fun c => c.1[ti]? == some t.toNat)).map (·.2),
    by simp [npTakeLabels, hn, wrapIndex_inrange h0 h1], ?_⟩
  intro id
  simp only [List.mem_map, List.mem_filter, beq_iff_eq, LabelAt]
  constructor
  · rintro ⟨⟨idx, l⟩, ⟨hm, hi⟩, rfl⟩; exact ⟨idx, hm, hi⟩
  · rintro ⟨idx, hm, hi⟩; exact ⟨(idx, id), ⟨hm, hi⟩, rfl⟩

theorem timeLoop_spec (v : Vol) (ti : Nat) (pairs : List (Int × Int)) (rest : List Int)
    (errs : List Msg) (am : Bool) :
    ∃ r suffix, timeLoop v ti pairs rest errs am = .ok r ∧ r.errors = errs ++ suffix ∧
      (r.ok = true ↔ am = false ∧ (∀ t ∈ rest, TimeIn v ti t) ∧
        ∀ t ∈ rest, ∀ id ∈ groupAt pairs t, LabelAt v ti t id) ∧
      ((∃ t ∈ rest, ¬ TimeIn v ti t) → ∃ t ∈ rest, ¬ TimeIn v ti t ∧ Msg.timeOutOfBounds t ∈ suffix) ∧
      (r.ok = false → am = true ∨ suffix ≠ []) := by
  induction rest generalizing errs am with
  | nil =>
    refine ⟨⟨!am, errs⟩, [], rfl, by simp, by cases am <;> simp, by simp, by cases am <;> simp⟩
  | cons t rest ih =>
    simp only [timeLoop]
    by_cases hin : TimeIn v ti t
    · obtain ⟨n, hn, h0, h1⟩ := hin
      obtain ⟨labels, hl, hmem⟩ := npTakeLabels_inrange hn h0 h1
      simp only [hn, h0, h1, and_self, not_true_eq_false, ↓reduceIte, hl]
      obtain ⟨r, suffix, hr, herr, hiff, hoob, hmsg⟩ := ih
        (errs ++ ((groupAt pairs t).filter (fun id => !labels.contains id)).map (fun id => Msg.missingLabel id t))
        (am || !((groupAt pairs t).filter (fun id => !labels.contains id)).isEmpty)
      have hmiss : ((groupAt pairs t).filter (fun id => !labels.contains id)) = [] ↔
          ∀ id ∈ groupAt pairs t, LabelAt v ti t id := by
        rw [List.filter_eq_nil_iff]
        constructor
        · intro h id hid
          have := h id hid
          simp only [Bool.not_eq_eq_eq_not, Bool.not_true, Bool.not_eq_false, List.contains_iff_mem] at this
          exact (hmem id).1 this
        · intro h id hid
          simp only [Bool.not_eq_eq_eq_not, Bool.not_true, Bool.not_eq_false, List.contains_iff_mem]
          exact (hmem id).2 (h id hid)
      refine ⟨r, (((groupAt pairs t).filter (fun id => !labels.contains id)).map
          (fun id => Msg.missingLabel id t)) ++ suffix, hr, by rw [herr, List.append_assoc], ?_, ?_, ?_⟩
      · rw [hiff]
        simp only [Bool.or_eq_false_iff, Bool.not_eq_eq_eq_not, Bool.not_false, List.isEmpty_iff,
          List.mem_cons, forall_eq_or_imp, hmiss]
        constructor
        · rintro ⟨⟨h1', h2'⟩, h3, h4⟩; exact ⟨h1', ⟨⟨n, hn, h0, h1⟩, h3⟩, h2', h4⟩
        · rintro ⟨h1', ⟨_, h3⟩, h2', h4⟩; exact ⟨⟨h1', h2'⟩, h3, h4⟩
      · rintro ⟨t', ht', hnot⟩
        rcases List.mem_cons.1 ht' with rfl | ht'
        · exact absurd ⟨n, hn, h0, h1⟩ hnot
        · obtain ⟨t'', h1'', h2'', h3''⟩ := hoob ⟨t', ht', hnot⟩
          exact ⟨t'', List.mem_cons_of_mem _ h1'', h2'', List.mem_append_right _ h3''⟩
      · intro hf
        rcases hmsg hf with h | h
        · simp only [Bool.or_eq_true, Bool.not_eq_eq_eq_not, Bool.not_true, List.isEmpty_eq_false_iff] at h
          rcases h with h | h
          · exact .inl h
          · right; intro hnil
            simp only [List.append_eq_nil_iff, List.map_eq_nil_iff] at hnil
            exact h hnil.1
        · right; intro hnil
          simp only [List.append_eq_nil_iff] at hnil
          exact h hnil.2
    · have hout : ∃ r, (match v.shape[ti]? with
          | none => Outcome.ok (⟨false, errs ++ [Msg.timeOutOfBounds t]⟩ : Result)
          | some n =>
            if ¬(0 ≤ t ∧ t < (n : Int)) then Outcome.ok ⟨false, errs ++ [Msg.timeOutOfBounds t]⟩
            else match npTakeLabels v ti t with
              | .other e => .other e
              | .ok labels =>
                timeLoop v ti pairs rest
                  (errs ++ ((groupAt pairs t).filter (fun id => !labels.contains id)).map (fun id => Msg.missingLabel id t))
                  (am || !((groupAt pairs t).filter (fun id => !labels.contains id)).isEmpty)) = .ok r ∧
          r = ⟨false, errs ++ [Msg.timeOutOfBounds t]⟩ := by
        cases hn : v.shape[ti]? with
        | none => exact ⟨_, rfl, rfl⟩
        | some n =>
          have : ¬ (0 ≤ t ∧ t < (n : Int)) := fun h => hin ⟨n, hn, h.1, h.2⟩
          simp only [this, not_false_eq_true, ↓reduceIte]
          exact ⟨_, rfl, rfl⟩
      obtain ⟨r, hr, rfl⟩ := hout
      refine ⟨_, [Msg.timeOutOfBounds t], hr, rfl, ?_, ?_, by simp⟩
      · simp only [Bool.false_eq_true, List.mem_cons, forall_eq_or_imp, false_iff]
        rintro ⟨-, ⟨h, -⟩, -⟩; exact hin h
      · intro _; exact ⟨t, by simp, hin, by simp⟩




theorem scaleCoord_eq : ∀ (coord scale : List Dy), coord.length = scale.length →
    scaleCoord coord scale = .ok (List.zipWith Dy.mul coord scale)
  | [], [], _ => rfl
  | c :: cs, s :: ss, h => by
    simp only [scaleCoord, scaleCoord_eq cs ss (by simpa using h), List.zipWith_cons_cons]
  | [], _ :: _, h => by simp at h
  | _ :: _, [], h => by simp at h

/-- every scaled coordinate lies inside its axis: `0 ≤ x < extent` -/
def CoordIn : List Dy → List Nat → Prop
  | [], [] => True
  | c :: cs, n :: ns => (Dy.ofInt 0).Le c ∧ c.Lt (Dy.ofInt n) ∧ CoordIn cs ns
  | _, _ => False

theorem allInRange_iff : ∀ (sc : List Dy) (shape : List Nat), allInRange sc shape = true ↔ CoordIn sc shape
  | [], [] => by simp [allInRange, CoordIn]
  | c :: cs, n :: ns => by
    simp only [allInRange, CoordIn, Bool.and_eq_true, allInRange_iff cs ns, Dy.le, Dy.lt, Dy.Le, Dy.Lt,
      decide_eq_true_eq, and_assoc]
  | [], _ :: _ => by simp [allInRange, CoordIn]
  | _ :: _, [] => by simp [allInRange, CoordIn]

theorem floor_inrange {c : Dy} {n : Nat} (h0 : (Dy.ofInt 0).Le c) (h1 : c.Lt (Dy.ofInt n)) :
    0 ≤ c.floor ∧ c.floor < n := by
  have hp : (0 : Int) < 2 ^ c.e := Int.pow_pos (by decide)
  simp only [Dy.Le, Dy.Lt, Dy.ofInt, Int.pow_zero, Int.mul_one, Int.zero_mul] at h0 h1
  exact ⟨Int.ediv_nonneg h0 (Int.le_of_lt hp), Int.ediv_lt_of_lt_mul hp h1⟩

theorem wrapAll_inrange : ∀ (sc : List Dy) (shape : List Nat), CoordIn sc shape →
    wrapAll shape (sc.map Dy.floor) = some (sc.map (fun x => x.floor.toNat)) ∧
    inShape (sc.map (fun x => x.floor.toNat)) shape = true
  | [], [], _ => by simp [wrapAll, inShape]
  | c :: cs, n :: ns, h => by
    obtain ⟨h0, h1, h2⟩ := h
    obtain ⟨f0, f1⟩ := floor_inrange h0 h1
    obtain ⟨ih1, ih2⟩ := wrapAll_inrange cs ns h2
    simp only [List.map_cons, wrapAll, wrapIndex_inrange f0 f1, ih1, inShape, ih2, Bool.and_true,
      decide_eq_true_eq, true_and]
    omega
  | [], _ :: _, h => by simp [CoordIn] at h
  | _ :: _, [], h => by simp [CoordIn] at h

theorem CoordIn_length : ∀ (sc : List Dy) (shape : List Nat), CoordIn sc shape → sc.length = shape.length
  | [], [], _ => rfl
  | _ :: cs, _ :: ns, h => by simp [CoordIn_length cs ns h.2.2]
  | [], _ :: _, h => by simp [CoordIn] at h
  | _ :: _, [], h => by simp [CoordIn] at h

theorem lookup_of_mem {α β : Type} [BEq α] [LawfulBEq α] (l : List (α × β)) (a : α) (h : ∃ b, (a, b) ∈ l) :
    ∃ b, l.lookup a = some b ∧ (a, b) ∈ l := by
  induction l with
  | nil => obtain ⟨b, hb⟩ := h; simp at hb
  | cons p t ih =>
    obtain ⟨k, x⟩ := p
    by_cases hk : a == k
    · have : a = k := by simpa using hk
      subst this
      exact ⟨x, by simp [List.lookup], by simp⟩
    · have hne : a ≠ k := by simpa using hk
      obtain ⟨b, hb⟩ := h
      have : (a, b) ∈ t := by
        rcases List.mem_cons.1 hb with h' | h'
        · cases h'; exact absurd rfl hne
        · exact h'
      obtain ⟨b', h1, h2⟩ := ih ⟨b, this⟩
      refine ⟨b', ?_, List.mem_cons_of_mem _ h2⟩
      simp only [List.lookup]
      have : (a == k) = false := by simpa using hne
      rw [this]; exact h1

/-- indexing a well-formed volume inside its shape returns the label of that cell -/
theorem npIndex_inrange {v : Vol} (hwf : v.WF) {sc : List Dy} (h : CoordIn sc v.shape) :
    ∃ l, npIndex v (sc.map Dy.floor) = .ok l ∧ (sc.map (fun x => x.floor.toNat), l) ∈ v.cells ∧
      ∀ l', (sc.map (fun x => x.floor.toNat), l') ∈ v.cells → l' = l := by
  obtain ⟨hw, hin⟩ := wrapAll_inrange sc v.shape h
  obtain ⟨l, hl, hm⟩ := lookup_of_mem v.cells _ ((hwf.1 _).2 hin)
  refine ⟨l, ?_, hm, fun l' hl' => hwf.2 _ _ _ hl' hm⟩
  simp [npIndex, Vol.ndim, CoordIn_length sc v.shape h, hw, hl]

/-- the documented condition for one `(coordinate, seg id)` pair -/
def PixelHas (v : Vol) (scale : List Dy) (coord : List Dy) (id : Int) : Prop :=
  coord.length = v.ndim ∧ CoordIn (List.zipWith Dy.mul coord scale) v.shape ∧
  ((List.zipWith Dy.mul coord scale).map (fun x => x.floor.toNat), id) ∈ v.cells

/-- the pair is well formed: right number of values, every scaled value inside its axis -/
def CoordOK (v : Vol) (scale : List Dy) (coord : List Dy) : Prop :=
  coord.length = v.ndim ∧ CoordIn (List.zipWith Dy.mul coord scale) v.shape

theorem coordLoop_spec (v : Vol) (hwf : v.WF) (scale : List Dy) (hs : scale.length = v.ndim)
    (pairs : List (List Dy × Int)) (k : Nat) (am : Bool) :
    ∃ r, coordLoop v scale k pairs am = .ok r ∧
      (r.ok = true ↔ am = false ∧ ∀ p ∈ pairs, PixelHas v scale p.1 p.2) ∧
      ((∃ p ∈ pairs, ¬ CoordOK v scale p.1) → r.ok = false ∧ r.errors ≠ []) ∧
      ((∀ p ∈ pairs, CoordOK v scale p.1) → r.errors = []) := by
  induction pairs generalizing k am with
  | nil => exact ⟨⟨!am, []⟩, rfl, by cases am <;> simp, by simp, by simp⟩
  | cons p rest ih =>
    obtain ⟨coord, id⟩ := p
    simp only [coordLoop]
    by_cases hlen : coord.length = v.ndim
    · simp only [hlen, ne_eq, not_true_eq_false, ↓reduceIte, scaleCoord_eq coord scale (hlen.trans hs.symm)]
      cases hr : allInRange (List.zipWith Dy.mul coord scale) v.shape with
      | false =>
        have hnot : ¬ CoordIn (List.zipWith Dy.mul coord scale) v.shape := by
          rw [← allInRange_iff, hr]; simp
        refine ⟨⟨false, [.coordOutOfBounds k]⟩, by simp, ?_, by simp, ?_⟩
        · simp only [Bool.false_eq_true, List.mem_cons, forall_eq_or_imp, false_iff]
          rintro ⟨-, h, -⟩; exact hnot h.2.1
        · intro h; exact absurd (h (coord, id) (by simp)).2 hnot
      | true =>
        have hin := (allInRange_iff _ _).1 hr
        obtain ⟨l, hl, hm, huniq⟩ := npIndex_inrange hwf hin
        obtain ⟨r, hr', hiff, hbad, hgood⟩ := ih (k + 1) (am || l != id)
        refine ⟨r, by simp only [Bool.not_true, Bool.false_eq_true, ↓reduceIte, hl, hr'], ?_, ?_, ?_⟩
        · rw [hiff]
          simp only [Bool.or_eq_false_iff, bne_eq_false_iff_eq, List.mem_cons, forall_eq_or_imp, PixelHas]
          constructor
          · rintro ⟨⟨h1, rfl⟩, h2⟩; exact ⟨h1, ⟨hlen, hin, hm⟩, h2⟩
          · rintro ⟨h1, ⟨_, _, h3⟩, h2⟩; exact ⟨⟨h1, (huniq _ h3).symm⟩, h2⟩
        · rintro ⟨q, hq, hnq⟩
          rcases List.mem_cons.1 hq with rfl | hq
          · exact absurd ⟨hlen, hin⟩ hnq
          · exact hbad ⟨q, hq, hnq⟩
        · intro h; exact hgood (fun q hq => h q (List.mem_cons_of_mem _ hq))
    · refine ⟨⟨false, [.coordLength k]⟩, by simp [hlen], ?_, by simp, ?_⟩
      · simp only [Bool.false_eq_true, List.mem_cons, forall_eq_or_imp, false_iff]
        rintro ⟨-, h, -⟩; exact hlen h.1
      · intro h; exact absurd (h (coord, id) (by simp)).1 hlen



/-- the message of `has_seg_ids_at_coords` names the *first* offending pair, and says whether its
rank or its range is wrong -/
theorem coordLoop_first_bad (v : Vol) (hwf : v.WF) (scale : List Dy) (hs : scale.length = v.ndim)
    (pairs : List (List Dy × Int)) (k : Nat) (am : Bool)
    (hbad : ∃ p ∈ pairs, ¬ CoordOK v scale p.1) :
    ∃ j, ∃ hj : j < pairs.length, ¬ CoordOK v scale pairs[j].1 ∧
      (∀ i (hi : i < pairs.length), i < j → CoordOK v scale pairs[i].1) ∧
      coordLoop v scale k pairs am = .ok ⟨false,
        [if pairs[j].1.length ≠ v.ndim then Msg.coordLength (k + j) else Msg.coordOutOfBounds (k + j)]⟩ := by
  induction pairs generalizing k am with
  | nil => obtain ⟨p, hp, -⟩ := hbad; simp at hp
  | cons p rest ih =>
    obtain ⟨coord, id⟩ := p
    by_cases hok : CoordOK v scale coord
    · -- this pair is fine: the loop continues
      have hbad' : ∃ p ∈ rest, ¬ CoordOK v scale p.1 := by
        obtain ⟨q, hq, hnq⟩ := hbad
        rcases List.mem_cons.1 hq with rfl | hq
        · exact absurd hok hnq
        · exact ⟨q, hq, hnq⟩
      obtain ⟨hlen, hin⟩ := hok
      obtain ⟨l, hl, -, -⟩ := npIndex_inrange hwf hin
      obtain ⟨j, hj, hnj, hbefore, hres⟩ := ih (k + 1) (am || l != id) hbad'
      refine ⟨j + 1, by simpa using hj, by simpa using hnj, ?_, ?_⟩
      · intro i hi hij
        cases i with
        | zero => exact ⟨hlen, hin⟩
        | succ i => simpa using hbefore i (by simpa using hi) (by omega)
      · simp only [coordLoop, hlen, ne_eq, not_true_eq_false, ↓reduceIte,
          scaleCoord_eq coord scale (hlen.trans hs.symm), (allInRange_iff _ _).2 hin, Bool.not_true,
          Bool.false_eq_true, hl, hres, List.getElem_cons_succ]
        have : k + 1 + j = k + (j + 1) := by omega
        rw [this]
    · refine ⟨0, by simp, by simpa using hok, by intro i _ hi; omega, ?_⟩
      simp only [coordLoop, List.getElem_cons_zero, Nat.add_zero]
      by_cases hlen : coord.length = v.ndim
      · have hnin : ¬ CoordIn (List.zipWith Dy.mul coord scale) v.shape := fun h => hok ⟨hlen, h⟩
        have : allInRange (List.zipWith Dy.mul coord scale) v.shape = false := by
          cases h : allInRange (List.zipWith Dy.mul coord scale) v.shape with
          | false => rfl
          | true => exact absurd ((allInRange_iff _ _).1 h) hnin
        simp only [hlen, ne_eq, not_true_eq_false, ↓reduceIte,
          scaleCoord_eq coord scale (hlen.trans hs.symm), this, Bool.not_false]
      · simp only [hlen, ne_eq, not_false_eq_true, ↓reduceIte]



/-- the last message of `has_seg_ids_at_time_points` names the *first* out-of-range time point;
everything before it is a "missing label" message -/
theorem timeLoop_first_bad (v : Vol) (ti : Nat) (pairs : List (Int × Int)) (rest : List Int)
    (errs : List Msg) (am : Bool) (hbad : ∃ t ∈ rest, ¬ TimeIn v ti t) :
    ∃ j, ∃ hj : j < rest.length, ¬ TimeIn v ti rest[j] ∧
      (∀ i (hi : i < rest.length), i < j → TimeIn v ti rest[i]) ∧
      ∃ mid, timeLoop v ti pairs rest errs am = .ok ⟨false, errs ++ mid ++ [Msg.timeOutOfBounds rest[j]]⟩ ∧
        ∀ m ∈ mid, ∃ id t, m = Msg.missingLabel id t := by
  induction rest generalizing errs am with
  | nil => obtain ⟨t, ht, -⟩ := hbad; simp at ht
  | cons t rest ih =>
    by_cases hin : TimeIn v ti t
    · have hbad' : ∃ t ∈ rest, ¬ TimeIn v ti t := by
        obtain ⟨q, hq, hnq⟩ := hbad
        rcases List.mem_cons.1 hq with rfl | hq
        · exact absurd hin hnq
        · exact ⟨q, hq, hnq⟩
      obtain ⟨n, hn, h0, h1⟩ := hin
      obtain ⟨labels, hl, -⟩ := npTakeLabels_inrange hn h0 h1
      obtain ⟨j, hj, hnj, hbefore, mid, hres, hmid⟩ := ih
        (errs ++ ((groupAt pairs t).filter (fun id => !labels.contains id)).map (fun id => Msg.missingLabel id t))
        (am || !((groupAt pairs t).filter (fun id => !labels.contains id)).isEmpty) hbad'
      refine ⟨j + 1, by simpa using hj, by simpa using hnj, ?_,
        ((groupAt pairs t).filter (fun id => !labels.contains id)).map (fun id => Msg.missingLabel id t) ++ mid,
        ?_, ?_⟩
      · intro i hi hij
        cases i with
        | zero => exact ⟨n, hn, h0, h1⟩
        | succ i => simpa using hbefore i (by simpa using hi) (by omega)
      · simp only [timeLoop, hn, h0, h1, and_self, not_true_eq_false, ↓reduceIte, hl, hres,
          List.getElem_cons_succ, List.append_assoc]
      · intro m hm
        rcases List.mem_append.1 hm with hm | hm
        · obtain ⟨id, -, rfl⟩ := List.mem_map.1 hm
          exact ⟨id, t, rfl⟩
        · exact hmid m hm
    · refine ⟨0, by simp, by simpa using hin, by intro i _ hi; omega, [], ?_, by simp⟩
      simp only [timeLoop, List.getElem_cons_zero, List.append_nil]
      cases hn : v.shape[ti]? with
      | none => rfl
      | some n =>
        have : ¬ (0 ≤ t ∧ t < (n : Int)) := fun h => hin ⟨n, hn, h.1, h.2⟩
        simp only [this, not_false_eq_true, ↓reduceIte]

end Geff.Seg
