import GeffProofs.TrackMate3
/-! # Helper lemmas for C16 (4): the graph `_build_data` returns, as a function of the document
(`finalGraph`, `keepSpot`, `trackIdOf`, `lone`). -/

namespace Geff.TrackMate

theorem fullGraph_keys (d : Doc) : keys (fullGraph d) = d.spots.map spotId := by
  simp [keys, fullGraph, stamped, baseNodes, List.map_map, Function.comp_def]

theorem fullGraph_closed (d : Doc) (h : WF d) : Closed (fullGraph d) := by
  intro e he
  simp only [fullGraph, stamped, List.mem_map] at he
  obtain ⟨x, hx, rfl⟩ := he
  have := h.edgesOk.ends x hx
  rw [fullGraph_keys]
  simpa [baseNodes, edgeEntry, List.map_map, Function.comp_def] using this

theorem degree_zero (md : List Feat) (nodes : List (Nat × Attrs)) (L : List (Edge × Val)) (n : Nat) :
    ((({ nodes := nodes, edges := L.map (edgeEntry md) } : Graph).degree n) == 0) = L.all (fun x => !touches x.1 n) := by
  rw [Bool.eq_iff_iff]
  unfold Graph.degree
  simp only [beq_iff_eq, Nat.add_eq_zero_iff, List.length_eq_zero_iff, List.filter_eq_nil_iff, List.mem_map,
    List.all_eq_true, Bool.not_eq_eq_eq_not, Bool.not_true, touches, Bool.or_eq_false_iff, beq_eq_false_iff_ne]
  constructor
  · rintro ⟨h1, h2⟩ x hx
    exact ⟨by simpa [edgeEntry] using h1 (edgeEntry md x) ⟨x, hx, rfl⟩,
           by simpa [edgeEntry] using h2 (edgeEntry md x) ⟨x, hx, rfl⟩⟩
  · intro h
    constructor
    · rintro e ⟨x, hx, rfl⟩; simpa [edgeEntry] using (h x hx).1
    · rintro e ⟨x, hx, rfl⟩; simpa [edgeEntry] using (h x hx).2

theorem aget_stamp (a : Attrs) (L : List (Edge × Val)) (n : Nat) (h : "TRACK_ID" ∉ a.map (·.1)) :
    aget? (a ++ stampOf L n) "TRACK_ID" = (L.find? (fun x => touches x.1 n)).map (·.2) := by
  rw [aget_append_right _ _ _ h]
  unfold stampOf
  cases L.find? (fun x => touches x.1 n) with
  | none => rfl
  | some x => simp [aget?]

theorem notKept_eq (keep : List Int) (a : Attrs) : notKept keep a = !listed keep (aget? a "TRACK_ID") := by
  unfold notKept listed
  cases h : aget? a "TRACK_ID" with
  | none => rfl
  | some v =>
    cases v with
    | i t => rfl
    | f t => cases t <;> rfl
    | s _ => rfl
    | roi _ => rfl
    | none => rfl

theorem discard_fullGraph (d : Doc) (h : WF d) (ds dt : Bool) :
    discard d.filtered ds dt (fullGraph d) = finalGraph d ds dt := by
  have hn : (keys (fullGraph d)).Nodup := by rw [fullGraph_keys]; exact h.idsNodup
  rw [discard_closed _ _ _ _ hn (fullGraph_closed d h)]
  unfold finalGraph
  congr 1
  apply List.filter_congr
  intro p hp
  simp only [fullGraph, stamped, List.mem_map] at hp
  obtain ⟨q, hq, rfl⟩ := hp
  obtain ⟨s, hs, rfl⟩ := List.mem_map.1 hq
  have hdeg : ((fullGraph d).degree (spotId s) == 0) = lone d (spotId s) := degree_zero _ _ _ _
  have htid : aget? (spotAttrs (attrsMd d) s ++ stampOf (tagged (attrsMd d) d.tracks) (spotId s)) "TRACK_ID"
      = trackIdOf d (spotId s) := aget_stamp _ _ _ (h.noTrackIdAttr s hs)
  simp only [hdeg, keepSpot]
  cases hf : d.filtered with
  | none => simp
  | some keep => simp [notKept_eq, htid]

theorem buildData_final (d : Doc) (h : WF d) (ds dt : Bool) :
    buildData d ds dt = .ok (finalGraph d ds dt, d.spots.any (fun s => s.roi.isSome)) := by
  rw [buildData_closed d h, discard_fullGraph d h]

theorem finalGraph_nodes (d : Doc) (ds dt : Bool) :
    (finalGraph d ds dt).nodes.map (·.1) = (d.spots.map spotId).filter (keepSpot d ds dt) := by
  simp only [finalGraph, restrictTo, fullGraph, stamped, baseNodes, List.map_map]
  induction d.spots with
  | nil => rfl
  | cons s rest ih =>
    simp only [List.map_cons, List.filter_cons, Function.comp]
    split <;> simp_all

end Geff.TrackMate
