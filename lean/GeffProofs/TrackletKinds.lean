import GeffProofs.Tracklet
import GeffProofs.TrackletRename
/-! Which verdict (= which message) the loop body of `validate_tracklets` produces, for EVERY
digraph (cycles allowed): `checkTracklet` is a decision list over five Prop-level conditions on the
class of tracklet id `t`.  Also: soundness of the Kahn test (`kahn … = true` ⇒ no directed cycle),
which `GeffProofs/Tracklet.lean` did not need. -/
set_option linter.unusedSectionVars false
namespace Geff.Tracklet
open Geff.Graph Geff.Lineage Relation
variable {α L : Type} [DecidableEq α] [DecidableEq L]

/-- every edge between two nodes of class `t` is a tracklet edge (the only edge out of its source
and into its target in the whole graph): the class does not run through a division or merge -/
def InnerT (nl : List (α × L)) (es : List (α × α)) (t : L) : Prop := ∀ a b, ES nl es t a b → T es a b
/-- the class of `t` contains a directed cycle of edges between its nodes -/
def CycleIn (nl : List (α × L)) (es : List (α × α)) (t : L) : Prop := ∃ a, TransGen (ES nl es t) a a
/-- the class of `t` is connected through edges between its nodes -/
def ConnIn (nl : List (α × L)) (es : List (α × α)) (t : L) : Prop :=
  ∀ a b, (a, t) ∈ nl → (b, t) ∈ nl → ReflTransGen (AdjS nl es t) a b
/-- a tracklet edge `p → s` enters the class of `t` from outside -/
def BackExt (nl : List (α × L)) (es : List (α × α)) (t : L) (p : α) : Prop :=
  ∃ s, (s, t) ∈ nl ∧ T es p s ∧ (p, t) ∉ nl
/-- a tracklet edge `e → n` leaves the class of `t` -/
def FwdExt (nl : List (α × L)) (es : List (α × α)) (t : L) (n : α) : Prop :=
  ∃ e, (e, t) ∈ nl ∧ T es e n ∧ (n, t) ∉ nl

/-! ## Kahn's test is sound -/
theorem kahn_no_cycle (es : List (α × α)) :
    ∀ (n : Nat) (vs : List α), kahn es n vs = true →
      ∀ a, ¬ TransGen (fun x y => (x, y) ∈ es ∧ x ∈ vs ∧ y ∈ vs) a a := by
  intro n
  induction n with
  | zero =>
    intro vs h a hc
    have : vs = [] := by simpa [kahn] using h
    subst this
    rcases TransGen.head'_iff.1 hc with ⟨c, hac, _⟩
    simp at hac
  | succ n ih =>
    intro vs h a hc
    unfold kahn at h
    split at h
    · have : vs = [] := by simpa using h
      subst this
      rcases TransGen.head'_iff.1 hc with ⟨c, hac, _⟩
      simp at hac
    · rename_i v hsome
      have hsrc := List.find?_some hsome
      simp only [Bool.not_eq_true', List.any_eq_false, decide_eq_true_eq, not_and] at hsrc
      have hnov : ∀ x y, ((x, y) ∈ es ∧ x ∈ vs ∧ y ∈ vs) → y ≠ v := by
        rintro x y ⟨hxy, hx, _⟩ rfl
        exact hsrc (x, y) hxy rfl hx
      have key : ∀ x y, TransGen (fun x y => (x, y) ∈ es ∧ x ∈ vs ∧ y ∈ vs) x y → x ≠ v →
          TransGen (fun x y => (x, y) ∈ es ∧ x ∈ vs.filter (· ≠ v) ∧ y ∈ vs.filter (· ≠ v)) x y ∧ y ≠ v := by
        intro x y hxy hx
        induction hxy with
        | single hab =>
          have hb := hnov _ _ hab
          exact ⟨TransGen.single ⟨hab.1, List.mem_filter.2 ⟨hab.2.1, by simpa using hx⟩,
            List.mem_filter.2 ⟨hab.2.2, by simpa using hb⟩⟩, hb⟩
        | tail _ hbc ih2 =>
          obtain ⟨hp, hb⟩ := ih2
          have hc' := hnov _ _ hbc
          exact ⟨hp.tail ⟨hbc.1, List.mem_filter.2 ⟨hbc.2.1, by simpa using hb⟩,
            List.mem_filter.2 ⟨hbc.2.2, by simpa using hc'⟩⟩, hc'⟩
      have hav : a ≠ v := by
        rcases TransGen.tail'_iff.1 hc with ⟨c, _, hca⟩
        exact hnov _ _ hca
      exact ih _ h a (key a a hc hav).1

/-- the Kahn test on the class of `t` passes iff the class contains no directed cycle -/
theorem kahn_iff_no_cycle (nl : List (α × L)) (es : List (α × α)) (t : L) :
    kahn (inner es (nodesWith nl t)) (nodesWith nl t).length (nodesWith nl t) = true ↔
      ¬ CycleIn nl es t := by
  constructor
  · rintro h ⟨a, ha⟩
    refine kahn_no_cycle _ _ _ h a (TransGen.mono (fun x y hxy => ?_) _ _ ha)
    have hm := (mem_S_iff nl es t x y).2 hxy
    exact ⟨hm, ((mem_inner es _ x y).1 hm).2⟩
  · intro h
    have hno : ∀ a, ¬ TransGen (E (inner es (nodesWith nl t))) a a := by
      intro a ha
      exact h ⟨a, TransGen.mono (fun x y hxy => (mem_S_iff nl es t x y).1 hxy) _ _ ha⟩
    obtain ⟨rank, hr⟩ := (ranked_iff_no_cycle _).2 hno
    exact kahn_of_rank _ rank hr _ _ (Nat.le_refl _)

/-! ## steps 1 and 2: "branch or merge detected" -/
theorem innerT_of_step2 (nl : List (α × L)) (es : List (α × α)) (t : L)
    (h : ¬ (inner es (nodesWith nl t)).any
      (fun e => (succs es e.1).length ≠ 1 ∨ (preds es e.2).length ≠ 1) = true) : InnerT nl es t := by
  simp only [List.any_eq_true, decide_eq_true_eq, not_exists, not_and, not_or, ne_eq,
    Decidable.not_not] at h
  intro a b hab
  have := h (a, b) ((mem_S_iff nl es t a b).2 hab)
  exact T_of_lengths es a b hab.1 this.1 this.2

theorem step1_false_of_innerT (nl : List (α × L)) (es : List (α × α)) (t : L) (h : InnerT nl es t) :
    ¬ (nodesWith nl t).any (fun v => 1 < (preds (inner es (nodesWith nl t)) v).length ∨
      1 < (succs (inner es (nodesWith nl t)) v).length) = true := by
  simp only [List.any_eq_true, decide_eq_true_eq, not_exists, not_and, not_or]
  intro v _
  constructor
  · rw [preds_le_one_iff]
    intro b c hb hc
    have hb' := h b v ((mem_S_iff nl es t b v).1 hb)
    have hc' := (mem_S_iff nl es t c v).1 hc
    exact (hb'.2.2 c hc'.1).symm
  · rw [succs_le_one_iff]
    intro b c hb hc
    have hb' := h v b ((mem_S_iff nl es t v b).1 hb)
    have hc' := (mem_S_iff nl es t v c).1 hc
    exact (hb'.2.1 c hc'.1).symm

theorem step2_false_of_innerT (nl : List (α × L)) (es : List (α × α)) (t : L) (h : InnerT nl es t) :
    ¬ (inner es (nodesWith nl t)).any
      (fun e => (succs es e.1).length ≠ 1 ∨ (preds es e.2).length ≠ 1) = true := by
  simp only [List.any_eq_true, decide_eq_true_eq, not_exists, not_and, not_or, ne_eq,
    Decidable.not_not]
  intro e he
  have hT := h e.1 e.2 ((mem_S_iff nl es t e.1 e.2).1 he)
  exact ⟨(succs_length_one_iff es _ _ hT.1).2 hT.2.1, (preds_length_one_iff es _ _ hT.1).2 hT.2.2⟩

/-! ## the ends -/
/-- `s` is a node of the class without predecessor inside the class -/
def IsStart (nl : List (α × L)) (es : List (α × α)) (t : L) (s : α) : Prop :=
  (s, t) ∈ nl ∧ ∀ w, ¬ ES nl es t w s
def IsEnd (nl : List (α × L)) (es : List (α × α)) (t : L) (e : α) : Prop :=
  (e, t) ∈ nl ∧ ∀ w, ¬ ES nl es t e w

theorem checkEnds_shape (es : List (α × α)) (s e : α) :
    checkEnds es s e = .ok ∨ (∃ p, checkEnds es s e = .extendBack p) ∨
      (∃ n, checkEnds es s e = .extendFwd n) := by
  unfold checkEnds
  repeat' split
  all_goals first
    | exact Or.inl rfl
    | exact Or.inr (Or.inl ⟨_, rfl⟩)
    | exact Or.inr (Or.inr ⟨_, rfl⟩)

theorem checkEnds_back_iff (es : List (α × α)) (s e p : α) :
    checkEnds es s e = .extendBack p ↔ preds es s = [p] ∧ (succs es p).length = 1 := by
  unfold checkEnds
  constructor
  · intro h
    split at h
    · rename_i p' hp'
      split at h
      · rename_i hl; cases h; exact ⟨hp', hl⟩
      · split at h
        · split at h <;> cases h
        · cases h
    · split at h
      · split at h <;> cases h
      · cases h
  · rintro ⟨h1, h2⟩
    rw [h1]; simp only; rw [if_pos h2]

theorem checkEnds_fwd_iff (es : List (α × α)) (s e n : α) :
    checkEnds es s e = .extendFwd n ↔
      (¬ ∃ p, preds es s = [p] ∧ (succs es p).length = 1) ∧
      succs es e = [n] ∧ (preds es n).length = 1 := by
  have hfwd : ∀ n, (match succs es e with
        | [n] => if (preds es n).length = 1 then Verdict.extendFwd n else Verdict.ok
        | _ => Verdict.ok) = Verdict.extendFwd n ↔ succs es e = [n] ∧ (preds es n).length = 1 := by
    intro n
    constructor
    · intro h
      split at h
      · rename_i n' hn'
        split at h
        · rename_i hl; cases h; exact ⟨hn', hl⟩
        · cases h
      · cases h
    · rintro ⟨h1, h2⟩
      rw [h1]; simp only; rw [if_pos h2]
  unfold checkEnds
  constructor
  · intro h
    split at h
    · rename_i p' hp'
      split at h
      · cases h
      · rename_i hl
        refine ⟨?_, (hfwd n).1 h⟩
        rintro ⟨q, hq, hql⟩
        rw [hp'] at hq; cases hq; exact hl hql
    · rename_i hno
      refine ⟨?_, (hfwd n).1 h⟩
      rintro ⟨q, hq, _⟩
      exact hno q hq
  · rintro ⟨h1, h2⟩
    split
    · rename_i p' hp'
      split
      · rename_i hl; exact absurd ⟨p', hp', hl⟩ h1
      · exact (hfwd n).2 h2
    · exact (hfwd n).2 h2

/-- at the start node the code found, "extend backward to `p`" ⇔ a tracklet edge enters the class
from `p` -/
theorem back_iff (nl : List (α × L)) (es : List (α × α)) (t : L) (hI : InnerT nl es t)
    (hC : ConnIn nl es t) (s : α) (hs : IsStart nl es t s) (p : α) :
    (preds es s = [p] ∧ (succs es p).length = 1) ↔ BackExt nl es t p := by
  constructor
  · rintro ⟨hp, hl⟩
    obtain ⟨hps, hall⟩ := (preds_eq_singleton_iff es p s).1 hp
    refine ⟨s, hs.1, ⟨hps, (succs_length_one_iff es p s hps).1 hl, hall⟩, fun hpt => ?_⟩
    exact hs.2 p ⟨hps, hpt, hs.1⟩
  · rintro ⟨s', hs't, hT, hpt⟩
    have hs'src : ∀ w, (w, s') ∉ inner es (nodesWith nl t) := by
      intro w hw
      have hw' := (mem_S_iff nl es t w s').1 hw
      have : w = p := hT.2.2 w hw'.1
      subst this; exact hpt hw'.2.1
    have hssrc : ∀ w, (w, s) ∉ inner es (nodesWith nl t) := fun w hw =>
      hs.2 w ((mem_S_iff nl es t w s).1 hw)
    have hfun : ∀ x y z, (y, x) ∈ inner es (nodesWith nl t) → (z, x) ∈ inner es (nodesWith nl t) → y = z := by
      intro x y z hy hz
      have hy' := hI y x ((mem_S_iff nl es t y x).1 hy)
      exact (hy'.2.2 z ((mem_S_iff nl es t z x).1 hz).1).symm
    have : s = s' := source_unique _ hfun s' s hs'src hssrc
      ((conn_S_iff nl es t s' s).2 (hC s' s hs't hs.1))
    subst this
    exact ⟨(preds_eq_singleton_iff es p s).2 ⟨hT.1, hT.2.2⟩, (succs_length_one_iff es p s hT.1).2 hT.2.1⟩

theorem fwd_iff (nl : List (α × L)) (es : List (α × α)) (t : L) (hI : InnerT nl es t)
    (hC : ConnIn nl es t) (e : α) (he : IsEnd nl es t e) (n : α) :
    (succs es e = [n] ∧ (preds es n).length = 1) ↔ FwdExt nl es t n := by
  constructor
  · rintro ⟨hn, hl⟩
    obtain ⟨hen, hall⟩ := (succs_eq_singleton_iff es e n).1 hn
    refine ⟨e, he.1, ⟨hen, hall, (preds_length_one_iff es e n hen).1 hl⟩, fun hnt => ?_⟩
    exact he.2 n ⟨hen, he.1, hnt⟩
  · rintro ⟨e', he't, hT, hnt⟩
    have he'snk : ∀ w, (e', w) ∉ inner es (nodesWith nl t) := by
      intro w hw
      have hw' := (mem_S_iff nl es t e' w).1 hw
      have : w = n := hT.2.1 w hw'.1
      subst this; exact hnt hw'.2.2
    have hesnk : ∀ w, (e, w) ∉ inner es (nodesWith nl t) := fun w hw =>
      he.2 w ((mem_S_iff nl es t e w).1 hw)
    have hfun : ∀ x y z, (x, y) ∈ inner es (nodesWith nl t) → (x, z) ∈ inner es (nodesWith nl t) → y = z := by
      intro x y z hy hz
      have hy' := hI x y ((mem_S_iff nl es t x y).1 hy)
      exact (hy'.2.1 z ((mem_S_iff nl es t x z).1 hz).1).symm
    have : e = e' := sink_unique _ hfun e' e he'snk hesnk
      ((conn_S_iff nl es t e' e).2 (hC e' e he't he.1))
    subst this
    exact ⟨(succs_eq_singleton_iff es e n).2 ⟨hT.1, hT.2.1⟩, (preds_length_one_iff es e n hT.1).2 hT.2.2⟩

/-! ## the decision list -/
/-- the control flow of the loop body, for a tracklet id that labels some node, on any digraph -/
theorem checkTracklet_cases (nl : List (α × L)) (es : List (α × α)) (t : L)
    (hl : ∃ u, (u, t) ∈ nl) :
    (¬ InnerT nl es t ∧ checkTracklet nl es t = .branchMerge) ∨
    (InnerT nl es t ∧ CycleIn nl es t ∧ checkTracklet nl es t = .cycle) ∨
    (InnerT nl es t ∧ ¬ CycleIn nl es t ∧ ¬ ConnIn nl es t ∧ checkTracklet nl es t = .notConnected) ∨
    (InnerT nl es t ∧ ¬ CycleIn nl es t ∧ ConnIn nl es t ∧
      ∃ s e, IsStart nl es t s ∧ IsEnd nl es t e ∧ checkTracklet nl es t = checkEnds es s e) := by
  obtain ⟨u, hu⟩ := hl
  have hne : nodesWith nl t ≠ [] := List.ne_nil_of_mem ((mem_nodesWith nl t u).2 hu)
  have hV : ∀ e ∈ inner es (nodesWith nl t), e.1 ∈ nodesWith nl t ∧ e.2 ∈ nodesWith nl t := by
    intro e he; exact ((mem_inner es _ e.1 e.2).1 he).2
  obtain ⟨r, rest, hC⟩ := List.exists_cons_of_ne_nil hne
  by_cases hI : InnerT nl es t
  swap
  · left
    refine ⟨hI, ?_⟩
    have hb2 : (inner es (nodesWith nl t)).any
        (fun e => (succs es e.1).length ≠ 1 ∨ (preds es e.2).length ≠ 1) = true :=
      Classical.byContradiction fun h => hI (innerT_of_step2 nl es t h)
    unfold checkTracklet
    simp only
    by_cases hb1 : (nodesWith nl t).any (fun v => 1 < (preds (inner es (nodesWith nl t)) v).length ∨
      1 < (succs (inner es (nodesWith nl t)) v).length) = true
    · rw [if_pos hb1]
    · rw [if_neg hb1, if_pos hb2]
  right
  have hb1 := step1_false_of_innerT nl es t hI
  have hb2 := step2_false_of_innerT nl es t hI
  by_cases hcyc : CycleIn nl es t
  · left
    refine ⟨hI, hcyc, ?_⟩
    have hk : ¬ kahn (inner es (nodesWith nl t)) (nodesWith nl t).length (nodesWith nl t) = true :=
      fun h => (kahn_iff_no_cycle nl es t).1 h hcyc
    unfold checkTracklet
    simp only
    rw [if_neg hb1, if_neg hb2, if_pos (by simpa using hk)]
  right
  have hk : kahn (inner es (nodesWith nl t)) (nodesWith nl t).length (nodesWith nl t) = true :=
    (kahn_iff_no_cycle nl es t).2 hcyc
  have hconn_iff : (∀ x ∈ nodesWith nl t, x ∈ component (inner es (nodesWith nl t)) (nodesWith nl t) r) ↔
      ConnIn nl es t := by
    have hr : (r, t) ∈ nl := by apply (mem_nodesWith nl t r).1; rw [hC]; simp
    constructor
    · intro h4 a b ha hb
      have ha' := (mem_component_iff _ _ r hV a).1 (h4 a ((mem_nodesWith nl t a).2 ha))
      have hb' := (mem_component_iff _ _ r hV b).1 (h4 b ((mem_nodesWith nl t b).2 hb))
      exact (conn_S_iff nl es t a b).1 ((conn_symm _ ha').trans hb')
    · intro h x hx
      rw [mem_component_iff _ _ r hV x, conn_S_iff]
      exact h r x hr ((mem_nodesWith nl t x).1 hx)
  by_cases hconn : ConnIn nl es t
  swap
  · left
    refine ⟨hI, hcyc, hconn, ?_⟩
    have h4 : ¬ (nodesWith nl t).all (· ∈ component (inner es (nodesWith nl t)) (nodesWith nl t) r) = true := by
      intro h; apply hconn; apply hconn_iff.1
      simpa using h
    have h4' : (!(nodesWith nl t).all (· ∈ component (inner es (nodesWith nl t)) (nodesWith nl t) r)) = true := by
      rw [Bool.not_eq_true']; exact Bool.eq_false_iff.2 h4
    unfold checkTracklet
    simp only
    rw [if_neg hb1, if_neg hb2, if_neg (by simpa using hk)]
    rw [hC] at h4' ⊢
    simp only
    rw [if_pos h4']
  right
  refine ⟨hI, hcyc, hconn, ?_⟩
  have h4 : (nodesWith nl t).all (· ∈ component (inner es (nodesWith nl t)) (nodesWith nl t) r) = true := by
    have := hconn_iff.2 hconn
    simpa using this
  have hlen : (nodesWith nl t).length = rest.length + 1 := by rw [hC]; rfl
  have hsrc : ∃ s, (nodesWith nl t).find?
      (fun v => (preds (inner es (nodesWith nl t)) v).length = 0) = some s := by
    obtain ⟨v, hv, hvs⟩ := source_of_kahn _ rest.length _ hne (hlen ▸ hk)
    apply Option.isSome_iff_exists.1
    rw [List.find?_isSome]
    refine ⟨v, hv, ?_⟩
    simp only [decide_eq_true_eq]
    rw [preds_length_zero_iff]
    intro w hw
    exact hvs (w, v) hw rfl (hV _ hw).1
  have hsnk : ∃ e, (nodesWith nl t).find?
      (fun v => (succs (inner es (nodesWith nl t)) v).length = 0) = some e := by
    obtain ⟨v, hv, hvs⟩ := sink_of_kahn _ _ _ hne hk
    apply Option.isSome_iff_exists.1
    rw [List.find?_isSome]
    refine ⟨v, hv, ?_⟩
    simp only [decide_eq_true_eq]
    rw [succs_length_zero_iff]
    intro w hw
    exact hvs (v, w) hw rfl (hV _ hw).2
  obtain ⟨s, hs⟩ := hsrc
  obtain ⟨e, he⟩ := hsnk
  have hs' := List.find?_some hs
  have he' := List.find?_some he
  simp only [decide_eq_true_eq] at hs' he'
  have hsC : (s, t) ∈ nl := (mem_nodesWith nl t s).1 (List.mem_of_find?_eq_some hs)
  have heC : (e, t) ∈ nl := (mem_nodesWith nl t e).1 (List.mem_of_find?_eq_some he)
  refine ⟨s, e, ⟨hsC, fun w hw => (preds_length_zero_iff _ s).1 hs' w ((mem_S_iff nl es t w s).2 hw)⟩,
    ⟨heC, fun w hw => (succs_length_zero_iff _ e).1 he' w ((mem_S_iff nl es t e w).2 hw)⟩, ?_⟩
  unfold checkTracklet
  simp only
  rw [if_neg hb1, if_neg hb2, if_neg (by simpa using hk)]
  have h4' : ¬ (!(nodesWith nl t).all (· ∈ component (inner es (nodesWith nl t)) (nodesWith nl t) r)) = true := by
    rw [h4]; simp
  rw [hC] at h4' hs he ⊢
  simp only
  rw [if_neg h4', hs, he]


/-! ## which verdict, exactly (any digraph; `t` labels some node) -/
theorem not_innerT_iff (nl : List (α × L)) (es : List (α × α)) (t : L) :
    ¬ InnerT nl es t ↔ ∃ a b, ES nl es t a b ∧ ¬ T es a b := by
  unfold InnerT
  constructor
  · intro h
    refine Classical.byContradiction fun hno => h fun a b hab => ?_
    exact Classical.byContradiction fun hT => hno ⟨a, b, hab, hT⟩
  · rintro ⟨a, b, hab, hT⟩ h
    exact hT (h a b hab)

theorem checkEnds_ne_of_shape (es : List (α × α)) (s e : α) (v : Verdict α)
    (h1 : v ≠ .ok) (h2 : ∀ p, v ≠ .extendBack p) (h3 : ∀ n, v ≠ .extendFwd n) :
    checkEnds es s e ≠ v := by
  intro h
  rcases checkEnds_shape es s e with h' | ⟨p, h'⟩ | ⟨n, h'⟩
  · exact h1 (h ▸ h')
  · exact h2 p (h ▸ h')
  · exact h3 n (h ▸ h')

theorem checkTracklet_branchMerge_iff (nl : List (α × L)) (es : List (α × α)) (t : L)
    (hl : ∃ u, (u, t) ∈ nl) : checkTracklet nl es t = .branchMerge ↔ ¬ InnerT nl es t := by
  rcases checkTracklet_cases nl es t hl with ⟨h1, h2⟩ | ⟨h1, _, h3⟩ | ⟨h1, _, _, h4⟩ | ⟨h1, _, _, s, e, _, _, h4⟩
  · exact ⟨fun _ => h1, fun _ => h2⟩
  · rw [h3]; exact ⟨fun h => (by cases h), fun h => absurd h1 h⟩
  · rw [h4]; exact ⟨fun h => (by cases h), fun h => absurd h1 h⟩
  · rw [h4]
    exact ⟨fun h => absurd h (checkEnds_ne_of_shape es s e _ (by simp) (by simp) (by simp)),
      fun h => absurd h1 h⟩

theorem checkTracklet_cycle_iff (nl : List (α × L)) (es : List (α × α)) (t : L)
    (hl : ∃ u, (u, t) ∈ nl) :
    checkTracklet nl es t = .cycle ↔ InnerT nl es t ∧ CycleIn nl es t := by
  rcases checkTracklet_cases nl es t hl with ⟨h1, h2⟩ | ⟨h1, h2, h3⟩ | ⟨_, h2, _, h4⟩ | ⟨_, h2, _, s, e, _, _, h4⟩
  · rw [h2]; exact ⟨fun h => (by cases h), fun h => absurd h.1 h1⟩
  · exact ⟨fun _ => ⟨h1, h2⟩, fun _ => h3⟩
  · rw [h4]; exact ⟨fun h => (by cases h), fun h => absurd h.2 h2⟩
  · rw [h4]
    exact ⟨fun h => absurd h (checkEnds_ne_of_shape es s e _ (by simp) (by simp) (by simp)),
      fun h => absurd h.2 h2⟩

theorem checkTracklet_notConnected_iff (nl : List (α × L)) (es : List (α × α)) (t : L)
    (hl : ∃ u, (u, t) ∈ nl) :
    checkTracklet nl es t = .notConnected ↔ InnerT nl es t ∧ ¬ CycleIn nl es t ∧ ¬ ConnIn nl es t := by
  rcases checkTracklet_cases nl es t hl with ⟨h1, h2⟩ | ⟨_, h2, h3⟩ | ⟨h1, h2, h3, h4⟩ | ⟨_, _, h3, s, e, _, _, h4⟩
  · rw [h2]; exact ⟨fun h => (by cases h), fun h => absurd h.1 h1⟩
  · rw [h3]; exact ⟨fun h => (by cases h), fun h => absurd h2 h.2.1⟩
  · exact ⟨fun _ => ⟨h1, h2, h3⟩, fun _ => h4⟩
  · rw [h4]
    exact ⟨fun h => absurd h (checkEnds_ne_of_shape es s e _ (by simp) (by simp) (by simp)),
      fun h => absurd h3 h.2.2⟩

theorem checkTracklet_extendBack_iff (nl : List (α × L)) (es : List (α × α)) (t : L)
    (hl : ∃ u, (u, t) ∈ nl) (p : α) :
    checkTracklet nl es t = .extendBack p ↔
      InnerT nl es t ∧ ¬ CycleIn nl es t ∧ ConnIn nl es t ∧ BackExt nl es t p := by
  rcases checkTracklet_cases nl es t hl with ⟨h1, h2⟩ | ⟨_, h2, h3⟩ | ⟨_, _, h3, h4⟩ | ⟨h1, h2, h3, s, e, hs, _, h4⟩
  · rw [h2]; exact ⟨fun h => (by cases h), fun h => absurd h.1 h1⟩
  · rw [h3]; exact ⟨fun h => (by cases h), fun h => absurd h2 h.2.1⟩
  · rw [h4]; exact ⟨fun h => (by cases h), fun h => absurd h.2.2.1 h3⟩
  · rw [h4, checkEnds_back_iff, back_iff nl es t h1 h3 s hs p]
    exact ⟨fun h => ⟨h1, h2, h3, h⟩, fun h => h.2.2.2⟩

theorem checkTracklet_extendFwd_iff (nl : List (α × L)) (es : List (α × α)) (t : L)
    (hl : ∃ u, (u, t) ∈ nl) (n : α) :
    checkTracklet nl es t = .extendFwd n ↔
      InnerT nl es t ∧ ¬ CycleIn nl es t ∧ ConnIn nl es t ∧ (∀ p, ¬ BackExt nl es t p) ∧
        FwdExt nl es t n := by
  rcases checkTracklet_cases nl es t hl with ⟨h1, h2⟩ | ⟨_, h2, h3⟩ | ⟨_, _, h3, h4⟩ | ⟨h1, h2, h3, s, e, hs, he, h4⟩
  · rw [h2]; exact ⟨fun h => (by cases h), fun h => absurd h.1 h1⟩
  · rw [h3]; exact ⟨fun h => (by cases h), fun h => absurd h2 h.2.1⟩
  · rw [h4]; exact ⟨fun h => (by cases h), fun h => absurd h.2.2.1 h3⟩
  · rw [h4, checkEnds_fwd_iff, fwd_iff nl es t h1 h3 e he n,
      exists_congr (back_iff nl es t h1 h3 s hs)]
    exact ⟨fun h => ⟨h1, h2, h3, fun p hp => h.1 ⟨p, hp⟩, h.2⟩,
      fun h => ⟨fun ⟨p, hp⟩ => h.2.2.2.1 p hp, h.2.2.2.2⟩⟩

theorem checkTracklet_ok_iff (nl : List (α × L)) (es : List (α × α)) (t : L)
    (hl : ∃ u, (u, t) ∈ nl) :
    checkTracklet nl es t = .ok ↔
      InnerT nl es t ∧ ¬ CycleIn nl es t ∧ ConnIn nl es t ∧ (∀ p, ¬ BackExt nl es t p) ∧
        (∀ n, ¬ FwdExt nl es t n) := by
  rcases checkTracklet_cases nl es t hl with ⟨h1, h2⟩ | ⟨_, h2, h3⟩ | ⟨_, _, h3, h4⟩ | ⟨h1, h2, h3, s, e, hs, he, h4⟩
  · rw [h2]; exact ⟨fun h => (by cases h), fun h => absurd h.1 h1⟩
  · rw [h3]; exact ⟨fun h => (by cases h), fun h => absurd h2 h.2.1⟩
  · rw [h4]; exact ⟨fun h => (by cases h), fun h => absurd h.2.2.1 h3⟩
  · rw [h4, checkEnds_ok_iff, exists_congr (back_iff nl es t h1 h3 s hs),
      exists_congr (fwd_iff nl es t h1 h3 e he)]
    exact ⟨fun h => ⟨h1, h2, h3, fun p hp => h.1 ⟨p, hp⟩, fun n hn => h.2 ⟨n, hn⟩⟩,
      fun h => ⟨fun ⟨p, hp⟩ => h.2.2.2.1 p hp, fun ⟨n, hn⟩ => h.2.2.2.2 n hn⟩⟩

/-- the per-tracklet reading of the definition, split into the conditions of the decision list -/
theorem good_iff_conditions (nl : List (α × L)) (es : List (α × α)) (t : L) :
    GoodTracklet nl es t ↔
      InnerT nl es t ∧ ConnIn nl es t ∧ (∀ p, ¬ BackExt nl es t p) ∧ (∀ n, ¬ FwdExt nl es t n) := by
  constructor
  · intro h
    refine ⟨h.inner_T, h.connected, ?_, ?_⟩
    · rintro p ⟨s, hs, hT, hp⟩; exact hp ((h.maximal p s hT).2 hs)
    · rintro n ⟨e, he, hT, hn⟩; exact hn ((h.maximal e n hT).1 he)
  · rintro ⟨h1, h2, h3, h4⟩
    refine ⟨h1, h2, fun a b hT => ⟨fun ha => ?_, fun hb => ?_⟩⟩
    · exact Classical.byContradiction fun hb => h4 b ⟨a, ha, hT, hb⟩
    · exact Classical.byContradiction fun ha => h3 a ⟨b, hb, hT, ha⟩

/-- **any digraph**: no message for `t` iff the class of `t` is a maximal unbranched path AND
contains no directed cycle -/
theorem checkTracklet_ok_iff_good (nl : List (α × L)) (es : List (α × α)) (t : L)
    (hl : ∃ u, (u, t) ∈ nl) :
    checkTracklet nl es t = .ok ↔ GoodTracklet nl es t ∧ ¬ CycleIn nl es t := by
  rw [checkTracklet_ok_iff nl es t hl, good_iff_conditions]
  constructor
  · rintro ⟨a, b, c, d, e⟩; exact ⟨⟨a, c, d, e⟩, b⟩
  · rintro ⟨⟨a, c, d, e⟩, b⟩; exact ⟨a, b, c, d, e⟩

/-! ## congruence: the verdict depends on `nl` and `es` only through membership -/
theorem conditions_congr (nl nl' : List (α × L)) (es es' : List (α × α)) (t : L)
    (hn : ∀ p, p ∈ nl ↔ p ∈ nl') (he : ∀ e, e ∈ es ↔ e ∈ es') :
    (InnerT nl es t ↔ InnerT nl' es' t) ∧ (CycleIn nl es t ↔ CycleIn nl' es' t) ∧
    (ConnIn nl es t ↔ ConnIn nl' es' t) ∧ (∀ p, BackExt nl es t p ↔ BackExt nl' es' t p) ∧
    (∀ n, FwdExt nl es t n ↔ FwdExt nl' es' t n) := by
  have hE : E es = E es' := by funext a b; unfold E; exact propext (he (a, b))
  have hT : T es = T es' := by funext a b; unfold T; rw [hE]
  have hES : ES nl es t = ES nl' es' t := by
    funext a b; unfold ES; rw [hE]; exact propext (by rw [hn (a, t), hn (b, t)])
  have hA : AdjS nl es t = AdjS nl' es' t := by funext a b; unfold AdjS; rw [hES]
  unfold InnerT CycleIn ConnIn BackExt FwdExt
  rw [hT, hES, hA]
  simp [hn]

/-- the verdict for `t` (kind AND named node) is unchanged when the edge list is replaced by one
with the same members and the labelled node list by one with the same members -/
theorem checkTracklet_congr (nl nl' : List (α × L)) (es es' : List (α × α)) (t : L)
    (hl : ∃ u, (u, t) ∈ nl)
    (hn : ∀ p, p ∈ nl ↔ p ∈ nl') (he : ∀ e, e ∈ es ↔ e ∈ es') :
    checkTracklet nl es t = checkTracklet nl' es' t := by
  have hl' : ∃ u, (u, t) ∈ nl' := by obtain ⟨u, hu⟩ := hl; exact ⟨u, (hn _).1 hu⟩
  obtain ⟨c1, c2, c3, c4, c5⟩ := conditions_congr nl nl' es es' t hn he
  cases hv : checkTracklet nl es t with
  | ok =>
    symm; rw [checkTracklet_ok_iff nl' es' t hl']
    have := (checkTracklet_ok_iff nl es t hl).1 hv
    exact ⟨c1.1 this.1, fun h => this.2.1 (c2.2 h), c3.1 this.2.2.1,
      fun p h => this.2.2.2.1 p ((c4 p).2 h), fun n h => this.2.2.2.2 n ((c5 n).2 h)⟩
  | branchMerge =>
    symm; rw [checkTracklet_branchMerge_iff nl' es' t hl']
    exact fun h => (checkTracklet_branchMerge_iff nl es t hl).1 hv (c1.2 h)
  | cycle =>
    symm; rw [checkTracklet_cycle_iff nl' es' t hl']
    have := (checkTracklet_cycle_iff nl es t hl).1 hv
    exact ⟨c1.1 this.1, c2.1 this.2⟩
  | notConnected =>
    symm; rw [checkTracklet_notConnected_iff nl' es' t hl']
    have := (checkTracklet_notConnected_iff nl es t hl).1 hv
    exact ⟨c1.1 this.1, fun h => this.2.1 (c2.2 h), fun h => this.2.2 (c3.2 h)⟩
  | extendBack p =>
    symm; rw [checkTracklet_extendBack_iff nl' es' t hl']
    have := (checkTracklet_extendBack_iff nl es t hl p).1 hv
    exact ⟨c1.1 this.1, fun h => this.2.1 (c2.2 h), c3.1 this.2.2.1, (c4 p).1 this.2.2.2⟩
  | extendFwd n =>
    symm; rw [checkTracklet_extendFwd_iff nl' es' t hl']
    have := (checkTracklet_extendFwd_iff nl es t hl n).1 hv
    exact ⟨c1.1 this.1, fun h => this.2.1 (c2.2 h), c3.1 this.2.2.1,
      fun p h => this.2.2.2.1 p ((c4 p).2 h), (c5 n).1 this.2.2.2.2⟩
  | exc name => exact absurd hv (checkTracklet_ne_exc nl es t hl name)

end Geff.Tracklet
