import GeffModel.MetaHeap
/-! Frame lemmas for the metadata heap (C18, write side): every function of
`GeffModel/MetaHeap.lean` only *allocates* objects or assigns to objects it allocated itself, so
every object that existed before the call is untouched. -/
namespace Geff.MetaHeap

/-- `h'` extends `h` and the objects that existed below `n` are untouched -/
structure Frame (n : Nat) (h h' : Heap) : Prop where
  le : h.length ≤ h'.length
  keeps : ∀ a, a < n → h'[a]? = h[a]?

theorem Frame.refl (n : Nat) (h : Heap) : Frame n h h := ⟨Nat.le_refl _, fun _ _ => rfl⟩

theorem Frame.trans {n : Nat} {h1 h2 h3 : Heap} (a : Frame n h1 h2) (b : Frame n h2 h3) :
    Frame n h1 h3 :=
  ⟨Nat.le_trans a.le b.le, fun x hx => (b.keeps x hx).trans (a.keeps x hx)⟩

theorem frame_alloc {n : Nat} {h : Heap} (o : Obj) (hn : n ≤ h.length) :
    Frame n h (alloc h o).1 := by
  refine ⟨by simp [alloc], fun a ha => ?_⟩
  exact List.getElem?_append_left (Nat.lt_of_lt_of_le ha hn)

@[simp] theorem alloc_snd (h : Heap) (o : Obj) : (alloc h o).2 = h.length := rfl
@[simp] theorem alloc_fst_length (h : Heap) (o : Obj) : (alloc h o).1.length = h.length + 1 := by
  simp [alloc]
theorem alloc_get (h : Heap) (o : Obj) : (alloc h o).1[h.length]? = some o := by simp [alloc]

theorem frame_set {n : Nat} {h : Heap} (a : Addr) (o : Obj) (ha : n ≤ a) : Frame n h (h.set a o) :=
  ⟨by simp, fun b hb => List.getElem?_set_ne (by omega)⟩

theorem frame_copyAxisObjs {n : Nat} (items : List Addr) :
    ∀ h : Heap, n ≤ h.length → Frame n h (copyAxisObjs h items).1 := by
  induction items with
  | nil => intro h _; exact Frame.refl _ _
  | cons a t ih =>
    intro h hn
    unfold copyAxisObjs
    split
    · rename_i nm mn mx _
      have f1 := frame_alloc (n := n) (.axis nm mn mx) hn
      have f2 := ih (alloc h (.axis nm mn mx)).1 (Nat.le_trans hn f1.le)
      exact f1.trans f2
    · exact ih h hn

theorem frame_deepcopyAxes {n : Nat} (h : Heap) (axes : Option Addr) (hn : n ≤ h.length) :
    Frame n h (deepcopyAxes h axes).1 ∧ ∀ l, (deepcopyAxes h axes).2 = some l → n ≤ l := by
  unfold deepcopyAxes
  cases axes with
  | none => exact ⟨Frame.refl _ _, fun l hl => by cases hl⟩
  | some l =>
    simp only
    split
    · rename_i items _
      have f1 := frame_copyAxisObjs (n := n) items h hn
      have f2 := frame_alloc (n := n) (.axesList (copyAxisObjs h items).2) (Nat.le_trans hn f1.le)
      refine ⟨f1.trans f2, fun l' hl' => ?_⟩
      simp only [alloc_snd, Option.some.injEq] at hl'
      subst hl'
      exact Nat.le_trans hn f1.le
    · exact ⟨Frame.refl _ _, fun l hl => by cases hl⟩

theorem frame_deepcopyDict {n : Nat} (h : Heap) (d : Addr) (hn : n ≤ h.length) :
    Frame n h (deepcopyDict h d).1 ∧ (deepcopyDict h d).2 = h.length := by
  unfold deepcopyDict
  split
  · exact ⟨frame_alloc _ hn, rfl⟩
  · exact ⟨frame_alloc _ hn, rfl⟩

/-- `copy.deepcopy(metadata)`: the old objects are untouched, and when `m` is a metadata object the
copy is a new object whose dictionaries are new objects -/
theorem deepcopyMeta_spec {n : Nat} (h : Heap) (m : Addr) (hn : n ≤ h.length) :
    Frame n h (deepcopyMeta h m).1 ∧
    ((deepcopyMeta h m = (h, m) ∧ ∀ a np ep d, h[m]? ≠ some (.geffMeta a np ep d)) ∨
     (∃ axes np ep dir, n ≤ np ∧ n ≤ ep ∧ n ≤ (deepcopyMeta h m).2 ∧
        (deepcopyMeta h m).1[(deepcopyMeta h m).2]? = some (.geffMeta axes np ep dir))) := by
  unfold deepcopyMeta
  split
  · rename_i axes np ep dir _
    simp only
    have ⟨f1, _⟩ := frame_deepcopyAxes (n := n) h axes hn
    have hn1 := Nat.le_trans hn f1.le
    have ⟨f2, e2⟩ := frame_deepcopyDict (n := n) (deepcopyAxes h axes).1 np hn1
    have hn2 := Nat.le_trans hn1 f2.le
    have ⟨f3, e3⟩ := frame_deepcopyDict (n := n) (deepcopyDict (deepcopyAxes h axes).1 np).1 ep hn2
    have hn3 := Nat.le_trans hn2 f3.le
    have f4 := frame_alloc (n := n) (.geffMeta (deepcopyAxes h axes).2
      (deepcopyDict (deepcopyAxes h axes).1 np).2
      (deepcopyDict (deepcopyDict (deepcopyAxes h axes).1 np).1 ep).2 dir) hn3
    refine ⟨((f1.trans f2).trans f3).trans f4, Or.inr ⟨_, _, _, dir, ?_, ?_, ?_, alloc_get _ _⟩⟩
    · rw [e2]; exact hn1
    · rw [e3]; exact hn2
    · exact hn3
  · rename_i hne
    exact ⟨Frame.refl _ _, Or.inl ⟨rfl, fun a np ep d hc => hne a np ep d hc⟩⟩

theorem frame_addOrUpdate {n : Nat} (h : Heap) (m : Addr) (md : List PropMd) (node : Bool)
    (hn : n ≤ h.length) : Frame n h (addOrUpdatePropsMetadata h m md node).1 := by
  unfold addOrUpdatePropsMetadata
  obtain ⟨f, hcase⟩ := deepcopyMeta_spec (n := n) h m hn
  rcases hcase with ⟨heq, hne⟩ | ⟨axes, np, ep, dir, hnp, hep, _, hget⟩
  · rw [heq]
    simp only
    first
      | exact Frame.refl _ _
      | (split
         · rename_i a np ep d hc; exact absurd hc (hne a np ep d)
         · exact Frame.refl _ _)
  · simp only [hget]
    split
    · exact f.trans (frame_set _ _ (by cases node <;> simp [hnp, hep]))
    · exact f

theorem frame_setAxesMinMax {n : Nat} (data : String → AxisData) (items : List Addr) :
    ∀ h : Heap, n ≤ h.length → Frame n h (setAxesMinMax h data items).1 := by
  induction items with
  | nil => intro h _; exact Frame.refl _ _
  | cons a t ih =>
    intro h hn
    unfold setAxesMinMax
    split
    · rename_i nm mn mx _
      split
      · exact Frame.refl _ _
      · exact ih h hn
      · rename_i lo hi _
        have f1 := frame_alloc (n := n) (.axis nm mn mx) hn
        have f2 : Frame n (alloc h (.axis nm mn mx)).1
            ((alloc h (.axis nm mn mx)).1.set (alloc h (.axis nm mn mx)).2 (.axis nm (some lo) (some hi))) :=
          frame_set _ _ (by simpa using hn)
        have f3 := ih _ (Nat.le_trans hn (f1.trans f2).le)
        exact (f1.trans f2).trans f3
    · exact ih h hn

theorem frame_compute {n : Nat} (h : Heap) (m : Addr) (data : String → AxisData)
    (hn : n ≤ h.length) : Frame n h (computeAndAddAxisMinMax h m data).1 := by
  unfold computeAndAddAxisMinMax
  split
  · rename_i axes np ep dir _
    have f1 := frame_alloc (n := n) (.geffMeta axes np ep dir) hn
    have hn1 := Nat.le_trans hn f1.le
    cases axes with
    | none => exact f1
    | some l =>
      simp only
      split
      · rename_i items _
        have f2 := frame_setAxesMinMax (n := n) data items _ hn1
        have hn2 := Nat.le_trans hn1 f2.le
        split
        · rename_i h2 heq
          have : h2 = (setAxesMinMax (alloc h (.geffMeta (some l) np ep dir)).1 data items).1 := by
            rw [heq]
          subst this
          exact f1.trans f2
        · rename_i h2 items' heq
          have : h2 = (setAxesMinMax (alloc h (.geffMeta (some l) np ep dir)).1 data items).1 := by
            rw [heq]
          subst this
          have f3 := frame_alloc (n := n) (.axesList items') hn2
          exact ((f1.trans f2).trans f3).trans (frame_set _ _ (by simpa using hn))
      · exact f1
  · exact Frame.refl _ _

theorem frame_writeArraysMeta {n : Nat} (h : Heap) (m : Addr) (nodeMd edgeMd : List PropMd)
    (have_ : Bool) (data : String → AxisData) (hn : n ≤ h.length) :
    Frame n h (writeArraysMeta h m nodeMd edgeMd have_ data).1 := by
  unfold writeArraysMeta
  have f1 := frame_addOrUpdate (n := n) h m nodeMd true hn
  have hn1 := Nat.le_trans hn f1.le
  have f2 := frame_addOrUpdate (n := n) (addOrUpdatePropsMetadata h m nodeMd true).1
    (addOrUpdatePropsMetadata h m nodeMd true).2 edgeMd false hn1
  have hn2 := Nat.le_trans hn1 f2.le
  simp only
  split
  · exact (f1.trans f2).trans (frame_compute _ _ data hn2)
  · exact f1.trans f2

theorem frame_allocAxes {n : Nat} (axes : List AxisSpec) :
    ∀ h : Heap, n ≤ h.length → Frame n h (allocAxes h axes).1 := by
  induction axes with
  | nil => intro h _; exact Frame.refl _ _
  | cons a t ih =>
    intro h hn
    obtain ⟨nm, mn, mx⟩ := a
    unfold allocAxes
    have f1 := frame_alloc (n := n) (.axis nm mn mx) hn
    exact f1.trans (ih _ (Nat.le_trans hn f1.le))

theorem frame_setAxes {n : Nat} (h : Heap) (m : Addr) (axes : List AxisSpec) (hn : n ≤ h.length)
    (hm : n ≤ m) : Frame n h (setAxes h m axes) := by
  unfold setAxes
  split
  · have f1 := frame_allocAxes (n := n) axes h hn
    have f2 := frame_alloc (n := n) (.axesList (allocAxes h axes).2) (Nat.le_trans hn f1.le)
    exact (f1.trans f2).trans (frame_set _ _ hm)
  · exact Frame.refl _ _

theorem frame_setDirected {n : Nat} (h : Heap) (m : Addr) (d : Bool) (hm : n ≤ m) :
    Frame n h (setDirected h m d) := by
  unfold setDirected
  split
  · exact frame_set _ _ hm
  · exact Frame.refl _ _

theorem frame_createOrUpdate {n : Nat} (h : Heap) (m : Option Addr) (d : Bool)
    (axes : Option (List AxisSpec)) (hn : n ≤ h.length) :
    Frame n h (createOrUpdateMetadata h m d axes).1 := by
  unfold createOrUpdateMetadata
  cases m with
  | none =>
    simp only
    have f1 := frame_alloc (n := n) (.propsDict []) hn
    have hn1 := Nat.le_trans hn f1.le
    have f2 := frame_alloc (n := n) (.propsDict []) hn1
    have hn2 := Nat.le_trans hn1 f2.le
    have f3 := frame_alloc (n := n) (.geffMeta none (alloc h (.propsDict [])).2
      (alloc (alloc h (.propsDict [])).1 (.propsDict [])).2 d) hn2
    have hn3 := Nat.le_trans hn2 f3.le
    cases axes with
    | none => exact (f1.trans f2).trans f3
    | some ax =>
      exact ((f1.trans f2).trans f3).trans (frame_setAxes _ _ ax hn3 (by simpa using hn2))
  | some m =>
    simp only
    split
    · rename_i a0 np0 ep0 d0 hmeta
      obtain ⟨f, hcase⟩ := deepcopyMeta_spec (n := n) h m hn
      rcases hcase with ⟨_, hne⟩ | ⟨_, _, _, _, _, _, hm1, _⟩
      · exact absurd hmeta (hne a0 np0 ep0 d0)
      · have hn1 := Nat.le_trans hn f.le
        have f2 := frame_setDirected (n := n) (deepcopyMeta h m).1 (deepcopyMeta h m).2 d hm1
        cases axes with
        | none => exact f.trans f2
        | some ax =>
          exact (f.trans f2).trans (frame_setAxes _ _ ax (Nat.le_trans hn1 f2.le) hm1)
    · exact Frame.refl _ _

theorem frame_updateMetadataAxes {n : Nat} (h : Heap) (m : Addr) (axes : List AxisSpec)
    (hn : n ≤ h.length) : Frame n h (updateMetadataAxes h m axes).1 := by
  unfold updateMetadataAxes
  split
  · rename_i a np ep d _
    have f1 := frame_alloc (n := n) (.geffMeta a np ep d) hn
    exact f1.trans (frame_setAxes _ _ axes (Nat.le_trans hn f1.le) (by simpa using hn))
  · exact Frame.refl _ _

theorem frame_writeArraysFull {n : Nat} (h : Heap) (m : Addr) (nodeMd edgeMd : List PropMd)
    (have_ empty : Bool) (data : String → AxisData) (hn : n ≤ h.length) :
    Frame n h (writeArraysFull h m nodeMd edgeMd have_ empty data).1 := by
  unfold writeArraysFull
  exact frame_writeArraysMeta h m _ edgeMd have_ _ hn

theorem frame_backendWriteMeta {n : Nat} (h : Heap) (m : Option Addr) (d : Bool)
    (createAxes override : Option (List AxisSpec)) (nodeMd edgeMd : List PropMd)
    (have_ empty : Bool) (data : String → AxisData) (hn : n ≤ h.length) :
    Frame n h (backendWriteMeta h m d createAxes override nodeMd edgeMd have_ empty data).1 := by
  unfold backendWriteMeta
  have f1 := frame_createOrUpdate (n := n) h m d createAxes hn
  have hn1 := Nat.le_trans hn f1.le
  cases override with
  | none =>
    exact f1.trans (frame_writeArraysFull _ _ nodeMd edgeMd have_ empty data hn1)
  | some ax =>
    have f2 := frame_updateMetadataAxes (n := n) (createOrUpdateMetadata h m d createAxes).1
      (createOrUpdateMetadata h m d createAxes).2 ax hn1
    exact (f1.trans f2).trans
      (frame_writeArraysFull _ _ nodeMd edgeMd have_ empty data (Nat.le_trans hn1 f2.le))

end Geff.MetaHeap
