import GeffProofs.WriteRead
import GeffModel.GraphOf
/-! Lemmas relating the specification's decoder (`GeffModel/SpecDecode.lean`) to the model of the
library (`GeffModel/WriteRead.lean`): the reader returns what a conformant store denotes (C02,
second direction), and what the writer leaves is conformant and denotes the written graph (first
direction). -/
namespace Geff.Spec
open Geff.Np Geff.Store Geff.WR

theorem find_eq_lookupKey {β} (k : String) (l : List (String × β)) : find k l = lookupKey k l := by
  induction l with
  | nil => rfl
  | cons a t ih =>
    obtain ⟨k', v⟩ := a
    unfold find lookupKey
    rw [List.find?_cons]
    by_cases h : k' = k
    · simp [h]
    · simp only [h, if_false, decide_false]
      rw [ih]; rfl

theorem natOf_eq (v : Val) : natOf v = Geff.Vlen.valNat? v := by
  cases v <;> rfl

theorem mapM_natOf_eq (l : List Val) : l.mapM natOf = l.mapM Geff.Vlen.valNat? := by
  have : natOf = Geff.Vlen.valNat? := funext natOf_eq
  rw [this]

theorem size_eq_prod (sh : List Nat) : size sh = prod sh := rfl

/-- the specification's reading of the offset table and the model of `deserialize_vlen_property_data`
agree: if every row names a section of `data`, the library's decoder returns exactly those sections -/
theorem decode_of_sections (d : NdArr) (w : Nat) : ∀ (n : Nat) (flat : List Val) (cells : List NdArr),
    (rowsOf w n flat).mapM (sectionOf d) = some cells →
    ∃ rows, Geff.Vlen.parseRows w n flat = some rows ∧ Geff.Vlen.decodeRows d.dtype d.flat rows = .ok cells := by
  intro n
  induction n with
  | zero =>
    intro flat cells h
    simp only [rowsOf, List.mapM_nil, pure, Option.some.injEq] at h
    subst h
    exact ⟨[], rfl, rfl⟩
  | succ n ih =>
    intro flat cells h
    simp only [rowsOf, List.mapM_cons, bind, Option.bind_eq_some_iff, pure, Option.some.injEq] at h
    obtain ⟨c, hc, cs, hcs, rfl⟩ := h
    obtain ⟨rows, hp, hd⟩ := ih (flat.drop w) cs hcs
    unfold sectionOf at hc
    rw [mapM_natOf_eq] at hc
    cases hrow : (flat.take w).mapM Geff.Vlen.valNat? with
    | none => rw [hrow] at hc; cases hc
    | some l =>
      rw [hrow] at hc
      cases l with
      | nil => cases hc
      | cons off shape =>
        simp only [] at hc
        split at hc
        · rename_i hlen
          simp only [Option.some.injEq] at hc
          refine ⟨(off, shape) :: rows, ?_, ?_⟩
          · simp only [Geff.Vlen.parseRows, hrow, hp]
          · simp only [Geff.Vlen.decodeRows, Geff.Vlen.decodeRow]
            rw [size_eq_prod] at hlen
            rw [if_pos hlen, hd]
            simp only []
            rw [← hc]; rfl
        · cases hc

/-! ### Option `mapM` -/

theorem mapM_some_forall {α β} (f : α → Option β) : ∀ (l : List α) (ys : List β), l.mapM f = some ys →
    ∀ x ∈ l, ∃ y, f x = some y := by
  intro l
  induction l with
  | nil => intro ys _ x hx; cases hx
  | cons a t ih =>
    intro ys h x hx
    simp only [List.mapM_cons, bind, Option.bind_eq_some_iff, pure, Option.some.injEq] at h
    obtain ⟨y, hy, ys', hys, _⟩ := h
    rcases List.mem_cons.1 hx with rfl | hx'
    · exact ⟨y, hy⟩
    · exact ih ys' hys x hx'

theorem mapM_some_eq {α β} [Inhabited β] (f : α → Option β) : ∀ (l : List α) (ys : List β), l.mapM f = some ys →
    ys = l.map (fun x => (f x).getD default) := by
  intro l
  induction l with
  | nil => intro ys h; simp only [List.mapM_nil, pure, Option.some.injEq] at h; rw [← h]; rfl
  | cons a t ih =>
    intro ys h
    simp only [List.mapM_cons, bind, Option.bind_eq_some_iff, pure, Option.some.injEq] at h
    obtain ⟨y, hy, ys', hys, rfl⟩ := h
    rw [List.map_cons, hy, ← ih ys' hys]; rfl

/-! ### the offset table survives the reader's cast to uint64 -/

theorem rowsOf_mem (w : Nat) : ∀ (n : Nat) (flat : List Val), flat.length = n * w →
    ∀ v ∈ flat, ∃ r ∈ rowsOf w n flat, v ∈ r := by
  intro n
  induction n with
  | zero =>
    intro flat hl v hv
    have : flat = [] := List.eq_nil_of_length_eq_zero (by simpa using hl)
    rw [this] at hv; cases hv
  | succ n ih =>
    intro flat hl v hv
    rw [← List.take_append_drop w flat] at hv
    rcases List.mem_append.1 hv with h | h
    · exact ⟨flat.take w, by simp [rowsOf], h⟩
    · have hl' : (flat.drop w).length = n * w := by
        rw [List.length_drop, hl, Nat.succ_mul]; omega
      obtain ⟨r, hr, hvr⟩ := ih (flat.drop w) hl' v h
      exact ⟨r, by simp [rowsOf, hr], hvr⟩

/-- integer arrays hold integers below 2^64 (every supported integer dtype has at most 64 bits) -/
def IntsFit (s : St) : Prop := ∀ p a, get s p = some (.array a) → ∀ x, Val.i x ∈ a.flat → x < 2 ^ 64

/-- a decidable sufficient condition -/
def intsFitB (s : St) : Bool :=
  s.all (fun kv => match kv.2 with
    | .array a => a.flat.all (fun v => match v with | .i x => decide (x < 2 ^ 64) | _ => true)
    | .group _ => true)

theorem intsFit_of_bool (s : St) (h : intsFitB s = true) : IntsFit s := by
  intro p a hg x hx
  have hm : (p, Entry.array a) ∈ s := by
    unfold Geff.Store.get at hg
    cases hf : s.find? (fun kv => kv.1 = p) with
    | none => rw [hf] at hg; cases hg
    | some kv =>
      rw [hf] at hg
      have hmem := List.mem_of_find?_eq_some hf
      have hk := List.find?_some hf
      simp only [decide_eq_true_eq] at hk
      simp only [Option.map_some, Option.some.injEq] at hg
      obtain ⟨k, e⟩ := kv
      simp only at hk hg
      subst hk; subst hg
      exact hmem
  unfold intsFitB at h
  have := List.all_eq_true.1 h (p, Entry.array a) hm
  simp only at this
  have := List.all_eq_true.1 this (.i x) hx
  simpa using this

theorem wrapInt_u64 (x : Int) (h0 : 0 ≤ x) (h1 : x < 2 ^ 64) : wrapInt .u64 x = x := by
  unfold wrapInt
  have hmod : x % 2 ^ Dtype.u64.bits = x := Int.emod_eq_of_lt h0 (by simpa [Dtype.bits] using h1)
  simp only [hmod]
  rw [if_neg (fun h => absurd h.1 (by decide))]

theorem castTo_u64_table (values : NdArr) (hint : values.dtype.isInteger = true)
    (hfit : ∀ v ∈ values.flat, ∃ x, v = .i x ∧ 0 ≤ x ∧ x < 2 ^ 64) :
    ∃ v', castTo .u64 values = .ok v' ∧ v'.shape = values.shape ∧ v'.flat = values.flat ∧ v'.dtype = .u64 := by
  unfold castTo
  by_cases h : values.dtype = .u64
  · rw [if_pos h]; exact ⟨values, rfl, rfl, rfl, h⟩
  · rw [if_neg h, if_pos ⟨hint, rfl⟩]
    refine ⟨_, rfl, rfl, ?_, rfl⟩
    simp only []
    conv => rhs; rw [← List.map_id values.flat]
    apply List.map_congr_left
    intro v hv
    obtain ⟨x, rfl, h0, h1⟩ := hfit v hv
    simp only [wrapInt_u64 x h0 h1, id]

/-! ### one property: what the specification decodes is what the reader loads -/

theorem groupAt_true (s : St) (q : Path) (h : groupAt s q = true) : ∃ a, get s q = some (.group a) := by
  unfold groupAt at h
  cases hg : get s q with
  | none => rw [hg] at h; cases h
  | some e => cases e with
    | group a => exact ⟨a, rfl⟩
    | array a => rw [hg] at h; cases h

theorem arrayAt_some (s : St) (q : Path) (a : NdArr) (h : arrayAt s q = some a) : get s q = some (.array a) := by
  unfold arrayAt at h
  cases hg : get s q with
  | none => rw [hg] at h; cases h
  | some e => cases e with
    | group _ => rw [hg] at h; cases h
    | array b => rw [hg] at h; simp only [Option.some.injEq] at h; rw [h]

theorem optArray_of_spec (s : St) (q : Path) (o : Option NdArr) (h : optionalArray s q = some o) :
    optArray s q = .ok o := by
  unfold optionalArray at h
  unfold optArray
  cases hg : get s q with
  | none => rw [hg] at h; simp only [Option.some.injEq] at h; rw [← h]; rfl
  | some e => cases e with
    | group _ => rw [hg] at h; cases h
    | array b => rw [hg] at h; simp only [Option.some.injEq] at h; rw [← h]; rfl

theorem readProp_of_spec (s : St) (pre : Path) (k : String) (values : NdArr) (missing data : Option NdArr)
    (hg : groupAt s (pre ++ [k]) = true) (hV : arrayAt s (pre ++ [k] ++ ["values"]) = some values)
    (hM : optionalArray s (pre ++ [k] ++ ["missing"]) = some missing)
    (hD : optionalArray s (pre ++ [k] ++ ["data"]) = some data) :
    readProp s pre k = .ok ⟨values, missing, data⟩ := by
  obtain ⟨a, hga⟩ := groupAt_true s _ hg
  have eV : pre ++ [k, Gen.Paths.VALUES] = pre ++ [k] ++ ["values"] := by simp [Gen.Paths.VALUES]
  have eM : pre ++ [k, Gen.Paths.MISSING] = pre ++ [k] ++ ["missing"] := by simp [Gen.Paths.MISSING]
  have eD : pre ++ [k, Gen.Paths.DATA] = pre ++ [k] ++ ["data"] := by simp [Gen.Paths.DATA]
  unfold readProp expectGroup expectArray
  rw [hga, eV, arrayAt_some s _ values hV, eM, optArray_of_spec s _ missing hM, eD, optArray_of_spec s _ data hD]
  rfl

def toBool? : Val → Option Bool
  | .b x => some x
  | _ => none

theorem bits_of_mapM : ∀ (l : List Val) (bits : List Bool),
    l.mapM (fun v => match v with | .b x => some x | _ => none) = some bits → l.map (fun v => v == .b true) = bits := by
  intro l
  induction l with
  | nil => intro bits h; simp only [List.mapM_nil, pure, Option.some.injEq] at h; rw [← h]; rfl
  | cons a t ih =>
    intro bits h
    simp only [List.mapM_cons, bind, Option.bind_eq_some_iff, pure, Option.some.injEq] at h
    obtain ⟨b, hb, bs, hbs, rfl⟩ := h
    rw [List.map_cons, ih bs hbs]
    cases a with
    | b x => simp only [Option.some.injEq] at hb; subst hb; cases x <;> rfl
    | i _ => cases hb
    | f _ => cases hb
    | s _ => cases hb

/-- the mask as the specification reads it is the mask as the reader returns it -/
theorem mask_of_spec (missing : Option NdArr) (n : Nat) (bits : List Bool) (h : maskBits missing n = some bits) :
    castOpt .bool missing = .ok missing ∧ bitsOf missing n = bits := by
  unfold maskBits at h
  cases missing with
  | none => simp only [Option.some.injEq] at h; exact ⟨rfl, h⟩
  | some m =>
    simp only [] at h
    split at h
    · rename_i hc
      refine ⟨?_, bits_of_mapM _ _ h⟩
      apply castOpt_ok
      intro m' hm'
      cases hm'
      rw [← hc.1]; exact castTo_self m
    · cases h

theorem rowsOf_length (w : Nat) : ∀ (n : Nat) (flat : List Val), (rowsOf w n flat).length = n := by
  intro n; induction n with
  | zero => intro _; rfl
  | succ n ih => intro flat; simp [rowsOf, ih]

theorem mapM_some_length {α β} (f : α → Option β) : ∀ (l : List α) (ys : List β), l.mapM f = some ys → ys.length = l.length := by
  intro l; induction l with
  | nil => intro ys h; simp only [List.mapM_nil, pure, Option.some.injEq] at h; subst h; rfl
  | cons a t ih =>
    intro ys h
    simp only [List.mapM_cons, bind, Option.bind_eq_some_iff, pure, Option.some.injEq] at h
    obtain ⟨y, _, ys', hys, rfl⟩ := h
    simp [ih ys' hys]

theorem load_dense (values : NdArr) (missing : Option NdArr) (n : Nat) (md : PropMeta) (dt : Dtype)
    (cells : List NdArr) (bits : List Bool)
    (hdt : Dtype.ofName? md.dtype = some dt) (hvl : ¬ md.varlength.getD false = true)
    (hc : denseCells values n dt = some cells) (hb : maskBits missing n = some bits) :
    ∃ p, loadPropToMemory vlenCodec ⟨values, missing, none⟩ md = .ok p ∧ propD p = ⟨false, applyMask cells bits⟩ := by
  obtain ⟨hm1, hm2⟩ := mask_of_spec missing n bits hb
  unfold denseCells at hc
  cases hsh : values.shape with
  | nil => rw [hsh] at hc; cases hc
  | cons n' tail =>
    rw [hsh] at hc
    simp only [] at hc
    split at hc
    · rename_i hcond
      obtain ⟨hn, _, hd⟩ := hcond
      simp only [Option.some.injEq] at hc
      refine ⟨⟨.dense values, missing⟩, ?_, ?_⟩
      · unfold loadPropToMemory
        have hv : md.varlength.getD false = false := by
          cases h : md.varlength.getD false with
          | false => rfl
          | true => exact absurd h hvl
        have hcast : castTo dt values = .ok values := by rw [← hd]; exact castTo_self values
        have hnone : castOpt dt none = .ok none := rfl
        simp only [hdt, hv, Bool.false_eq_true, if_false, hcast, hm1, hnone, bind, Except.bind, pure, Except.pure]
      · unfold propD
        simp only [hsh, List.head?_cons, Option.getD_some, List.tail_cons]
        rw [hn, hm2, ← hc]
    · cases hc

theorem load_vlen (s : St) (hfit : IntsFit s) (q : Path) (values d : NdArr) (missing : Option NdArr) (n : Nat)
    (md : PropMeta) (dt : Dtype) (cells : List NdArr) (bits : List Bool)
    (hget : get s q = some (.array values))
    (hdt : Dtype.ofName? md.dtype = some dt) (hvl : md.varlength.getD false = true)
    (hc : vlenCells values d n dt = some cells) (hb : maskBits missing n = some bits) :
    ∃ p, loadPropToMemory vlenCodec ⟨values, missing, some d⟩ md = .ok p ∧ propD p = ⟨true, applyMask cells bits⟩ := by
  obtain ⟨hm1, hm2⟩ := mask_of_spec missing n bits hb
  unfold vlenCells at hc
  split at hc
  · rename_i n' w len hvs hds
    split at hc
    · rename_i hcond
      obtain ⟨hn, hw, hint, hwsv, _, hdd⟩ := hcond
      subst hn
      have hlen : cells.length = n' := by rw [mapM_some_length _ _ _ hc, rowsOf_length]
      -- every entry of the table is a natural number below 2^64
      have hflatlen : values.flat.length = n' * w := by
        have := hwsv
        unfold wellShaped at this
        rw [hvs] at this
        simpa [size] using this
      have hentries : ∀ v ∈ values.flat, ∃ x, v = .i x ∧ 0 ≤ x ∧ x < 2 ^ 64 := by
        intro v hv
        obtain ⟨r, hr, hvr⟩ := rowsOf_mem w n' values.flat hflatlen v hv
        obtain ⟨c, hcell⟩ := mapM_some_forall _ _ _ hc r hr
        unfold sectionOf at hcell
        cases hrow : r.mapM natOf with
        | none => rw [hrow] at hcell; cases hcell
        | some l =>
          obtain ⟨m, hm⟩ := mapM_some_forall _ _ _ hrow v hvr
          cases v with
          | i x =>
            by_cases h0 : 0 ≤ x
            · exact ⟨x, rfl, h0, hfit q values hget x hv⟩
            · simp only [natOf, h0, if_false] at hm
              cases hm
          | b _ => cases hm
          | f _ => cases hm
          | s _ => cases hm
      obtain ⟨v', hcast, hsh', hfl', _⟩ := castTo_u64_table values hint hentries
      obtain ⟨rows, hparse, hdec⟩ := decode_of_sections d w n' values.flat cells hc
      have hdecode : vlenCodec.decode v' d = .ok cells := by
        show ofVlen (Geff.Vlen.deserializeVlen v' d) = _
        unfold Geff.Vlen.deserializeVlen
        rw [hds, hsh', hvs, hfl']
        simp only [List.length_cons, List.length_nil, ne_eq, not_true_eq_false, if_false]
        by_cases h0 : n' = 0
        · subst h0
          simp only [if_true]
          have : cells = [] := List.eq_nil_of_length_eq_zero hlen
          rw [this]; rfl
        · rw [if_neg h0, if_neg (by omega), hparse]
          simp only [hdec]; rfl
      have hcd : castOpt dt (some d) = .ok (some d) := by
        apply castOpt_ok; intro m hm; cases hm; rw [← hdd]; exact castTo_self d
      refine ⟨⟨.obj cells, missing⟩, ?_, ?_⟩
      · unfold loadPropToMemory
        simp only [hdt, hvl, if_true, hcast, hm1, hcd, hdecode, bind, Except.bind, pure, Except.pure]
      · unfold propD
        simp only [hlen, hm2]
    · cases hc
  · cases hc

theorem load_of_denoteProp (s : St) (hfit : IntsFit s) (pre : Path) (k : String) (n : Nat) (md : PropMeta) (P : PropD)
    (h : denoteProp s (pre ++ [k]) n md = some P) :
    isGroup s (pre ++ [k]) = true ∧
    ∃ z p, readProp s pre k = .ok z ∧ loadPropToMemory vlenCodec z md = .ok p ∧ propD p = P := by
  unfold denoteProp at h
  split at h
  · cases h
  · rename_i hg
    have hg' : groupAt s (pre ++ [k]) = true := by
      cases hgv : groupAt s (pre ++ [k]) with
      | true => rfl
      | false => exact absurd hgv hg
    have hisg : isGroup s (pre ++ [k]) = true := by
      obtain ⟨a, ha⟩ := groupAt_true s _ hg'
      unfold isGroup; rw [ha]
    refine ⟨hisg, ?_⟩
    split at h
    · rename_i values missing data dt hV hM hD hdt
      have hread := readProp_of_spec s pre k values missing data hg' hV hM hD
      split at h
      · cases h
      · rename_i bits hb
        split at h
        · rename_i hvl
          cases data with
          | none => cases h
          | some d =>
            simp only [Option.map_eq_some_iff] at h
            obtain ⟨cells, hc, rfl⟩ := h
            obtain ⟨p, hl, hp⟩ := load_vlen s hfit _ values d missing n md dt cells bits (arrayAt_some s _ values hV)
              hdt hvl hc hb
            exact ⟨_, p, hread, hl, hp⟩
        · rename_i hvl
          cases data with
          | some _ => cases h
          | none =>
            simp only [Option.map_eq_some_iff] at h
            obtain ⟨cells, hc, rfl⟩ := h
            obtain ⟨p, hl, hp⟩ := load_dense values missing n md dt cells bits hdt hvl hc hb
            exact ⟨_, p, hread, hl, hp⟩
    · cases h

/-- one of the groups `nodes` / `edges`: the reader returns the properties the specification decodes,
in the same order -/
theorem readGroup_of_spec (s : St) (hfit : IntsFit s) (grp : String) (n : Nat) (mds : List (String × PropMeta))
    (nps : List (String × PropD)) (hgrp : groupAt s [grp] = true)
    (h : denoteProps s [grp, "props"] n mds = some nps) :
    ∃ names zs res, propNames s grp = .ok names ∧ readProps s [grp, Gen.Paths.PROPS] names = .ok zs ∧
      loadProps vlenCodec mds zs = .ok res ∧ res.map (fun kp => (kp.1, propD kp.2)) = nps := by
  have hP : Gen.Paths.PROPS = "props" := rfl
  obtain ⟨ga, hga⟩ := groupAt_true s _ hgrp
  unfold denoteProps at h
  cases hg : get s [grp, "props"] with
  | none =>
    rw [hg] at h
    simp only [Option.some.injEq] at h
    subst h
    refine ⟨[], [], [], ?_, rfl, rfl, rfl⟩
    unfold propNames expectGroup
    rw [hga, hP, hg]; rfl
  | some e =>
    cases e with
    | array a => rw [hg] at h; cases h
    | group a =>
      rw [hg] at h
      simp only [] at h
      let names := childNames s [grp, "props"]
      -- every member is a property group that decodes
      have hall : ∀ k ∈ names, ∃ md P, find k mds = some md ∧ denoteProp s ([grp, "props"] ++ [k]) n md = some P ∧
          denotePropNamed s [grp, "props"] n mds k = some (k, P) := by
        intro k hk
        obtain ⟨y, hy⟩ := mapM_some_forall _ _ _ h k hk
        unfold denotePropNamed at hy ⊢
        cases hf : find k mds with
        | none => rw [hf] at hy; cases hy
        | some md =>
          rw [hf] at hy
          simp only [Option.map_eq_some_iff] at hy
          obtain ⟨P, hP', _⟩ := hy
          exact ⟨md, P, rfl, hP', by simp only [hP']; rfl⟩
      have hkeys : groupKeys s [grp, "props"] = names := by
        unfold groupKeys
        apply List.filter_eq_self.2
        intro k hk
        obtain ⟨md, P, _, hd, _⟩ := hall k hk
        exact (load_of_denoteProp s hfit _ k n md P hd).1
      let Z : String → ZarrProp := fun k => match readProp s [grp, "props"] k with
        | .ok z => z
        | .error _ => default
      let Pf : String → PropArr := fun k => match find k mds with
        | some md => (match loadPropToMemory vlenCodec (Z k) md with | .ok p => p | .error _ => default)
        | none => default
      have hfacts : ∀ k ∈ names, ∃ md P, lookupKey k mds = some md ∧ readProp s [grp, "props"] k = .ok (Z k) ∧
          loadPropToMemory vlenCodec (Z k) md = .ok (Pf k) ∧ propD (Pf k) = P ∧
          denotePropNamed s [grp, "props"] n mds k = some (k, P) := by
        intro k hk
        obtain ⟨md, P, hf, hd, hnamed⟩ := hall k hk
        obtain ⟨_, z, p, hr, hl, hp⟩ := load_of_denoteProp s hfit _ k n md P hd
        have hZ : Z k = z := by show (match readProp s [grp, "props"] k with | .ok z => z | .error _ => default) = _; rw [hr]
        have hPf : Pf k = p := by
          show (match find k mds with
            | some md => (match loadPropToMemory vlenCodec (Z k) md with | .ok p => p | .error _ => default)
            | none => default) = _
          rw [hf, hZ]
          simp only [hl]
        refine ⟨md, P, by rw [← find_eq_lookupKey]; exact hf, by rw [hZ]; exact hr, by rw [hZ, hPf]; exact hl,
          by rw [hPf]; exact hp, hnamed⟩
      refine ⟨names, names.map (fun k => (k, Z k)), names.map (fun k => (k, Pf k)), ?_, ?_, ?_, ?_⟩
      · unfold propNames expectGroup
        rw [hga, hP, hg]
        show (pure (groupKeys s [grp, "props"]) : Outcome (List String)) = _
        rw [hkeys]; rfl
      · unfold readProps
        rw [hP]
        apply mapM_ok
        intro k hk
        obtain ⟨_, _, _, hr, _⟩ := hfacts k hk
        simp only [hr, bind, Except.bind, pure, Except.pure]
      · unfold loadProps
        have : (names.map (fun k => (k, Pf k))) = (names.map (fun k => (k, Z k))).map (fun kz => (kz.1, Pf kz.1)) := by
          rw [List.map_map]; rfl
        rw [this]
        apply mapM_ok
        intro kz hkz
        obtain ⟨k, hk, rfl⟩ := List.mem_map.1 hkz
        obtain ⟨md, _, hl, _, hload, _⟩ := hfacts k hk
        simp only [hl, hload, bind, Except.bind, pure, Except.pure]
      · rw [mapM_some_eq _ _ _ h, List.map_map]
        apply List.map_congr_left
        intro k hk
        obtain ⟨_, P, _, _, _, hp, hnamed⟩ := hfacts k hk
        simp only [Function.comp, hnamed, Option.getD_some, hp]

/-- **second direction, core**: on every store the specification assigns a graph to, the reader (no
validation) succeeds and returns that graph -/
theorem readCore_of_denote (s : St) (hfit : IntsFit s) (G : Graph) (h : denote s = some G) :
    ∃ r, readCore vlenCodec s = .ok r ∧ graphOf r = G := by
  unfold denote at h
  split at h
  · rename_i m nid eid hm hgn hge hnid heid
    simp only [] at h
    split at h
    · split at h
      · rename_i np ep hnp hep
        simp only [Option.some.injEq] at h
        -- the root and the metadata
        have hroot : ∃ attrs, get s [] = some (.group attrs) ∧ lookupKey "geff" attrs = some (.geff m) := by
          unfold geffMeta at hm
          cases hg : get s [] with
          | none => rw [hg] at hm; cases hm
          | some e => cases e with
            | array _ => rw [hg] at hm; cases hm
            | group attrs =>
              rw [hg] at hm
              simp only [] at hm
              refine ⟨attrs, rfl, ?_⟩
              rw [← find_eq_lookupKey]
              cases hf : find "geff" attrs with
              | none => rw [hf] at hm; cases hm
              | some v => cases v with
                | other => rw [hf] at hm; cases hm
                | geff m' => rw [hf] at hm; simp only [Option.some.injEq] at hm; rw [hm]
        obtain ⟨attrs, hr, hgeff⟩ := hroot
        have e1 : [Gen.Paths.NODES, Gen.Paths.IDS] = ["nodes", "ids"] := rfl
        have e2 : [Gen.Paths.EDGES, Gen.Paths.IDS] = ["edges", "ids"] := rfl
        obtain ⟨nn, nz, nres, hn1, hn2, hn3, hn4⟩ := readGroup_of_spec s hfit "nodes" _ m.nodeProps np hgn hnp
        obtain ⟨en, ez, eres, he1, he2, he3, he4⟩ := readGroup_of_spec s hfit "edges" _ m.edgeProps ep hge hep
        refine ⟨⟨nid, eid, nres, eres, m⟩, ?_, ?_⟩
        · unfold readCore
          have hg : expectGroup s [] = .ok () := by unfold expectGroup; rw [hr]; rfl
          have hmeta : readMeta s = .ok m := by unfold readMeta; rw [hr]; simp only [hgeff]; rfl
          have h1 : expectArray s ["nodes", "ids"] = .ok nid := by
            unfold expectArray; rw [arrayAt_some s _ nid hnid]; rfl
          have h2 : expectArray s ["edges", "ids"] = .ok eid := by
            unfold expectArray; rw [arrayAt_some s _ eid heid]; rfl
          have hN : Gen.Paths.NODES = "nodes" := rfl
          have hE : Gen.Paths.EDGES = "edges" := rfl
          have hI : Gen.Paths.IDS = "ids" := rfl
          have hPr : Gen.Paths.PROPS = "props" := rfl
          rw [hPr] at hn2 he2
          simp only [hN, hE, hI, hPr, hg, hmeta, h1, h2, hn1, he1, hn2, he2, hn3, he3, bind, Except.bind, pure, Except.pure]
        · unfold graphOf
          simp only [hn4, he4]
          exact h
      · cases h
    · cases h
  · cases h

/-! ### first direction: what the writer leaves is laid out as specified -/

theorem sections_of_decode (d : NdArr) (w : Nat) : ∀ (n : Nat) (flat : List Val) (rows : List (Nat × List Nat))
    (cells : List NdArr), Geff.Vlen.parseRows w n flat = some rows →
    Geff.Vlen.decodeRows d.dtype d.flat rows = .ok cells → (rowsOf w n flat).mapM (sectionOf d) = some cells := by
  intro n
  induction n with
  | zero =>
    intro flat rows cells hp hd
    simp only [Geff.Vlen.parseRows, Option.some.injEq] at hp
    subst hp
    simp only [Geff.Vlen.decodeRows, Geff.Vlen.Outcome.ok.injEq] at hd
    subst hd
    rfl
  | succ n ih =>
    intro flat rows cells hp hd
    simp only [Geff.Vlen.parseRows] at hp
    cases hrow : (flat.take w).mapM Geff.Vlen.valNat? with
    | none => rw [hrow] at hp; cases hp
    | some l =>
      rw [hrow] at hp
      cases l with
      | nil => cases hp
      | cons off shape =>
        simp only [] at hp
        cases hrest : Geff.Vlen.parseRows w n (flat.drop w) with
        | none => rw [hrest] at hp; cases hp
        | some rs =>
          rw [hrest] at hp
          simp only [Option.some.injEq] at hp
          subst hp
          by_cases hlen : ((d.flat.drop off).take (prod shape)).length = prod shape
          · simp only [Geff.Vlen.decodeRows, Geff.Vlen.decodeRow, hlen, if_true] at hd
            cases hds : Geff.Vlen.decodeRows d.dtype d.flat rs with
            | ok cs =>
              rw [hds] at hd
              simp only [Geff.Vlen.Outcome.ok.injEq] at hd
              subst hd
              have hsec : sectionOf d (flat.take w) = some ⟨d.dtype, shape, (d.flat.drop off).take (prod shape)⟩ := by
                unfold sectionOf
                rw [mapM_natOf_eq, hrow]
                simp only [size_eq_prod, hlen, if_true]
              simp only [rowsOf, List.mapM_cons, hsec, ih (flat.drop w) rs cs hrest hds, bind, Option.bind_some, pure]
            | valueError => rw [hds] at hd; cases hd
            | typeError => rw [hds] at hd; cases hd
            | other _ => rw [hds] at hd; cases hd
            | unmodelled _ => rw [hds] at hd; cases hd
          · simp only [Geff.Vlen.decodeRows, Geff.Vlen.decodeRow, hlen, if_false] at hd
            cases hd

theorem mapM_isSome {α β} (f : α → Option β) : ∀ (l : List α), (∀ x ∈ l, ∃ y, f x = some y) → ∃ ys, l.mapM f = some ys := by
  intro l
  induction l with
  | nil => intro _; exact ⟨[], rfl⟩
  | cons a t ih =>
    intro h
    obtain ⟨y, hy⟩ := h a (List.mem_cons_self ..)
    obtain ⟨ys, hys⟩ := ih (fun x hx => h x (List.mem_cons_of_mem _ hx))
    exact ⟨y :: ys, by simp only [List.mapM_cons, hy, hys, bind, Option.bind_some, pure]⟩

theorem flatMap_length_const {α β} (f : α → List β) (k : Nat) : ∀ (l : List α), (∀ x ∈ l, (f x).length = k) →
    (l.flatMap f).length = l.length * k := by
  intro l
  induction l with
  | nil => intro _; simp
  | cons a t ih =>
    intro h
    rw [List.flatMap_cons, List.length_append, h a (List.mem_cons_self ..), ih (fun x hx => h x (List.mem_cons_of_mem _ hx)),
      List.length_cons, Nat.succ_mul, Nat.add_comm]

/-- the serialised form of a well-formed homogeneous object array is a table and a flat data array as the
specification describes them, and every row names a section of the data -/
theorem vlenCells_encode (es : List NdArr) (hwf : ∀ e ∈ es, e.WF) (hh : Geff.Vlen.Homogeneous es) :
    vlenCells (Geff.Vlen.encode es).valuesArr (Geff.Vlen.encode es).dataArr es.length (Geff.Vlen.dataDtype es) = some es := by
  cases es with
  | nil => rfl
  | cons a l =>
    have hrows : (Geff.Vlen.encode (a :: l)).rows = (0, a.shape) :: (Geff.Vlen.encodeAux (0 + prod a.shape) l).1 := by
      simp [Geff.Vlen.encode, Geff.Vlen.encodeAux]
    have hk : ∀ r ∈ (Geff.Vlen.encode (a :: l)).rows, r.2.length = a.shape.length := by
      intro r hr
      have hm : r.2 ∈ (Geff.Vlen.encode (a :: l)).rows.map (·.2) := List.mem_map.2 ⟨r, hr, rfl⟩
      rw [show (Geff.Vlen.encode (a :: l)).rows = (Geff.Vlen.encodeAux 0 (a :: l)).1 from rfl,
        Geff.Vlen.encodeAux_shapes] at hm
      obtain ⟨e, he, hes⟩ := List.mem_map.1 hm
      rw [← hes]
      exact (hh e he a (by simp)).2
    have hlenrows : (Geff.Vlen.encode (a :: l)).rows.length = (a :: l).length := Geff.Vlen.encodeAux_rows_length 0 (a :: l)
    have hp := Geff.Vlen.parseRows_flat a.shape.length (Geff.Vlen.encode (a :: l)).rows hk
    have hdec := Geff.Vlen.decodeRows_encode (a :: l) hwf hh
    have hvals : (Geff.Vlen.encode (a :: l)).valuesArr =
        { dtype := .u64, shape := [(a :: l).length, a.shape.length + 1],
          flat := (Geff.Vlen.encode (a :: l)).rows.flatMap (fun row => (row.1 :: row.2).map Geff.Vlen.natVal) } := by
      unfold Geff.Vlen.Encoded.valuesArr
      rw [hrows]
      simp only [List.length_cons]
      rw [← hrows]
      have := hlenrows
      rw [hrows] at this
      simp only [List.length_cons] at this
      simp only [this]
    have hflat : ((Geff.Vlen.encode (a :: l)).rows.flatMap (fun row => (row.1 :: row.2).map Geff.Vlen.natVal)).length =
        (a :: l).length * (a.shape.length + 1) := by
      rw [flatMap_length_const _ (a.shape.length + 1) _ (fun r hr => by simp [hk r hr]), hlenrows]
    have hsec := sections_of_decode (Geff.Vlen.encode (a :: l)).dataArr (a.shape.length + 1) (a :: l).length
      ((Geff.Vlen.encode (a :: l)).rows.flatMap (fun row => (row.1 :: row.2).map Geff.Vlen.natVal))
      (Geff.Vlen.encode (a :: l)).rows (a :: l) (by rw [← hlenrows]; exact hp) hdec
    unfold vlenCells
    rw [hvals]
    simp only [Geff.Vlen.Encoded.dataArr]
    rw [if_pos]
    · exact hsec
    · refine ⟨trivial, by omega, rfl, ?_, ?_, rfl⟩
      · unfold wellShaped
        simp only [hflat, size, List.foldl_cons, List.foldl_nil, Nat.one_mul, beq_self_eq_true]
      · unfold wellShaped
        simp [size]

theorem maskBits_ok (missing : Option NdArr) (n : Nat) (hb : ∀ m, missing = some m → m.dtype = .bool)
    (hr : ∀ m, missing = some m → m.shape = [n] ∧ m.WF ∧ ∀ v ∈ m.flat, ∃ x, v = .b x) :
    ∃ bits, maskBits missing n = some bits := by
  unfold maskBits
  cases missing with
  | none => exact ⟨_, rfl⟩
  | some m =>
    obtain ⟨hsh, hwf, hent⟩ := hr m rfl
    simp only []
    rw [if_pos ⟨hb m rfl, hsh, by unfold wellShaped; rw [hwf]; simp [size, prod]⟩]
    apply mapM_isSome
    intro v hv
    obtain ⟨x, rfl⟩ := hent v hv
    exact ⟨x, rfl⟩

theorem optionalArray_of_get (s : St) (q : Path) (o : Option NdArr) (h : get s q = o.map .array) :
    optionalArray s q = some o := by
  unfold optionalArray
  rw [h]
  cases o <;> rfl

/-- a written property is a property group as the specification describes it -/
theorem denoteProp_written (s : St) (q : Path) (name : String) (p : PropArr) (n : Nat) (pm : PropMeta)
    (hat : PropAt vlenCodec s q (upcast p)) (hw : Writable name p) (hr : RowsOK n p)
    (hdt : pm.dtype = (dtypeOfProp p).name) (hvl : pm.varlength = some (isVarlen p)) :
    denoteProp s q n pm = some (propD (upcast p)) := by
  obtain ⟨hg, v, d, he, hv, hm, hd⟩ := hat
  have hV : Gen.Paths.VALUES = "values" := rfl
  have hM : Gen.Paths.MISSING = "missing" := rfl
  have hD : Gen.Paths.DATA = "data" := rfl
  rw [hV] at hv; rw [hM] at hm; rw [hD] at hd
  have h1 : groupAt s q = true := by unfold groupAt; rw [hg]
  have h2 : arrayAt s (q ++ ["values"]) = some v := by unfold arrayAt; rw [hv]
  have h3 := optionalArray_of_get s _ _ hm
  have h4 := optionalArray_of_get s _ _ hd
  have h5 : Dtype.ofName? pm.dtype = some (dtypeOfProp p) := by rw [hdt]; exact Dtype.ofName_name _
  obtain ⟨bits, hbits⟩ := maskBits_ok (upcast p).missing n (by rw [upcast_missing]; exact hw.2.1)
    (by rw [upcast_missing]; exact hr.1)
  have hbo := (mask_of_spec _ _ _ hbits).2
  unfold denoteProp
  rw [if_neg (by rw [h1]; simp), h2, h3, h4, h5]
  simp only [hbits, hvl, Option.getD_some]
  cases hval : p.values with
  | dense a =>
    have hnv : isVarlen p = false := by unfold isVarlen; rw [hval]
    obtain ⟨a', ha', hsh', hfl'⟩ : ∃ a', (upcast p).values = .dense a' ∧ a'.shape = a.shape ∧ a'.flat.length = a.flat.length := by
      rw [upcast_dense p a hval]; split
      · exact ⟨_, rfl, rfl, by simp [f16to32]⟩
      · exact ⟨a, hval, rfl, rfl⟩
    have hvd : v = a' ∧ d = none := by
      unfold encodeProp at he; rw [ha'] at he
      simp only [pure, Except.pure, Except.ok.injEq, Prod.mk.injEq] at he
      exact ⟨he.1.symm, he.2.symm⟩
    have hdt' : dtypeOfProp p = a'.dtype := by unfold dtypeOfProp; rw [ha']
    have hra := hr.2
    rw [hval] at hra
    simp only at hra
    obtain ⟨hhead, hwf⟩ := hra
    rw [hnv, hvd.1, hvd.2]
    simp only [Bool.false_eq_true, if_false]
    unfold denseCells
    cases hsa : a.shape with
    | nil => rw [hsa] at hhead; cases hhead
    | cons n' tail =>
      rw [hsa] at hhead
      simp only [List.head?_cons, Option.some.injEq] at hhead
      rw [hsh', hsa]
      simp only []
      rw [if_pos ⟨hhead, by unfold wellShaped; rw [hfl', hsh', hwf]; simp [size, prod], hdt'.symm⟩]
      unfold propD
      rw [ha']
      simp only [hsh', hsa, List.head?_cons, Option.getD_some, List.tail_cons, Option.map_some, hhead, hbo]
  | obj es =>
    have hv' : isVarlen p = true := by unfold isVarlen; rw [hval]
    have hwv := hw.2.2
    rw [hval] at hwv
    obtain ⟨hwf, hh, _⟩ := hwv
    have hup := upcast_obj p es hval
    have hlen := hr.2
    rw [hval] at hlen
    simp only at hlen
    have hvd : v = (Geff.Vlen.encode es).valuesArr ∧ d = some (Geff.Vlen.encode es).dataArr := by
      unfold encodeProp at he; rw [hup, hval] at he
      have henc : vlenCodec.encode es = .ok ((Geff.Vlen.encode es).valuesArr, (Geff.Vlen.encode es).dataArr) := by
        show ofVlen (Geff.Vlen.serializeVlen es) = _
        rw [Geff.Vlen.serializeVlen_eq es hh]; rfl
      simp only [henc, bind, Except.bind, pure, Except.pure, Except.ok.injEq, Prod.mk.injEq] at he
      exact ⟨he.1.symm, he.2.symm⟩
    have hdt' : dtypeOfProp p = Geff.Vlen.dataDtype es := by unfold dtypeOfProp; rw [hup, hval]
    rw [hv', hvd.1, hvd.2, hdt']
    simp only [if_true]
    rw [← hlen, vlenCells_encode es hwf hh]
    unfold propD
    rw [hup, hval]
    rw [hup, ← hlen] at hbo
    simp only [Option.map_some, hbo]

theorem mapM_some_map {α β} (f : α → Option β) (g : α → β) : ∀ (l : List α), (∀ x ∈ l, f x = some (g x)) →
    l.mapM f = some (l.map g) := by
  intro l
  induction l with
  | nil => intro _; rfl
  | cons a t ih =>
    intro h
    simp only [List.mapM_cons, h a (List.mem_cons_self ..), ih (fun x hx => h x (List.mem_cons_of_mem _ hx)), bind,
      Option.bind_some, pure, List.map_cons]

/-- one of the groups of a written store is laid out as specified and denotes the written properties -/
theorem denoteProps_written (s : St) (grp : String) (n : Nat) (ps : Props) (ex : List (String × PropMeta))
    (hpg : get s [grp, "props"] = some (.group []))
    (hnames : ∀ k, (get s [grp, "props", k]).isSome ↔ k ∈ ps.map (·.1))
    (hat : ∀ kp ∈ ps, PropAt vlenCodec s [grp, "props", kp.1] (upcast kp.2))
    (hnd : (ps.map (·.1)).Nodup) (hw : ∀ kp ∈ ps, Writable kp.1 kp.2 ∧ RowsOK n kp.2) :
    ∃ nps, denoteProps s [grp, "props"] n (addOrUpdate ex (ps.map (fun kp => metaOf kp.1 kp.2))) = some nps ∧
      ∀ k, find k nps = (lookupKey k ps).map (fun p => propD (upcast p)) := by
  let names := childNames s [grp, "props"]
  let F : String → PropD := fun k => ((lookupKey k ps).map (fun p => propD (upcast p))).getD default
  have hmem : ∀ k, k ∈ names ↔ k ∈ ps.map (·.1) := fun k => by
    show k ∈ childNames s [grp, "props"] ↔ _
    rw [mem_childNames]; exact hnames k
  refine ⟨names.map (fun k => (k, F k)), ?_, ?_⟩
  · unfold denoteProps
    rw [hpg]
    simp only []
    apply mapM_some_map
    intro k hk
    have hk' := (hmem k).1 hk
    have hs := (lookupKey_isSome_iff k ps).2 hk'
    cases hl : lookupKey k ps with
    | none => rw [hl] at hs; cases hs
    | some p =>
      have hm := lookupKey_mem k ps p hl
      obtain ⟨pm, hpm, hdt, hvl⟩ := stored_meta ex ps hnd (k, p) hm
      have hP := denoteProp_written s [grp, "props", k] k p n pm (hat (k, p) hm) (hw (k, p) hm).1 (hw (k, p) hm).2 hdt hvl
      unfold denotePropNamed
      rw [find_eq_lookupKey, hpm]
      simp only []
      have : [grp, "props"] ++ [k] = [grp, "props", k] := rfl
      rw [this, hP]
      show some (k, propD (upcast p)) = some (k, ((lookupKey k ps).map (fun p => propD (upcast p))).getD default)
      rw [hl]; rfl
  · intro k
    rw [find_eq_lookupKey, lookupKey_map_self]
    by_cases hk : k ∈ names
    · rw [if_pos hk]
      have hs := (lookupKey_isSome_iff k ps).2 ((hmem k).1 hk)
      cases hl : lookupKey k ps with
      | none => rw [hl] at hs; cases hs
      | some p => show some (((lookupKey k ps).map (fun p => propD (upcast p))).getD default) = _; rw [hl]; rfl
    · rw [if_neg hk]
      have : ¬ (lookupKey k ps).isSome := fun h => hk ((hmem k).2 ((lookupKey_isSome_iff k ps).1 h))
      cases hl : lookupKey k ps with
      | none => rfl
      | some p => rw [hl] at this; exact absurd rfl this

/-- **first direction, core**: the store `writeCore` leaves for a well-formed graph is laid out as the
specification says (it denotes *some* graph; which one follows with `readCore_of_denote` and C01) -/
theorem denote_of_written (s0 s' : St) (nid eid : NdArr) (n e : Nat) (W eps : Props) (md : CallerMeta)
    (hW : Written vlenCodec s0 s' nid eid W eps (attrOf md W eps))
    (hns : nid.shape = [n]) (hes : eid.shape = [e, 2]) (hint : nid.dtype.isInteger = true) (hsame : eid.dtype = nid.dtype)
    (hnwf : nid.WF) (hewf : eid.WF)
    (hndW : (W.map (·.1)).Nodup) (hwW : ∀ kp ∈ W, Writable kp.1 kp.2 ∧ RowsOK n kp.2)
    (hndE : (eps.map (·.1)).Nodup) (hwE : ∀ kp ∈ eps, Writable kp.1 kp.2 ∧ RowsOK e kp.2) :
    ∃ G, denote s' = some G ∧ G.directed = md.directed ∧ G.idDtype = nid.dtype ∧ G.nodes = nid.flat ∧
      G.edges = pairs eid.flat ∧
      (∀ k, find k G.nodeProps = (lookupKey k W).map (fun p => propD (upcast p))) ∧
      (∀ k, find k G.edgeProps = (lookupKey k eps).map (fun p => propD (upcast p))) := by
  obtain ⟨a, hroot, hgeff⟩ := hW.root
  have hN : Gen.Paths.NODES = "nodes" := rfl
  have hE : Gen.Paths.EDGES = "edges" := rfl
  have hI : Gen.Paths.IDS = "ids" := rfl
  have hP : Gen.Paths.PROPS = "props" := rfl
  have h1 : geffMeta s' = some (attrOf md W eps) := by
    unfold geffMeta; rw [hroot]; simp only [find_eq_lookupKey, hgeff]
  have h2 : groupAt s' ["nodes"] = true := by unfold groupAt; rw [← hN, hW.nodesGrp]
  have h3 : groupAt s' ["edges"] = true := by unfold groupAt; rw [← hE, hW.edgesGrp]
  have h4 : arrayAt s' ["nodes", "ids"] = some nid := by unfold arrayAt; rw [← hN, ← hI, hW.nodeIds]
  have h5 : arrayAt s' ["edges", "ids"] = some eid := by unfold arrayAt; rw [← hE, ← hI, hW.edgeIds]
  obtain ⟨np, hnp, hnpf⟩ := denoteProps_written s' "nodes" n W md.nodeProps (by rw [← hN, ← hP]; exact hW.nodePropsGrp)
    (by intro k; rw [← hN, ← hP]; exact hW.nodeNames k) (by intro kp hm; rw [← hN, ← hP]; exact hW.nodeProps kp hm) hndW hwW
  obtain ⟨ep, hep, hepf⟩ := denoteProps_written s' "edges" e eps md.edgeProps (by rw [← hE, ← hP]; exact hW.edgePropsGrp)
    (by intro k; rw [← hE, ← hP]; exact hW.edgeNames k) (by intro kp hm; rw [← hE, ← hP]; exact hW.edgeProps kp hm) hndE hwE
  refine ⟨⟨md.directed, nid.dtype, nid.flat, pairs eid.flat, np, ep⟩, ?_, rfl, rfl, rfl, rfl, hnpf, hepf⟩
  unfold denote
  rw [h1, h2, h3, h4, h5]
  simp only [hns, hes, List.head?_cons, Option.getD_some]
  have hok : idsOK nid eid n e = true := by
    unfold idsOK wellShaped
    rw [hns, hes, hint, hsame, hnwf, hewf, hns, hes]
    simp [size, prod]
  rw [if_pos hok]
  have hn' : (attrOf md W eps).nodeProps = addOrUpdate md.nodeProps (W.map (fun kp => metaOf kp.1 kp.2)) := rfl
  have he' : (attrOf md W eps).edgeProps = addOrUpdate md.edgeProps (eps.map (fun kp => metaOf kp.1 kp.2)) := rfl
  rw [hn', he', hnp, hep]
  rfl

end Geff.Spec
