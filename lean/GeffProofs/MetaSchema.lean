import GeffProofs.Meta
import GeffModel.SchemaSpec
/-! Schema-validity lemmas for C08: the dump of every valid metadata value validates against the
typed specification `Schema.Spec`, one lemma per definition. -/
set_option autoImplicit false
namespace Geff.Meta.Schema
open Geff.Meta

variable (mp : String → String → Bool) (defs : List (String × Sch))

theorem str_valid (n : Nat) (s : String) : validates mp defs (n + 1) Spec.str (.str s) = true := by
  simp [validates, Spec.str, Spec.S, typeOk, refOk, scalarOk, anyOfOk, itemsOk, objOk]

theorem null_valid (n : Nat) : validates mp defs (n + 1) Spec.null .null = true := by
  simp [validates, Spec.null, Spec.S, typeOk, refOk, scalarOk, anyOfOk, itemsOk, objOk]

theorem optString_valid (n : Nat) (o : Option String) :
    validates mp defs (n + 2) Spec.optString (optStrJ o) = true := by
  cases o <;>
    simp [validates, Spec.optString, Spec.str, Spec.null, Spec.S, optStrJ, typeOk, refOk, scalarOk, anyOfOk,
      itemsOk, objOk]

theorem optNumber_valid (n : Nat) (o : Option F) :
    validates mp defs (n + 2) Spec.optNumber (optNumJ o) = true := by
  cases o <;>
    simp [validates, Spec.optNumber, Spec.null, Spec.S, optNumJ, typeOk, refOk, scalarOk, anyOfOk, itemsOk, objOk]

theorem unit_valid (n : Nat) (o : Option String) :
    validates mp defs (n + 2) Spec.unit (optStrJ o) = true := by
  cases o <;>
    simp [validates, Spec.unit, Spec.str, Spec.null, Spec.strEnum, Spec.S, optStrJ, typeOk, refOk, scalarOk,
      anyOfOk, itemsOk, objOk]

theorem axisType_valid (n : Nat) (o : Option String) (h : ∀ t ∈ o, t ∈ Gen.ValidValues.axisTypes) :
    validates mp defs (n + 2) (Spec.S (anyOf := some [Spec.strEnum Gen.ValidValues.axisTypes, Spec.null]))
      (optStrJ o) = true := by
  cases o with
  | none =>
    simp [validates, Spec.null, Spec.strEnum, Spec.S, optStrJ, typeOk, refOk, scalarOk, anyOfOk, itemsOk, objOk]
  | some t =>
    have ht : t ∈ Gen.ValidValues.axisTypes := h t rfl
    simp [validates, Spec.null, Spec.strEnum, Spec.S, optStrJ, typeOk, refOk, scalarOk, anyOfOk, itemsOk, objOk, ht]

/-- `Axis` -/
theorem axis_valid (n : Nat) {ord : F → F → Bool} {a : Axis} (h : a.ValidBy ord) :
    validates mp defs (n + 3) Spec.axis (dumpAxis a) = true := by
  have ht := axisType_valid mp defs n a.type h.1
  have hu := unit_valid mp defs n a.unit
  have hsu := unit_valid mp defs n a.scaled_unit
  have hmin := optNumber_valid mp defs n a.min
  have hmax := optNumber_valid mp defs n a.max
  have hsc := optNumber_valid mp defs n a.scale
  have hoff := optNumber_valid mp defs n a.offset
  have hname := str_valid mp defs (n + 1) a.name
  simp only [Spec.axis, Spec.S, dumpAxis, validates, refOk, scalarOk, typeOk, anyOfOk, itemsOk, objOk, lookup,
    String.reduceEq, ↓reduceIte, List.all_cons, List.all_nil, Option.isSome, hname, ht, hu, hsu, hmin, hmax, hsc,
    hoff, Bool.and_self, Bool.true_and, Bool.and_true, beq_self_eq_true]

end Geff.Meta.Schema
