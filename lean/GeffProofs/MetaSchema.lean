import GeffProofs.Meta
import GeffModel.SchemaSpec
/-! Schema-validity lemmas for C08: the dump of every valid metadata value validates against the
typed specification `Schema.Spec`, one lemma per definition. -/
set_option autoImplicit false
set_option linter.unusedSimpArgs false
namespace Geff.Meta.Schema
open Geff.Meta

variable (mp : String → String → Bool) (defs : List (String × Sch))

theorem str_valid (n : Nat) (s : String) : validates mp defs (n + 1) Spec.str (.str s) = true := by
  simp [validates, Spec.str, Spec.S, typeOk, refOk, scalarOk, anyOfOk, itemsOk, objOk]

theorem null_valid (n : Nat) : validates mp defs (n + 1) Spec.null .null = true := by
  simp [validates, Spec.null, Spec.S, typeOk, refOk, scalarOk, anyOfOk, itemsOk, objOk]

theorem optString_valid (n : Nat) (o : Option String) :
    validates mp defs (n + 2) Spec.optString (optStrJ o) = true := by
  cases o <;>
    simp [validates, Spec.optString, Spec.str, Spec.null, Spec.S, optStrJ, typeOk, refOk, scalarOk, anyOfOk,
      itemsOk, objOk]

theorem optNumber_valid (n : Nat) (o : Option F) :
    validates mp defs (n + 2) Spec.optNumber (optNumJ o) = true := by
  cases o <;>
    simp [validates, Spec.optNumber, Spec.null, Spec.S, optNumJ, typeOk, refOk, scalarOk, anyOfOk, itemsOk, objOk]

theorem unit_valid (n : Nat) (o : Option String) :
    validates mp defs (n + 2) Spec.unit (optStrJ o) = true := by
  cases o <;>
    simp [validates, Spec.unit, Spec.str, Spec.null, Spec.strEnum, Spec.S, optStrJ, typeOk, refOk, scalarOk,
      anyOfOk, itemsOk, objOk]

theorem axisType_valid (n : Nat) (o : Option String) (h : ∀ t ∈ o, t ∈ Gen.ValidValues.axisTypes) :
    validates mp defs (n + 2) Spec.axisType (optStrJ o) = true := by
  cases o with
  | none =>
    simp [validates, Spec.axisType, Spec.null, Spec.strEnum, Spec.S, optStrJ, typeOk, refOk, scalarOk, anyOfOk, itemsOk, objOk]
  | some t =>
    have ht : t ∈ Gen.ValidValues.axisTypes := h t rfl
    simp [validates, Spec.axisType, Spec.null, Spec.strEnum, Spec.S, optStrJ, typeOk, refOk, scalarOk, anyOfOk, itemsOk, objOk, ht]

/-- `Axis` -/
theorem axis_valid (n : Nat) {ord : F → F → Bool} {a : Axis} (h : a.ValidBy ord) :
    validates mp defs (n + 3) Spec.axis (dumpAxis a) = true := by
  have ht := axisType_valid mp defs n a.type h.1
  have hu := unit_valid mp defs n a.unit
  have hsu := unit_valid mp defs n a.scaled_unit
  have hmin := optNumber_valid mp defs n a.min
  have hmax := optNumber_valid mp defs n a.max
  have hsc := optNumber_valid mp defs n a.scale
  have hoff := optNumber_valid mp defs n a.offset
  have hname := str_valid mp defs (n + 1) a.name
  simp only [Spec.axis, Spec.S, dumpAxis, validates, refOk, scalarOk, typeOk, anyOfOk, itemsOk, objOk, List.all_cons,
    List.all_nil, List.map]
  simp only [lookup, String.reduceBEq, Bool.false_eq_true, ↓reduceIte, Option.isSome, hname, ht, hu, hsu, hmin, hmax, hsc, hoff, Bool.and_self,
    Bool.and_true, Bool.true_and]

/-- `DisplayHint` -/
theorem displayHint_valid (n : Nat) (h : DisplayHint) :
    validates mp defs (n + 3) Spec.displayHint (dumpHint h) = true := by
  have h1 := str_valid mp defs (n + 1) h.display_horizontal
  have h2 := str_valid mp defs (n + 1) h.display_vertical
  have h3 := optString_valid mp defs n h.display_depth
  have h4 := optString_valid mp defs n h.display_time
  simp only [Spec.displayHint, Spec.S, dumpHint, validates, refOk, scalarOk, typeOk, anyOfOk, itemsOk, objOk, List.all_cons,
    List.all_nil, List.map]
  simp only [lookup, String.reduceBEq, Bool.false_eq_true, ↓reduceIte, Option.isSome, h1, h2, h3, h4, Bool.and_self,
    Bool.and_true, Bool.true_and]

theorem nonEmptyStr_valid (n : Nat) (s : String) (h : 1 ≤ s.length) :
    validates mp defs (n + 1) Spec.nonEmptyStr (.str s) = true := by
  simp [validates, Spec.nonEmptyStr, Spec.S, typeOk, refOk, scalarOk, anyOfOk, itemsOk, objOk, h]

theorem boolean_valid (n : Nat) (b : Bool) : validates mp defs (n + 1) Spec.boolean (.bool b) = true := by
  simp [validates, Spec.boolean, Spec.S, typeOk, refOk, scalarOk, anyOfOk, itemsOk, objOk]

theorem dtypes_nonempty' : ∀ d ∈ Gen.ValidValues.dtypes, 1 ≤ d.length := by decide

/-- `PropMetadata` -/
theorem propMetadata_valid (n : Nat) {p : PropMeta} (h : p.Valid) :
    validates mp defs (n + 3) Spec.propMetadata (dumpProp p) = true := by
  have h1 := nonEmptyStr_valid mp defs (n + 1) p.identifier h.1
  have h2 := nonEmptyStr_valid mp defs (n + 1) p.dtype (dtypes_nonempty' _ h.2)
  have h3 := boolean_valid mp defs (n + 1) p.varlength
  have h4 := optString_valid mp defs n p.unit
  have h5 := optString_valid mp defs n p.name
  have h6 := optString_valid mp defs n p.description
  simp only [Spec.propMetadata, Spec.S, dumpProp, validates, refOk, scalarOk, typeOk, anyOfOk, itemsOk, objOk, List.all_cons,
    List.all_nil, List.map]
  simp only [lookup, String.reduceBEq, Bool.false_eq_true, ↓reduceIte, Option.isSome, h1, h2, h3, h4, h5, h6, Bool.and_self,
    Bool.and_true, Bool.true_and]

/-- `RelatedObject` -/
theorem relatedObject_valid (n : Nat) (r : RelatedObject) :
    validates mp defs (n + 3) Spec.relatedObject (dumpRelated r) = true := by
  have h1 := str_valid mp defs (n + 1) r.type
  have h2 := str_valid mp defs (n + 1) r.path
  have h3 := optString_valid mp defs n r.label_prop
  simp only [Spec.relatedObject, Spec.S, dumpRelated, validates, refOk, scalarOk, typeOk, anyOfOk, itemsOk, objOk, List.all_cons,
    List.all_nil, List.map]
  simp only [lookup, String.reduceBEq, Bool.false_eq_true, ↓reduceIte, Option.isSome, h1, h2, h3, Bool.and_self,
    Bool.and_true, Bool.true_and]

/-- following a `$ref` -/
theorem ref_valid (n : Nat) (name : String) (s : Sch) (d : J)
    (hl : lookup defs ("#/$defs/" ++ name) = some s) (h : validates mp defs n s d = true) :
    validates mp defs (n + 1) (Spec.ref name) d = true := by
  cases d <;> simp [validates, Spec.ref, Spec.S, refOk, hl, h, scalarOk, anyOfOk, itemsOk, objOk]

theorem defs_axis : lookup Spec.defs ("#/$defs/" ++ "Axis") = some Spec.axis := rfl
theorem defs_displayHint : lookup Spec.defs ("#/$defs/" ++ "DisplayHint") = some Spec.displayHint := rfl
theorem defs_geffMetadata : lookup Spec.defs ("#/$defs/" ++ "GeffMetadata") = some Spec.geffMetadata := rfl
theorem defs_propMetadata : lookup Spec.defs ("#/$defs/" ++ "PropMetadata") = some Spec.propMetadata := rfl
theorem defs_relatedObject : lookup Spec.defs ("#/$defs/" ++ "RelatedObject") = some Spec.relatedObject := rfl

/-! ### the fields of `GeffMetadata` -/

theorem axesField_valid (n : Nat) {ord : F → F → Bool} (axes : Option (List Axis))
    (h : ∀ l ∈ axes, ∀ a ∈ l, a.ValidBy ord) :
    validates mp Spec.defs (n + 6) Spec.axesField (dumpAxesOpt axes) = true := by
  cases axes with
  | none => simp [dumpAxesOpt, validates, Spec.axesField, Spec.null, Spec.S, typeOk, refOk, scalarOk, anyOfOk, itemsOk, objOk]
  | some l =>
    have hall : ∀ a ∈ l, validates mp Spec.defs (n + 4) (Spec.ref "Axis") (dumpAxis a) = true :=
      fun a ha => ref_valid mp Spec.defs (n + 3) "Axis" Spec.axis _ defs_axis (axis_valid mp Spec.defs n (h l rfl a ha))
    have : (l.map dumpAxis).all (fun x => validates mp Spec.defs (n + 4) (Spec.ref "Axis") x) = true := by
      simp only [List.all_map, List.all_eq_true]
      exact fun a ha => hall a ha
    simp [dumpAxesOpt, validates, Spec.axesField, Spec.null, Spec.S, typeOk, refOk, scalarOk, anyOfOk, itemsOk, objOk, this]

theorem relatedField_valid (n : Nat) (rel : Option (List RelatedObject)) :
    validates mp Spec.defs (n + 6) Spec.relatedField (dumpRelatedOpt rel) = true := by
  cases rel with
  | none => simp [dumpRelatedOpt, validates, Spec.relatedField, Spec.null, Spec.S, typeOk, refOk, scalarOk, anyOfOk, itemsOk, objOk]
  | some l =>
    have : (l.map dumpRelated).all (fun x => validates mp Spec.defs (n + 4) (Spec.ref "RelatedObject") x) = true := by
      simp only [List.all_map, List.all_eq_true]
      exact fun r _ => ref_valid mp Spec.defs (n + 3) "RelatedObject" Spec.relatedObject _ defs_relatedObject
        (relatedObject_valid mp Spec.defs n r)
    simp [dumpRelatedOpt, validates, Spec.relatedField, Spec.null, Spec.S, typeOk, refOk, scalarOk, anyOfOk, itemsOk, objOk, this]

theorem displayHintsField_valid (n : Nat) (h : Option DisplayHint) :
    validates mp Spec.defs (n + 5) Spec.displayHintsField (dumpHintOpt h) = true := by
  cases h with
  | none =>
    simp [dumpHintOpt, validates, Spec.displayHintsField, Spec.ref, Spec.null, Spec.S, typeOk, refOk, scalarOk, anyOfOk, itemsOk,
      objOk]
  | some h =>
    have := ref_valid mp Spec.defs (n + 3) "DisplayHint" Spec.displayHint _ defs_displayHint
      (displayHint_valid mp Spec.defs n h)
    have hobj : ∃ fs, dumpHint h = .obj fs := ⟨_, rfl⟩
    obtain ⟨fs, hfs⟩ := hobj
    rw [hfs] at this
    show validates mp Spec.defs (n + 5) Spec.displayHintsField (dumpHint h) = true
    rw [hfs]
    simp [validates, Spec.displayHintsField, Spec.null, Spec.S, anyOfOk, refOk, scalarOk, itemsOk, objOk, this]

theorem propsDict_valid (n : Nat) {d : List (String × PropMeta)} (h : PropsValid d) :
    validates mp Spec.defs (n + 5) Spec.propsDict (dumpPropsDict d) = true := by
  have : (d.map (fun kv => (kv.1, dumpProp kv.2))).all
      (fun kv => validates mp Spec.defs (n + 4) (Spec.ref "PropMetadata") kv.2) = true := by
    simp only [List.all_map, List.all_eq_true]
    exact fun kv hkv => ref_valid mp Spec.defs (n + 3) "PropMetadata" Spec.propMetadata _ defs_propMetadata
      (propMetadata_valid mp Spec.defs n (h kv hkv).2)
  simp [validates, Spec.propsDict, Spec.S, dumpPropsDict, typeOk, refOk, scalarOk, anyOfOk, itemsOk, objOk, this]

theorem extraField_valid (n : Nat) (e : List (String × J)) :
    validates mp Spec.defs (n + 2) Spec.extraField (.obj e) = true := by
  simp [validates, Spec.extraField, Spec.S, typeOk, refOk, scalarOk, anyOfOk, itemsOk, objOk]

theorem versionField_valid (n : Nat) (v : String) (h : mp Gen.Schema.VERSION_PATTERN v = true) :
    validates mp Spec.defs (n + 1) Spec.versionField (.str v) = true := by
  simp [validates, Spec.versionField, Spec.S, typeOk, refOk, scalarOk, anyOfOk, itemsOk, objOk, h]

theorem trackField_valid (n : Nat) (t : Option (List (String × String)))
    (h : ∀ l ∈ t, ∀ kv ∈ l, kv.1 ∈ trackKeys) :
    validates mp Spec.defs (n + 3) Spec.trackField (dumpTrackOpt t) = true := by
  cases t with
  | none => simp [dumpTrackOpt, validates, Spec.trackField, Spec.null, Spec.S, typeOk, refOk, scalarOk, anyOfOk, itemsOk, objOk]
  | some l =>
    have hk : ∀ kv ∈ l, ["lineage", "tracklet"].contains kv.1 = true := by
      intro kv hkv
      have := h l rfl kv hkv
      simpa [trackKeys] using this
    simp [dumpTrackOpt, validates, Spec.trackField, Spec.null, Spec.str, Spec.S, typeOk, refOk, scalarOk, anyOfOk, itemsOk, objOk,
      List.all_map, List.all_eq_true]
    intro a b hab
    simpa using hk (a, b) hab

/-- `GeffMetadata`: the dump of a value satisfying the invariants validates against the definition -/
theorem geffMetadata_valid (n : Nat) {ord : F → F → Bool} {env : Env} {m : Meta} (hm : ValidBy ord env m) :
    validates env.pat Spec.defs (n + 7) Spec.geffMetadata (dump m) = true := by
  obtain ⟨hv, hax, hn, he, ht, hr⟩ := hm
  have a1 := axesField_valid env.pat n m.axes (fun l hl => (hax l hl).2.1)
  have a2 := boolean_valid env.pat Spec.defs (n + 5) m.directed
  have a3 := displayHintsField_valid env.pat (n + 1) m.display_hints
  have a4 := propsDict_valid env.pat (n + 1) he
  have a5 := optString_valid env.pat Spec.defs (n + 4) m.ellipsoid
  have a6 := extraField_valid env.pat (n + 4) m.extra
  have a7 := versionField_valid env.pat (n + 5) m.geff_version hv
  have a8 := propsDict_valid env.pat (n + 1) hn
  have a9 := relatedField_valid env.pat n m.related_objects
  have a10 := optString_valid env.pat Spec.defs (n + 4) m.sphere
  have a11 := trackField_valid env.pat (n + 3) m.track_node_props ht
  simp only [Spec.geffMetadata, Spec.S, dump, dumpFields, validates, refOk, scalarOk, typeOk, anyOfOk, itemsOk, objOk,
    List.all_cons, List.all_nil]
  simp only [lookup, String.reduceBEq, Bool.false_eq_true, ↓reduceIte, Option.isSome, a1, a2, a3, a4, a5, a6, a7, a8,
    a9, a10, a11, Bool.and_self, Bool.and_true, Bool.true_and]

/-- the root schema: `{"geff": <dump>}` -/
theorem root_valid (n : Nat) {ord : F → F → Bool} {env : Env} {m : Meta} (hm : ValidBy ord env m) :
    validates env.pat Spec.defs (n + 9) Spec.root (.obj [("geff", dump m)]) = true := by
  have := ref_valid env.pat Spec.defs (n + 7) "GeffMetadata" Spec.geffMetadata _ defs_geffMetadata
    (geffMetadata_valid n hm)
  simp only [Spec.root, Spec.S, validates, refOk, scalarOk, typeOk, anyOfOk, itemsOk, objOk, List.all_cons,
    List.all_nil]
  simp only [lookup, String.reduceBEq, Bool.false_eq_true, ↓reduceIte, Option.isSome, this, Bool.and_self,
    Bool.and_true, Bool.true_and]

end Geff.Meta.Schema
