import Mathlib.Tactic.Ring
import Mathlib.Tactic.Linarith
import Mathlib.Tactic.Positivity
import Mathlib.Algebra.Order.Field.Rat
import GeffModel.Ellipsoid
import GeffProofs.ValidateData
/-! Helper lemmas for the exact ellipsoid stage (C12): Sylvester's criterion for sides 1, 2, 3 over an
arbitrary linearly ordered field (explicit completion of the square), and the bridge from the
list-of-rows model `Geff.Validate.Mat` to explicit entries. -/
namespace Geff.Validate

/-! ## Sylvester's criterion over a linearly ordered field, explicit entries -/
section generic
variable {K : Type} [Field K] [LinearOrder K] [IsStrictOrderedRing K]

theorem sylv1 (a : K) : 0 < a ↔ ∀ x : K, x ≠ 0 → 0 < x * (a * x) := by
  constructor
  · intro ha x hx
    have : 0 < x * x := mul_self_pos.2 hx
    nlinarith
  · intro h
    have := h 1 one_ne_zero
    simpa using this

/-- side 2: `a·q(x,y) = (ax+by)² + (ac−b²)·y²` -/
theorem sylv2 (a b c : K) :
    (0 < a ∧ 0 < a * c - b * b) ↔
      ∀ x y : K, (x ≠ 0 ∨ y ≠ 0) → 0 < x * (a * x + b * y) + y * (b * x + c * y) := by
  constructor
  · rintro ⟨ha, hd⟩ x y hxy
    have key : a * (x * (a * x + b * y) + y * (b * x + c * y)) =
        (a * x + b * y) ^ 2 + (a * c - b * b) * y ^ 2 := by ring
    have hpos : 0 < (a * x + b * y) ^ 2 + (a * c - b * b) * y ^ 2 := by
      by_cases hy : y = 0
      · subst hy
        have hx : x ≠ 0 := by tauto
        have : 0 < (a * x) ^ 2 := by positivity
        simpa using this
      · have : 0 < y ^ 2 := by positivity
        have := mul_pos hd this
        nlinarith [sq_nonneg (a * x + b * y)]
    rw [← key] at hpos
    exact (mul_pos_iff_of_pos_left ha).1 hpos
  · intro h
    have ha : 0 < a := by simpa using h 1 0 (Or.inl one_ne_zero)
    refine ⟨ha, ?_⟩
    have := h (-b) a (Or.inr ha.ne')
    have e : -b * (a * -b + b * a) + a * (b * -b + c * a) = a * (a * c - b * b) := by ring
    rw [e] at this
    exact (mul_pos_iff_of_pos_left ha).1 this

/-- the quadratic form of the symmetric matrix `[[a,b,c],[b,d,e],[c,e,f]]` -/
def q3 (a b c d e f x y z : K) : K :=
  x * (a * x + b * y + c * z) + y * (b * x + d * y + e * z) + z * (c * x + e * y + f * z)

/-- its determinant (Laplace expansion along the first row) -/
def det3 (a b c d e f : K) : K :=
  a * (d * f - e * e) - b * (b * f - e * c) + c * (b * e - d * c)

/-- side 3: `a·q = (ax+by+cz)² + Q(y,z)` where `Q` is the 2 × 2 form with matrix
`[[Δ₂, ae−bc],[ae−bc, af−c²]]` and `det Q = a·Δ₃`; conversely evaluate `q` at `e₁`, on the plane
`z = 0`, and at the third column of the adjugate, where `q = Δ₂·Δ₃`. -/
theorem sylv3 (a b c d e f : K) :
    (0 < a ∧ 0 < a * d - b * b ∧ 0 < det3 a b c d e f) ↔
      ∀ x y z : K, (x ≠ 0 ∨ y ≠ 0 ∨ z ≠ 0) → 0 < q3 a b c d e f x y z := by
  constructor
  · rintro ⟨ha, hd2, hd3⟩ x y z hxyz
    have key : a * q3 a b c d e f x y z =
        (a * x + b * y + c * z) ^ 2 +
          (y * ((a * d - b * b) * y + (a * e - b * c) * z) +
            z * ((a * e - b * c) * y + (a * f - c * c) * z)) := by
      unfold q3; ring
    have hdet : (a * d - b * b) * (a * f - c * c) - (a * e - b * c) * (a * e - b * c) =
        a * det3 a b c d e f := by
      unfold det3; ring
    have hQ := (sylv2 (a * d - b * b) (a * e - b * c) (a * f - c * c)).1
      ⟨hd2, by rw [hdet]; exact mul_pos ha hd3⟩
    have hpos : 0 < a * q3 a b c d e f x y z := by
      rw [key]
      by_cases hyz : y ≠ 0 ∨ z ≠ 0
      · have := hQ y z hyz
        nlinarith [sq_nonneg (a * x + b * y + c * z)]
      · have hy : y = 0 := by
          by_contra hne; exact hyz (Or.inl hne)
        have hz : z = 0 := by
          by_contra hne; exact hyz (Or.inr hne)
        subst hy; subst hz
        have hx : x ≠ 0 := by tauto
        have : 0 < (a * x) ^ 2 := by positivity
        simpa using this
    exact (mul_pos_iff_of_pos_left ha).1 hpos
  · intro h
    have h2 : ∀ x y : K, (x ≠ 0 ∨ y ≠ 0) → 0 < x * (a * x + b * y) + y * (b * x + d * y) := by
      intro x y hxy
      have := h x y 0 (by tauto)
      unfold q3 at this
      simpa using this
    obtain ⟨ha, hd2⟩ := (sylv2 a b d).2 h2
    refine ⟨ha, hd2, ?_⟩
    have := h (b * e - c * d) (b * c - a * e) (a * d - b * b) (Or.inr (Or.inr hd2.ne'))
    have e3 : q3 a b c d e f (b * e - c * d) (b * c - a * e) (a * d - b * b) =
        (a * d - b * b) * det3 a b c d e f := by unfold q3 det3; ring
    rw [e3] at this
    exact (mul_pos_iff_of_pos_left hd2).1 this
end generic

/-! ## specification predicates on the list-of-rows model -/
/-- symmetric: `A[i][j] = A[j][i]` wherever either is defined -/
def IsSymm (A : Mat) : Prop := ∀ i j, A.get? i j = A.get? j i

/-- a vector with a non-zero coordinate -/
def NonZero (x : List Rat) : Prop := ∃ c ∈ x, c ≠ 0

/-- positive definite: `xᵀ A x > 0` for every non-zero vector of the matrix's size -/
def PosDef (A : Mat) : Prop := ∀ x : List Rat, x.length = A.length → NonZero x → 0 < quadForm A x

/-! ## explicit entries -/
theorem sylvester_one (a : Rat) : sylvester [[a]] = true ↔ 0 < a := by
  simp [sylvester, minor, det, detAux, leading, altSum, List.range, List.range.loop, List.zipIdx]

theorem sylvester_two (a b c d : Rat) :
    sylvester [[a, b], [c, d]] = true ↔ 0 < a ∧ 0 < a * d - b * c := by
  simp [sylvester, minor, det, detAux, leading, altSum, List.range, List.range.loop, List.zipIdx,
    List.eraseIdx]

theorem sylvester_three (a b c d e f g h i : Rat) :
    sylvester [[a, b, c], [d, e, f], [g, h, i]] = true ↔
      0 < a ∧ 0 < a * e - b * d ∧
        0 < a * (e * i - f * h) - (b * (d * i - f * g) - c * (d * h - e * g)) := by
  simp [sylvester, minor, det, detAux, leading, altSum, List.range, List.range.loop, List.zipIdx,
    List.eraseIdx]

theorem isSymmetric_one (a : Rat) : isSymmetric [[a]] = true := by
  simp [isSymmetric, allPairs, Mat.get?, List.range, List.range.loop]

theorem isSymmetric_two (a b c d : Rat) : isSymmetric [[a, b], [c, d]] = true ↔ b = c := by
  simp [isSymmetric, allPairs, Mat.get?, List.range, List.range.loop]
  exact fun h => h.symm

theorem isSymmetric_three (a b c d e f g h i : Rat) :
    isSymmetric [[a, b, c], [d, e, f], [g, h, i]] = true ↔ b = d ∧ c = g ∧ f = h := by
  simp [isSymmetric, allPairs, Mat.get?, List.range, List.range.loop]
  constructor
  · rintro ⟨⟨h1, h2⟩, ⟨_, h3⟩, _⟩; exact ⟨h1, h2, h3⟩
  · rintro ⟨h1, h2, h3⟩; exact ⟨⟨h1, h2⟩, ⟨h1.symm, h3⟩, h2.symm, h3.symm⟩

theorem nonZero_one (x : Rat) : NonZero [x] ↔ x ≠ 0 := by simp [NonZero]
theorem nonZero_two (x y : Rat) : NonZero [x, y] ↔ x ≠ 0 ∨ y ≠ 0 := by simp [NonZero]
theorem nonZero_three (x y z : Rat) : NonZero [x, y, z] ↔ x ≠ 0 ∨ y ≠ 0 ∨ z ≠ 0 := by simp [NonZero]

theorem posDef_one (a : Rat) : PosDef [[a]] ↔ ∀ x : Rat, x ≠ 0 → 0 < x * (a * x) := by
  constructor
  · intro h x hx
    have := h [x] rfl ((nonZero_one x).2 hx)
    simpa [quadForm, dot] using this
  · intro h v hv hnz
    obtain ⟨x, rfl⟩ := List.length_eq_one_iff.1 hv
    have := h x ((nonZero_one x).1 hnz)
    simpa [quadForm, dot] using this

theorem posDef_two (a b c d : Rat) :
    PosDef [[a, b], [c, d]] ↔
      ∀ x y : Rat, (x ≠ 0 ∨ y ≠ 0) → 0 < x * (a * x + b * y) + y * (c * x + d * y) := by
  constructor
  · intro h x y hxy
    have := h [x, y] rfl ((nonZero_two x y).2 hxy)
    simpa [quadForm, dot] using this
  · intro h v hv hnz
    obtain ⟨x, y, rfl⟩ := List.length_eq_two.1 hv
    have := h x y ((nonZero_two x y).1 hnz)
    simpa [quadForm, dot] using this

theorem posDef_three (a b c d e f g h i : Rat) :
    PosDef [[a, b, c], [d, e, f], [g, h, i]] ↔
      ∀ x y z : Rat, (x ≠ 0 ∨ y ≠ 0 ∨ z ≠ 0) →
        0 < x * (a * x + b * y + c * z) + y * (d * x + e * y + f * z) + z * (g * x + h * y + i * z) := by
  constructor
  · intro hp x y z hxyz
    have := hp [x, y, z] rfl ((nonZero_three x y z).2 hxyz)
    simpa [quadForm, dot, add_assoc] using this
  · intro hp v hv hnz
    obtain ⟨x, y, z, rfl⟩ := List.length_eq_three.1 hv
    have := hp x y z ((nonZero_three x y z).1 hnz)
    simpa [quadForm, dot, add_assoc] using this

/-! ## square matrices -/
theorem isSquare_iff (A : Mat) (n : Nat) :
    A.isSquare n = true ↔ A.length = n ∧ ∀ r ∈ A, r.length = n := by
  simp [Mat.isSquare]

theorem get?_none_of_ge (A : Mat) (n : Nat) (h : A.isSquare n = true) (i j : Nat)
    (hij : n ≤ i ∨ n ≤ j) : A.get? i j = none := by
  obtain ⟨hl, hr⟩ := (isSquare_iff A n).1 h
  unfold Mat.get?
  cases hrow : A[i]? with
  | none => rfl
  | some row =>
    have hmem := List.mem_of_getElem? hrow
    have hi : i < A.length := by
      by_contra hge
      rw [List.getElem?_eq_none (by omega)] at hrow
      cases hrow
    have hj : n ≤ j := by omega
    simp only [Option.bind_some]
    exact List.getElem?_eq_none (by rw [hr row hmem]; exact hj)

/-- on a square matrix the Boolean test decides `IsSymm` -/
theorem isSymmetric_iff (A : Mat) (n : Nat) (h : A.isSquare n = true) :
    isSymmetric A = true ↔ IsSymm A := by
  obtain ⟨hl, _⟩ := (isSquare_iff A n).1 h
  constructor
  · intro hs i j
    by_cases hij : i < n ∧ j < n
    · unfold isSymmetric allPairs at hs
      rw [hl] at hs
      simp only [List.all_eq_true, List.mem_range, beq_iff_eq] at hs
      exact hs i hij.1 j hij.2
    · have h1 : n ≤ i ∨ n ≤ j := by omega
      rw [get?_none_of_ge A n h i j h1, get?_none_of_ge A n h j i (by omega)]
  · intro hs
    unfold isSymmetric allPairs
    simp only [List.all_eq_true, List.mem_range, beq_iff_eq]
    intro i _ j _
    exact hs i j

theorem square_one (A : Mat) (h : A.isSquare 1 = true) : ∃ a, A = [[a]] := by
  obtain ⟨hl, hr⟩ := (isSquare_iff A 1).1 h
  obtain ⟨r, rfl⟩ := List.length_eq_one_iff.1 hl
  obtain ⟨a, rfl⟩ := List.length_eq_one_iff.1 (hr r (by simp))
  exact ⟨a, rfl⟩

theorem square_two (A : Mat) (h : A.isSquare 2 = true) : ∃ a b c d, A = [[a, b], [c, d]] := by
  obtain ⟨hl, hr⟩ := (isSquare_iff A 2).1 h
  obtain ⟨r1, r2, rfl⟩ := List.length_eq_two.1 hl
  obtain ⟨a, b, rfl⟩ := List.length_eq_two.1 (hr r1 (by simp))
  obtain ⟨c, d, rfl⟩ := List.length_eq_two.1 (hr r2 (by simp))
  exact ⟨a, b, c, d, rfl⟩

theorem square_three (A : Mat) (hsq : A.isSquare 3 = true) :
    ∃ a b c d e f g h i, A = [[a, b, c], [d, e, f], [g, h, i]] := by
  obtain ⟨hl, hr⟩ := (isSquare_iff A 3).1 hsq
  obtain ⟨r1, r2, r3, rfl⟩ := List.length_eq_three.1 hl
  obtain ⟨a, b, c, rfl⟩ := List.length_eq_three.1 (hr r1 (by simp))
  obtain ⟨d, e, f, rfl⟩ := List.length_eq_three.1 (hr r2 (by simp))
  obtain ⟨g, h, i, rfl⟩ := List.length_eq_three.1 (hr r3 (by simp))
  exact ⟨a, b, c, d, e, f, g, h, i, rfl⟩

/-! ## Sylvester on the list model -/
theorem sylvester_two_iff (a b c : Rat) :
    sylvester [[a, b], [b, c]] = true ↔ PosDef [[a, b], [b, c]] := by
  rw [sylvester_two, posDef_two]
  exact sylv2 a b c

theorem sylvester_three_iff (a b c d e f : Rat) :
    sylvester [[a, b, c], [b, d, e], [c, e, f]] = true ↔ PosDef [[a, b, c], [b, d, e], [c, e, f]] := by
  rw [sylvester_three, posDef_three]
  have h := sylv3 a b c d e f
  unfold q3 det3 at h
  have e1 : a * (d * f - e * e) - (b * (b * f - e * c) - c * (b * e - d * c)) =
      a * (d * f - e * e) - b * (b * f - e * c) + c * (b * e - d * c) := by ring
  rw [e1]
  exact h

/-- **Sylvester's criterion** on the model: for a symmetric square matrix of side 1, 2 or 3 all
leading principal minors are positive iff the matrix is positive definite -/
theorem sylvester_iff_posDef (A : Mat) (n : Nat) (hsq : A.isSquare n = true) (h1 : 1 ≤ n) (h3 : n ≤ 3)
    (hs : IsSymm A) : sylvester A = true ↔ PosDef A := by
  have hsb := (isSymmetric_iff A n hsq).2 hs
  have hn : n = 1 ∨ n = 2 ∨ n = 3 := by omega
  rcases hn with rfl | rfl | rfl
  · obtain ⟨a, rfl⟩ := square_one A hsq
    rw [sylvester_one, posDef_one]
    exact sylv1 a
  · obtain ⟨a, b, c, d, rfl⟩ := square_two A hsq
    obtain rfl := (isSymmetric_two a b c d).1 hsb
    exact sylvester_two_iff a b d
  · obtain ⟨a, b, c, d, e, f, g, h, i, rfl⟩ := square_three A hsq
    obtain ⟨rfl, rfl, rfl⟩ := (isSymmetric_three a b c d e f g h i).1 hsb
    exact sylvester_three_iff a b c e f i

/-! ## `np.allclose(A, Aᵀ)` read exactly, and the margin -/
theorem rabs_eq_abs (x : Rat) : rabs x = |x| := by
  unfold rabs
  split
  · rename_i h; rw [abs_of_neg h]
  · rename_i h; rw [abs_of_nonneg (not_lt.1 h)]

theorem atolQ_pos : 0 < atolQ := by decide +kernel
theorem rtolQ_pos : 0 < rtolQ := by decide +kernel
theorem symSlack_pos : 0 < symSlack := by decide +kernel
theorem symSlack_lt_one : symSlack < 1 := by decide +kernel

/-- the `allclose` threshold for a pair is positive -/
theorem thr_pos (b : Rat) : 0 < atolQ + rtolQ * rabs b := by
  rw [rabs_eq_abs]
  have := mul_nonneg rtolQ_pos.le (abs_nonneg b)
  linarith [atolQ_pos]

theorem get?_some_of_lt (A : Mat) (n : Nat) (h : A.isSquare n = true) (i j : Nat) (hi : i < n)
    (hj : j < n) : ∃ a, A.get? i j = some a := by
  obtain ⟨hl, hr⟩ := (isSquare_iff A n).1 h
  unfold Mat.get?
  have hi' : i < A.length := by omega
  rw [List.getElem?_eq_getElem hi']
  simp only [Option.bind_some]
  have hrow : (A[i]).length = n := hr _ (List.getElem_mem hi')
  exact ⟨(A[i])[j]'(by omega), List.getElem?_eq_getElem (by omega)⟩

theorem pairsAll_iff (A : Mat) (n : Nat) (h : A.isSquare n = true) (p : Rat → Rat → Bool) :
    pairsAll A p = true ↔
      ∀ i j, i < n → j < n → ∃ a b, A.get? i j = some a ∧ A.get? j i = some b ∧ p a b = true := by
  obtain ⟨hl, _⟩ := (isSquare_iff A n).1 h
  unfold pairsAll allPairs
  rw [hl]
  simp only [List.all_eq_true, List.mem_range]
  constructor
  · intro hp i j hi hj
    obtain ⟨a, ha⟩ := get?_some_of_lt A n h i j hi hj
    obtain ⟨b, hb⟩ := get?_some_of_lt A n h j i hj hi
    have := hp i hi j hj
    rw [ha, hb] at this
    exact ⟨a, b, ha, hb, this⟩
  · intro hp i hi j hj
    obtain ⟨a, b, ha, hb, hpab⟩ := hp i j hi hj
    rw [ha, hb]; exact hpab

theorem pairsAll_mono (A : Mat) (n : Nat) (h : A.isSquare n = true) (p q : Rat → Rat → Bool)
    (hpq : ∀ a b, p a b = true → q a b = true) (hp : pairsAll A p = true) : pairsAll A q = true := by
  rw [pairsAll_iff A n h] at hp ⊢
  intro i j hi hj
  obtain ⟨a, b, ha, hb, hpab⟩ := hp i j hi hj
  exact ⟨a, b, ha, hb, hpq a b hpab⟩

/-- an exactly symmetric square matrix passes `allclose` -/
theorem allcloseSym_of_isSymmetric (A : Mat) (n : Nat) (h : A.isSquare n = true)
    (hs : isSymmetric A = true) : allcloseSym A = true := by
  have hS := (isSymmetric_iff A n h).1 hs
  unfold allcloseSym
  rw [pairsAll_iff A n h]
  intro i j hi hj
  obtain ⟨a, ha⟩ := get?_some_of_lt A n h i j hi hj
  have hb : A.get? j i = some a := by rw [← hS i j]; exact ha
  refine ⟨a, a, ha, hb, ?_⟩
  unfold npIsClose
  simp only [sub_self, decide_eq_true_eq]
  have : rabs 0 = 0 := by decide +kernel
  rw [this]
  exact (thr_pos a).le

/-- a matrix that is robustly rejected fails `allclose` and is not symmetric -/
theorem not_allclose_of_robustlyRejected (A : Mat) (n : Nat) (h : A.isSquare n = true)
    (hr : symRobustlyRejected A = true) : allcloseSym A = false ∧ isSymmetric A = false := by
  unfold symRobustlyRejected symRobustlyRejectedBy at hr
  have hr' : ¬ pairsAll A (fun a b => decide (rabs (a - b) ≤ (atolQ + rtolQ * rabs b) * (1 + symSlack))) = true := by
    simpa using hr
  have hmono : ∀ a b : Rat, npIsClose a b = true →
      decide (rabs (a - b) ≤ (atolQ + rtolQ * rabs b) * (1 + symSlack)) = true := by
    intro a b hab
    unfold npIsClose at hab
    simp only [decide_eq_true_eq] at hab ⊢
    have := mul_pos (thr_pos b) symSlack_pos
    nlinarith
  constructor
  · cases hc : allcloseSym A with
    | false => rfl
    | true => exact absurd (pairsAll_mono A n h _ _ hmono hc) hr'
  · cases hc : isSymmetric A with
    | false => rfl
    | true =>
      exact absurd (pairsAll_mono A n h _ _ hmono (allcloseSym_of_isSymmetric A n h hc)) hr'

/-- **the exact and the tolerant symmetry tests agree on robust matrices** -/
theorem allclose_agrees_when_robust (A : Mat) (n : Nat) (h : A.isSquare n = true)
    (hr : symRobust A = true) : allcloseSym A = isSymmetric A := by
  unfold symRobust at hr
  cases hs : isSymmetric A with
  | true => exact allcloseSym_of_isSymmetric A n h hs
  | false =>
    rw [hs] at hr
    simp only [Bool.false_or] at hr
    exact (not_allclose_of_robustlyRejected A n h hr).1

/-- the two margins bracket the exact criterion -/
theorem allclose_of_robustlyAccepted (A : Mat) (n : Nat) (h : A.isSquare n = true)
    (ha : symRobustlyAccepted A = true) : allcloseSym A = true := by
  unfold symRobustlyAccepted symRobustlyAcceptedBy at ha
  refine pairsAll_mono A n h _ _ ?_ ha
  intro a b hab
  unfold npIsClose
  simp only [decide_eq_true_eq] at hab ⊢
  have := mul_pos (thr_pos b) symSlack_pos
  nlinarith

/-! ## masks over mapped stacks -/
theorem unmasked_map {β γ : Type} (l : List β) (h : β → γ) (missing : Option (List Bool)) (x : γ) :
    Unmasked (l.map h) missing x ↔ ∃ A, Unmasked l missing A ∧ h A = x := by
  cases missing with
  | none => simp [Unmasked]
  | some m =>
    simp only [Unmasked, List.zip_map_left, List.mem_map, Prod.exists, Prod.map_apply, id_eq,
      Prod.mk.injEq]
    constructor
    · rintro ⟨A, b, hm, rfl, rfl⟩; exact ⟨A, hm, rfl⟩
    · rintro ⟨A, hm, rfl⟩; exact ⟨A, false, hm, rfl, rfl⟩

theorem unmasked_zip_map {β : Type} (l : List β) (f g : β → Bool) (missing : Option (List Bool))
    (x : Bool × Bool) :
    Unmasked ((l.map f).zip (l.map g)) missing x ↔ ∃ A, Unmasked l missing A ∧ (f A, g A) = x := by
  rw [List.zip_map', unmasked_map]


theorem applyMask_map {β γ : Type} (l : List β) (h : β → γ) (missing : Option (List Bool)) :
    applyMask (l.map h) missing = (applyMask l missing).map (·.map h) := by
  cases missing with
  | none => rfl
  | some m =>
    unfold applyMask
    simp only [List.length_map]
    split
    · simp only [Option.map_some, Option.some.injEq, List.zip_map_left, List.filterMap_map, List.map_filterMap]
      congr 1
      funext p
      obtain ⟨a, b⟩ := p
      cases b <;> simp
    · rfl

/-- `validate_ellipsoid` on a stack of matrices, unfolded: shape stage, mask, then the two tests -/
theorem validateEllipsoidWith_eq (s p : Mat → Bool) (axes : Option (List String)) (shape : List Nat)
    (mats : List Mat) (missing : Option (List Bool)) :
    validateEllipsoidWith s p axes shape mats missing =
      match ellipsoidShapeStage axes shape with
      | .ok =>
        match applyMask mats missing with
        | none => .other "IndexError"
        | some r =>
          if !(r.all s) then .valueError "Ellipsoid covariance matrices must be symmetric"
          else if !(r.all p) then .valueError "Ellipsoid covariance matrices must be positive-definite"
          else .ok
      | e => e := by
  unfold validateEllipsoidWith validateEllipsoid
  rw [List.zip_map', applyMask_map]
  cases ellipsoidShapeStage axes shape with
  | ok =>
    cases applyMask mats missing with
    | none => rfl
    | some r => simp [List.all_map, Function.comp_def]
  | valueError m => rfl
  | other n => rfl

end Geff.Validate
