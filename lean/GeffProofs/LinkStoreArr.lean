import GeffProofs.LinkStoreExact
/-! Integration layer: array-level helpers shared by the links out of C01's model (no dependence on any
other property's model): id / edge / mask arrays from lists, and the way back from the flat contents of an
array to integers, pairs, booleans and rows (`none` when the contents are not of that kind — C01's
`NdArr` does not tie the flat values to the dtype). -/
namespace Geff.Link
open Geff.Np

/-- the id array of dtype `d` -/
def idArr (d : Dtype) (ids : List Int) : NdArr := ⟨d, [ids.length], ids.map .i⟩
/-- the `(E, 2)` edge id array of dtype `d` -/
def edgeArr (d : Dtype) (es : List (Int × Int)) : NdArr :=
  ⟨d, [es.length, 2], es.flatMap fun e => [.i e.1, .i e.2]⟩
/-- a boolean mask -/
def maskArr (ms : List Bool) : NdArr := ⟨.bool, [ms.length], ms.map .b⟩

/-! ### and back -/

def intsOf : List Val → Option (List Int)
  | [] => some []
  | .i x :: t => (intsOf t).map (x :: ·)
  | _ :: _ => none

def pairsOf : List Int → Option (List (Int × Int))
  | [] => some []
  | a :: b :: t => (pairsOf t).map ((a, b) :: ·)
  | [_] => none

def boolsOf : List Val → Option (List Bool)
  | [] => some []
  | .b x :: t => (boolsOf t).map (x :: ·)
  | _ :: _ => none

/-- `n` consecutive chunks of `k` values -/
def chunks (k : Nat) : Nat → List Val → List (List Val)
  | 0, _ => []
  | n + 1, fl => fl.take k :: chunks k n (fl.drop k)

def maskBack : Option NdArr → Option (Option (List Bool))
  | none => some none
  | some m => (boolsOf m.flat).map some

theorem intsOf_map (l : List Int) : intsOf (l.map .i) = some l := by
  induction l with
  | nil => rfl
  | cons a t ih => simp [intsOf, ih]

theorem boolsOf_map (l : List Bool) : boolsOf (l.map .b) = some l := by
  induction l with
  | nil => rfl
  | cons a t ih => simp [boolsOf, ih]

theorem intsOf_edges (es : List (Int × Int)) :
    (intsOf (es.flatMap fun e => [Val.i e.1, Val.i e.2])).bind pairsOf = some es := by
  have : intsOf (es.flatMap fun e => [Val.i e.1, Val.i e.2]) = some (es.flatMap fun e => [e.1, e.2]) := by
    induction es with
    | nil => rfl
    | cons a t ih => simp [intsOf, ih]
  rw [this]
  simp only [Option.bind_some]
  clear this
  induction es with
  | nil => rfl
  | cons a t ih => simp [pairsOf, ih]

theorem length_edgeFlat (es : List (Int × Int)) : (es.flatMap fun e => [Val.i e.1, Val.i e.2]).length = es.length * 2 := by
  induction es with
  | nil => rfl
  | cons a t ih => simp [ih]; omega

end Geff.Link
