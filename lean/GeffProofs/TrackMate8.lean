import GeffProofs.TrackMate7
import GeffProofs.Reach
/-! # Helper lemmas for C16 (8): the executable checks `wfB`, `tracksConnectedB` imply the hypotheses of
the property theorems. -/
namespace Geff.TrackMate
open Geff.Graph

theorem nodupB_sound {α : Type} [DecidableEq α] (l : List α) (h : nodupB l = true) : l.Nodup := by
  induction l with
  | nil => exact List.nodup_nil
  | cons x t ih =>
    simp only [nodupB, Bool.and_eq_true, Bool.not_eq_eq_eq_not, Bool.not_true, List.contains_eq_mem,
      decide_eq_false_iff_not] at h
    exact List.nodup_cons.2 ⟨h.1, ih h.2⟩

theorem isOk_iff {α : Type} (o : Outcome α) : isOk o = true ↔ ∃ a, o = .ok a := by
  cases o with
  | ok a => simp [isOk]
  | exc e => simp [isOk]

theorem taggedOkB_sound (md : List Feat) (base : List (Nat × Attrs)) (L : List (Edge × Val))
    (h : taggedOkB md base L = true) : TaggedOk md base L := by
  simp only [taggedOkB, Bool.and_eq_true, List.all_eq_true, Bool.or_eq_true, decide_eq_true_eq,
    Bool.not_eq_eq_eq_not, Bool.not_true, List.contains_eq_mem] at h
  obtain ⟨⟨⟨h1, h2⟩, h3⟩, h4⟩ := h
  refine ⟨fun x hx => (isOk_iff _).1 (h1 x hx), fun x hx => ?_, nodupB_sound _ h3, ?_⟩
  · have := h2 x hx
    exact ⟨by simpa using this.1, by simpa using this.2⟩
  · intro x hx y hy n hxn hyn
    rcases h4 x hx y hy with heq | hno
    · exact heq
    · -- y touches neither endpoint of x, but both touch n
      have hx' : x.1.s = n ∨ x.1.t = n := by simpa [touches] using hxn
      rcases hx' with rfl | rfl
      · rw [hno.1] at hyn; cases hyn
      · rw [hno.2] at hyn; cases hyn

theorem wfB_sound (d : Doc) (h : wfB d = true) : WF d := by
  simp only [wfB, Bool.and_eq_true] at h
  obtain ⟨h, hself⟩ := h
  simp only [wfCoreB, Bool.and_eq_true, List.all_eq_true, Bool.or_eq_true] at h
  obtain ⟨⟨⟨⟨⟨⟨h1, h2⟩, h3⟩, h4⟩, h5⟩, h6⟩, h7⟩ := h
  refine ⟨?_, h2, nodupB_sound _ h3, ?_, ?_, ?_, taggedOkB_sound _ _ _ h7, ?_⟩
  rotate_right
  · intro x hx
    simp only [noSelfLinkB, List.all_eq_true, bne_iff_ne, ne_eq] at hself
    exact hself x hx
  · intro s hs
    have := h1 s hs
    simp only [spotOkB, Bool.and_eq_true] at this
    refine ⟨(isOk_iff _).1 this.1, ?_⟩
    intro r hr hp
    have h2' := this.2
    rw [hr] at h2'
    simp only [hp, Bool.not_true, Bool.false_or, decide_eq_true_eq] at h2'
    exact h2'
  · rcases h4 with h | h
    · left; intro s hs; simpa using h s hs
    · right; exact h
  · intro s hs
    have := h5 s hs
    simpa using this
  · intro t ht
    have := h6 t ht
    cases hc : convertAttributes (attrsMd d) (trackTexts t) with
    | exc e => rw [hc] at this; cases this
    | ok a =>
      rw [hc] at this
      simp only at this
      cases hg : aget? a "TRACK_ID" with
      | none => rw [hg] at this; cases this
      | some tid => exact ⟨a, tid, rfl, hg⟩

theorem tracksConnectedB_sound (d : Doc) (h : tracksConnectedB d = true) :
    ∀ x ∈ tagged (attrsMd d) d.tracks, ∀ y ∈ tagged (attrsMd d) d.tracks, x.2 = y.2 →
      Conn (((tagged (attrsMd d) d.tracks).filter (fun z => z.2 = x.2)).map (fun z => (z.1.s, z.1.t))) x.1.s y.1.s := by
  intro x hx y hy hxy
  simp only [tracksConnectedB, List.all_eq_true] at h
  have htid : x.2 ∈ dedup ((tagged (attrsMd d) d.tracks).map (·.2)) :=
    (mem_dedup _ _).2 (List.mem_map.2 ⟨x, hx, rfl⟩)
  have hh := h x.2 htid
  have hxm : x ∈ (tagged (attrsMd d) d.tracks).filter (fun z => decide (z.2 = x.2)) := by
    simp [List.mem_filter, hx]
  have hym : y ∈ (tagged (attrsMd d) d.tracks).filter (fun z => decide (z.2 = x.2)) := by
    simp [List.mem_filter, hy, hxy]
  generalize hLt : (tagged (attrsMd d) d.tracks).filter (fun z => decide (z.2 = x.2)) = Lt at hh hxm hym ⊢
  cases Lt with
  | nil => cases hxm
  | cons r rest =>
    simp only [List.all_eq_true, List.contains_eq_mem, decide_eq_true_eq] at hh
    have hV : ∀ e ∈ (r :: rest).map (fun z => (z.1.s, z.1.t)),
        e.1 ∈ ((r :: rest).map (fun z => (z.1.s, z.1.t))).flatMap (fun e => [e.1, e.2]) ∧
        e.2 ∈ ((r :: rest).map (fun z => (z.1.s, z.1.t))).flatMap (fun e => [e.1, e.2]) := by
      intro e he
      simp only [List.mem_flatMap, List.mem_cons, List.not_mem_nil, or_false]
      exact ⟨⟨e, he, Or.inl rfl⟩, ⟨e, he, Or.inr rfl⟩⟩
    have hcx := (mem_component_iff _ _ _ hV _).1 (hh x hxm)
    have hcy := (mem_component_iff _ _ _ hV _).1 (hh y hym)
    exact (conn_symm _ hcx).trans hcy

theorem aget_some_mem (a : Attrs) (k : String) (v : Val) (h : aget? a k = some v) : (k, v) ∈ a := by
  unfold aget? at h
  cases hf : a.find? (fun kv => kv.1 == k) with
  | none => rw [hf] at h; cases h
  | some x =>
    rw [hf] at h
    simp only [Option.map_some, Option.some.injEq] at h
    have hm := List.mem_of_find?_eq_some hf
    have hk : x.1 = k := by simpa using List.find?_some hf
    rw [← hk, ← h]; exact hm

theorem columnKind_int (cells : List (Option Val)) (hne : (cells.filterMap id).isEmpty = false)
    (hall : (cells.filterMap id).all isI = true) : columnKind cells = .int64 ∨ columnKind cells = .uint64 := by
  unfold columnKind
  simp only [hne, hall, Bool.false_eq_true, if_false, if_true]
  split
  · exact Or.inr rfl
  · exact Or.inl rfl

theorem columnKind_float (cells : List (Option Val)) (hne : (cells.filterMap id).isEmpty = false)
    (hnotI : (cells.filterMap id).all isI = false) (hnum : (cells.filterMap id).all isNum = true) :
    columnKind cells = .float64 := by
  unfold columnKind
  simp only [hne, hnotI, hnum, Bool.false_eq_true, if_false, if_true]

theorem touches_iff (e : Edge) (n : Nat) : touches e n = true ↔ e.s = n ∨ e.t = n := by
  simp [touches]

end Geff.TrackMate
