import GeffProofs.Reach
import GeffModel.Lineage
namespace Geff.Lineage
open Geff.Graph Relation
variable {α L : Type} [DecidableEq α] [DecidableEq L]

theorem mem_nodesWith (nl : List (α × L)) (l : L) (x : α) : x ∈ nodesWith nl l ↔ (x, l) ∈ nl := by
  unfold nodesWith
  simp only [List.mem_map, List.mem_filter, decide_eq_true_eq]
  constructor
  · rintro ⟨⟨a, b⟩, ⟨hm, rfl⟩, rfl⟩; exact hm
  · intro h; exact ⟨(x, l), ⟨h, rfl⟩, rfl⟩

theorem edges_in_verts (nl : List (α × L)) (es : List (α × α)) :
    ∀ e ∈ es, e.1 ∈ verts nl es ∧ e.2 ∈ verts nl es := by
  intro e he
  unfold verts
  constructor <;>
  · apply List.mem_append_right
    simp only [List.mem_flatMap]
    exact ⟨e, he, by simp⟩

/-- Prop reading of one label being fine: its class is exactly the component of any member and
nothing outside the node list is attached to it. -/
def LabelGood (nl : List (α × L)) (es : List (α × α)) (l : L) : Prop :=
  ∃ r, ∀ x, (x, l) ∈ nl ↔ Conn es r x

theorem labelOk_iff (nl : List (α × L)) (es : List (α × α)) (l : L) (hl : ∃ u, (u, l) ∈ nl) :
    labelOk nl es l = true ↔ LabelGood nl es l := by
  have hV := edges_in_verts nl es
  unfold labelOk LabelGood
  simp only [List.any_eq_true, sameSet_iff, mem_nodesWith]
  constructor
  · rintro ⟨r, _, hr⟩
    exact ⟨r, fun x => by rw [hr x, mem_component_iff es _ r hV x]⟩
  · rintro ⟨r, hr⟩
    obtain ⟨u, hu⟩ := hl
    refine ⟨u, ?_, ?_⟩
    · unfold verts; exact List.mem_append_left _ (List.mem_map.2 ⟨(u, l), hu, rfl⟩)
    · intro x
      rw [mem_component_iff es _ u hV x, hr x]
      have hru : Conn es r u := (hr u).1 hu
      exact ⟨fun h => (conn_symm es hru).trans h, fun h => hru.trans h⟩

end Geff.Lineage
