import GeffModel.KV
/-! # Lemmas about the key-view store and the trace monad (C05, C06)

* `get`/`put`/`erase`/`filter` laws of the insertion-ordered store;
* `ops_bind`/`val_bind`: the trace of a sequential composition;
* `Prog.All A p`: every mutation `p` can ever emit (from any store) satisfies `A` — proved
  compositionally, this is how ordering facts ("the geff attribute is not written before the last
  mutation", "only geff-controlled keys are deleted") are established for all graphs;
* `Crash kv ops P`: `P` holds after every prefix of `ops` (every crash point). -/
namespace Geff.KV
open Gen.Paths Prog

/-! ### store laws -/
@[simp] theorem get_nil (k : Key) : get [] k = none := rfl

theorem get_put_same (kv : KV) (k : Key) (b : Blob) : get (put kv k b) k = some b := by
  induction kv with
  | nil => simp [put, get]
  | cons e r ih =>
    obtain ⟨k', b'⟩ := e
    by_cases h : k' = k <;> simp [put, get, h, ih]

theorem get_put_ne (kv : KV) {k k' : Key} (b : Blob) (h : k' ≠ k) :
    get (put kv k b) k' = get kv k' := by
  induction kv with
  | nil => simp [put, get, Ne.symm h]
  | cons e r ih =>
    obtain ⟨k₀, b₀⟩ := e
    by_cases h0 : k₀ = k
    · subst h0; simp [put, get, Ne.symm h]
    · by_cases h1 : k₀ = k'
      · subst h1; simp [put, get, h0]
      · simp [put, get, h0, h1, ih]

theorem get_filter (kv : KV) (p : Key → Bool) (k : Key) :
    get (kv.filter (fun e => p e.1)) k = if p k then get kv k else none := by
  induction kv with
  | nil => simp
  | cons e r ih =>
    obtain ⟨k₀, b₀⟩ := e
    by_cases hp : p k₀
    · by_cases hk : k₀ = k
      · subst hk; simp [List.filter, hp, get]
      · simp [List.filter, hp, get, hk, ih]
    · by_cases hk : k₀ = k
      · subst hk; simp [List.filter, hp, ih]
      · simp [List.filter, hp, get, hk, ih]

theorem get_erase_same (kv : KV) (k : Key) : get (erase kv k) k = none := by
  have := get_filter kv (fun x => decide (x ≠ k)) k
  simpa [erase] using this

theorem get_erase_ne (kv : KV) {k k' : Key} (h : k' ≠ k) : get (erase kv k) k' = get kv k' := by
  have := get_filter kv (fun x => decide (x ≠ k)) k'
  simpa [erase, h] using this

theorem get_eq_none_of_not_mem (kv : KV) (k : Key) (h : ∀ e ∈ kv, e.1 ≠ k) : get kv k = none := by
  induction kv with
  | nil => rfl
  | cons e r ih =>
    obtain ⟨k₀, b₀⟩ := e
    have h0 : k₀ ≠ k := h (k₀, b₀) (by simp)
    simp [get, h0]
    exact ih (fun e he => h e (by simp [he]))

theorem mem_of_get (kv : KV) (k : Key) (b : Blob) (h : get kv k = some b) : (k, b) ∈ kv := by
  induction kv with
  | nil => simp at h
  | cons e r ih =>
    obtain ⟨k₀, b₀⟩ := e
    by_cases h0 : k₀ = k
    · subst h0; simp [get] at h; simp [h]
    · simp [get, h0] at h; simp [ih h]

/-! ### one mutation -/

/-- what a mutation does to the document under a key -/
theorem get_step (kv : KV) (op : Op) (k : Key) :
    get (step kv op) k =
      match op with
      | .set k' b => if k = k' then some b else get kv k
      | .setnx k' b => if k = k' then (if has kv k' then get kv k else some b) else get kv k
      | .del k' => if k = k' then none else get kv k
      | .delPrefix p => if under p k then none else get kv k
      | .clear => none := by
  cases op with
  | set k' b =>
    by_cases h : k = k'
    · subst h; simp [step, get_put_same]
    · simp [step, h, get_put_ne kv b h]
  | setnx k' b =>
    by_cases h : k = k'
    · subst h
      by_cases hh : has kv k <;> simp [step, hh, get_put_same]
    · by_cases hh : has kv k' <;> simp [step, hh, h, get_put_ne kv b h]
  | del k' =>
    by_cases h : k = k'
    · subst h; simp [step, get_erase_same]
    · simp [step, h, get_erase_ne kv h]
  | delPrefix p =>
    have := get_filter kv (fun x => !under p x) k
    by_cases h : under p k <;> simp [step, h] at this ⊢ <;> exact this
  | clear => simp [step]

theorem run_nil (kv : KV) : run kv [] = kv := rfl
theorem run_cons (kv : KV) (o : Op) (os : List Op) : run kv (o :: os) = run (step kv o) os := rfl
theorem run_append (kv : KV) (a b : List Op) : run kv (a ++ b) = run (run kv a) b := by
  simp [run, List.foldl_append]

/-! ### traces of composed programs -/

theorem ops_bind {α β} (p : Prog α) (f : α → Prog β) (kv : KV) :
    (Prog.bind p f kv).ops = (p kv).ops ++
      (match (p kv).val with | .ok a => (f a (run kv (p kv).ops)).ops | .error _ => []) := by
  unfold Prog.bind
  rcases p kv with ⟨ops, v⟩
  cases v with
  | error e => simp
  | ok a => simp

theorem val_bind {α β} (p : Prog α) (f : α → Prog β) (kv : KV) :
    (Prog.bind p f kv).val =
      (match (p kv).val with | .ok a => (f a (run kv (p kv).ops)).val | .error e => .error e) := by
  unfold Prog.bind
  rcases p kv with ⟨ops, v⟩
  cases v with
  | error e => simp
  | ok a => simp

theorem bind_def {α β} (p : Prog α) (f : α → Prog β) : (p >>= f) = Prog.bind p f := rfl
theorem pure_def {α} (a : α) : (Pure.pure a : Prog α) = Prog.pure a := rfl

@[simp] theorem ops_pure {α} (a : α) (kv : KV) : (Prog.pure a kv).ops = [] := rfl
@[simp] theorem val_pure {α} (a : α) (kv : KV) : (Prog.pure a kv).val = .ok a := rfl
@[simp] theorem ops_emit (l : List Op) (kv : KV) : (emit l kv).ops = l := rfl
@[simp] theorem val_emit (l : List Op) (kv : KV) : (emit l kv).val = .ok () := rfl
@[simp] theorem ops_look (kv : KV) : (look kv).ops = [] := rfl
@[simp] theorem val_look (kv : KV) : (look kv).val = .ok kv := rfl
@[simp] theorem ops_raise {α} (e : Outcome) (kv : KV) : ((raise e : Prog α) kv).ops = [] := rfl
@[simp] theorem val_raise {α} (e : Outcome) (kv : KV) : ((raise e : Prog α) kv).val = .error e := rfl
@[simp] theorem ops_attempt (p : Prog Unit) (kv : KV) : (attempt p kv).ops = (p kv).ops := rfl
@[simp] theorem val_attempt (p : Prog Unit) (kv : KV) : (attempt p kv).val = .ok () := rfl

/-! ### `All`: a property of every mutation a program can emit -/

def Prog.All {α} (A : Op → Prop) (p : Prog α) : Prop := ∀ kv, ∀ op ∈ (p kv).ops, A op

namespace Prog.All
variable {A : Op → Prop}

theorem bind {α β} {p : Prog α} {f : α → Prog β} (hp : All A p) (hf : ∀ a, All A (f a)) :
    All A (p >>= f) := by
  intro kv op hop
  change op ∈ (Prog.bind p f kv).ops at hop
  rw [ops_bind] at hop
  rcases List.mem_append.1 hop with h | h
  · exact hp kv op h
  · split at h
    · exact hf _ _ op h
    · simp at h

theorem pure {α} (a : α) : All A (Prog.pure a) := by intro kv op h; simp at h
theorem pure' {α} (a : α) : All A (Pure.pure a : Prog α) := pure a
theorem look : All A Prog.look := by intro kv op h; simp at h
theorem raise {α} (e : Outcome) : All A (Prog.raise e : Prog α) := by intro kv op h; simp at h
theorem emit {l : List Op} (h : ∀ op ∈ l, A op) : All A (Prog.emit l) := by
  intro kv op hop; exact h op (by simpa using hop)
theorem attempt {p : Prog Unit} (h : All A p) : All A (Prog.attempt p) := by
  intro kv op hop; exact h kv op (by simpa using hop)
theorem forEach {α} {f : α → Prog Unit} (h : ∀ x, All A (f x)) (l : List α) :
    All A (Prog.forEach f l) := by
  induction l with
  | nil => exact pure ()
  | cons x xs ih => exact bind (h x) (fun _ => ih)
theorem mono {α} {B : Op → Prop} {p : Prog α} (h : All A p) (hab : ∀ op, A op → B op) : All B p :=
  fun kv op hop => hab op (h kv op hop)
end Prog.All

/-! ### crash points -/

/-- `P` holds for the store left by a crash at any mutation of `ops` (and after all of them) -/
def Crash (kv : KV) (ops : List Op) (P : KV → Prop) : Prop := ∀ k, P (run kv (ops.take k))

theorem Crash.nil {kv : KV} {P : KV → Prop} (h : P kv) : Crash kv [] P := by
  intro k; simpa [run] using h

theorem Crash.append {kv : KV} {a b : List Op} {P : KV → Prop}
    (ha : Crash kv a P) (hb : Crash (run kv a) b P) : Crash kv (a ++ b) P := by
  intro k
  rw [List.take_append, run_append]
  by_cases hk : k ≤ a.length
  · have : k - a.length = 0 := by omega
    simp [this, run_nil]
    exact ha k
  · have h1 : a.take k = a := List.take_of_length_le (by omega)
    rw [h1]
    exact hb (k - a.length)

theorem Crash.start {kv : KV} {ops : List Op} {P : KV → Prop} (h : Crash kv ops P) : P kv := by
  simpa [run] using h 0

theorem Crash.final {kv : KV} {ops : List Op} {P : KV → Prop} (h : Crash kv ops P) :
    P (run kv ops) := by
  simpa using h ops.length

theorem Crash.mono {kv : KV} {ops : List Op} {P Q : KV → Prop} (h : Crash kv ops P)
    (hpq : ∀ s, P s → Q s) : Crash kv ops Q := fun k => hpq _ (h k)

/-- an invariant that every mutation of the list preserves holds at every crash point -/
theorem Crash.of_inv {I : KV → Prop} {A : Op → Prop} (hstep : ∀ s op, I s → A op → I (step s op)) :
    ∀ (ops : List Op) (kv : KV), I kv → (∀ op ∈ ops, A op) → Crash kv ops I := by
  intro ops
  induction ops with
  | nil => intro kv h _; exact Crash.nil h
  | cons o os ih =>
    intro kv h hall k
    cases k with
    | zero => simpa [run] using h
    | succ k =>
      simp only [List.take_succ_cons, run_cons]
      exact ih (step kv o) (hstep kv o h (hall o (by simp))) (fun op hop => hall op (by simp [hop])) k

/-- a crash point is either before the first mutation or after at least one -/
theorem Crash.cons {kv : KV} {o : Op} {os : List Op} {P : KV → Prop}
    (h0 : P kv) (h1 : Crash (step kv o) os P) : Crash kv (o :: os) P := by
  intro k
  cases k with
  | zero => simpa [run] using h0
  | succ k => simpa [List.take_succ_cons, run_cons] using h1 k

end Geff.KV
