import GeffModel.KV
/-! # Lemmas about the key-view store and the trace monad (C05, C06)

* `get`/`put`/`erase`/`filter` laws of the insertion-ordered store;
* `ops_bind`/`val_bind`: the trace of a sequential composition;
* `Prog.All A p`: every mutation `p` can ever emit (from any store) satisfies `A` — proved
  compositionally, this is how ordering facts ("the geff attribute is not written before the last
  mutation", "only geff-controlled keys are deleted") are established for all graphs;
* `Crash kv ops P`: `P` holds after every prefix of `ops` (every crash point). -/
namespace Geff.KV
open Gen.Paths Prog

/-! ### store laws -/
@[simp] theorem get_nil (k : Key) : get [] k = none := rfl

theorem get_put_same (kv : KV) (k : Key) (b : Blob) : get (put kv k b) k = some b := by
  induction kv with
  | nil => simp [put, get]
  | cons e r ih =>
    obtain ⟨k', b'⟩ := e
    by_cases h : k' = k <;> simp [put, get, h, ih]

theorem get_put_ne (kv : KV) {k k' : Key} (b : Blob) (h : k' ≠ k) :
    get (put kv k b) k' = get kv k' := by
  induction kv with
  | nil => simp [put, get, Ne.symm h]
  | cons e r ih =>
    obtain ⟨k₀, b₀⟩ := e
    by_cases h0 : k₀ = k
    · subst h0; simp [put, get, Ne.symm h]
    · by_cases h1 : k₀ = k'
      · subst h1; simp [put, get, h0]
      · simp [put, get, h0, h1, ih]

theorem get_filter (kv : KV) (p : Key → Bool) (k : Key) :
    get (kv.filter (fun e => p e.1)) k = if p k then get kv k else none := by
  induction kv with
  | nil => simp
  | cons e r ih =>
    obtain ⟨k₀, b₀⟩ := e
    by_cases hp : p k₀
    · by_cases hk : k₀ = k
      · subst hk; simp [List.filter, hp, get]
      · simp [List.filter, hp, get, hk, ih]
    · by_cases hk : k₀ = k
      · subst hk; simp [List.filter, hp, ih]
      · simp [List.filter, hp, get, hk, ih]

theorem get_erase_same (kv : KV) (k : Key) : get (erase kv k) k = none := by
  have := get_filter kv (fun x => decide (x ≠ k)) k
  simpa [erase] using this

theorem get_erase_ne (kv : KV) {k k' : Key} (h : k' ≠ k) : get (erase kv k) k' = get kv k' := by
  have := get_filter kv (fun x => decide (x ≠ k)) k'
  simpa [erase, h] using this

theorem get_eq_none_of_not_mem (kv : KV) (k : Key) (h : ∀ e ∈ kv, e.1 ≠ k) : get kv k = none := by
  induction kv with
  | nil => rfl
  | cons e r ih =>
    obtain ⟨k₀, b₀⟩ := e
    have h0 : k₀ ≠ k := h (k₀, b₀) (by simp)
    simp [get, h0]
    exact ih (fun e he => h e (by simp [he]))

theorem mem_of_get (kv : KV) (k : Key) (b : Blob) (h : get kv k = some b) : (k, b) ∈ kv := by
  induction kv with
  | nil => simp at h
  | cons e r ih =>
    obtain ⟨k₀, b₀⟩ := e
    by_cases h0 : k₀ = k
    · subst h0; simp [get] at h; simp [h]
    · simp [get, h0] at h; simp [ih h]

/-! ### one mutation -/

/-- what a mutation does to the document under a key -/
theorem get_step (kv : KV) (op : Op) (k : Key) :
    get (step kv op) k =
      match op with
      | .set k' b => if k = k' then some b else get kv k
      | .setnx k' b => if k = k' then (if has kv k' then get kv k else some b) else get kv k
      | .del k' => if k = k' then none else get kv k
      | .delPrefix p => if under p k then none else get kv k
      | .clear => none := by
  cases op with
  | set k' b =>
    by_cases h : k = k'
    · subst h; simp [step, get_put_same]
    · simp [step, h, get_put_ne kv b h]
  | setnx k' b =>
    by_cases h : k = k'
    · subst h
      by_cases hh : has kv k <;> simp [step, hh, get_put_same]
    · by_cases hh : has kv k' <;> simp [step, hh, h, get_put_ne kv b h]
  | del k' =>
    by_cases h : k = k'
    · subst h; simp [step, get_erase_same]
    · simp [step, h, get_erase_ne kv h]
  | delPrefix p =>
    have := get_filter kv (fun x => !under p x) k
    by_cases h : under p k <;> simp [step, h] at this ⊢ <;> exact this
  | clear => simp [step]

theorem run_nil (kv : KV) : run kv [] = kv := rfl
theorem run_cons (kv : KV) (o : Op) (os : List Op) : run kv (o :: os) = run (step kv o) os := rfl
theorem run_append (kv : KV) (a b : List Op) : run kv (a ++ b) = run (run kv a) b := by
  simp [run, List.foldl_append]

/-! ### traces of composed programs -/

theorem ops_bind {α β} (p : Prog α) (f : α → Prog β) (kv : KV) :
    (Prog.bind p f kv).ops = (p kv).ops ++
      (match (p kv).val with | .ok a => (f a (run kv (p kv).ops)).ops | .error _ => []) := by
  unfold Prog.bind
  rcases p kv with ⟨ops, v⟩
  cases v with
  | error e => simp
  | ok a => simp

theorem val_bind {α β} (p : Prog α) (f : α → Prog β) (kv : KV) :
    (Prog.bind p f kv).val =
      (match (p kv).val with | .ok a => (f a (run kv (p kv).ops)).val | .error e => .error e) := by
  unfold Prog.bind
  rcases p kv with ⟨ops, v⟩
  cases v with
  | error e => simp
  | ok a => simp

theorem bind_def {α β} (p : Prog α) (f : α → Prog β) : (p >>= f) = Prog.bind p f := rfl
theorem pure_def {α} (a : α) : (Pure.pure a : Prog α) = Prog.pure a := rfl

@[simp] theorem ops_pure {α} (a : α) (kv : KV) : (Prog.pure a kv).ops = [] := rfl
@[simp] theorem val_pure {α} (a : α) (kv : KV) : (Prog.pure a kv).val = .ok a := rfl
@[simp] theorem ops_emit (l : List Op) (kv : KV) : (emit l kv).ops = l := rfl
@[simp] theorem val_emit (l : List Op) (kv : KV) : (emit l kv).val = .ok () := rfl
@[simp] theorem ops_look (kv : KV) : (look kv).ops = [] := rfl
@[simp] theorem val_look (kv : KV) : (look kv).val = .ok kv := rfl
@[simp] theorem ops_raise {α} (e : Outcome) (kv : KV) : ((raise e : Prog α) kv).ops = [] := rfl
@[simp] theorem val_raise {α} (e : Outcome) (kv : KV) : ((raise e : Prog α) kv).val = .error e := rfl
@[simp] theorem ops_attempt (p : Prog Unit) (kv : KV) : (attempt p kv).ops = (p kv).ops := rfl
@[simp] theorem val_attempt (p : Prog Unit) (kv : KV) : (attempt p kv).val = .ok () := rfl

/-! ### `All`: a property of every mutation a program can emit -/

def Prog.All {α} (A : Op → Bool) (p : Prog α) : Prop := ∀ kv, ∀ op ∈ (p kv).ops, A op = true

namespace Prog.All
variable {A : Op → Bool}

theorem bind {α β} {p : Prog α} {f : α → Prog β} (hp : All A p) (hf : ∀ a, All A (f a)) :
    All A (p >>= f) := by
  intro kv op hop
  change op ∈ (Prog.bind p f kv).ops at hop
  rw [ops_bind] at hop
  rcases List.mem_append.1 hop with h | h
  · exact hp kv op h
  · split at h
    · exact hf _ _ op h
    · simp at h

theorem pure {α} (a : α) : All A (Prog.pure a) := by intro kv op h; simp at h
theorem pure' {α} (a : α) : All A (Pure.pure a : Prog α) := pure a
theorem look : All A Prog.look := by intro kv op h; simp at h
theorem raise {α} (e : Outcome) : All A (Prog.raise e : Prog α) := by intro kv op h; simp at h
theorem emit {l : List Op} (h : ∀ op ∈ l, A op = true) : All A (Prog.emit l) := by
  intro kv op hop; exact h op (by simpa using hop)
theorem attempt {p : Prog Unit} (h : All A p) : All A (Prog.attempt p) := by
  intro kv op hop; exact h kv op (by simpa using hop)
theorem forEach {α} {f : α → Prog Unit} (h : ∀ x, All A (f x)) (l : List α) :
    All A (Prog.forEach f l) := by
  induction l with
  | nil => exact pure ()
  | cons x xs ih => exact bind (h x) (fun _ => ih)
theorem mono {α} {B : Op → Bool} {p : Prog α} (h : All A p) (hab : ∀ op, A op = true → B op = true) :
    All B p :=
  fun kv op hop => hab op (h kv op hop)
end Prog.All

/-! ### crash points -/

/-- `P` holds for the store left by a crash at any mutation of `ops` (and after all of them) -/
def Crash (kv : KV) (ops : List Op) (P : KV → Prop) : Prop := ∀ k, P (run kv (ops.take k))

theorem Crash.nil {kv : KV} {P : KV → Prop} (h : P kv) : Crash kv [] P := by
  intro k; simpa [run] using h

theorem Crash.append {kv : KV} {a b : List Op} {P : KV → Prop}
    (ha : Crash kv a P) (hb : Crash (run kv a) b P) : Crash kv (a ++ b) P := by
  intro k
  rw [List.take_append, run_append]
  by_cases hk : k ≤ a.length
  · have : k - a.length = 0 := by omega
    simp [this, run_nil]
    exact ha k
  · have h1 : a.take k = a := List.take_of_length_le (by omega)
    rw [h1]
    exact hb (k - a.length)

theorem Crash.start {kv : KV} {ops : List Op} {P : KV → Prop} (h : Crash kv ops P) : P kv := by
  simpa [run] using h 0

theorem Crash.final {kv : KV} {ops : List Op} {P : KV → Prop} (h : Crash kv ops P) :
    P (run kv ops) := by
  simpa using h ops.length

theorem Crash.mono {kv : KV} {ops : List Op} {P Q : KV → Prop} (h : Crash kv ops P)
    (hpq : ∀ s, P s → Q s) : Crash kv ops Q := fun k => hpq _ (h k)

/-- an invariant that every mutation of the list preserves holds at every crash point -/
theorem Crash.of_inv {I : KV → Prop} {A : Op → Bool}
    (hstep : ∀ s op, I s → A op = true → I (step s op)) :
    ∀ (ops : List Op) (kv : KV), I kv → (∀ op ∈ ops, A op = true) → Crash kv ops I := by
  intro ops
  induction ops with
  | nil => intro kv h _; exact Crash.nil h
  | cons o os ih =>
    intro kv h hall k
    cases k with
    | zero => simpa [run] using h
    | succ k =>
      simp only [List.take_succ_cons, run_cons]
      exact ih (step kv o) (hstep kv o h (hall o (by simp))) (fun op hop => hall op (by simp [hop])) k

/-- a crash point is either before the first mutation or after at least one -/
theorem Crash.cons {kv : KV} {o : Op} {os : List Op} {P : KV → Prop}
    (h0 : P kv) (h1 : Crash (step kv o) os P) : Crash kv (o :: os) P := by
  intro k
  cases k with
  | zero => simpa [run] using h0
  | succ k => simpa [List.take_succ_cons, run_cons] using h1 k


/-! ### monad laws -/

theorem Prog.ext {α} {p q : Prog α} (h : ∀ kv, (p kv).ops = (q kv).ops ∧ (p kv).val = (q kv).val) : p = q := by
  funext kv
  have := h kv
  rcases hp : p kv with ⟨o1, v1⟩
  rcases hq : q kv with ⟨o2, v2⟩
  simp [hp, hq] at this
  simp [this]

theorem bind_assoc {α β γ} (p : Prog α) (f : α → Prog β) (g : β → Prog γ) :
    Prog.bind (Prog.bind p f) g = Prog.bind p (fun a => Prog.bind (f a) g) := by
  apply Prog.ext
  intro kv
  simp only [ops_bind, val_bind]
  rcases hp : (p kv).val with e | a
  · simp
  · simp only
    rcases hf : (f a (run kv (p kv).ops)).val with e | b
    · simp
    · simp [run_append]

theorem raise_bind {α β} (e : Outcome) (f : α → Prog β) : Prog.bind (raise e) f = raise e := by
  apply Prog.ext; intro kv; simp [ops_bind, val_bind]

theorem pure_bind {α β} (a : α) (f : α → Prog β) : Prog.bind (Prog.pure a) f = f a := by
  apply Prog.ext; intro kv; simp [ops_bind, val_bind, run_nil]

theorem ite_bind {α β} (c : Prop) [Decidable c] (p q : Prog α) (f : α → Prog β) :
    Prog.bind (if c then p else q) f = if c then Prog.bind p f else Prog.bind q f := by
  split <;> rfl

/-! ### the geff attribute: mutations that cannot introduce it -/

def blobNoGeff : Blob → Bool
  | .root (some _) _ => false
  | _ => true

def noGeffOp : Op → Bool
  | .set _ b => blobNoGeff b
  | .setnx _ b => blobNoGeff b
  | _ => true

theorem geffOf_noGeff (b : Blob) (h : blobNoGeff b = true) :
    (match some b with | some (Blob.root g _) => g | _ => none) = none := by
  cases b with
  | raw _ => rfl
  | root g o => cases g with
    | none => rfl
    | some _ => simp [blobNoGeff] at h

theorem geffAttrIn_step_none (f : Fmt) (s : KV) (op : Op) (h : geffAttrIn f s = none)
    (ho : noGeffOp op = true) : geffAttrIn f (step s op) = none := by
  unfold geffAttrIn at h ⊢
  rw [get_step]
  cases op with
  | set k b =>
    by_cases hk : rootDocKey f = k
    · simp only [hk, if_true]; exact geffOf_noGeff b ho
    · simp only [hk, if_false]; exact h
  | setnx k b =>
    by_cases hk : rootDocKey f = k
    · by_cases hh : has s k
      · simp only [hk, hh, if_true] at h ⊢; exact h
      · simp only [hk, hh, if_true]; exact geffOf_noGeff b ho
    · simp only [hk, if_false]; exact h
  | del k =>
    by_cases hk : rootDocKey f = k
    · simp only [hk, if_true]
    · simp only [hk, if_false]; exact h
  | delPrefix p =>
    by_cases hk : under p (rootDocKey f)
    · simp only [hk, if_true]
    · simp only [hk]; exact h
  | clear => rfl

/-! ### a syntactic over-approximation of the mutations of the data phase -/

def isRaw : Blob → Bool
  | .raw _ => true
  | _ => false

/-- is the leaf a metadata document of format `f` -/
def fmtLeaf : Fmt → Leaf → Bool
  | .v2, .zgroup => true
  | .v2, .zattrs => true
  | .v3, .json => true
  | _, _ => false

def geffTop (p : List String) : Bool := p.head? = some NODES || p.head? = some EDGES

/-- does the mutation leave the (optional) protected key alone -/
def keepsKey (prot : Option Key) : Op → Bool
  | .del k => prot ≠ some k
  | .delPrefix p => match prot with | some k1 => !under p k1 | none => true
  | .clear => false
  | _ => true

/-- syntactic over-approximation of the mutations of the data phase of a write in format `f` -/
def dataOp (f : Fmt) (prot : Option Key) (op : Op) : Bool :=
  (match op with
   | .set k b => (owned k && isRaw b) || (k.path.isEmpty && blobNoGeff b && fmtLeaf f k.leaf)
   | .setnx k b => (owned k && isRaw b) || (k.path.isEmpty && blobNoGeff b && fmtLeaf f k.leaf)
   | .del k => owned k && decide (2 ≤ k.path.length)
   | .delPrefix p => geffTop p && decide (2 ≤ p.length)
   | .clear => false) && keepsKey prot op

theorem owned_of_top {p : List String} {l : Leaf} (h : geffTop p = true) : owned ⟨p, l⟩ = true := h

theorem groupDocs_spec (d : Docs) (f : Fmt) (q : List String) :
    ∀ e ∈ groupDocs d f q,
      (q = [] ∧ e.1.path = [] ∧ blobNoGeff e.2 = true ∧ fmtLeaf f e.1.leaf = true) ∨
      (q ≠ [] ∧ e.1.path = q ∧ isRaw e.2 = true) := by
  intro e he
  cases f <;> cases q <;> simp only [groupDocs, List.mem_cons, List.not_mem_nil, or_false] at he
  · rcases he with he | he <;> subst he <;> simp [blobNoGeff, fmtLeaf]
  · rcases he with he | he <;> subst he <;> simp [isRaw]
  · subst he; simp [blobNoGeff, fmtLeaf]
  · subst he; simp [isRaw]

theorem take_top {p : List String} (h : geffTop p = true) (i : Nat) (hi : p.take i ≠ []) :
    geffTop (p.take i) = true := by
  cases p with
  | nil => simp at hi
  | cons x xs =>
    cases i with
    | zero => simp at hi
    | succ i => simpa [geffTop] using h

theorem ancestorsNx_dataOp (d : Docs) (f : Fmt) (prot : Option Key) {p : List String}
    (h : geffTop p = true) : ∀ op ∈ ancestorsNx d f p, dataOp f prot op = true := by
  intro op hop
  simp only [ancestorsNx, List.mem_flatMap, List.mem_map] at hop
  obtain ⟨q, hq, e, he, rfl⟩ := hop
  have hq' : ∃ i, q = p.take i := by
    cases p with
    | nil => simp [ancestors] at hq
    | cons x xs =>
      simp only [ancestors, List.mem_map, List.mem_range] at hq
      obtain ⟨i, _, rfl⟩ := hq
      exact ⟨i, rfl⟩
  obtain ⟨i, rfl⟩ := hq'
  rcases groupDocs_spec d f _ e he with ⟨_, h2, h3, h4⟩ | ⟨h1, h2, h3⟩
  · simp [dataOp, keepsKey, h2, h3, h4]
  · have := take_top h i h1
    have ho : owned e.1 = true := by
      obtain ⟨⟨pp, ll⟩, bb⟩ := e
      simp at h2; subst h2; exact this
    simp [dataOp, keepsKey, ho, h3]



theorem under_prefix {p : List String} {k : Key} (h : under p k = true) : p <+: k.path := by
  simpa [under, List.isPrefixOf_iff_prefix] using h

theorem owned_of_under {p : List String} {k : Key} (hp : geffTop p = true) (h : under p k = true) :
    owned k = true := by
  obtain ⟨t, ht⟩ := under_prefix h
  cases p with
  | nil => simp [geffTop] at hp
  | cons x xs =>
    have : k.path.head? = some x := by rw [← ht]; simp
    simpa [owned, this, geffTop] using hp

theorem len_of_under {p : List String} {k : Key} (h : under p k = true) : p.length ≤ k.path.length :=
  (under_prefix h).length_le

/-- hypothesis shared by the per-array lemmas: `p` is a geff path of depth ≥ 2 not containing the
protected key -/
structure PathOk (prot : Option Key) (p : List String) : Prop where
  top : geffTop p = true
  len : 2 ≤ p.length
  prot : ∀ k1, prot = some k1 → under p k1 = false

theorem del_dataOp (f : Fmt) {prot : Option Key} {p : List String} (hp : PathOk prot p) {k : Key}
    (h : under p k = true) : dataOp f prot (.del k) = true := by
  have h1 := owned_of_under hp.top h
  have h2 := len_of_under h
  have h3 : prot ≠ some k := by
    intro hh; have := hp.prot k hh; simp [h] at this
  have : 2 ≤ k.path.length := by have := hp.len; omega
  simp [dataOp, keepsKey, h1, this, h3]

theorem delPrefix_dataOp (f : Fmt) {prot : Option Key} {p : List String} (hp : PathOk prot p) :
    dataOp f prot (.delPrefix p) = true := by
  have : keepsKey prot (.delPrefix p) = true := by
    cases prot with
    | none => rfl
    | some k1 => simp [keepsKey, hp.prot k1 rfl]
  simp [dataOp, hp.top, hp.len, this]

theorem All.deleteDir_dataOp (f : Fmt) (kind : Kind) {prot : Option Key} {p : List String}
    (hp : PathOk prot p) : All (dataOp f prot) (deleteDir kind p) := by
  unfold deleteDir
  apply All.bind All.look
  intro kv
  cases kind with
  | mem =>
    apply All.emit
    intro op hop
    simp only [List.mem_map, List.mem_filter] at hop
    obtain ⟨e, ⟨_, he⟩, rfl⟩ := hop
    exact del_dataOp f hp he
  | loc =>
    simp only
    split
    · apply All.emit; intro op hop; simp at hop; subst hop; exact delPrefix_dataOp f hp
    · exact All.pure ()
  | path =>
    simp only
    split
    · apply All.emit; intro op hop; simp at hop; subst hop; exact delPrefix_dataOp f hp
    · exact All.pure ()

theorem All.setup_dataOp (d : Docs) (f : Fmt) (prot : Option Key) :
    All (dataOp f prot) (setupZarrGroup d f) := by
  unfold setupZarrGroup
  apply All.bind All.look
  intro kv
  split
  · exact All.pure ()
  · apply All.emit
    intro op hop
    simp only [List.mem_map] at hop
    obtain ⟨e, he, rfl⟩ := hop
    rcases groupDocs_spec d f [] e he with ⟨_, h2, h3, h4⟩ | ⟨h1, _, _⟩
    · simp [dataOp, keepsKey, h2, h3, h4]
    · exact absurd rfl h1

theorem All.createArray_dataOp (d : Docs) (kind : Kind) (f : Fmt) {prot : Option Key} {p : List String}
    (hp : PathOk prot p) (a : Arr) :
    All (dataOp f prot) (createArray d kind f p a) := by
  unfold createArray
  split
  · exact All.raise _
  · apply All.bind (All.deleteDir_dataOp f kind hp); intro _
    have ho : ∀ l, owned ⟨p, l⟩ = true := fun l => owned_of_top hp.top
    apply All.bind
    · apply All.emit
      intro op hop
      cases f <;> simp [arrayMetaOps] at hop
      · rcases hop with rfl | rfl <;> simp [dataOp, keepsKey, ho, isRaw]
      · subst hop; simp [dataOp, keepsKey, ho, isRaw]
    intro _
    apply All.bind (All.emit (ancestorsNx_dataOp d f prot hp.top)); intro _
    apply All.emit
    intro op hop
    simp only [chunkOps, List.mem_map] at hop
    obtain ⟨c, _, rfl⟩ := hop
    cases c.2 with
    | some b => simp [dataOp, keepsKey, ho, isRaw]
    | none =>
      have : under p ⟨p, Leaf.chunk c.1⟩ = true := by simp [under]
      exact del_dataOp f hp this

theorem All.createGroup_dataOp (d : Docs) (f : Fmt) (prot : Option Key) {p : List String}
    (hp : geffTop p = true) (ex : Bool) : All (dataOp f prot) (createGroup d f p ex) := by
  unfold createGroup
  apply All.bind All.look; intro kv
  split
  · split
    · exact All.raise _
    · exact All.pure ()
  · apply All.bind
    · apply All.emit
      intro op hop
      simp only [List.mem_map] at hop
      obtain ⟨e, he, rfl⟩ := hop
      rcases groupDocs_spec d f p e he with ⟨h1, _, _, _⟩ | ⟨_, h2, h3⟩
      · subst h1; simp [geffTop] at hp
      · have ho : owned e.1 = true := by
          obtain ⟨⟨pp, ll⟩, bb⟩ := e
          simp at h2; subst h2; exact hp
        simp [dataOp, keepsKey, ho, h3]
    intro _
    exact All.emit (ancestorsNx_dataOp d f prot hp)

/-- the protected key, if any, is the metadata document of `nodes/ids` -/
def ProtOk (prot : Option Key) : Prop := prot = none ∨ ∃ l, prot = some ⟨[NODES, IDS], l⟩

theorem nodes_ne_edges : NODES ≠ EDGES := by decide
theorem ids_ne_props : IDS ≠ PROPS := by decide

theorem pathOk_prop {prot : Option Key} (hprot : ProtOk prot) {grp : String}
    (hg : grp = NODES ∨ grp = EDGES) (n x : String) : PathOk prot [grp, PROPS, n, x] := by
  refine ⟨?_, by simp, ?_⟩
  · rcases hg with rfl | rfl <;> simp [geffTop]
  · intro k1 hk
    rcases hprot with h | ⟨l, h⟩
    · simp [h] at hk
    · rw [h] at hk; cases hk
      simp [under, List.isPrefixOf]

theorem pathOk_edgeIds {prot : Option Key} (hprot : ProtOk prot) : PathOk prot [EDGES, IDS] := by
  refine ⟨by simp [geffTop], by simp, ?_⟩
  intro k1 hk
  rcases hprot with h | ⟨l, h⟩
  · simp [h] at hk
  · rw [h] at hk; cases hk
    have := nodes_ne_edges
    simp [under, List.isPrefixOf, Ne.symm this]

theorem pathOk_nodeIds : PathOk none [NODES, IDS] :=
  ⟨by simp [geffTop], by simp, by intro k1 hk; simp at hk⟩

theorem All.createOptArray_dataOp (d : Docs) (kind : Kind) (f : Fmt) {prot : Option Key}
    {p : List String} (hp : PathOk prot p) (a : Option Arr) :
    All (dataOp f prot) (createOptArray d kind f p a) := by
  cases a with
  | none => exact All.pure ()
  | some a => exact All.createArray_dataOp d kind f hp a

theorem All.writeProp_dataOp (d : Docs) (kind : Kind) (f : Fmt) {prot : Option Key}
    (hprot : ProtOk prot) {grp : String} (hg : grp = NODES ∨ grp = EDGES) (p : PropA) :
    All (dataOp f prot) (writeProp d kind f grp p) := by
  unfold writeProp
  have htop : ∀ l : List String, geffTop (grp :: l) = true := by
    intro l; rcases hg with rfl | rfl <;> simp [geffTop]
  split
  · exact All.raise _
  · apply All.bind (All.createGroup_dataOp d f prot (htop _) true); intro _
    apply All.bind (All.createArray_dataOp d kind f (pathOk_prop hprot hg _ _) _); intro _
    apply All.bind (All.createOptArray_dataOp d kind f (pathOk_prop hprot hg _ _) _); intro _
    exact All.createOptArray_dataOp d kind f (pathOk_prop hprot hg _ _) _

theorem All.writePropsArrays_dataOp (d : Docs) (kind : Kind) (f : Fmt) {prot : Option Key}
    (hprot : ProtOk prot) {grp : String} (hg : grp = NODES ∨ grp = EDGES) (ps : List PropA) :
    All (dataOp f prot) (writePropsArrays d kind f grp ps) := by
  unfold writePropsArrays
  have htop : ∀ l : List String, geffTop (grp :: l) = true := by
    intro l; rcases hg with rfl | rfl <;> simp [geffTop]
  apply All.bind (All.setup_dataOp d f prot); intro _
  apply All.bind (All.createGroup_dataOp d f prot (htop _) false); intro _
  exact All.forEach (fun p => All.writeProp_dataOp d kind f hprot hg p) ps

theorem All.writeOptProps_dataOp (d : Docs) (kind : Kind) (f : Fmt) {prot : Option Key}
    (hprot : ProtOk prot) {grp : String} (hg : grp = NODES ∨ grp = EDGES) (ps : Option (List PropA)) :
    All (dataOp f prot) (writeOptProps d kind f grp ps) := by
  cases ps with
  | none => exact All.pure ()
  | some ps => exact All.writePropsArrays_dataOp d kind f hprot hg ps

theorem All.writeIdArrays_dataOp (d : Docs) (kind : Kind) (f : Fmt) (g : G) :
    All (dataOp f none) (writeIdArrays d kind f g) := by
  unfold writeIdArrays
  split
  · exact All.raise _
  · apply All.bind (All.setup_dataOp d f none); intro _
    apply All.bind (All.createArray_dataOp d kind f pathOk_nodeIds _); intro _
    exact All.createArray_dataOp d kind f (pathOk_edgeIds (Or.inl rfl)) _

theorem All.writeData_dataOp (d : Docs) (kind : Kind) (f : Fmt) (g : G) :
    All (dataOp f none) (writeData d kind f g) := by
  unfold writeData
  apply All.bind (All.writeIdArrays_dataOp d kind f g); intro _
  apply All.bind (All.writeOptProps_dataOp d kind f (Or.inl rfl) (Or.inl rfl) _); intro _
  exact All.writeOptProps_dataOp d kind f (Or.inl rfl) (Or.inr rfl) _

end Geff.KV
