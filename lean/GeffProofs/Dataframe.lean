import GeffModel.Dataframe
/-! Lemmas about the table-export model: what `addProps` computes for well-formed property arrays
whose produced column names are pairwise distinct. -/
namespace Geff.Dataframe
variable {α : Type}

/-- the `missing` mask as the export sees it (`None` = nothing flagged) -/
def maskOf (missing : Option (List Bool)) (n : Nat) : List Bool := missing.getD (List.replicate n false)

/-- specification of one exported column: cell r is NaN when flagged, else `values[r].ravel()[j]` -/
def specCells (j : Nat) : List (List α) → List Bool → List (Cell α)
  | row :: rows, m :: ms =>
    (if m then Cell.nan else match row[j]? with | some a => Cell.val a | none => Cell.nan) :: specCells j rows ms
  | _, _ => []

/-- the columns a property contributes (by the naming rule of the property text) -/
def specCols (n : Nat) (p : PropArr α) : Dict α :=
  match squeezeTrail p.trail with
  | [] => [(p.name, specCells 0 p.rows (maskOf p.missing n))]
  | [k] => (List.range' 0 k).map (fun j => (subName p.name j, specCells j p.rows (maskOf p.missing n)))
  | _ => []

/-- the warning a property of rank > 2 causes -/
def specWarn (p : PropArr α) : List Warning :=
  match squeezeTrail p.trail with
  | [] => []
  | [_] => []
  | sq => [(p.name, sq.length + 1)]

def keys (d : Dict α) : List String := d.map (·.1)

/-- well-formed property array over an axis of `n` elements (what `read_to_memory` delivers) -/
structure PropArr.WF (p : PropArr α) (n : Nat) : Prop where
  rows_len : p.rows.length = n
  row_len : ∀ r ∈ p.rows, r.length = prodNat p.trail
  missing_len : ∀ m, p.missing = some m → m.length = n

theorem prodNat_squeeze (trail : List Nat) : prodNat (squeezeTrail trail) = prodNat trail := by
  induction trail with
  | nil => rfl
  | cons d ds ih =>
    unfold squeezeTrail at *
    by_cases h : d = 1
    · subst h; simp_all [prodNat]
    · simp_all [prodNat]

theorem specCells_length (j : Nat) (rows : List (List α)) (ms : List Bool) (h : ms.length = rows.length) :
    (specCells j rows ms).length = rows.length := by
  induction rows generalizing ms with
  | nil => cases ms <;> simp [specCells]
  | cons row rows ih =>
    cases ms with
    | nil => simp at h
    | cons m ms => simp [specCells, ih ms (by simpa using h)]

theorem colAt_spec (j : Nat) (rows : List (List α)) (hj : ∀ row ∈ rows, j < row.length) :
    ∃ col, colAt j rows = some col ∧ col.length = rows.length ∧
      (∀ ms, ms.length = rows.length → maskCells col ms = specCells j rows ms) ∧
      col.map Cell.val = specCells j rows (List.replicate rows.length false) := by
  induction rows with
  | nil =>
    refine ⟨[], rfl, rfl, ?_, by simp [specCells]⟩
    intro ms h; cases ms <;> simp_all [maskCells, specCells]
  | cons row rows ih =>
    have hj0 : j < row.length := hj row (List.mem_cons_self ..)
    obtain ⟨col, h1, h2, h3, h4⟩ := ih (fun r hr => hj r (List.mem_cons_of_mem _ hr))
    have hget : row[j]? = some row[j] := List.getElem?_eq_getElem hj0
    refine ⟨row[j] :: col, ?_, ?_, ?_, ?_⟩
    · simp [colAt, hget, h1]
    · simp [h2]
    · intro ms hms
      cases ms with
      | nil => simp at hms
      | cons m ms =>
        have := h3 ms (by simpa using hms)
        simp [maskCells, specCells, hget, this]
    · simp [List.replicate_succ, specCells, hget, h4]

theorem any_false_eq_replicate (m : List Bool) (h : m.any id = false) : m = List.replicate m.length false := by
  induction m with
  | nil => rfl
  | cons b bs ih =>
    simp only [List.any_cons, id_eq, Bool.or_eq_false_iff] at h
    simp [List.replicate_succ, h.1, ← ih h.2]

theorem mkSeries_spec (j n : Nat) (rows : List (List α)) (missing : Option (List Bool))
    (hrows : rows.length = n) (hj : ∀ row ∈ rows, j < row.length) (hm : ∀ m, missing = some m → m.length = n) :
    ∃ col, colAt j rows = some col ∧ mkSeries col missing = .ok (specCells j rows (maskOf missing n)) := by
  obtain ⟨col, h1, h2, h3, h4⟩ := colAt_spec j rows hj
  refine ⟨col, h1, ?_⟩
  cases missing with
  | none => simp [mkSeries, maskOf, h4, hrows]
  | some m =>
    have hml := hm m rfl
    by_cases hany : m.any id = true
    · simp [mkSeries, hany, maskOf, h2, hml, hrows, h3 m (by omega)]
    · have hany' : m.any id = false := by simpa using hany
      have := any_false_eq_replicate m hany'
      simp only [mkSeries, hany', maskOf, Option.getD_some]
      rw [h4, this, hml, hrows]; simp

theorem dictSet_fresh (d : Dict α) (k : String) (v : List (Cell α)) (h : k ∉ keys d) :
    dictSet d k v = d ++ [(k, v)] := by
  unfold dictSet
  have : d.any (fun e => decide (e.1 = k)) = false := by
    simp only [List.any_eq_false, decide_eq_true_eq]
    intro e he hk; exact h (by simpa [keys] using ⟨e.2, by rw [← hk]; exact he⟩)
  simp [this]

theorem addCols2_spec (p : PropArr α) (n L : Nat) (hwf : p.WF n) (hL : prodNat p.trail = L) :
    ∀ (cnt i : Nat) (d : Dict α), i + cnt ≤ L →
      (keys d ++ (List.range' i cnt).map (subName p.name)).Nodup →
      addCols2 p i cnt d = .ok (d ++ (List.range' i cnt).map
        (fun j => (subName p.name j, specCells j p.rows (maskOf p.missing n)))) := by
  intro cnt
  induction cnt with
  | zero => intro i d _ _; simp [addCols2]
  | succ cnt ih =>
    intro i d hle hnd
    have hj : ∀ row ∈ p.rows, i < row.length := by
      intro row hr; rw [hwf.row_len row hr, hL]; omega
    obtain ⟨col, hc, hs⟩ := mkSeries_spec i n p.rows p.missing hwf.rows_len hj hwf.missing_len
    simp only [List.range'_succ, List.map_cons] at hnd ⊢
    have hfresh : subName p.name i ∉ keys d := by
      intro hmem
      have := (List.nodup_append.1 hnd).2.2 _ hmem _ (List.mem_cons_self ..)
      exact this rfl
    have hnd' : (keys (d ++ [(subName p.name i, specCells i p.rows (maskOf p.missing n))]) ++
        (List.range' (i + 1) cnt).map (subName p.name)).Nodup := by
      simpa [keys, List.append_assoc] using hnd
    simp only [addCols2, hc, hs, dictSet_fresh d _ _ hfresh]
    rw [ih (i + 1) _ (by omega) hnd']
    simp [List.append_assoc]

theorem addProp_spec (p : PropArr α) (n : Nat) (hwf : p.WF n) (d : Dict α) (w : List Warning)
    (hnd : (keys d ++ keys (specCols n p)).Nodup) :
    addProp (d, w) p = .ok (d ++ specCols n p, w ++ specWarn p) := by
  have hprod := prodNat_squeeze p.trail
  cases hsq : squeezeTrail p.trail with
  | nil =>
    rw [hsq] at hprod
    have hj : ∀ row ∈ p.rows, 0 < row.length := by
      intro row hr; rw [hwf.row_len row hr, ← hprod]; simp [prodNat]
    obtain ⟨col, hc, hs⟩ := mkSeries_spec 0 n p.rows p.missing hwf.rows_len hj hwf.missing_len
    have hfresh : p.name ∉ keys d := by
      intro hmem
      have := (List.nodup_append.1 hnd).2.2 _ hmem p.name (by simp [specCols, hsq, keys])
      exact this rfl
    simp [addProp, hsq, hc, hs, dictSet_fresh d _ _ hfresh, specCols, specWarn]
  | cons k rest =>
    cases rest with
    | nil =>
      rw [hsq] at hprod
      have hL : prodNat p.trail = k := by rw [← hprod]; simp [prodNat]
      have hnd' : (keys d ++ (List.range' 0 k).map (subName p.name)).Nodup := by
        simpa [specCols, hsq, keys, Function.comp_def] using hnd
      have := addCols2_spec p n k hwf hL k 0 d (by omega) hnd'
      simp [addProp, hsq, this, specCols, specWarn]
    | cons k2 rest2 =>
      simp [addProp, hsq, specCols, specWarn]

theorem addProps_spec (n : Nat) (props : List (PropArr α)) :
    ∀ (d : Dict α) (w : List Warning), (∀ p ∈ props, p.WF n) →
      (keys d ++ keys (props.flatMap (specCols n))).Nodup →
      addProps (d, w) props = .ok (d ++ props.flatMap (specCols n), w ++ props.flatMap specWarn) := by
  induction props with
  | nil => intro d w _ _; simp [addProps]
  | cons p ps ih =>
    intro d w hwf hnd
    have hnd1 : (keys d ++ keys (specCols n p)).Nodup := by
      have : (keys d ++ (keys (specCols n p) ++ keys (ps.flatMap (specCols n)))).Nodup := by
        simpa [keys, List.flatMap_cons] using hnd
      rw [← List.append_assoc] at this
      exact (List.nodup_append.1 this).1
    have hnd2 : (keys (d ++ specCols n p) ++ keys (ps.flatMap (specCols n))).Nodup := by
      simpa [keys, List.flatMap_cons, List.append_assoc] using hnd
    rw [addProps, addProp_spec p n (hwf p (List.mem_cons_self ..)) d w hnd1]
    simp only
    rw [ih _ _ (fun q hq => hwf q (List.mem_cons_of_mem _ hq)) hnd2]
    simp [List.flatMap_cons, List.append_assoc]

/-! ### totality: a well-formed geff never raises, name collisions included -/

theorem addCols2_total (p : PropArr α) (n L : Nat) (hwf : p.WF n) (hL : prodNat p.trail = L) :
    ∀ (cnt i : Nat) (d : Dict α), i + cnt ≤ L → ∃ d', addCols2 p i cnt d = .ok d' := by
  intro cnt
  induction cnt with
  | zero => intro i d _; exact ⟨d, rfl⟩
  | succ cnt ih =>
    intro i d hle
    have hj : ∀ row ∈ p.rows, i < row.length := by
      intro row hr; rw [hwf.row_len row hr, hL]; omega
    obtain ⟨col, hc, hs⟩ := mkSeries_spec i n p.rows p.missing hwf.rows_len hj hwf.missing_len
    obtain ⟨d', hd'⟩ := ih (i + 1) (dictSet d (subName p.name i) (specCells i p.rows (maskOf p.missing n))) (by omega)
    exact ⟨d', by simp only [addCols2, hc, hs, hd']⟩

theorem addProp_total (p : PropArr α) (n : Nat) (hwf : p.WF n) (acc : Dict α × List Warning) :
    ∃ acc', addProp acc p = .ok acc' := by
  have hprod := prodNat_squeeze p.trail
  cases hsq : squeezeTrail p.trail with
  | nil =>
    rw [hsq] at hprod
    have hj : ∀ row ∈ p.rows, 0 < row.length := by
      intro row hr; rw [hwf.row_len row hr, ← hprod]; simp [prodNat]
    obtain ⟨col, hc, hs⟩ := mkSeries_spec 0 n p.rows p.missing hwf.rows_len hj hwf.missing_len
    exact ⟨_, by simp only [addProp, hsq, hc, hs]; rfl⟩
  | cons k rest =>
    cases rest with
    | nil =>
      rw [hsq] at hprod
      have hL : prodNat p.trail = k := by rw [← hprod]; simp [prodNat]
      obtain ⟨d', hd'⟩ := addCols2_total p n k hwf hL k 0 acc.1 (by omega)
      exact ⟨_, by simp only [addProp, hsq, hd']; rfl⟩
    | cons k2 rest2 => exact ⟨_, by simp only [addProp, hsq]; rfl⟩

theorem addProps_total (n : Nat) (props : List (PropArr α)) :
    ∀ (acc : Dict α × List Warning), (∀ p ∈ props, p.WF n) → ∃ acc', addProps acc props = .ok acc' := by
  induction props with
  | nil => intro acc _; exact ⟨acc, rfl⟩
  | cons p ps ih =>
    intro acc hwf
    obtain ⟨acc1, h1⟩ := addProp_total p n (hwf p (List.mem_cons_self ..)) acc
    obtain ⟨acc2, h2⟩ := ih acc1 (fun q hq => hwf q (List.mem_cons_of_mem _ hq))
    exact ⟨acc2, by simp only [addProps, h1, h2]⟩

/-! ### the file-level model of `geff_to_csv` -/

theorem fsGet_fsSet_same (fs : FS) (path content : String) : fsGet (fsSet fs path content) path = some content := by
  induction fs with
  | nil => simp [fsSet, fsGet]
  | cons e rest ih =>
    unfold fsSet
    by_cases h : e.1 = path
    · simp [h, fsGet]
    · simp [h, fsGet, ih]

theorem fsGet_fsSet_other (fs : FS) (path content q : String) (hq : q ≠ path) :
    fsGet (fsSet fs path content) q = fsGet fs q := by
  induction fs with
  | nil => simp [fsSet, fsGet, Ne.symm hq]
  | cons e rest ih =>
    unfold fsSet
    by_cases h : e.1 = path
    · have : e.1 ≠ q := by rw [h]; exact Ne.symm hq
      simp [h, fsGet, Ne.symm hq]
    · by_cases h2 : e.1 = q
      · simp [h, fsGet]; simp [h2]
      · simp [h, fsGet, h2, ih]

/-- without `overwrite`, `to_csv` leaves every existing file as it is -/
theorem toCsv_keeps (fs : FS) (path content : String) (q c : String) (hq : fsGet fs q = some c) :
    fsGet (toCsv fs path content false).2 q = some c := by
  unfold toCsv
  by_cases hex : (fsGet fs path).isSome = true
  · simp [hex, hq]
  · have hne : q ≠ path := by
      rintro rfl; rw [hq] at hex; simp at hex
    simp [hex, fsGet_fsSet_other fs path content q hne, hq]

end Geff.Dataframe
