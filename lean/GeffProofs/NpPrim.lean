import Mathlib.Data.List.Nodup
import Mathlib.Tactic.SplitIfs
import GeffProofs.ValidateData
import GeffModel.NpPrim
/-! Lemmas about the numpy primitive library `GeffModel/NpPrim.lean`: what each primitive computes on the
argument shapes that occur in the translated code (`Gen.ValidateGraph`), used by `GeffProps.C12Gen` to
prove the generated definitions equal to the hand-written model `Geff.Validate.*`. -/
namespace Geff.NpPrim
open Geff.Validate Geff.Graph

theorem maskIndex_map {α β : Type} (l : List β) (f : β → α) (p : β → Bool) :
    maskIndex (l.map f) (l.map p) = .ok ((l.filter p).map f) := by
  unfold maskIndex
  simp only [List.length_map, true_or, if_true]
  congr 1
  induction l with
  | nil => rfl
  | cons x xs ih =>
    simp only [List.map_cons, List.zip_cons_cons, List.filterMap_cons, List.filter_cons]
    cases hp : p x <;> simp [ih]

theorem maskIndex_self_map {α : Type} (l : List α) (p : α → Bool) :
    maskIndex l (l.map p) = .ok (l.filter p) := by
  have := maskIndex_map l id p
  simpa using this

theorem broadcast2_map {α β γ δ : Type} (g : α → β → γ) (l : List δ) (f1 : δ → α) (f2 : δ → β) :
    broadcast2 g (l.map f1) (l.map f2) = .ok (l.map fun x => g (f1 x) (f2 x)) := by
  unfold broadcast2
  simp only [List.length_map, if_true]
  congr 1
  induction l with
  | nil => rfl
  | cons x xs ih => simp [ih]

theorem take_map_idxOf {α : Type} [BEq α] [LawfulBEq α] (e l : List α) (h : ∀ x ∈ l, x ∈ e) :
    take e (l.map fun x => e.idxOf x) = .ok l := by
  unfold take
  induction l with
  | nil => rfl
  | cons x xs ih =>
    have hx : x ∈ e := h x (by simp)
    have hlt : e.idxOf x < e.length := List.idxOf_lt_length_of_mem hx
    have hget : e[e.idxOf x]? = some x := by
      rw [List.getElem?_eq_getElem hlt]; simp
    have ih' := ih (fun y hy => h y (List.mem_cons_of_mem _ hy))
    simp only [List.map_cons, List.mapM_cons, hget, ih']
    rfl

theorem cmp_eq_len_zero {α : Type} (l : List α) : cmp .eq (len l) 0 = l.isEmpty := by
  cases l with
  | nil => simp [cmp, len, Cmp.eval]
  | cons a t =>
    show decide (((t.length + 1 : Nat) : Int) = 0) = false
    exact decide_eq_false (by omega)

theorem any_map {β : Type} (l : List β) (p : β → Bool) : any (l.map p) = l.any p := by
  unfold any; simp [List.any_map]

theorem cmp_gt_one (n : Nat) : Cmp.eval .gt (Int.ofNat n) 1 = decide (1 < n) := by
  simp only [Cmp.eval, Int.ofNat_eq_natCast, gt_iff_lt, decide_eq_decide]
  omega

theorem ok_bind {α β : Type} (a : α) (f : α → Py β) : ((Except.ok a : Py α) >>= f) = f a := rfl
theorem map_ok {α β : Type} (f : α → β) (a : α) : f <$> (Except.ok a : Py α) = .ok (f a) := rfl
theorem throw_eq {α : Type} (e : Exc) : (throw e : Py α) = .error e := rfl
theorem error_bind {α β : Type} (e : Exc) (f : α → Py β) : ((Except.error e : Py α) >>= f) = .error e := rfl
theorem pure_eq {α : Type} (a : α) : (pure a : Py α) = .ok a := rfl

theorem filter_isEmpty_any {β : Type} (l : List β) (p : β → Bool) : (l.filter p).isEmpty = !l.any p := by
  induction l with
  | nil => rfl
  | cons x xs ih => cases hp : p x <;> simp [hp, ih]

theorem mul_two_pow_neg_iff (a : Int) (n : Nat) : a * 2 ^ n < 0 ↔ a < 0 := by
  have h : (0 : Int) < 2 ^ n := Int.pow_pos (by decide)
  constructor
  · intro h1
    apply Classical.byContradiction
    intro h2
    have := Int.mul_nonneg (Int.not_lt.1 h2) (Int.le_of_lt h)
    omega
  · intro h1; exact Int.mul_neg_of_neg_of_pos h1 h

theorem numCmp_lt_zero (x : Num) : numCmp .lt 0 x = x.ltZero := by
  cases x with
  | int v => simp [numCmp, Cmp.eval, Num.ltZero]
  | f64 b =>
    unfold numCmp f64VsInt Num.ltZero
    simp only [Nat.reducePow, Int.reducePow]
    by_cases h64 : 18446744073709551616 ≤ b
    · simp only [h64, if_true]
      have : ¬ (9223372036854775808 < b ∧ b ≤ 9223372036854775808 + 9218868437227405312) := by omega
      simp [this]
    · simp only [h64, if_false]
      by_cases he : b / 4503599627370496 % 2048 = 2047
      · simp only [he, if_true]
        by_cases hf : b % 4503599627370496 = 0
        · simp only [hf, if_true]
          by_cases hn : 9223372036854775808 ≤ b
          · have : (9223372036854775808 < b ∧ b ≤ 9223372036854775808 + 9218868437227405312) := by omega
            simp [hn, this, Cmp.eval]
          · have : ¬ (9223372036854775808 < b ∧ b ≤ 9223372036854775808 + 9218868437227405312) := by omega
            simp [hn, this, Cmp.eval]
        · have : ¬ (9223372036854775808 < b ∧ b ≤ 9223372036854775808 + 9218868437227405312) := by omega
          simp [hf, this]
      · simp only [he, if_false]
        split_ifs <;>
          simp only [Cmp.eval, Int.zero_mul, mul_two_pow_neg_iff, decide_eq_decide, decide_eq_true_eq] at * <;>
          omega

theorem filterMap_zip_not {β : Type} (xs : List β) (m : List Bool) :
    (xs.zip (m.map not)).filterMap (fun p => if p.2 then some p.1 else none) =
      (xs.zip m).filterMap (fun p => if p.2 then none else some p.1) := by
  induction xs generalizing m with
  | nil => simp
  | cons x xs ih =>
    cases m with
    | nil => simp
    | cons b bs => cases b <;> simp [ih]

/-- `a[~m]` is the hand-written `applyMask` (both accept an empty mask on an array of any length, as numpy does) -/
theorem maskIndex_notMask {β : Type} (xs : List β) (m : List Bool) :
    maskIndex xs (notMask m) =
      match applyMask xs (some m) with
      | some r => .ok r
      | none => .error .indexError := by
  unfold maskIndex notMask applyMask
  simp only [List.length_map, filterMap_zip_not, List.length_eq_zero_iff]
  split <;> rfl

theorem cmpScalarNum_lt_zero (r : List Num) : any (cmpScalarNum .lt r 0) = r.any Num.ltZero := by
  unfold cmpScalarNum
  rw [any_map]
  congr 1
  funext x
  exact numCmp_lt_zero x

end Geff.NpPrim
