import GeffProofs.CtcGraph
/-! From the closed form of `fromCtc` to the specification vocabulary: the node predicate of the
output arrays is the position predicate of the loop order, the edge list meets `EdgeSpec`, and a
consistent dataset gives the position-level hypotheses. -/
namespace Geff.Ctc

/-- inversion of `fromCtc_spec` -/
theorem fromCtc_ok_inv (ds : Dataset) (hwf : ds.WF) (out : Out) (h : fromCtc ds = .ok out) :
    objs 0 ds.frames ≠ [] ∧ (∀ r ∈ prows ds, r.L ∈ labelsOf ds ∧ r.P ∈ labelsOf ds) ∧
    ∃ tracks coords, TracksInv (labelsOf ds) tracks ∧ CoordsOk ds.ndim (objs 0 ds.frames) coords ∧
      out = { nodeIds := List.range (objs 0 ds.frames).length
              tracklet := labelsOf ds
              ts := (objs 0 ds.frames).map (·.1)
              coords := coords
              edges := trackEdges tracks ++ (prows ds).map (pedge (labelsOf ds))
              axes := axesOf coords } := by
  obtain ⟨h1, h2, h3⟩ := fromCtc_spec ds hwf
  have hne : objs 0 ds.frames ≠ [] := by
    intro hnil; rw [h1 hnil] at h; cases h
  have hall : ∀ r ∈ prows ds, r.L ∈ labelsOf ds ∧ r.P ∈ labelsOf ds := by
    intro r hr
    apply Classical.byContradiction
    intro hbad
    rw [h2 hne ⟨r, hr, hbad⟩] at h; cases h
  obtain ⟨tracks, coords, ht, hc, heq⟩ := h3 hne hall
  rw [heq] at h
  exact ⟨hne, hall, tracks, coords, ht, hc, (Outcome.ok.inj h).symm⟩

/-- the node predicate of the closed-form output is the position predicate -/
theorem nodeAt_closed (O : List (Nat × Region)) (coords : List (String × List String))
    (edges : List (Nat × Nat)) (axes : List (String × String)) (a t : Nat) (l : Int) :
    NodeAt { nodeIds := List.range O.length, tracklet := O.map (·.2.label), ts := O.map (·.1),
             coords := coords, edges := edges, axes := axes } a t l ↔ At O a t l := by
  unfold NodeAt At
  simp only
  constructor
  · rintro ⟨i, h1, h2, h3⟩
    have hi : i < O.length := by
      rcases Nat.lt_or_ge i O.length with h | h
      · exact h
      · rw [List.getElem?_eq_none (by simpa using h)] at h1; cases h1
    rw [List.getElem?_range hi] at h1
    have := Option.some.inj h1; subst this
    simp only [List.getElem?_map, Option.map_eq_some_iff] at h2 h3
    obtain ⟨⟨t', r⟩, hr, rfl⟩ := h2
    obtain ⟨⟨t'', r'⟩, hr', rfl⟩ := h3
    rw [hr] at hr'
    have := Option.some.inj hr'
    simp only [Prod.mk.injEq] at this
    exact ⟨r, hr, by rw [this.2]⟩
  · rintro ⟨r, hr, rfl⟩
    have hi : a < O.length := by
      rcases Nat.lt_or_ge a O.length with h | h
      · exact h
      · rw [List.getElem?_eq_none h] at hr; cases hr
    exact ⟨a, List.getElem?_range hi, by simp [hr], by simp [hr]⟩

theorem at_inj {O : List (Nat × Region)} (hO : O.Pairwise LexLt) (a b t : Nat) (l : Int)
    (ha : At O a t l) (hb : At O b t l) : a = b := by
  rcases Nat.lt_trichotomy a b with h | h | h
  · have := (time_lt_iff hO ha hb).1 h; omega
  · exact h
  · have := (time_lt_iff hO hb ha).1 h; omega

theorem at_chain {O : List (Nat × Region)} (hO : O.Pairwise LexLt) (a b ta tb : Nat) (l : Int)
    (ha : At O a ta l) (hb : At O b tb l) :
    Relation.ReflTransGen (fun x y => Consec (At O) x y ∨ Consec (At O) y x) a b := by
  refine consec_chain (R := Consec (At O)) (idxs l 0 (O.map (·.2.label))) ?_ a
    ((mem_idxs_at O l a).2 ⟨ta, ha⟩) b ((mem_idxs_at O l b).2 ⟨tb, hb⟩)
  intro x y hxy
  obtain ⟨tx, ty, hx, hy, hlt, hno⟩ := (consec_iff_Consec hO l x y).1 hxy
  exact ⟨tx, ty, l, hx, hy, hlt, hno⟩

theorem edgeSpec_closed {O : List (Nat × Region)} (hO : O.Pairwise LexLt) {tracks : List (Int × List Nat)}
    (ht : TracksInv (O.map (·.2.label)) tracks) (rows : List Row)
    (hall : ∀ r ∈ rows, r.L ∈ O.map (·.2.label) ∧ r.P ∈ O.map (·.2.label)) :
    EdgeSpec (At O) rows (trackEdges tracks ++ rows.map (pedge (O.map (·.2.label)))) := by
  refine ⟨trackEdges tracks, pedge (O.map (·.2.label)), rfl, trackEdges_nodup ht, ?_, ?_⟩
  · intro a b
    rw [mem_trackEdges ht]
    constructor
    · rintro ⟨l, _, hab⟩
      obtain ⟨ta, tb, ha, hb, hlt, hno⟩ := (consec_iff_Consec hO l a b).1 hab
      exact ⟨ta, tb, l, ha, hb, hlt, hno⟩
    · rintro ⟨ta, tb, l, ha, hb, hlt, hno⟩
      refine ⟨l, List.mem_of_getElem? ha.label, (consec_iff_Consec hO l a b).2 ⟨ta, tb, ha, hb, hlt, hno⟩⟩
  · intro r hr
    obtain ⟨_, h2, h3⟩ := parentEdge_ok ht r (hall r hr).1 (hall r hr).2
    exact ⟨last_isLast hO r.P _ h2, head_isFirst hO r.L _ h3⟩

/-! ### dataset-level notions on the loop order -/

theorem occurs_iff_at (ds : Dataset) (l : Int) (t : Nat) :
    Occurs ds l t ↔ ∃ a, At (objs 0 ds.frames) a t l := by
  unfold Occurs At
  constructor
  · rintro ⟨fr, r, hfr, hr, rfl⟩
    have : (t, r) ∈ objs 0 ds.frames := (mem_objs ds.frames 0 t r).2 ⟨Nat.zero_le _, fr, by simpa using hfr, hr⟩
    obtain ⟨a, ha⟩ := List.getElem?_of_mem this
    exact ⟨a, r, ha, rfl⟩
  · rintro ⟨a, r, ha, rfl⟩
    have := List.mem_of_getElem? ha
    obtain ⟨_, fr, hfr, hr⟩ := (mem_objs ds.frames 0 t r).1 this
    exact ⟨fr, r, by simpa using hfr, hr, rfl⟩

theorem mem_labelsOf_iff (ds : Dataset) (l : Int) : l ∈ labelsOf ds ↔ ∃ t, Occurs ds l t := by
  unfold labelsOf
  constructor
  · intro h
    obtain ⟨a, ha⟩ := List.getElem?_of_mem h
    obtain ⟨t, hat⟩ := at_of_label ha
    exact ⟨t, (occurs_iff_at ds l t).2 ⟨a, hat⟩⟩
  · rintro ⟨t, ht⟩
    obtain ⟨a, ha⟩ := (occurs_iff_at ds l t).1 ht
    exact List.mem_of_getElem? ha.label

theorem objs_eq_nil_iff : ∀ (frames : List (List Region)) (t0 : Nat),
    objs t0 frames = [] ↔ ∀ fr ∈ frames, fr = [] := by
  intro frames
  induction frames with
  | nil => intro t0; simp [objs]
  | cons fr frs ih => intro t0; simp [objs, ih]

/-! ### the Bool decider of consistency -/

theorem mem_timesOf (ds : Dataset) (l : Int) (t : Nat) : t ∈ timesOf ds l ↔ Occurs ds l t := by
  unfold timesOf Occurs occursB
  simp only [List.mem_filter, List.mem_range]
  constructor
  · rintro ⟨hlt, hb⟩
    rw [List.getElem?_eq_getElem hlt] at hb
    simp only [List.any_eq_true, decide_eq_true_eq] at hb
    obtain ⟨r, hr, hl⟩ := hb
    exact ⟨_, r, List.getElem?_eq_getElem hlt, hr, hl⟩
  · rintro ⟨fr, r, hfr, hr, hl⟩
    have hlt : t < ds.frames.length := by
      rcases Nat.lt_or_ge t ds.frames.length with h | h
      · exact h
      · rw [List.getElem?_eq_none h] at hfr; cases hfr
    refine ⟨hlt, ?_⟩
    rw [hfr]
    simp only [List.any_eq_true, decide_eq_true_eq]
    exact ⟨r, hr, hl⟩

theorem wfB_iff (ds : Dataset) : wfB ds = true ↔ ds.WF := by
  unfold wfB
  simp only [Bool.and_eq_true, Bool.or_eq_true, beq_iff_eq, List.all_eq_true]
  exact ⟨fun ⟨h1, h2⟩ => ⟨h1, h2⟩, fun h => ⟨h.ndim, h.cen⟩⟩

theorem sortedB_iff (ds : Dataset) : sortedB ds = true ↔ ds.Sorted := by
  unfold sortedB Dataset.Sorted
  simp only [List.all_eq_true, decide_eq_true_eq]

theorem consistentB_iff (ds : Dataset) : consistentB ds = true ↔ Consistent ds := by
  unfold consistentB
  simp only [Bool.and_eq_true, List.all_eq_true, decide_eq_true_eq, Bool.not_eq_eq_eq_not, Bool.not_true,
    List.isEmpty_eq_false_iff]
  constructor
  · rintro ⟨hrows, hnd⟩
    refine ⟨?_, ?_, hnd⟩
    · intro r hr
      obtain ⟨⟨hL, hP⟩, _⟩ := hrows r hr
      obtain ⟨tc, htc⟩ := List.exists_mem_of_ne_nil _ hL
      obtain ⟨tp, htp⟩ := List.exists_mem_of_ne_nil _ hP
      exact ⟨⟨tc, (mem_timesOf ds _ _).1 htc⟩, ⟨tp, (mem_timesOf ds _ _).1 htp⟩⟩
    · intro r hr tp tc hp hc
      exact (hrows r hr).2 tp ((mem_timesOf ds _ _).2 hp) tc ((mem_timesOf ds _ _).2 hc)
  · rintro ⟨hocc, hord, hnd⟩
    refine ⟨?_, hnd⟩
    intro r hr
    obtain ⟨⟨tc, htc⟩, ⟨tp, htp⟩⟩ := hocc r hr
    refine ⟨⟨List.ne_nil_of_mem ((mem_timesOf ds _ _).2 htc), List.ne_nil_of_mem ((mem_timesOf ds _ _).2 htp)⟩, ?_⟩
    intro tp' hp tc' hc
    exact hord r hr tp' tc' ((mem_timesOf ds _ _).1 hp) ((mem_timesOf ds _ _).1 hc)

end Geff.Ctc
