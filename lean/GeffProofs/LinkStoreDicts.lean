import GeffProofs.LinkStoreMem
/-! Integration layer, link C03 ← C01 (continued): whatever C03's model of `write_dicts` /
`dict_props_to_arr` (`GeffModel/Dicts.lean`) builds from attribute dicts whose array values are arrays
is a column C01's store model can hold (`ColOK`); hence `NxBackend.write`'s in-memory geff is
`Storable` whenever the attribute names are valid zarr node names (`nxWrite_storable`). -/
namespace Geff.Link
open Geff.Np Geff.Dicts

/-- a Python attribute value whose array form is an array: as many leaves as the shape says; Python `None`
is not a value the store link covers (its handling by `dict_props_to_arr` — repair C03-06 — is C03's own
subject; a `None` becomes a missing element, so what is read back is not what was handed in) -/
def PyWF : PyVal → Prop
  | .sc _ => True
  | .arr sh fl => fl.length = prod sh
  | .none => False

/-- the dtypes numpy's inference on Python scalars ends in (when the conversion succeeds) -/
def five : List Dtype := [.bool, .i64, .u64, .f64, .str]

theorem five_dense (d : Dtype) (h : d ∈ five) : d ∈ Geff.WR.denseDtypes ∧ d ≠ .f16 := by
  simp only [five, List.mem_cons, List.not_mem_nil, or_false] at h
  rcases h with rfl | rfl | rfl | rfl | rfl <;> exact ⟨by decide, by decide⟩

theorem five_vlen (d : Dtype) (h : d ∈ five) : d ∈ Geff.WR.vlenDtypes := by
  simp only [five, List.mem_cons, List.not_mem_nil, or_false] at h
  rcases h with rfl | rfl | rfl | rfl | rfl <;> decide

theorem ebind_ok {ε α β} (x : Except ε α) (f : α → Except ε β) (b : β) (h : (x >>= f) = .ok b) :
    ∃ a, x = .ok a ∧ f a = .ok b := by
  cases x with
  | error e => cases h
  | ok a => exact ⟨a, rfl, h⟩

theorem mapE_spec {α β : Type} (f : α → Except Err β) : ∀ (l : List α) (l' : List β), mapE f l = .ok l' →
    l'.length = l.length ∧ (∀ b ∈ l', ∃ a ∈ l, f a = .ok b) ∧ (∀ a ∈ l, ∃ b ∈ l', f a = .ok b) ∧
    (∀ a, l.head? = some a → ∃ b, l'.head? = some b ∧ f a = .ok b) := by
  intro l
  induction l with
  | nil => intro l' h; cases h; simp
  | cons a t ih =>
    intro l' h
    simp only [mapE] at h
    cases hfa : f a with
    | error e => simp [hfa] at h
    | ok b =>
      cases ht : mapE f t with
      | error e => simp [hfa, ht] at h
      | ok bs =>
        simp only [hfa, ht, Except.ok.injEq] at h
        subst h
        obtain ⟨h1, h2, h3, _⟩ := ih bs ht
        refine ⟨by simp [h1], ?_, ?_, ?_⟩
        · intro b' hb'
          rcases List.mem_cons.1 hb' with rfl | hb'
          · exact ⟨a, List.mem_cons_self .., hfa⟩
          · obtain ⟨a', ha', hf⟩ := h2 b' hb'
            exact ⟨a', List.mem_cons_of_mem _ ha', hf⟩
        · intro a' ha'
          rcases List.mem_cons.1 ha' with rfl | ha'
          · exact ⟨b, List.mem_cons_self .., hfa⟩
          · obtain ⟨b', hb', hf⟩ := h3 a' ha'
            exact ⟨b', List.mem_cons_of_mem _ hb', hf⟩
        · intro a' ha'
          simp only [List.head?_cons, Option.some.injEq] at ha'
          subst ha'
          exact ⟨b, rfl, hfa⟩

theorem castTo_ok_five (d : Dtype) (v w : Val) (h : castTo d v = .ok w) : d ∈ five := by
  cases d <;> cases v <;> simp [castTo] at h <;> simp [five]

theorem castRow_spec (d : Dtype) (r r' : Row) (h : castRow d r = .ok r') :
    r'.1 = r.1 ∧ r'.2.length = r.2.length ∧ (r.2 ≠ [] → d ∈ five) := by
  unfold castRow at h
  cases hm : mapE (castTo d) r.2 with
  | error e => simp [hm] at h
  | ok fl =>
    simp only [hm, Except.ok.injEq] at h
    subst h
    obtain ⟨h1, _, h3, _⟩ := mapE_spec _ _ _ hm
    refine ⟨rfl, h1, ?_⟩
    intro hne
    obtain ⟨v, hv⟩ := List.exists_mem_of_ne_nil _ hne
    obtain ⟨w, _, hw⟩ := h3 v hv
    exact castTo_ok_five d v w hw

theorem pyRow_snd (y : PyVal) : (pyRow y).2 = pyLeaves y := by cases y <;> rfl

theorem pyRow_wf (y : PyVal) (h : PyWF y) : (pyRow y).2.length = prod (pyRow y).1 := by
  cases y with
  | sc v => simp [pyRow, prod]
  | arr sh fl => exact h
  | none => exact h.elim

theorem pyRow_shape_of_pyShape (x y : PyVal) (h : pyShape y = pyShape x) : (pyRow y).1 = (pyRow x).1 := by
  cases x <;> cases y <;> simp [pyShape, pyRow] at h ⊢ <;> first | exact h | exact h.symm

/-- the regular branch of `valuesToArr` produces a storable column -/
theorem regularArr_colOK (x : PyVal) (vals : List PyVal) (hx : vals.head? = some x)
    (hsh : ∀ y ∈ vals, pyShape y = pyShape x) (hwf : ∀ y ∈ vals, PyWF y)
    (d : Dtype) (vl : Bool) (rows : List Row) (h : regularArr vals = .ok (d, vl, rows)) (ms : Option (List Bool)) :
    ColOK ⟨d, vl, rows, ms⟩ := by
  unfold regularArr at h
  cases he : exactIntDtype (vals.flatMap pyLeaves) (joinAll ((vals.flatMap pyLeaves).map discover)) with
  | error e => simp [he] at h
  | ok d0 =>
    cases hm : mapE (fun y => castRow d0 (pyRow y)) vals with
    | error e => simp [he, hm] at h
    | ok rows0 =>
      simp only [he, hm, Except.ok.injEq, Prod.mk.injEq] at h
      obtain ⟨rfl, rfl, rfl⟩ := h
      obtain ⟨_, h2, h3, h4⟩ := mapE_spec _ _ _ hm
      have hd : d0 ∈ five := by
        by_cases hL : vals.flatMap pyLeaves = []
        · rw [hL] at he
          simp only [List.map_nil, joinAll, exactIntDtype_nil, Except.ok.injEq] at he
          subst he; simp [five]
        · obtain ⟨v, hv⟩ := List.exists_mem_of_ne_nil _ hL
          obtain ⟨y, hy, hvy⟩ := List.mem_flatMap.1 hv
          obtain ⟨r, _, hr⟩ := h3 y hy
          exact (castRow_spec d0 _ r hr).2.2 (by rw [pyRow_snd]; exact List.ne_nil_of_mem hvy)
      obtain ⟨r0, hr0, hc0⟩ := h4 x hx
      have hrs : rowShape rows0 = (pyRow x).1 := by
        cases rows0 with
        | nil => simp at hr0
        | cons a t =>
          simp only [List.head?_cons, Option.some.injEq] at hr0
          subst hr0
          exact (castRow_spec d0 _ _ hc0).1
      refine ⟨fun _ => five_dense d0 hd, (fun hv => by cases hv), ?_, ?_, (fun hv => by cases hv)⟩
      · intro r hr
        obtain ⟨y, hy, hc⟩ := h2 r hr
        obtain ⟨e1, e2, _⟩ := castRow_spec d0 _ r hc
        rw [e1, e2]; exact pyRow_wf y (hwf y hy)
      · intro _ r hr
        obtain ⟨y, hy, hc⟩ := h2 r hr
        show r.1 = rowShape rows0
        rw [hrs, (castRow_spec d0 _ r hc).1]
        exact pyRow_shape_of_pyShape x y (hsh y hy)

theorem promote_f64 : promote .f64 .f64 = .f64 := by decide

/-- the fold of `_get_common_type_dims`: the rank only grows and bounds every element's rank; with no
leaf anywhere the dtype stays float64 -/
theorem commonFold_spec (xs : List PyVal) : ∀ (acc r : Dtype × Nat × Nat),
    xs.foldlM (fun (acc : Dtype × Nat × Nat) y =>
        let d := elemDtype y
        let w := strWidth y
        if canCast acc.1 d ∧ (acc.1 = .str → acc.2.1 ≤ w) then
          (.ok (promote acc.1 d, max acc.2.1 w, max acc.2.2 ((pyRow y).1.length)) : Except Err _)
        else .error (.unmodelled "order-dependent common dtype (D8, property C11)")) acc = .ok r →
    acc.2.2 ≤ r.2.2 ∧ (∀ y ∈ xs, (pyRow y).1.length ≤ r.2.2) ∧
    (acc.1 = .f64 → (∀ y ∈ xs, pyLeaves y = []) → r.1 = .f64) := by
  induction xs with
  | nil =>
    intro acc r h
    simp only [List.foldlM_nil, pure, Except.pure, Except.ok.injEq] at h
    subst h
    exact ⟨Nat.le_refl _, by simp, fun h _ => h⟩
  | cons y t ih =>
    intro acc r h
    rw [List.foldlM_cons] at h
    obtain ⟨acc', h1, h2⟩ := ebind_ok _ _ _ h
    simp only [] at h1
    split at h1
    · simp only [Except.ok.injEq] at h1
      subst h1
      obtain ⟨i1, i2, i3⟩ := ih _ r h2
      simp only at i1 i3
      refine ⟨by omega, ?_, ?_⟩
      · intro z hz
        rcases List.mem_cons.1 hz with rfl | hz
        · omega
        · exact i2 z hz
      · intro hacc hall
        apply i3
        · have : elemDtype y = .f64 := by
            unfold elemDtype; rw [hall y (List.mem_cons_self ..)]; rfl
          rw [hacc, this]; exact promote_f64
        · exact fun z hz => hall z (List.mem_cons_of_mem _ hz)
    · cases h1

theorem varLenRow_spec (d : Dtype) (nd : Nat) (y : PyVal) (r : Row) (h : varLenRow d nd y = .ok r) :
    r.1 = List.replicate (nd - (pyRow y).1.length) 1 ++ (pyRow y).1 ∧ r.2.length = (pyRow y).2.length ∧
    ((pyRow y).2 ≠ [] → d ∈ five) := by
  unfold varLenRow at h
  cases hc : castRow d (pyRow y) with
  | error e => simp [hc] at h
  | ok r0 =>
    simp only [hc, Except.ok.injEq] at h
    subst h
    obtain ⟨e1, e2, e3⟩ := castRow_spec d _ r0 hc
    exact ⟨by simp only [e1], e2, e3⟩

/-- the variable-length branch of `valuesToArr` produces a storable column -/
theorem constructVarLenProps_colOK (vals : List PyVal) (hne : vals ≠ []) (hwf : ∀ y ∈ vals, PyWF y)
    (d : Dtype) (rows : List Row) (h : constructVarLenProps vals = .ok (d, rows)) (ms : Option (List Bool)) :
    ColOK ⟨d, true, rows, ms⟩ := by
  unfold constructVarLenProps at h
  cases hc : commonTypeDims vals with
  | error e => simp [hc] at h
  | ok dn =>
    obtain ⟨d0, w, nd⟩ := dn
    simp only [hc] at h
    split at h
    · cases h
    rename_i hu
    cases hm : mapE (varLenRow d0 nd) vals with
    | error e => simp [hm] at h
    | ok rows0 =>
      simp only [hm, Except.ok.injEq, Prod.mk.injEq] at h
      obtain ⟨rfl, rfl⟩ := h
      obtain ⟨hl, h2, h3, _⟩ := mapE_spec _ _ _ hm
      -- what the fold says
      obtain ⟨x, xs, rfl⟩ := List.exists_cons_of_ne_nil hne
      unfold commonTypeDims at hc
      obtain ⟨_, hrank, hf64⟩ := commonFold_spec xs _ _ hc
      simp only at hrank hf64
      have hrk : ∀ y ∈ x :: xs, (pyRow y).1.length ≤ nd := by
        intro y hy
        rcases List.mem_cons.1 hy with rfl | hy
        · exact (commonFold_spec xs _ _ hc).1
        · exact hrank y hy
      have hd : d0 ∈ five := by
        by_cases hL : ∀ y ∈ x :: xs, pyLeaves y = []
        · have : d0 = .f64 := by
            apply hf64
            · unfold elemDtype; rw [hL x (List.mem_cons_self ..)]; rfl
            · exact fun y hy => hL y (List.mem_cons_of_mem _ hy)
          rw [this]; simp [five]
        · have : ∃ y ∈ x :: xs, pyLeaves y ≠ [] := by
            apply Classical.byContradiction
            intro hn
            apply hL
            intro y hy
            apply Classical.byContradiction
            intro hne'
            exact hn ⟨y, hy, hne'⟩
          obtain ⟨y, hy, hne'⟩ := this
          obtain ⟨r, _, hr⟩ := h3 y hy
          exact (varLenRow_spec d0 nd y r hr).2.2 (by rw [pyRow_snd]; exact hne')
      refine ⟨(fun hv => by cases hv), fun _ => ⟨five_vlen d0 hd, ?_⟩, ?_, (fun hv => by cases hv), ?_⟩
      · intro hr
        exfalso
        simp only at hr
        rw [hr] at hl
        simp at hl
      · intro r hr
        obtain ⟨y, hy, hc'⟩ := h2 r hr
        obtain ⟨e1, e2, _⟩ := varLenRow_spec d0 nd y r hc'
        rw [e1, e2, Geff.Vlen.prod_ones_append]
        exact pyRow_wf y (hwf y hy)
      · intro _ r hr r' hr'
        obtain ⟨y, hy, hc1⟩ := h2 r hr
        obtain ⟨y', hy', hc2⟩ := h2 r' hr'
        rw [(varLenRow_spec d0 nd y r hc1).1, (varLenRow_spec d0 nd y' r' hc2).1]
        have := hrk y hy
        have := hrk y' hy'
        simp only [List.length_append, List.length_replicate]
        omega

/-- **what `np.asarray` / `construct_var_len_props` build from well-formed Python values is a column
the store can hold** -/
theorem valuesToArr_colOK (vals : List PyVal) (hwf : ∀ y ∈ vals, PyWF y) (d : Dtype) (vl : Bool) (rows : List Row)
    (h : valuesToArr vals = .ok (d, vl, rows)) (ms : Option (List Bool)) : ColOK ⟨d, vl, rows, ms⟩ := by
  cases hv : vals with
  | nil =>
    rw [hv] at h
    simp only [valuesToArr, Except.ok.injEq, Prod.mk.injEq] at h
    obtain ⟨rfl, rfl, rfl⟩ := h
    exact ⟨fun _ => ⟨(by show Dtype.f64 ∈ _; decide), (by show Dtype.f64 ≠ _; decide)⟩, (fun hv => by cases hv), (fun r hr => by cases hr), (fun _ r hr => by cases hr), (fun hv => by cases hv)⟩
  | cons x t =>
    have hx : vals.head? = some x := by rw [hv]; rfl
    unfold valuesToArr at h
    rw [hv] at h
    simp only [] at h
    rw [← hv] at h
    split at h
    · rename_i hall
      simp only [List.all_eq_true, decide_eq_true_eq] at hall
      exact regularArr_colOK x vals hx hall hwf d vl rows h ms
    · cases hc : constructVarLenProps vals with
      | error e => simp [hc] at h
      | ok dr =>
        obtain ⟨d0, rows0⟩ := dr
        simp only [hc, Except.ok.injEq, Prod.mk.injEq] at h
        obtain ⟨rfl, rfl, rfl⟩ := h
        exact constructVarLenProps_colOK vals (by rw [hv]; simp) hwf d0 rows0 hc ms

theorem defaultFor_wf (v : PyVal) (h : PyWF v) : PyWF (defaultFor v) := by
  cases v with
  | sc x => cases x <;> trivial
  | arr sh fl => exact h
  | none => exact h.elim

theorem filledValues_wf {ι : Type} (data : List (ι × Attrs)) (name : String)
    (h : ∀ d ∈ data, ∀ kv ∈ d.2, PyWF kv.2) : ∀ y ∈ filledValues data name, PyWF y := by
  have hdef : PyWF (determineDefaultValue data name) := by
    unfold determineDefaultValue
    cases hf : data.findSome? (fun d => d.2.lookup name) with
    | none => trivial
    | some v =>
      obtain ⟨d, hd, hl⟩ := List.exists_of_findSome?_eq_some hf
      exact defaultFor_wf v (h d hd (name, v) (lookup_mem d.2 name v hl))
  intro y hy
  obtain ⟨d, hd, rfl⟩ := List.mem_map.1 hy
  cases hl : d.2.lookup name with
  | none => exact hdef
  | some v => exact h d hd (name, v) (lookup_mem d.2 name v hl)

/-- **one property of `dict_props_to_arr` is a column the store can hold** whenever the call succeeds on
attribute dicts whose array values are arrays -/
theorem dictPropToArr_colOK {ι : Type} (data : List (ι × Attrs)) (name : String)
    (h : ∀ d ∈ data, ∀ kv ∈ d.2, PyWF kv.2) (c : Col) (hc : dictPropToArr data name = .ok c) : ColOK c := by
  have hnone : (filledValues data name).any PyVal.isNone = false := by
    rw [List.any_eq_false]
    intro y hy
    have := filledValues_wf data name h y hy
    cases y with
    | none => exact this.elim
    | sc v => simp [PyVal.isNone]
    | arr sh fl => simp [PyVal.isNone]
  unfold dictPropToArr at hc
  rw [hnone] at hc
  simp only [Bool.false_eq_true, if_false] at hc
  cases hv : valuesToArr (filledValues data name) with
  | error e => simp [hv] at hc
  | ok dvr =>
    obtain ⟨d, vl, rows⟩ := dvr
    simp only [hv, Except.ok.injEq] at hc
    subst hc
    exact valuesToArr_colOK _ (filledValues_wf data name h) d vl rows hv _

theorem dictPropsToArr_colOK {ι : Type} (data : List (ι × Attrs)) (names : List String)
    (h : ∀ d ∈ data, ∀ kv ∈ d.2, PyWF kv.2) (props : List (String × Col))
    (hp : dictPropsToArr data names = .ok props) : ∀ p ∈ props, p.1 ∈ names ∧ ColOK p.2 := by
  intro p hpm
  obtain ⟨_, h2, _, _⟩ := mapE_spec _ _ _ hp
  obtain ⟨n, hn, hnc⟩ := h2 p hpm
  unfold namedCol at hnc
  cases hc : dictPropToArr data n with
  | error e => simp [hc] at hnc
  | ok c =>
    simp only [hc, Except.ok.injEq] at hnc
    subst hnc
    exact ⟨hn, dictPropToArr_colOK data n h c hc⟩

/-- what the link asks of a networkx attribute graph beyond C03's `NxDomain`: every attribute name is a
name zarr accepts as one path segment, and every attribute value is a scalar or an array with
`prod shape` leaves — in particular not Python `None` (`PyWF`) -/
structure NxStorable (G : Geff.Backends.NxGraph) : Prop where
  node : ∀ d ∈ G.nodes, ∀ kv ∈ d.2, Geff.WR.validName kv.1 = true ∧ PyWF kv.2
  edge : ∀ d ∈ G.edges, ∀ kv ∈ d.2, Geff.WR.validName kv.1 = true ∧ PyWF kv.2

theorem propNames_valid {κ : Type} (data : List (κ × Attrs))
    (h : ∀ d ∈ data, ∀ kv ∈ d.2, Geff.WR.validName kv.1 = true ∧ PyWF kv.2) :
    ∀ n ∈ Geff.Backends.propNames data, Geff.WR.validName n = true := by
  intro n hn
  unfold Geff.Backends.propNames at hn
  rw [Geff.Backends.mem_dedup'] at hn
  obtain ⟨d, hd, hk⟩ := List.mem_flatMap.1 hn
  obtain ⟨kv, hkv, rfl⟩ := List.mem_map.1 hk
  exact (h d hd kv hkv).1

/-- **whatever `NxBackend.write` hands to `write_arrays` for such a graph, the store can hold it** -/
theorem nxWrite_storable (G : Geff.Backends.NxGraph) (hG : NxStorable G) (m : MemGeff)
    (hm : Geff.Backends.nxWrite G = .ok m) : Storable m := by
  unfold Geff.Backends.nxWrite writeDicts at hm
  obtain ⟨nodes, _, hm⟩ := ebind_ok _ _ _ hm
  obtain ⟨edges, _, hm⟩ := ebind_ok _ _ _ hm
  obtain ⟨np, hnp, hm⟩ := ebind_ok _ _ _ hm
  obtain ⟨ep, hep, hm⟩ := ebind_ok _ _ _ hm
  cases hm
  constructor
  · intro p hp
    obtain ⟨h1, h2⟩ := dictPropsToArr_colOK G.nodes _ (fun d hd kv hkv => (hG.node d hd kv hkv).2) np hnp p hp
    exact ⟨propNames_valid G.nodes hG.node p.1 h1, h2⟩
  · intro p hp
    obtain ⟨h1, h2⟩ := dictPropsToArr_colOK G.edges _ (fun d hd kv hkv => (hG.edge d hd kv hkv).2) ep hep p hp
    exact ⟨propNames_valid G.edges hG.edge p.1 h1, h2⟩

end Geff.Link
