import GeffModel.MetaOps
/-! Helper lemmas for C07 / C08: what each validator of the metadata model guarantees about the
value it returns, and that each operation preserves the invariant `ValidBy ordCode` (= `ValidCode`). -/
set_option autoImplicit false
namespace Geff.Meta

/-! ### Except plumbing -/

theorem bind_eq_ok {α β : Type} {x : Except Err α} {f : α → Except Err β} {b : β} :
    (x >>= f) = .ok b ↔ ∃ a, x = .ok a ∧ f a = .ok b := by
  cases x <;> simp [bind, Except.bind]

theorem map_eq_ok {α β : Type} {x : Except Err α} {f : α → β} {b : β} :
    (x.map f) = .ok b ↔ ∃ a, x = .ok a ∧ f a = b := by
  cases x <;> simp [Except.map]

theorem guardE_ok {c : Bool} {u : Unit} : guardE c = .ok u ↔ c = true := by
  cases c <;> simp [guardE]

theorem mapE_ok {α β : Type} {f : α → Except Err β} :
    ∀ {xs : List α} {ys : List β}, mapE f xs = .ok ys → ∀ y ∈ ys, ∃ x ∈ xs, f x = .ok y := by
  intro xs
  induction xs with
  | nil => intro ys h y hy; simp [mapE] at h; subst h; simp at hy
  | cons x xs ih =>
    intro ys h y hy
    simp only [mapE] at h
    split at h
    · simp at h
    · rename_i y0 hy0
      split at h
      · simp at h
      · rename_i ys0 hys0
        simp at h; subst h
        rcases List.mem_cons.1 hy with rfl | hy
        · exact ⟨x, by simp, hy0⟩
        · obtain ⟨x', hx', hf⟩ := ih hys0 y hy
          exact ⟨x', by simp [hx'], hf⟩

/-- `mapE f` succeeds with `map g` when `f` succeeds pointwise with `g` -/
theorem mapE_eq_map {α β : Type} {f : α → Except Err β} {g : α → β} :
    ∀ (xs : List α), (∀ x ∈ xs, f x = .ok (g x)) → mapE f xs = .ok (xs.map g) := by
  intro xs
  induction xs with
  | nil => intro _; simp [mapE]
  | cons x xs ih =>
    intro h
    simp [mapE, h x (by simp), ih (fun y hy => h y (by simp [hy]))]

/-! ### Axis -/

theorem Axis.validateModel_ok {a0 a : Axis} (h : a0.validateModel = .ok a) :
    a = a0 ∧ a0.min.isSome = a0.max.isSome ∧
    (∀ lo ∈ a0.min, ∀ hi ∈ a0.max, ordCode lo hi = true) ∧
    (∀ u ∈ a0.scaled_unit, u ≠ "" → a0.scale.isSome = true) := by
  obtain ⟨name, type, unit, min, max, scale, su, offset⟩ := a0
  unfold Axis.validateModel at h
  split at h
  · simp at h
  · rename_i hb
    simp at h
    refine ⟨h.symm, ?_⟩
    cases min <;> cases max <;> cases su <;> cases scale <;> simp_all [Axis.modelBad, truthy, ordCode]

theorem axisTypeOk_iff (t : Option String) :
    axisTypeOk t = true ↔ ∀ x ∈ t, x ∈ Gen.ValidValues.axisTypes := by
  cases t <;> simp [axisTypeOk]

theorem mkAxis_valid {a0 a : Axis} (h : mkAxis a0 = .ok a) : a = a0 ∧ a.ValidBy ordCode := by
  simp only [mkAxis, bind_eq_ok, guardE_ok] at h
  obtain ⟨_, ht, hv⟩ := h
  obtain ⟨rfl, h1, h2, h3⟩ := Axis.validateModel_ok hv
  exact ⟨rfl, (axisTypeOk_iff _).1 ht, h1, h2, h3⟩

theorem parseAxis_valid {j : J} {a : Axis} (h : parseAxis j = .ok a) : a.ValidBy ordCode := by
  cases j <;> simp only [parseAxis, reduceCtorEq] at h
  simp only [bind_eq_ok, guardE_ok] at h
  obtain ⟨name, -, type, -, _, ht, unit, -, min, -, max, -, scale, -, su, -, off, -, hv⟩ := h
  obtain ⟨rfl, h1, h2, h3⟩ := Axis.validateModel_ok hv
  exact ⟨(axisTypeOk_iff _).1 ht, h1, h2, h3⟩

/-! ### PropMetadata, RelatedObject -/

theorem convertDtype_ok {env : Env} {raw : J} {s : String} (h : convertDtype env raw = .ok s) :
    s ∈ Gen.ValidValues.dtypes := by
  unfold convertDtype at h
  split at h
  · split at h
    · simp at h
    · split at h
      · rename_i hc
        simp at h; subst h; exact hc.1
      · simp at h
  · simp at h

theorem parseProp_valid {env : Env} {j : J} {p : PropMeta} (h : parseProp env j = .ok p) : p.Valid := by
  cases j <;> simp only [parseProp, reduceCtorEq] at h
  simp only [bind_eq_ok, guardE_ok] at h
  obtain ⟨ident, -, _, hlen, dtype, hd, vl, -, unit, -, name, -, desc, -, hp⟩ := h
  simp [pure, Except.pure] at hp
  subst hp
  refine ⟨by simpa using hlen, ?_⟩
  unfold getReqDtype at hd
  split at hd
  · exact convertDtype_ok hd
  · simp at hd

theorem RelatedObject.validateModel_ok {r0 r : RelatedObject} (h : r0.validateModel = .ok r) :
    r = r0 ∧ r0.Valid := by
  unfold RelatedObject.validateModel at h
  split at h
  · simp at h
  · rename_i hc
    simp at h
    refine ⟨h.symm, ?_⟩
    intro l hl
    simp only [Option.mem_def] at hl
    simp [hl] at hc
    exact hc

theorem parseRelated_valid {j : J} {r : RelatedObject} (h : parseRelated j = .ok r) : r.Valid := by
  cases j <;> simp only [parseRelated, reduceCtorEq] at h
  simp only [bind_eq_ok] at h
  obtain ⟨t, -, p, -, l, -, hv⟩ := h
  obtain ⟨rfl, hr⟩ := RelatedObject.validateModel_ok hv
  exact hr

/-! ### GeffMetadata: the two halves of the invariant -/

/-- the field-level half: what the per-field validators establish -/
structure FieldsValid (env : Env) (m : Meta) : Prop where
  version : env.versionOk m.geff_version = true
  axes : ∀ l ∈ m.axes, ∀ a ∈ l, a.ValidBy ordCode
  node : ∀ kv ∈ m.node_props_metadata, kv.2.Valid
  edge : ∀ kv ∈ m.edge_props_metadata, kv.2.Valid
  track : ∀ t ∈ m.track_node_props, ∀ kv ∈ t, kv.1 ∈ trackKeys
  related : ∀ l ∈ m.related_objects, ∀ r ∈ l, r.Valid

theorem nodupB_iff (l : List String) : nodupB l = true ↔ l.Nodup := by
  induction l with
  | nil => simp [nodupB]
  | cons x xs ih => simp [nodupB, ih]

theorem hintOk_iff (names : List String) (h : DisplayHint) : hintOk names h = true ↔ HintValid names h := by
  obtain ⟨hh, hv, hd, ht⟩ := h
  cases hd <;> cases ht <;> simp [hintOk, HintValid] <;> (constructor <;> intro h <;> simp_all)

theorem keysMatch_iff (d : List (String × PropMeta)) :
    keysMatch d = true ↔ ∀ kv ∈ d, kv.1 = kv.2.identifier := by
  simp [keysMatch]

/-- the cross-field half: exactly what `_validate_model_after` tests -/
theorem modelAfterOk_iff (m : Meta) :
    modelAfterOk m = true ↔
      (∀ l ∈ m.axes, (axisNames l).Nodup ∧ ∀ h ∈ m.display_hints, HintValid (axisNames l) h) ∧
      (∀ kv ∈ m.node_props_metadata, kv.1 = kv.2.identifier) ∧
      (∀ kv ∈ m.edge_props_metadata, kv.1 = kv.2.identifier) := by
  unfold modelAfterOk
  cases hax : m.axes <;> cases hdh : m.display_hints <;>
    simp [nodupB_iff, hintOk_iff, keysMatch_iff, and_assoc]

theorem validCode_iff (env : Env) (m : Meta) :
    ValidCode env m ↔ FieldsValid env m ∧ modelAfterOk m = true := by
  rw [modelAfterOk_iff]
  unfold ValidCode ValidBy PropsValid
  constructor
  · rintro ⟨hv, hax, hn, he, ht, hr⟩
    exact ⟨⟨hv, fun l hl => (hax l hl).2.1, fun kv hkv => (hn kv hkv).2, fun kv hkv => (he kv hkv).2, ht, hr⟩,
      fun l hl => ⟨(hax l hl).1, (hax l hl).2.2⟩, fun kv hkv => (hn kv hkv).1, fun kv hkv => (he kv hkv).1⟩
  · rintro ⟨⟨hv, hax, hn, he, ht, hr⟩, hc, hkn, hke⟩
    exact ⟨hv, fun l hl => ⟨(hc l hl).1, hax l hl, (hc l hl).2⟩, fun kv hkv => ⟨hkn kv hkv, hn kv hkv⟩,
      fun kv hkv => ⟨hke kv hkv, he kv hkv⟩, ht, hr⟩

/-! ### field validators preserve the field-level half -/

theorem parsePropsDict_valid {env : Env} {j : J} {d : List (String × PropMeta)}
    (h : parsePropsDict env j = .ok d) : ∀ kv ∈ d, kv.2.Valid := by
  cases j <;> simp only [parsePropsDict, reduceCtorEq] at h
  intro kv hkv
  obtain ⟨x, _, hx⟩ := mapE_ok h kv hkv
  obtain ⟨p, hp, rfl⟩ := map_eq_ok.1 hx
  exact parseProp_valid hp

theorem parseTrackProps_valid {j : J} {t : Option (List (String × String))}
    (h : parseTrackProps j = .ok t) : ∀ l ∈ t, ∀ kv ∈ l, kv.1 ∈ trackKeys := by
  cases j <;> simp only [parseTrackProps, reduceCtorEq] at h
  · simp at h; subst h; simp
  · simp only [bind_eq_ok] at h
    obtain ⟨l, hl, hp⟩ := h
    simp [pure, Except.pure] at hp
    subst hp
    intro l' hl' kv hkv
    simp only [Option.mem_def, Option.some.injEq] at hl'
    subst hl'
    obtain ⟨x, _, hx⟩ := mapE_ok hl kv hkv
    split at hx
    · rename_i hmem
      obtain ⟨s, _, rfl⟩ := map_eq_ok.1 hx
      exact hmem
    · simp at hx

theorem parseVersion_ok {env : Env} {v : J} {s : String} (h : parseVersion env v = .ok s) :
    env.versionOk s = true := by
  simp only [parseVersion, bind_eq_ok, guardE_ok] at h
  obtain ⟨s', _, _, hok, hp⟩ := h
  simp [pure, Except.pure] at hp
  subst hp; exact hok

theorem parseAxesField_valid {v : J} {l : Option (List Axis)} (h : parseAxesField v = .ok l) :
    ∀ l' ∈ l, ∀ a ∈ l', a.ValidBy ordCode := by
  cases v <;> simp only [parseAxesField, reduceCtorEq] at h
  · simp at h; subst h; simp
  · obtain ⟨xs, hxs, rfl⟩ := map_eq_ok.1 h
    intro l' hl' a ha
    simp only [Option.mem_def, Option.some.injEq] at hl'
    subst hl'
    obtain ⟨x, _, hx⟩ := mapE_ok hxs a ha
    exact parseAxis_valid hx

theorem parseRelatedField_valid {v : J} {l : Option (List RelatedObject)} (h : parseRelatedField v = .ok l) :
    ∀ l' ∈ l, ∀ r ∈ l', r.Valid := by
  cases v <;> simp only [parseRelatedField, reduceCtorEq] at h
  · simp at h; subst h; simp
  · obtain ⟨xs, hxs, rfl⟩ := map_eq_ok.1 h
    intro l' hl' r hr
    simp only [Option.mem_def, Option.some.injEq] at hl'
    subst hl'
    obtain ⟨x, _, hx⟩ := mapE_ok hxs r hr
    exact parseRelated_valid hx

theorem setFieldT_fieldsValid {env : Env} {m m' : Meta} {t : Field} {v : J}
    (hm : FieldsValid env m) (h : setFieldT env m t v = .ok m') : FieldsValid env m' := by
  obtain ⟨hv, hax, hn, he, ht, hr⟩ := hm
  cases t <;> simp only [setFieldT] at h <;> obtain ⟨x, hx, rfl⟩ := map_eq_ok.1 h
  · exact ⟨parseVersion_ok hx, hax, hn, he, ht, hr⟩
  · exact ⟨hv, hax, hn, he, ht, hr⟩
  · exact ⟨hv, parseAxesField_valid hx, hn, he, ht, hr⟩
  · exact ⟨hv, hax, parsePropsDict_valid hx, he, ht, hr⟩
  · exact ⟨hv, hax, hn, parsePropsDict_valid hx, ht, hr⟩
  · exact ⟨hv, hax, hn, he, ht, hr⟩
  · exact ⟨hv, hax, hn, he, ht, hr⟩
  · exact ⟨hv, hax, hn, he, parseTrackProps_valid hx, hr⟩
  · exact ⟨hv, hax, hn, he, ht, parseRelatedField_valid hx⟩
  · exact ⟨hv, hax, hn, he, ht, hr⟩
  · exact ⟨hv, hax, hn, he, ht, hr⟩

theorem setField_fieldsValid {env : Env} {m m' : Meta} {f : String} {v : J}
    (hm : FieldsValid env m) (h : setField env m f v = .ok m') : FieldsValid env m' := by
  unfold setField at h
  split at h
  · exact setFieldT_fieldsValid hm h
  · simp at h

/-! ### the field validators only ever raise `ValidationError` -/

/-- "this computation raises nothing but `ValidationError`" -/
def OV {α : Type} (x : Except Err α) : Prop := ∀ e, x = .error e → e = .validation

theorem OV.ok {α : Type} (a : α) : OV (Except.ok a : Except Err α) := by intro e h; simp at h
theorem OV.pure {α : Type} (a : α) : OV (pure a : Except Err α) := OV.ok a
theorem OV.err {α : Type} : OV (Except.error .validation : Except Err α) := by
  intro e h; simp at h; exact h.symm
theorem OV.bind {α β : Type} {x : Except Err α} {f : α → Except Err β} (hx : OV x) (hf : ∀ a, OV (f a)) :
    OV (x >>= f) := by
  intro e h
  cases x with
  | error e' =>
    have : e' = e := by
      have h2 : (Except.error e' : Except Err β) = .error e := h
      simpa using h2
    exact this ▸ hx e' rfl
  | ok a => exact hf a e h
theorem OV.map {α β : Type} {x : Except Err α} {f : α → β} (hx : OV x) : OV (x.map f) := by
  intro e h
  cases x with
  | error e' =>
    have : e' = e := by simpa [Except.map] using h
    exact this ▸ hx e' rfl
  | ok a => simp [Except.map] at h
theorem OV.ite {α : Type} {c : Prop} [Decidable c] {x y : Except Err α} (hx : OV x) (hy : OV y) :
    OV (if c then x else y) := by
  split <;> assumption
theorem OV.mapE {α β : Type} {f : α → Except Err β} (hf : ∀ a, OV (f a)) : ∀ xs, OV (mapE f xs) := by
  intro xs
  induction xs with
  | nil => exact OV.ok _
  | cons x xs ih =>
    intro e h
    simp only [Geff.Meta.mapE] at h
    split at h
    · rename_i e' he'
      have : e' = e := by simpa using h
      exact hf x e (by rw [he', this])
    · split at h
      · rename_i e' he'
        have : e' = e := by simpa using h
        exact ih e (by rw [he', this])
      · simp at h

theorem ov_getStr (j : J) : OV (getStr j) := by cases j <;> first | exact OV.ok _ | exact OV.err
theorem ov_getBool (j : J) : OV (getBool j) := by cases j <;> first | exact OV.ok _ | exact OV.err
theorem ov_getOptStr (j : Option J) : OV (getOptStr j) := by
  cases j with
  | none => exact OV.ok _
  | some j => cases j <;> first | exact OV.ok _ | exact OV.err
theorem ov_getOptNum (j : Option J) : OV (getOptNum j) := by
  cases j with
  | none => exact OV.ok _
  | some j => cases j <;> first | exact OV.ok _ | exact OV.err
theorem ov_getReqStr (kvs : List (String × J)) (k : String) : OV (getReqStr kvs k) := by
  unfold getReqStr; split
  · exact ov_getStr _
  · exact OV.err
theorem ov_guardE (c : Bool) : OV (guardE c) := by cases c <;> first | exact OV.ok _ | exact OV.err
theorem ov_getBoolOr (v : Option J) (d : Bool) : OV (getBoolOr v d) := by
  unfold getBoolOr; split
  · exact ov_getBool _
  · exact OV.ok _
theorem ov_validateModel (a : Axis) : OV a.validateModel := OV.ite OV.err (OV.ok _)
theorem ov_relValidate (r : RelatedObject) : OV r.validateModel := OV.ite OV.err (OV.ok _)

theorem ov_convertDtype (env : Env) (j : J) : OV (convertDtype env j) := by
  unfold convertDtype
  split
  · split
    · exact OV.err
    · exact OV.ite (OV.ok _) OV.err
  · exact OV.err

theorem ov_getReqDtype (env : Env) (kvs : List (String × J)) : OV (getReqDtype env kvs) := by
  unfold getReqDtype; split
  · exact ov_convertDtype _ _
  · exact OV.err

/-- closes goals of the form `OV (do …)` built from the primitives above -/
macro "ov_steps" : tactic =>
  `(tactic| repeat (first
      | exact OV.ok _ | exact OV.pure _ | exact OV.err
      | exact ov_getStr _ | exact ov_getBool _ | exact ov_getOptStr _ | exact ov_getOptNum _
      | exact ov_getReqStr _ _ | exact ov_guardE _ | exact ov_getBoolOr _ _ | exact ov_validateModel _
      | exact ov_relValidate _ | exact ov_getReqDtype _ _
      | apply OV.bind | apply OV.map | intro _))

theorem ov_parseAxis (j : J) : OV (parseAxis j) := by
  cases j <;> simp only [parseAxis] <;> ov_steps

theorem ov_mkAxis (a : Axis) : OV (mkAxis a) := by
  simp only [mkAxis]; ov_steps

theorem ov_parseProp (env : Env) (j : J) : OV (parseProp env j) := by
  cases j <;> simp only [parseProp] <;> ov_steps

theorem ov_parseRelated (j : J) : OV (parseRelated j) := by
  cases j <;> simp only [parseRelated] <;> ov_steps

theorem ov_parseHint (j : J) : OV (parseHint j) := by
  cases j <;> simp only [parseHint] <;> ov_steps

theorem ov_parsePropsDict (env : Env) (j : J) : OV (parsePropsDict env j) := by
  cases j <;> simp only [parsePropsDict] <;> first | exact OV.err | skip
  exact OV.mapE (fun (kv : String × J) => OV.map (ov_parseProp env kv.2)) _

theorem ov_parseTrackProps (j : J) : OV (parseTrackProps j) := by
  cases j <;> simp only [parseTrackProps] <;> first | exact OV.err | exact OV.ok _ | skip
  apply OV.bind
  · apply OV.mapE
    intro kv
    exact OV.ite (OV.map (ov_getStr _)) OV.err
  · intro _; exact OV.pure _

theorem ov_parseVersion (env : Env) (v : J) : OV (parseVersion env v) := by
  simp only [parseVersion]; ov_steps

theorem ov_parseAxesField (v : J) : OV (parseAxesField v) := by
  cases v <;> simp only [parseAxesField] <;> first | exact OV.err | exact OV.ok _ | skip
  exact OV.map (OV.mapE ov_parseAxis _)

theorem ov_parseRelatedField (v : J) : OV (parseRelatedField v) := by
  cases v <;> simp only [parseRelatedField] <;> first | exact OV.err | exact OV.ok _ | skip
  exact OV.map (OV.mapE ov_parseRelated _)

theorem ov_parseHintField (v : J) : OV (parseHintField v) := by
  cases v <;> simp only [parseHintField] <;> first | exact OV.ok _ | exact OV.map (ov_parseHint _)

theorem ov_parseExtraField (v : J) : OV (parseExtraField v) := by
  cases v <;> simp only [parseExtraField] <;> first | exact OV.err | exact OV.ok _

/-- an error of a field validator is always a `ValidationError` -/
theorem ov_setField (env : Env) (m : Meta) (f : String) (v : J) : OV (setField env m f v) := by
  unfold setField
  split
  · rename_i t _
    cases t <;> simp only [setFieldT] <;> apply OV.map
    · exact ov_parseVersion _ _
    · exact ov_getBool _
    · exact ov_parseAxesField _
    · exact ov_parsePropsDict _ _
    · exact ov_parsePropsDict _ _
    · exact ov_getOptStr _
    · exact ov_getOptStr _
    · exact ov_parseTrackProps _
    · exact ov_parseRelatedField _
    · exact ov_parseHintField _
    · exact ov_parseExtraField _
  · exact OV.err

theorem setField_err {env : Env} {m : Meta} {f : String} {v : J} {e : Err}
    (h : setField env m f v = .error e) : e = .validation := ov_setField env m f v e h

/-! ### construction / parsing -/

theorem blank_fieldsValid {env : Env} (hdef : env.versionOk env.defaultVersion = true) :
    FieldsValid env (blank env) :=
  ⟨hdef, by simp [blank], by simp [blank], by simp [blank], by simp [blank], by simp [blank]⟩

theorem validateFieldsAux_fieldsValid {env : Env} {kvs : List (String × J)} :
    ∀ (fs : List String) {m m' : Meta}, FieldsValid env m →
      validateFieldsAux env kvs fs m = .ok m' → FieldsValid env m' := by
  intro fs
  induction fs with
  | nil => intro m m' hm h; simp [validateFieldsAux] at h; subst h; exact hm
  | cons f fs ih =>
    intro m m' hm h
    simp only [validateFieldsAux] at h
    split at h
    · simp only [bind_eq_ok] at h
      obtain ⟨m1, h1, h2⟩ := h
      exact ih (setField_fieldsValid hm h1) h2
    · split at h
      · simp at h
      · exact ih hm h

theorem validateModelAfter_ok {m m' : Meta} (h : validateModelAfter m = .ok m') :
    m' = m ∧ modelAfterOk m = true := by
  unfold validateModelAfter at h
  split at h
  · simp at h; exact ⟨h.symm, by assumption⟩
  · simp at h

/-- **construction / parsing yields a valid object** -/
theorem parse_valid {env : Env} (hdef : env.versionOk env.defaultVersion = true) {j : J} {o : MetaObj}
    (h : parse env j = .ok o) : ValidCode env o.val := by
  cases j <;> simp only [parse, reduceCtorEq] at h
  simp only [bind_eq_ok] at h
  obtain ⟨m, hm, m2, hm2, ho⟩ := h
  simp [pure, Except.pure] at ho
  subst ho
  obtain ⟨rfl, hafter⟩ := validateModelAfter_ok hm2
  exact (validCode_iff env _).2 ⟨validateFieldsAux_fieldsValid _ (blank_fieldsValid hdef) hm, hafter⟩

theorem readAttrs_valid {env : Env} (hdef : env.versionOk env.defaultVersion = true) {a : Attrs} {o : MetaObj}
    (h : readAttrs env a = .ok o) : ValidCode env o.val := by
  unfold readAttrs at h
  split at h
  · simp at h
  · exact parse_valid hdef h
  · simp at h

/-! ### assignment -/

/-- a failed assignment leaves the object exactly as it was (values and fields-set) -/
theorem assign_failed_noop (env : Env) (o : MetaObj) (f : String) (v : J)
    (h : (assign env o f v).1 ≠ none) : (assign env o f v).2 = o := by
  unfold assign at h ⊢
  cases hset : setField env o.val f v with
  | error e => simp
  | ok m' =>
    simp only [hset] at h ⊢
    by_cases hafter : modelAfterOk m' = true
    · simp [hafter] at h
    · simp [hafter]

/-- whatever an assignment raises is a `ValidationError` -/
theorem assign_err_class (env : Env) (o : MetaObj) (f : String) (v : J) (e : Err)
    (h : (assign env o f v).1 = some e) : e = .validation := by
  unfold assign at h
  cases hset : setField env o.val f v with
  | error e' =>
    simp only [hset] at h
    simp at h; subst h
    exact setField_err hset
  | ok m' =>
    simp only [hset] at h
    by_cases hafter : modelAfterOk m' = true
    · simp [hafter] at h
    · simp [hafter] at h; exact h.symm

/-- the object after an assignment — accepted or rejected — is valid -/
theorem assign_valid {env : Env} {o : MetaObj} (ho : ValidCode env o.val) (f : String) (v : J) :
    ValidCode env (assign env o f v).2.val := by
  unfold assign
  cases hset : setField env o.val f v with
  | error e => exact ho
  | ok m' =>
    by_cases hafter : modelAfterOk m' = true
    · simp only [hafter, if_true]
      exact (validCode_iff env _).2 ⟨setField_fieldsValid ((validCode_iff env _).1 ho).1 hset, hafter⟩
    · simp only [hafter]
      exact ho

/-! ### the helpers of `utils.py` -/

theorem pick_ov {α : Type} (l : Option (List (Option α))) (i : Nat) (e : Err) (h : pick l i = .error e) :
    e = .index := by
  unfold pick at h
  split at h
  · simp at h
  · split at h
    · simp at h
    · simp at h; exact h.symm

theorem axesLoop_valid (names : List String) (units types su : Option (List (Option String)))
    (scales offset rmin rmax : Option (List (Option F))) :
    ∀ (rest : List String) (i : Nat) (l : List Axis),
      axesLoop names units types su scales offset rmin rmax i rest = .ok l →
      (∀ a ∈ l, a.ValidBy ordCode) ∧ axisNames l = rest := by
  intro rest
  induction rest with
  | nil => intro i l h; simp [axesLoop] at h; subst h; simp [axisNames]
  | cons n rest ih =>
    intro i l h
    simp only [axesLoop, bind_eq_ok] at h
    obtain ⟨type, -, unit, -, scale, -, sunit, -, off, -, mn, -, mx, -, a, ha, tl, htl, hp⟩ := h
    simp [pure, Except.pure] at hp
    subst hp
    obtain ⟨rfl, hav⟩ := mkAxis_valid ha
    obtain ⟨htlv, htln⟩ := ih _ _ htl
    refine ⟨?_, ?_⟩
    · intro b hb
      rcases List.mem_cons.1 hb with rfl | hb
      · exact hav
      · exact htlv b hb
    · simp [axisNames] at htln ⊢
      exact htln

theorem axesFromLists_valid {env : Env} {names : Option (List String)}
    {units types : Option (List (Option String))} {scales : Option (List (Option F))}
    {su : Option (List (Option String))} {offset rmin rmax : Option (List (Option F))} {l : List Axis}
    (h : axesFromLists env names units types scales su offset rmin rmax = .ok l) :
    ∀ a ∈ l, a.ValidBy ordCode := by
  unfold axesFromLists at h
  split at h
  · simp at h; subst h; simp
  · repeat' (split at h)
    all_goals first
      | (simp at h; done)
      | exact (axesLoop_valid _ _ _ _ _ _ _ _ _ _ _ h).1

/-- replacing the axes by valid ones that pass the model validator keeps the object valid -/
theorem assignAxes_valid {env : Env} {o o' : MetaObj} {axes : List Axis} (ho : ValidCode env o.val)
    (hax : ∀ a ∈ axes, a.ValidBy ordCode) (h : assignAxes o axes = .ok o') : ValidCode env o'.val := by
  unfold assignAxes at h
  simp only at h
  split at h
  · rename_i hafter
    simp at h; subst h
    obtain ⟨⟨hv, _, hn, he, ht, hr⟩, _⟩ := (validCode_iff env _).1 ho
    refine (validCode_iff env _).2 ⟨⟨hv, ?_, hn, he, ht, hr⟩, hafter⟩
    intro l hl a ha
    simp only [Option.mem_def, Option.some.injEq] at hl
    subst hl
    exact hax a ha
  · simp at h

theorem updateMetadataAxes_valid {env : Env} {o o' : MetaObj} {names : List String}
    {units types : Option (List (Option String))} {scales : Option (List (Option F))}
    {su : Option (List (Option String))} {offset : Option (List (Option F))} (ho : ValidCode env o.val)
    (h : updateMetadataAxes env o names units types scales su offset = .ok o') : ValidCode env o'.val := by
  simp only [updateMetadataAxes, bind_eq_ok] at h
  obtain ⟨axes, hax, h2⟩ := h
  exact assignAxes_valid ho (axesFromLists_valid hax) h2

theorem unwrapAssign_ok {env : Env} {o o' : MetaObj} {f : String} {v : J}
    (h : unwrapAssign (assign env o f v) = .ok o') : o' = (assign env o f v).2 := by
  unfold unwrapAssign at h
  split at h
  · simp at h
  · simp at h; exact h.symm

theorem createOrUpdateMetadata_valid {env : Env} (hdef : env.versionOk env.defaultVersion = true)
    {o : Option MetaObj} {o' : MetaObj} {directed : Bool} {axes : Option J}
    (ho : ∀ x ∈ o, ValidCode env x.val)
    (h : createOrUpdateMetadata env o directed axes = .ok o') : ValidCode env o'.val := by
  unfold createOrUpdateMetadata at h
  split at h
  · rename_i x
    have hx : ValidCode env x.val := ho x rfl
    simp only [bind_eq_ok] at h
    obtain ⟨o1, h1, o2, h2, h3⟩ := h
    have e1 := unwrapAssign_ok h1
    have e2 := unwrapAssign_ok h2
    have v1 : ValidCode env o1.val := e1 ▸ assign_valid (o := copy x) hx _ _
    have v2 : ValidCode env o2.val := e2 ▸ assign_valid v1 _ _
    split at h3
    · exact (unwrapAssign_ok h3) ▸ assign_valid v2 _ _
    · simp at h3; subst h3; exact v2
  · exact parse_valid hdef h

theorem mem_setKey {α : Type} {d : List (String × α)} {k : String} {v : α} {x : String × α}
    (h : x ∈ setKey d k v) : x ∈ d ∨ x = (k, v) := by
  induction d with
  | nil => simp [setKey] at h; exact Or.inr h
  | cons p t ih =>
    obtain ⟨k', v'⟩ := p
    simp only [setKey] at h
    split at h
    · rcases List.mem_cons.1 h with rfl | h
      · exact Or.inr rfl
      · exact Or.inl (by simp [h])
    · rcases List.mem_cons.1 h with rfl | h
      · exact Or.inl (by simp)
      · rcases ih h with h | h
        · exact Or.inl (by simp [h])
        · exact Or.inr h

theorem setKey_propsValid {d : List (String × PropMeta)} {k : String} {p : PropMeta}
    (hd : PropsValid d) (hk : k = p.identifier) (hp : p.Valid) : PropsValid (setKey d k p) := by
  intro kv hkv
  rcases mem_setKey hkv with h | rfl
  · exact hd kv h
  · exact ⟨hk, hp⟩

theorem addPropsLoop_valid :
    ∀ (ps : List PropMeta) (existing md : List (String × PropMeta)),
      (∀ p ∈ ps, p.Valid) → PropsValid existing → PropsValid md →
      PropsValid (addPropsLoop ps existing md).1 ∧ PropsValid (addPropsLoop ps existing md).2 := by
  intro ps
  induction ps with
  | nil => intro ex md _ hex hmd; exact ⟨hex, hmd⟩
  | cons p ps ih =>
    intro ex md hps hex hmd
    simp only [addPropsLoop]
    split
    · rename_i old hold
      have hmem := lookup_mem _ _ _ hold
      obtain ⟨hk, hov⟩ := hex _ hmem
      apply ih _ _ (fun q hq => hps q (by simp [hq])) _ hmd
      exact setKey_propsValid hex hk ⟨hov.1, (hps p (by simp)).2⟩
    · apply ih _ _ (fun q hq => hps q (by simp [hq])) hex
      exact setKey_propsValid hmd rfl (hps p (by simp))

theorem dictUpdate_valid (md : List (String × PropMeta)) :
    ∀ (existing : List (String × PropMeta)), PropsValid existing → PropsValid md →
      PropsValid (dictUpdate existing md) := by
  unfold dictUpdate
  induction md with
  | nil => intro ex hex _; exact hex
  | cons kv md ih =>
    intro ex hex hmd
    simp only [List.foldl_cons]
    apply ih
    · exact setKey_propsValid hex (hmd kv (by simp)).1 (hmd kv (by simp)).2
    · exact fun x hx => hmd x (by simp [hx])

theorem propsValid_of_validCode {env : Env} {m : Meta} (h : ValidCode env m) :
    PropsValid m.node_props_metadata ∧ PropsValid m.edge_props_metadata := ⟨h.2.2.1, h.2.2.2.1⟩

theorem addOrUpdatePropsMetadata_valid {env : Env} {o o' : MetaObj} {props : List J} {cType : String}
    (ho : ValidCode env o.val) (h : addOrUpdatePropsMetadata env o props cType = .ok o') :
    ValidCode env o'.val := by
  simp only [addOrUpdatePropsMetadata, bind_eq_ok] at h
  obtain ⟨ps, hps, h2⟩ := h
  have hpv : ∀ p ∈ ps, p.Valid := by
    intro p hp
    obtain ⟨x, _, hx⟩ := mapE_ok hps p hp
    exact parseProp_valid hx
  obtain ⟨hv, hax, hn, he, ht, hr⟩ := ho
  split at h2
  · have hl := addPropsLoop_valid ps o.val.node_props_metadata [] hpv hn (by intro _ h; simp at h)
    simp [pure, Except.pure] at h2
    subst h2
    exact ⟨hv, hax, dictUpdate_valid _ _ hl.1 hl.2, he, ht, hr⟩
  · split at h2
    · have hl := addPropsLoop_valid ps o.val.edge_props_metadata [] hpv he (by intro _ h; simp at h)
      simp [pure, Except.pure] at h2
      subst h2
      exact ⟨hv, hax, hn, dictUpdate_valid _ _ hl.1 hl.2, ht, hr⟩
    · simp [throw, throwThe, MonadExceptOf.throw] at h2

theorem minMaxLoop_valid (cols : List (String × MinMaxCol)) (hwf : ∀ c ∈ cols, c.2.WF) :
    ∀ (l l' : List Axis), (∀ a ∈ l, a.ValidBy ordCode) → minMaxLoop cols l = .ok l' →
      (∀ a ∈ l', a.ValidBy ordCode) ∧ axisNames l' = axisNames l := by
  intro l
  induction l with
  | nil => intro l' _ h; simp [minMaxLoop] at h; subst h; simp
  | cons a rest ih =>
    intro l' hv h
    have ha := hv a (by simp)
    have hrest : ∀ b ∈ rest, b.ValidBy ordCode := fun b hb => hv b (by simp [hb])
    simp only [minMaxLoop] at h
    split at h
    · simp at h
    · simp at h
    · split at h
      · simp at h
      · rename_i tl htl
        simp at h; subst h
        obtain ⟨h1, h2⟩ := ih tl hrest htl
        refine ⟨?_, by simp [axisNames] at h2 ⊢; exact h2⟩
        intro b hb
        rcases List.mem_cons.1 hb with rfl | hb
        · exact ha
        · exact h1 b hb
    · rename_i lo hi hlk
      split at h
      · simp at h
      · rename_i tl htl
        simp at h; subst h
        obtain ⟨h1, h2⟩ := ih tl hrest htl
        have hord : ordCode lo hi = true := by
          have := hwf _ (lookup_mem _ _ _ hlk)
          simpa [MinMaxCol.WF, ordCode] using this
        refine ⟨?_, by simp [axisNames] at h2 ⊢; exact h2⟩
        intro b hb
        rcases List.mem_cons.1 hb with rfl | hb
        · obtain ⟨t1, _, _, t4⟩ := ha
          refine ⟨t1, rfl, ?_, t4⟩
          intro l hl h' hh
          simp only [Option.mem_def, Option.some.injEq] at hl hh
          subst hl; subst hh; exact hord
        · exact h1 b hb

theorem computeAndAddAxisMinMax_valid {env : Env} {o o' : MetaObj} {cols : List (String × MinMaxCol)}
    (hwf : ∀ c ∈ cols, c.2.WF) (ho : ValidCode env o.val) (h : computeAndAddAxisMinMax o cols = .ok o') :
    ValidCode env o'.val := by
  unfold computeAndAddAxisMinMax at h
  split at h
  · simp [copy] at h; subst h; exact ho
  · rename_i l hl
    split at h
    · simp at h
    · rename_i l' hl'
      have hax : ∀ a ∈ l, a.ValidBy ordCode := (ho.2.1 l hl).2.1
      exact assignAxes_valid ho (minMaxLoop_valid cols hwf l l' hax hl').1 h

/-! ### histories -/

theorem start_valid {env : Env} (hdef : env.versionOk env.defaultVersion = true) {i : Init} {o : MetaObj}
    (h : start env i = .ok o) : ValidCode env o.val := by
  cases i with
  | parse doc => exact parse_valid hdef h
  | attrs a => exact readAttrs_valid hdef h
  | create d ax =>
    exact createOrUpdateMetadata_valid (o := none) hdef (by intro x hx; simp at hx) h

theorem ofExcept_valid {env : Env} {o : MetaObj} {r : Except Err MetaObj} (ho : ValidCode env o.val)
    (hr : ∀ o', r = .ok o' → ValidCode env o'.val) : ValidCode env (ofExcept o r).2.val := by
  cases r with
  | error e => exact ho
  | ok o' => exact hr o' rfl

theorem step_valid {env : Env} (hdef : env.versionOk env.defaultVersion = true) {o : MetaObj}
    (ho : ValidCode env o.val) (op : Op) (hwf : op.WF) : ValidCode env (step env o op).2.val := by
  cases op with
  | minMax cols =>
    exact ofExcept_valid ho (fun o' h => computeAndAddAxisMinMax_valid hwf ho h)
  | assign f v => exact assign_valid ho f v
  | copy => exact ho
  | updateAxes names units types scales su offset =>
    exact ofExcept_valid ho (fun o' h => updateMetadataAxes_valid ho h)
  | createOrUpdate d ax =>
    exact ofExcept_valid ho (fun o' h => createOrUpdateMetadata_valid hdef (by simpa using ho) h)
  | addProps props ct =>
    exact ofExcept_valid ho (fun o' h => addOrUpdatePropsMetadata_valid ho h)

theorem ofExcept_noop {o : MetaObj} {r : Except Err MetaObj} (h : (ofExcept o r).1 ≠ none) :
    (ofExcept o r).2 = o := by
  cases r with
  | error e => rfl
  | ok o' => simp [ofExcept] at h

theorem step_failed_noop (env : Env) (o : MetaObj) (op : Op) (h : (step env o op).1 ≠ none) :
    (step env o op).2 = o := by
  cases op with
  | assign f v => exact assign_failed_noop env o f v h
  | copy => simp [step] at h
  | updateAxes names units types scales su offset => exact ofExcept_noop h
  | createOrUpdate d ax => exact ofExcept_noop h
  | addProps props ct => exact ofExcept_noop h
  | minMax cols => exact ofExcept_noop h

theorem run_valid {env : Env} (hdef : env.versionOk env.defaultVersion = true) :
    ∀ (ops : List Op) {o : MetaObj}, (∀ op ∈ ops, op.WF) → ValidCode env o.val →
      ValidCode env (run env o ops).val := by
  intro ops
  induction ops with
  | nil => intro o _ ho; exact ho
  | cons op ops ih =>
    intro o hwf ho
    simp only [run, List.foldl_cons]
    exact ih (fun p hp => hwf p (by simp [hp])) (step_valid hdef ho op (hwf op (by simp)))

theorem trace_valid {env : Env} (hdef : env.versionOk env.defaultVersion = true) :
    ∀ (ops : List Op) {o : MetaObj}, (∀ op ∈ ops, op.WF) → ValidCode env o.val →
      ∀ r ∈ trace env o ops, ValidCode env r.2.val := by
  intro ops
  induction ops with
  | nil => intro o _ _ r hr; simp [trace] at hr
  | cons op ops ih =>
    intro o hwf ho r hr
    have hstep := step_valid hdef ho op (hwf op (by simp))
    simp only [trace, List.mem_cons] at hr
    rcases hr with rfl | hr
    · exact hstep
    · exact ih (fun p hp => hwf p (by simp [hp])) hstep r hr

/-! ### from what the code enforces to the specification -/

theorem ordCode_le {a b : F} (ha : a.isNaN = false) (hb : b.isNaN = false) (h : ordCode a b = true) :
    F.le a b = true := by
  rw [F.le_iff_not_gt a b ha hb]
  simpa [ordCode] using h

theorem le_ordCode {a b : F} (h : F.le a b = true) : ordCode a b = true := by
  obtain ⟨ha, hb⟩ := F.le_not_nan a b h
  have := (F.le_iff_not_gt a b ha hb).1 h
  simp [ordCode, this]

/-- the specification is the enforced invariant plus "no NaN bound" -/
theorem valid_iff_validCode (env : Env) (m : Meta) : Valid env m ↔ ValidCode env m ∧ NoNaNBounds m := by
  unfold Valid ValidCode ValidBy NoNaNBounds
  constructor
  · rintro ⟨hv, hax, rest⟩
    refine ⟨⟨hv, ?_, rest⟩, ?_⟩
    · intro l hl
      obtain ⟨h1, h2, h3⟩ := hax l hl
      refine ⟨h1, ?_, h3⟩
      intro a ha
      obtain ⟨t1, t2, t3, t4⟩ := h2 a ha
      exact ⟨t1, t2, fun lo hlo hi hhi => le_ordCode (t3 lo hlo hi hhi), t4⟩
    · intro l hl a ha
      obtain ⟨_, h2, _⟩ := hax l hl
      obtain ⟨_, t2, t3, _⟩ := h2 a ha
      constructor
      · intro lo hlo
        cases hmax : a.max with
        | none => simp only [Option.mem_def] at hlo; simp [hlo, hmax] at t2
        | some hi => exact (F.le_not_nan lo hi (t3 lo hlo hi hmax)).1
      · intro hi hhi
        cases hmin : a.min with
        | none => simp only [Option.mem_def] at hhi; simp [hhi, hmin] at t2
        | some lo => exact (F.le_not_nan lo hi (t3 lo hmin hi hhi)).2
  · rintro ⟨⟨hv, hax, rest⟩, hnan⟩
    refine ⟨hv, ?_, rest⟩
    intro l hl
    obtain ⟨h1, h2, h3⟩ := hax l hl
    refine ⟨h1, ?_, h3⟩
    intro a ha
    obtain ⟨t1, t2, t3, t4⟩ := h2 a ha
    obtain ⟨n1, n2⟩ := hnan l hl a ha
    exact ⟨t1, t2, fun lo hlo hi hhi => ordCode_le (n1 lo hlo) (n2 hi hhi) (t3 lo hlo hi hhi), t4⟩

end Geff.Meta
