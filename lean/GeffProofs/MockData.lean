import GeffModel.MockData
import GeffProofs.MockEdges
/-! # Helper lemmas for C20 — the model of `create_dummy_in_mem_geff` beyond the edge loops

* Python-dict lemmas for `dictSet` (membership, keys, uniqueness of keys, fresh key = append);
* every accumulator of the model is a fold of `Acc.push` (`pushAll`); with pairwise distinct names
  the resulting dict is *the list of pushed properties in order* (`pushAll_props_of_nodup`,
  `metaDict_of_nodup`), in general every member was pushed (`mem_pushAll_props`) and the key set is
  the set of pushed names (`keys_pushAll`);
* the extra-property loop is `extraTriples` (validation/generation per item) followed by `pushAll`
  (`extraLoop_eq`); `stepOut_ok` says what one accepted item yields;
* `createDummy_ok`: the shape of every successful result. -/

namespace Geff.MockData

theorem mem_dictSet {β : Type} {d : Dict β} {k : String} {v : β} {kv : String × β}
    (h : kv ∈ dictSet d k v) : kv = (k, v) ∨ (kv ∈ d ∧ kv.1 ≠ k) := by
  unfold dictSet at h
  split at h
  · simp only [List.mem_map] at h
    obtain ⟨x, hx, rfl⟩ := h
    by_cases hk : x.1 == k
    · simp [hk]
    · simp only [hk]
      exact Or.inr ⟨hx, by simpa using hk⟩
  · rename_i hany
    simp only [List.mem_append, List.mem_singleton] at h
    rcases h with h | h
    · refine Or.inr ⟨h, ?_⟩
      intro heq
      apply hany
      simp only [List.any_eq_true]
      exact ⟨kv, h, by simp [heq]⟩
    · exact Or.inl h

theorem keys_dictSet {β : Type} (d : Dict β) (k : String) (v : β) (k' : String) :
    k' ∈ dictKeys (dictSet d k v) ↔ k' = k ∨ k' ∈ dictKeys d := by
  unfold dictSet dictKeys
  split
  · rename_i hany
    simp only [List.any_eq_true, beq_iff_eq] at hany
    obtain ⟨x, hx, hxk⟩ := hany
    simp only [List.map_map, List.mem_map, Function.comp]
    constructor
    · rintro ⟨y, hy, rfl⟩
      by_cases hk : y.1 == k
      · simp [hk]
      · simp only [hk]; exact Or.inr ⟨y, hy, rfl⟩
    · rintro (rfl | ⟨y, hy, rfl⟩)
      · exact ⟨x, hx, by simp [hxk]⟩
      · by_cases hk : y.1 == k
        · exact ⟨y, hy, by simp [hk]; exact (beq_iff_eq.1 hk).symm⟩
        · exact ⟨y, hy, by simp [hk]⟩
  · simp only [List.map_append, List.map_cons, List.map_nil, List.mem_append, List.mem_singleton, List.mem_map]
    exact Or.comm

theorem self_mem_dictSet {β : Type} (d : Dict β) (k : String) (v : β) : (k, v) ∈ dictSet d k v := by
  unfold dictSet
  split
  · rename_i hany
    simp only [List.any_eq_true, beq_iff_eq] at hany
    obtain ⟨x, hx, hxk⟩ := hany
    exact List.mem_map.2 ⟨x, hx, by simp [hxk]⟩
  · simp

theorem mem_dictSet_of_ne {β : Type} {d : Dict β} {k : String} {v : β} {kv : String × β}
    (h : kv ∈ d) (hne : kv.1 ≠ k) : kv ∈ dictSet d k v := by
  unfold dictSet
  split
  · exact List.mem_map.2 ⟨kv, h, by simp [hne]⟩
  · simp [h]

/-- keys stay unique -/
theorem nodup_keys_dictSet {β : Type} (d : Dict β) (k : String) (v : β) (h : (dictKeys d).Nodup) :
    (dictKeys (dictSet d k v)).Nodup := by
  unfold dictSet dictKeys at *
  split
  · rw [List.map_map]
    have : (Prod.fst ∘ fun kv : String × β => if (kv.1 == k) = true then (k, v) else kv) = Prod.fst := by
      funext kv
      simp only [Function.comp]
      split
      · rename_i hk; exact (beq_iff_eq.1 hk).symm
      · rfl
    rw [this]; exact h
  · rename_i hany
    simp only [List.map_append, List.map_cons, List.map_nil]
    rw [List.nodup_append]
    refine ⟨h, by simp, ?_⟩
    intro a ha b hb
    simp only [List.mem_singleton] at hb
    subst hb
    intro heq; subst heq
    apply hany
    simp only [List.mem_map] at ha
    obtain ⟨x, hx, rfl⟩ := ha
    simp only [List.any_eq_true, beq_iff_eq]
    exact ⟨x, hx, rfl⟩

/-! ### accumulators are folds of `push` -/

def pushAll (a : Acc) (ts : List Triple) : Acc := ts.foldl Acc.push a

def tripleProp (t : Triple) : String × PropOut := (t.1, t.2.1)
def tripleMeta (t : Triple) : String × MetaOut := (t.1, t.2.2)

theorem pushAll_append (a : Acc) (l₁ l₂ : List Triple) : pushAll a (l₁ ++ l₂) = pushAll (pushAll a l₁) l₂ := by
  simp [pushAll, List.foldl_append]

/-- inserting a fresh key appends -/
theorem dictSet_fresh {β : Type} (d : Dict β) (k : String) (v : β) (h : k ∉ dictKeys d) :
    dictSet d k v = d ++ [(k, v)] := by
  unfold dictSet
  split
  · rename_i hany
    simp only [List.any_eq_true, beq_iff_eq] at hany
    obtain ⟨x, hx, hxk⟩ := hany
    exact absurd (List.mem_map.2 ⟨x, hx, hxk⟩) h
  · rfl

/-- with pairwise distinct names the dict is the list of pushed properties, in order -/
theorem pushAll_props_of_nodup (a : Acc) (ts : List Triple)
    (h : (dictKeys a.props ++ ts.map (·.1)).Nodup) :
    (pushAll a ts).props = a.props ++ ts.map tripleProp := by
  induction ts generalizing a with
  | nil => simp [pushAll]
  | cons t rest ih =>
    have hfresh : t.1 ∉ dictKeys a.props := by
      intro hm
      rw [List.nodup_append] at h
      exact h.2.2 _ hm _ (by simp) rfl
    have hp : (a.push t).props = a.props ++ [tripleProp t] := by
      simp only [Acc.push, tripleProp]; exact dictSet_fresh _ _ _ hfresh
    have : pushAll a (t :: rest) = pushAll (a.push t) rest := rfl
    rw [this, ih, hp]
    · simp
    · rw [hp]
      simp only [dictKeys, List.map_append, List.map_cons, List.map_nil, tripleProp, List.append_assoc,
        List.singleton_append] at h ⊢
      exact h

theorem pushAll_metas (a : Acc) (ts : List Triple) : (pushAll a ts).metas = a.metas ++ ts.map tripleMeta := by
  induction ts generalizing a with
  | nil => simp [pushAll]
  | cons t rest ih =>
    have : pushAll a (t :: rest) = pushAll (a.push t) rest := rfl
    rw [this, ih]; simp [Acc.push, tripleMeta]

theorem metaDict_of_nodup (l : List (String × MetaOut)) (h : (l.map (·.1)).Nodup) : metaDict l = l := by
  have key : ∀ (d : Dict MetaOut) (l : List (String × MetaOut)), (dictKeys d ++ l.map (·.1)).Nodup →
      l.foldl (fun d kv => dictSet d kv.1 kv.2) d = d ++ l := by
    intro d l
    induction l generalizing d with
    | nil => simp
    | cons x rest ih =>
      intro h
      have hfresh : x.1 ∉ dictKeys d := by
        intro hm
        rw [List.nodup_append] at h
        exact h.2.2 _ hm _ (by simp) rfl
      simp only [List.foldl_cons]
      rw [dictSet_fresh _ _ _ hfresh, ih]
      · simp
      · simp only [dictKeys, List.map_append, List.map_cons, List.map_nil, List.append_assoc,
          List.singleton_append] at h ⊢
        exact h
  have := key [] l (by simpa [dictKeys] using h)
  simpa [metaDict] using this

/-- every property in the dict was pushed (or was there before) — no distinctness needed -/
theorem mem_pushAll_props (a : Acc) (ts : List Triple) (kv : String × PropOut) (h : kv ∈ (pushAll a ts).props) :
    kv ∈ a.props ∨ ∃ t ∈ ts, kv = tripleProp t := by
  induction ts generalizing a with
  | nil => exact Or.inl h
  | cons t rest ih =>
    have : pushAll a (t :: rest) = pushAll (a.push t) rest := rfl
    rw [this] at h
    rcases ih _ h with h1 | ⟨t', ht', rfl⟩
    · rcases mem_dictSet h1 with h2 | h2
      · exact Or.inr ⟨t, by simp, h2⟩
      · exact Or.inl h2.1
    · exact Or.inr ⟨t', by simp [ht'], rfl⟩

/-- the key set is exactly the pushed names -/
theorem keys_pushAll (a : Acc) (ts : List Triple) (k : String) :
    k ∈ dictKeys (pushAll a ts).props ↔ k ∈ dictKeys a.props ∨ k ∈ ts.map (·.1) := by
  induction ts generalizing a with
  | nil => simp [pushAll]
  | cons t rest ih =>
    have : pushAll a (t :: rest) = pushAll (a.push t) rest := rfl
    rw [this, ih]
    simp only [Acc.push, keys_dictSet, List.map_cons, List.mem_cons]
    tauto

theorem nodup_keys_pushAll (a : Acc) (ts : List Triple) (h : (dictKeys a.props).Nodup) :
    (dictKeys (pushAll a ts).props).Nodup := by
  induction ts generalizing a with
  | nil => exact h
  | cons t rest ih => exact ih _ (nodup_keys_dictSet _ _ _ h)

/-! ### the extra-property loops -/

/-- `[stepOut len it for it in items]`, failing at the first invalid item -/
def extraTriples (len : Nat) : List (Option String × Req) → Outcome (List Triple)
  | [] => .ok []
  | it :: rest => match stepOut len it with
    | .ok t => match extraTriples len rest with
      | .ok ts => .ok (t :: ts)
      | .valueError => .valueError
      | .other n => .other n
    | .valueError => .valueError
    | .other n => .other n

theorem extraLoop_eq (len : Nat) (a : Acc) (items : List (Option String × Req)) :
    extraLoop len a items = match extraTriples len items with
      | .ok ts => .ok (pushAll a ts)
      | .valueError => .valueError
      | .other n => .other n := by
  induction items generalizing a with
  | nil => rfl
  | cons it rest ih =>
    simp only [extraLoop, extraStep, extraTriples]
    cases hs : stepOut len it with
    | ok t =>
      simp only [ih]
      cases extraTriples len rest <;> rfl
    | valueError => rfl
    | other n => rfl

/-- what one accepted `extra_*_props` item yields -/
theorem stepOut_ok {len : Nat} {item : Option String × Req} {t : Triple} (h : stepOut len item = .ok t) :
    item.1 = some t.1 ∧ t.2.1.len = len ∧ t.2.1.varlength = false ∧ t.2.1.missing = none ∧
    t.2.2.dtype = t.2.1.dtype ∧ t.2.2.varlength = false ∧
    ((∃ d, item.2 = .auto d ∧ d ∈ dtypeStrs ∧ t.2.1.dtype = npName d) ∨
     (∃ d tag, item.2 = .arr d len tag ∧ t.2.1.dtype = d ∧ t.2.1.values = .given tag)) := by
  obtain ⟨key, req⟩ := item
  unfold stepOut at h
  cases key with
  | none => simp at h
  | some k =>
    cases req with
    | auto d =>
      simp only at h
      split at h
      · rename_i hd
        cases h
        exact ⟨rfl, rfl, rfl, rfl, rfl, rfl, Or.inl ⟨d, rfl, by simpa using hd, rfl⟩⟩
      · cases h
    | arr d l tag =>
      simp only at h
      split at h
      · rename_i hl
        cases h
        subst hl
        exact ⟨rfl, rfl, rfl, rfl, rfl, rfl, Or.inr ⟨d, tag, rfl, rfl, rfl⟩⟩
      · cases h
    | bad => simp at h

theorem extraTriples_ok {len : Nat} {items : List (Option String × Req)} {ts : List Triple}
    (h : extraTriples len items = .ok ts) : List.Forall₂ (fun it t => stepOut len it = .ok t) items ts := by
  induction items generalizing ts with
  | nil => simp only [extraTriples] at h; cases h; exact List.Forall₂.nil
  | cons it rest ih =>
    simp only [extraTriples] at h
    cases hs : stepOut len it with
    | ok t =>
      rw [hs] at h
      cases hr : extraTriples len rest with
      | ok ts' =>
        rw [hr] at h; cases h
        exact List.Forall₂.cons hs (ih hr)
      | valueError => rw [hr] at h; cases h
      | other n => rw [hr] at h; cases h
    | valueError => rw [hs] at h; cases h
    | other n => rw [hs] at h; cases h

/-- the items of an `extra_*_props` argument (`None` = no items) -/
def itemsOf : Extra → List (Option String × Req)
  | .dict l => l
  | _ => []

theorem extras_ok {len : Nat} {a a' : Acc} {x : Extra} (h : extras len a x = .ok a') :
    x ≠ .notDict ∧ ∃ ts, extraTriples len (itemsOf x) = .ok ts ∧ a' = pushAll a ts := by
  cases x with
  | none => simp only [extras] at h; cases h; exact ⟨by simp, [], rfl, rfl⟩
  | notDict => simp [extras] at h
  | dict items =>
    simp only [extras, extraLoop_eq] at h
    refine ⟨by simp, ?_⟩
    cases ht : extraTriples len items with
    | ok ts => rw [ht] at h; cases h; exact ⟨ts, ht, rfl⟩
    | valueError => rw [ht] at h; cases h
    | other n => rw [ht] at h; cases h

/-- the axis properties in creation order -/
def axisTriples (p : Params) : List Triple :=
  let n := p.numNodes
  (if p.t then [axisTriple n "t" "second" p.timeDtype (.ints (tValues n))] else []) ++
  (if p.z then [axisTriple n "z" "nanometer" p.posDtype (.linspace "0.5" "0.1" n)] else []) ++
  (if p.y then [axisTriple n "y" "nanometer" p.posDtype (.linspace "100.0" "500.0" n)] else []) ++
  (if p.x then [axisTriple n "x" "nanometer" p.posDtype (.linspace "1.0" "0.1" n)] else [])

def axisOuts (p : Params) : List AxisOut :=
  let mm := decide (p.numNodes > 0)
  (if p.t then [{ name := "t", type := "time", unit := "second", hasMinMax := mm }] else []) ++
  (if p.z then [{ name := "z", type := "space", unit := "nanometer", hasMinMax := mm }] else []) ++
  (if p.y then [{ name := "y", type := "space", unit := "nanometer", hasMinMax := mm }] else []) ++
  (if p.x then [{ name := "x", type := "space", unit := "nanometer", hasMinMax := mm }] else [])

theorem axesAcc_eq (p : Params) : axesAcc p = (pushAll {} (axisTriples p), axisOuts p) := by
  unfold axesAcc axisTriples axisOuts
  cases p.t <;> cases p.z <;> cases p.y <;> cases p.x <;> rfl

def vlTriples (p : Params) : List Triple := if p.vl then [varLengthTriple p.numNodes] else []
def msTriples (ms : Bool) (k : Nat) : List Triple := if ms then [sparseTriple k] else []

/-- the shape of every successful result of `create_dummy_in_mem_geff` -/
theorem createDummy_ok {ok : Bool} {p : Params} {g : Geff} (h : createDummyInMemGeff ok p = .ok g) :
    ∃ es xn xe,
      Gen.MockEdges.gen p.directed (p.numNodes : Int) (p.numEdges : Int) = .ok es ∧
      p.extraNode ≠ .notDict ∧ p.extraEdge ≠ .notDict ∧
      extraTriples p.numNodes (itemsOf p.extraNode) = .ok xn ∧
      extraTriples es.length (itemsOf p.extraEdge) = .ok xe ∧
      (ok = true ∨ p.numNodes ≠ 0 ∨ p.vl = false) ∧
      g = assemble p es (axisOuts p)
            (pushAll {} (axisTriples p ++ xn ++ vlTriples p ++ msTriples p.ms p.numNodes))
            (pushAll {} (xe ++ msTriples p.ms es.length)) := by
  unfold createDummyInMemGeff at h
  simp only [axesAcc_eq] at h
  cases hg : Gen.MockEdges.gen p.directed (p.numNodes : Int) (p.numEdges : Int) with
  | error e => rw [hg] at h; simp [castEdges] at h
  | ok es =>
    rw [hg] at h
    simp only [castEdges] at h
    cases hn : extras p.numNodes (pushAll {} (axisTriples p)) p.extraNode with
    | valueError => rw [hn] at h; cases h
    | other e => rw [hn] at h; cases h
    | ok na =>
      rw [hn] at h
      simp only at h
      cases he : extras es.length {} p.extraEdge with
      | valueError => rw [he] at h; cases h
      | other e => rw [he] at h; cases h
      | ok ea =>
        rw [he] at h
        simp only at h
        split at h
        · cases h
        · rename_i hguard
          simp only [Outcome.ok.injEq] at h
          obtain ⟨hnd, xn, hxn, rfl⟩ := extras_ok hn
          obtain ⟨hed, xe, hxe, rfl⟩ := extras_ok he
          refine ⟨es, xn, xe, rfl, hnd, hed, hxn, hxe, ?_, ?_⟩
          · cases hok : ok
            · cases hvl : p.vl
              · exact Or.inr (Or.inr rfl)
              · refine Or.inr (Or.inl ?_)
                intro hn0
                apply hguard
                simp [hok, hvl, hn0]
            · exact Or.inl rfl
          · rw [← h]
            congr 1
            · unfold withSparse withVarLength vlTriples msTriples
              cases p.vl <;> cases p.ms <;> simp [pushAll]
            · unfold withSparse msTriples
              cases p.ms <;> simp [pushAll]

/-- conversely: what `create_dummy_in_mem_geff` accepts -/
theorem createDummy_accepts (ok : Bool) (p : Params) (es : List (Int × Int)) (xn xe : List Triple)
    (hgen : Gen.MockEdges.gen p.directed (p.numNodes : Int) (p.numEdges : Int) = .ok es)
    (hnd : p.extraNode ≠ .notDict) (hed : p.extraEdge ≠ .notDict)
    (hxn : extraTriples p.numNodes (itemsOf p.extraNode) = .ok xn)
    (hxe : extraTriples es.length (itemsOf p.extraEdge) = .ok xe)
    (hok : ok = true ∨ p.numNodes ≠ 0 ∨ p.vl = false) :
    ∃ g, createDummyInMemGeff ok p = .ok g := by
  have hextras : ∀ (len : Nat) (a : Acc) (x : Extra) (ts : List Triple), x ≠ .notDict →
      extraTriples len (itemsOf x) = .ok ts → extras len a x = .ok (pushAll a ts) := by
    intro len a x ts hx ht
    cases x with
    | none => simp only [itemsOf, extraTriples] at ht; cases ht; rfl
    | notDict => exact absurd rfl hx
    | dict items => simp only [extras, extraLoop_eq]; simp only [itemsOf] at ht; rw [ht]
  unfold createDummyInMemGeff
  simp only [axesAcc_eq, hgen, castEdges, hextras _ _ _ _ hnd hxn, hextras _ _ _ _ hed hxe]
  split
  · rename_i hguard
    simp only [Bool.and_eq_true, beq_iff_eq, Bool.not_eq_eq_eq_not, Bool.not_true] at hguard
    rcases hok with h | h | h
    · rw [h] at hguard; exact absurd hguard.2 (by simp)
    · exact absurd hguard.1.2 h
    · rw [h] at hguard; exact absurd hguard.1.1 (by simp)
  · exact ⟨_, rfl⟩

theorem forall₂_names {len : Nat} {items : List (Option String × Req)} {ts : List Triple}
    (h : List.Forall₂ (fun it t => stepOut len it = .ok t) items ts) :
    ts.map (·.1) = items.filterMap (·.1) := by
  induction h with
  | nil => rfl
  | cons hs _ ih =>
    have := (stepOut_ok hs).1
    simp [this, ih]

/-- a metadata entry describes a property -/
def DescribesOne (m : String × MetaOut) (kv : String × PropOut) : Prop :=
  m.1 = kv.1 ∧ m.2.varlength = kv.2.varlength ∧ (kv.2.varlength = false → m.2.dtype = kv.2.dtype)

theorem describes_map (ts : List Triple)
    (h : ∀ t ∈ ts, DescribesOne (tripleMeta t) (tripleProp t)) :
    List.Forall₂ DescribesOne (ts.map tripleMeta) (ts.map tripleProp) := by
  induction ts with
  | nil => exact List.Forall₂.nil
  | cons t rest ih =>
    exact List.Forall₂.cons (h t (by simp)) (ih (fun t' ht' => h t' (by simp [ht'])))

/-! ### where the properties of a result come from -/

theorem mem_vlTriples {p : Params} {t : Triple} (h : t ∈ vlTriples p) : p.vl = true ∧ t = varLengthTriple p.numNodes := by
  unfold vlTriples at h
  split at h <;> simp only [List.mem_singleton, List.not_mem_nil] at h
  exact ⟨by assumption, h⟩

theorem mem_msTriples {ms : Bool} {k : Nat} {t : Triple} (h : t ∈ msTriples ms k) : ms = true ∧ t = sparseTriple k := by
  unfold msTriples at h
  split at h <;> simp only [List.mem_singleton, List.not_mem_nil] at h
  exact ⟨by assumption, h⟩

theorem mem_axisTriples {p : Params} {t : Triple} (h : t ∈ axisTriples p) :
    ∃ name unit dtype values, t = axisTriple p.numNodes name unit dtype values := by
  simp only [axisTriples, List.mem_append] at h
  rcases h with ((h | h) | h) | h <;> split at h <;> simp only [List.mem_singleton, List.not_mem_nil] at h <;>
    exact ⟨_, _, _, _, h⟩

theorem mem_of_forall₂ {len : Nat} {items : List (Option String × Req)} {ts : List Triple}
    (h : List.Forall₂ (fun it t => stepOut len it = .ok t) items ts) {t : Triple} (ht : t ∈ ts) :
    ∃ it ∈ items, stepOut len it = .ok t := by
  induction h with
  | nil => cases ht
  | cons hs _ ih =>
    rcases List.mem_cons.1 ht with rfl | ht
    · exact ⟨_, by simp, hs⟩
    · obtain ⟨it, hit, h⟩ := ih ht
      exact ⟨it, by simp [hit], h⟩

/-- where a property of the result comes from -/
theorem origin_node {p : Params} {xn : List Triple}
    (hxn : List.Forall₂ (fun it t => stepOut p.numNodes it = .ok t) (itemsOf p.extraNode) xn)
    {kv : String × PropOut}
    (h : kv ∈ (pushAll {} (axisTriples p ++ xn ++ vlTriples p ++ msTriples p.ms p.numNodes)).props) :
    (kv.2.len = p.numNodes ∧ kv.2.varlength = false ∧ kv.2.missing = none) ∨
    (p.vl = true ∧ kv = ("var_length", varLengthProp p.numNodes)) ∨
    (p.ms = true ∧ kv = ("sparse_prop", sparseProp p.numNodes)) := by
  rcases mem_pushAll_props _ _ _ h with h | ⟨t, ht, rfl⟩
  · cases h
  · simp only [List.mem_append] at ht
    rcases ht with ((ht | ht) | ht) | ht
    · obtain ⟨name, unit, dtype, values, rfl⟩ := mem_axisTriples ht
      exact Or.inl ⟨rfl, rfl, rfl⟩
    · obtain ⟨it, _, hs⟩ := mem_of_forall₂ hxn ht
      obtain ⟨_, h2, h3, h4, _⟩ := stepOut_ok hs
      exact Or.inl ⟨h2, h3, h4⟩
    · obtain ⟨hv, rfl⟩ := mem_vlTriples ht
      exact Or.inr (Or.inl ⟨hv, rfl⟩)
    · obtain ⟨hm, rfl⟩ := mem_msTriples ht
      exact Or.inr (Or.inr ⟨hm, rfl⟩)

theorem origin_edge {ms : Bool} {E : Nat} {items : List (Option String × Req)} {xe : List Triple}
    (hxe : List.Forall₂ (fun it t => stepOut E it = .ok t) items xe) {kv : String × PropOut}
    (h : kv ∈ (pushAll {} (xe ++ msTriples ms E)).props) :
    (kv.2.len = E ∧ kv.2.varlength = false ∧ kv.2.missing = none) ∨
    (ms = true ∧ kv = ("sparse_prop", sparseProp E)) := by
  rcases mem_pushAll_props _ _ _ h with h | ⟨t, ht, rfl⟩
  · cases h
  · simp only [List.mem_append] at ht
    rcases ht with ht | ht
    · obtain ⟨it, _, hs⟩ := mem_of_forall₂ hxe ht
      obtain ⟨_, h2, h3, h4, _⟩ := stepOut_ok hs
      exact Or.inl ⟨h2, h3, h4⟩
    · obtain ⟨hm, rfl⟩ := mem_msTriples ht
      exact Or.inr ⟨hm, rfl⟩

theorem extraTriples_total {len : Nat} {items : List (Option String × Req)}
    (h : ∀ item ∈ items, (∃ k, item.1 = some k) ∧
      ((∃ d, item.2 = .auto d ∧ d ∈ dtypeStrs) ∨ (∃ d tag, item.2 = .arr d len tag))) :
    ∃ ts, extraTriples len items = .ok ts := by
  induction items with
  | nil => exact ⟨[], rfl⟩
  | cons it rest ih =>
    obtain ⟨ts, hts⟩ := ih (fun item hi => h item (List.mem_cons_of_mem _ hi))
    obtain ⟨⟨k, hk⟩, hreq⟩ := h it (by simp)
    obtain ⟨key, req⟩ := it
    simp only at hk hreq
    subst hk
    rcases hreq with ⟨d, rfl, hd⟩ | ⟨d, tag, rfl⟩
    · refine ⟨(k, { dtype := npName d, len := len, varlength := false, missing := none, values := autoValues k d len },
                    { dtype := npName d, varlength := false, unit := none }) :: ts, ?_⟩
      simp [extraTriples, stepOut, hts, hd]
    · refine ⟨(k, { dtype := d, len := len, varlength := false, missing := none, values := .given tag },
                    { dtype := d, varlength := false, unit := none }) :: ts, ?_⟩
      simp [extraTriples, stepOut, hts]

end Geff.MockData
