import GeffProofs.KV
/-! # The phases of a write over the key-view store (C05, C06)

* write phase: started without a geff attribute, no crash point of the body of `write_arrays` has
  one, except after the very last mutation (`writeBody_crash`);
* delete phase: at every crash point of `delete_geff` the store is untouched or `nodes` is no
  longer a readable group with an `ids` array (`deleteGeff_crash`); on MemoryStore-like kinds this
  rests on `DeleteSafe` (deletion follows store order and the first key of `nodes/` is structural),
  which is proved to hold of every store a completed write leaves behind (`writeBody_deleteSafe`). -/
namespace Geff.KV
open Gen.Paths Prog

/-! ### write phase -/

theorem dataOp_noGeff (f : Fmt) (prot : Option Key) (op : Op) (h : dataOp f prot op = true) :
    noGeffOp op = true := by
  cases op with
  | set k b =>
    cases b with
    | raw _ => rfl
    | root g o => cases g with
      | none => rfl
      | some _ => simp [dataOp, isRaw, blobNoGeff] at h
  | setnx k b =>
    cases b with
    | raw _ => rfl
    | root g o => cases g with
      | none => rfl
      | some _ => simp [dataOp, isRaw, blobNoGeff] at h
  | del k => rfl
  | delPrefix p => rfl
  | clear => rfl

/-- the metadata write: all mutations but the last leave the geff attribute alone -/
theorem metadataWrite_shape (d : Docs) (geff : String) (kv : KV) :
    ∃ pre c, (metadataWrite d geff kv).ops = pre ++ [c] ∧ (∀ op ∈ pre, noGeffOp op = true) ∧
      (metadataWrite d geff kv).val = .ok () := by
  unfold metadataWrite
  simp only [bind_def, ops_bind, val_bind, ops_look, val_look, run_nil, List.nil_append]
  cases rootGroupFmt kv with
  | none => exact ⟨[], _, rfl, by simp, rfl⟩
  | some f' =>
    cases f' with
    | v2 => exact ⟨[.set ⟨[], .zgroup⟩ (.raw d.zgroup)], _, rfl, by simp [noGeffOp, blobNoGeff], rfl⟩
    | v3 => exact ⟨[], _, rfl, by simp, rfl⟩

theorem crash_noGeff (f : Fmt) (ops : List Op) (s : KV) (h : geffAttrIn f s = none)
    (hall : ∀ op ∈ ops, noGeffOp op = true) : Crash s ops (fun t => geffAttrIn f t = none) :=
  Crash.of_inv (I := fun t => geffAttrIn f t = none) (A := noGeffOp)
    (fun t op ht ho => geffAttrIn_step_none f t op ht ho) ops s h hall

/-- **write phase**: started without a geff attribute, every crash point of the body of
`write_arrays` has no geff attribute, except after its very last mutation (the commit) -/
theorem writeBody_crash (d : Docs) (kind : Kind) (f : Fmt) (g : G) (s : KV)
    (h : geffAttrIn f s = none) :
    Crash s (writeBody d kind f g s).ops
      (fun t => geffAttrIn f t = none ∨
        ((writeBody d kind f g s).val = .ok () ∧ t = run s (writeBody d kind f g s).ops)) := by
  have hW := All.writeData_dataOp d kind f g s
  have hW' : ∀ op ∈ (writeData d kind f g s).ops, noGeffOp op = true :=
    fun op hop => dataOp_noGeff f none op (hW op hop)
  unfold writeBody
  simp only [bind_def, ops_bind, val_bind]
  cases hv : (writeData d kind f g s).val with
  | error e =>
    simp only [List.append_nil]
    exact (crash_noGeff f _ s h hW').mono (fun t ht => Or.inl ht)
  | ok u =>
    simp only
    obtain ⟨pre, c, hops, hpre, hval⟩ := metadataWrite_shape d g.geff (run s (writeData d kind f g s).ops)
    rw [hops, hval]
    have h1 := crash_noGeff f _ s h hW'
    apply Crash.append (h1.mono (fun t ht => Or.inl ht))
    have h2 := crash_noGeff f pre _ h1.final hpre
    apply Crash.append (h2.mono (fun t ht => Or.inl ht))
    refine Crash.cons (P := fun t => geffAttrIn f t = none ∨ Except.ok () = Except.ok () ∧
        t = run s ((writeData d kind f g s).ops ++ (pre ++ [c]))) (Or.inl h2.final) ?_
    apply Crash.nil
    right
    refine ⟨rfl, ?_⟩
    simp [run_append, run_cons, run_nil]

/-! ### delete phase -/

/-- `nodes` is not a readable group with an `ids` array -/
def nodesBroken (f : Fmt) (s : KV) : Prop :=
  has s (groupKey f [NODES]) = false ∨ has s (arrayKey f [NODES, IDS]) = false

theorem not_recognised_of_broken {f : Fmt} {s : KV} (h : nodesBroken f s) : recognised f s = false := by
  rcases h with h | h <;> simp [recognised, h]

theorem not_recognised_of_noGeff {f : Fmt} {s : KV} (h : geffAttrIn f s = none) :
    recognised f s = false := by
  simp [recognised, h]

/-- the mutation creates no key below the root group's own documents -/
def rootOnlySets : Op → Bool
  | .set k _ => k.path.isEmpty
  | .setnx k _ => k.path.isEmpty
  | _ => true

theorem has_step_false {s : KV} {op : Op} {K : Key} (hK : K.path ≠ []) (h : has s K = false)
    (ho : rootOnlySets op = true) : has (step s op) K = false := by
  unfold has at h ⊢
  rw [get_step]
  cases op with
  | set k b =>
    have : K ≠ k := by
      intro hk; subst hk; simp [rootOnlySets] at ho; exact hK ho
    simpa [this] using h
  | setnx k b =>
    have : K ≠ k := by
      intro hk; subst hk; simp [rootOnlySets] at ho; exact hK ho
    simpa [this] using h
  | del k => by_cases hk : K = k <;> simp [hk]; simpa [hk] using h
  | delPrefix p => by_cases hk : under p K <;> simp [hk]; simpa using h
  | clear => simp

theorem nodesBroken_step {f : Fmt} {s : KV} {op : Op} (h : nodesBroken f s)
    (ho : rootOnlySets op = true) : nodesBroken f (step s op) := by
  rcases h with h | h
  · left; exact has_step_false (by cases f <;> simp [groupKey]) h ho
  · right; exact has_step_false (by cases f <;> simp [arrayKey]) h ho

def keysUnder (p : List String) (kv : KV) : List Key :=
  (kv.filter (fun e => under p e.1)).map (·.1)

/-- **assumption on the store being deleted from (MemoryStore-like kinds)**: the first key of
`nodes/` in store order is the metadata document of the `nodes` group or of the `nodes/ids` array.
`delete_dir` removes keys in store order, so this is what makes a half-deleted geff unreadable. -/
def DeleteSafe (f : Fmt) (kv : KV) : Prop :=
  ∀ k, (keysUnder [NODES] kv).head? = some k → (k = groupKey f [NODES] ∨ k = arrayKey f [NODES, IDS])

theorem get_run_dels (ks : List Key) (s : KV) (k : Key) :
    get (run s (ks.map Op.del)) k = if k ∈ ks then none else get s k := by
  induction ks generalizing s with
  | nil => simp [run_nil]
  | cons k0 rest ih =>
    simp only [List.map_cons, run_cons, ih, step]
    by_cases h1 : k ∈ rest
    · simp [h1]
    · by_cases h0 : k = k0
      · subst h0; simp [get_erase_same]
      · simp [h1, h0, get_erase_ne s h0]

theorem mem_keysUnder {p : List String} {kv : KV} {k : Key} :
    k ∈ keysUnder p kv ↔ under p k = true ∧ ∃ b, (k, b) ∈ kv := by
  simp only [keysUnder, List.mem_map, List.mem_filter]
  constructor
  · rintro ⟨⟨k', b⟩, ⟨hm, hu⟩, rfl⟩; exact ⟨hu, b, hm⟩
  · rintro ⟨hu, b, hm⟩; exact ⟨(k, b), ⟨hm, hu⟩, rfl⟩

theorem deleteDir_mem_ops (p : List String) (s : KV) :
    (deleteDir .mem p s).ops = (keysUnder p s).map Op.del := by
  simp [deleteDir, bind_def, ops_bind, keysUnder, List.map_map, Function.comp_def]

theorem deleteDir_val (kind : Kind) (p : List String) (s : KV) : (deleteDir kind p s).val = .ok () := by
  cases kind <;> simp only [deleteDir, bind_def, val_bind, val_look, ops_look, run_nil, val_emit]
  all_goals split <;> rfl

theorem deleteDir_get (kind : Kind) (p : List String) (s : KV) (k : Key) :
    get (run s (deleteDir kind p s).ops) k = if under p k then none else get s k := by
  have hnone : under p k = true → k ∉ keysUnder p s → get s k = none := by
    intro hu hk
    apply get_eq_none_of_not_mem
    intro e he hek
    apply hk
    exact mem_keysUnder.2 ⟨hu, e.2, by rw [← hek]; exact he⟩
  cases kind with
  | mem =>
    rw [deleteDir_mem_ops, get_run_dels]
    by_cases hu : under p k = true
    · by_cases hk : k ∈ keysUnder p s
      · simp [hk, hu]
      · simp [hk, hu, hnone hu hk]
    · have : k ∉ keysUnder p s := fun hk => hu (mem_keysUnder.1 hk).1
      simp [this, hu]
  | loc =>
    simp only [deleteDir, bind_def, ops_bind, ops_look, val_look, run_nil, List.nil_append]
    by_cases ha : (s.any fun e => under p e.1) = true
    · simp only [ha, if_true, ops_emit, run_cons, run_nil, get_step]
    · simp only [ha]
      by_cases hu : under p k = true
      · simp only [hu, if_true]
        apply hnone hu
        intro hk
        obtain ⟨_, b, hb⟩ := mem_keysUnder.1 hk
        exact ha (List.any_eq_true.2 ⟨(k, b), hb, hu⟩)
      · simp [hu, run_nil]
  | path =>
    simp only [deleteDir, bind_def, ops_bind, ops_look, val_look, run_nil, List.nil_append]
    by_cases ha : (s.any fun e => under p e.1) = true
    · simp only [ha, if_true, ops_emit, run_cons, run_nil, get_step]
    · simp only [ha]
      by_cases hu : under p k = true
      · simp only [hu, if_true]
        apply hnone hu
        intro hk
        obtain ⟨_, b, hb⟩ := mem_keysUnder.1 hk
        exact ha (List.any_eq_true.2 ⟨(k, b), hb, hu⟩)
      · simp [hu, run_nil]



theorem All.deleteDir_rootOnly (kind : Kind) (p : List String) : All rootOnlySets (deleteDir kind p) := by
  unfold deleteDir
  apply All.bind All.look; intro kv
  cases kind with
  | mem => apply All.emit; intro op hop; simp only [List.mem_map] at hop; obtain ⟨e, _, rfl⟩ := hop; rfl
  | loc => simp only; split
           · apply All.emit; intro op hop; simp at hop; subst hop; rfl
           · exact All.pure ()
  | path => simp only; split
            · apply All.emit; intro op hop; simp at hop; subst hop; rfl
            · exact All.pure ()

theorem rootMetaOps_rootOnly (d : Docs) (f : Fmt) (doc : Blob) :
    ∀ op ∈ rootMetaOps d f doc, rootOnlySets op = true := by
  intro op hop
  cases f <;> simp [rootMetaOps] at hop
  · rcases hop with rfl | rfl <;> rfl
  · subst hop; rfl

theorem All.delGeffAttr_rootOnly (d : Docs) (f : Fmt) : All rootOnlySets (delGeffAttr d f) := by
  unfold delGeffAttr
  apply All.bind All.look; intro kv
  split
  · exact All.emit (rootMetaOps_rootOnly d f _)
  · exact All.raise _

theorem All.deleteRoot_rootOnly (d : Docs) (kind : Kind) (f : Fmt) : All rootOnlySets (deleteRoot d kind f) := by
  unfold deleteRoot
  apply All.bind All.look; intro kv
  split
  · cases kind with
    | path => apply All.emit; intro op hop; simp at hop; subst hop; rfl
    | mem => exact All.delGeffAttr_rootOnly d f
    | loc => exact All.delGeffAttr_rootOnly d f
  · exact All.delGeffAttr_rootOnly d f

theorem crash_broken (f : Fmt) (ops : List Op) (s : KV) (h : nodesBroken f s)
    (hall : ∀ op ∈ ops, rootOnlySets op = true) : Crash s ops (nodesBroken f) :=
  Crash.of_inv (I := nodesBroken f) (A := rootOnlySets)
    (fun _ _ ht ho => nodesBroken_step ht ho) ops s h hall

/-- after `delete_dir(nodes)` the `nodes` group is gone -/
theorem deleteDir_nodes_final (f : Fmt) (kind : Kind) (s : KV) :
    nodesBroken f (run s (deleteDir kind [NODES] s).ops) := by
  left
  unfold has
  rw [deleteDir_get]
  have : under [NODES] (groupKey f [NODES]) = true := by cases f <;> simp [under, groupKey]
  simp [this]

/-- **crash points of `del root["nodes"]`**: the store is untouched or `nodes` is already unreadable -/
theorem deleteDir_nodes_crash (f : Fmt) (kind : Kind) (s : KV) (hsafe : kind = .mem → DeleteSafe f s) :
    Crash s (deleteDir kind [NODES] s).ops (fun t => t = s ∨ nodesBroken f t) := by
  have hro := All.deleteDir_rootOnly kind [NODES] s
  cases hops : (deleteDir kind [NODES] s).ops with
  | nil => exact Crash.nil (Or.inl rfl)
  | cons o os =>
    rw [hops] at hro
    refine Crash.cons (P := fun t => t = s ∨ nodesBroken f t) (Or.inl rfl) ?_
    have hb : nodesBroken f (step s o) := by
      cases kind with
      | mem =>
        rw [deleteDir_mem_ops] at hops
        cases hk : keysUnder [NODES] s with
        | nil => simp [hk] at hops
        | cons k1 rest =>
          rw [hk] at hops
          simp only [List.map_cons, List.cons.injEq] at hops
          obtain ⟨rfl, _⟩ := hops
          have := hsafe rfl k1 (by simp [hk])
          rcases this with rfl | rfl
          · left; simp [has, step, get_erase_same]
          · right; simp [has, step, get_erase_same]
      | loc =>
        have h1 := deleteDir_nodes_final f .loc s
        simp only [deleteDir, bind_def, ops_bind, ops_look, val_look, run_nil, List.nil_append] at hops h1
        split at hops
        · simp at hops; obtain ⟨rfl, rfl⟩ := hops
          simpa [*, run_cons, run_nil] using h1
        · simp at hops
      | path =>
        have h1 := deleteDir_nodes_final f .path s
        simp only [deleteDir, bind_def, ops_bind, ops_look, val_look, run_nil, List.nil_append] at hops h1
        split at hops
        · simp at hops; obtain ⟨rfl, rfl⟩ := hops
          simpa [*, run_cons, run_nil] using h1
        · simp at hops
    exact (crash_broken f os _ hb (fun op hop => hro op (by simp [hop]))).mono (fun t ht => Or.inr ht)

theorem setup_noop (d : Docs) (f : Fmt) (s : KV) (h : has s (groupKey f []) = true) :
    (setupZarrGroup d f s).ops = [] ∧ (setupZarrGroup d f s).val = .ok () := by
  simp [setupZarrGroup, bind_def, ops_bind, val_bind, h]

/-- **delete phase** (`delete_geff` on a store whose root group exists in format `f`): at every
crash point the store is untouched or `nodes` is unreadable -/
theorem deleteGeff_crash (d : Docs) (kind : Kind) (f : Fmt) (s : KV)
    (hroot : has s (groupKey f []) = true) (hsafe : kind = .mem → DeleteSafe f s) :
    Crash s (deleteGeff d kind f s).ops (fun t => t = s ∨ nodesBroken f t) := by
  obtain ⟨hs1, hs2⟩ := setup_noop d f s hroot
  unfold deleteGeff
  simp only [bind_def, ops_bind, val_bind, hs1, hs2, run_nil, List.nil_append, deleteDir_val]
  apply Crash.append (deleteDir_nodes_crash f kind s hsafe)
  have hb := deleteDir_nodes_final f kind s
  have hE := All.deleteDir_rootOnly kind [EDGES] (run s (deleteDir kind [NODES] s).ops)
  have c1 := crash_broken f _ _ hb hE
  apply Crash.append (c1.mono (fun t ht => Or.inr ht))
  have hR := All.deleteRoot_rootOnly d kind f
    (run (run s (deleteDir kind [NODES] s).ops) (deleteDir kind [EDGES] (run s (deleteDir kind [NODES] s).ops)).ops)
  exact (crash_broken f _ _ c1.final hR).mono (fun t ht => Or.inr ht)

/-! ### keys in store order -/

def keys (kv : KV) : List Key := kv.map (·.1)

theorem has_iff_mem_keys (kv : KV) (k : Key) : has kv k = true ↔ k ∈ keys kv := by
  induction kv with
  | nil => simp [has, keys]
  | cons e r ih =>
    obtain ⟨k₀, b₀⟩ := e
    by_cases h : k₀ = k
    · subst h; simp [has, get, keys]
    · have : ¬ k = k₀ := fun hh => h hh.symm
      simpa [has, get, keys, h, this] using ih

theorem keys_put (kv : KV) (k : Key) (b : Blob) :
    keys (put kv k b) = if has kv k then keys kv else keys kv ++ [k] := by
  induction kv with
  | nil => simp [put, keys, has]
  | cons e r ih =>
    obtain ⟨k₀, b₀⟩ := e
    by_cases h : k₀ = k
    · subst h; simp [put, keys, has, get]
    · have hh : has ((k₀, b₀) :: r) k = has r k := by simp [has, get, h]
      simp only [put, h, if_false, hh]
      by_cases hr : has r k
      · simp [hr, keys] at ih ⊢; exact ih
      · simp [hr, keys] at ih ⊢; exact ih

theorem keysUnder_eq (p : List String) (kv : KV) : keysUnder p kv = (keys kv).filter (under p) := by
  simp [keysUnder, keys, List.filter_map, Function.comp_def]

theorem keys_erase (kv : KV) (k : Key) : keys (erase kv k) = (keys kv).filter (fun x => x ≠ k) := by
  simp [erase, keys, List.filter_map, Function.comp_def]

theorem keys_delPrefix (kv : KV) (p : List String) :
    keys (kv.filter (fun e => !under p e.1)) = (keys kv).filter (fun x => !under p x) := by
  simp [keys, List.filter_map, Function.comp_def]

/-- no key at all below `p` -/
def NoneUnder (p : List String) (s : KV) : Prop := keysUnder p s = []

/-- the mutation creates no key below `p` -/
def notInto (p : List String) : Op → Bool
  | .set k _ => !under p k
  | .setnx k _ => !under p k
  | _ => true

theorem head_filter_of_head {α} (q : α → Bool) (l : List α) (x : α) (h : l.head? = some x)
    (hq : q x = true) : (l.filter q).head? = some x := by
  cases l with
  | nil => simp at h
  | cons y ys => simp at h; subst h; simp [List.filter, hq]

theorem filter_filter_head {p : List String} {l : List Key} {q : Key → Bool} {k1 : Key}
    (h : (l.filter (under p)).head? = some k1) (hq : q k1 = true) :
    ((l.filter q).filter (under p)).head? = some k1 := by
  rw [List.filter_filter]
  have : (l.filter (fun a => under p a && q a)) = (l.filter (under p)).filter q := by
    rw [List.filter_filter]; congr 1; funext a; exact Bool.and_comm _ _
  rw [this]
  exact head_filter_of_head q _ k1 h hq

theorem noneUnder_step {p : List String} {s : KV} {op : Op} (h : NoneUnder p s)
    (ho : notInto p op = true) : NoneUnder p (step s op) := by
  unfold NoneUnder at h ⊢
  rw [keysUnder_eq] at h ⊢
  cases op with
  | set k b =>
    simp only [step, keys_put]
    split
    · exact h
    · have : under p k = false := by simpa [notInto] using ho
      simp [List.filter_append, h, this]
  | setnx k b =>
    simp only [step]
    split
    · exact h
    · rw [keys_put]
      split
      · exact h
      · have : under p k = false := by simpa [notInto] using ho
        simp [List.filter_append, h, this]
  | del k =>
    simp only [step, keys_erase]
    rw [List.filter_filter]
    have : (keys s).filter (fun a => under p a && decide (a ≠ k)) = ((keys s).filter (under p)).filter (fun a => decide (a ≠ k)) := by
      rw [List.filter_filter]; congr 1; funext a; exact Bool.and_comm _ _
    rw [this, h]; rfl
  | delPrefix q =>
    simp only [step, keys_delPrefix]
    rw [List.filter_filter]
    have : (keys s).filter (fun a => under p a && !under q a) = ((keys s).filter (under p)).filter (fun a => !under q a) := by
      rw [List.filter_filter]; congr 1; funext a; exact Bool.and_comm _ _
    rw [this, h]; rfl
  | clear => simp [step, keys]

theorem first_set {p : List String} {s : KV} {k1 : Key} {b : Blob} (h : NoneUnder p s)
    (hk : under p k1 = true) : (keysUnder p (step s (.set k1 b))).head? = some k1 := by
  unfold NoneUnder at h
  rw [keysUnder_eq] at h ⊢
  simp only [step, keys_put]
  have hnot : has s k1 = false := by
    cases hh : has s k1 with
    | false => rfl
    | true =>
      have : k1 ∈ (keys s).filter (under p) := by
        simp [List.mem_filter, hk, (has_iff_mem_keys s k1).1 hh]
      rw [h] at this; simp at this
  simp [hnot, List.filter_append, h, hk]

theorem first_step {p : List String} {s : KV} {k1 : Key} {op : Op}
    (h : (keysUnder p s).head? = some k1) (ho : keepsKey (some k1) op = true) :
    (keysUnder p (step s op)).head? = some k1 := by
  rw [keysUnder_eq] at h ⊢
  cases op with
  | set k b =>
    simp only [step, keys_put]
    split
    · exact h
    · rw [List.filter_append, List.head?_append, h]; rfl
  | setnx k b =>
    simp only [step]
    split
    · exact h
    · rw [keys_put]
      split
      · exact h
      · rw [List.filter_append, List.head?_append, h]; rfl
  | del k =>
    simp only [step, keys_erase]
    apply filter_filter_head h
    have : k1 ≠ k := by
      intro hh; subst hh; simp [keepsKey] at ho
    simpa using this
  | delPrefix q =>
    simp only [step, keys_delPrefix]
    apply filter_filter_head h
    simpa [keepsKey] using ho
  | clear => simp [keepsKey] at ho

theorem first_run {p : List String} {k1 : Key} (r : List Op) (s : KV)
    (h : (keysUnder p s).head? = some k1) (hr : ∀ x ∈ r, keepsKey (some k1) x = true) :
    (keysUnder p (run s r)).head? = some k1 := by
  induction r generalizing s with
  | nil => simpa [run_nil] using h
  | cons o os ih =>
    rw [run_cons]
    exact ih _ (first_step h (hr o (by simp))) (fun x hx => hr x (by simp [hx]))

theorem noneUnder_run {p : List String} (a : List Op) (s : KV) (h : NoneUnder p s)
    (ha : ∀ x ∈ a, notInto p x = true) : NoneUnder p (run s a) := by
  induction a generalizing s with
  | nil => simpa [run_nil] using h
  | cons o os ih =>
    rw [run_cons]
    exact ih _ (noneUnder_step h (ha o (by simp))) (fun x hx => ha x (by simp [hx]))

/-- a trace `a ++ set k1 :: r` whose first part creates nothing below `p` and whose last part
never removes `k1` leaves `k1` as the first key below `p` -/
theorem first_of_staged {p : List String} {k1 : Key} {b : Blob} {a r : List Op} {s : KV}
    (hs : NoneUnder p s) (hk : under p k1 = true) (ha : ∀ x ∈ a, notInto p x = true)
    (hr : ∀ x ∈ r, keepsKey (some k1) x = true) :
    (keysUnder p (run s (a ++ Op.set k1 b :: r))).head? = some k1 := by
  rw [run_append, run_cons]
  exact first_run r _ (first_set (noneUnder_run a s hs ha) hk) hr

/-! ### staged traces -/

/-- when the program succeeds its trace is `a ++ o :: r` with `a` satisfying `S` and `r` satisfying `R` -/
def Staged {α} (S R : Op → Bool) (o : Op) (Pre : KV → Prop) (p : Prog α) : Prop :=
  ∀ s, Pre s → ∀ u, (p s).val = .ok u →
    ∃ a r, (p s).ops = a ++ o :: r ∧ (∀ x ∈ a, S x = true) ∧ (∀ x ∈ r, R x = true)

theorem Staged.bind_right {α β} {S R : Op → Bool} {o : Op} {Pre : KV → Prop} {p : Prog α}
    {f : α → Prog β} (hp : Staged S R o Pre p) (hf : ∀ a, All R (f a)) :
    Staged S R o Pre (p >>= f) := by
  intro s hs u hu
  change (Prog.bind p f s).val = .ok u at hu
  change ∃ a r, (Prog.bind p f s).ops = _ ∧ _
  rw [val_bind] at hu
  rw [ops_bind]
  cases hv : (p s).val with
  | error e => rw [hv] at hu; simp at hu
  | ok x =>
    obtain ⟨a, r, h1, h2, h3⟩ := hp s hs x hv
    refine ⟨a, r ++ (f x (run s (p s).ops)).ops, by simp [h1], h2, ?_⟩
    intro y hy
    rcases List.mem_append.1 hy with hy | hy
    · exact h3 y hy
    · exact hf x _ y hy

theorem Staged.bind_left {α β} {S R : Op → Bool} {o : Op} {Pre Pre' : KV → Prop} {p : Prog α}
    {f : α → Prog β} (hp : All S p) (hpre : ∀ s, Pre s → Pre' (run s (p s).ops))
    (hf : ∀ a, Staged S R o Pre' (f a)) : Staged S R o Pre (p >>= f) := by
  intro s hs u hu
  change (Prog.bind p f s).val = .ok u at hu
  change ∃ a r, (Prog.bind p f s).ops = _ ∧ _
  rw [val_bind] at hu
  rw [ops_bind]
  cases hv : (p s).val with
  | error e => rw [hv] at hu; simp at hu
  | ok x =>
    rw [hv] at hu
    obtain ⟨a, r, h1, h2, h3⟩ := hf x _ (hpre s hs) u hu
    refine ⟨(p s).ops ++ a, r, by simp [h1], ?_, h3⟩
    intro y hy
    rcases List.mem_append.1 hy with hy | hy
    · exact hp s y hy
    · exact h2 y hy

/-- what a program establishes when it succeeds -/
def Ensures {α} (K : KV → Prop) (p : Prog α) : Prop :=
  ∀ s u, (p s).val = .ok u → K (run s (p s).ops)

theorem Ensures.bind_right {α β} {K : KV → Prop} {A : Op → Bool} {p : Prog α} {f : α → Prog β}
    (hp : Ensures K p) (hf : ∀ a, All A (f a)) (hstep : ∀ s op, K s → A op = true → K (step s op)) :
    Ensures K (p >>= f) := by
  intro s u hu
  change (Prog.bind p f s).val = .ok u at hu
  change K (run s (Prog.bind p f s).ops)
  rw [val_bind] at hu
  rw [ops_bind]
  cases hv : (p s).val with
  | error e => rw [hv] at hu; simp at hu
  | ok x =>
    simp only [run_append]
    have h0 := hp s x hv
    exact (Crash.of_inv (I := K) (A := A) hstep _ _ h0 (hf x _)).final



theorem has_step_keeps {s : KV} {K : Key} {op : Op} (h : has s K = true)
    (ho : keepsKey (some K) op = true) : has (step s op) K = true := by
  unfold has at h ⊢
  rw [get_step]
  cases op with
  | set k b => by_cases hk : K = k <;> simp [hk]; simpa [hk] using h
  | setnx k b =>
    by_cases hk : K = k
    · subst hk; simp [has, h]
    · simpa [hk] using h
  | del k =>
    have : K ≠ k := by intro hh; subst hh; simp [keepsKey] at ho
    simpa [this] using h
  | delPrefix p =>
    have : under p K = false := by simpa [keepsKey] using ho
    simpa [this] using h
  | clear => simp [keepsKey] at ho

theorem dataOp_keepsRoot (f : Fmt) (prot : Option Key) (l : Leaf) (op : Op)
    (h : dataOp f prot op = true) : keepsKey (some ⟨[], l⟩) op = true := by
  cases op with
  | set k b => rfl
  | setnx k b => rfl
  | del k =>
    simp only [dataOp, Bool.and_eq_true, decide_eq_true_eq] at h
    have : k.path ≠ [] := by intro hh; have := h.1.2; rw [hh] at this; simp at this
    simp only [keepsKey, ne_eq, decide_eq_true_eq, Option.some.injEq]
    intro hh; apply this; rw [← hh]
  | delPrefix p =>
    simp only [dataOp, Bool.and_eq_true, decide_eq_true_eq] at h
    have hp : p ≠ [] := by intro hh; have := h.1.2; rw [hh] at this; simp at this
    cases p with
    | nil => exact absurd rfl hp
    | cons x xs => simp [keepsKey, under, List.isPrefixOf]
  | clear => simp [dataOp] at h

theorem dataOp_keeps (f : Fmt) (k1 : Key) (op : Op) (h : dataOp f (some k1) op = true) :
    keepsKey (some k1) op = true := by
  simp only [dataOp, Bool.and_eq_true] at h; exact h.2

theorem metadataWrite_sets (d : Docs) (geff : String) (prot : Option Key) :
    All (keepsKey prot) (metadataWrite d geff) := by
  unfold metadataWrite
  apply All.bind All.look; intro kv
  have : ∀ f doc, ∀ op ∈ rootMetaOps d f doc, keepsKey prot op = true := by
    intro f doc op hop
    cases f <;> simp [rootMetaOps] at hop
    · rcases hop with rfl | rfl <;> rfl
    · subst hop; rfl
  split
  · exact All.emit (this _ _)
  · exact All.emit (this _ _)

theorem Ensures.setup (d : Docs) (f : Fmt) : Ensures (fun s => has s (groupKey f []) = true) (setupZarrGroup d f) := by
  intro s u _
  unfold setupZarrGroup
  simp only [bind_def, ops_bind, ops_look, val_look, run_nil, List.nil_append]
  by_cases h : has s (groupKey f []) = true
  · simp [h, run_nil]
  · simp only [h]
    cases f <;> simp [groupDocs, run_cons, run_nil, step, groupKey, has, get_put_same, get_put_ne]

/-- **H1**: a completed body leaves the root group of format `f` in place -/
theorem writeBody_root (d : Docs) (kind : Kind) (f : Fmt) (g : G) :
    Ensures (fun s => has s (groupKey f []) = true) (writeBody d kind f g) := by
  have hstep : ∀ s op, has s (groupKey f []) = true → keepsKey (some (groupKey f [])) op = true →
      has (step s op) (groupKey f []) = true := fun s op h ho => has_step_keeps h ho
  have hk : ∀ prot op, dataOp f prot op = true → keepsKey (some (groupKey f [])) op = true := by
    intro prot op h; cases f <;> exact dataOp_keepsRoot _ prot _ op h
  unfold writeBody
  refine Ensures.bind_right ?_ (fun _ => metadataWrite_sets d g.geff _) hstep
  unfold writeData
  refine Ensures.bind_right ?_ (fun _ => All.bind
      ((All.writeOptProps_dataOp d kind f (prot := none) (Or.inl rfl) (Or.inl rfl) _).mono (hk none))
      (fun _ => (All.writeOptProps_dataOp d kind f (prot := none) (Or.inl rfl) (Or.inr rfl) _).mono (hk none))) hstep
  unfold writeIdArrays
  split
  · intro s u hu; simp at hu
  · refine Ensures.bind_right (Ensures.setup d f) (fun _ => All.bind
      ((All.createArray_dataOp d kind f pathOk_nodeIds _).mono (hk none))
      (fun _ => (All.createArray_dataOp d kind f (pathOk_edgeIds (Or.inl rfl)) _).mono (hk none))) hstep



theorem under_nodes_of_ids {k : Key} (h : under [NODES, IDS] k = true) : under [NODES] k = true := by
  obtain ⟨t, ht⟩ := under_prefix h
  simp [under, ← ht, List.isPrefixOf]

theorem deleteDir_noop_of_noneUnder (kind : Kind) (s : KV) (h : NoneUnder [NODES] s) :
    (deleteDir kind [NODES, IDS] s).ops = [] := by
  have hk : keysUnder [NODES, IDS] s = [] := by
    apply List.eq_nil_iff_forall_not_mem.2
    intro k hk
    obtain ⟨hu, b, hb⟩ := mem_keysUnder.1 hk
    have : k ∈ keysUnder [NODES] s := mem_keysUnder.2 ⟨under_nodes_of_ids hu, b, hb⟩
    rw [h] at this; simp at this
  cases kind with
  | mem => rw [deleteDir_mem_ops, hk]; rfl
  | loc =>
    simp only [deleteDir, bind_def, ops_bind, ops_look, val_look, run_nil, List.nil_append]
    have : (s.any fun e => under [NODES, IDS] e.1) = false := by
      apply Bool.eq_false_iff.2
      intro ha
      obtain ⟨e, he, hu⟩ := List.any_eq_true.1 ha
      have : e.1 ∈ keysUnder [NODES, IDS] s := mem_keysUnder.2 ⟨hu, e.2, he⟩
      rw [hk] at this; simp at this
    simp [this]
  | path =>
    simp only [deleteDir, bind_def, ops_bind, ops_look, val_look, run_nil, List.nil_append]
    have : (s.any fun e => under [NODES, IDS] e.1) = false := by
      apply Bool.eq_false_iff.2
      intro ha
      obtain ⟨e, he, hu⟩ := List.any_eq_true.1 ha
      have : e.1 ∈ keysUnder [NODES, IDS] s := mem_keysUnder.2 ⟨hu, e.2, he⟩
      rw [hk] at this; simp at this
    simp [this]

theorem ancestorsNx_keeps (d : Docs) (f : Fmt) (p : List String) (prot : Option Key) :
    ∀ x ∈ ancestorsNx d f p, keepsKey prot x = true := by
  intro x hx
  simp only [ancestorsNx, List.mem_flatMap, List.mem_map] at hx
  obtain ⟨_, _, e, _, rfl⟩ := hx
  rfl

theorem createArray_ok (d : Docs) (kind : Kind) (f : Fmt) (p : List String) (a : Arr) (s : KV)
    (hw : a.writable = true) :
    (createArray d kind f p a s).ops =
      (deleteDir kind p s).ops ++ (arrayMetaOps d f p a ++ (ancestorsNx d f p ++ chunkOps p a)) ∧
    (createArray d kind f p a s).val = .ok () := by
  unfold createArray
  simp [hw, bind_def, ops_bind, val_bind, deleteDir_val]

theorem createArray_err (d : Docs) (kind : Kind) (f : Fmt) (p : List String) (a : Arr) (s : KV)
    (hw : a.writable = false) :
    (createArray d kind f p a s).ops = [] ∧ ∃ e, (createArray d kind f p a s).val = .error e := by
  unfold createArray
  simp [hw]

/-- the trace of creating `nodes/ids` in a store with nothing below `nodes/` -/
theorem Staged.nodeIds (d : Docs) (kind : Kind) (f : Fmt) (a : Arr) :
    Staged (notInto [NODES]) (keepsKey (some (arrayKey f [NODES, IDS])))
      (.set (arrayKey f [NODES, IDS]) (.raw a.mdoc)) (NoneUnder [NODES])
      (createArray d kind f [NODES, IDS] a) := by
  intro s hs u hu
  cases hw : a.writable with
  | false =>
    obtain ⟨_, e, he⟩ := createArray_err d kind f [NODES, IDS] a s hw
    rw [he] at hu; simp at hu
  | true =>
    obtain ⟨hops, _⟩ := createArray_ok d kind f [NODES, IDS] a s hw
    rw [hops, deleteDir_noop_of_noneUnder kind s hs, List.nil_append]
    have hch : ∀ x ∈ chunkOps [NODES, IDS] a,
        keepsKey (some (arrayKey f [NODES, IDS])) x = true := by
      intro x hx
      simp only [chunkOps, List.mem_map] at hx
      obtain ⟨c, _, rfl⟩ := hx
      cases c.2 with
      | some b => rfl
      | none => cases f <;> simp [keepsKey, arrayKey]
    cases f with
    | v2 =>
      refine ⟨[], Op.set ⟨[NODES, IDS], .zattrs⟩ (.raw d.zattrs) ::
        (ancestorsNx d .v2 [NODES, IDS] ++ chunkOps [NODES, IDS] a), rfl, by simp, ?_⟩
      intro x hx
      simp only [List.mem_cons, List.mem_append] at hx
      rcases hx with rfl | hx | hx
      · rfl
      · exact ancestorsNx_keeps d _ _ _ x hx
      · exact hch x hx
    | v3 =>
      refine ⟨[], ancestorsNx d .v3 [NODES, IDS] ++ chunkOps [NODES, IDS] a, rfl, by simp, ?_⟩
      intro x hx
      simp only [List.mem_append] at hx
      rcases hx with hx | hx
      · exact ancestorsNx_keeps d _ _ _ x hx
      · exact hch x hx

theorem All.setup_notInto (d : Docs) (f : Fmt) (p : List String) (hp : p ≠ []) :
    All (notInto p) (setupZarrGroup d f) := by
  unfold setupZarrGroup
  apply All.bind All.look; intro kv
  split
  · exact All.pure ()
  · apply All.emit
    intro op hop
    simp only [List.mem_map] at hop
    obtain ⟨e, he, rfl⟩ := hop
    rcases groupDocs_spec d f [] e he with ⟨_, h2, _, _⟩ | ⟨h1, _, _⟩
    · cases p with
      | nil => exact absurd rfl hp
      | cons x xs => simp [notInto, under, h2, List.isPrefixOf]
    · exact absurd rfl h1

/-- the trace of a completed body started with nothing below `nodes/` -/
theorem Staged.writeBody (d : Docs) (kind : Kind) (f : Fmt) (g : G) :
    Staged (notInto [NODES]) (keepsKey (some (arrayKey f [NODES, IDS])))
      (.set (arrayKey f [NODES, IDS]) (.raw g.nodeIds.mdoc)) (NoneUnder [NODES])
      (writeBody d kind f g) := by
  have hprot : ProtOk (some (arrayKey f [NODES, IDS])) := by
    right; cases f <;> exact ⟨_, rfl⟩
  unfold Geff.KV.writeBody
  refine Staged.bind_right ?_ (fun _ => metadataWrite_sets d g.geff _)
  unfold writeData
  refine Staged.bind_right ?_ (fun _ => All.bind
      ((All.writeOptProps_dataOp d kind f hprot (Or.inl rfl) _).mono (dataOp_keeps f _))
      (fun _ => (All.writeOptProps_dataOp d kind f hprot (Or.inr rfl) _).mono (dataOp_keeps f _)))
  unfold writeIdArrays
  split
  · intro s _ u hu; simp at hu
  · refine Staged.bind_left (Pre' := NoneUnder [NODES]) (All.setup_notInto d f [NODES] (by simp))
      (fun s hs => noneUnder_run _ s hs (All.setup_notInto d f [NODES] (by simp) s)) (fun _ => ?_)
    exact Staged.bind_right (Staged.nodeIds d kind f g.nodeIds)
      (fun _ => (All.createArray_dataOp d kind f (pathOk_edgeIds hprot) _).mono (dataOp_keeps f _))

/-- **H2**: the store a completed body leaves behind is `DeleteSafe`: the first key of `nodes/` is
the metadata document of `nodes/ids` -/
theorem writeBody_deleteSafe (d : Docs) (kind : Kind) (f : Fmt) (g : G) (s : KV)
    (hs : NoneUnder [NODES] s) (u : Unit) (hu : (writeBody d kind f g s).val = .ok u) :
    DeleteSafe f (run s (writeBody d kind f g s).ops) := by
  obtain ⟨a, r, h1, h2, h3⟩ := Staged.writeBody d kind f g s hs u hu
  have hk : under [NODES] (arrayKey f [NODES, IDS]) = true := by cases f <;> simp [under, arrayKey, List.isPrefixOf]
  have := first_of_staged (b := .raw g.nodeIds.mdoc) hs hk h2 h3
  rw [← h1] at this
  intro k hk'
  rw [this] at hk'
  right
  exact (Option.some.inj hk').symm

/-! ### what `delete_geff` leaves behind -/

theorem look_bind {β} (f : KV → Prog β) (s : KV) : (Prog.look >>= f) s = f s s := by
  change Prog.bind Prog.look f s = f s s
  unfold Prog.bind
  simp [Prog.look, run_nil]

theorem delGeffAttr_some (d : Docs) (f : Fmt) (s : KV) (g o : String)
    (h : get s (rootDocKey f) = some (.root (some g) o)) :
    delGeffAttr d f s = ⟨rootMetaOps d f (.root none o), .ok ()⟩ := by
  unfold delGeffAttr; rw [look_bind]; simp only [h]; rfl

theorem delGeffAttr_err (d : Docs) (f : Fmt) (s : KV)
    (h : ∀ g o, get s (rootDocKey f) ≠ some (.root (some g) o)) :
    delGeffAttr d f s = ⟨[], .error (.other "KeyError")⟩ := by
  unfold delGeffAttr; rw [look_bind]
  rcases hg : get s (rootDocKey f) with _ | b
  · rfl
  · cases b with
    | raw _ => rfl
    | root g o =>
      cases g with
      | none => rfl
      | some g => exact absurd hg (h g o)

theorem rootMetaOps_noGeff_final (d : Docs) (f : Fmt) (s : KV) (o : String) :
    geffAttrIn f (run s (rootMetaOps d f (.root none o))) = none := by
  cases f <;> simp [rootMetaOps, run_cons, run_nil, step, geffAttrIn, rootDocKey, get_put_same]

theorem delGeffAttr_noGeff (d : Docs) (f : Fmt) (s : KV) (u : Unit)
    (h : (delGeffAttr d f s).val = .ok u) : geffAttrIn f (run s (delGeffAttr d f s).ops) = none := by
  by_cases hg : ∃ g o, get s (rootDocKey f) = some (.root (some g) o)
  · obtain ⟨g, o, hg⟩ := hg
    rw [delGeffAttr_some d f s g o hg]
    exact rootMetaOps_noGeff_final d f s o
  · rw [delGeffAttr_err d f s (fun g o hh => hg ⟨g, o, hh⟩)] at h
    simp at h

theorem deleteRoot_eq (d : Docs) (kind : Kind) (f : Fmt) (s : KV) :
    deleteRoot d kind f s =
      if (members f s).isEmpty ∧ kind = .path then ⟨[.clear], .ok ()⟩ else delGeffAttr d f s := by
  unfold deleteRoot; rw [look_bind]
  by_cases hm : (members f s).isEmpty = true
  · cases kind <;> simp [hm] <;> rfl
  · simp [hm]

theorem deleteRoot_noGeff (d : Docs) (kind : Kind) (f : Fmt) (s : KV) (u : Unit)
    (h : (deleteRoot d kind f s).val = .ok u) : geffAttrIn f (run s (deleteRoot d kind f s).ops) = none := by
  rw [deleteRoot_eq] at h ⊢
  split
  · simp [run_cons, run_nil, step, geffAttrIn]
  · rename_i hc; simp only [hc, if_false] at h
    exact delGeffAttr_noGeff d f s u h

/-- a completed `delete_geff` leaves no geff attribute -/
theorem deleteGeff_noGeff (d : Docs) (kind : Kind) (f : Fmt) (s : KV) (u : Unit)
    (h : (deleteGeff d kind f s).val = .ok u) :
    geffAttrIn f (run s (deleteGeff d kind f s).ops) = none := by
  unfold deleteGeff at h ⊢
  simp only [bind_def, ops_bind, val_bind, deleteDir_val] at h ⊢
  cases hs : (setupZarrGroup d f s).val with
  | error e => rw [hs] at h; simp at h
  | ok x =>
    rw [hs] at h
    simp only [hs, run_append] at h ⊢
    exact deleteRoot_noGeff d kind f _ u h

theorem get_isSome_of_mem (s : KV) (k : Key) (b : Blob) (h : (k, b) ∈ s) : (get s k).isSome = true := by
  induction s with
  | nil => simp at h
  | cons e r ih =>
    obtain ⟨k₀, b₀⟩ := e
    by_cases h0 : k₀ = k
    · simp [get, h0]
    · simp only [List.mem_cons, Prod.mk.injEq] at h
      rcases h with ⟨rfl, _⟩ | h
      · exact absurd rfl h0
      · simp [get, h0, ih h]

theorem noneUnder_of_get {p : List String} {s : KV} (h : ∀ k, under p k = true → get s k = none) :
    NoneUnder p s := by
  apply List.eq_nil_iff_forall_not_mem.2
  intro k hk
  obtain ⟨hu, b, hb⟩ := mem_keysUnder.1 hk
  have := get_isSome_of_mem s k b hb
  rw [h k hu] at this; simp at this

theorem get_of_noneUnder {p : List String} {s : KV} (h : NoneUnder p s) (k : Key)
    (hu : under p k = true) : get s k = none := by
  apply get_eq_none_of_not_mem
  intro e he hek
  have : k ∈ keysUnder p s := mem_keysUnder.2 ⟨hu, e.2, by rw [← hek]; exact he⟩
  rw [h] at this; simp at this

theorem rootOnly_notInto (p : List String) (hp : p ≠ []) (op : Op) (h : rootOnlySets op = true) :
    notInto p op = true := by
  cases p with
  | nil => exact absurd rfl hp
  | cons x xs =>
    cases op with
    | set k b => simp [rootOnlySets] at h; simp [notInto, under, h, List.isPrefixOf]
    | setnx k b => simp [rootOnlySets] at h; simp [notInto, under, h, List.isPrefixOf]
    | del k => rfl
    | delPrefix q => rfl
    | clear => rfl

/-- … and nothing below `nodes/` -/
theorem deleteGeff_noneUnder (d : Docs) (kind : Kind) (f : Fmt) (s : KV)
    (hroot : has s (groupKey f []) = true) :
    NoneUnder [NODES] (run s (deleteGeff d kind f s).ops) := by
  obtain ⟨hs1, hs2⟩ := setup_noop d f s hroot
  unfold deleteGeff
  simp only [bind_def, ops_bind, val_bind, hs1, hs2, run_nil, List.nil_append, deleteDir_val, run_append]
  have h0 : NoneUnder [NODES] (run s (deleteDir kind [NODES] s).ops) :=
    noneUnder_of_get (fun k hu => by rw [deleteDir_get]; simp [hu])
  have hE := (All.deleteDir_rootOnly kind [EDGES]).mono (rootOnly_notInto [NODES] (by simp))
  have hR := (All.deleteRoot_rootOnly d kind f).mono (rootOnly_notInto [NODES] (by simp))
  exact noneUnder_run _ _ (noneUnder_run _ _ h0 (hE _)) (hR _)

end Geff.KV
