import GeffModel.CtcTable
/-! Helper lemmas for the track-table parser (`GeffModel/CtcTable.lean`): splitting, tokens, decimal
rendering, and the line-level round trip behind `GeffProps.C15Table`. -/
namespace Geff.CtcTable

/-! ## `splitP` -/

theorem splitP_nosep (p : Nat → Bool) : ∀ l : List Nat, (∀ c ∈ l, p c = false) → splitP p l = [l]
  | [], _ => rfl
  | c :: l, h => by
    have hc : p c = false := h c (by simp)
    simp [splitP, hc, splitP_nosep p l (fun d hd => h d (by simp [hd]))]

theorem splitP_append (p : Nat → Bool) (s : Nat) (r : List Nat) (hs : p s = true) :
    ∀ l : List Nat, (∀ c ∈ l, p c = false) → splitP p (l ++ s :: r) = l :: splitP p r
  | [], _ => by simp [splitP, hs]
  | c :: l, h => by
    have hc : p c = false := h c (by simp)
    simp [splitP, hc, splitP_append p s r hs l (fun d hd => h d (by simp [hd]))]

/-! ## tokens -/

theorem tokens_nil : tokens [] = [] := rfl

theorem tokens_ws_cons (c : Nat) (r : List Nat) (hc : isWs c = true) : tokens (c :: r) = tokens r := by
  simp [tokens, splitP, hc]

theorem tokens_ws_append : ∀ (w r : List Nat), (∀ c ∈ w, isWs c = true) → tokens (w ++ r) = tokens r
  | [], _, _ => rfl
  | c :: w, r, h => by
    rw [List.cons_append, tokens_ws_cons _ _ (h c (by simp))]
    exact tokens_ws_append w r (fun d hd => h d (by simp [hd]))

theorem tokens_tok_sep (t : List Nat) (s : Nat) (r : List Nat) (hne : t ≠ [])
    (ht : ∀ c ∈ t, isWs c = false) (hs : isWs s = true) : tokens (t ++ s :: r) = t :: tokens r := by
  unfold tokens
  rw [splitP_append isWs s r hs t ht]
  cases t with
  | nil => exact absurd rfl hne
  | cons a t => simp

theorem tokens_tok (t : List Nat) (hne : t ≠ []) (ht : ∀ c ∈ t, isWs c = false) : tokens t = [t] := by
  unfold tokens
  rw [splitP_nosep isWs t ht]
  cases t with
  | nil => exact absurd rfl hne
  | cons a t => simp

theorem tokens_tok_ws (t w : List Nat) (hne : t ≠ []) (ht : ∀ c ∈ t, isWs c = false)
    (hw : ∀ c ∈ w, isWs c = true) : tokens (t ++ w) = [t] := by
  cases w with
  | nil => simpa using tokens_tok t hne ht
  | cons s w =>
    rw [tokens_tok_sep t s w hne ht (hw s (by simp))]
    have := tokens_ws_append w [] (fun d hd => hw d (by simp [hd]))
    simp only [List.append_nil] at this
    rw [this, tokens_nil]

/-! ## decimal rendering -/

/-- characters of a rendered integer: digits and `-` -/
def tokChar (c : Nat) : Prop := (48 ≤ c ∧ c ≤ 57) ∨ c = 45

theorem tokChar_facts {c : Nat} (h : tokChar c) :
    isWs c = false ∧ isNl c = false ∧ c ≠ 35 ∧ c ≠ 13 ∧ c ≠ 10 ∧ supported c = true := by
  unfold tokChar at h
  unfold isWs isNl supported
  refine ⟨?_, ?_, ?_, ?_, ?_, ?_⟩ <;> simp <;> omega

theorem decimal_digits : ∀ (fuel n : Nat), ∀ c ∈ decimal fuel n, 48 ≤ c ∧ c ≤ 57
  | 0, _, c, h => by simp [decimal] at h
  | fuel + 1, n, c, h => by
    unfold decimal at h
    split at h
    · simp at h; omega
    · rcases List.mem_append.1 h with h | h
      · exact decimal_digits fuel _ c h
      · simp at h; omega

theorem decimal_ne_nil (fuel n : Nat) : decimal (fuel + 1) n ≠ [] := by
  unfold decimal
  split <;> simp

theorem digitsVal_snoc (xs : List Nat) (d : Nat) : digitsVal (xs ++ [d]) = digitStep (digitsVal xs) d := by
  simp [digitsVal, List.foldl_append]

theorem digitsVal_decimal : ∀ (fuel n : Nat), n < fuel → digitsVal (decimal fuel n) = some n
  | 0, _, h => by omega
  | fuel + 1, n, h => by
    unfold decimal
    split
    · rename_i h10
      have : isDigit (48 + n) = true := by simp [isDigit]; omega
      simp [digitsVal, digitStep, this]
    · rename_i h10
      rw [digitsVal_snoc, digitsVal_decimal fuel (n / 10) (by omega)]
      have : isDigit (48 + n % 10) = true := by simp [isDigit]; omega
      simp only [digitStep, Option.bind_some, this, if_true]
      congr 1
      omega

theorem renderNat_digits (n : Nat) : ∀ c ∈ renderNat n, 48 ≤ c ∧ c ≤ 57 := decimal_digits _ _

theorem renderNat_ne_nil (n : Nat) : renderNat n ≠ [] := decimal_ne_nil _ _

theorem digitsVal_renderNat (n : Nat) : digitsVal (renderNat n) = some n :=
  digitsVal_decimal (n + 1) n (by omega)

theorem renderInt_tokChar (i : Int) : ∀ c ∈ renderInt i, tokChar c := by
  intro c hc
  cases i with
  | ofNat n => exact Or.inl (renderNat_digits n c hc)
  | negSucc n =>
    simp only [renderInt, List.mem_cons] at hc
    rcases hc with rfl | hc
    · exact Or.inr rfl
    · exact Or.inl (renderNat_digits _ c hc)

theorem renderInt_ne_nil (i : Int) : renderInt i ≠ [] := by
  cases i with
  | ofNat n => exact renderNat_ne_nil n
  | negSucc n => simp [renderInt]

theorem checkRange_of (i : Int) (hi : inInt64 i = true) : checkRange i = some i := by
  unfold checkRange; rw [hi]; rfl

theorem parseInt_of (tok : List Nat) (neg : Bool) (ds : List Nat) (n : Nat)
    (hs : signSplit tok = (neg, ds)) (hemp : ds.isEmpty = false) (hv : digitsVal ds = some n) :
    parseInt tok = checkRange (mkInt neg n) := by
  unfold parseInt
  rw [hs]
  simp only [hemp, hv, Bool.false_eq_true, if_false, Option.bind_some]

theorem signSplit_neg (r : List Nat) : signSplit (45 :: r) = (true, r) := by simp [signSplit]

theorem signSplit_digit (a : Nat) (r : List Nat) (h45 : a ≠ 45) (h43 : a ≠ 43) :
    signSplit (a :: r) = (false, a :: r) := by simp [signSplit, h45, h43]

theorem mkInt_neg (n : Nat) : mkInt true (n + 1) = Int.negSucc n := rfl
theorem mkInt_pos (n : Nat) : mkInt false n = Int.ofNat n := rfl

theorem parseInt_renderInt (i : Int) (hi : inInt64 i = true) : parseInt (renderInt i) = some i := by
  cases i with
  | ofNat n =>
    have hne := renderNat_ne_nil n
    have hd := renderNat_digits n
    have hv := digitsVal_renderNat n
    simp only [renderInt]
    generalize renderNat n = r at *
    cases r with
    | nil => exact absurd rfl hne
    | cons a r =>
      have ha := hd a (by simp)
      rw [parseInt_of _ _ _ _ (signSplit_digit a r (by omega) (by omega)) rfl hv, mkInt_pos,
        checkRange_of _ hi]
  | negSucc n =>
    have hne := renderNat_ne_nil (n + 1)
    have hv := digitsVal_renderNat (n + 1)
    have hemp : (renderNat (n + 1)).isEmpty = false := by
      cases h : renderNat (n + 1) with
      | nil => exact absurd h hne
      | cons a r => rfl
    simp only [renderInt]
    rw [parseInt_of _ _ _ _ (signSplit_neg _) hemp hv, mkInt_neg, checkRange_of _ hi]

theorem mapM?_map_some {α β : Type} (f : α → Option β) (g : β → α) :
    ∀ l : List β, (∀ x ∈ l, f (g x) = some x) → mapM? f (l.map g) = some l
  | [], _ => rfl
  | x :: xs, h => by
    simp [mapM?, h x (by simp), mapM?_map_some f g xs (fun y hy => h y (by simp [hy]))]

/-! ## one row -/

theorem renderRowWith_chars (sep : List Nat) : ∀ (r : List Int), ∀ c ∈ renderRowWith sep r,
    tokChar c ∨ c ∈ sep
  | [], c, h => by simp [renderRowWith] at h
  | [x], c, h => Or.inl (renderInt_tokChar x c h)
  | x :: y :: xs, c, h => by
    simp only [renderRowWith, List.mem_append] at h
    rcases h with (h | h) | h
    · exact Or.inl (renderInt_tokChar x c h)
    · exact Or.inr h
    · exact renderRowWith_chars sep (y :: xs) c h

theorem tokens_renderRowWith (s : Nat) (ss trail : List Nat) (hs : isWs s = true)
    (hss : ∀ c ∈ ss, isWs c = true) (htr : ∀ c ∈ trail, isWs c = true) :
    ∀ r : List Int, tokens (renderRowWith (s :: ss) r ++ trail) = r.map renderInt
  | [] => by
    have := tokens_ws_append trail [] htr
    simpa [renderRowWith, tokens_nil] using this
  | [x] => by
    simp only [renderRowWith, List.map_cons, List.map_nil]
    exact tokens_tok_ws _ _ (renderInt_ne_nil x) (fun c hc => (tokChar_facts (renderInt_tokChar x c hc)).1) htr
  | x :: y :: xs => by
    simp only [renderRowWith, List.map_cons, List.append_assoc, List.cons_append]
    rw [tokens_tok_sep _ s _ (renderInt_ne_nil x)
      (fun c hc => (tokChar_facts (renderInt_tokChar x c hc)).1) hs, tokens_ws_append ss _ hss]
    have := tokens_renderRowWith s ss trail hs hss htr (y :: xs)
    simp only [List.map_cons] at this
    rw [this]

/-! ## lines -/

/-- well-formed layout: white space is space/tab, the separator is not empty, comments stay on their
line and inside the supported characters -/
def Line.WF : Line → Prop
  | .row lead sep trail c _ =>
    (∀ x ∈ lead, isWs x = true) ∧ sep ≠ [] ∧ (∀ x ∈ sep, isWs x = true) ∧ (∀ x ∈ trail, isWs x = true) ∧
    (∀ cm, c = some cm → ∀ x ∈ cm, supported x = true ∧ x ≠ 10 ∧ x ≠ 13)
  | .blank ws c =>
    (∀ x ∈ ws, isWs x = true) ∧ (∀ cm, c = some cm → ∀ x ∈ cm, supported x = true ∧ x ≠ 10 ∧ x ≠ 13)

theorem isWs_facts {c : Nat} (h : isWs c = true) :
    isNl c = false ∧ c ≠ 35 ∧ c ≠ 13 ∧ c ≠ 10 ∧ supported c = true := by
  unfold isWs at h
  unfold isNl supported
  simp at h
  refine ⟨?_, ?_, ?_, ?_, ?_⟩ <;> simp <;> omega

/-- the part of a line before the comment -/
def Line.body : Line → List Nat
  | .row lead sep trail _ vals => lead ++ renderRowWith sep vals ++ trail
  | .blank ws _ => ws

def Line.comment : Line → Option (List Nat)
  | .row _ _ _ c _ => c
  | .blank _ c => c

theorem Line.text_eq (l : Line) : l.text = l.body ++ renderComment l.comment := by
  cases l <;> rfl

theorem Line.body_chars (l : Line) (h : l.WF) : ∀ c ∈ l.body, tokChar c ∨ isWs c = true := by
  intro c hc
  cases l with
  | row lead sep trail cm vals =>
    obtain ⟨h1, _, h3, h4, _⟩ := h
    simp only [Line.body, List.mem_append] at hc
    rcases hc with (hc | hc) | hc
    · exact Or.inr (h1 c hc)
    · rcases renderRowWith_chars sep vals c hc with h | h
      · exact Or.inl h
      · exact Or.inr (h3 c h)
    · exact Or.inr (h4 c hc)
  | blank ws cm => exact Or.inr (h.1 c hc)

theorem Line.text_chars (l : Line) (h : l.WF) :
    ∀ c ∈ l.text, isNl c = false ∧ c ≠ 13 ∧ supported c = true := by
  intro c hc
  rw [Line.text_eq, List.mem_append] at hc
  rcases hc with hc | hc
  · rcases Line.body_chars l h c hc with h | h
    · have := tokChar_facts h; exact ⟨this.2.1, this.2.2.2.1, this.2.2.2.2.2⟩
    · have := isWs_facts h; exact ⟨this.1, this.2.2.1, this.2.2.2.2⟩
  · have hcm : ∀ cm, l.comment = some cm → ∀ x ∈ cm, supported x = true ∧ x ≠ 10 ∧ x ≠ 13 := by
      cases l with
      | row lead sep trail cm vals => exact h.2.2.2.2
      | blank ws cm => exact h.2
    cases hcomm : l.comment with
    | none => rw [hcomm] at hc; simp [renderComment] at hc
    | some cm =>
      rw [hcomm] at hc
      simp only [renderComment, List.mem_cons] at hc
      rcases hc with rfl | hc
      · decide
      · obtain ⟨a, b, c'⟩ := hcm cm hcomm c hc
        exact ⟨by simp [isNl, b], c', a⟩

theorem takeWhile_append_stop (p : Nat → Bool) (r : List Nat) (hr : ∀ x xs, r = x :: xs → p x = false) :
    ∀ l : List Nat, (∀ c ∈ l, p c = true) → List.takeWhile p (l ++ r) = l
  | [], _ => by
    cases r with
    | nil => rfl
    | cons x xs => simp [List.takeWhile, hr x xs rfl]
  | c :: l, h => by
    simp [List.takeWhile, h c (by simp), takeWhile_append_stop p r hr l (fun d hd => h d (by simp [hd]))]

theorem stripComment_text (l : Line) (h : l.WF) : stripComment l.text = l.body := by
  rw [Line.text_eq]
  have hb : ∀ c ∈ l.body, (c != 35) = true := by
    intro c hc
    rcases Line.body_chars l h c hc with h | h
    · simpa using (tokChar_facts h).2.2.1
    · simpa using (isWs_facts h).2.1
  unfold stripComment
  apply takeWhile_append_stop _ _ _ _ hb
  intro x xs hx
  cases hc : l.comment with
  | none => rw [hc] at hx; simp [renderComment] at hx
  | some cm =>
    rw [hc] at hx
    simp only [renderComment, List.cons.injEq] at hx
    rw [← hx.1]; rfl

/-- the tokens of a laid-out line are the rendered values of its row (none for a blank line) -/
theorem tokens_line (l : Line) (h : l.WF) :
    tokens (stripComment l.text) = (l.vals?.getD []).map renderInt := by
  rw [stripComment_text l h]
  cases l with
  | row lead sep trail cm vals =>
    obtain ⟨h1, h2, h3, h4, _⟩ := h
    cases sep with
    | nil => exact absurd rfl h2
    | cons s ss =>
      simp only [Line.body, List.append_assoc, Line.vals?, Option.getD_some]
      rw [tokens_ws_append lead _ h1]
      exact tokens_renderRowWith s ss trail (h3 s (by simp)) (fun c hc => h3 c (by simp [hc])) h4 vals
  | blank ws cm =>
    have := tokens_ws_append ws [] h.1
    simpa [Line.body, Line.vals?, tokens_nil] using this

/-! ## the whole text -/

theorem universalNewlines_append (r : List Nat) : ∀ l : List Nat, (∀ c ∈ l, c ≠ 13 ∧ c ≠ 10) →
    universalNewlines (l ++ r) = l ++ universalNewlines r
  | [], _ => rfl
  | c :: l, h => by
    have hc := h c (by simp)
    have ih := universalNewlines_append r l (fun d hd => h d (by simp [hd]))
    unfold universalNewlines at ih ⊢
    simp [unl, hc.1, hc.2, ih]

theorem universalNewlines_lf (r : List Nat) : universalNewlines (10 :: r) = 10 :: universalNewlines r := by
  simp [universalNewlines, unl]

theorem universalNewlines_crlf (r : List Nat) :
    universalNewlines (13 :: 10 :: r) = 10 :: universalNewlines r := by
  simp [universalNewlines, unl]

theorem renderLines_cons (eol : List Nat) (final : Bool) (l : Line) (rest : List Line) (h : rest ≠ []) :
    renderLines eol final (l :: rest) = l.text ++ (eol ++ renderLines eol final rest) := by
  cases rest with
  | nil => exact absurd rfl h
  | cons l' ls => simp [renderLines]

theorem universalNewlines_lines (eol : List Nat) (heol : eol = [10] ∨ eol = [13, 10]) (final : Bool)
    (lines : List Line) (h : ∀ l ∈ lines, l.WF) :
    universalNewlines (renderLines eol final lines) = renderLines [10] final lines := by
  induction lines with
  | nil => rfl
  | cons l rest ih =>
    have hl := Line.text_chars l (h l (by simp))
    have ih := ih (fun x hx => h x (by simp [hx]))
    by_cases hr : rest = []
    · subst hr
      simp only [renderLines]
      rw [universalNewlines_append _ _ (fun c hc => ⟨(hl c hc).2.1, by simpa [isNl] using (hl c hc).1⟩)]
      cases final
      · simp [universalNewlines, unl]
      · rcases heol with rfl | rfl <;> simp [universalNewlines, unl]
    · rw [renderLines_cons _ _ _ _ hr, renderLines_cons _ _ _ _ hr,
        universalNewlines_append _ _ (fun c hc => ⟨(hl c hc).2.1, by simpa [isNl] using (hl c hc).1⟩)]
      rcases heol with rfl | rfl
      · simp only [List.cons_append, List.nil_append, universalNewlines_lf, ih]
      · simp only [List.cons_append, List.nil_append, universalNewlines_crlf, ih]

/-- token rows of the rendered text = token rows line by line (an empty last piece adds nothing) -/
theorem tokenRows_lines (final : Bool) (lines : List Line) (h : ∀ l ∈ lines, l.WF) :
    ((splitP isNl (renderLines [10] final lines)).map (fun l => tokens (stripComment l))).filter
        (fun r => !r.isEmpty) =
      (lines.map (fun l => (l.vals?.getD []).map renderInt)).filter (fun r => !r.isEmpty) := by
  have e : tokens (stripComment []) = [] := rfl
  induction lines with
  | nil => simp [renderLines, splitP, e]
  | cons l rest ih =>
    have hwf := h l (by simp)
    have hl := Line.text_chars l hwf
    have ih := ih (fun x hx => h x (by simp [hx]))
    by_cases hr : rest = []
    · subst hr
      simp only [renderLines]
      cases final
      · simp only [Bool.false_eq_true, if_false, List.append_nil]
        rw [splitP_nosep isNl _ (fun c hc => (hl c hc).1)]
        simp only [List.map_cons, List.map_nil, tokens_line l hwf]
      · simp only [if_true]
        rw [splitP_append isNl 10 [] rfl _ (fun c hc => (hl c hc).1)]
        simp only [splitP, List.map_cons, List.map_nil, tokens_line l hwf, e]
        simp [List.filter_cons]
    · rw [renderLines_cons _ _ _ _ hr]
      simp only [List.cons_append, List.nil_append]
      rw [splitP_append isNl 10 _ rfl _ (fun c hc => (hl c hc).1)]
      simp only [List.map_cons, tokens_line l hwf, List.filter_cons]
      rw [ih]

theorem renderLines_supported (eol : List Nat) (heol : eol = [10] ∨ eol = [13, 10]) (final : Bool)
    (lines : List Line) (h : ∀ l ∈ lines, l.WF) : ∀ c ∈ renderLines eol final lines, supported c = true := by
  have he : ∀ c ∈ eol, supported c = true := by
    rcases heol with rfl | rfl <;> decide
  induction lines with
  | nil => simp [renderLines]
  | cons l rest ih =>
    have hl := Line.text_chars l (h l (by simp))
    have ih := ih (fun x hx => h x (by simp [hx]))
    intro c hc
    by_cases hr : rest = []
    · subst hr
      simp only [renderLines, List.mem_append] at hc
      rcases hc with hc | hc
      · exact (hl c hc).2.2
      · cases final
        · simp at hc
        · exact he c (by simpa using hc)
    · rw [renderLines_cons _ _ _ _ hr] at hc
      simp only [List.mem_append] at hc
      rcases hc with hc | hc | hc
      · exact (hl c hc).2.2
      · exact he c hc
      · exact ih c hc

theorem vals?_row (a b c : List Nat) (d : Option (List Nat)) (v : List Int) :
    (Line.row a b c d v).vals? = some v := rfl
theorem vals?_blank (a : List Nat) (d : Option (List Nat)) : (Line.blank a d).vals? = none := rfl

theorem rows_of_lines (lines : List Line) (hne : ∀ r ∈ lines.filterMap Line.vals?, r ≠ []) :
    (lines.map (fun l => (l.vals?.getD []).map renderInt)).filter (fun r => !r.isEmpty) =
      (lines.filterMap Line.vals?).map (fun r => r.map renderInt) := by
  induction lines with
  | nil => rfl
  | cons l rest ih =>
    cases l with
    | row lead sep trail cm vals =>
      have hv : vals ≠ [] := hne vals (by simp [vals?_row])
      have ih := ih (fun r hr => hne r (by simp only [List.filterMap_cons, vals?_row]; exact List.mem_cons_of_mem _ hr))
      cases vals with
      | nil => exact absurd rfl hv
      | cons v vs =>
        simp only [List.map_cons, vals?_row, Option.getD_some, List.filterMap_cons, List.filter_cons]
        simp [ih]
    | blank ws cm =>
      have ih := ih (fun r hr => hne r (by simpa [vals?_blank] using hr))
      simp only [List.map_cons, vals?_blank, Option.getD_none, List.filterMap_cons, List.map_nil,
        List.filter_cons]
      simpa using ih

/-- the round trip for every laid-out table -/
theorem parseTable_renderLines (eol : List Nat) (heol : eol = [10] ∨ eol = [13, 10]) (final : Bool)
    (lines : List Line) (hwf : ∀ l ∈ lines, l.WF)
    (hne : ∀ r ∈ lines.filterMap Line.vals?, r ≠ [])
    (hrange : ∀ r ∈ lines.filterMap Line.vals?, ∀ x ∈ r, inInt64 x = true)
    (hcols : ∀ r ∈ lines.filterMap Line.vals?, ∀ r' ∈ lines.filterMap Line.vals?, r.length = r'.length) :
    parseTable (renderLines eol final lines) = .ok (lines.filterMap Line.vals?) := by
  have hsup : (renderLines eol final lines).all supported = true :=
    List.all_eq_true.2 (renderLines_supported eol heol final lines hwf)
  have htok : tokenRows (renderLines eol final lines) =
      (lines.filterMap Line.vals?).map (fun r => r.map renderInt) := by
    unfold tokenRows
    rw [universalNewlines_lines eol heol final lines hwf, tokenRows_lines final lines hwf,
      rows_of_lines lines hne]
  have hparse : mapM? (mapM? parseInt) ((lines.filterMap Line.vals?).map (fun r => r.map renderInt)) =
      some (lines.filterMap Line.vals?) :=
    mapM?_map_some _ _ _ (fun r hr => mapM?_map_some _ _ _ (fun x hx => parseInt_renderInt x (hrange r hr x hx)))
  unfold parseTable
  rw [hsup, htok, hparse]
  simp only [Bool.true_eq_false, if_false]
  generalize hrows : lines.filterMap Line.vals? = rows at *
  cases rows with
  | nil => rfl
  | cons r rs =>
    have : rs.all (fun r' => decide (r'.length = r.length)) = true := by
      rw [List.all_eq_true]
      intro r' hr'
      simpa using hcols r' (by simp [hr']) r (by simp)
    simp only [this, if_true]

theorem render_eq_renderLines : ∀ rows : List (List Int),
    render rows = renderLines [10] true (rows.map (fun r => Line.row [] [32] [] none r))
  | [] => rfl
  | [r] => by simp [render, renderLines, Line.text, renderComment]
  | r :: r' :: rs => by
    have ih := render_eq_renderLines (r' :: rs)
    simp only [List.map_cons] at ih
    simp only [render, List.map_cons, renderLines] at ih ⊢
    rw [ih]
    simp [Line.text, renderComment]

end Geff.CtcTable
