import GeffProofs.LinkStoreArr
import GeffProofs.PartialRead
/-! Integration layer, link C09 ← C01 (part 1): the translation between the two store abstractions —
C01's flat path → entry store (`Geff.Store.St`, read with C01's own `readMeta` / `propNames` /
`readProps`) seen as C09's store *contents* (`Geff.PRead.Store`: ids, rows, masks, flat data,
metadata): `absStore`; C01's `ReadResult` seen as C09's `InMem`: `memOf`; and the agreement of the two
var-length decoders (C09's row-wise `deserialize` against the full data array, C11's / C01's
`deserializeVlen`).  No model of geff is introduced: translation functions and lemmas only. -/
namespace Geff.Link
open Geff.Np Geff.Store
open Geff.WR (PropArr PVals Props ReadResult lookupKey Writable RowsOK upcast)
open Gen.Paths (NODES EDGES IDS PROPS VALUES MISSING DATA)

/-! ### C01's flat store / read result as C09's store contents / in-memory geff -/

/-- a stored array with a leading axis as C09 sees it: trailing shape and one row per element -/
def arrOfNd (a : NdArr) : Option Geff.PRead.Arr :=
  match a.shape with
  | [] => none
  | n :: tr => some ⟨tr, chunks (prod tr) n a.flat⟩

/-- the arrays of one property group (`_read_prop`) as C09's `ZarrPropDict` -/
def zpOf (z : Geff.WR.ZarrProp) : Option Geff.PRead.ZarrProp :=
  match arrOfNd z.values, maskBack z.missing with
  | some v, some m => some ⟨v, m, z.data.map (·.flat)⟩
  | _, _ => none

/-- one stored metadata entry as the reader uses it (dtype name parsed, `varlength` defaulted, the rest —
here the identifier — carried as the opaque token) -/
def pmOf (pm : Geff.Store.PropMeta) : Option Geff.PRead.PropMeta :=
  (Dtype.ofName? pm.dtype).map fun d => ⟨d, pm.varlength.getD false, pm.identifier⟩

/-- a loaded property as C09's `PropDictNpArray` -/
def memPropOf (p : PropArr) : Option Geff.PRead.MemProp :=
  match maskBack p.missing with
  | none => none
  | some ms =>
    match p.values with
    | .dense a => (arrOfNd a).map fun A => ⟨.dense a.dtype A.trail A.rows, ms⟩
    | .obj es => some ⟨.object es, ms⟩

/-- apply a partial translation to every value of a dict (`none` as soon as one fails) -/
def optMapSnd {β γ : Type} (f : β → Option γ) : List (String × β) → Option (List (String × γ))
  | [] => some []
  | (k, v) :: t =>
    match f v, optMapSnd f t with
    | some a, some r => some ((k, a) :: r)
    | _, _ => none

/-- everything of the metadata the partial-read model does not look at, as an opaque token -/
def metaRestOf (m : GeffAttr) : String := toString m.directed ++ "|" ++ toString m.axes

/-- **the contents of C01's flat store as C09's reader sees them** (read with C01's own `readMeta`,
`expectArray`, `propNames`, `readProps`); `none` when the store is not a readable geff or holds values
outside C09's representation (non-integer ids, a rank-0 property array, an unknown dtype name) -/
def absStore (s : St) : Option Geff.PRead.Store :=
  match Geff.WR.readMeta s, Geff.WR.expectArray s [NODES, IDS], Geff.WR.expectArray s [EDGES, IDS],
      Geff.WR.propNames s NODES, Geff.WR.propNames s EDGES with
  | .ok md, .ok nid, .ok eid, .ok nn, .ok en =>
    match Geff.WR.readProps s [NODES, PROPS] nn, Geff.WR.readProps s [EDGES, PROPS] en with
    | .ok nz, .ok ez =>
      match intsOf nid.flat, (intsOf eid.flat).bind pairsOf, optMapSnd zpOf nz, optMapSnd zpOf ez,
          optMapSnd pmOf md.nodeProps, optMapSnd pmOf md.edgeProps with
      | some ids, some es, some np, some ep, some nm, some em => some ⟨ids, es, np, ep, nm, em, metaRestOf md⟩
      | _, _, _, _, _, _ => none
    | _, _ => none
  | _, _, _, _, _ => none

/-- **C01's read result as C09's `InMemoryGeff`** (the metadata lists the loaded properties only, as
`GeffReader.build` prunes it) -/
def memOf (r : ReadResult) : Option Geff.PRead.InMem :=
  match intsOf r.nodeIds.flat, (intsOf r.edgeIds.flat).bind pairsOf, optMapSnd memPropOf r.nodeProps,
      optMapSnd memPropOf r.edgeProps, optMapSnd pmOf r.md.nodeProps, optMapSnd pmOf r.md.edgeProps with
  | some ids, some es, some np, some ep, some nm, some em =>
    some ⟨ids, es, np, ep, nm.filter (fun p => Geff.PRead.hasKey p.1 np), em.filter (fun p => Geff.PRead.hasKey p.1 ep),
      metaRestOf r.md⟩
  | _, _, _, _, _, _ => none

def castId : Dtype → Val → Val := fun _ v => v

/-! ### lemmas: rows -/

theorem length_chunks (k n : Nat) (fl : List Val) : (chunks k n fl).length = n := by
  induction n generalizing fl with
  | zero => rfl
  | succ n ih => simp [chunks, ih]

theorem map_map_castId (d : Dtype) (rows : List (List Val)) : rows.map (·.map (castId d)) = rows := by
  have : (fun (x : List Val) => x.map (castId d)) = id := by
    funext x
    show x.map id = x
    exact List.map_id x
  rw [this, List.map_id]

/-! ### lemmas: the two var-length decoders agree -/

theorem mapM_cons_res {α β} (f : α → Geff.PRead.Res β) (a : α) (t : List α) :
    (a :: t).mapM f = (do let b ← f a; let bs ← t.mapM f; pure (b :: bs)) := List.mapM_cons

/-- row by row, C09's decoder (rows of the table, full data) does what C11's / C01's codec does -/
theorem decode_chunks (dt : Dtype) (data : List Val) (w : Nat) : ∀ (n : Nat) (flat : List Val)
    (rs : List (Nat × List Nat)) (es : List NdArr),
    Geff.Vlen.parseRows w n flat = some rs → Geff.Vlen.decodeRows dt data rs = .ok es →
    (chunks w n flat).mapM (Geff.PRead.decodeValuesRow dt data) = .ok es := by
  intro n
  induction n with
  | zero =>
    intro flat rs es hp hd
    simp only [Geff.Vlen.parseRows, Option.some.injEq] at hp
    subst hp
    simp only [Geff.Vlen.decodeRows, Geff.Vlen.Outcome.ok.injEq] at hd
    subst hd
    rfl
  | succ n ih =>
    intro flat rs es hp hd
    simp only [Geff.Vlen.parseRows] at hp
    cases hm : (flat.take w).mapM Geff.Vlen.valNat? with
    | none => simp [hm] at hp
    | some osh =>
      cases osh with
      | nil => simp [hm] at hp
      | cons o sh =>
        simp only [hm] at hp
        cases hr : Geff.Vlen.parseRows w n (flat.drop w) with
        | none => simp [hr] at hp
        | some rs' =>
          simp only [hr, Option.some.injEq] at hp
          subst hp
          simp only [Geff.Vlen.decodeRows] at hd
          cases h1 : Geff.Vlen.decodeRow dt data (o, sh) with
          | ok a =>
            simp only [h1] at hd
            cases h2 : Geff.Vlen.decodeRows dt data rs' with
            | ok l =>
              simp only [h2, Geff.Vlen.Outcome.ok.injEq] at hd
              subst hd
              have ih' := ih (flat.drop w) rs' l hr h2
              simp only [chunks]
              rw [mapM_cons_res, ih']
              simp only [Geff.PRead.decodeValuesRow, hm, h1, Geff.PRead.ofVlen]
              rfl
            | valueError => simp [h2] at hd
            | typeError => simp [h2] at hd
            | other x => simp [h2] at hd
            | unmodelled x => simp [h2] at hd
          | valueError => simp [h1] at hd
          | typeError => simp [h1] at hd
          | other x => simp [h1] at hd
          | unmodelled x => simp [h1] at hd

/-- C09's `deserialize` on the rows of the table = the codec's `deserialize_vlen_property_data` -/
theorem deserialize_agree (v d : NdArr) (es : List NdArr) (A : Geff.PRead.Arr)
    (h : Geff.Vlen.deserializeVlen v d = .ok es) (hA : arrOfNd v = some A) :
    Geff.PRead.deserialize d.dtype A.trail A.rows d.flat = .ok es := by
  unfold Geff.Vlen.deserializeVlen at h
  split at h
  · cases h
  unfold arrOfNd at hA
  cases hs : v.shape with
  | nil => rw [hs] at h; simp at h
  | cons n tr =>
    rw [hs] at h hA
    simp only [Option.some.injEq] at hA
    subst hA
    cases tr with
    | nil =>
      simp only [] at h
      split at h
      · rename_i hn
        simp only [Geff.Vlen.Outcome.ok.injEq] at h
        subst h; subst hn
        rfl
      · cases h
    | cons w tr' =>
      cases tr' with
      | cons _ _ => simp at h
      | nil =>
        simp only [] at h
        have hw : prod [w] = w := by simp [prod]
        split at h
        · rename_i hn
          simp only [Geff.Vlen.Outcome.ok.injEq] at h
          subst h; subst hn
          rfl
        · rename_i hn
          split at h
          · cases h
          · rename_i hw0
            cases hp : Geff.Vlen.parseRows w n v.flat with
            | none => simp [hp] at h
            | some rs =>
              simp only [hp] at h
              unfold Geff.PRead.deserialize
              simp only [hw]
              have hne : (chunks w n v.flat).isEmpty = false := by
                cases n with
                | zero => exact absurd rfl hn
                | succ k => rfl
              rw [hne]
              simp only [Bool.false_eq_true, if_false, hw0]
              exact decode_chunks d.dtype d.flat w n v.flat rs es hp h

end Geff.Link
